package c10

import (
	"fmt"
	"math/big"
	"math/rand"

	"go.starlark.net/starlark"
	"go.starlark.net/syntax"
)

// sliceIdxBig is sliceIdx on unbounded integers: the first selected index and the number of
// selected indices of [lo:hi:step] on a sequence of length n (nil bound = omitted, step != 0).
func sliceIdxBig(n, lo, hi, step *big.Int) (first, count *big.Int) {
	norm := func(v, lower, upper *big.Int) *big.Int {
		v = new(big.Int).Set(v)
		if v.Sign() < 0 {
			v.Add(v, n)
		}
		if v.Cmp(lower) < 0 {
			return new(big.Int).Set(lower)
		}
		if v.Cmp(upper) > 0 {
			return new(big.Int).Set(upper)
		}
		return v
	}
	if step.Sign() > 0 {
		s, e := new(big.Int), new(big.Int).Set(n)
		if lo != nil {
			s = norm(lo, bigZero, n)
		}
		if hi != nil {
			e = norm(hi, bigZero, n)
		}
		if e.Cmp(s) <= 0 {
			return s, new(big.Int)
		}
		// (e-s-1)/step + 1
		c := new(big.Int).Sub(e, s)
		c.Sub(c, bigOne)
		q, _, _ := floorDivMod(c, step)
		return s, q.Add(q, bigOne)
	}
	nm1 := new(big.Int).Sub(n, bigOne)
	s, e := new(big.Int).Set(nm1), bi(-1)
	if lo != nil {
		s = norm(lo, bi(-1), nm1)
	}
	if hi != nil {
		e = norm(hi, bi(-1), nm1)
	}
	if s.Cmp(e) <= 0 {
		return s, new(big.Int)
	}
	c := new(big.Int).Sub(s, e)
	c.Sub(c, bigOne)
	q, _, _ := floorDivMod(c, new(big.Int).Neg(step))
	return s, q.Add(q, bigOne)
}

// genLongRange draws a range of length around 2^31, 2^32, 2^40, 2^62 or close to 2^63, whose span is a machine integer.
func genLongRange(r *rand.Rand) (start, stop, step *big.Int, shape string, ok bool) {
	k := []uint{31, 32, 40, 62, 63}[r.Intn(5)]
	L := pow2(k)
	if k == 63 {
		L.Sub(L, bi(int64(2+r.Intn(4)))) // 2^63-2 .. 2^63-5
	} else {
		L.Add(L, bi(int64(r.Intn(7)-3)))
	}
	shape = fmt.Sprintf("long-len~2^%d", k)
	// |step| * L must stay below 2^63
	limit := new(big.Int).Sub(maxI64, bi(4))
	maxStep, _, _ := floorDivMod(limit, L)
	if maxStep.Sign() <= 0 {
		maxStep = bi(1)
	}
	mag := bi(1)
	switch r.Intn(6) {
	case 0, 1:
		mag = bi(1)
	case 2:
		mag = bi(int64(2 + r.Intn(6)))
	case 3:
		mag = new(big.Int).Set(maxStep)
	case 4:
		mag = new(big.Int).Rand(r, maxStep)
		mag.Add(mag, bigOne)
	default:
		mag = pow2(uint(r.Intn(32)))
	}
	if mag.Cmp(maxStep) > 0 {
		mag.Set(maxStep)
	}
	extent := new(big.Int).Mul(mag, L)
	// ascending form: lowest element a, elements a + i*mag; a in [minI64+2, maxI64-2-extent]
	room := new(big.Int).Sub(maxI64, bi(2))
	room.Sub(room, extent)
	lowMin := new(big.Int).Add(minI64, bi(2))
	var a *big.Int
	switch r.Intn(6) {
	case 0:
		a = bi(0)
	case 1:
		a = bi(int64(r.Intn(21) - 10))
	case 2:
		a = new(big.Int).Add(lowMin, bi(int64(r.Intn(3))))
	case 3:
		a = new(big.Int).Sub(room, bi(int64(r.Intn(3))))
	case 4:
		a = new(big.Int).Neg(new(big.Int).Rsh(extent, 1)) // centred on zero
	default:
		a = genParam(r)
	}
	if a.Cmp(lowMin) < 0 {
		a.Set(lowMin)
	}
	if a.Cmp(room) > 0 {
		a.Set(room)
	}
	if a.Cmp(lowMin) < 0 {
		return nil, nil, nil, "", false
	}
	// partial last step: the stop may be anywhere in (last, last+mag]
	slack := new(big.Int)
	if mag.Cmp(bigOne) > 0 && r.Intn(2) == 0 {
		slack.Rand(r, mag)
	}
	if r.Intn(2) == 0 {
		start = a
		step = mag
		stop = new(big.Int).Add(a, extent)
		stop.Sub(stop, slack)
	} else {
		// descending: start at the top element
		top := new(big.Int).Add(a, extent)
		start = top
		step = new(big.Int).Neg(mag)
		stop = new(big.Int).Add(a, slack)
		shape += "-desc"
	}
	if !fitsI64(start) || !fitsI64(stop) || rangeKeyClass(start, stop, step) != "int" {
		return nil, nil, nil, "", false
	}
	return start, stop, step, shape, true
}

// genBound draws a slice bound / stride / index for a sequence of length L. nil = omitted.
func genBound(r *rand.Rand, L *big.Int, allowNil bool) *big.Int {
	neg := func(x *big.Int) *big.Int {
		if r.Intn(2) == 0 {
			return new(big.Int).Neg(x)
		}
		return x
	}
	switch p := r.Intn(24); p {
	case 0, 1:
		if allowNil {
			return nil
		}
		return bi(1)
	case 2:
		return bi(0)
	case 3:
		return neg(bi(1))
	case 4:
		return neg(bi(1<<31 - 1))
	case 5:
		return neg(bi(1 << 31))
	case 6:
		return neg(bi(1<<31 + 1))
	case 7:
		return neg(pow2(32))
	case 8:
		return neg(pow2(35))
	case 9:
		return neg(new(big.Int).Sub(L, bigOne))
	case 10:
		return neg(new(big.Int).Set(L))
	case 11:
		return neg(new(big.Int).Add(L, bigOne))
	case 12:
		return neg(pow2(62))
	case 13:
		return neg(pow2(63))
	case 14:
		return neg(pow2(64))
	case 15:
		return pow2(200)
	case 16:
		// just beyond 2^62 (half the range of int)
		return neg(new(big.Int).Add(pow2(62), bi(int64(1+r.Intn(5)))))
	case 17:
		return neg(new(big.Int).Rsh(L, 1))
	case 18, 19:
		if L.Sign() > 0 {
			return neg(new(big.Int).Rand(r, L))
		}
		return bi(0)
	case 20:
		return neg(bi(int64(2 + r.Intn(20))))
	case 21:
		return neg(new(big.Int).Sub(maxI64, bi(int64(r.Intn(3)))))
	case 22:
		return neg(new(big.Int).Add(pow2(uint(20+r.Intn(43))), bi(int64(r.Intn(3)-1))))
	}
	return neg(new(big.Int).Sub(L, bi(int64(2+r.Intn(5)))))
}

func boundStr(b *big.Int) string {
	if b == nil {
		return ""
	}
	return b.String()
}

func boundVal(r *rand.Rand, b *big.Int) starlark.Value {
	if b == nil {
		return starlark.None
	}
	return mkInt(r, b)
}

// limHalf is MaxInt/2 = 2^62-1: bounds of larger magnitude form their own input class.
var limHalf = new(big.Int).Sub(pow2(62), bigOne)

// boundsClass names the input class of a slice by the magnitude of its largest bound.
func boundsClass(bs ...*big.Int) string {
	cls := "bounds-within-int32"
	for _, b := range bs {
		if b == nil {
			continue
		}
		a := new(big.Int).Abs(b)
		switch {
		case a.Cmp(limHalf) > 0:
			return "bounds-beyond-maxint/2"
		case !fitsI32(b):
			cls = "bounds-beyond-int32"
		}
	}
	return cls
}

// famLongRange: slicing and indexing of ranges with 2^31 or more elements, with bounds and strides
// of any magnitude. Exact result or failure; never a wrong value.
func famLongRange(e *env, r *rand.Rand) {
	rangeB := e.builtin("range")
	for n := 0; n < 5; n++ {
		start, stop, step, shape, ok := genLongRange(r)
		if !ok {
			e.c.Count("long_range_generation_skipped", 1)
			continue
		}
		e.keyOverride, e.relaxFail = "", false
		e.c.Cover("range_shapes", shape)
		e.distinctTuple("longrange", start, stop, step)
		ex := newExactRange(start, stop, step)
		L := ex.n
		desc := fmt.Sprintf("range(%s, %s, %s)", start, stop, step)
		o := do(func() (starlark.Value, error) {
			return starlark.Call(e.th, rangeB, starlark.Tuple{mkInt(r, start), mkInt(r, stop), mkInt(r, step)}, nil)
		})
		e.judged++
		if e.checkPanic("range", "long", o, func() string { return desc }) {
			continue
		}
		if o.err != nil {
			e.mix(0xE)
			e.violation("C10 fails range long", fmt.Sprintf("%s failed: %s", desc, errStr(o.err)), map[string]any{"expr": desc, "error": errStr(o.err), "variant": e.c.Variant})
			continue
		}
		rv := o.v
		e.wantInt("range.len", "long", e.callB("len", rv), L, mustSucceed, func() string { return "len(" + desc + ")" })

		// ---- indexing the long range at the boundary values
		for j := 0; j < 6; j++ {
			i := genBound(r, L, false)
			k := new(big.Int).Set(i)
			if k.Sign() < 0 {
				k.Add(k, L)
			}
			env := starlark.StringDict{"r": rv, "i": mkInt(r, i)}
			exs := func() string { return fmt.Sprintf("%s[%s]", desc, i) }
			cls := "long " + boundsClass(i)
			if k.Sign() >= 0 && k.Cmp(L) < 0 {
				fm := mustSucceed
				if !fitsI32(i) {
					fm = mayFail // implementation limit of the index domain: an error, never a wrong value
				}
				e.wantInt("range.index", cls, e.evalEnv("r[i]", env), ex.at(k), fm, exs)
			} else {
				e.wantInt("range.index", cls+"-out-of-range", e.evalEnv("r[i]", env), nil, mustFail, exs)
			}
		}
		e.c.Cover("ops", "long range[i]")

		// ---- slicing
		for j := 0; j < 7; j++ {
			lo, hi := genBound(r, L, true), genBound(r, L, true)
			var st *big.Int
			if r.Intn(5) != 0 {
				st = genBound(r, L, true)
			}
			stEff := bi(1)
			if st != nil {
				stEff = st
			}
			cls := "long " + boundsClass(lo, hi, st)
			e.c.Cover("slice_bound_classes", boundsClass(lo, hi, st))
			// every symptom (wrong value, spurious failure, missing failure) of one bound class shares one key
			e.keyOverride = "C10 wrong range.slice " + cls
			// explicit None or omitted bounds
			env := starlark.StringDict{"r": rv}
			part := func(name string, b *big.Int) string {
				if b == nil && r.Intn(2) == 0 {
					return ""
				}
				env[name] = boundVal(r, b)
				return name
			}
			src := "r[" + part("lo", lo) + ":" + part("hi", hi)
			if st != nil || r.Intn(3) == 0 {
				src += ":" + part("st", st)
			}
			src += "]"
			sdesc := fmt.Sprintf("%s[%s:%s:%s]", desc, boundStr(lo), boundStr(hi), boundStr(st))
			so := e.evalEnv(src, env)
			if stEff.Sign() == 0 {
				e.wantInt("range.slice", "zero-step", so, nil, mustFail, func() string { return sdesc })
				continue
			}
			first, count := sliceIdxBig(L, lo, hi, stEff)
			var sub exactRange
			if count.Sign() > 0 {
				sub = exactRange{ex.at(first), new(big.Int).Mul(step, stEff), count}
			} else {
				sub = exactRange{bi(0), bi(1), bi(0)}
			}
			e.distinctTuple("longslice", start, step, L, first, count, stEff)
			e.judged++
			if e.checkPanic("range.slice", cls, so, func() string { return sdesc }) {
				continue
			}
			if so.err != nil {
				e.mix(0xE)
				if cls == "long bounds-within-int32" {
					e.violation("C10 fails range.slice "+cls, fmt.Sprintf("%s failed: %s", sdesc, errStr(so.err)), map[string]any{"expr": sdesc, "error": errStr(so.err), "variant": e.c.Variant})
				} else {
					e.c.Count("failed_as_allowed", 1)
					e.c.Count("long_slice_rejected", 1)
				}
				continue
			}
			sv := so.v
			e.c.Count("long_slices_judged", 1)
			if count.Sign() > 0 {
				e.c.Count("long_slices_nonempty", 1)
			}
			envS := starlark.StringDict{"s": sv}
			site := "range.slice"
			e.wantInt(site, cls, e.callB("len", sv), count, mustSucceed, func() string { return "len(" + sdesc + ")" })
			e.wantBool(site, cls, e.callB("bool", sv), count.Sign() > 0, mustSucceed, func() string { return "bool(" + sdesc + ")" })
			if count.Sign() > 0 {
				last := new(big.Int).Sub(count, bigOne)
				e.wantInt(site, cls, e.evalEnv("s[0]", envS), sub.at(bigZero), mustSucceed, func() string { return sdesc + "[0]" })
				e.wantInt(site, cls, e.evalEnv("s[-1]", envS), sub.at(last), mustSucceed, func() string { return sdesc + "[-1]" })
				// interior indexes
				for _, k := range []*big.Int{bi(1), new(big.Int).Rsh(count, 1), new(big.Int).Rand(r, count), new(big.Int).Sub(count, bi(2))} {
					k := k
					if k.Sign() < 0 || k.Cmp(count) >= 0 {
						continue
					}
					fm := mustSucceed
					if !fitsI32(k) {
						fm = mayFail
					}
					envS["k"] = mkInt(r, k)
					e.wantInt(site, cls, e.evalEnv("s[k]", envS), sub.at(k), fm, func() string { return fmt.Sprintf("%s[%s]", sdesc, k) })
				}
				// out of range just past the end
				envS["k"] = mkInt(r, count)
				e.wantInt(site, cls+"-out-of-range", e.evalEnv("s[k]", envS), nil, mustFail, func() string { return fmt.Sprintf("%s[%s]", sdesc, count) })
			} else {
				e.wantInt(site, cls+"-out-of-range", e.evalEnv("s[0]", envS), nil, mustFail, func() string { return sdesc + "[0]" })
			}
			// membership: selected elements, neighbours in the base range, one past the end
			var cands []*big.Int
			if count.Sign() > 0 {
				cands = append(cands, sub.at(bigZero), sub.at(new(big.Int).Sub(count, bigOne)), sub.at(new(big.Int).Rsh(count, 1)), sub.at(new(big.Int).Rand(r, count)))
				cands = append(cands, sub.at(count), sub.at(bi(-1)))
				cands = append(cands, new(big.Int).Add(sub.at(bigZero), step), new(big.Int).Add(sub.at(bigZero), bigOne))
			}
			cands = append(cands, ex.at(bigZero), ex.at(new(big.Int).Sub(L, bigOne)), ex.at(new(big.Int).Rand(r, L)))
			for _, x := range cands {
				x := x
				mo := do(func() (starlark.Value, error) { return starlark.Binary(syntax.IN, starlark.MakeBigInt(x), sv) })
				e.wantBool(site, cls, mo, sub.containsInt(x), mustSucceed, func() string { return fmt.Sprintf("%s in %s", x, sdesc) })
			}
			// first elements of the iteration
			{
				e.judged++
				var got []starlark.Value
				p := slSafe(func() {
					it := starlark.Iterate(sv)
					if it == nil {
						return
					}
					defer it.Done()
					var x starlark.Value
					for len(got) < 3 && it.Next(&x) {
						got = append(got, x)
					}
				})
				wantN := int64(3)
				if count.IsInt64() && count.Int64() < 3 {
					wantN = count.Int64()
				}
				bad := ""
				if p {
					bad = "iteration panicked"
				} else if int64(len(got)) != wantN {
					bad = fmt.Sprintf("iteration yields %d elements, want %d", len(got), wantN)
				} else {
					for k, g := range got {
						gi, ok := g.(starlark.Int)
						if !ok || gi.BigInt().Cmp(sub.at(bi(int64(k)))) != 0 {
							bad = fmt.Sprintf("element %d of the iteration is %s, want %s", k, valStr(g), sub.at(bi(int64(k))))
							break
						}
					}
				}
				if bad != "" {
					e.violation("C10 wrong "+site+" "+cls, sdesc+": "+bad, map[string]any{"expr": sdesc, "problem": bad, "variant": e.c.Variant})
				}
			}
			// str denotes the same sequence
			{
				e.judged++
				s := ""
				if p := slSafe(func() { s = sv.String() }); p {
					e.violation("C10 panic "+site+" "+cls, "String() of "+sdesc+" panicked", map[string]any{"expr": sdesc})
				} else if a, b, c, ok := parseRangeStr(s); !ok || c.Sign() == 0 || !newExactRange(a, b, c).equal(sub) {
					e.violation("C10 wrong "+site+" "+cls, fmt.Sprintf("str(%s) = %q denotes a different sequence (want %s elements from %s by %s)", sdesc, s, sub.n, sub.start, sub.step),
						map[string]any{"expr": sdesc, "got": s, "variant": e.c.Variant})
				}
			}
			// equality with the directly constructed range of the same sequence
			if count.Sign() > 0 && fitsI64(sub.start) && fitsI64(sub.step) {
				end := sub.at(sub.n)
				if fitsI64(end) && rangeKeyClass(sub.start, end, sub.step) == "int" {
					eo := do(func() (starlark.Value, error) {
						d, err := starlark.Call(e.th, rangeB, starlark.Tuple{starlark.MakeBigInt(sub.start), starlark.MakeBigInt(end), starlark.MakeBigInt(sub.step)}, nil)
						if err != nil {
							return nil, err
						}
						ok, err := starlark.Equal(sv, d)
						return starlark.Bool(ok), err
					})
					e.wantBool(site, cls, eo, true, mustSucceed, func() string { return fmt.Sprintf("%s == range(%s, %s, %s)", sdesc, sub.start, end, sub.step) })
				}
			}
			// second oracle: CPython's range slicing is exact for all of this
			{
				got := count.String() + ",-,-"
				if count.Sign() > 0 {
					got = count.String() + "," + sub.at(bigZero).String() + "," + sub.at(new(big.Int).Sub(count, bigOne)).String()
				}
				e.pyAdd("range.slice", got, "rangeslice", start.String(), stop.String(), step.String(), boundStr(lo), boundStr(hi), boundStr(st))
			}
		}
		e.keyOverride = ""
		e.c.Cover("ops", "long range[a:b:c]")
	}
}

func parseRangeStr(s string) (a, b, c *big.Int, ok bool) {
	m := reRange.FindStringSubmatch(s)
	if m == nil {
		return nil, nil, nil, false
	}
	switch {
	case m[2] == "":
		a = bi(0)
		b, _ = new(big.Int).SetString(m[1], 10)
		c = bi(1)
	case m[3] == "":
		a, _ = new(big.Int).SetString(m[1], 10)
		b, _ = new(big.Int).SetString(m[2], 10)
		c = bi(1)
	default:
		a, _ = new(big.Int).SetString(m[1], 10)
		b, _ = new(big.Int).SetString(m[2], 10)
		c, _ = new(big.Int).SetString(m[3], 10)
	}
	return a, b, c, true
}
