package c10

import (
	"fmt"
	"math/big"
	"math/rand"
	"strconv"
	"strings"

	"go.starlark.net/starlark"
	"go.starlark.net/syntax"
)

func quote(s string) string { return strconv.Quote(s) } // ASCII-only inputs: valid Starlark string literal

// randCase randomly upper-cases letters.
func randCase(r *rand.Rand, s string) string {
	switch r.Intn(3) {
	case 0:
		return s
	case 1:
		return strings.ToUpper(s)
	}
	b := []byte(s)
	for i := range b {
		if b[i] >= 'a' && b[i] <= 'z' && r.Intn(2) == 0 {
			b[i] -= 32
		}
	}
	return string(b)
}

var prefixOf = map[int]string{2: "0b", 8: "0o", 16: "0x"}

// genIntString builds an argument string and base for int(s, base), valid or deliberately broken.
func genIntString(r *rand.Rand, x *big.Int) (s string, base int) {
	base = 2 + r.Intn(35)
	switch r.Intn(6) {
	case 0:
		base = 10
	case 1:
		base = []int{2, 8, 16}[r.Intn(3)]
	case 2:
		base = 0
	}
	mag := new(big.Int).Abs(x)
	sign := ""
	if x.Sign() < 0 {
		sign = "-"
	} else if r.Intn(4) == 0 {
		sign = "+"
	}
	digitsBase := base
	prefix := ""
	if base == 0 {
		digitsBase = []int{2, 8, 10, 16}[r.Intn(4)]
		prefix = prefixOf[digitsBase]
	} else if p, ok := prefixOf[base]; ok && r.Intn(2) == 0 {
		prefix = p
	}
	if prefix != "" && r.Intn(3) == 0 {
		prefix = strings.ToUpper(prefix[:1]) + strings.ToUpper(prefix[1:])
	}
	digits := randCase(r, fmtBase(mag, digitsBase, false))
	if r.Intn(5) == 0 && (base != 0 || prefix != "") {
		digits = "000"[:1+r.Intn(3)] + digits
	}
	s = sign + prefix + digits
	// mutations (mostly producing strings that must be rejected)
	switch r.Intn(16) {
	case 0:
		s = ""
	case 1:
		s = sign + prefix // no digits
	case 2:
		s = sign + sign + prefix + digits
		if sign == "" {
			s = "+-" + prefix + digits
		}
	case 3:
		if prefix != "" {
			s = prefix + "-" + digits // sign after the prefix
		} else {
			s = digits + "-"
		}
	case 4:
		// a digit that is out of range for the base
		db := digitsBase
		if db < 36 {
			s = sign + prefix + digits + string(digitChars[db])
		} else {
			s = sign + prefix + digits + "!"
		}
	case 5:
		// a prefix of another base: "0x11" in base 10 is invalid, "0b1" in base 16 is 0xb1
		other := []string{"0x", "0o", "0b", "0X", "0O", "0B"}[r.Intn(6)]
		s = sign + other + digits
	case 6:
		s = sign + "0" + fmtBase(mag, 10, false) // leading zero: invalid for base 0 unless all zeros
	case 7:
		s = sign + prefix + digits + []string{" ", "_", "L", ".", ".0", "e3", "\t"}[r.Intn(7)]
	case 8:
		s = []string{" ", "_"}[r.Intn(2)] + s
	case 9:
		if len(digits) > 2 {
			s = sign + prefix + digits[:1] + "_" + digits[1:]
		}
	}
	return s, base
}

func famStrings(e *env, r *rand.Rand) {
	for n := 0; n < 40; n++ {
		xo := genInt(r)
		x := xo.v
		e.c.Cover("int_class", xo.class)
		e.distinctTuple("str", x)
		X := mkInt(r, x)
		cls := intClass(x)
		dec := fmtBase(x, 10, false)

		// ---- formatting
		e.wantStr("str(int)", cls, e.callB("str", X), dec, mustSucceed, func() string { return fmt.Sprintf("str(%s)", x) })
		e.wantStr("repr(int)", cls, e.callB("repr", X), dec, mustSucceed, func() string { return fmt.Sprintf("repr(%s)", x) })
		e.judged++
		if g := X.String(); g != dec {
			e.violation("C10 wrong Int.String "+cls, fmt.Sprintf("Int(%s).String() = %q, want %q", x, g, dec), map[string]any{"got": g, "want": dec, "variant": e.c.Variant})
		}
		for _, f := range []struct {
			verb  string
			base  int
			upper bool
		}{{"d", 10, false}, {"i", 10, false}, {"x", 16, false}, {"X", 16, true}, {"o", 8, false}, {"s", 10, false}, {"r", 10, false}} {
			f := f
			want := fmtBase(x, f.base, f.upper)
			o := do(func() (starlark.Value, error) { return starlark.Binary(syntax.PERCENT, starlark.String("%"+f.verb), X) })
			e.wantStr("format%"+f.verb, cls, o, want, mustSucceed, func() string { return fmt.Sprintf("%q %% %s", "%"+f.verb, x) })
			e.c.Cover("ops", "%"+f.verb)
			if f.verb != "s" && f.verb != "r" {
				e.pyAdd("format%"+f.verb, want, "fmt", f.verb, x.String())
			}
		}
		{
			// several conversions in one format, tuple operand, literal text and %%
			want := "a" + fmtBase(x, 16, false) + "%" + dec + ":" + fmtBase(x, 8, false)
			o := do(func() (starlark.Value, error) {
				return starlark.Binary(syntax.PERCENT, starlark.String("a%x%%%d:%o"), starlark.Tuple{X, X, X})
			})
			e.wantStr("format-multi", cls, o, want, mustSucceed, func() string { return fmt.Sprintf(`"a%%x%%%%%%d:%%o" %% (%s, %s, %s)`, x, x, x) })
		}
		{
			fo := do(func() (starlark.Value, error) {
				m, err := starlark.String("<{}>").Attr("format")
				if err != nil {
					return nil, err
				}
				return starlark.Call(e.th, m, starlark.Tuple{X}, nil)
			})
			e.wantStr("str.format", cls, fo, "<"+dec+">", mustSucceed, func() string { return fmt.Sprintf(`"<{}>".format(%s)`, x) })
		}
		// through source, literal operand
		if r.Intn(2) == 0 {
			verb := []string{"d", "x", "X", "o"}[r.Intn(4)]
			base, upper := 10, false
			switch verb {
			case "x":
				base = 16
			case "X":
				base, upper = 16, true
			case "o":
				base = 8
			}
			src := `"%` + verb + `" % ` + intSrc(r, x)
			e.wantStr("format%"+verb, cls, e.eval(src), fmtBase(x, base, upper), mustSucceed, func() string { return src })
			src2 := "str(" + intSrc(r, x) + ")"
			e.wantStr("str(int)", cls, e.eval(src2), dec, mustSucceed, func() string { return src2 })
			e.c.Cover("ops_source", "format/str")
		}

		// ---- int(s, base)
		for j := 0; j < 6; j++ {
			s, base := genIntString(r, x)
			want, st := parseIntSpec(s, base)
			S := starlark.String(s)
			viaSource := r.Intn(4) == 0
			var o outcome
			var ex func() string
			switch {
			case viaSource:
				src := fmt.Sprintf("int(%s, %d)", quote(s), base)
				if base == 10 && r.Intn(2) == 0 {
					src = fmt.Sprintf("int(%s)", quote(s))
				}
				o = e.eval(src)
				ex = func() string { return src }
				e.c.Cover("ops_source", "int(s, base)")
			case base == 10 && r.Intn(2) == 0:
				o = e.callB("int", S)
				ex = func() string { return fmt.Sprintf("int(%q)", s) }
			case r.Intn(3) == 0:
				b := e.builtin("int")
				o = do(func() (starlark.Value, error) {
					return starlark.Call(e.th, b, starlark.Tuple{S}, []starlark.Tuple{{starlark.String("base"), starlark.MakeInt(base)}})
				})
				ex = func() string { return fmt.Sprintf("int(%q, base=%d)", s, base) }
			default:
				o = e.callB("int", S, starlark.MakeInt(base))
				ex = func() string { return fmt.Sprintf("int(%q, %d)", s, base) }
			}
			bcls := "base" + strconv.Itoa(base)
			switch st {
			case parseValid:
				e.wantInt("int(str)", bcls, o, want, mustSucceed, ex)
				e.c.Count("int_str_valid", 1)
				if o.err == nil && o.p == nil {
					e.pyAdd("int(str)", want.String(), "parse", s, strconv.Itoa(base))
				}
			case parseInvalid:
				e.wantInt("int(str)", bcls+"-invalid", o, nil, mustFail, ex)
				e.c.Count("int_str_invalid", 1)
			default:
				e.judged++
				e.checkPanic("int(str)", bcls, o, ex)
				e.c.Count("int_str_unjudged_spec_silent", 1)
			}
			e.c.Cover("int_bases", strconv.Itoa(base))
		}
		// str -> int round trip through the implementation only
		{
			b := 2 + r.Intn(35)
			s := fmtBase(x, b, r.Intn(2) == 0)
			e.wantInt("int(str)", "roundtrip", e.callB("int", starlark.String(s), starlark.MakeInt(b)), x, mustSucceed, func() string { return fmt.Sprintf("int(%q, %d)", s, b) })
		}
		// invalid bases must fail; a non-string with a base must fail
		{
			bad := []*big.Int{bi(1), bi(-1), bi(37), bi(-2), pow2(32), pow2(40), bi(1 << 31)}[r.Intn(7)]
			o := e.callB("int", starlark.String("1"), starlark.MakeBigInt(bad))
			e.wantInt("int(str)", "invalid-base", o, nil, mustFail, func() string { return fmt.Sprintf(`int("1", %s)`, bad) })
			o = e.callB("int", X, starlark.MakeInt(10))
			e.wantInt("int(int,base)", "non-string", o, nil, mustFail, func() string { return fmt.Sprintf("int(%s, 10)", x) })
		}
	}
}

// famLiterals: integer literals in all bases through the scanner, the parser and the compiler.
func famLiterals(e *env, r *rand.Rand) {
	var prog strings.Builder
	type lit struct {
		name string
		src  string
		want *big.Int
	}
	var lits []lit
	for n := 0; n < 60; n++ {
		xo := genInt(r)
		mag := new(big.Int).Abs(xo.v)
		e.c.Cover("int_class", xo.class)
		e.distinctTuple("lit", mag)
		src, base := intLiteral(r, mag, true)
		e.c.Cover("literal_bases", strconv.Itoa(base))
		bigOctBin := (base == 8 || base == 2) && mag.BitLen() > 63
		ex := func() string { return src }
		if bigOctBin {
			// The scanner rejects octal/binary literals of more than 63 bits: a static error, not a wrong
			// value (recorded under C14). Here: it must not yield a wrong value.
			o := e.eval(src)
			e.wantInt("literal", "base"+strconv.Itoa(base)+"-over-63-bits", o, mag, mayFail, ex)
			if o.err != nil {
				e.c.Count("literal_oct_bin_over_63_bits_rejected", 1)
			}
			continue
		}
		cls := "base" + strconv.Itoa(base)
		switch r.Intn(3) {
		case 0:
			e.wantInt("literal", cls, e.eval(src), mag, mustSucceed, ex)
		case 1:
			// the literal as part of an expression; the token must end where the digits end
			src2 := src + " if " + src + "==" + src + " else 0"
			e.wantInt("literal", cls, e.eval(src2), mag, mustSucceed, func() string { return src2 })
		default:
			name := fmt.Sprintf("v%d", n)
			fmt.Fprintf(&prog, "%s = %s\n", name, src)
			fmt.Fprintf(&prog, "def f%d():\n    return [%s, -%s][1]\nn%d = f%d()\n", n, src, src, n, n)
			lits = append(lits, lit{name, src, mag}, lit{fmt.Sprintf("n%d", n), "-" + src + " (function constant)", new(big.Int).Neg(mag)})
		}
		// decimal literal vs. the same value in another base must compare equal in source
		if r.Intn(4) == 0 && mag.BitLen() <= 63 {
			other, _ := intLiteral(r, mag, false)
			src3 := src + " == " + other
			e.wantBool("literal", "cross-base-eq", e.eval(src3), true, mustSucceed, func() string { return src3 })
		}
	}
	if prog.Len() > 0 {
		src := prog.String()
		var globals starlark.StringDict
		o := do(func() (starlark.Value, error) {
			g, err := starlark.ExecFileOptions(e.opts, e.th, "c10lit.star", src, e.predecl)
			globals = g
			return starlark.None, err
		})
		e.judged++
		if o.p != nil || o.err != nil {
			if !e.checkPanic("exec", "literal-program", o, func() string { return src }) {
				e.violation("C10 fails exec literal-program", "a program of integer literal assignments failed: "+errStr(o.err),
					map[string]any{"src": src, "error": errStr(o.err), "variant": e.c.Variant})
			}
			return
		}
		for _, l := range lits {
			l := l
			v := globals[l.name]
			o := outcome{v: v}
			if v == nil {
				o = outcome{err: fmt.Errorf("global %s missing", l.name)}
			}
			e.wantInt("literal", "program", o, l.want, mustSucceed, func() string { return l.src })
		}
	}
}
