package c10

// The oracle: exact arithmetic written against math/big integers and the IEEE-754
// binary64 encoding only. Nothing in this file calls into go.starlark.net.

import (
	"math"
	"math/big"
	"strings"
)

var (
	bigZero = big.NewInt(0)
	bigOne  = big.NewInt(1)
	maxI64  = big.NewInt(math.MaxInt64)
	minI64  = big.NewInt(math.MinInt64)
	maxI32  = big.NewInt(math.MaxInt32)
	minI32  = big.NewInt(math.MinInt32)
)

func bi(x int64) *big.Int { return big.NewInt(x) }

func pow2(k uint) *big.Int { return new(big.Int).Lsh(bigOne, k) }

func fitsI64(x *big.Int) bool { return x.Cmp(minI64) >= 0 && x.Cmp(maxI64) <= 0 }
func fitsI32(x *big.Int) bool { return x.Cmp(minI32) >= 0 && x.Cmp(maxI32) <= 0 }

// floorDivMod returns q, r with x == q*y + r, r == 0 or sign(r) == sign(y), |r| < |y|.
// It is built on Euclidean division and verifies its own postcondition; ok is false if the
// postcondition does not hold (a bug of the oracle, reported as a harness problem).
func floorDivMod(x, y *big.Int) (q, r *big.Int, ok bool) {
	if y.Sign() == 0 {
		return nil, nil, false
	}
	q, r = new(big.Int), new(big.Int)
	q.DivMod(x, y, r) // Euclidean: 0 <= r < |y|
	if y.Sign() < 0 && r.Sign() != 0 {
		// x = q*y + r = (q-1)*y + (r+y)
		q.Sub(q, bigOne)
		r.Add(r, y)
	}
	// verify
	chk := new(big.Int).Mul(q, y)
	chk.Add(chk, r)
	if chk.Cmp(x) != 0 {
		return nil, nil, false
	}
	if r.Sign() != 0 && r.Sign() != y.Sign() {
		return nil, nil, false
	}
	if new(big.Int).Abs(r).Cmp(new(big.Int).Abs(y)) >= 0 {
		return nil, nil, false
	}
	return q, r, true
}

// bitop computes x op y on infinite two's complement bit vectors, using big.Int logic
// only on non-negative residues modulo 2^w.
func bitop(op byte, x, y *big.Int) *big.Int {
	w := uint(x.BitLen())
	if uint(y.BitLen()) > w {
		w = uint(y.BitLen())
	}
	w += 2
	mod := pow2(w)
	ux := new(big.Int).Mod(x, mod) // Euclidean, non-negative
	uy := new(big.Int).Mod(y, mod)
	z := new(big.Int)
	for i := 0; i < int(w); i++ {
		a, b := ux.Bit(i), uy.Bit(i)
		var c uint
		switch op {
		case '&':
			c = a & b
		case '|':
			c = a | b
		case '^':
			c = a ^ b
		}
		if c != 0 {
			z.SetBit(z, i, 1)
		}
	}
	if z.Bit(int(w)-1) != 0 { // negative
		z.Sub(z, mod)
	}
	return z
}

func bitnot(x *big.Int) *big.Int {
	z := new(big.Int).Neg(x)
	return z.Sub(z, bigOne)
}

func shl(x *big.Int, k uint) *big.Int { return new(big.Int).Mul(x, pow2(k)) }

func shr(x *big.Int, k uint) *big.Int {
	q, _, _ := floorDivMod(x, pow2(k))
	return q
}

// intToFloat converts x to the nearest binary64, ties to even. finite is false when the
// rounded result exceeds the largest finite float.
func intToFloat(x *big.Int) (f float64, finite bool) {
	if x.Sign() == 0 {
		return 0, true
	}
	mag := new(big.Int).Abs(x)
	n := mag.BitLen()
	var m uint64
	shift := 0
	if n <= 53 {
		m = mag.Uint64()
	} else {
		shift = n - 53
		top := new(big.Int).Rsh(mag, uint(shift))
		m = top.Uint64()
		rem := new(big.Int).Sub(mag, new(big.Int).Lsh(top, uint(shift)))
		half := pow2(uint(shift - 1))
		switch c := rem.Cmp(half); {
		case c > 0:
			m++
		case c == 0 && m&1 == 1:
			m++
		}
		if m == 1<<53 {
			m >>= 1
			shift++
		}
	}
	// value = m * 2^shift, m < 2^53
	if shift+bitlen64(m) > 1024 {
		return math.Inf(x.Sign()), false
	}
	f = math.Ldexp(float64(m), shift) // exact: m has <= 53 bits and the result is normal
	if x.Sign() < 0 {
		f = -f
	}
	return f, true
}

func bitlen64(m uint64) int {
	n := 0
	for m != 0 {
		n++
		m >>= 1
	}
	return n
}

// decompose returns finite f as (-1)^neg * mant * 2^exp with integer mant.
func decompose(f float64) (neg bool, mant *big.Int, exp int) {
	bits := math.Float64bits(f)
	neg = bits>>63 != 0
	e := int(bits>>52) & 0x7ff
	frac := bits & (1<<52 - 1)
	if e == 0 {
		return neg, new(big.Int).SetUint64(frac), -1074
	}
	return neg, new(big.Int).SetUint64(frac | 1<<52), e - 1075
}

func isFinite(f float64) bool { return !math.IsNaN(f) && !math.IsInf(f, 0) }

// cmpIntFloat compares x with finite f exactly.
func cmpIntFloat(x *big.Int, f float64) int {
	neg, mant, exp := decompose(f)
	fv := new(big.Int).Set(mant)
	if neg {
		fv.Neg(fv)
	}
	if exp >= 0 {
		fv.Lsh(fv, uint(exp))
		return x.Cmp(fv)
	}
	// compare x*2^-exp with fv
	xs := new(big.Int).Lsh(x, uint(-exp))
	return xs.Cmp(fv)
}

// floatParts returns floor(|f|) and whether |f| has a non-zero fractional part, and whether
// the fractional part is >= 1/2.
func floatParts(f float64) (neg bool, ip *big.Int, hasFrac, geHalf bool) {
	neg, mant, exp := decompose(f)
	if exp >= 0 {
		return neg, new(big.Int).Lsh(mant, uint(exp)), false, false
	}
	k := uint(-exp)
	ip = new(big.Int).Rsh(mant, k)
	fr := new(big.Int).Sub(mant, new(big.Int).Lsh(ip, k))
	hasFrac = fr.Sign() != 0
	if hasFrac {
		geHalf = fr.Cmp(pow2(k-1)) >= 0
	}
	return
}

func signed(neg bool, x *big.Int) *big.Int {
	if neg {
		return new(big.Int).Neg(x)
	}
	return x
}

func truncFloat(f float64) *big.Int {
	neg, ip, _, _ := floatParts(f)
	return signed(neg, ip)
}

func floorFloat(f float64) *big.Int {
	neg, ip, hasFrac, _ := floatParts(f)
	if neg && hasFrac {
		ip = new(big.Int).Add(ip, bigOne)
	}
	return signed(neg, ip)
}

func ceilFloat(f float64) *big.Int {
	neg, ip, hasFrac, _ := floatParts(f)
	if !neg && hasFrac {
		ip = new(big.Int).Add(ip, bigOne)
	}
	return signed(neg, ip)
}

// roundHalfAway rounds to the nearest integer, halves away from zero.
func roundHalfAway(f float64) *big.Int {
	neg, ip, _, geHalf := floatParts(f)
	if geHalf {
		ip = new(big.Int).Add(ip, bigOne)
	}
	return signed(neg, ip)
}

// floatIsInt reports whether finite f is integral and returns the integer.
func floatIsInt(f float64) (*big.Int, bool) {
	neg, ip, hasFrac, _ := floatParts(f)
	if hasFrac {
		return nil, false
	}
	return signed(neg, ip), true
}

const digitChars = "0123456789abcdefghijklmnopqrstuvwxyz"

// fmtBase renders x in the given base (2..36) with a leading '-' for negatives,
// by repeated division of the magnitude (independent of big.Int.Text).
func fmtBase(x *big.Int, base int, upper bool) string {
	if x.Sign() == 0 {
		return "0"
	}
	mag := new(big.Int).Abs(x)
	// chunked: divide by base^k where base^k fits in 32 bits
	chunk, k := int64(base), 1
	for chunk*int64(base) < 1<<31 {
		chunk *= int64(base)
		k++
	}
	bc := big.NewInt(chunk)
	var rev []byte
	rem := new(big.Int)
	for mag.Sign() != 0 {
		mag.QuoRem(mag, bc, rem) // operands non-negative: truncation == floor
		d := rem.Int64()
		for i := 0; i < k; i++ {
			if mag.Sign() == 0 && d == 0 {
				break
			}
			rev = append(rev, digitChars[d%int64(base)])
			d /= int64(base)
		}
	}
	if x.Sign() < 0 {
		rev = append(rev, '-')
	}
	for i, j := 0, len(rev)-1; i < j; i, j = i+1, j-1 {
		rev[i], rev[j] = rev[j], rev[i]
	}
	s := string(rev)
	if upper {
		s = strings.ToUpper(s)
	}
	return s
}

// parseDigits interprets s as unsigned digits in base by Horner's rule.
func parseDigits(s string, base int) (*big.Int, bool) {
	if s == "" {
		return nil, false
	}
	z := new(big.Int)
	b := big.NewInt(int64(base))
	for i := 0; i < len(s); i++ {
		c := s[i]
		var d int
		switch {
		case '0' <= c && c <= '9':
			d = int(c - '0')
		case 'a' <= c && c <= 'z':
			d = int(c-'a') + 10
		case 'A' <= c && c <= 'Z':
			d = int(c-'A') + 10
		default:
			return nil, false
		}
		if d >= base {
			return nil, false
		}
		z.Mul(z, b)
		z.Add(z, big.NewInt(int64(d)))
	}
	return z, true
}

type parseStatus int

const (
	parseValid    parseStatus = iota // spec defines the value
	parseInvalid                     // spec: not a sequence of digits in the base => must fail
	parseUnjudged                    // spec is silent/ambiguous: either outcome accepted
)

// parseIntSpec is int(s, base) per doc/spec.md "int": optional sign, optional base prefix
// (when base == 0 or matching the explicit base), then digits of the base. base is 0 or 2..36.
func parseIntSpec(s string, base int) (*big.Int, parseStatus) {
	for i := 0; i < len(s); i++ {
		c := s[i]
		if c == '_' || c == ' ' || c == '\t' || c == '\n' || c >= 0x80 {
			return nil, parseUnjudged // Python accepts these; the Starlark spec does not mention them
		}
	}
	neg := false
	if s != "" && (s[0] == '+' || s[0] == '-') {
		neg = s[0] == '-'
		s = s[1:]
	}
	prefix := 0
	if len(s) >= 2 && s[0] == '0' {
		switch s[1] {
		case 'b', 'B':
			prefix = 2
		case 'o', 'O':
			prefix = 8
		case 'x', 'X':
			prefix = 16
		}
	}
	if base == 0 {
		if prefix != 0 {
			base = prefix
			s = s[2:]
		} else {
			base = 10
			if len(s) > 1 && s[0] == '0' {
				// "interpreted like an integer literal": decimal literals have no leading zeros.
				allZero := true
				for i := 0; i < len(s); i++ {
					if s[i] != '0' {
						allZero = false
					}
				}
				if allZero {
					return nil, parseUnjudged // "00": not a literal by the grammar; accepted as 0 by Python and here
				}
				if _, ok := parseDigits(s, 10); ok {
					return nil, parseInvalid // like the obsolete octal literal 0755
				}
				return nil, parseInvalid
			}
		}
	} else if prefix == base {
		// A matching prefix is permitted. "0b1" in base 16 is the digits 0,b,1: not a prefix (prefix != base).
		// With prefix == base the prefix letter is never a digit of that base (b in 2, o in 8, x in 16),
		// so there is no ambiguity.
		s = s[2:]
	}
	v, ok := parseDigits(s, base)
	if !ok {
		return nil, parseInvalid
	}
	if neg {
		v.Neg(v)
	}
	return v, parseValid
}

// rangeLenExact is the number of elements of range(start, stop, step), step != 0.
func rangeLenExact(start, stop, step *big.Int) *big.Int {
	// step > 0: count of k >= 0 with start + k*step < stop  = ceil((stop-start)/step) if positive
	// step < 0: count of k >= 0 with start + k*step > stop  = ceil((start-stop)/-step) if positive
	num := new(big.Int)
	den := new(big.Int)
	if step.Sign() > 0 {
		num.Sub(stop, start)
		den.Set(step)
	} else {
		num.Sub(start, stop)
		den.Neg(step)
	}
	if num.Sign() <= 0 {
		return new(big.Int)
	}
	// ceil(num/den) for positive operands
	num.Add(num, den)
	num.Sub(num, bigOne)
	q, _, _ := floorDivMod(num, den)
	return q
}

// exactRange is the mathematical sequence start + k*step, 0 <= k < n.
type exactRange struct{ start, step, n *big.Int }

func newExactRange(start, stop, step *big.Int) exactRange {
	return exactRange{new(big.Int).Set(start), new(big.Int).Set(step), rangeLenExact(start, stop, step)}
}

func (r exactRange) at(k *big.Int) *big.Int {
	z := new(big.Int).Mul(k, r.step)
	return z.Add(z, r.start)
}

func (r exactRange) containsInt(x *big.Int) bool {
	if r.n.Sign() == 0 {
		return false
	}
	d := new(big.Int).Sub(x, r.start)
	q, m, ok := floorDivMod(d, r.step)
	if !ok || m.Sign() != 0 {
		return false
	}
	return q.Sign() >= 0 && q.Cmp(r.n) < 0
}

func (r exactRange) equal(s exactRange) bool {
	if r.n.Cmp(s.n) != 0 {
		return false
	}
	if r.n.Sign() == 0 {
		return true
	}
	if r.start.Cmp(s.start) != 0 {
		return false
	}
	return r.n.Cmp(bigOne) == 0 || r.step.Cmp(s.step) == 0
}

// sliceIdx computes the index sequence selected by [lo:hi:step] on a sequence of length n
// (Python/Starlark slice semantics). lo/hi nil = omitted. Returns first index, index step, count.
func sliceIdx(n int64, lo, hi *int64, step int64) (first, count int64) {
	if step > 0 {
		s, e := int64(0), n
		if lo != nil {
			s = *lo
			if s < 0 {
				s += n
			}
			if s < 0 {
				s = 0
			} else if s > n {
				s = n
			}
		}
		if hi != nil {
			e = *hi
			if e < 0 {
				e += n
			}
			if e < 0 {
				e = 0
			} else if e > n {
				e = n
			}
		}
		if e <= s {
			return s, 0
		}
		return s, (e-s-1)/step + 1
	}
	s, e := n-1, int64(-1)
	if lo != nil {
		s = *lo
		if s < 0 {
			s += n
		}
		if s < -1 {
			s = -1
		} else if s > n-1 {
			s = n - 1
		}
	}
	if hi != nil {
		e = *hi
		if e < 0 {
			e += n
		}
		if e < -1 {
			e = -1
		} else if e > n-1 {
			e = n - 1
		}
	}
	if s <= e {
		return s, 0
	}
	return s, (s-e-1)/(-step) + 1
}
