# Second, unrelated oracle for a sample of C10 cases: CPython int/float semantics.
# Protocol: one JSON line {"q": [[op, arg...], ...]} in, one JSON line {"r": [str, ...]} out.
# Floats travel as the decimal value of their IEEE-754 bit pattern.
import sys, json, struct, math

def f2b(x):
    if x != x:
        return "nan"
    return str(struct.unpack("<Q", struct.pack("<d", x))[0])

def b2f(s):
    return struct.unpack("<d", struct.pack("<Q", int(s)))[0]

def sign(c):
    return str((c > 0) - (c < 0))

def handle(q):
    op, a = q[0], q[1:]
    try:
        if op in ("+", "-", "*", "//", "%", "&", "|", "^", "<<", ">>"):
            x, y = int(a[0]), int(a[1])
            if op == "+": return str(x + y)
            if op == "-": return str(x - y)
            if op == "*": return str(x * y)
            if op == "//": return str(x // y)
            if op == "%": return str(x % y)
            if op == "&": return str(x & y)
            if op == "|": return str(x | y)
            if op == "^": return str(x ^ y)
            if op == "<<": return str(x << y)
            if op == ">>": return str(x >> y)
        if op == "cmp":
            x, y = int(a[0]), int(a[1])
            return str((x > y) - (x < y))
        if op == "neg": return str(-int(a[0]))
        if op == "inv": return str(~int(a[0]))
        if op == "abs": return str(abs(int(a[0])))
        if op == "fmt": return ("%" + a[0]) % int(a[1])
        if op == "fmtf": return ("%" + a[0]) % b2f(a[1])
        if op == "parse": return str(int(a[0], int(a[1])))
        if op == "float": return f2b(float(int(a[0])))
        if op == "trunc": return str(int(b2f(a[0])))
        if op == "floor": return str(math.floor(b2f(a[0])))
        if op == "ceil": return str(math.ceil(b2f(a[0])))
        if op == "cmpif":
            x, f = int(a[0]), b2f(a[1])
            return str((x > f) - (x < f))
        if op == "eqif":
            x, f = int(a[0]), b2f(a[1])
            return str(int(x == f))
        if op in ("fadd", "fsub", "fmul", "fdiv"):
            x, y = b2f(a[0]), b2f(a[1])
            if op == "fadd": return f2b(x + y)
            if op == "fsub": return f2b(x - y)
            if op == "fmul": return f2b(x * y)
            if op == "fdiv": return f2b(x / y)
        if op == "rangelen": return str(len(range(int(a[0]), int(a[1]), int(a[2]))))
        if op == "rangein": return str(int(int(a[3]) in range(int(a[0]), int(a[1]), int(a[2]))))
        if op == "rangeslice":
            opt = lambda t: None if t == "" else int(t)
            s = range(int(a[0]), int(a[1]), int(a[2]))[opt(a[3]):opt(a[4]):opt(a[5])]
            n = len(s)
            if n == 0:
                return "0,-,-"
            return "%d,%d,%d" % (n, s[0], s[-1])
        return "UNSUPPORTED"
    except Exception as ex:
        return "ERR"

def main():
    for line in sys.stdin:
        line = line.strip()
        if not line:
            continue
        req = json.loads(line)
        out = [handle(q) for q in req["q"]]
        sys.stdout.write(json.dumps({"r": out}) + "\n")
        sys.stdout.flush()

main()
