// Package c10 is the runtime monitor of property C10 "Integer and numeric operations are exact".
//
// Every case draws operands from the boundary/random pools of operands.go, executes the real
// operators and built-ins of go.starlark.net (through the Go API and through source text), and
// judges each observed result against the arbitrary-precision oracle of oracle.go.
package c10

import (
	_ "embed"
	"fmt"
	"math"
	"math/big"
	"math/rand"
	"os"
	"syscall"
	"unsafe"

	"go.starlark.net/starlark"
	"go.starlark.net/syntax"

	smath "go.starlark.net/lib/math"

	"verif/internal/driver"
	"verif/internal/sl"
)

//go:embed ref.py
var refPy string

const fallbackVLimitKB = 3000000

func init() {
	driver.Register(&driver.Engine{
		ID:    "C10",
		Level: "exploration",
		Rule: "each case is a batch of operand tuples drawn (PRNG fixed by seed and case index) from: integers b+d for b in {0,±2^31,±2^32,±2^53,±2^63,±2^64}, d in [-3,3], " +
			"random magnitudes up to 2^200 and the neighbourhood of the largest finite float; floats ±0, subnormals, ±inf, NaN, k+0.5, nextafter neighbours of integers up to 2^64, " +
			"2^53±1, 1e308, random bit patterns; range/enumerate/slice parameters around ±2^31..±2^64. Every operator/built-in applied to a tuple is one evaluation judged against a math/big oracle, " +
			"through the Go API and through source text (scanner + compiler constants). A tuple is non-trivial when at least one judged operation on it ran; " +
			"distinct = distinct (family, operand values) fingerprints. Both Int representations (mmap small-int and fallback) run the same cases.",
		Assumptions: []string{
			"Go runtime, math/big (Int arithmetic on which the oracle is written), strconv float formatting/parsing",
			"IEEE-754 binary64 hardware arithmetic for + - * / on floats",
			"CPython 3.11 int/float semantics for the sampled second oracle",
			"Int.BigInt()/Float bit pattern are the observation channel for results (cross-checked against str/%d output)",
			"monitor code itself",
		},
		Run: run,
		Variants: func(tier string) []driver.Variant {
			return []driver.Variant{{Name: "default"}, {Name: "fallback", VLimitKB: fallbackVLimitKB}}
		},
		MinDistinct: 1000,
		Finish:      finish,
	})
}

// finish gates on both representations having been observed and on identical result digests.
func finish(ev map[string]any) (string, bool) {
	counters, _ := ev["counters"].(map[string]int64)
	cover, _ := ev["cover"].(map[string]map[string]struct{})
	reps := cover["int_representation"]
	if _, ok := reps["mmap-small-int"]; !ok {
		return "address-space Int representation never observed", true
	}
	if _, ok := reps["fallback-big-int"]; !ok {
		return "fallback Int representation never observed", true
	}
	if counters["child_crashes"] == 0 && counters["variant_mismatch_possible"] == 0 {
		if a, b := counters["digest_default"], counters["digest_fallback"]; a != b {
			return fmt.Sprintf("result digests of the two Int representations differ (%d vs %d)", a, b), true
		}
		if a, b := counters["judged_default"], counters["judged_fallback"]; a != b {
			return fmt.Sprintf("the two Int representations judged different numbers of evaluations (%d vs %d)", a, b), true
		}
	}
	return "", false
}

// smallIntOptimised reports whether equal small Ints share one pointer, i.e. whether the
// 4GB address-space reservation of int_posix64.go succeeded (otherwise every Int allocates).
func smallIntOptimised() bool {
	a, b := starlark.MakeInt(12345), starlark.MakeInt(12345)
	if unsafe.Sizeof(a) != unsafe.Sizeof(uintptr(0)) {
		return false // int_generic.go representation (not reachable on this platform)
	}
	return *(*uintptr)(unsafe.Pointer(&a)) == *(*uintptr)(unsafe.Pointer(&b))
}

type env struct {
	c           *driver.Ctx
	th          *starlark.Thread
	digest      uint64
	judged      int64
	keyOverride string
	relaxFail   bool // near machine-integer limits a built-in may fail instead of answering ("exact or fail")
	pyOn        bool // this case is sampled by the python oracle
	pyq         []pyReq
	py          *driver.Py
	pyDead      bool
	mathMod     starlark.StringDict
	predecl     starlark.StringDict
	opts        *syntax.FileOptions
}

func run(c *driver.Ctx) {
	// ---- which Int representation is active in this process?
	opt := smallIntOptimised()
	var rl syscall.Rlimit
	limited := syscall.Getrlimit(syscall.RLIMIT_AS, &rl) == nil && rl.Cur != math.MaxUint64 && rl.Cur <= fallbackVLimitKB*1024
	switch c.Variant {
	case "fallback":
		if !limited {
			c.Inconclusive("fallback variant: RLIMIT_AS is not in force (cur=%d)", rl.Cur)
			return
		}
		if opt {
			c.Inconclusive("fallback variant: the 4GB reservation succeeded despite RLIMIT_AS=%d, fallback Int representation not active", rl.Cur)
			return
		}
		c.Cover("int_representation", "fallback-big-int")
	default:
		if !opt {
			c.Inconclusive("default variant: small-int address-space representation not active (RLIMIT_AS cur=%d)", rl.Cur)
			return
		}
		c.Cover("int_representation", "mmap-small-int")
	}

	e := &env{c: c, th: &starlark.Thread{Name: "c10"}, opts: sl.AllOptions()}
	e.predecl = starlark.StringDict{"math": smath.Module}
	defer func() {
		if e.py != nil {
			e.py.Close()
		}
	}()

	ncases := c.Pick(540, 54000)
	for i := 0; i < ncases; i++ {
		if !c.Take() {
			continue
		}
		r := c.Rand()
		e.pyOn = (c.Case()/int64(len(families)))%10 == 3 // ~10% of the cases of every family
		e.pyq = e.pyq[:0]
		fam := int(c.Case() % int64(len(families)))
		f := families[fam]
		c.Note("family %s case %d", f.name, c.Case())
		before := e.judged
		e.keyOverride, e.relaxFail = "", false
		if p := sl.Safe(func() { f.run(e, r) }); p != nil {
			// A panic that escaped the per-operation guards: either the code under test
			// panicked outside a guarded call or the harness is wrong. Report it, do not crash.
			c.Violation("C10 panic "+f.name+" unguarded", fmt.Sprintf("panic in family %s: %v @ %s", f.name, p.Value, p.TopFrame()),
				map[string]any{"stack": driver.Truncate(p.Stack, 4000)})
		}
		e.flushPy()
		c.Eval(int(e.judged - before))
		c.Cover("families", f.name)
	}
	c.Count("digest_"+c.Variant, int(e.digest&0x3fffffff))
	c.Count("judged_"+c.Variant, int(e.judged))
	if os.Getenv("VERIF_REPLAY") != "" {
		fmt.Printf("replayed case: %d evaluations judged\n", e.judged)
	}
}

type family struct {
	name string
	run  func(e *env, r *rand.Rand)
}

// ---- judging helpers ----

func (e *env) mix(x uint64) {
	h := e.digest ^ x
	h *= 0x100000001b3
	h ^= h >> 29
	e.digest += h // order-independent across cases is not needed: a child sums its own cases, the parent sums children
}

func (e *env) mixBig(x *big.Int) {
	var h uint64 = uint64(x.Sign() + 2)
	for _, w := range x.Bits() {
		h = h*0x9E3779B97F4A7C15 + uint64(w)
	}
	e.mix(h)
}

// call runs f guarding against Go panics of the code under test.
func call(f func() (starlark.Value, error)) (v starlark.Value, err error, p *sl.Panic) {
	p = sl.Safe(func() { v, err = f() })
	return
}

func (e *env) violation(key string, what string, detail map[string]any) {
	if e.keyOverride != "" {
		// every symptom (wrong value, spurious failure, panic) of one root cause shares one key
		key = e.keyOverride
	}
	e.c.Violation(key, what, detail)
}

func valStr(v starlark.Value) string {
	if v == nil {
		return "<nil>"
	}
	var s string
	if p := sl.Safe(func() { s = v.String() }); p != nil {
		return "<String() panicked>"
	}
	return driver.Truncate(s, 400)
}

func errStr(err error) string {
	if err == nil {
		return ""
	}
	return driver.Truncate(err.Error(), 300)
}

type outcome struct {
	v   starlark.Value
	err error
	p   *sl.Panic
}

func (o outcome) String() string {
	switch {
	case o.p != nil:
		return "PANIC " + o.p.String()
	case o.err != nil:
		return "error: " + errStr(o.err)
	}
	return valStr(o.v) + " (" + o.v.Type() + ")"
}

func do(f func() (starlark.Value, error)) outcome {
	v, err, p := call(f)
	return outcome{v, err, p}
}

// failMode says how a failure (Starlark error) of the operation is judged.
type failMode int

const (
	mustSucceed failMode = iota // the spec defines a value: an error is a violation
	mayFail                     // exact result or error (built-in domain limits)
	mustFail                    // no value exists: returning one is a violation
)

// checkPanic reports a panic of the code under test. Returns true if o is a panic.
func (e *env) checkPanic(site, class string, o outcome, expr func() string) bool {
	if o.p == nil {
		return false
	}
	e.violation("C10 panic "+site+" "+class, fmt.Sprintf("%s panicked: %v @ %s", expr(), o.p.Value, o.p.TopFrame()),
		map[string]any{"expr": expr(), "panic": o.p.String(), "stack": driver.Truncate(o.p.Stack, 3000), "variant": e.c.Variant})
	return true
}

func (e *env) sample(expr func() string, got, want string) {
	if e.c.WantSample() {
		e.c.Sample(map[string]any{"expr": expr(), "got": got, "want": want, "variant": e.c.Variant})
	}
}

// wantInt judges an operation whose exact result is the integer want (nil with mustFail).
func (e *env) wantInt(site, class string, o outcome, want *big.Int, fm failMode, expr func() string) {
	e.judged++
	if e.checkPanic(site, class, o, expr) {
		return
	}
	if o.err != nil {
		e.mix(0xE)
		if fm == mustSucceed && !e.relaxFail {
			e.violation("C10 fails "+site+" "+class, fmt.Sprintf("%s failed (%s) but the exact result is %s", expr(), errStr(o.err), want),
				map[string]any{"expr": expr(), "error": errStr(o.err), "want": want.String(), "variant": e.c.Variant})
		} else {
			e.c.Count("failed_as_allowed", 1)
		}
		return
	}
	if fm == mustFail {
		e.violation("C10 wrong "+site+" "+class, fmt.Sprintf("%s returned %s but must fail", expr(), valStr(o.v)),
			map[string]any{"expr": expr(), "got": valStr(o.v), "want": "error", "variant": e.c.Variant})
		return
	}
	gi, ok := o.v.(starlark.Int)
	if !ok {
		e.violation("C10 wrong "+site+" "+class, fmt.Sprintf("%s returned %s (%s), want int %s", expr(), valStr(o.v), o.v.Type(), want),
			map[string]any{"expr": expr(), "got": valStr(o.v), "want": want.String(), "variant": e.c.Variant})
		return
	}
	g := gi.BigInt()
	e.mixBig(g)
	if g.Cmp(want) != 0 {
		e.violation("C10 wrong "+site+" "+class, fmt.Sprintf("%s = %s, exact result is %s", expr(), g, want),
			map[string]any{"expr": expr(), "got": g.String(), "want": want.String(), "variant": e.c.Variant})
		return
	}
	// canonical form: a value in the int32 range must be usable where an int32 is required
	if fitsI32(g) {
		if n, err := starlark.AsInt32(gi); err != nil || int64(n) != g.Int64() {
			e.violation("C10 wrong "+site+" non-canonical-small", fmt.Sprintf("%s = %s is in the int32 range but AsInt32 gives (%d, %v): non-canonical representation", expr(), g, n, err),
				map[string]any{"expr": expr(), "got": g.String(), "variant": e.c.Variant})
		}
	}
	e.sample(expr, g.String(), want.String())
}

func sameFloat(a, b float64) bool {
	if math.IsNaN(a) || math.IsNaN(b) {
		return math.IsNaN(a) && math.IsNaN(b)
	}
	return math.Float64bits(a) == math.Float64bits(b)
}

func fstr(f float64) string {
	return fmt.Sprintf("%v (bits %#016x)", f, math.Float64bits(f))
}

// wantFloat judges an operation whose result must be exactly the float want (bit pattern; any NaN).
func (e *env) wantFloat(site, class string, o outcome, want float64, fm failMode, expr func() string) {
	e.judged++
	if e.checkPanic(site, class, o, expr) {
		return
	}
	if o.err != nil {
		e.mix(0xE)
		if fm == mustSucceed && !e.relaxFail {
			e.violation("C10 fails "+site+" "+class, fmt.Sprintf("%s failed (%s) but the result is defined: %s", expr(), errStr(o.err), fstr(want)),
				map[string]any{"expr": expr(), "error": errStr(o.err), "want": fstr(want), "variant": e.c.Variant})
		} else {
			e.c.Count("failed_as_allowed", 1)
		}
		return
	}
	if fm == mustFail {
		e.violation("C10 wrong "+site+" "+class, fmt.Sprintf("%s returned %s but must fail", expr(), valStr(o.v)),
			map[string]any{"expr": expr(), "got": valStr(o.v), "want": "error", "variant": e.c.Variant})
		return
	}
	gf, ok := o.v.(starlark.Float)
	if !ok {
		e.violation("C10 wrong "+site+" "+class, fmt.Sprintf("%s returned %s (%s), want float %s", expr(), valStr(o.v), o.v.Type(), fstr(want)),
			map[string]any{"expr": expr(), "got": valStr(o.v), "want": fstr(want), "variant": e.c.Variant})
		return
	}
	if math.IsNaN(float64(gf)) {
		e.mix(0x7ff8)
	} else {
		e.mix(math.Float64bits(float64(gf)))
	}
	if !sameFloat(float64(gf), want) {
		e.violation("C10 wrong "+site+" "+class, fmt.Sprintf("%s = %s, want %s", expr(), fstr(float64(gf)), fstr(want)),
			map[string]any{"expr": expr(), "got": fstr(float64(gf)), "want": fstr(want), "variant": e.c.Variant})
		return
	}
	e.sample(expr, fstr(float64(gf)), fstr(want))
}

// wantBool judges an operation whose exact result is a Boolean.
func (e *env) wantBool(site, class string, o outcome, want bool, fm failMode, expr func() string) {
	e.judged++
	if e.checkPanic(site, class, o, expr) {
		return
	}
	if o.err != nil {
		e.mix(0xE)
		if fm == mustSucceed && !e.relaxFail {
			e.violation("C10 fails "+site+" "+class, fmt.Sprintf("%s failed (%s) but the exact result is %v", expr(), errStr(o.err), want),
				map[string]any{"expr": expr(), "error": errStr(o.err), "want": want, "variant": e.c.Variant})
		} else {
			e.c.Count("failed_as_allowed", 1)
		}
		return
	}
	if fm == mustFail {
		e.violation("C10 wrong "+site+" "+class, fmt.Sprintf("%s returned %s but must fail", expr(), valStr(o.v)),
			map[string]any{"expr": expr(), "got": valStr(o.v), "want": "error", "variant": e.c.Variant})
		return
	}
	gb, ok := o.v.(starlark.Bool)
	if !ok {
		e.violation("C10 wrong "+site+" "+class, fmt.Sprintf("%s returned %s (%s), want bool %v", expr(), valStr(o.v), o.v.Type(), want),
			map[string]any{"expr": expr(), "got": valStr(o.v), "want": want, "variant": e.c.Variant})
		return
	}
	if gb {
		e.mix(3)
	} else {
		e.mix(5)
	}
	if bool(gb) != want {
		e.violation("C10 wrong "+site+" "+class, fmt.Sprintf("%s = %v, exact result is %v", expr(), bool(gb), want),
			map[string]any{"expr": expr(), "got": bool(gb), "want": want, "variant": e.c.Variant})
		return
	}
	e.sample(expr, fmt.Sprint(bool(gb)), fmt.Sprint(want))
}

// wantStr judges an operation whose exact result is a string.
func (e *env) wantStr(site, class string, o outcome, want string, fm failMode, expr func() string) {
	e.judged++
	if e.checkPanic(site, class, o, expr) {
		return
	}
	if o.err != nil {
		e.mix(0xE)
		if fm == mustSucceed && !e.relaxFail {
			e.violation("C10 fails "+site+" "+class, fmt.Sprintf("%s failed (%s) but the exact result is %q", expr(), errStr(o.err), want),
				map[string]any{"expr": expr(), "error": errStr(o.err), "want": want, "variant": e.c.Variant})
		} else {
			e.c.Count("failed_as_allowed", 1)
		}
		return
	}
	if fm == mustFail {
		e.violation("C10 wrong "+site+" "+class, fmt.Sprintf("%s returned %s but must fail", expr(), valStr(o.v)),
			map[string]any{"expr": expr(), "got": valStr(o.v), "want": "error", "variant": e.c.Variant})
		return
	}
	gs, ok := starlark.AsString(o.v)
	if !ok {
		e.violation("C10 wrong "+site+" "+class, fmt.Sprintf("%s returned %s (%s), want string %q", expr(), valStr(o.v), o.v.Type(), want),
			map[string]any{"expr": expr(), "got": valStr(o.v), "want": want, "variant": e.c.Variant})
		return
	}
	e.mix(driver.Hash64(gs))
	if gs != want {
		e.violation("C10 wrong "+site+" "+class, fmt.Sprintf("%s = %q, exact result is %q", expr(), driver.Truncate(gs, 300), driver.Truncate(want, 300)),
			map[string]any{"expr": expr(), "got": gs, "want": want, "variant": e.c.Variant})
		return
	}
	e.sample(expr, gs, want)
}

// ---- construction of values / evaluation ----

// mkInt builds a starlark.Int through one of the public constructors.
func mkInt(r *rand.Rand, x *big.Int) starlark.Int {
	switch r.Intn(3) {
	case 0:
		if x.IsInt64() {
			return starlark.MakeInt64(x.Int64())
		}
	case 1:
		if x.IsUint64() {
			return starlark.MakeUint64(x.Uint64())
		}
	}
	return starlark.MakeBigInt(x)
}

func (e *env) eval(src string) outcome {
	return do(func() (starlark.Value, error) {
		return starlark.EvalOptions(e.opts, e.th, "c10.star", src, e.predecl)
	})
}

func (e *env) builtin(name string) *starlark.Builtin {
	return starlark.Universe[name].(*starlark.Builtin)
}

func (e *env) callB(name string, args ...starlark.Value) outcome {
	b := e.builtin(name)
	return do(func() (starlark.Value, error) { return starlark.Call(e.th, b, starlark.Tuple(args), nil) })
}

func (e *env) callMath(name string, args ...starlark.Value) outcome {
	b := smath.Module.Members[name]
	return do(func() (starlark.Value, error) { return starlark.Call(e.th, b, starlark.Tuple(args), nil) })
}

func intClass(x *big.Int) string {
	if fitsI32(x) {
		return "small"
	}
	return "big"
}

func pairClass(x, y *big.Int) string {
	if fitsI32(x) && fitsI32(y) {
		return "small"
	}
	return "big"
}
