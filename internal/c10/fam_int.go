package c10

import (
	"fmt"
	"math/big"
	"math/rand"
	"strings"

	"go.starlark.net/starlark"
	"go.starlark.net/syntax"
)

var families []family

func init() {
	families = []family{
		{"int-api", famIntAPI},
		{"int-source", famIntSource},
		{"int-float", famIntFloat},
		{"strings", famStrings},
		{"range", famRange},
		{"long-range", famLongRange},
		{"seq-builtins", famSeq},
		{"literals", famLiterals},
		{"int-api", famIntAPI}, // integer operators get a double share
	}
}

type binop struct {
	tok  syntax.Token
	name string
	sym  string
}

var arithOps = []binop{
	{syntax.PLUS, "add", "+"}, {syntax.MINUS, "sub", "-"}, {syntax.STAR, "mul", "*"},
	{syntax.SLASHSLASH, "floordiv", "//"}, {syntax.PERCENT, "mod", "%"},
	{syntax.AMP, "and", "&"}, {syntax.PIPE, "or", "|"}, {syntax.CIRCUMFLEX, "xor", "^"},
}

var cmpOps = []binop{
	{syntax.EQL, "eq", "=="}, {syntax.NEQ, "ne", "!="}, {syntax.LT, "lt", "<"},
	{syntax.LE, "le", "<="}, {syntax.GT, "gt", ">"}, {syntax.GE, "ge", ">="},
}

func cmpWant(tok syntax.Token, c int) bool {
	switch tok {
	case syntax.EQL:
		return c == 0
	case syntax.NEQ:
		return c != 0
	case syntax.LT:
		return c < 0
	case syntax.LE:
		return c <= 0
	case syntax.GT:
		return c > 0
	}
	return c >= 0
}

// exactArith returns the exact result of an integer arithmetic operator, or nil when it must fail.
func exactArith(sym string, x, y *big.Int) *big.Int {
	switch sym {
	case "+":
		return new(big.Int).Add(x, y)
	case "-":
		return new(big.Int).Sub(x, y)
	case "*":
		return new(big.Int).Mul(x, y)
	case "//":
		if y.Sign() == 0 {
			return nil
		}
		q, _, ok := floorDivMod(x, y)
		if !ok {
			panic("oracle: floorDivMod postcondition failed")
		}
		return q
	case "%":
		if y.Sign() == 0 {
			return nil
		}
		_, m, ok := floorDivMod(x, y)
		if !ok {
			panic("oracle: floorDivMod postcondition failed")
		}
		return m
	case "&", "|", "^":
		return bitop(sym[0], x, y)
	}
	panic("exactArith " + sym)
}

func genShift(r *rand.Rand) *big.Int {
	switch r.Intn(10) {
	case 0:
		return bi(int64([]int{0, 1, 31, 32, 33, 63, 64, 65, 511, 512, 513}[r.Intn(11)]))
	case 1:
		return bi(int64(-1 - r.Intn(3)))
	case 2:
		return genInt(r).v
	case 3:
		return bi(int64(r.Intn(512)))
	}
	return bi(int64(r.Intn(80)))
}

// shiftWant returns the exact result of x<<k / x>>k, and the failure mode.
func shiftWant(left bool, x, k *big.Int) (*big.Int, failMode) {
	if k.Sign() < 0 {
		return nil, mustFail // spec: "It is a dynamic error if the second operand is negative"
	}
	if left {
		if !k.IsInt64() || k.Int64() >= 512 {
			// spec: "Implementations may impose a limit on the second operand of a left shift."
			if k.IsInt64() && k.Int64() <= 4096 {
				return shl(x, uint(k.Int64())), mayFail
			}
			return nil, mayFail // not computed; a returned value is compared only when the count is modest
		}
		return shl(x, uint(k.Int64())), mustSucceed
	}
	if !fitsI32(k) {
		// implementation limit on the count (an error, not a wrong value); exact result is 0 or -1
		if x.Sign() < 0 {
			return bi(-1), mayFail
		}
		return bi(0), mayFail
	}
	if k.Int64() > 1<<20 {
		if x.Sign() < 0 {
			return bi(-1), mustSucceed
		}
		return bi(0), mustSucceed
	}
	return shr(x, uint(k.Int64())), mustSucceed
}

func (e *env) distinctTuple(fam string, parts ...fmt.Stringer) {
	var sb strings.Builder
	sb.WriteString(fam)
	for _, p := range parts {
		sb.WriteByte('|')
		sb.WriteString(p.String())
	}
	e.c.Distinct(sb.String())
}

// famIntAPI: integer operators, comparisons, unary operators, shifts and identity monitors through the Go API.
func famIntAPI(e *env, r *rand.Rand) {
	for n := 0; n < 24; n++ {
		xo, yo := genInt(r), genInt(r)
		if r.Intn(8) == 0 {
			yo = xo // equal operands
		} else if r.Intn(8) == 0 {
			// y close to x, or a divisor-like relation
			yo = intOp{new(big.Int).Add(xo.v, bi(int64(r.Intn(3)-1))), xo.class}
		}
		x, y := xo.v, yo.v
		e.c.Cover("int_class", xo.class)
		e.c.Cover("int_class", yo.class)
		e.distinctTuple("int", x, y)
		X, Y := mkInt(r, x), mkInt(r, y)
		cls := pairClass(x, y)

		for _, op := range arithOps {
			op := op
			want := exactArith(op.sym, x, y)
			fm := mustSucceed
			if want == nil {
				fm = mustFail
			}
			o := do(func() (starlark.Value, error) { return starlark.Binary(op.tok, X, Y) })
			e.wantInt("int."+op.name, cls, o, want, fm, func() string { return fmt.Sprintf("%s %s %s", x, op.sym, y) })
			e.c.Cover("ops", "int "+op.sym)
			if want != nil && o.err == nil && o.p == nil {
				e.pyAdd("int."+op.name, want.String(), op.sym, x.String(), y.String())
			}
		}
		c := x.Cmp(y)
		for _, op := range cmpOps {
			op := op
			o := do(func() (starlark.Value, error) {
				b, err := starlark.Compare(op.tok, X, Y)
				return starlark.Bool(b), err
			})
			e.wantBool("int.cmp", cls, o, cmpWant(op.tok, c), mustSucceed, func() string { return fmt.Sprintf("%s %s %s", x, op.sym, y) })
			e.c.Cover("ops", "int "+op.sym)
		}
		e.pyAdd("int.cmp", fmt.Sprint(c), "cmp", x.String(), y.String())

		// unary
		xcls := intClass(x)
		o := do(func() (starlark.Value, error) { return starlark.Unary(syntax.MINUS, X) })
		e.wantInt("int.neg", xcls, o, new(big.Int).Neg(x), mustSucceed, func() string { return fmt.Sprintf("-(%s)", x) })
		o = do(func() (starlark.Value, error) { return starlark.Unary(syntax.TILDE, X) })
		e.wantInt("int.invert", xcls, o, bitnot(x), mustSucceed, func() string { return fmt.Sprintf("~(%s)", x) })
		o = do(func() (starlark.Value, error) { return starlark.Unary(syntax.PLUS, X) })
		e.wantInt("int.pos", xcls, o, x, mustSucceed, func() string { return fmt.Sprintf("+(%s)", x) })
		o = e.callB("abs", X)
		e.wantInt("abs", xcls, o, new(big.Int).Abs(x), mustSucceed, func() string { return fmt.Sprintf("abs(%s)", x) })
		o = e.callB("int", X)
		e.wantInt("int(int)", xcls, o, x, mustSucceed, func() string { return fmt.Sprintf("int(%s)", x) })
		o = e.callB("bool", X)
		e.wantBool("bool(int)", xcls, o, x.Sign() != 0, mustSucceed, func() string { return fmt.Sprintf("bool(%s)", x) })
		e.c.Cover("ops", "int unary")
		e.pyAdd("int.invert", bitnot(x).String(), "inv", x.String())

		// Go accessors of Int (conversions to machine integers)
		e.judged++
		if v, ok := X.Int64(); ok != x.IsInt64() || ok && v != x.Int64() {
			e.violation("C10 wrong Int.Int64 "+xcls, fmt.Sprintf("Int(%s).Int64() = (%d, %v)", x, v, ok), map[string]any{"x": x.String()})
		}
		if v, ok := X.Uint64(); ok != x.IsUint64() || ok && v != x.Uint64() {
			e.violation("C10 wrong Int.Uint64 "+xcls, fmt.Sprintf("Int(%s).Uint64() = (%d, %v)", x, v, ok), map[string]any{"x": x.String()})
		}
		if X.Sign() != x.Sign() {
			e.violation("C10 wrong Int.Sign "+xcls, fmt.Sprintf("Int(%s).Sign() = %d", x, X.Sign()), map[string]any{"x": x.String()})
		}
		if v, err := starlark.AsInt32(X); (err == nil) != fitsI32(x) || err == nil && int64(v) != x.Int64() {
			e.violation("C10 wrong AsInt32 "+xcls, fmt.Sprintf("AsInt32(%s) = (%d, %v)", x, v, err), map[string]any{"x": x.String()})
		}
		var i16 int16
		var u32 uint32
		err16 := starlark.AsInt(X, &i16)
		if fits := x.IsInt64() && x.Int64() >= -1<<15 && x.Int64() < 1<<15; (err16 == nil) != fits || fits && int64(i16) != x.Int64() {
			e.violation("C10 wrong AsInt int16", fmt.Sprintf("AsInt(%s, *int16) = (%d, %v)", x, i16, err16), map[string]any{"x": x.String()})
		}
		err32 := starlark.AsInt(X, &u32)
		if fits := x.IsUint64() && x.Uint64() < 1<<32; (err32 == nil) != fits || fits && uint64(u32) != x.Uint64() {
			e.violation("C10 wrong AsInt uint32", fmt.Sprintf("AsInt(%s, *uint32) = (%d, %v)", x, u32, err32), map[string]any{"x": x.String()})
		}

		// shifts
		k := genShift(r)
		K := mkInt(r, k)
		for _, left := range []bool{true, false} {
			left := left
			tok, sym, name := syntax.GTGT, ">>", "rshift"
			if left {
				tok, sym, name = syntax.LTLT, "<<", "lshift"
			}
			want, fm := shiftWant(left, x, k)
			o := do(func() (starlark.Value, error) { return starlark.Binary(tok, X, K) })
			if want == nil && fm == mayFail {
				// huge left shift: only "fails" is expected; a value is not recomputed
				e.judged++
				if o.p != nil {
					e.checkPanic("int."+name, "huge-count", o, func() string { return fmt.Sprintf("%s %s %s", x, sym, k) })
				} else if o.err == nil {
					e.c.Count("huge_lshift_value_unjudged", 1)
				} else {
					e.c.Count("failed_as_allowed", 1)
				}
				continue
			}
			if !left && fm == mayFail && o.err != nil {
				e.c.Count("rshift_count_beyond_int32_failed", 1)
			}
			e.wantInt("int."+name, xcls, o, want, fm, func() string { return fmt.Sprintf("%s %s %s", x, sym, k) })
			e.c.Cover("ops", "int "+sym)
			if want != nil && o.err == nil && o.p == nil && k.IsInt64() && k.Int64() < 5000 {
				e.pyAdd("int."+name, want.String(), sym, x.String(), k.String())
			}
		}

		// identity monitors, computed with the implementation's own operators
		e.identities(X, Y, K, x, y, k)
	}
}

// identities checks algebraic laws using only the implementation's operators and comparisons.
func (e *env) identities(X, Y, K starlark.Int, x, y, k *big.Int) {
	bin := func(tok syntax.Token, a, b starlark.Value) starlark.Value {
		if a == nil || b == nil {
			return nil
		}
		v, err, p := call(func() (starlark.Value, error) { return starlark.Binary(tok, a, b) })
		if err != nil || p != nil {
			return nil
		}
		return v
	}
	eq := func(a, b starlark.Value) (bool, bool) {
		if a == nil || b == nil {
			return false, false
		}
		var ok bool
		var err error
		if p := slSafe(func() { ok, err = starlark.Equal(a, b) }); p || err != nil {
			return false, false
		}
		return ok, true
	}
	law := func(name string, lhs, rhs starlark.Value) {
		e.judged++
		e.c.Cover("identities", name)
		if lhs == nil || rhs == nil {
			e.violation("C10 identity "+name+" not-computable", fmt.Sprintf("identity %s could not be evaluated for x=%s y=%s k=%s", name, x, y, k),
				map[string]any{"x": x.String(), "y": y.String(), "k": k.String(), "variant": e.c.Variant})
			return
		}
		if ok, valid := eq(lhs, rhs); !valid || !ok {
			e.violation("C10 identity "+name, fmt.Sprintf("identity %s violated for x=%s y=%s k=%s: %s vs %s", name, x, y, k, valStr(lhs), valStr(rhs)),
				map[string]any{"x": x.String(), "y": y.String(), "k": k.String(), "lhs": valStr(lhs), "rhs": valStr(rhs), "variant": e.c.Variant})
		}
	}
	if y.Sign() != 0 {
		q := bin(syntax.SLASHSLASH, X, Y)
		m := bin(syntax.PERCENT, X, Y)
		law("x==(x//y)*y+x%y", bin(syntax.PLUS, bin(syntax.STAR, q, Y), m), X)
		// remainder: zero or sign of divisor, |m| < |y|
		e.judged++
		e.c.Cover("identities", "0<=|x%y|<|y| sign of y")
		if mi, ok := m.(starlark.Int); ok {
			absY := Y
			if Y.Sign() < 0 {
				absY = starlark.MakeInt(0).Sub(Y)
			}
			absM := mi
			if mi.Sign() < 0 {
				absM = starlark.MakeInt(0).Sub(mi)
			}
			lt, err := starlark.Compare(syntax.LT, absM, absY)
			if err != nil || !lt || (mi.Sign() != 0 && mi.Sign() != Y.Sign()) {
				e.violation("C10 identity remainder-range", fmt.Sprintf("x%%y = %s for x=%s y=%s: not in the divisor-signed range", valStr(mi), x, y),
					map[string]any{"x": x.String(), "y": y.String(), "rem": valStr(mi), "variant": e.c.Variant})
			}
		} else {
			e.violation("C10 identity remainder-range", fmt.Sprintf("x%%y not computable for x=%s y=%s", x, y), map[string]any{"x": x.String(), "y": y.String()})
		}
	}
	if k.Sign() >= 0 && k.IsInt64() && k.Int64() < 512 {
		law("(x<<k)>>k==x", bin(syntax.GTGT, bin(syntax.LTLT, X, K), K), X)
	}
	nx, _, _ := call(func() (starlark.Value, error) { return starlark.Unary(syntax.TILDE, X) })
	mx, _, _ := call(func() (starlark.Value, error) { return starlark.Unary(syntax.MINUS, X) })
	law("~x==-x-1", nx, bin(syntax.MINUS, mx, starlark.MakeInt(1)))
	law("x&y|x^y==x|y", bin(syntax.PIPE, bin(syntax.AMP, X, Y), bin(syntax.CIRCUMFLEX, X, Y)), bin(syntax.PIPE, X, Y))
	law("x-y+y==x", bin(syntax.PLUS, bin(syntax.MINUS, X, Y), Y), X)
}

func slSafe(f func()) (panicked bool) {
	defer func() {
		if recover() != nil {
			panicked = true
		}
	}()
	f()
	return false
}

// famIntSource: the same operators through source text: literals in all bases through the scanner,
// constants through the compiler, operands as parameters and as globals, augmented assignment.
func famIntSource(e *env, r *rand.Rand) {
	type expect struct {
		name string
		src  string
		want *big.Int
		wb   *bool
		site string
		cls  string
	}
	var prog strings.Builder
	var exps []expect
	prog.WriteString("def f(a, b):\n    return [a + b, a - b, a * b, a & b, a | b, a ^ b, a < b, a == b, -a, ~b]\n")
	for n := 0; n < 16; n++ {
		xo, yo := genInt(r), genInt(r)
		x, y := xo.v, yo.v
		e.c.Cover("int_class", xo.class)
		e.c.Cover("int_class", yo.class)
		e.distinctTuple("intsrc", x, y)
		cls := pairClass(x, y)
		xs, ys := intSrc(r, x), intSrc(r, y)

		// single expressions through Eval
		for j := 0; j < 4; j++ {
			if r.Intn(2) == 0 {
				op := arithOps[r.Intn(len(arithOps))]
				want := exactArith(op.sym, x, y)
				fm := mustSucceed
				if want == nil {
					fm = mustFail
				}
				src := xs + " " + op.sym + " " + ys
				e.wantInt("int."+op.name, cls, e.eval(src), want, fm, func() string { return src })
				e.c.Cover("ops_source", "int "+op.sym)
			} else {
				op := cmpOps[r.Intn(len(cmpOps))]
				src := xs + " " + op.sym + " " + ys
				e.wantBool("int.cmp", cls, e.eval(src), cmpWant(op.tok, x.Cmp(y)), mustSucceed, func() string { return src })
				e.c.Cover("ops_source", "int "+op.sym)
			}
		}
		// shift through source
		k := genShift(r)
		left := r.Intn(2) == 0
		want, fm := shiftWant(left, x, k)
		if want != nil || fm == mustFail {
			sym, name := ">>", "rshift"
			if left {
				sym, name = "<<", "lshift"
			}
			src := xs + " " + sym + " " + intSrc(r, k)
			e.wantInt("int."+name, intClass(x), e.eval(src), want, fm, func() string { return src })
			e.c.Cover("ops_source", "int "+sym)
		}
		// unary on a literal (note: -LIT is unary minus applied to the literal)
		switch r.Intn(3) {
		case 0:
			src := "~" + xs
			e.wantInt("int.invert", intClass(x), e.eval(src), bitnot(x), mustSucceed, func() string { return src })
		case 1:
			src := "-" + xs
			e.wantInt("int.neg", intClass(x), e.eval(src), new(big.Int).Neg(x), mustSucceed, func() string { return src })
		default:
			src := "- - + " + xs
			e.wantInt("int.neg", intClass(x), e.eval(src), x, mustSucceed, func() string { return src })
		}
		e.c.Cover("ops_source", "int unary")

		// statements of one program: globals, function constants, parameters, augmented assignment
		id := fmt.Sprintf("%d", n)
		fmt.Fprintf(&prog, "x%s = %s\ny%s = %s\n", id, xs, id, ys)
		fmt.Fprintf(&prog, "r%s = f(x%s, y%s)\n", id, id, id)
		for j, sym := range []string{"+", "-", "*", "&", "|", "^"} {
			exps = append(exps, expect{name: fmt.Sprintf("r%s[%d]", id, j), src: fmt.Sprintf("f(%s, %s)[%d]  # a %s b", xs, ys, j, sym), want: exactArith(sym, x, y), site: "int." + arithName(sym), cls: cls})
		}
		lt, eq := x.Cmp(y) < 0, x.Cmp(y) == 0
		exps = append(exps,
			expect{name: fmt.Sprintf("r%s[6]", id), src: fmt.Sprintf("%s < %s (parameters)", xs, ys), wb: &lt, site: "int.cmp", cls: cls},
			expect{name: fmt.Sprintf("r%s[7]", id), src: fmt.Sprintf("%s == %s (parameters)", xs, ys), wb: &eq, site: "int.cmp", cls: cls},
			expect{name: fmt.Sprintf("r%s[8]", id), src: fmt.Sprintf("-a for a = %s", xs), want: new(big.Int).Neg(x), site: "int.neg", cls: intClass(x)},
			expect{name: fmt.Sprintf("r%s[9]", id), src: fmt.Sprintf("~b for b = %s", ys), want: bitnot(y), site: "int.invert", cls: intClass(y)},
		)
		// augmented assignment with a constant right operand
		op := arithOps[r.Intn(len(arithOps))]
		if w := exactArith(op.sym, x, y); w != nil {
			fmt.Fprintf(&prog, "g%s = x%s\ng%s %s= %s\n", id, id, id, op.sym, ys)
			exps = append(exps, expect{name: "g" + id, src: fmt.Sprintf("g = %s; g %s= %s", xs, op.sym, ys), want: w, site: "int." + op.name, cls: cls})
		}
		// constant inside a function body (constant pool of a Funcode) against a parameter
		op2 := arithOps[r.Intn(len(arithOps))]
		if w := exactArith(op2.sym, x, y); w != nil {
			fmt.Fprintf(&prog, "def h%s(p):\n    return p %s %s\nk%s = h%s(x%s)\n", id, op2.sym, ys, id, id, id)
			exps = append(exps, expect{name: "k" + id, src: fmt.Sprintf("(lambda p: p %s %s)(%s)", op2.sym, ys, xs), want: w, site: "int." + op2.name, cls: cls})
		}
	}
	src := prog.String()
	var globals starlark.StringDict
	o := do(func() (starlark.Value, error) {
		g, err := starlark.ExecFileOptions(e.opts, e.th, "c10prog.star", src, e.predecl)
		globals = g
		return starlark.None, err
	})
	e.judged++
	if o.p != nil || o.err != nil {
		if !e.checkPanic("exec", "int-program", o, func() string { return src }) {
			e.violation("C10 fails exec int-program", "a program of integer statements whose results are all defined failed: "+errStr(o.err),
				map[string]any{"src": src, "error": errStr(o.err), "variant": e.c.Variant})
		}
		return
	}
	lookup := func(name string) starlark.Value {
		base, idx := name, -1
		if i := strings.IndexByte(name, '['); i >= 0 {
			base = name[:i]
			fmt.Sscanf(name[i:], "[%d]", &idx)
		}
		v := globals[base]
		if v == nil || idx < 0 {
			return v
		}
		if l, ok := v.(*starlark.List); ok && idx < l.Len() {
			return l.Index(idx)
		}
		return nil
	}
	for _, x := range exps {
		x := x
		v := lookup(x.name)
		var o outcome
		if v == nil {
			o = outcome{err: fmt.Errorf("global %s missing", x.name)}
		} else {
			o = outcome{v: v}
		}
		if x.wb != nil {
			e.wantBool(x.site, x.cls, o, *x.wb, mustSucceed, func() string { return x.src })
		} else {
			e.wantInt(x.site, x.cls, o, x.want, mustSucceed, func() string { return x.src })
		}
	}
	e.c.Cover("ops_source", "program(globals,params,constants,augassign)")
}

func arithName(sym string) string {
	for _, op := range arithOps {
		if op.sym == sym {
			return op.name
		}
	}
	return sym
}
