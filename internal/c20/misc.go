package c20

import (
	"bytes"
	"fmt"
	"os"
	"os/exec"
	"runtime/debug"
	"strings"
	"time"

	sproto "go.starlark.net/lib/proto"
	"go.starlark.net/starlark"
	"google.golang.org/protobuf/proto"
	"google.golang.org/protobuf/reflect/protoreflect"
	"google.golang.org/protobuf/types/dynamicpb"

	"verif/internal/driver"
	"verif/internal/sl"
)

// ---------------------------------------------------------------------------------------------
// Assigning a repeated/map view to a field (of the same message, or of another one).

func (e *env) viewAssignCase(fs *fileSchema, kind string, goRoute bool) {
	c := e.c
	route := map[bool]string{false: "starlark", true: "goapi"}[goRoute]
	v0, v1 := e.sample(fs, kind, 0), e.sample(fs, kind, 1)
	for _, fam := range []string{"r", "mv"} {
		for _, self := range []bool{true, false} {
			fname := fam + "_" + kind
			fd := fs.field(fname)
			var init starlark.Value = mkList(v0, v1)
			if fam == "mv" {
				init = mkDict(starlark.String("a"), v0, starlark.String("b"), v1)
			}
			m := e.newMsg(fs.all, fname, init)
			exp := protoreflect.Message(dynamicpb.NewMessage(fs.all))
			e.refSetField(exp, fd, init)
			dst := m
			if !self {
				dst = e.newMsg(fs.all, fname, map[string]starlark.Value{"r": mkList(v1), "mv": mkDict(starlark.String("z"), v1)}[fam])
			}
			where := fmt.Sprintf("%s %s view-assign self=%v %s", fs.syntax, fname, self, route)
			c.Note("%s", where)
			var err error
			var p *sl.Panic
			if goRoute {
				p = sl.Safe(func() {
					view, aerr := m.Attr(fname)
					if aerr != nil {
						err = aerr
						return
					}
					err = dst.SetField(fname, view)
				})
			} else {
				_, err, p = e.call(e.thread, e.fns[fnName("copy_"+fam, fs, kind)], dst, m)
			}
			c.Eval(1)
			c.Count("view_assign_cells", 1)
			c.Distinct("view-assign " + where)
			shape := map[string]string{"r": "repeated", "mv": "map"}[fam]
			tag := map[bool]string{true: "self-assign", false: "view-assign"}[self]
			stmt := fmt.Sprintf("m.%s = %v; %s.%s = m.%s", fname, init, map[bool]string{true: "m", false: "o"}[self], fname, fname)
			det := map[string]any{"where": where, "statement": stmt}
			switch {
			case p != nil:
				c.Violation("C20 panic "+shape+" "+tag, fmt.Sprintf("host panic in %s: %s", stmt, p.String()), det)
			case err != nil:
				c.Violation("C20 wrong-reject "+shape+" "+tag, fmt.Sprintf("%s failed: %v", stmt, err), det)
			case !protoEqual(pm(m), exp):
				c.Violation("C20 wrong-store "+shape+" "+tag, fmt.Sprintf("%s changed the source: m is now %s, expected %v", stmt, safeString(m), exp.Interface()), det)
			case !protoEqual(pm(dst), exp):
				c.Violation("C20 wrong-store "+shape+" "+tag, fmt.Sprintf("%s: destination is %s, expected %v", stmt, safeString(dst), exp.Interface()), det)
			}
			for _, x := range []*sproto.Message{m, dst} {
				if problem, _ := e.walk(x, true); problem != "" {
					c.Violation("C20 invariant "+kind+" "+tag, problem+" ("+where+")", det)
				}
			}
		}
	}
}

// ---------------------------------------------------------------------------------------------
// Messages decoded from bytes that hold an enum number without a declared name.

const enumOpsSrc = `
def op_str(m): return str(m)
def op_field(m): return str(m.f_enum)
def op_number(m): return m.f_enum.number
def op_list(m): return str(list(m.r_enum))
def op_index(m): return str(m.r_enum[len(m.r_enum) - 1]) if len(m.r_enum) else ""
def op_map(m): return str(dict(m.mv_enum))
def op_nested(m): return str(m.f_rec.f_enum)
def op_copy(m): return str(m.descriptor(m))
def op_marshal(m): return proto.marshal(m)
def op_marshal_text(m): return proto.marshal_text(m)
def op_reassign(m):
    m.f_enum = m.f_enum
    return str(m.f_enum)
`

func (e *env) unknownEnumCase(fs *fileSchema, variant int) {
	c := e.c
	g, err, p := e.exec(e.thread, enumOpsSrc, nil)
	if err != nil || p != nil {
		c.Violation("C20 harness enum-ops-program", fmt.Sprintf("err=%v panic=%v", err, p), nil)
		return
	}
	src := dynamicpb.NewMessage(fs.all)
	fe, re, me, frec := fs.field("f_enum"), fs.field("r_enum"), fs.field("mv_enum"), fs.field("f_rec")
	unknown := protoreflect.ValueOfEnum(99)
	variantName := [...]string{"singular", "repeated", "map-value", "nested", "text"}[variant]
	var data []byte
	text := false
	switch variant {
	case 0:
		src.Set(fe, unknown)
	case 1:
		l := src.Mutable(re).List()
		l.Append(protoreflect.ValueOfEnum(1))
		l.Append(unknown)
	case 2:
		src.Mutable(me).Map().Set(protoreflect.ValueOfString("a").MapKey(), unknown)
	case 3:
		src.Mutable(frec).Message().Set(fe, unknown)
	case 4:
		text = true
		data = []byte("f_enum: 99 r_enum: 99")
	}
	if !text {
		data, err = proto.Marshal(src)
		if err != nil {
			c.Violation("C20 harness enum-marshal", err.Error(), nil)
			return
		}
	}
	where := fmt.Sprintf("%s unknown-enum %s", fs.syntax, variantName)
	c.Note("%s", where)
	var mv starlark.Value
	if text {
		mv, err, p = e.call(e.thread, sproto.Module.Members["unmarshal_text"], sproto.MessageDescriptor{Desc: fs.all}, starlark.String(data))
	} else {
		mv, err, p = e.call(e.thread, sproto.Module.Members["unmarshal"], sproto.MessageDescriptor{Desc: fs.all}, starlark.Bytes(data))
	}
	c.Eval(1)
	c.Count("unknown_enum_decodes", 1)
	c.Distinct(where)
	if p != nil {
		c.Violation("C20 panic enum-field unknown-number", fmt.Sprintf("host panic decoding a message with enum number 99 (%s): %s", where, p.String()), map[string]any{"where": where, "data": fmt.Sprintf("%q", data)})
		return
	}
	if err != nil {
		c.Count("unknown_enum_rejected_by_decoder", 1)
		return // refusing the input is a legitimate outcome
	}
	m := mv.(*sproto.Message)
	for _, name := range []string{"op_str", "op_field", "op_number", "op_list", "op_index", "op_map", "op_nested", "op_copy", "op_marshal", "op_marshal_text", "op_reassign"} {
		_, oerr, op := e.call(e.thread, g[name], m)
		c.Eval(1)
		c.Count("unknown_enum_ops", 1)
		if op != nil {
			c.Violation("C20 panic enum-field unknown-number",
				fmt.Sprintf("host panic in %s on a message decoded from %q (enum number 99 has no declared name; %s): %s @ %s", name, data, where, op.String(), op.TopFrame()),
				map[string]any{"where": where, "op": name, "data": fmt.Sprintf("%q", data), "stack": stackTrunc(op.Stack)})
		}
		_ = oerr
	}
}

// ---------------------------------------------------------------------------------------------
// Decoding corrupted encodings: the result is an error or a message that can be printed, read,
// copied and re-encoded without a host panic.

const fuzzOpsSrc = `
def touch(m):
    s = str(m)
    for name in dir(m):
        if name != "descriptor":
            s += str(getattr(m, name))
    c = m.descriptor(m)
    s += str(c)
    return len(s) + len(proto.marshal(m)) + len(proto.marshal_text(m))
`

func (e *env) richMessage(fs *fileSchema) *sproto.Message {
	kv := []any{}
	for _, kind := range allKindNames {
		v0, v1 := e.sample(fs, kind, 0), e.sample(fs, kind, 1)
		kv = append(kv, "f_"+kind, v0, "r_"+kind, mkList(v0, v1), "mv_"+kind, mkDict(starlark.String("a"), v0, starlark.String("b"), v1))
		if isKeyKind(kind) {
			kv = append(kv, "mk_"+kind, mkDict(v0, starlark.MakeInt(1), v1, starlark.MakeInt(2)))
		}
	}
	return e.newMsg(fs.all, kv...)
}

func (e *env) fuzzCase(fs *fileSchema, iters int) {
	c := e.c
	r := c.Rand()
	g, err, p := e.exec(e.thread, fuzzOpsSrc, nil)
	if err != nil || p != nil {
		c.Violation("C20 harness fuzz-ops-program", fmt.Sprintf("err=%v panic=%v", err, p), nil)
		return
	}
	base, err := proto.MarshalOptions{Deterministic: true}.Marshal(e.richMessage(fs).Message())
	if err != nil {
		c.Violation("C20 marshal-fails rich-message", err.Error(), nil)
		return
	}
	for it := 0; it < iters; it++ {
		data := append([]byte(nil), base...)
		if it == 0 {
			// crafted: an entry of map<int32,int32> mk_int32 (field 41) whose key field occurs twice, the second time
			// with the wrong wire type (fixed32 instead of varint)
			data = []byte{0xca, 0x02, 0x07, 0x08, 0x01, 0x0d, 0x00, 0x00, 0x00, 0x00}
		}
		for k := 1 + r.Intn(4); it > 0 && k > 0 && len(data) > 0; k-- {
			i := r.Intn(len(data))
			switch r.Intn(5) {
			case 0:
				data[i] ^= 1 << uint(r.Intn(8))
			case 1:
				data[i] = byte(r.Intn(256))
			case 2:
				data = append(data[:i], data[i+1:]...)
			case 3:
				data = append(data[:i], append([]byte{byte(r.Intn(256))}, data[i:]...)...)
			case 4:
				data = data[:i]
			}
		}
		c.Note("fuzz decode %s %q", fs.syntax, data)
		var m *sproto.Message
		p := sl.Safe(func() { m, err = sproto.Unmarshal(fs.all, data) })
		c.Eval(1)
		c.Count("fuzz_decodes", 1)
		if p != nil {
			class := "other"
			if strings.Contains(p.String(), "to map key") {
				class = "map-entry-key-wrong-wiretype" // protobuf-go's unmarshalMap: a key field with a wrong wire type resets the key already read
			}
			c.Violation("C20 panic unmarshal "+class, fmt.Sprintf("host panic in proto.unmarshal(%s.All, %q): %s", fileVar(fs), driverTrunc(string(data)), p.String()), map[string]any{"data": fmt.Sprintf("%q", data), "stack": stackTrunc(p.Stack)})
			continue
		}
		if err != nil {
			c.Count("fuzz_decode_errors", 1)
			continue
		}
		c.Count("fuzz_decoded_ok", 1)
		problem, st := e.walk(m, false)
		if problem != "" {
			c.Violation("C20 invariant unmarshal-fuzz", problem, map[string]any{"data": fmt.Sprintf("%q", data)})
		}
		_, terr, tp := e.call(e.thread, g["touch"], m)
		if tp != nil {
			if st.undeclared {
				c.Count("fuzz_unknown_enum_panics", 1)
				c.Violation("C20 panic enum-field unknown-number",
					fmt.Sprintf("host panic printing/reading a message decoded from %q (an enum field holds a number without declared name): %s @ %s", data, tp.String(), tp.TopFrame()),
					map[string]any{"data": fmt.Sprintf("%q", data), "stack": stackTrunc(tp.Stack)})
			} else {
				c.Violation("C20 panic unmarshal-fuzz "+tp.TopFrame(), fmt.Sprintf("host panic printing/reading a message decoded from %q: %s", data, tp.String()),
					map[string]any{"data": fmt.Sprintf("%q", data), "stack": stackTrunc(tp.Stack)})
			}
		} else if terr != nil {
			if st.badUTF8 {
				c.Count("fuzz_invalid_utf8_errors", 1) // cannot happen: the decoder validates proto3 strings
			}
			c.Count("fuzz_touch_errors", 1)
		}
	}
	c.Distinct("fuzz " + fs.syntax + fmt.Sprint(c.Case()))
}

// ---------------------------------------------------------------------------------------------
// Extension fields through proto.set_field / get_field / has (proto2 file only).

func (e *env) extensionCase(ext string) {
	c := e.c
	fs := e.schema.files[0]
	xd := fs.fd.Extensions().ByName(protoreflect.Name(ext))
	if xd == nil {
		c.Violation("C20 harness no-extension", ext, nil)
		return
	}
	xfield := sproto.FieldDescriptor{Desc: xd}
	setf, getf, has := sproto.Module.Members["set_field"], sproto.Module.Members["get_field"], sproto.Module.Members["has"]
	kind := strings.ToLower(strings.TrimPrefix(xd.Kind().String(), "TYPE_"))
	c.Cover("extension_fields", ext)
	for vi := range e.pool {
		pv := &e.pool[vi]
		v := pv.mk(e, fs)
		where := fmt.Sprintf("proto2 extension %s (%s) %s", ext, kind, pv.label)
		c.Note("%s", where)
		m := e.newMsg(fs.all)
		// model
		verdict := vAccept
		var want []protoreflect.Value
		switch {
		case v == starlark.None:
		case xd.IsList():
			it := starlark.Iterate(v)
			if it == nil {
				verdict = vReject
				break
			}
			var x starlark.Value
			for it.Next(&x) {
				w, ver := e.refConv(xd, x)
				verdict = worse(verdict, ver)
				want = append(want, w)
			}
			it.Done()
		default:
			w, ver := e.refConv(xd, v)
			verdict = ver
			want = append(want, w)
		}
		_, err, p := e.call(e.thread, setf, m, xfield, v)
		c.Eval(1)
		c.Count("extension_cells", 1)
		c.Distinct("ext " + where)
		det := map[string]any{"where": where, "statement": fmt.Sprintf("proto.set_field(m, p2.%s, %s)", ext, driverTrunc(v.String())), "model_verdict": verdictName(verdict)}
		switch {
		case p != nil:
			key := fmt.Sprintf("C20 panic %s-field %s-value extension", kind, pv.class)
			if strings.Contains(p.String(), "ExtensionTypeDescriptor") {
				// one root cause: setField hands the plain extension descriptor to dynamicpb on its None and repeated paths
				key = "C20 panic set_field extension-descriptor"
			}
			c.Violation(key, fmt.Sprintf("host panic in proto.set_field(m, p2.%s, %s): %s @ %s", ext, driverTrunc(v.String()), p.String(), p.TopFrame()), det)
			continue
		case err != nil:
			if verdict == vAccept {
				c.Violation("C20 wrong-reject extension "+kind+" "+pv.label, fmt.Sprintf("proto.set_field(m, p2.%s, %s) failed: %v", ext, driverTrunc(v.String()), err), det)
			}
			continue
		case verdict == vReject:
			c.Violation("C20 wrong-accept extension "+kind+" "+pv.label, fmt.Sprintf("proto.set_field(m, p2.%s, %s) succeeded; m=%s", ext, driverTrunc(v.String()), safeString(m)), det)
			continue
		}
		// read back
		got, gerr, gp := e.call(e.thread, getf, m, xfield)
		hv, herr, hp := e.call(e.thread, has, m, xfield)
		var str string
		sp := sl.Safe(func() { str = m.String() })
		_, merr, mp := e.call(e.thread, sproto.Module.Members["marshal"], m)
		_, _, tp := e.call(e.thread, sproto.Module.Members["marshal_text"], m)
		for _, q := range []*sl.Panic{gp, hp, sp, mp, tp} {
			if q != nil {
				c.Violation(fmt.Sprintf("C20 panic %s-field %s-value extension-read", kind, pv.class), fmt.Sprintf("host panic reading/printing/encoding after %v: %s @ %s", det["statement"], q.String(), q.TopFrame()), det)
			}
		}
		if gp != nil || hp != nil || sp != nil || mp != nil || tp != nil {
			continue
		}
		_ = str
		if gerr != nil || herr != nil {
			c.Violation("C20 readback extension "+kind, fmt.Sprintf("get_field/has failed after %v: %v %v", det["statement"], gerr, herr), det)
			continue
		}
		if merr != nil {
			c.Violation("C20 marshal-fails extension "+kind, fmt.Sprintf("proto.marshal failed after %v: %v", det["statement"], merr), det)
		}
		if v != starlark.None && !xd.IsList() {
			if hv != starlark.True {
				c.Violation("C20 readback extension "+kind, fmt.Sprintf("proto.has is %v after %v", hv, det["statement"]), det)
			}
			if !sameStarlark(xd, got, want[0]) {
				c.Violation("C20 readback extension "+kind, fmt.Sprintf("get_field gives %v after %v", got, det["statement"]), det)
			} else {
				c.Count("extension_readback_equal", 1)
			}
		}
		// frozen
		before, _ := snapshot(m)
		m.Freeze()
		sk := map[string]string{"message": "msg"}[kind]
		if sk == "" {
			sk = kind
		}
		var v2 starlark.Value = e.sample(fs, sk, 2)
		if xd.IsList() {
			v2 = mkList(v2)
		}
		_, ferr, fp := e.call(e.thread, setf, m, xfield, v2)
		after, _ := snapshot(m)
		if fp != nil {
			c.Violation("C20 panic extension frozen-retry", fp.String(), det)
		} else if before != after {
			c.Violation("C20 frozen-mutated direct-set_field", fmt.Sprintf("frozen message changed by proto.set_field on extension %s: %s -> %s (err=%v)", ext, showSnap(before), showSnap(after), ferr), det)
		}
	}
}

// ---------------------------------------------------------------------------------------------
// Cyclic message: m.f_rec = m. Printing or encoding it recurses without bound, which is a fatal
// (unrecoverable) stack overflow, so it is observed in a helper process.

func init() {
	driver.RegisterHelper("c20-cycle", func(args []string) {
		debug.SetMaxStack(48 << 20)
		mode := "str"
		if len(args) > 0 {
			mode = args[0]
		}
		s, err := buildSchema()
		if err != nil {
			fmt.Println("HARNESS", err)
			os.Exit(4)
		}
		fs := s.files[1]
		th := &starlark.Thread{Name: "cycle"}
		sproto.SetPool(th, s.pool)
		mv, err := starlark.Call(th, sproto.MessageDescriptor{Desc: fs.all}, nil, []starlark.Tuple{{starlark.String("f_int32"), starlark.MakeInt(1)}})
		if err != nil {
			fmt.Println("HARNESS", err)
			os.Exit(4)
		}
		m := mv.(*sproto.Message)
		var target starlark.Value = m
		if mode == "list" { // cycle through a repeated field
			err = m.SetField("r_rec", starlark.NewList([]starlark.Value{m}))
		} else {
			err = m.SetField("f_rec", target)
		}
		if err != nil {
			fmt.Println("REJECTED", err)
			os.Exit(0)
		}
		fmt.Println("CYCLE-BUILT")
		switch mode {
		case "marshal":
			_, err = starlark.Call(th, sproto.Module.Members["marshal"], starlark.Tuple{m}, nil)
		default:
			_ = m.String()
		}
		fmt.Println("SURVIVED", err)
		os.Exit(0)
	})
}

func (e *env) cycleProbe(mode string) {
	c := e.c
	c.Note("cycle probe %s (helper process)", mode)
	cmd := exec.Command(driver.SelfExe(), "helper", "c20-cycle", mode)
	var out bytes.Buffer
	cmd.Stdout = &out
	cmd.Stderr = &out
	done := make(chan error, 1)
	if err := cmd.Start(); err != nil {
		c.Inconclusive("cannot start cycle helper: %v", err)
		return
	}
	go func() { done <- cmd.Wait() }()
	var werr error
	select {
	case werr = <-done:
	case <-time.After(5 * time.Minute):
		cmd.Process.Kill()
		<-done
		c.Inconclusive("cycle helper did not finish")
		return
	}
	c.Eval(1)
	c.Count("cycle_probes", 1)
	c.Distinct("cycle " + mode)
	o := out.String()
	stmt := map[string]string{"str": "m = p3.All(f_int32=1); m.f_rec = m; str(m)", "marshal": "m = p3.All(f_int32=1); m.f_rec = m; proto.marshal(m)", "list": "m = p3.All(f_int32=1); m.r_rec = [m]; str(m)"}[mode]
	switch {
	case strings.Contains(o, "HARNESS"):
		c.Inconclusive("cycle helper failed: %s", driverTrunc(o))
	case strings.Contains(o, "REJECTED"), strings.Contains(o, "SURVIVED"):
		c.Count("cycle_probe_survived", 1)
	case werr != nil && (strings.Contains(o, "stack overflow") || strings.Contains(o, "stack exceeds")):
		c.Count("cycle_probe_fatal", 1)
		head := o
		if i := strings.Index(o, "fatal error"); i >= 0 {
			head = o[i:]
		}
		c.Violation("C20 fatal cyclic-message", fmt.Sprintf("process died (fatal stack overflow, not recoverable) running: %s", stmt),
			map[string]any{"statement": stmt, "exit": werr.Error(), "output_head": driverTrunc(head)})
	default:
		c.Violation("C20 fatal cyclic-message", fmt.Sprintf("helper process died running: %s: %v", stmt, werr), map[string]any{"statement": stmt, "output_head": driverTrunc(o)})
	}
}

// ---------------------------------------------------------------------------------------------
// Plain-Starlark views: element wrappers obtained from a message through dict(mapfield),
// dict.update(mapfield), list/tuple/sorted/reversed(repeatedfield), comprehensions and loop variables
// (and the Go accessors Items/Entries/Elements/Index/Get) must stay tied to the message's frozen
// flag: after Freeze() no mutation through a captured element may change the message.

type plainForm struct {
	name  string
	shape string // "view-dict-of-map" | "view-items-of-map" | "view-list-of-repeated" | "view-iteration-variable"
	body  string // body of "def cap(m):" returning a list of element wrappers ("" = Go form)
	goFn  func(m *sproto.Message) []starlark.Value
}

func attrOf(m *sproto.Message, name string) starlark.Value {
	v, _ := m.Attr(name)
	return v
}

var plainForms = []plainForm{
	{name: "dict(map).values()", shape: "view-dict-of-map", body: "return dict(m.mv_rec).values()"},
	{name: "dict(map)[k]", shape: "view-dict-of-map", body: "return [dict(m.mv_rec)[\"k0\"], dict(m.mv_rec)[\"k1\"]]"},
	{name: "dict.update(map)", shape: "view-dict-of-map", body: "d = {}\n    d.update(m.mv_rec)\n    return d.values()"},
	{name: "dict(map, **kw)", shape: "view-dict-of-map", body: "return [v for v in dict(m.mv_rec, zz = 1).values() if v != 1]"},
	{name: "dict(map).items()", shape: "view-items-of-map", body: "return [kv[1] for kv in dict(m.mv_rec).items()]"},
	{name: "for k, v in dict(map).items()", shape: "view-items-of-map", body: "out = []\n    for k, v in dict(m.mv_rec).items():\n        out.append(v)\n    return out"},
	{name: "MapField.Items()", shape: "view-items-of-map", goFn: func(m *sproto.Message) []starlark.Value {
		var out []starlark.Value
		for _, kv := range attrOf(m, "mv_rec").(starlark.IterableMapping).Items() {
			out = append(out, kv[1])
		}
		return out
	}},
	{name: "MapField.Entries()", shape: "view-items-of-map", goFn: func(m *sproto.Message) []starlark.Value {
		var out []starlark.Value
		if mf, ok := attrOf(m, "mv_rec").(*sproto.MapField); ok {
			for _, v := range mf.Entries() {
				out = append(out, v)
			}
		}
		return out
	}},
	{name: "MapField.Get", shape: "view-items-of-map", goFn: func(m *sproto.Message) []starlark.Value {
		v, _, _ := attrOf(m, "mv_rec").(starlark.Mapping).Get(starlark.String("k0"))
		return []starlark.Value{v}
	}},
	{name: "for k in map: map[k]", shape: "view-iteration-variable", body: "out = []\n    for k in m.mv_rec:\n        out.append(m.mv_rec[k])\n    return out"},
	{name: "[e for e in repeated]", shape: "view-iteration-variable", body: "return [e for e in m.r_rec]"},
	{name: "loop variable after loop", shape: "view-iteration-variable", body: "last = None\n    for e in m.r_rec:\n        last = e\n    return [last]"},
	{name: "enumerate/zip", shape: "view-iteration-variable", body: "return [e for i, e in enumerate(m.r_rec)] + [p[0] for p in zip(m.r_rec, m.r_rec)]"},
	{name: "list(repeated)", shape: "view-list-of-repeated", body: "return list(m.r_rec)"},
	{name: "tuple(repeated)", shape: "view-list-of-repeated", body: "return list(tuple(m.r_rec))"},
	{name: "sorted(repeated)", shape: "view-list-of-repeated", body: "return sorted(m.r_rec, key = lambda e: -e.f_int32)"},
	{name: "reversed(repeated)", shape: "view-list-of-repeated", body: "return list(reversed(m.r_rec))"},
	{name: "repeated[i]", shape: "view-list-of-repeated", body: "return [m.r_rec[0], m.r_rec[-1]]"},
	{name: "list + list(repeated)", shape: "view-list-of-repeated", body: "l = []\n    l.extend(m.r_rec)\n    return l + list(m.r_rec)"},
	{name: "RepeatedField.Elements()", shape: "view-list-of-repeated", goFn: func(m *sproto.Message) []starlark.Value {
		var out []starlark.Value
		if rf, ok := attrOf(m, "r_rec").(*sproto.RepeatedField); ok {
			for v := range rf.Elements() {
				out = append(out, v)
			}
		}
		return out
	}},
	{name: "nested: dict(map)[k].f_rec", shape: "view-dict-of-map", body: "return [v.f_rec for v in dict(m.mv_rec).values()]"},
}

const plainMutSrc = `
def mut0(e, n): e.f_int32 = n
def mut1(e, n): e.r_int32 = [n]
def mut2(e, n): e.mv_int32 = {"z": n}
def mut3(e, n): proto.set_field(e, e.descriptor.f_int32, n)
def mut4(e, n): e.r_int32.append(n)
def mut5(e, n): e.mv_int32["z"] = n
def mut6(e, n): e.f_rec = {"f_int32": n}
def mut7(e, n): e.f_rec.f_int32 = n
def mut8(e, n): e.r_int32[0] = n
`

func (e *env) plainViewCase(fs *fileSchema, form *plainForm) {
	c := e.c
	F := fileVar(fs)
	build := fmt.Sprintf(`
def sub(n): return %[1]s.All(f_int32 = n, r_int32 = [n + 1], mv_int32 = {"a": n + 2}, f_rec = %[1]s.All(f_int32 = n + 3))
def build(): return %[1]s.All(f_int32 = 1, f_rec = sub(10), r_rec = [sub(20), sub(30)], mv_rec = {"k0": sub(40), "k1": sub(50)})
`, F)
	src := build + plainMutSrc
	if form.body != "" {
		src += "def cap(m):\n    " + form.body + "\n"
	}
	g, err, p := e.exec(e.thread, src, nil)
	if err != nil || p != nil {
		c.Violation("C20 harness plain-view-program", fmt.Sprintf("%s: err=%v panic=%v", form.name, err, p), nil)
		return
	}
	c.Cover("plain_view_forms", form.name)
	for _, captureFirst := range []bool{true, false} {
		for _, moduleFreeze := range []bool{false, true} {
			where := fmt.Sprintf("%s %s capture-before-freeze=%v module-freeze=%v", fs.syntax, form.name, captureFirst, moduleFreeze)
			c.Note("plain view %s", where)
			mv, err, p := e.call(e.thread, g["build"])
			if err != nil || p != nil {
				c.Violation("C20 setup construct-valid-message", fmt.Sprintf("%s: err=%v panic=%v", where, err, p), nil)
				return
			}
			m := mv.(*sproto.Message)
			capture := func() ([]starlark.Value, bool) {
				var elems []starlark.Value
				if form.goFn != nil {
					if p := sl.Safe(func() { elems = form.goFn(m) }); p != nil {
						c.Violation("C20 panic plain-view capture", fmt.Sprintf("%s: %s", where, p.String()), map[string]any{"stack": stackTrunc(p.Stack)})
						return nil, false
					}
					return elems, true
				}
				res, err, p := e.call(e.thread, g["cap"], m)
				if p != nil {
					c.Violation("C20 panic plain-view capture", fmt.Sprintf("%s: %s", where, p.String()), map[string]any{"stack": stackTrunc(p.Stack)})
					return nil, false
				}
				if err != nil {
					c.Violation("C20 harness plain-view-capture", fmt.Sprintf("%s: %v", where, err), nil)
					return nil, false
				}
				it := starlark.Iterate(res)
				if it == nil {
					return nil, true
				}
				defer it.Done()
				var x starlark.Value
				for it.Next(&x) {
					elems = append(elems, x)
				}
				return elems, true
			}
			var elems []starlark.Value
			ok := true
			if captureFirst {
				elems, ok = capture()
			}
			before, _ := snapshot(m)
			if moduleFreeze {
				_, err, p := e.exec(e.newThread(), "g = [x]\n", starlark.StringDict{"x": m})
				if err != nil || p != nil {
					c.Violation("C20 harness module-freeze", fmt.Sprintf("%s: err=%v panic=%v", where, err, p), nil)
					return
				}
			} else {
				m.Freeze()
			}
			if !captureFirst {
				elems, ok = capture()
			}
			if !ok {
				continue
			}
			n := 1000
			for ei, el := range elems {
				if _, isMsg := el.(*sproto.Message); !isMsg {
					continue
				}
				for mi := 0; mi <= 8; mi++ {
					n++
					_, merr, mp := e.call(e.thread, g[fmt.Sprintf("mut%d", mi)], el, starlark.MakeInt(n))
					after, sp := snapshot(m)
					c.Eval(1)
					c.Count("plain_view_mutation_attempts", 1)
					stmt := strings.TrimSpace(strings.Split(plainMutSrc, "\n")[mi+1])
					det := map[string]any{"where": where, "capture": form.name, "element": ei, "mutation": stmt, "before": showSnap(before), "after": showSnap(after)}
					switch {
					case mp != nil:
						c.Violation("C20 panic plain-view mutate", fmt.Sprintf("host panic in %q on an element captured by %s: %s", stmt, form.name, mp.String()), det)
					case sp != nil:
						c.Violation("C20 panic plain-view snapshot", sp.String(), det)
					case after != before:
						c.Count("frozen_mutations_observed", 1)
						c.Cover("frozen_mutated_shapes", form.shape)
						c.Violation("C20 frozen-mutated "+form.shape,
							fmt.Sprintf("frozen message changed through an element captured by %s (%s): %q succeeded (err=%v): before %s, after %s",
								form.name, where, stmt, merr, driverTrunc(showSnap(before)), driverTrunc(showSnap(after))), det)
						before = after
					case merr != nil:
						c.Count("plain_view_frozen_rejections", 1)
					}
				}
			}
			c.Distinct("plain-view " + where)
			if problem, _ := e.walk(m, true); problem != "" {
				c.Violation("C20 invariant plain-view", problem+" ("+where+")", nil)
			}
		}
	}
}
