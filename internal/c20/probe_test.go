package c20

import (
	"fmt"
	"testing"

	sproto "go.starlark.net/lib/proto"
	"go.starlark.net/starlark"
	"go.starlark.net/syntax"
	"verif/internal/sl"
)

func TestProbe(t *testing.T) {
	s, err := buildSchema()
	if err != nil {
		t.Fatal(err)
	}
	progs := []string{
		`m = p3.All(f_int32=1); print(m); print(proto.marshal(m))`,
		`m = p3.All(); m.f_string = b"ab"`,
		`m = p3.All(mk_string={"a":1}); m.mk_string[b"k"] = 1`,
		`m = p3.All(mk_string={"a":1}); print(b"k" in m.mk_string)`,
		`m = p3.All(); m.f_string = "\xff"; print(m); print(proto.marshal(m))`,
		`m = p2.All(); m.f_string = "\xff"; print(m); print(proto.marshal(m)); print(proto.marshal_text(m))`,
		`m = p3.All(r_int32=[1,2,3]); m.r_int32 = m.r_int32; print(m)`,
		`m = p3.All(mv_int32={"a":1}); m.mv_int32 = m.mv_int32; print(m)`,
		`m = p2.All(); proto.set_field(m, p2.x_i, 5); print(m); print(proto.get_field(m, p2.x_i)); b = proto.marshal(m); m2 = proto.unmarshal(p2.All, b); print(m2, proto.get_field(m2, p2.x_i)); print(proto.marshal(m2)==b)`,
		`m = p2.All(); proto.set_field(m, p2.x_r, [1,2])`,
		`m = p2.All(); proto.set_field(m, p2.x_m, p2.Sub(i=1)); print(m); print(proto.marshal_text(m)); print(proto.unmarshal_text(p2.All, proto.marshal_text(m)))`,
		`m = proto.unmarshal(p3.All, b"\x80\x01\x63"); print(proto.marshal(m)); x = m.f_enum; print(type(x)); print(x)`,
		`m = proto.unmarshal(p2.All, b"\x80\x01\x63"); print(proto.marshal(m)); x = m.f_enum; print(type(x)); print(x)`,
		`m = proto.unmarshal_text(p3.All, "f_enum: 99"); print(proto.marshal(m)); print(m)`,
		`m = p3.All(f_double = 1<<2000); print(m)`,
		`m = p3.All(f_float = 1<<200); print(m)`,
		`m = p3.All(f_float = 0.1); print(m.f_float)`,
		`m = p3.All(f_rec = p3.All(f_int32=1)); c = p3.All(m); freeze(m); c.f_rec.f_int32 = 99; print(m)`,
		`m = p3.All(r_int32=[1]); c = p3.All(m); freeze(m); c.r_int32 = [7,8]; print(m)`,
		`m = p3.All(r_int32=[1]); c = p3.All(m); freeze(m); c.r_int32 = c.r_int32; print(m)`,
		`m = p3.All(); print(m.d_int32 if hasattr(m, "d_int32") else "-"); n = p2.All(); print(n.d_int32, n.d_string, n.d_bytes, n.d_enum, n.d_uint64, n.d_bool, n.d_double, n.f_enum)`,
		`m = p3.All(c_i = 1); m.c_s = "x"; print(m); m.o_int32 = 0; print(m, proto.has(m, "o_int32"))`,
		`m = p3.All(); m.r_int32.append(1)`,
		`m = p3.All(r_int32=[1]);
for x in m.r_int32:
    if len(m.r_int32) < 4: m.r_int32.append(2)
print(m)`,
		`m = p3.All(f_enum = 99)`,
		`m = p3.All(f_enum = p3.Other.OTHER_ONE)`,
		`m = p3.All(f_enum = p2.E.ONE)`,
		`m = p3.All(f_msg = p2.Sub())`,
		`m = p3.All(f_bytes = "h\xffi"); print(m); print(m.f_bytes)`,
		`m = p3.All(f_bool = 1)`,
		`m = p3.All(f_int32 = True)`,
		`m = p3.All(f_int32 = 1.0)`,
		`print(dir(p3), dir(p3.All), p3.All.f_int32, p3.E.ONE, p3.E(1), p3.E("TWO"))`,
	}
	for _, src := range progs {
		th := &starlark.Thread{Name: "t", Print: func(_ *starlark.Thread, msg string) { fmt.Println("   |", msg) }}
		sproto.SetPool(th, s.pool)
		env := starlark.StringDict{
			"proto": sproto.Module,
			"p2":    sproto.FileDescriptor{Desc: s.files[0].fd},
			"p3":    sproto.FileDescriptor{Desc: s.files[1].fd},
			"freeze": starlark.NewBuiltin("freeze", func(th *starlark.Thread, b *starlark.Builtin, args starlark.Tuple, kw []starlark.Tuple) (starlark.Value, error) {
				args[0].Freeze()
				return starlark.None, nil
			}),
		}
		fmt.Println(">>>", src)
		var err error
		p := sl.Safe(func() {
			_, err = starlark.ExecFileOptions(&syntax.FileOptions{TopLevelControl: true, GlobalReassign: true}, th, "x.star", src, env)
		})
		if p != nil {
			fmt.Println("   PANIC:", p.String(), "@", p.TopFrame())
		} else if err != nil {
			fmt.Println("   error:", err)
		}
	}
}
