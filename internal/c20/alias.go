package c20

import (
	"fmt"
	"math/rand"
	"sort"
	"strings"

	sproto "go.starlark.net/lib/proto"
	"go.starlark.net/starlark"

	"verif/internal/sl"
)

// ---------------------------------------------------------------------------------------------
// Alias-view sequences: several Starlark wrappers of ONE underlying message.
//
// lib/proto creates a new *Message wrapper on every p.f_rec / p.r_rec[i] / p.mv_rec[k] access, and a
// message assigned into a field, list element or map value is aliased (toProto: "alias it directly"), as
// are the sub-messages of a shallow copy M(p). A sequence builds one target message T, reaches it through
// 2..3 long-lived wrappers obtained by different routes, and interleaves, through a randomly chosen wrapper
// (long-lived, or obtained afresh by a route): reading a repeated/map field and keeping the view,
// whole-field assignment (list, tuple, dict, empty, None, a kept view, another wrapper's view; by
// attribute or proto.set_field), None-then-assign, element writes through a freshly read view or through a
// kept view, scalar assignment, and replacing a long-lived wrapper by a fresh one.
//
// Oracle, after the set-up and after every step, against a reference model of T:
//   - every long-lived wrapper and a fresh wrapper by every route reads, for every modelled field, exactly
//     the model's content ("reads back exactly as written": w.f NOW, whichever wrapper w is);
//   - proto.unmarshal(proto.marshal(w)) and unmarshal_text(marshal_text(w)) read the same content;
//   - a kept view that the model says is still the field's storage reads the same content.
// The model follows what the unchanged lib/proto + dynamicpb do with storage objects: assigning a list
// refills the field's existing list object (a new one only if the field has none), assigning a map or None
// installs a new object / none, a view of an empty field is a detached frozen default. A kept view of a
// replaced object is detached: it is written through (no panic) but nothing is demanded of it. A failed
// element write (frozen default view of an empty field) changes nothing. Which wrappers alias T is not
// assumed: it is confirmed by storage identity after the set-up and after every re-wrap, and a route that
// does not alias is dropped (counted), not judged.

type avField struct {
	name string
	kind byte   // 'r' repeated, 'm' map, 's' singular scalar
	ek   string // map key kind
	ev   string // element / value kind
}

var avFields = []avField{
	{"r_int32", 'r', "", "int32"},
	{"r_uint64", 'r', "", "uint64"},
	{"r_string", 'r', "", "string"},
	{"r_msg", 'r', "", "msg"},
	{"mv_int32", 'm', "string", "int32"},
	{"mv_uint64", 'm', "string", "uint64"},
	{"mv_string", 'm', "string", "string"},
	{"mv_msg", 'm', "string", "msg"},
	{"mk_int64", 'm', "int64", "int32"},
	{"f_int32", 's', "", "int32"},
	{"f_string", 's', "", "string"},
}

func (f *avField) shape() string {
	switch f.kind {
	case 'r':
		return "repeated"
	case 'm':
		return "map"
	}
	return "scalar"
}

// avElem is one value: Starlark source, the printed form it must read back as, and a Go constructor.
type avElem struct {
	expr  string
	canon string
	mk    func() starlark.Value
}

// avCont models one list/map storage object.
type avCont struct {
	id   int
	list []avElem
	keys map[string]avElem // key canon -> key
	vals map[string]avElem // key canon -> value
}

func (c *avCont) size() int {
	if c == nil {
		return 0
	}
	if c.keys != nil {
		return len(c.keys)
	}
	return len(c.list)
}

func canonList(elems []string) string { return "[" + strings.Join(elems, ", ") + "]" }

func canonMap(entries []string) string {
	sort.Strings(entries)
	return "{" + strings.Join(entries, ", ") + "}"
}

func (c *avCont) canon(f *avField) string {
	if f.kind == 'r' {
		var l []string
		if c != nil {
			for _, e := range c.list {
				l = append(l, e.canon)
			}
		}
		return canonList(l)
	}
	var l []string
	if c != nil {
		for k, key := range c.keys {
			l = append(l, key.canon+": "+c.vals[k].canon)
		}
	}
	return canonMap(l)
}

// canonRead renders what a field read returned, element by element (Len/Index, Items).
func canonRead(f *avField, v starlark.Value) string {
	switch f.kind {
	case 'r':
		ix, ok := v.(starlark.Indexable)
		if !ok {
			return fmt.Sprintf("<%s %s>", v.Type(), v.String())
		}
		var l []string
		for i := 0; i < ix.Len(); i++ {
			l = append(l, ix.Index(i).String())
		}
		return canonList(l)
	case 'm':
		mf, ok := v.(*sproto.MapField)
		if !ok {
			return fmt.Sprintf("<%s %s>", v.Type(), v.String())
		}
		var l []string
		for _, kv := range mf.Items() {
			l = append(l, kv[0].String()+": "+kv[1].String())
		}
		return canonMap(l)
	}
	return v.String()
}

type avRoute struct {
	kind string // orig | sub | elem | mapval | deep-* | copy-*
	p    path
}

func (rt avRoute) expr() string { return rt.p.String() }

type avSlot struct {
	field *avField
	cont  *avCont // nil: the detached frozen default view of an empty field
}

type avOp struct {
	name  string
	stmt  string
	goFn  func() error
	apply func(ok bool)
}

type avSeq struct {
	e       *env
	fs      *fileSchema
	F       string
	r       *rand.Rand
	th      *starlark.Thread
	store   *starlark.Dict
	goRoute bool
	n       int
	nconts  int

	routes   []avRoute
	wrappers []string // names of the long-lived wrapper slots in store
	focus    []*avField
	cont     map[string]*avCont // field name -> current storage object (nil: none)
	scal     map[string]avElem
	slots    map[string]*avSlot // kept views

	readBy    map[string]map[string]bool // field -> targets that read it (explicit operations only)
	replaced  int                        // storage objects replaced through another wrapper than one that had read the field
	log       []string
	shape     []string
	dead      bool
	lastOp    string
	setupKind []string
}

func (s *avSeq) fresh() int { s.n++; return 100 + s.n }

func intElem(v int64) avElem {
	return avElem{expr: fmt.Sprint(v), canon: fmt.Sprint(v), mk: func() starlark.Value { return starlark.MakeInt64(v) }}
}
func uintElem(v uint64) avElem {
	return avElem{expr: fmt.Sprint(v), canon: fmt.Sprint(v), mk: func() starlark.Value { return starlark.MakeUint64(v) }}
}
func strElem(v string) avElem {
	q := starlark.String(v).String()
	return avElem{expr: q, canon: q, mk: func() starlark.Value { return starlark.String(v) }}
}

func (s *avSeq) elem(kind string) avElem {
	r := s.r
	switch kind {
	case "int32":
		switch r.Intn(8) {
		case 0:
			return intElem(-2147483648)
		case 1:
			return intElem(2147483647)
		case 2:
			return intElem(-int64(s.fresh()))
		}
		return intElem(int64(s.fresh()))
	case "int64":
		switch r.Intn(6) {
		case 0:
			return intElem(-1 << 63)
		case 1:
			return intElem(1<<63 - 1)
		case 2:
			return intElem(-int64(s.fresh()))
		}
		return intElem(int64(s.fresh()))
	case "uint64":
		switch r.Intn(4) {
		case 0:
			return uintElem(1<<64 - 1)
		case 1:
			return uintElem(1<<63 + uint64(s.fresh()))
		}
		return uintElem(uint64(s.fresh()))
	case "string":
		switch r.Intn(6) {
		case 0:
			return strElem(fmt.Sprintf("é%d", s.fresh()))
		case 1:
			return strElem(fmt.Sprintf("q\"%d\n", s.fresh()))
		}
		return strElem(fmt.Sprintf("s%d", s.fresh()))
	case "msg":
		n := s.fresh()
		expr := fmt.Sprintf("%s.Sub(i = %d)", s.F, n)
		if r.Intn(3) == 0 {
			expr = fmt.Sprintf("{\"i\": %d}", n)
		}
		return avElem{expr: expr, canon: fmt.Sprintf("%s.Sub(i=%d)", s.fs.pkg, n),
			mk: func() starlark.Value { return s.e.newMsg(s.fs.sub, "i", starlark.MakeInt(n)) }}
	}
	panic("c20: avSeq.elem " + kind)
}

// key returns a map key; existing keys are reused often so that entries get overwritten.
func (s *avSeq) key(f *avField, c *avCont) avElem {
	if c != nil && len(c.keys) > 0 && s.r.Intn(2) == 0 {
		var ks []string
		for k := range c.keys {
			ks = append(ks, k)
		}
		sort.Strings(ks)
		return c.keys[ks[s.r.Intn(len(ks))]]
	}
	if f.ek == "string" {
		return strElem(fmt.Sprintf("k%d", s.r.Intn(4)))
	}
	return [...]avElem{intElem(0), intElem(-1), intElem(7), intElem(-1 << 63), intElem(1<<63 - 1)}[s.r.Intn(5)]
}

func (s *avSeq) listValue(f *avField, n int) []avElem {
	var l []avElem
	for i := 0; i < n; i++ {
		l = append(l, s.elem(f.ev))
	}
	return l
}

func (s *avSeq) mapValue(f *avField, n int) *avCont {
	c := &avCont{keys: map[string]avElem{}, vals: map[string]avElem{}}
	for i := 0; i < n; i++ {
		k := s.key(f, c)
		c.keys[k.canon], c.vals[k.canon] = k, s.elem(f.ev)
	}
	return c
}

func listExpr(l []avElem, tuple bool) string {
	var parts []string
	for _, e := range l {
		parts = append(parts, e.expr)
	}
	if tuple {
		if len(parts) == 1 {
			return "(" + parts[0] + ",)"
		}
		return "(" + strings.Join(parts, ", ") + ")"
	}
	return "[" + strings.Join(parts, ", ") + "]"
}

func sortedCanonKeys(c *avCont) []string {
	var ks []string
	for k := range c.keys {
		ks = append(ks, k)
	}
	sort.Strings(ks)
	return ks
}

func mapExpr(c *avCont) string {
	var parts []string
	for _, k := range sortedCanonKeys(c) {
		parts = append(parts, c.keys[k].expr+": "+c.vals[k].expr)
	}
	return "{" + strings.Join(parts, ", ") + "}"
}

func goList(l []avElem, tuple bool) starlark.Value {
	var vs []starlark.Value
	for _, e := range l {
		vs = append(vs, e.mk())
	}
	if tuple {
		return starlark.Tuple(vs)
	}
	return starlark.NewList(vs)
}

func goDict(c *avCont) starlark.Value {
	d := starlark.NewDict(len(c.keys))
	for _, k := range sortedCanonKeys(c) {
		d.SetKey(c.keys[k].mk(), c.vals[k].mk())
	}
	return d
}

// ---- model ---------------------------------------------------------------------------------

func (s *avSeq) newCont(isMap bool) *avCont {
	s.nconts++
	c := &avCont{id: s.nconts}
	if isMap {
		c.keys, c.vals = map[string]avElem{}, map[string]avElem{}
	}
	return c
}

// assignList: the field's list object is kept and refilled; a field without one gets a new one.
func (s *avSeq) assignList(f *avField, l []avElem) {
	c := s.cont[f.name]
	if c == nil {
		c = s.newCont(false)
		s.cont[f.name] = c
	}
	c.list = append([]avElem(nil), l...)
}

// assignMap: the field is cleared and gets a new map object.
func (s *avSeq) assignMap(f *avField, src *avCont) {
	c := s.newCont(true)
	if src != nil {
		for k, key := range src.keys {
			c.keys[k], c.vals[k] = key, src.vals[k]
		}
	}
	s.cont[f.name] = c
}

func (s *avSeq) want(f *avField) string {
	if f.kind == 's' {
		return s.scal[f.name].canon
	}
	return s.cont[f.name].canon(f)
}

// ---- set-up --------------------------------------------------------------------------------

func (s *avSeq) v(name string) string { return fmt.Sprintf("v[%q]", name) }

// tInit chooses T's initial content and returns it as keyword arguments / dict entries.
func (s *avSeq) tInit() (kwargs, dict string) {
	var kw, di []string
	add := func(name, expr string) {
		kw = append(kw, name+" = "+expr)
		di = append(di, fmt.Sprintf("%q: %s", name, expr))
	}
	for i := range avFields {
		f := &avFields[i]
		switch f.kind {
		case 's':
			e := s.elem(f.ev)
			s.scal[f.name] = e
			add(f.name, e.expr)
		case 'r':
			focus := false
			for _, g := range s.focus {
				focus = focus || g == f
			}
			if (focus && s.r.Intn(4) != 0) || (!focus && s.r.Intn(4) == 0) {
				l := s.listValue(f, 1+s.r.Intn(3))
				s.assignList(f, l)
				add(f.name, listExpr(l, false))
			}
		case 'm':
			focus := false
			for _, g := range s.focus {
				focus = focus || g == f
			}
			if (focus && s.r.Intn(4) != 0) || (!focus && s.r.Intn(4) == 0) {
				src := s.mapValue(f, 1+s.r.Intn(3))
				s.assignMap(f, src)
				add(f.name, mapExpr(src))
			}
		}
	}
	return strings.Join(kw, ", "), "{" + strings.Join(di, ", ") + "}"
}

var avLinkKinds = []string{"kwarg-sub", "kwarg-list", "kwarg-dict", "dictarg-sub", "attr-sub", "attr-list", "attr-dict", "set_field-sub", "append", "setindex", "setkey"}

// link renders statements that place the message tExpr into parent variable pv (created here) and
// returns the route steps from the parent to it.
func (s *avSeq) link(kind, pv, tExpr string) (lines []string, steps []step) {
	F, P := s.F, s.v(pv)
	filler := func() string { return fmt.Sprintf("%s.All(f_int32 = %d)", F, s.fresh()) }
	switch kind {
	case "kwarg-sub":
		return []string{fmt.Sprintf("%s = %s.All(f_rec = %s)", P, F, tExpr)}, []step{{field: "f_rec"}}
	case "dictarg-sub":
		return []string{fmt.Sprintf("%s = %s.All({\"f_rec\": %s, \"f_int32\": %d})", P, F, tExpr, s.fresh())}, []step{{field: "f_rec"}}
	case "kwarg-list":
		if s.r.Intn(2) == 0 {
			return []string{fmt.Sprintf("%s = %s.All(r_rec = [%s, %s])", P, F, tExpr, filler())}, []step{{field: "r_rec", idx: 0}}
		}
		return []string{fmt.Sprintf("%s = %s.All(r_rec = [%s, %s])", P, F, filler(), tExpr)}, []step{{field: "r_rec", idx: 1}}
	case "kwarg-dict":
		return []string{fmt.Sprintf("%s = %s.All(mv_rec = {\"ka\": %s, \"kb\": %s})", P, F, tExpr, filler())}, []step{{field: "mv_rec", key: "ka"}}
	case "attr-sub":
		return []string{fmt.Sprintf("%s = %s.All(f_int32 = %d)", P, F, s.fresh()), fmt.Sprintf("%s.f_rec = %s", P, tExpr)}, []step{{field: "f_rec"}}
	case "set_field-sub":
		return []string{fmt.Sprintf("%s = %s.All(f_int32 = %d)", P, F, s.fresh()), fmt.Sprintf("proto.set_field(%s, %s.All.f_rec, %s)", P, F, tExpr)}, []step{{field: "f_rec"}}
	case "attr-list":
		return []string{fmt.Sprintf("%s = %s.All(f_int32 = %d)", P, F, s.fresh()), fmt.Sprintf("%s.r_rec = (%s, %s)", P, filler(), tExpr)}, []step{{field: "r_rec", idx: 1}}
	case "attr-dict":
		return []string{fmt.Sprintf("%s = %s.All(f_int32 = %d)", P, F, s.fresh()), fmt.Sprintf("%s.mv_rec = {\"kb\": %s}", P, tExpr)}, []step{{field: "mv_rec", key: "kb"}}
	case "append":
		return []string{fmt.Sprintf("%s = %s.All(r_rec = [%s])", P, F, filler()), fmt.Sprintf("%s.r_rec.append(%s)", P, tExpr)}, []step{{field: "r_rec", idx: 1}}
	case "setindex":
		return []string{fmt.Sprintf("%s = %s.All(r_rec = [%s, %s])", P, F, filler(), filler()), fmt.Sprintf("%s.r_rec[0] = %s", P, tExpr)}, []step{{field: "r_rec", idx: 0}}
	case "setkey":
		return []string{fmt.Sprintf("%s = %s.All(mv_rec = {\"ka\": %s})", P, F, filler()), fmt.Sprintf("%s.mv_rec[\"kc\"] = %s", P, tExpr)}, []step{{field: "mv_rec", key: "kc"}}
	}
	panic("c20: link kind " + kind)
}

func routeKind(prefix string, steps []step) string {
	last := steps[len(steps)-1]
	return prefix + map[string]string{"f_rec": "sub", "r_rec": "elem", "mv_rec": "mapval"}[last.field]
}

// evalRoute evaluates a route through the Go API of the wrappers (a new wrapper on every call).
func (s *avSeq) evalRoute(p path) (*sproto.Message, error) {
	root, found, _ := s.store.Get(starlark.String(p.v))
	if !found {
		return nil, fmt.Errorf("no variable %s", p.v)
	}
	w, err := evalGo(&hvar{val: root}, p)
	if err != nil {
		return nil, err
	}
	m, ok := w.(*sproto.Message)
	if !ok {
		return nil, fmt.Errorf("%s is %s", p, w.Type())
	}
	return m, nil
}

func (s *avSeq) setup() bool {
	c, r := s.e.c, s.r
	// focus fields: two repeated and two map fields receive most operations
	var reps, maps []*avField
	for i := range avFields {
		switch avFields[i].kind {
		case 'r':
			reps = append(reps, &avFields[i])
		case 'm':
			maps = append(maps, &avFields[i])
		}
	}
	r.Shuffle(len(reps), func(i, j int) { reps[i], reps[j] = reps[j], reps[i] })
	r.Shuffle(len(maps), func(i, j int) { maps[i], maps[j] = maps[j], maps[i] })
	s.focus = []*avField{reps[0], reps[1], maps[0], maps[1]}

	kwargs, dict := s.tInit()
	var lines []string
	mode := [...]string{"ctor-var", "ctor-var", "ctor-var", "ctor-var", "ctor-inline", "dict-inline", "decoded"}[r.Intn(7)]
	tExpr := ""
	switch mode {
	case "ctor-var":
		lines = append(lines, fmt.Sprintf("%s = %s.All(%s)", s.v("x"), s.F, kwargs))
		tExpr = s.v("x")
		s.routes = append(s.routes, avRoute{"orig", path{v: "x"}})
	case "ctor-inline", "decoded":
		tExpr = fmt.Sprintf("%s.All(%s)", s.F, kwargs)
	case "dict-inline":
		tExpr = dict
	}
	k1 := avLinkKinds[r.Intn(len(avLinkKinds))]
	l1, steps1 := s.link(k1, "p", tExpr)
	lines = append(lines, l1...)
	if mode == "decoded" {
		lines = append(lines, fmt.Sprintf("%s = proto.unmarshal(%s.All, proto.marshal(%s))", s.v("p"), s.F, s.v("p")))
	}
	rt1 := avRoute{routeKind("", steps1), path{v: "p", steps: steps1}}
	s.routes = append(s.routes, rt1)
	s.setupKind = append(s.setupKind, mode, k1)
	c.Cover("alias_target_origins", mode)
	c.Cover("alias_link_kinds", k1)
	if r.Intn(2) == 0 { // a second parent holding the same message
		src := tExpr
		if mode != "ctor-var" {
			src = rt1.expr()
		}
		k2 := avLinkKinds[r.Intn(len(avLinkKinds))]
		l2, steps2 := s.link(k2, "q", src)
		lines = append(lines, l2...)
		s.routes = append(s.routes, avRoute{routeKind("", steps2), path{v: "q", steps: steps2}})
		s.setupKind = append(s.setupKind, k2)
		c.Cover("alias_link_kinds", k2)
	}
	if r.Intn(5) == 0 { // the parent itself nested one level deeper
		lines = append(lines, fmt.Sprintf("%s = %s.All(f_rec = %s)", s.v("g"), s.F, s.v("p")))
		s.routes = append(s.routes, avRoute{routeKind("deep-", steps1), path{v: "g", steps: append([]step{{field: "f_rec"}}, steps1...)}})
		s.setupKind = append(s.setupKind, "deep")
	}
	if r.Intn(3) == 0 { // shallow copy of the parent: its sub-messages stay shared
		lines = append(lines, fmt.Sprintf("%s = %s.All(%s)", s.v("c"), s.F, s.v("p")))
		s.routes = append(s.routes, avRoute{routeKind("copy-", steps1), path{v: "c", steps: steps1}})
		s.setupKind = append(s.setupKind, "copy")
	}
	// long-lived wrappers
	nw := 2 + r.Intn(2)
	for i := 0; i < nw; i++ {
		rt := s.routes[r.Intn(len(s.routes))]
		if i < len(s.routes) && r.Intn(2) == 0 {
			rt = s.routes[i] // spread over the routes
		}
		name := fmt.Sprintf("w%d", i)
		lines = append(lines, fmt.Sprintf("%s = %s", s.v(name), rt.expr()))
		s.wrappers = append(s.wrappers, name)
		c.Cover("alias_wrapper_routes", rt.kind)
	}
	src := "def setup(v):\n    " + strings.Join(lines, "\n    ") + "\n"
	for _, l := range lines {
		s.log = append(s.log, " 0 [setup] "+l)
	}
	g, err, p := s.e.exec(s.th, src, nil)
	if err == nil && p == nil {
		_, err, p = s.e.call(s.th, g["setup"], s.store)
	}
	if p != nil {
		c.Violation("C20 panic alias-views setup", fmt.Sprintf("host panic while building aliased messages: %s @ %s", p.String(), p.TopFrame()),
			map[string]any{"ops": s.log, "stack": stackTrunc(p.Stack)})
		return false
	}
	if err != nil {
		// only valid values are used: a rejected construction is a verdict problem that the matrix judges; here it
		// just means this sequence cannot run
		c.Count("alias_setup_errors", 1)
		c.Cover("alias_setup_error_texts", firstLine(err.Error()))
		return false
	}
	// which routes really reach one storage object? (reference: the first long-lived wrapper)
	ref := s.wrapper(s.wrappers[0])
	if ref == nil {
		c.Count("alias_setup_errors", 1)
		return false
	}
	refNode := any(pm(ref))
	var routes []avRoute
	for _, rt := range s.routes {
		m, err := s.evalRoute(rt.p)
		if err != nil || any(pm(m)) != refNode {
			c.Count("alias_routes_not_aliasing", 1)
			c.Cover("alias_routes_not_aliasing_kinds", rt.kind)
			continue
		}
		c.Count("alias_routes_confirmed_by_storage_identity", 1)
		c.Cover("alias_routes", rt.kind)
		routes = append(routes, rt)
	}
	s.routes = routes
	var ws []string
	for _, name := range s.wrappers {
		if m := s.wrapper(name); m != nil && any(pm(m)) == refNode {
			ws = append(ws, name)
		} else {
			c.Count("alias_routes_not_aliasing", 1)
		}
	}
	s.wrappers = ws
	return len(s.routes) > 0 && len(s.wrappers) > 0
}

func (s *avSeq) wrapper(name string) *sproto.Message {
	v, found, _ := s.store.Get(starlark.String(name))
	if !found {
		return nil
	}
	m, _ := v.(*sproto.Message)
	return m
}

// ---- operations ----------------------------------------------------------------------------

// avTarget: the wrapper an operation goes through.
type avTarget struct {
	id   string // stable name within the sequence
	expr string
	get  func() (*sproto.Message, error)
}

func (s *avSeq) pickTarget() avTarget {
	if s.r.Intn(10) < 7 {
		name := s.wrappers[s.r.Intn(len(s.wrappers))]
		return avTarget{id: name, expr: s.v(name), get: func() (*sproto.Message, error) {
			if m := s.wrapper(name); m != nil {
				return m, nil
			}
			return nil, fmt.Errorf("no wrapper %s", name)
		}}
	}
	rt := s.routes[s.r.Intn(len(s.routes))]
	return avTarget{id: "fresh " + rt.expr(), expr: rt.expr(), get: func() (*sproto.Message, error) { return s.evalRoute(rt.p) }}
}

func (s *avSeq) pickField(kinds string) *avField {
	var cand []*avField
	pool := s.focus
	if s.r.Intn(8) == 0 {
		pool = nil
		for i := range avFields {
			pool = append(pool, &avFields[i])
		}
	}
	for _, f := range pool {
		if strings.IndexByte(kinds, f.kind) >= 0 {
			cand = append(cand, f)
		}
	}
	if len(cand) == 0 {
		return nil
	}
	return cand[s.r.Intn(len(cand))]
}

func (s *avSeq) fieldDescValue(f *avField) starlark.Value {
	return sproto.FieldDescriptor{Desc: s.fs.field(f.name)}
}

func (s *avSeq) noteRead(f *avField, t avTarget) {
	if s.readBy[f.name] == nil {
		s.readBy[f.name] = map[string]bool{}
	}
	s.readBy[f.name][t.id] = true
}

// noteReplace: a storage object of f is replaced through t.
func (s *avSeq) noteReplace(f *avField, t avTarget) {
	for id := range s.readBy[f.name] {
		if id != t.id {
			s.replaced++
			s.e.c.Count("alias_storage_replaced_after_read_through_other_wrapper", 1)
			return
		}
	}
}

// assignOp builds "t.f = value" (or proto.set_field) for a whole repeated/map field.
func (s *avSeq) assignOp(t avTarget, f *avField, form string) *avOp {
	var expr string
	var goVal func() (starlark.Value, error)
	var apply func()
	constant := func(v func() starlark.Value) func() (starlark.Value, error) {
		return func() (starlark.Value, error) { return v(), nil }
	}
	isMap := f.kind == 'm'
	switch form {
	case "none":
		expr, goVal = "None", constant(func() starlark.Value { return starlark.None })
		apply = func() {
			if s.cont[f.name] != nil {
				s.noteReplace(f, t)
			}
			s.cont[f.name] = nil
		}
	case "empty":
		if isMap {
			expr, goVal = "{}", constant(func() starlark.Value { return starlark.NewDict(0) })
			apply = func() { s.noteReplace(f, t); s.assignMap(f, nil) }
		} else {
			expr, goVal = "[]", constant(func() starlark.Value { return starlark.NewList(nil) })
			apply = func() { s.assignList(f, nil) }
		}
	case "literal", "tuple":
		if isMap {
			src := s.mapValue(f, 1+s.r.Intn(3))
			expr, goVal = mapExpr(src), constant(func() starlark.Value { return goDict(src) })
			apply = func() { s.noteReplace(f, t); s.assignMap(f, src) }
		} else {
			l := s.listValue(f, 1+s.r.Intn(3))
			tuple := form == "tuple"
			expr, goVal = listExpr(l, tuple), constant(func() starlark.Value { return goList(l, tuple) })
			apply = func() { s.assignList(f, l) }
		}
	case "kept-view":
		var names []string
		for name, slot := range s.slots {
			if slot.field == f {
				names = append(names, name)
			}
		}
		if len(names) == 0 {
			return nil
		}
		sort.Strings(names)
		name := names[s.r.Intn(len(names))]
		src := s.slots[name].cont
		expr = s.v(name)
		goVal = func() (starlark.Value, error) {
			v, found, _ := s.store.Get(starlark.String(name))
			if !found {
				return nil, fmt.Errorf("no view %s", name)
			}
			return v, nil
		}
		if isMap {
			apply = func() { s.noteReplace(f, t); s.assignMap(f, src) }
		} else {
			apply = func() {
				var l []avElem
				if src != nil {
					l = append(l, src.list...)
				}
				s.assignList(f, l)
			}
		}
	case "other-wrapper-view":
		u := s.pickTarget()
		expr = u.expr + "." + f.name
		goVal = func() (starlark.Value, error) {
			m, err := u.get()
			if err != nil {
				return nil, err
			}
			return m.Attr(f.name)
		}
		src := s.cont[f.name]
		if isMap {
			apply = func() { s.noteRead(f, u); s.noteReplace(f, t); s.assignMap(f, src) }
		} else {
			apply = func() {
				s.noteRead(f, u)
				var l []avElem
				if src != nil {
					l = append(l, src.list...)
				}
				s.assignList(f, l)
			}
		}
	default:
		panic("c20: assign form " + form)
	}
	setField := s.r.Intn(5) == 0
	o := &avOp{name: "assign-" + f.shape() + "-" + form}
	if setField {
		o.name += "-set_field"
		o.stmt = fmt.Sprintf("proto.set_field(%s, %s.All.%s, %s)", t.expr, s.F, f.name, expr)
		o.goFn = func() error {
			m, err := t.get()
			if err != nil {
				return err
			}
			v, err := goVal()
			if err != nil {
				return err
			}
			_, err = starlark.Call(s.th, sproto.Module.Members["set_field"], starlark.Tuple{m, s.fieldDescValue(f), v}, nil)
			return err
		}
	} else {
		o.stmt = fmt.Sprintf("%s.%s = %s", t.expr, f.name, expr)
		o.goFn = func() error {
			m, err := t.get()
			if err != nil {
				return err
			}
			v, err := goVal()
			if err != nil {
				return err
			}
			return m.SetField(f.name, v)
		}
	}
	o.apply = func(ok bool) {
		if ok {
			apply()
		} else {
			// a rejected whole-field assignment of valid values: not judged here (the matrix judges verdicts), and
			// the field may be partially updated, so the sequence ends
			s.e.c.Count("alias_whole_field_assignments_rejected", 1)
			s.dead = true
		}
	}
	return o
}

// elemOp builds an element write through the view expression viewExpr / getView, whose storage is cont.
func (s *avSeq) elemOp(prefix string, f *avField, viewExpr string, getView func() (starlark.Value, error), cont *avCont) *avOp {
	o := &avOp{}
	count := func(ok bool) {
		if ok {
			s.e.c.Count("alias_element_writes_stored", 1)
		} else {
			s.e.c.Count("alias_element_writes_rejected", 1)
		}
	}
	if f.kind == 'm' {
		k, val := s.key(f, cont), s.elem(f.ev)
		o.name = prefix + "-setkey"
		o.stmt = fmt.Sprintf("%s[%s] = %s", viewExpr, k.expr, val.expr)
		o.goFn = func() error {
			v, err := getView()
			if err != nil {
				return err
			}
			return v.(starlark.HasSetKey).SetKey(k.mk(), val.mk())
		}
		o.apply = func(ok bool) {
			count(ok)
			if ok && cont != nil {
				cont.keys[k.canon], cont.vals[k.canon] = k, val
			}
		}
		return o
	}
	val := s.elem(f.ev)
	if n := cont.size(); n > 0 && s.r.Intn(2) == 0 {
		i := s.r.Intn(n)
		idx := i
		if s.r.Intn(3) == 0 {
			idx = i - n // negative index
		}
		o.name = prefix + "-setindex"
		o.stmt = fmt.Sprintf("%s[%d] = %s", viewExpr, idx, val.expr)
		o.goFn = func() error {
			v, err := getView()
			if err != nil {
				return err
			}
			if i >= v.(starlark.Indexable).Len() {
				return fmt.Errorf("index out of range")
			}
			return v.(starlark.HasSetIndex).SetIndex(i, val.mk())
		}
		o.apply = func(ok bool) {
			count(ok)
			if ok && i < len(cont.list) {
				cont.list[i] = val
			}
		}
		return o
	}
	o.name = prefix + "-append"
	o.stmt = fmt.Sprintf("%s.append(%s)", viewExpr, val.expr)
	o.goFn = func() error {
		v, err := getView()
		if err != nil {
			return err
		}
		a, err := v.(starlark.HasAttrs).Attr("append")
		if err != nil || a == nil {
			return fmt.Errorf("no append: %v", err)
		}
		_, err = starlark.Call(s.th, a, starlark.Tuple{val.mk()}, nil)
		return err
	}
	o.apply = func(ok bool) {
		count(ok)
		if ok && cont != nil {
			cont.list = append(cont.list, val)
		}
	}
	return o
}

func (s *avSeq) genOp() *avOp {
	r := s.r
	switch k := r.Intn(100); {
	case k < 15: // read a repeated/map field and keep the view
		t, f := s.pickTarget(), s.pickField("rm")
		name := fmt.Sprintf("s%d", r.Intn(3))
		o := &avOp{name: "read-keep-" + f.shape()}
		getField := r.Intn(5) == 0
		if getField {
			o.name += "-get_field"
			o.stmt = fmt.Sprintf("%s = proto.get_field(%s, %s.All.%s)", s.v(name), t.expr, s.F, f.name)
		} else {
			o.stmt = fmt.Sprintf("%s = %s.%s", s.v(name), t.expr, f.name)
		}
		o.goFn = func() error {
			m, err := t.get()
			if err != nil {
				return err
			}
			var v starlark.Value
			if getField {
				v, err = starlark.Call(s.th, sproto.Module.Members["get_field"], starlark.Tuple{m, s.fieldDescValue(f)}, nil)
			} else {
				v, err = m.Attr(f.name)
			}
			if err != nil {
				return err
			}
			return s.store.SetKey(starlark.String(name), v)
		}
		o.apply = func(ok bool) {
			if !ok {
				s.e.c.Count("alias_reads_failed", 1)
				delete(s.slots, name)
				s.store.Delete(starlark.String(name))
				return
			}
			s.noteRead(f, t)
			slot := &avSlot{field: f}
			if c := s.cont[f.name]; c.size() > 0 {
				slot.cont = c
			}
			s.slots[name] = slot
		}
		return o
	case k < 40: // whole-field assignment
		t, f := s.pickTarget(), s.pickField("rm")
		form := [...]string{"literal", "literal", "literal", "literal", "literal", "literal", "literal", "literal", "tuple", "none", "none", "none", "none", "empty", "empty", "kept-view", "kept-view", "kept-view", "other-wrapper-view", "other-wrapper-view"}[r.Intn(20)]
		if form == "tuple" && f.kind == 'm' {
			form = "literal"
		}
		return s.assignOp(t, f, form)
	case k < 50: // None, then a new value, through one wrapper
		t, f := s.pickTarget(), s.pickField("rm")
		a, b := s.assignOp(t, f, "none"), s.assignOp(t, f, "literal")
		o := &avOp{name: "clear-then-assign-" + f.shape(), stmt: a.stmt + "\n    " + b.stmt}
		o.goFn = func() error {
			if err := a.goFn(); err != nil {
				return err
			}
			return b.goFn()
		}
		o.apply = func(ok bool) {
			a.apply(ok)
			if ok {
				b.apply(ok)
			}
		}
		return o
	case k < 75: // element write through a freshly read view
		t, f := s.pickTarget(), s.pickField("rm")
		cont := s.cont[f.name]
		var target *avCont
		if cont.size() > 0 {
			target = cont // otherwise the view is the frozen default of an empty field
		}
		o := s.elemOp("fresh-view", f, t.expr+"."+f.name, func() (starlark.Value, error) {
			m, err := t.get()
			if err != nil {
				return nil, err
			}
			return m.Attr(f.name)
		}, target)
		inner := o.apply
		o.apply = func(ok bool) {
			s.noteRead(f, t)
			if ok && target == nil {
				s.e.c.Count("alias_element_write_into_empty_field_accepted", 1)
			}
			inner(ok)
		}
		return o
	case k < 87: // element write through a kept view
		var names []string
		for name := range s.slots {
			names = append(names, name)
		}
		if len(names) == 0 {
			return nil
		}
		sort.Strings(names)
		name := names[r.Intn(len(names))]
		slot := s.slots[name]
		prefix := "kept-view-detached"
		if slot.cont != nil && slot.cont == s.cont[slot.field.name] {
			prefix = "kept-view-attached"
		} else if slot.cont == nil {
			prefix = "kept-view-default"
		}
		return s.elemOp(prefix, slot.field, s.v(name), func() (starlark.Value, error) {
			v, found, _ := s.store.Get(starlark.String(name))
			if !found {
				return nil, fmt.Errorf("no view %s", name)
			}
			return v, nil
		}, slot.cont)
	case k < 94: // scalar assignment
		t, f := s.pickTarget(), s.pickField("s")
		if f == nil {
			f = &avFields[len(avFields)-1-r.Intn(2)]
		}
		val := s.elem(f.ev)
		o := &avOp{name: "assign-scalar", stmt: fmt.Sprintf("%s.%s = %s", t.expr, f.name, val.expr)}
		o.goFn = func() error {
			m, err := t.get()
			if err != nil {
				return err
			}
			return m.SetField(f.name, val.mk())
		}
		o.apply = func(ok bool) {
			if ok {
				s.scal[f.name] = val
			} else {
				s.e.c.Count("alias_whole_field_assignments_rejected", 1)
				s.dead = true
			}
		}
		return o
	default: // replace a long-lived wrapper by a fresh one
		name := s.wrappers[r.Intn(len(s.wrappers))]
		rt := s.routes[r.Intn(len(s.routes))]
		o := &avOp{name: "rewrap-" + rt.kind, stmt: fmt.Sprintf("%s = %s", s.v(name), rt.expr())}
		o.goFn = func() error {
			m, err := s.evalRoute(rt.p)
			if err != nil {
				return err
			}
			return s.store.SetKey(starlark.String(name), m)
		}
		o.apply = func(ok bool) {
			if !ok {
				s.dead = true
				s.e.c.Count("alias_rewraps_failed", 1)
			}
		}
		return o
	}
}

func (s *avSeq) exec(o *avOp, at int) {
	c := s.e.c
	c.Cover("alias_ops", o.name)
	c.Count("alias_steps", 1)
	s.shape = append(s.shape, o.name)
	s.lastOp = o.name
	var err error
	var p *sl.Panic
	via := "starlark"
	if s.goRoute && o.goFn != nil {
		via = "goapi"
		p = sl.Safe(func() { err = o.goFn() })
		c.Count("alias_steps_goapi", 1)
	} else {
		var g starlark.StringDict
		g, err, p = s.e.exec(s.th, "def op(v):\n    "+o.stmt+"\n", nil)
		if err == nil && p == nil {
			_, err, p = s.e.call(s.th, g["op"], s.store)
		}
	}
	outcome := "ok"
	if p != nil {
		outcome = "PANIC " + p.String()
	} else if err != nil {
		outcome = "error: " + firstLine(err.Error())
	}
	s.log = append(s.log, fmt.Sprintf("%2d [%s] %s    -> %s", at, via, strings.ReplaceAll(o.stmt, "\n    ", "; "), outcome))
	if p != nil {
		c.Violation("C20 panic alias-views "+o.name, fmt.Sprintf("host panic in %q: %s @ %s", o.stmt, p.String(), p.TopFrame()),
			map[string]any{"ops": s.log, "stack": stackTrunc(p.Stack)})
		s.dead = true
		return
	}
	if err != nil {
		c.Cover("alias_ops_rejected", o.name)
	} else {
		c.Cover("alias_ops_succeeded", o.name)
	}
	o.apply(err == nil)
}

// ---- oracle --------------------------------------------------------------------------------

func (s *avSeq) fail(key, what string, detail map[string]any) {
	detail["file"] = s.fs.path
	detail["ops"] = s.log
	detail["note"] = "v is a dict of variables; every w* and every route expression denotes the same underlying message; each op is the body of a Starlark function called from Go, or the Go API equivalent where marked [goapi]"
	s.e.c.Violation(key, what, detail)
	s.dead = true
}

// readAll reads every modelled field through m and returns the first difference from the model.
func (s *avSeq) readAll(m *sproto.Message) (f *avField, got, want string, p *sl.Panic) {
	p = sl.Safe(func() {
		for i := range avFields {
			fd := &avFields[i]
			v, err := m.Attr(fd.name)
			g := ""
			if err != nil {
				g = "<error: " + firstLine(err.Error()) + ">"
			} else {
				g = canonRead(fd, v)
			}
			if w := s.want(fd); g != w && f == nil {
				f, got, want = fd, g, w
			}
		}
	})
	return
}

func (s *avSeq) check(at int) {
	c := s.e.c
	type reader struct {
		how string
		m   *sproto.Message
	}
	var readers []reader
	var refNode any
	for _, name := range s.wrappers {
		m := s.wrapper(name)
		if m == nil {
			continue
		}
		if refNode == nil {
			refNode = any(pm(m))
		} else if any(pm(m)) != refNode {
			// a re-wrap reached other storage: that wrapper is no alias any more (not judged)
			c.Count("alias_routes_not_aliasing", 1)
			continue
		}
		readers = append(readers, reader{s.v(name), m})
	}
	for _, rt := range s.routes {
		m, err := s.evalRoute(rt.p)
		if err != nil || (refNode != nil && any(pm(m)) != refNode) {
			c.Count("alias_routes_not_aliasing", 1)
			continue
		}
		readers = append(readers, reader{"fresh " + rt.expr(), m})
	}
	if len(readers) == 0 {
		s.dead = true
		return
	}
	for _, rd := range readers {
		f, got, want, p := s.readAll(rd.m)
		c.Count("alias_wrapper_reads_compared", len(avFields))
		if p != nil {
			s.fail("C20 panic alias-views read", fmt.Sprintf("host panic while reading fields through %s after %s: %s @ %s", rd.how, s.lastOp, p.String(), p.TopFrame()),
				map[string]any{"stack": stackTrunc(p.Stack)})
			return
		}
		if f != nil {
			others := map[string]string{}
			for _, o := range readers {
				if v, err := o.m.Attr(f.name); err == nil {
					others[o.how] = canonRead(f, v)
				}
			}
			s.fail("C20 alias-views wrapper-read-differs "+f.shape(),
				fmt.Sprintf("%s.%s reads %s after step %d (%s); written content is %s (%d wrappers of one message compared)", rd.how, f.name, driverTrunc(got), at, s.lastOp, driverTrunc(want), len(readers)),
				map[string]any{"field": f.name, "through": rd.how, "got": got, "want": want, "all_wrappers_read": others, "message_printed": safeString(rd.m)})
			return
		}
	}
	// encodings, through two randomly chosen wrappers
	for _, form := range []string{"marshal", "marshal_text"} {
		rd := readers[s.r.Intn(len(readers))]
		var back *sproto.Message
		var err error
		p := sl.Safe(func() {
			var enc starlark.Value
			enc, err = starlark.Call(s.th, sproto.Module.Members[form], starlark.Tuple{rd.m}, nil)
			if err != nil {
				return
			}
			if form == "marshal" {
				back, err = sproto.Unmarshal(s.fs.all, []byte(enc.(starlark.Bytes)))
			} else {
				back, err = sproto.UnmarshalText(s.fs.all, []byte(enc.(starlark.String)))
			}
		})
		if p != nil {
			s.fail("C20 panic alias-views "+form, fmt.Sprintf("host panic in proto.%s(%s) after %s: %s @ %s", form, rd.how, s.lastOp, p.String(), p.TopFrame()),
				map[string]any{"stack": stackTrunc(p.Stack)})
			return
		}
		if err != nil {
			s.fail("C20 alias-views roundtrip-fails "+form, fmt.Sprintf("proto.%s(%s) / decoding it failed after step %d (%s): %s", form, rd.how, at, s.lastOp, firstLine(err.Error())),
				map[string]any{"error": err.Error()})
			return
		}
		f, got, want, p := s.readAll(back)
		c.Count("alias_roundtrips_compared", 1)
		if p != nil {
			s.fail("C20 panic alias-views read", fmt.Sprintf("host panic while reading the decoded proto.%s(%s): %s @ %s", form, rd.how, p.String(), p.TopFrame()),
				map[string]any{"stack": stackTrunc(p.Stack)})
			return
		}
		if f != nil {
			s.fail("C20 alias-views roundtrip-differs "+f.shape(),
				fmt.Sprintf("un%s(%s(%s)).%s reads %s after step %d (%s); written content is %s", form, form, rd.how, f.name, driverTrunc(got), at, s.lastOp, driverTrunc(want)),
				map[string]any{"field": f.name, "through": rd.how, "form": form, "got": got, "want": want})
			return
		}
	}
	// kept views that are still the storage of their field
	var names []string
	for name := range s.slots {
		names = append(names, name)
	}
	sort.Strings(names)
	for _, name := range names {
		slot := s.slots[name]
		if slot.cont == nil || slot.cont != s.cont[slot.field.name] {
			c.Count("alias_kept_views_detached_not_judged", 1)
			continue
		}
		v, found, _ := s.store.Get(starlark.String(name))
		if !found {
			continue
		}
		var got string
		p := sl.Safe(func() { got = canonRead(slot.field, v) })
		c.Count("alias_kept_view_reads_compared", 1)
		if p != nil {
			s.fail("C20 panic alias-views read", fmt.Sprintf("host panic while reading kept view %s: %s @ %s", name, p.String(), p.TopFrame()), map[string]any{"stack": stackTrunc(p.Stack)})
			return
		}
		if want := s.want(slot.field); got != want {
			s.fail("C20 alias-views kept-view-differs "+slot.field.shape(),
				fmt.Sprintf("kept view %s of .%s (still the field's storage) reads %s after step %d (%s); written content is %s", s.v(name), slot.field.name, driverTrunc(got), at, s.lastOp, driverTrunc(want)),
				map[string]any{"field": slot.field.name, "got": got, "want": want})
			return
		}
	}
}

func (e *env) runAliasViews(fs *fileSchema, r *rand.Rand) {
	c := e.c
	s := &avSeq{e: e, fs: fs, F: fileVar(fs), r: r, th: e.newThread(), store: starlark.NewDict(8), goRoute: r.Intn(3) == 0,
		cont: map[string]*avCont{}, scal: map[string]avElem{}, slots: map[string]*avSlot{}, readBy: map[string]map[string]bool{}}
	c.Note("alias-view sequence on %s (replay this case to see its operations)", fs.path)
	c.Eval(1)
	c.Count("alias_sequences", 1)
	if !s.setup() {
		return
	}
	if len(s.routes)+len(s.wrappers) < 2 {
		c.Count("alias_sequences_with_single_wrapper", 1)
	}
	s.lastOp = "setup"
	s.check(0)
	nsteps := 6 + r.Intn(9)
	executed := 0
	for i := 0; executed < nsteps && i < 3*nsteps && !s.dead; i++ {
		o := s.genOp()
		if o == nil {
			continue
		}
		executed++
		s.exec(o, executed)
		if s.dead {
			break
		}
		s.check(executed)
	}
	if s.goRoute {
		c.Count("alias_sequences_goapi_route", 1)
	}
	if s.replaced > 0 {
		c.Count("alias_sequences_replacing_storage_under_another_wrapper", 1)
		c.Distinct("alias " + fs.syntax + " " + strings.Join(s.setupKind, "+") + " " + strings.Join(s.shape, ","))
	}
	if c.WantSample() && s.replaced > 0 && !s.dead {
		c.Sample(map[string]any{"kind": "alias-view sequence", "file": fs.path, "ops": s.log, "wrappers": s.wrappers, "storage_replaced_under_another_wrapper": s.replaced})
	}
}
