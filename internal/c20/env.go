package c20

import (
	"fmt"
	"math"
	"sort"
	"strings"
	"unicode/utf8"

	sproto "go.starlark.net/lib/proto"
	"go.starlark.net/starlark"
	"go.starlark.net/syntax"
	"google.golang.org/protobuf/proto"
	"google.golang.org/protobuf/reflect/protoreflect"

	"verif/internal/driver"
	"verif/internal/sl"
)

// env is the per-process test fixture.
type env struct {
	c      *driver.Ctx
	schema *schemaT
	pool   []poolVal
	thread *starlark.Thread
	fns    starlark.StringDict // compiled matrix helper functions
	fileV  map[*fileSchema]starlark.Value
	opts   *syntax.FileOptions

	matrixSamples int
	x4            *ext4State // round-4 families (ext4.go)
}

func (e *env) other(fs *fileSchema) *fileSchema {
	if fs == e.schema.files[0] {
		return e.schema.files[1]
	}
	return e.schema.files[0]
}

func fileVar(fs *fileSchema) string {
	if fs.syntax == "proto2" {
		return "p2"
	}
	return "p3"
}

func (e *env) newThread() *starlark.Thread {
	th := &starlark.Thread{Name: "c20", Print: func(*starlark.Thread, string) {}}
	sproto.SetPool(th, e.schema.pool)
	th.SetMaxExecutionSteps(2_000_000)
	return th
}

// predeclared returns the environment of every Starlark program of this engine. The file
// descriptors are obtained in the program itself with proto.file (see prelude).
func (e *env) predeclared() starlark.StringDict {
	return starlark.StringDict{"proto": sproto.Module}
}

const prelude = "p2 = proto.file(\"c20/p2.proto\")\np3 = proto.file(\"c20/p3.proto\")\n"

func newEnv(c *driver.Ctx) (*env, error) {
	s, err := buildSchema()
	if err != nil {
		return nil, err
	}
	e := &env{c: c, schema: s, pool: buildPool(), fileV: map[*fileSchema]starlark.Value{},
		opts: &syntax.FileOptions{TopLevelControl: true, GlobalReassign: true, Set: true, While: true}}
	e.thread = e.newThread()
	for _, fs := range s.files {
		e.fileV[fs] = sproto.FileDescriptor{Desc: fs.fd}
	}
	if err := e.compileMatrixProgram(); err != nil {
		return nil, err
	}
	return e, nil
}

// exec runs a Starlark module (with the prelude prepended) and returns its globals.
func (e *env) exec(th *starlark.Thread, src string, extra starlark.StringDict) (g starlark.StringDict, err error, p *sl.Panic) {
	env := e.predeclared()
	for k, v := range extra {
		env[k] = v
	}
	th.Steps = 0
	p = sl.Safe(func() {
		g, err = starlark.ExecFileOptions(e.opts, th, "c20.star", prelude+src, env)
	})
	return
}

// call invokes a Starlark callable, recovering host panics.
func (e *env) call(th *starlark.Thread, fn starlark.Value, args ...starlark.Value) (res starlark.Value, err error, p *sl.Panic) {
	th.Steps = 0
	p = sl.Safe(func() {
		res, err = starlark.Call(th, fn, starlark.Tuple(args), nil)
	})
	return
}

func (e *env) callKw(th *starlark.Thread, fn starlark.Value, args starlark.Tuple, kwargs []starlark.Tuple) (res starlark.Value, err error, p *sl.Panic) {
	th.Steps = 0
	p = sl.Safe(func() {
		res, err = starlark.Call(th, fn, args, kwargs)
	})
	return
}

// newMsg builds a message through the Go API (MessageDescriptor call); kv = name, value, ...
// It is only used with values that are valid for their fields; a failure is a harness error.
func (e *env) newMsg(desc protoreflect.MessageDescriptor, kv ...any) *sproto.Message {
	var kwargs []starlark.Tuple
	for i := 0; i+1 < len(kv); i += 2 {
		kwargs = append(kwargs, starlark.Tuple{starlark.String(kv[i].(string)), kv[i+1].(starlark.Value)})
	}
	res, err, p := e.callKw(e.thread, sproto.MessageDescriptor{Desc: desc}, nil, kwargs)
	if p != nil || err != nil {
		// Do not panic the harness: report once and return an empty message built by unmarshalling.
		e.c.Violation("C20 setup construct-valid-message", fmt.Sprintf("constructing %s from valid values failed: err=%v panic=%v", desc.FullName(), err, p), nil)
		m, _ := sproto.Unmarshal(desc, nil)
		return m
	}
	return res.(*sproto.Message)
}

func protoEqual(a, b protoreflect.Message) bool {
	return proto.Equal(a.Interface(), b.Interface())
}

func pm(m *sproto.Message) protoreflect.Message { return m.Message().ProtoReflect() }

// ---------------------------------------------------------------------------------------------
// Reflective walk: every populated field of the underlying protoreflect.Message must hold a Go
// value of the dynamic type of its kind and within its range. checkEnums: enum numbers must be
// declared for closed (proto2) enums; it is false for messages decoded from untrusted bytes, where
// protobuf-go itself keeps undeclared numbers.

func sortedFields(m protoreflect.Message) []protoreflect.FieldDescriptor {
	var fds []protoreflect.FieldDescriptor
	m.Range(func(fd protoreflect.FieldDescriptor, _ protoreflect.Value) bool {
		fds = append(fds, fd)
		return true
	})
	sort.Slice(fds, func(i, j int) bool { return fds[i].Number() < fds[j].Number() })
	return fds
}

func sortedKeys(mp protoreflect.Map) []protoreflect.MapKey {
	var ks []protoreflect.MapKey
	mp.Range(func(k protoreflect.MapKey, _ protoreflect.Value) bool {
		ks = append(ks, k)
		return true
	})
	sort.Slice(ks, func(i, j int) bool {
		return fmt.Sprintf("%T%v", ks[i].Interface(), ks[i].Interface()) < fmt.Sprintf("%T%v", ks[j].Interface(), ks[j].Interface())
	})
	return ks
}

type walkStats struct {
	values     int
	cycle      bool
	undeclared bool // some enum field holds an undeclared number
	badUTF8    bool // some proto3 string holds invalid UTF-8
}

func checkSingular(fd protoreflect.FieldDescriptor, v protoreflect.Value, checkEnums bool, st *walkStats) string {
	st.values++
	bad := func() string {
		return fmt.Sprintf("%s (%s) holds Go value of type %T", fd.FullName(), fd.Kind(), v.Interface())
	}
	switch fd.Kind() {
	case protoreflect.BoolKind:
		if _, ok := v.Interface().(bool); !ok {
			return bad()
		}
	case protoreflect.Int32Kind, protoreflect.Sint32Kind, protoreflect.Sfixed32Kind:
		if _, ok := v.Interface().(int32); !ok {
			return bad()
		}
	case protoreflect.Int64Kind, protoreflect.Sint64Kind, protoreflect.Sfixed64Kind:
		if _, ok := v.Interface().(int64); !ok {
			return bad()
		}
	case protoreflect.Uint32Kind, protoreflect.Fixed32Kind:
		if _, ok := v.Interface().(uint32); !ok {
			return bad()
		}
	case protoreflect.Uint64Kind, protoreflect.Fixed64Kind:
		if _, ok := v.Interface().(uint64); !ok {
			return bad()
		}
	case protoreflect.FloatKind:
		if _, ok := v.Interface().(float32); !ok {
			return bad()
		}
	case protoreflect.DoubleKind:
		if _, ok := v.Interface().(float64); !ok {
			return bad()
		}
	case protoreflect.StringKind:
		s, ok := v.Interface().(string)
		if !ok {
			return bad()
		}
		if enforceUTF8(fd) && !utf8.ValidString(s) {
			st.badUTF8 = true
		}
	case protoreflect.BytesKind:
		if _, ok := v.Interface().([]byte); !ok {
			return bad()
		}
	case protoreflect.EnumKind:
		n, ok := v.Interface().(protoreflect.EnumNumber)
		if !ok {
			return bad()
		}
		if fd.Enum().Values().ByNumber(n) == nil {
			st.undeclared = true
			if checkEnums && fd.Enum().IsClosed() {
				return fmt.Sprintf("%s holds undeclared number %d of closed enum %s", fd.FullName(), n, fd.Enum().FullName())
			}
		}
	case protoreflect.MessageKind, protoreflect.GroupKind:
		m, ok := v.Interface().(protoreflect.Message)
		if !ok {
			return bad()
		}
		if m.Descriptor() != fd.Message() {
			return fmt.Sprintf("%s holds message of type %s", fd.FullName(), m.Descriptor().FullName())
		}
	}
	return ""
}

func walkMessage(m protoreflect.Message, checkEnums bool, st *walkStats, onPath map[any]bool) string {
	if onPath[m] {
		st.cycle = true
		return ""
	}
	onPath[m] = true
	defer delete(onPath, m)
	for _, fd := range sortedFields(m) {
		v := m.Get(fd)
		switch {
		case fd.IsList():
			l, ok := v.Interface().(protoreflect.List)
			if !ok {
				return fmt.Sprintf("%s (repeated) holds %T", fd.FullName(), v.Interface())
			}
			for i := 0; i < l.Len(); i++ {
				if s := checkSingular(fd, l.Get(i), checkEnums, st); s != "" {
					return s
				}
				if fd.Message() != nil {
					if s := walkMessage(l.Get(i).Message(), checkEnums, st, onPath); s != "" {
						return s
					}
				}
			}
		case fd.IsMap():
			mp, ok := v.Interface().(protoreflect.Map)
			if !ok {
				return fmt.Sprintf("%s (map) holds %T", fd.FullName(), v.Interface())
			}
			for _, k := range sortedKeys(mp) {
				if s := checkSingular(fd.MapKey(), k.Value(), checkEnums, st); s != "" {
					return s
				}
				if s := checkSingular(fd.MapValue(), mp.Get(k), checkEnums, st); s != "" {
					return s
				}
				if fd.MapValue().Message() != nil {
					if s := walkMessage(mp.Get(k).Message(), checkEnums, st, onPath); s != "" {
						return s
					}
				}
			}
		default:
			if s := checkSingular(fd, v, checkEnums, st); s != "" {
				return s
			}
			if fd.Message() != nil {
				if s := walkMessage(v.Message(), checkEnums, st, onPath); s != "" {
					return s
				}
			}
		}
	}
	return ""
}

// walk runs the invariant walk on a message wrapper, recovering panics of the reflection layer.
func (e *env) walk(m *sproto.Message, checkEnums bool) (problem string, st walkStats) {
	if m == nil {
		return "", st
	}
	p := sl.Safe(func() {
		problem = walkMessage(pm(m), checkEnums, &st, map[any]bool{})
	})
	if p != nil {
		problem = "walk panicked: " + p.String()
	}
	e.c.Count("invariant_walks", 1)
	e.c.Count("invariant_values_checked", st.values)
	return
}

// snapshot returns the observable content of a message: printed form and deterministic binary encoding.
func snapshot(m *sproto.Message) (s string, p *sl.Panic) {
	p = sl.Safe(func() {
		b, err := proto.MarshalOptions{Deterministic: true, AllowPartial: true}.Marshal(m.Message())
		s = m.String() + "\x00" + string(b)
		if err != nil {
			s += "\x00marshal error: " + err.Error()
		}
	})
	return
}

func showSnap(s string) string {
	if i := strings.IndexByte(s, 0); i >= 0 {
		return s[:i]
	}
	return s
}

func fbits(f float64) uint64 { return math.Float64bits(f) }

// stackTrunc keeps the part of a recovered panic's stack that starts at the panic.
func stackTrunc(s string) string {
	if i := strings.Index(s, "\npanic("); i >= 0 {
		s = s[i+1:]
	}
	if len(s) > 3500 {
		s = s[:3500] + "…"
	}
	return s
}
