package c20

import (
	"fmt"
	"strings"

	"google.golang.org/protobuf/proto"
	"google.golang.org/protobuf/reflect/protodesc"
	"google.golang.org/protobuf/reflect/protoreflect"
	"google.golang.org/protobuf/reflect/protoregistry"
	"google.golang.org/protobuf/types/descriptorpb"
)

// The message types under test are built at run time (no protoc): one proto2 and one proto3
// file with the same shape.
//
//	enum E      { ZERO=0 ONE=1 TWO=2 NEG=-1 BIG=2^31-1 }
//	enum NZ     { NZ_A=3 NZ_B=5 }               (proto2 only: first value not zero; field f_nz=19)
//	enum Other  { OTHER_ZERO=0 OTHER_ONE=1 OTHER_SEVEN=7 }   (7 is not a number of E; fields f_other=20 r_other=39 mv_other=79)
//	message Sub { i int32 = 1; s string = 2 }
//	message All {
//	   f_<kind>   = 1..15   singular field of each of the 15 scalar kinds
//	   f_enum=16 (E)  f_msg=17 (Sub)  f_rec=18 (All, recursive)
//	   r_<kind>   = 21..35  repeated of each kind;  r_enum=36 r_msg=37 r_rec=38
//	   mk_<kind>  = 41..52  map<K,int32> for each of the 12 legal key kinds
//	   mv_<kind>  = 61..75  map<string,V> for each scalar kind; mv_enum=76 mv_msg=77 mv_rec=78
//	   proto2: d_* = 81..87 optional fields with explicit defaults; extensions 100..199
//	   proto3: o_int32=81 o_string=82 (proto3 optional)
//	   oneof choice { c_i int32 = 91; c_s string = 92; c_m Sub = 93 }
//	}
//	proto2 only: extend All { x_i int32=100; x_m Sub=101; repeated x_r int32=102; x_s string=103; x_e E=104 }

type kindInfo struct {
	name string
	typ  descriptorpb.FieldDescriptorProto_Type
	key  bool // legal as map key
}

var scalarKinds = []kindInfo{
	{"double", descriptorpb.FieldDescriptorProto_TYPE_DOUBLE, false},
	{"float", descriptorpb.FieldDescriptorProto_TYPE_FLOAT, false},
	{"int32", descriptorpb.FieldDescriptorProto_TYPE_INT32, true},
	{"int64", descriptorpb.FieldDescriptorProto_TYPE_INT64, true},
	{"uint32", descriptorpb.FieldDescriptorProto_TYPE_UINT32, true},
	{"uint64", descriptorpb.FieldDescriptorProto_TYPE_UINT64, true},
	{"sint32", descriptorpb.FieldDescriptorProto_TYPE_SINT32, true},
	{"sint64", descriptorpb.FieldDescriptorProto_TYPE_SINT64, true},
	{"fixed32", descriptorpb.FieldDescriptorProto_TYPE_FIXED32, true},
	{"fixed64", descriptorpb.FieldDescriptorProto_TYPE_FIXED64, true},
	{"sfixed32", descriptorpb.FieldDescriptorProto_TYPE_SFIXED32, true},
	{"sfixed64", descriptorpb.FieldDescriptorProto_TYPE_SFIXED64, true},
	{"bool", descriptorpb.FieldDescriptorProto_TYPE_BOOL, true},
	{"string", descriptorpb.FieldDescriptorProto_TYPE_STRING, true},
	{"bytes", descriptorpb.FieldDescriptorProto_TYPE_BYTES, false},
}

// allKinds = the 15 scalar kinds + enum, msg (Sub), rec (All).
var allKindNames = func() []string {
	var l []string
	for _, k := range scalarKinds {
		l = append(l, k.name)
	}
	return append(l, "enum", "msg", "rec")
}()

var keyKindNames = func() []string {
	var l []string
	for _, k := range scalarKinds {
		if k.key {
			l = append(l, k.name)
		}
	}
	return l
}()

type fileSchema struct {
	syntax string // "proto2" or "proto3"
	pkg    string
	path   string
	fd     protoreflect.FileDescriptor
	all    protoreflect.MessageDescriptor
	sub    protoreflect.MessageDescriptor
	enum   protoreflect.EnumDescriptor
	other  protoreflect.EnumDescriptor
}

func (fs *fileSchema) field(name string) protoreflect.FieldDescriptor {
	f := fs.all.Fields().ByName(protoreflect.Name(name))
	if f == nil {
		panic("c20: no field " + name)
	}
	return f
}

type schemaT struct {
	pool  *protoregistry.Files
	files []*fileSchema // [0] proto2, [1] proto3
}

func camel(s string) string {
	var b strings.Builder
	up := true
	for _, c := range s {
		if c == '_' {
			up = true
			continue
		}
		if up {
			b.WriteString(strings.ToUpper(string(c)))
			up = false
		} else {
			b.WriteRune(c)
		}
	}
	return b.String()
}

func buildFileProto(syntax string) *descriptorpb.FileDescriptorProto {
	p3 := syntax == "proto3"
	pkg := "c20p2"
	if p3 {
		pkg = "c20p3"
	}
	opt := descriptorpb.FieldDescriptorProto_LABEL_OPTIONAL.Enum()
	rep := descriptorpb.FieldDescriptorProto_LABEL_REPEATED.Enum()
	tEnum := descriptorpb.FieldDescriptorProto_TYPE_ENUM
	tMsg := descriptorpb.FieldDescriptorProto_TYPE_MESSAGE
	tInt32 := descriptorpb.FieldDescriptorProto_TYPE_INT32
	tString := descriptorpb.FieldDescriptorProto_TYPE_STRING

	ev := func(n string, v int32) *descriptorpb.EnumValueDescriptorProto {
		return &descriptorpb.EnumValueDescriptorProto{Name: proto.String(n), Number: proto.Int32(v)}
	}
	enumE := &descriptorpb.EnumDescriptorProto{Name: proto.String("E")}
	enumE.Value = []*descriptorpb.EnumValueDescriptorProto{ev("ZERO", 0), ev("ONE", 1), ev("TWO", 2), ev("NEG", -1), ev("BIG", 2147483647)}
	enumO := &descriptorpb.EnumDescriptorProto{Name: proto.String("Other"),
		Value: []*descriptorpb.EnumValueDescriptorProto{ev("OTHER_ZERO", 0), ev("OTHER_ONE", 1), ev("OTHER_SEVEN", 7)}}

	fld := func(name string, num int32, label *descriptorpb.FieldDescriptorProto_Label, typ descriptorpb.FieldDescriptorProto_Type, typeName string) *descriptorpb.FieldDescriptorProto {
		f := &descriptorpb.FieldDescriptorProto{Name: proto.String(name), Number: proto.Int32(num), Label: label, Type: typ.Enum(), JsonName: nil}
		if typeName != "" {
			f.TypeName = proto.String("." + pkg + "." + typeName)
		}
		return f
	}
	sub := &descriptorpb.DescriptorProto{Name: proto.String("Sub"), Field: []*descriptorpb.FieldDescriptorProto{
		fld("i", 1, opt, tInt32, ""), fld("s", 2, opt, tString, ""),
	}}

	all := &descriptorpb.DescriptorProto{Name: proto.String("All")}
	typeOf := func(kind string) (descriptorpb.FieldDescriptorProto_Type, string) {
		switch kind {
		case "enum":
			return tEnum, "E"
		case "msg":
			return tMsg, "Sub"
		case "rec":
			return tMsg, "All"
		}
		for _, k := range scalarKinds {
			if k.name == kind {
				return k.typ, ""
			}
		}
		panic("kind " + kind)
	}
	addMap := func(name string, num int32, kkind, vkind string) {
		entry := camel(name) + "Entry"
		kt, _ := typeOf(kkind)
		vt, vn := typeOf(vkind)
		all.NestedType = append(all.NestedType, &descriptorpb.DescriptorProto{
			Name: proto.String(entry),
			Field: []*descriptorpb.FieldDescriptorProto{
				fld("key", 1, opt, kt, ""), fld("value", 2, opt, vt, vn),
			},
			Options: &descriptorpb.MessageOptions{MapEntry: proto.Bool(true)},
		})
		all.Field = append(all.Field, fld(name, num, rep, tMsg, "All."+entry))
	}
	for i, kind := range allKindNames {
		t, tn := typeOf(kind)
		all.Field = append(all.Field, fld("f_"+kind, int32(1+i), opt, t, tn))
	}
	for i, kind := range allKindNames {
		t, tn := typeOf(kind)
		all.Field = append(all.Field, fld("r_"+kind, int32(21+i), rep, t, tn))
	}
	for i, kind := range keyKindNames {
		addMap("mk_"+kind, int32(41+i), kind, "int32")
	}
	for i, kind := range allKindNames {
		addMap("mv_"+kind, int32(61+i), "string", kind)
	}
	// fields of the second enum type (cross-type view assignment)
	all.Field = append(all.Field, fld("f_other", 20, opt, tEnum, "Other"), fld("r_other", 39, rep, tEnum, "Other"))
	{
		all.NestedType = append(all.NestedType, &descriptorpb.DescriptorProto{
			Name:    proto.String("MvOtherEntry"),
			Field:   []*descriptorpb.FieldDescriptorProto{fld("key", 1, opt, tString, ""), fld("value", 2, opt, tEnum, "Other")},
			Options: &descriptorpb.MessageOptions{MapEntry: proto.Bool(true)},
		})
		all.Field = append(all.Field, fld("mv_other", 79, rep, tMsg, "All.MvOtherEntry"))
	}
	// oneof choice
	all.OneofDecl = append(all.OneofDecl, &descriptorpb.OneofDescriptorProto{Name: proto.String("choice")})
	for _, f := range []*descriptorpb.FieldDescriptorProto{
		fld("c_i", 91, opt, tInt32, ""), fld("c_s", 92, opt, tString, ""), fld("c_m", 93, opt, tMsg, "Sub"),
	} {
		f.OneofIndex = proto.Int32(0)
		all.Field = append(all.Field, f)
	}
	if p3 {
		for i, f := range []*descriptorpb.FieldDescriptorProto{fld("o_int32", 81, opt, tInt32, ""), fld("o_string", 82, opt, tString, "")} {
			f.Proto3Optional = proto.Bool(true)
			f.OneofIndex = proto.Int32(int32(1 + i))
			all.OneofDecl = append(all.OneofDecl, &descriptorpb.OneofDescriptorProto{Name: proto.String("_" + f.GetName())})
			all.Field = append(all.Field, f)
		}
	} else {
		d := func(name string, num int32, kind, def string) {
			t, tn := typeOf(kind)
			f := fld(name, num, opt, t, tn)
			f.DefaultValue = proto.String(def)
			all.Field = append(all.Field, f)
		}
		nz := fld("f_nz", 19, opt, tEnum, "NZ")
		all.Field = append(all.Field, nz)
		d("d_int32", 81, "int32", "-7")
		d("d_string", 82, "string", "dflt")
		d("d_bytes", 83, "bytes", "\\001\\002")
		d("d_enum", 84, "enum", "TWO")
		d("d_uint64", 85, "uint64", "18446744073709551615")
		d("d_bool", 86, "bool", "true")
		d("d_double", 87, "double", "1.5")
		all.ExtensionRange = []*descriptorpb.DescriptorProto_ExtensionRange{{Start: proto.Int32(100), End: proto.Int32(200)}}
	}

	enums := []*descriptorpb.EnumDescriptorProto{enumE, enumO}
	if !p3 {
		// proto2 only: an enum whose first (default) value is not zero
		enums = append(enums, &descriptorpb.EnumDescriptorProto{Name: proto.String("NZ"),
			Value: []*descriptorpb.EnumValueDescriptorProto{ev("NZ_A", 3), ev("NZ_B", 5)}})
	}
	fdp := &descriptorpb.FileDescriptorProto{
		Name:        proto.String("c20/" + map[bool]string{false: "p2", true: "p3"}[p3] + ".proto"),
		Package:     proto.String(pkg),
		Syntax:      proto.String(syntax),
		EnumType:    enums,
		MessageType: []*descriptorpb.DescriptorProto{sub, all},
	}
	if !p3 {
		x := func(name string, num int32, label *descriptorpb.FieldDescriptorProto_Label, kind string) {
			t, tn := typeOf(kind)
			f := fld(name, num, label, t, tn)
			f.Extendee = proto.String("." + pkg + ".All")
			fdp.Extension = append(fdp.Extension, f)
		}
		x("x_i", 100, opt, "int32")
		x("x_m", 101, opt, "msg")
		x("x_r", 102, rep, "int32")
		x("x_s", 103, opt, "string")
		x("x_e", 104, opt, "enum")
	}
	return fdp
}

func buildSchema() (*schemaT, error) {
	s := &schemaT{pool: new(protoregistry.Files)}
	for _, syn := range []string{"proto2", "proto3"} {
		fdp := buildFileProto(syn)
		fd, err := protodesc.NewFile(fdp, s.pool)
		if err != nil {
			return nil, fmt.Errorf("protodesc.NewFile(%s): %v", syn, err)
		}
		if err := s.pool.RegisterFile(fd); err != nil {
			return nil, err
		}
		fs := &fileSchema{syntax: syn, pkg: fdp.GetPackage(), path: fdp.GetName(), fd: fd,
			all: fd.Messages().ByName("All"), sub: fd.Messages().ByName("Sub"),
			enum: fd.Enums().ByName("E"), other: fd.Enums().ByName("Other")}
		if fs.all == nil || fs.sub == nil || fs.enum == nil || fs.other == nil {
			return nil, fmt.Errorf("schema %s incomplete", syn)
		}
		s.files = append(s.files, fs)
	}
	return s, nil
}
