package c20

import (
	"math"
	"math/big"
	"strings"
	"unicode/utf8"

	sproto "go.starlark.net/lib/proto"
	"go.starlark.net/starlark"
	"google.golang.org/protobuf/reflect/protoreflect"
	"google.golang.org/protobuf/types/dynamicpb"
)

// ---------------------------------------------------------------------------------------------
// Value pool of the boundary matrix.

type poolVal struct {
	label string // stable name (used in violation keys and coverage)
	class string // int none bool float string bytes list tuple dict message enumvalue descriptor view
	mk    func(e *env, fs *fileSchema) starlark.Value
}

func pow2(n uint, delta int64) *big.Int {
	x := new(big.Int).Lsh(big.NewInt(1), n)
	return x.Add(x, big.NewInt(delta))
}

func bigVal(b *big.Int) func(*env, *fileSchema) starlark.Value {
	return func(*env, *fileSchema) starlark.Value { return starlark.MakeBigInt(b) }
}

func constVal(v starlark.Value) func(*env, *fileSchema) starlark.Value {
	return func(*env, *fileSchema) starlark.Value { return v }
}

func buildPool() []poolVal {
	var p []poolVal
	addInt := func(label string, b *big.Int) { p = append(p, poolVal{"int:" + label, "int", bigVal(b)}) }
	neg := func(b *big.Int) *big.Int { return new(big.Int).Neg(b) }
	addInt("-2^200", neg(pow2(200, 0)))
	addInt("-2^64", neg(pow2(64, 0)))
	addInt("-2^63-1", neg(pow2(63, 1)))
	addInt("-2^63", neg(pow2(63, 0)))
	addInt("-2^31-1", neg(pow2(31, 1)))
	addInt("-2^31", neg(pow2(31, 0)))
	addInt("-1", big.NewInt(-1))
	addInt("0", big.NewInt(0))
	addInt("1", big.NewInt(1))
	addInt("2", big.NewInt(2))
	addInt("99", big.NewInt(99))
	addInt("2^24+1", pow2(24, 1))
	addInt("2^31-1", pow2(31, -1))
	addInt("2^31", pow2(31, 0))
	addInt("2^32-1", pow2(32, -1))
	addInt("2^32", pow2(32, 0))
	addInt("2^53+1", pow2(53, 1))
	addInt("2^63-1", pow2(63, -1))
	addInt("2^63", pow2(63, 0))
	addInt("2^64-1", pow2(64, -1))
	addInt("2^64", pow2(64, 0))
	addInt("2^200", pow2(200, 0))

	p = append(p, poolVal{"none", "none", constVal(starlark.None)})
	p = append(p, poolVal{"bool:true", "bool", constVal(starlark.True)})
	p = append(p, poolVal{"bool:false", "bool", constVal(starlark.False)})

	addF := func(label string, f float64) {
		p = append(p, poolVal{"float:" + label, "float", constVal(starlark.Float(f))})
	}
	addF("0.0", 0)
	addF("-0.0", math.Copysign(0, -1))
	addF("1.0", 1)
	addF("1.5", 1.5)
	addF("-2.5", -2.5)
	addF("0.1", 0.1)
	addF("2^24+1", 16777217)
	addF("1e300", 1e300)
	addF("maxfloat32", math.MaxFloat32)
	addF("1e39", 1e39)
	addF("denormal", math.SmallestNonzeroFloat64)
	addF("nan", math.NaN())
	addF("+inf", math.Inf(1))
	addF("-inf", math.Inf(-1))

	addS := func(label, s string) { p = append(p, poolVal{"str:" + label, "string", constVal(starlark.String(s))}) }
	addS("empty", "")
	addS("abc", "abc")
	addS("unicode", "héllo✓\U0001F600")
	addS("invalid-utf8", "\xff\xfeab")
	addS("nul", "a\x00b")
	addS("enum-name", "ONE")
	addS("enum-name-bad", "NOPE")
	addS("digit", "1")
	addS("long", strings.Repeat("xyz", 100))

	addB := func(label, s string) { p = append(p, poolVal{"bytes:" + label, "bytes", constVal(starlark.Bytes(s))}) }
	addB("empty", "")
	addB("abc", "abc")
	addB("binary", "\xff\x00\x80")
	addB("enum-name", "ONE")

	p = append(p, poolVal{"list:empty", "list", func(*env, *fileSchema) starlark.Value { return starlark.NewList(nil) }})
	p = append(p, poolVal{"list:int", "list", func(*env, *fileSchema) starlark.Value {
		return starlark.NewList([]starlark.Value{starlark.MakeInt(1)})
	}})
	p = append(p, poolVal{"tuple:int", "tuple", constVal(starlark.Tuple{starlark.MakeInt(1)})})
	dict := func(kv ...starlark.Value) starlark.Value {
		d := starlark.NewDict(len(kv) / 2)
		for i := 0; i+1 < len(kv); i += 2 {
			d.SetKey(kv[i], kv[i+1])
		}
		return d
	}
	p = append(p, poolVal{"dict:empty", "dict", func(*env, *fileSchema) starlark.Value { return dict() }})
	p = append(p, poolVal{"dict:sub-fields", "dict", func(*env, *fileSchema) starlark.Value {
		return dict(starlark.String("i"), starlark.MakeInt(5), starlark.String("s"), starlark.String("five"))
	}})
	p = append(p, poolVal{"dict:all-fields", "dict", func(*env, *fileSchema) starlark.Value {
		return dict(starlark.String("f_int32"), starlark.MakeInt(5), starlark.String("r_string"),
			starlark.NewList([]starlark.Value{starlark.String("a")}), starlark.String("f_uint64"), starlark.MakeBigInt(pow2(64, -1)))
	}})
	p = append(p, poolVal{"dict:bad-value", "dict", func(*env, *fileSchema) starlark.Value {
		return dict(starlark.String("i"), starlark.String("x"), starlark.String("f_int32"), starlark.String("x"))
	}})
	p = append(p, poolVal{"dict:out-of-range", "dict", func(*env, *fileSchema) starlark.Value {
		return dict(starlark.String("i"), starlark.MakeBigInt(pow2(31, 0)), starlark.String("f_int32"), starlark.MakeBigInt(pow2(31, 0)))
	}})
	p = append(p, poolVal{"dict:unknown-field", "dict", func(*env, *fileSchema) starlark.Value {
		return dict(starlark.String("nope"), starlark.MakeInt(1))
	}})
	p = append(p, poolVal{"dict:int-key", "dict", func(*env, *fileSchema) starlark.Value {
		return dict(starlark.MakeInt(1), starlark.MakeInt(2))
	}})

	p = append(p, poolVal{"msg:sub", "message", func(e *env, fs *fileSchema) starlark.Value {
		return e.newMsg(fs.sub, "i", starlark.MakeInt(11), "s", starlark.String("eleven"))
	}})
	p = append(p, poolVal{"msg:sub-empty", "message", func(e *env, fs *fileSchema) starlark.Value { return e.newMsg(fs.sub) }})
	p = append(p, poolVal{"msg:sub-frozen", "message", func(e *env, fs *fileSchema) starlark.Value {
		m := e.newMsg(fs.sub, "i", starlark.MakeInt(12))
		m.Freeze()
		return m
	}})
	p = append(p, poolVal{"msg:sub-otherfile", "message", func(e *env, fs *fileSchema) starlark.Value {
		return e.newMsg(e.other(fs).sub, "i", starlark.MakeInt(13))
	}})
	p = append(p, poolVal{"msg:all", "message", func(e *env, fs *fileSchema) starlark.Value {
		return e.newMsg(fs.all, "f_int32", starlark.MakeInt(14), "r_int64", starlark.NewList([]starlark.Value{starlark.MakeInt(-1)}))
	}})
	p = append(p, poolVal{"msg:all-otherfile", "message", func(e *env, fs *fileSchema) starlark.Value {
		return e.newMsg(e.other(fs).all, "f_int32", starlark.MakeInt(15))
	}})

	enumv := func(ed protoreflect.EnumDescriptor, name string) starlark.Value {
		return sproto.EnumValueDescriptor{Desc: ed.Values().ByName(protoreflect.Name(name))}
	}
	p = append(p, poolVal{"enum:ONE", "enumvalue", func(e *env, fs *fileSchema) starlark.Value { return enumv(fs.enum, "ONE") }})
	p = append(p, poolVal{"enum:NEG", "enumvalue", func(e *env, fs *fileSchema) starlark.Value { return enumv(fs.enum, "NEG") }})
	p = append(p, poolVal{"enum:BIG", "enumvalue", func(e *env, fs *fileSchema) starlark.Value { return enumv(fs.enum, "BIG") }})
	p = append(p, poolVal{"enum:ONE-otherfile", "enumvalue", func(e *env, fs *fileSchema) starlark.Value { return enumv(e.other(fs).enum, "ONE") }})
	p = append(p, poolVal{"enum:other-type", "enumvalue", func(e *env, fs *fileSchema) starlark.Value { return enumv(fs.other, "OTHER_ONE") }})
	p = append(p, poolVal{"desc:enum", "descriptor", func(e *env, fs *fileSchema) starlark.Value { return sproto.EnumDescriptor{Desc: fs.enum} }})
	p = append(p, poolVal{"desc:message", "descriptor", func(e *env, fs *fileSchema) starlark.Value { return sproto.MessageDescriptor{Desc: fs.sub} }})
	p = append(p, poolVal{"desc:field", "descriptor", func(e *env, fs *fileSchema) starlark.Value {
		return sproto.FieldDescriptor{Desc: fs.field("f_int32")}
	}})
	p = append(p, poolVal{"view:repeated-int32", "view", func(e *env, fs *fileSchema) starlark.Value {
		m := e.newMsg(fs.all, "r_int32", starlark.NewList([]starlark.Value{starlark.MakeInt(3)}))
		v, _ := m.Attr("r_int32")
		return v
	}})
	p = append(p, poolVal{"view:map-string-int32", "view", func(e *env, fs *fileSchema) starlark.Value {
		m := e.newMsg(fs.all, "mv_int32", dict(starlark.String("z"), starlark.MakeInt(3)))
		v, _ := m.Attr("mv_int32")
		return v
	}})
	// live views of other repeated/map fields: same kind but a different enum/message type, other scalar kinds
	view := func(label string, otherFile bool, field string, mk func(e *env, fs *fileSchema) starlark.Value) {
		p = append(p, poolVal{"view:" + label, "view", func(e *env, fs *fileSchema) starlark.Value {
			if otherFile {
				fs = e.other(fs)
			}
			m := e.newMsg(fs.all, field, mk(e, fs))
			v, _ := m.Attr(field)
			return v
		}})
	}
	listOf := func(f func(e *env, fs *fileSchema) []starlark.Value) func(e *env, fs *fileSchema) starlark.Value {
		return func(e *env, fs *fileSchema) starlark.Value { return starlark.NewList(f(e, fs)) }
	}
	mapOf := func(f func(e *env, fs *fileSchema) starlark.Value) func(e *env, fs *fileSchema) starlark.Value {
		return func(e *env, fs *fileSchema) starlark.Value { return dict(starlark.String("z"), f(e, fs)) }
	}
	ints := func(v ...int64) func(e *env, fs *fileSchema) []starlark.Value {
		return func(*env, *fileSchema) []starlark.Value {
			var l []starlark.Value
			for _, x := range v {
				l = append(l, starlark.MakeInt64(x))
			}
			return l
		}
	}
	subMsg := func(e *env, fs *fileSchema) starlark.Value { return e.newMsg(fs.sub, "i", starlark.MakeInt(21)) }
	allMsg := func(e *env, fs *fileSchema) starlark.Value { return e.newMsg(fs.all, "f_int32", starlark.MakeInt(22)) }
	view("repeated-enum", false, "r_enum", listOf(ints(1, 2)))
	view("repeated-other-enum", false, "r_other", listOf(ints(1, 7)))
	view("repeated-enum-otherfile", true, "r_enum", listOf(ints(1)))
	view("repeated-sub", false, "r_msg", listOf(func(e *env, fs *fileSchema) []starlark.Value { return []starlark.Value{subMsg(e, fs)} }))
	view("repeated-all", false, "r_rec", listOf(func(e *env, fs *fileSchema) []starlark.Value { return []starlark.Value{allMsg(e, fs)} }))
	view("repeated-sub-otherfile", true, "r_msg", listOf(func(e *env, fs *fileSchema) []starlark.Value { return []starlark.Value{subMsg(e, fs)} }))
	view("repeated-int64", false, "r_int64", listOf(ints(5, 1<<40)))
	view("repeated-sint32", false, "r_sint32", listOf(ints(-5)))
	view("repeated-string", false, "r_string", listOf(func(*env, *fileSchema) []starlark.Value { return []starlark.Value{starlark.String("ONE")} }))
	view("map-enum", false, "mv_enum", mapOf(func(*env, *fileSchema) starlark.Value { return starlark.MakeInt(2) }))
	view("map-other-enum", false, "mv_other", mapOf(func(*env, *fileSchema) starlark.Value { return starlark.MakeInt(7) }))
	view("map-sub", false, "mv_msg", mapOf(subMsg))
	view("map-all", false, "mv_rec", mapOf(allMsg))
	view("map-all-otherfile", true, "mv_rec", mapOf(allMsg))
	view("map-int64", false, "mv_int64", mapOf(func(*env, *fileSchema) starlark.Value { return starlark.MakeInt64(1 << 40) }))
	return p
}

// ---------------------------------------------------------------------------------------------
// Reference conversion: which Starlark values a field of a given kind accepts, and what is stored.
//
// Ranges (protobuf language guide, "Scalar Value Types"):
//   int32 sint32 sfixed32   -2^31 .. 2^31-1        uint32 fixed32   0 .. 2^32-1
//   int64 sint64 sfixed64   -2^63 .. 2^63-1        uint64 fixed64   0 .. 2^64-1
//   bool: a bool;  string: text (UTF-8);  bytes: any byte sequence;  float/double: IEEE 754
//   enum: one of the declared values (by number, by name, or an enum value of that enum type,
//         as documented on lib/proto.EnumDescriptor)
//   message: a message of exactly that type, or a dict of its fields (documented on
//         lib/proto.MessageDescriptor.CallInternal)
// Where lib/proto performs an implicit conversion that the property does not mention the verdict
// is "either" (see Engine.Assumptions): int -> float/double, str -> bytes, bytes -> string.

const (
	vAccept = iota
	vReject
	vEither
)

func verdictName(v int) string { return [...]string{"accept", "reject", "either"}[v] }

var (
	minI32, maxI32 = big.NewInt(math.MinInt32), big.NewInt(math.MaxInt32)
	minI64, maxI64 = big.NewInt(math.MinInt64), big.NewInt(math.MaxInt64)
	zeroBig        = big.NewInt(0)
	maxU32         = new(big.Int).SetUint64(math.MaxUint32)
	maxU64         = new(big.Int).SetUint64(math.MaxUint64)
)

func inRange(x, lo, hi *big.Int) bool { return x.Cmp(lo) >= 0 && x.Cmp(hi) <= 0 }

func enforceUTF8(fd protoreflect.FieldDescriptor) bool {
	return fd.ParentFile() != nil && fd.ParentFile().Syntax() == protoreflect.Proto3
}

// refConv converts a single (non-repeated) value for a field, list element, map key or map value.
func (e *env) refConv(fd protoreflect.FieldDescriptor, v starlark.Value) (protoreflect.Value, int) {
	none := protoreflect.Value{}
	switch fd.Kind() {
	case protoreflect.BoolKind:
		if b, ok := v.(starlark.Bool); ok {
			return protoreflect.ValueOfBool(bool(b)), vAccept
		}
	case protoreflect.Int32Kind, protoreflect.Sint32Kind, protoreflect.Sfixed32Kind:
		if i, ok := v.(starlark.Int); ok && inRange(i.BigInt(), minI32, maxI32) {
			return protoreflect.ValueOfInt32(int32(i.BigInt().Int64())), vAccept
		}
	case protoreflect.Int64Kind, protoreflect.Sint64Kind, protoreflect.Sfixed64Kind:
		if i, ok := v.(starlark.Int); ok && inRange(i.BigInt(), minI64, maxI64) {
			return protoreflect.ValueOfInt64(i.BigInt().Int64()), vAccept
		}
	case protoreflect.Uint32Kind, protoreflect.Fixed32Kind:
		if i, ok := v.(starlark.Int); ok && inRange(i.BigInt(), zeroBig, maxU32) {
			return protoreflect.ValueOfUint32(uint32(i.BigInt().Uint64())), vAccept
		}
	case protoreflect.Uint64Kind, protoreflect.Fixed64Kind:
		if i, ok := v.(starlark.Int); ok && inRange(i.BigInt(), zeroBig, maxU64) {
			return protoreflect.ValueOfUint64(i.BigInt().Uint64()), vAccept
		}
	case protoreflect.DoubleKind, protoreflect.FloatKind:
		var f float64
		verdict := vAccept
		switch v := v.(type) {
		case starlark.Float:
			f = float64(v)
		case starlark.Int:
			f, _ = new(big.Float).SetInt(v.BigInt()).Float64() // nearest, +-Inf beyond the range
			verdict = vEither
		default:
			return none, vReject
		}
		if fd.Kind() == protoreflect.FloatKind {
			if !math.IsInf(f, 0) && math.Abs(f) > math.MaxFloat32 {
				verdict = vEither // finite but beyond the float32 range: narrowing to Inf or rejecting are both defensible
			}
			return protoreflect.ValueOfFloat32(float32(f)), verdict
		}
		return protoreflect.ValueOfFloat64(f), verdict
	case protoreflect.StringKind:
		switch v := v.(type) {
		case starlark.String:
			if enforceUTF8(fd) && !utf8.ValidString(string(v)) {
				return protoreflect.ValueOfString(string(v)), vEither
			}
			return protoreflect.ValueOfString(string(v)), vAccept
		case starlark.Bytes:
			return protoreflect.ValueOfString(string(v)), vEither
		}
	case protoreflect.BytesKind:
		switch v := v.(type) {
		case starlark.Bytes:
			return protoreflect.ValueOfBytes([]byte(v)), vAccept
		case starlark.String:
			return protoreflect.ValueOfBytes([]byte(v)), vEither
		}
	case protoreflect.EnumKind:
		ed := fd.Enum()
		switch v := v.(type) {
		case starlark.Int:
			b := v.BigInt()
			if !inRange(b, minI32, maxI32) {
				return none, vReject
			}
			n := protoreflect.EnumNumber(b.Int64())
			if ed.Values().ByNumber(n) != nil {
				return protoreflect.ValueOfEnum(n), vAccept
			}
			if ed.IsClosed() {
				return none, vReject
			}
			return protoreflect.ValueOfEnum(n), vEither // open enum: an undeclared number is representable
		case starlark.String:
			if d := ed.Values().ByName(protoreflect.Name(string(v))); d != nil {
				return protoreflect.ValueOfEnum(d.Number()), vAccept
			}
		case sproto.EnumValueDescriptor:
			if v.Desc != nil && v.Desc.Parent() == protoreflect.Descriptor(ed) {
				return protoreflect.ValueOfEnum(v.Desc.Number()), vAccept
			}
		}
	case protoreflect.MessageKind, protoreflect.GroupKind:
		switch v := v.(type) {
		case *sproto.Message:
			pm := v.Message().ProtoReflect()
			if pm.Descriptor() == fd.Message() {
				return protoreflect.ValueOfMessage(pm), vAccept
			}
		case *starlark.Dict:
			msg, verdict := e.refMsgFromDict(fd.Message(), v)
			if verdict == vReject {
				return none, vReject
			}
			return protoreflect.ValueOfMessage(msg), verdict
		}
	}
	return none, vReject
}

func (e *env) refMsgFromDict(desc protoreflect.MessageDescriptor, d *starlark.Dict) (protoreflect.Message, int) {
	msg := dynamicpb.NewMessage(desc)
	verdict := vAccept
	for _, item := range d.Items() {
		name, ok := item[0].(starlark.String)
		if !ok {
			return nil, vReject
		}
		fd := desc.Fields().ByName(protoreflect.Name(string(name)))
		if fd == nil {
			return nil, vReject
		}
		switch e.refSetField(msg, fd, item[1]) {
		case vReject:
			return nil, vReject
		case vEither:
			verdict = vEither
		}
	}
	return msg, verdict
}

func worse(a, b int) int {
	if a == vReject || b == vReject {
		return vReject
	}
	if a == vEither || b == vEither {
		return vEither
	}
	return vAccept
}

// refSetField is the reference for "msg.<fd> = v" (None clears; an iterable makes a repeated field;
// a mapping makes a map field). On vReject the content of msg is unspecified.
func (e *env) refSetField(msg protoreflect.Message, fd protoreflect.FieldDescriptor, v starlark.Value) int {
	if v == starlark.None {
		msg.Clear(fd)
		return vAccept
	}
	verdict := vAccept
	switch {
	case fd.IsList():
		it := starlark.Iterate(v)
		if it == nil {
			return vReject
		}
		var elems []starlark.Value
		var x starlark.Value
		for it.Next(&x) {
			elems = append(elems, x)
		}
		it.Done()
		list := msg.NewField(fd).List()
		for _, x := range elems {
			pv, ver := e.refConv(fd, x)
			if ver == vReject {
				return vReject
			}
			verdict = worse(verdict, ver)
			list.Append(pv)
		}
		msg.Clear(fd)
		if list.Len() > 0 {
			msg.Set(fd, protoreflect.ValueOfList(list))
		}
	case fd.IsMap():
		im, ok := v.(starlark.IterableMapping)
		if !ok {
			return vReject
		}
		mp := msg.NewField(fd).Map()
		for _, item := range im.Items() {
			kv, kver := e.refConv(fd.MapKey(), item[0])
			vv, vver := e.refConv(fd.MapValue(), item[1])
			if kver == vReject || vver == vReject {
				return vReject
			}
			verdict = worse(verdict, worse(kver, vver))
			mp.Set(kv.MapKey(), vv)
		}
		msg.Clear(fd)
		if mp.Len() > 0 {
			msg.Set(fd, protoreflect.ValueOfMap(mp))
		}
	default:
		pv, ver := e.refConv(fd, v)
		if ver == vReject {
			return vReject
		}
		verdict = ver
		msg.Set(fd, pv)
	}
	return verdict
}

// sameStarlark reports whether the Starlark value got, read back from a field (element) described by fd,
// denotes exactly the stored value pv.
func sameStarlark(fd protoreflect.FieldDescriptor, got starlark.Value, pv protoreflect.Value) bool {
	switch fd.Kind() {
	case protoreflect.BoolKind:
		b, ok := got.(starlark.Bool)
		return ok && bool(b) == pv.Bool()
	case protoreflect.Int32Kind, protoreflect.Sint32Kind, protoreflect.Sfixed32Kind,
		protoreflect.Int64Kind, protoreflect.Sint64Kind, protoreflect.Sfixed64Kind:
		i, ok := got.(starlark.Int)
		return ok && i.BigInt().Cmp(big.NewInt(pv.Int())) == 0
	case protoreflect.Uint32Kind, protoreflect.Fixed32Kind, protoreflect.Uint64Kind, protoreflect.Fixed64Kind:
		i, ok := got.(starlark.Int)
		return ok && i.BigInt().Cmp(new(big.Int).SetUint64(pv.Uint())) == 0
	case protoreflect.FloatKind, protoreflect.DoubleKind:
		f, ok := got.(starlark.Float)
		if !ok {
			return false
		}
		w := pv.Float()
		if math.IsNaN(w) {
			return math.IsNaN(float64(f))
		}
		return math.Float64bits(float64(f)) == math.Float64bits(w)
	case protoreflect.StringKind:
		s, ok := got.(starlark.String)
		return ok && string(s) == pv.String()
	case protoreflect.BytesKind:
		b, ok := got.(starlark.Bytes)
		return ok && string(b) == string(pv.Bytes())
	case protoreflect.EnumKind:
		ev, ok := got.(sproto.EnumValueDescriptor)
		return ok && ev.Desc != nil && ev.Desc.Number() == pv.Enum() && ev.Desc.Parent() == protoreflect.Descriptor(fd.Enum())
	case protoreflect.MessageKind, protoreflect.GroupKind:
		m, ok := got.(*sproto.Message)
		return ok && protoEqual(m.Message().ProtoReflect(), pv.Message())
	}
	return false
}
