package c20

import (
	"fmt"
	"strings"

	sproto "go.starlark.net/lib/proto"
	"go.starlark.net/starlark"
	"google.golang.org/protobuf/reflect/protoreflect"
	"google.golang.org/protobuf/types/dynamicpb"

	"verif/internal/sl"
)

// ---------------------------------------------------------------------------------------------
// Positions of the boundary matrix.

type position struct {
	name    string // stable name
	class   string // singular | repeated | map-value | map-key | map-lookup  (position class in panic keys)
	family  string // f r mv mk : which field of the kind is addressed
	keyOnly bool   // only for the 12 legal map-key kinds
	ctor    bool   // the operation constructs and returns a new message
	nested  bool   // the value lands in m.f_rec.f_<kind> (through a dict converted to a message)
	lookup  bool   // read-only map lookup
	direct  string // shape tag used when a frozen message is changed through this operation
	body    string // Starlark body of "def <fn>(m, v, v0):"; {F} file variable, {K} kind
}

var positions = []position{
	{name: "attr", class: "singular", family: "f", direct: "direct-attr", body: "m.f_{K} = v"},
	{name: "kwarg", class: "singular", family: "f", ctor: true, body: "return {F}.All(f_{K} = v)"},
	{name: "dictarg", class: "singular", family: "f", ctor: true, body: "return {F}.All({\"f_{K}\": v})"},
	{name: "set_field", class: "singular", family: "f", direct: "direct-set_field", body: "proto.set_field(m, {F}.All.f_{K}, v)"},
	{name: "nested-dict", class: "singular", family: "f", ctor: true, nested: true, body: "return {F}.All(f_rec = {\"f_{K}\": v})"},
	{name: "nested-attr", class: "singular", family: "f", nested: true, direct: "direct-attr", body: "m.f_rec = {\"f_{K}\": v}"},
	{name: "list-whole", class: "repeated", family: "r", direct: "direct-list-assign", body: "m.r_{K} = v"},
	{name: "list-whole-kwarg", class: "repeated", family: "r", ctor: true, body: "return {F}.All(r_{K} = v)"},
	{name: "list-whole-set_field", class: "repeated", family: "r", direct: "direct-set_field", body: "proto.set_field(m, {F}.All.r_{K}, v)"},
	{name: "list-assign", class: "repeated", family: "r", direct: "direct-list-assign", body: "m.r_{K} = [v0, v]"},
	{name: "list-kwarg", class: "repeated", family: "r", ctor: true, body: "return {F}.All(r_{K} = [v0, v])"},
	{name: "setindex", class: "repeated", family: "r", direct: "direct-setindex", body: "m.r_{K}[0] = v"},
	{name: "append", class: "repeated", family: "r", direct: "direct-append", body: "m.r_{K}.append(v)"},
	{name: "map-whole", class: "map-value", family: "mv", direct: "direct-map-assign", body: "m.mv_{K} = v"},
	{name: "map-whole-kwarg", class: "map-value", family: "mv", ctor: true, body: "return {F}.All(mv_{K} = v)"},
	{name: "map-whole-set_field", class: "map-value", family: "mv", direct: "direct-set_field", body: "proto.set_field(m, {F}.All.mv_{K}, v)"},
	{name: "map-value-setkey", class: "map-value", family: "mv", direct: "direct-setkey", body: "m.mv_{K}[\"b\"] = v"},
	{name: "map-value-assign", class: "map-value", family: "mv", direct: "direct-map-assign", body: "m.mv_{K} = {\"b\": v}"},
	{name: "map-value-kwarg", class: "map-value", family: "mv", ctor: true, body: "return {F}.All(mv_{K} = {\"b\": v})"},
	{name: "map-key-setkey", class: "map-key", family: "mk", keyOnly: true, direct: "direct-setkey", body: "m.mk_{K}[v] = 2"},
	{name: "map-key-assign", class: "map-key", family: "mk", keyOnly: true, direct: "direct-map-assign", body: "m.mk_{K} = {v: 2}"},
	{name: "map-key-get", class: "map-lookup", family: "mk", keyOnly: true, lookup: true, body: "return m.mk_{K}[v]"},
	{name: "map-key-in", class: "map-lookup", family: "mk", keyOnly: true, lookup: true, body: "return v in m.mk_{K}"},
}

func isKeyKind(kind string) bool {
	for _, k := range keyKindNames {
		if k == kind {
			return true
		}
	}
	return false
}

func fnName(prefix string, fs *fileSchema, kind string) string {
	return strings.ReplaceAll(prefix, "-", "_") + "__" + fileVar(fs) + "__" + kind
}

func (e *env) compileMatrixProgram() error {
	var b strings.Builder
	for _, fs := range e.schema.files {
		F := fileVar(fs)
		for _, kind := range allKindNames {
			r := strings.NewReplacer("{F}", F, "{K}", kind)
			for _, p := range positions {
				if p.keyOnly && !isKeyKind(kind) {
					continue
				}
				fmt.Fprintf(&b, "def %s(m, v, v0):\n    %s\n", fnName(p.name, fs, kind), r.Replace(p.body))
			}
			fmt.Fprintf(&b, "def %s(m):\n    return m.f_%s\n", fnName("rd_f", fs, kind), kind)
			fmt.Fprintf(&b, "def %s(m):\n    return m.f_rec.f_%s\n", fnName("rd_n", fs, kind), kind)
			fmt.Fprintf(&b, "def %s(m, i):\n    return m.r_%s[i]\n", fnName("rd_r", fs, kind), kind)
			fmt.Fprintf(&b, "def %s(m, k):\n    return m.mv_%s[k]\n", fnName("rd_mv", fs, kind), kind)
			if isKeyKind(kind) {
				fmt.Fprintf(&b, "def %s(m, k):\n    return m.mk_%s[k]\n", fnName("rd_mk", fs, kind), kind)
			}
			fmt.Fprintf(&b, "def %s(o, m):\n    o.r_%s = m.r_%s\n", fnName("copy_r", fs, kind), kind, kind)
			fmt.Fprintf(&b, "def %s(o, m):\n    o.mv_%s = m.mv_%s\n", fnName("copy_mv", fs, kind), kind, kind)
		}
	}
	g, err, p := e.exec(e.thread, b.String(), nil)
	if p != nil {
		return fmt.Errorf("matrix program panicked: %v", p)
	}
	if err != nil {
		return fmt.Errorf("matrix program: %v", sl.ErrText(err))
	}
	e.fns = g
	return nil
}

// sample returns the n-th (0,1,2) valid sample value for a kind.
func (e *env) sample(fs *fileSchema, kind string, n int) starlark.Value {
	switch kind {
	case "double", "float":
		return starlark.Float([]float64{1.5, 2.25, -8}[n])
	case "bool":
		return starlark.Bool(n != 0)
	case "string":
		return starlark.String(fmt.Sprintf("v%d", n))
	case "bytes":
		return starlark.Bytes(fmt.Sprintf("v%d", n))
	case "enum":
		return []starlark.Value{starlark.MakeInt(1), starlark.String("TWO"), starlark.MakeInt(-1)}[n]
	case "msg":
		return e.newMsg(fs.sub, "i", starlark.MakeInt(7+2*n))
	case "rec":
		return e.newMsg(fs.all, "f_int32", starlark.MakeInt(7+2*n))
	}
	return starlark.MakeInt(7 + 2*n)
}

func mkDict(kv ...starlark.Value) *starlark.Dict {
	d := starlark.NewDict(len(kv) / 2)
	for i := 0; i+1 < len(kv); i += 2 {
		if err := d.SetKey(kv[i], kv[i+1]); err != nil {
			return nil
		}
	}
	return d
}

func mkList(v ...starlark.Value) *starlark.List { return starlark.NewList(v) }

type cellResult struct {
	res   starlark.Value
	err   error
	panic *sl.Panic
}

// matrixCase runs one (file, kind, position, route) row of the matrix over the whole value pool.
func (e *env) matrixCase(fs *fileSchema, kind string, pos *position, goRoute bool) {
	c := e.c
	route := "starlark"
	if goRoute {
		route = "goapi"
	}
	c.Cover("matrix_kinds", kind)
	c.Cover("matrix_positions", pos.name)
	c.Cover("matrix_routes", route)
	c.Cover("matrix_rows", fs.syntax+"/"+kind+"/"+pos.name+"/"+route)
	c.Note("matrix row %s %s %s %s over the whole value pool", fs.syntax, kind, pos.name, route)
	for vi := range e.pool {
		e.matrixCell(fs, kind, pos, goRoute, route, &e.pool[vi])
	}
}

func (e *env) fieldOf(fs *fileSchema, pos *position, kind string) protoreflect.FieldDescriptor {
	return fs.field(pos.family + "_" + kind)
}

// elemDesc returns the descriptor that types the value v written at this position.
func elemDesc(pos *position, fd protoreflect.FieldDescriptor) protoreflect.FieldDescriptor {
	switch pos.family {
	case "mv":
		return fd.MapValue()
	case "mk":
		return fd.MapKey()
	}
	return fd
}

func (e *env) matrixCell(fs *fileSchema, kind string, pos *position, goRoute bool, route string, pv *poolVal) {
	c := e.c
	th := e.thread
	v := pv.mk(e, fs)
	v0 := e.sample(fs, kind, 0)
	fd := e.fieldOf(fs, pos, kind)
	fname := string(fd.Name())
	allDesc := sproto.MessageDescriptor{Desc: fs.all}
	cellID := fmt.Sprintf("%s %s %s %s %s", fs.syntax, kind, pos.name, route, pv.label)

	// ---- build the operand structures shared by model and operation
	var opArg starlark.Value = v // what is assigned to the field / passed as kwarg
	switch pos.name {
	case "nested-dict", "nested-attr":
		opArg = mkDict(starlark.String("f_"+kind), v)
	case "list-assign", "list-kwarg":
		opArg = mkList(v0, v)
	case "map-value-assign", "map-value-kwarg":
		opArg = mkDict(starlark.String("b"), v)
	case "map-key-assign":
		d := mkDict(v, starlark.MakeInt(2))
		if d == nil {
			c.Count("matrix_skipped_unhashable_key", 1)
			return // an unhashable value cannot be written as a dict key at all
		}
		opArg = d
	}

	// ---- set-up: actual message (through the Go API with valid values) and expected message
	var m *sproto.Message
	exp := protoreflect.Message(dynamicpb.NewMessage(fs.all))
	if !pos.ctor {
		m = e.newMsg(fs.all)
		var setup starlark.Value
		switch pos.name {
		case "setindex", "append":
			setup = mkList(v0)
		case "map-value-setkey":
			setup = mkDict(starlark.String("a"), v0)
		case "map-key-setkey", "map-key-get", "map-key-in":
			setup = mkDict(v0, starlark.MakeInt(1))
		}
		if setup != nil {
			var err error
			p := sl.Safe(func() { err = m.SetField(fname, setup) })
			if p != nil || err != nil {
				c.Violation("C20 setup valid-assignment "+kind, fmt.Sprintf("%s: set-up assignment %s = %v failed: err=%v panic=%v", cellID, fname, setup, err, p), nil)
				return
			}
			if e.refSetField(exp, fd, setup) != vAccept {
				c.Violation("C20 harness model-rejects-setup", cellID, nil)
				return
			}
		}
	}

	// ---- model (before the operation: the operand may alias the target)
	verdict := vReject
	var wantPV protoreflect.Value // value expected at the written slot (invalid if none)
	var keyPV protoreflect.Value
	switch pos.name {
	case "attr", "kwarg", "dictarg", "set_field", "list-whole", "list-assign", "list-kwarg", "map-whole", "map-value-assign", "map-value-kwarg", "map-key-assign",
		"list-whole-kwarg", "list-whole-set_field", "map-whole-kwarg", "map-whole-set_field":
		verdict = e.refSetField(exp, fd, opArg)
	case "nested-dict", "nested-attr":
		verdict = e.refSetField(exp, fs.field("f_rec"), opArg)
	case "setindex", "append":
		x, ver := e.refConv(fd, v)
		verdict = ver
		if ver != vReject {
			l := exp.Mutable(fd).List()
			if pos.name == "setindex" {
				l.Set(0, x)
			} else {
				l.Append(x)
			}
		}
	case "map-value-setkey":
		x, ver := e.refConv(fd.MapValue(), v)
		verdict = ver
		if ver != vReject {
			exp.Mutable(fd).Map().Set(protoreflect.ValueOfString("b").MapKey(), x)
		}
	case "map-key-setkey":
		x, ver := e.refConv(fd.MapKey(), v)
		verdict = ver
		if ver != vReject {
			exp.Mutable(fd).Map().Set(x.MapKey(), protoreflect.ValueOfInt32(2))
		}
	case "map-key-get", "map-key-in":
		_, verdict = e.refConv(fd.MapKey(), v)
	}
	if verdict != vReject {
		switch pos.family {
		case "f":
			holder := exp
			if pos.nested {
				if exp.Has(fs.field("f_rec")) {
					holder = exp.Get(fs.field("f_rec")).Message()
				} else {
					holder = nil
				}
			}
			if holder != nil && holder.Has(fd) {
				wantPV = holder.Get(fd)
			}
		case "r":
			if !strings.HasPrefix(pos.name, "list-whole") && exp.Has(fd) {
				l := exp.Get(fd).List()
				idx := l.Len() - 1
				if pos.name == "setindex" {
					idx = 0
				}
				wantPV = l.Get(idx)
			}
		case "mv":
			if !strings.HasPrefix(pos.name, "map-whole") && exp.Has(fd) {
				wantPV = exp.Get(fd).Map().Get(protoreflect.ValueOfString("b").MapKey())
			}
		case "mk":
			keyPV, _ = e.refConv(fd.MapKey(), v)
			if !pos.lookup {
				wantPV = protoreflect.ValueOfInt32(2)
			}
		}
	}

	// ---- the operation
	op := func(m *sproto.Message, v, opArg starlark.Value, stale starlark.Value) cellResult {
		var r cellResult
		if !goRoute {
			r.res, r.err, r.panic = e.call(th, e.fns[fnName(pos.name, fs, kind)], valueOrNone(m), v, v0)
			return r
		}
		r.panic = sl.Safe(func() {
			view := func() starlark.Value {
				if stale != nil {
					return stale
				}
				x, _ := m.Attr(fname)
				return x
			}
			switch pos.name {
			case "attr", "list-whole", "list-assign", "map-whole", "map-value-assign", "map-key-assign":
				r.err = m.SetField(fname, opArg)
			case "nested-attr":
				r.err = m.SetField("f_rec", opArg)
			case "kwarg", "list-kwarg", "map-value-kwarg", "list-whole-kwarg", "map-whole-kwarg":
				r.res, r.err = starlark.Call(th, allDesc, nil, []starlark.Tuple{{starlark.String(fname), opArg}})
			case "nested-dict":
				r.res, r.err = starlark.Call(th, allDesc, nil, []starlark.Tuple{{starlark.String("f_rec"), opArg}})
			case "dictarg":
				r.res, r.err = starlark.Call(th, allDesc, starlark.Tuple{mkDict(starlark.String(fname), v)}, nil)
			case "set_field", "list-whole-set_field", "map-whole-set_field":
				_, r.err = starlark.Call(th, sproto.Module.Members["set_field"], starlark.Tuple{m, sproto.FieldDescriptor{Desc: fd}, v}, nil)
			case "setindex":
				r.err = view().(starlark.HasSetIndex).SetIndex(0, v)
			case "append":
				a, err := view().(starlark.HasAttrs).Attr("append")
				if err != nil || a == nil {
					r.err = fmt.Errorf("no append attribute: %v", err)
					return
				}
				_, r.err = starlark.Call(th, a, starlark.Tuple{v}, nil)
			case "map-value-setkey":
				r.err = view().(starlark.HasSetKey).SetKey(starlark.String("b"), v)
			case "map-key-setkey":
				r.err = view().(starlark.HasSetKey).SetKey(v, starlark.MakeInt(2))
			case "map-key-get", "map-key-in":
				x, found, err := view().(starlark.Mapping).Get(v)
				r.err = err
				if err == nil {
					if pos.name == "map-key-in" {
						r.res = starlark.Bool(found)
					} else if found {
						r.res = x
					} else {
						r.err = fmt.Errorf("key not found")
					}
				}
			}
		})
		return r
	}
	r := op(m, v, opArg, nil)
	c.Eval(1)
	c.Count("matrix_cells", 1)
	c.Count("matrix_model_"+verdictName(verdict), 1)
	c.Cover("matrix_values", pv.label)
	c.Distinct("cell " + cellID)

	detail := func(extra map[string]any) map[string]any {
		d := map[string]any{"cell": cellID, "file": fs.path, "kind": kind, "position": pos.name, "route": route,
			"value_label": pv.label, "value": driverTrunc(v.String()), "statement": strings.NewReplacer("{F}", fileVar(fs), "{K}", kind).Replace(pos.body),
			"model_verdict": verdictName(verdict)}
		if r.err != nil {
			d["error"] = r.err.Error()
		}
		for k, x := range extra {
			d[k] = x
		}
		return d
	}

	var got *sproto.Message = m
	if pos.ctor && r.panic == nil && r.err == nil {
		got, _ = r.res.(*sproto.Message)
	}

	switch {
	case r.panic != nil:
		c.Count("matrix_panics", 1)
		c.Violation(fmt.Sprintf("C20 panic %s-field %s-value %s", kind, pv.class, pos.class),
			fmt.Sprintf("host panic: %s with v=%s (%s) in %s: %s @ %s", pos.body, driverTrunc(v.String()), pv.label, cellID, r.panic.String(), r.panic.TopFrame()),
			detail(map[string]any{"panic": r.panic.String(), "stack": stackTrunc(r.panic.Stack)}))
	case r.err != nil:
		c.Count("matrix_op_errors", 1)
		if verdict == vAccept && !pos.lookup {
			c.Violation(fmt.Sprintf("C20 wrong-reject %s %s", kind, pv.label),
				fmt.Sprintf("in-range value rejected: %s with v=%s failed: %v (%s)", pos.body, driverTrunc(v.String()), r.err, cellID), detail(nil))
		}
		if pos.lookup && verdict == vAccept {
			// a valid key that is absent: "in" must say False, indexing fails with a key error
			if pos.name == "map-key-in" {
				c.Violation("C20 wrong-lookup "+kind, fmt.Sprintf("valid key %s: 'in' failed: %v (%s)", v, r.err, cellID), detail(nil))
			} else if keyPV.IsValid() && exp.Get(fd).Map().Has(keyPV.MapKey()) {
				c.Violation("C20 wrong-lookup "+kind, fmt.Sprintf("present key %s not found: %v (%s)", v, r.err, cellID), detail(nil))
			}
		}
	default:
		c.Count("matrix_op_ok", 1)
		if verdict == vReject && pos.lookup {
			// Starlark's "in" swallows the error of Mapping.Get; the answer must then be False
			if r.res != starlark.False {
				c.Violation("C20 wrong-lookup "+kind, fmt.Sprintf("lookup of invalid key %s gave %v (%s)", v, r.res, cellID), detail(nil))
			}
			break
		}
		if verdict == vReject {
			c.Violation(fmt.Sprintf("C20 wrong-accept %s %s", kind, pv.label),
				fmt.Sprintf("out-of-range or wrong-type value accepted: %s with v=%s (%s) succeeded; message now %s", pos.body, driverTrunc(v.String()), pv.label, safeString(got)), detail(nil))
			break
		}
		if pos.lookup {
			present := keyPV.IsValid() && exp.Get(fd).Map().Has(keyPV.MapKey())
			ok := false
			if pos.name == "map-key-in" {
				ok = r.res == starlark.Bool(present)
			} else if i, isInt := r.res.(starlark.Int); isInt && present {
				n, _ := i.Int64()
				ok = n == 1
			}
			if !ok {
				c.Violation("C20 wrong-lookup "+kind, fmt.Sprintf("lookup of key %s gave %v, key present=%v (%s)", v, r.res, present, cellID), detail(nil))
			}
			break
		}
		if got == nil {
			c.Violation("C20 wrong-result constructor", fmt.Sprintf("constructor returned %v (%s)", r.res, cellID), detail(nil))
			break
		}
		// stored exactly?
		if !protoEqual(pm(got), exp) {
			c.Violation(fmt.Sprintf("C20 wrong-store %s %s %s", kind, pv.label, pos.class),
				fmt.Sprintf("stored content differs from the value written: %s with v=%s: message is %s, expected %v (%s)", pos.body, driverTrunc(v.String()), safeString(got), exp.Interface(), cellID), detail(nil))
			break
		}
		c.Count("matrix_store_equal", 1)
		// read back through the wrapper
		if wantPV.IsValid() {
			rb, rerr, rp := e.readBack(fs, kind, pos, goRoute, got, v)
			switch {
			case rp != nil:
				c.Violation(fmt.Sprintf("C20 panic %s-field %s-value readback", kind, pv.class),
					fmt.Sprintf("host panic reading back after %s with v=%s: %s (%s)", pos.body, driverTrunc(v.String()), rp.String(), cellID), detail(map[string]any{"stack": stackTrunc(rp.Stack)}))
			case rerr != nil:
				c.Violation(fmt.Sprintf("C20 readback %s %s", kind, pv.label), fmt.Sprintf("read back failed: %v (%s)", rerr, cellID), detail(nil))
			case !sameStarlark(elemDescForRead(pos, fd), rb, wantPV):
				c.Violation(fmt.Sprintf("C20 readback %s %s", kind, pv.label),
					fmt.Sprintf("read back %s (%s) after writing %s (%s)", rb, rb.Type(), driverTrunc(v.String()), cellID), detail(nil))
			default:
				c.Count("matrix_readback_equal", 1)
			}
		}
		e.roundTrip(fs, got, goRoute, kind, pv.label, cellID, func(m2 *sproto.Message) string {
			if !wantPV.IsValid() {
				return ""
			}
			rb, rerr, rp := e.readBack(fs, kind, pos, goRoute, m2, v)
			if rp != nil || rerr != nil {
				return fmt.Sprintf("read back from decoded message failed: err=%v panic=%v", rerr, rp)
			}
			if !sameStarlark(elemDescForRead(pos, fd), rb, wantPV) {
				return fmt.Sprintf("decoded message reads back %s after writing %s", rb, driverTrunc(v.String()))
			}
			return ""
		})
		// the same operation on the frozen message must not change it
		if !pos.ctor && pos.direct != "" {
			v1 := e.sample(fs, kind, 2)
			arg1 := starlark.Value(v1)
			switch pos.name {
			case "nested-attr":
				arg1 = mkDict(starlark.String("f_"+kind), v1)
			case "list-whole", "list-assign", "list-whole-set_field":
				arg1 = mkList(v0, v1, v1)
			case "map-whole", "map-value-assign", "map-whole-set_field":
				arg1 = mkDict(starlark.String("c"), v1)
			case "map-key-assign":
				arg1 = mkDict(v1, starlark.MakeInt(3))
			}
			if strings.HasPrefix(pos.name, "list-whole") || strings.HasPrefix(pos.name, "map-whole") {
				v1 = arg1
			}
			var stale starlark.Value
			if goRoute && (pos.family == "r" || pos.family == "mv" || pos.family == "mk") {
				stale, _ = m.Attr(fname) // wrapper obtained before freezing
			}
			before, bp := snapshot(m)
			if bp != nil {
				// printing/encoding the message just built panics: that is the defect, not a frozen-ness problem
				c.Violation(fmt.Sprintf("C20 panic %s-field %s-value print", kind, pv.class),
					fmt.Sprintf("host panic printing/encoding the message after %s with v=%s (%s): %s @ %s", pos.body, driverTrunc(v.String()), cellID, bp.String(), bp.TopFrame()), detail(map[string]any{"stack": stackTrunc(bp.Stack)}))
				break
			}
			m.Freeze()
			r2 := op(m, v1, arg1, stale)
			after, sp := snapshot(m)
			c.Count("matrix_frozen_retries", 1)
			if r2.panic != nil {
				c.Violation(fmt.Sprintf("C20 panic %s-field frozen-retry %s", kind, pos.class),
					fmt.Sprintf("host panic operating on frozen message: %s (%s): %s", pos.body, cellID, r2.panic.String()), detail(map[string]any{"stack": stackTrunc(r2.panic.Stack)}))
			} else if sp != nil || before != after {
				c.Violation("C20 frozen-mutated "+pos.direct,
					fmt.Sprintf("frozen message changed by %s (v=%s): before %s, after %s, error=%v (%s)", pos.body, driverTrunc(v1.String()), showSnap(before), showSnap(after), r2.err, cellID), detail(nil))
			} else if r2.err != nil {
				c.Count("matrix_frozen_rejections", 1)
			}
		}
	}

	// ---- invariant walk after either outcome
	if got != nil {
		if problem, _ := e.walk(got, true); problem != "" {
			c.Violation("C20 invariant "+kind+" "+pos.class,
				fmt.Sprintf("after %s with v=%s (%s): %s (%s)", pos.body, driverTrunc(v.String()), pv.label, problem, cellID), detail(map[string]any{"problem": problem}))
		}
	}
	if c.Shard%2 == 0 && e.matrixSamples < 3 && c.WantSample() && verdict != vEither && (r.err == nil) == (e.matrixSamples%2 == 0) {
		e.matrixSamples++
		errs := ""
		if r.err != nil {
			errs = r.err.Error()
		}
		c.Sample(map[string]any{"kind": "matrix", "cell": cellID, "statement": strings.NewReplacer("{F}", fileVar(fs), "{K}", kind).Replace(pos.body),
			"v": driverTrunc(v.String()), "expected": verdictName(verdict), "observed_error": errs, "observed_message": safeString(got)})
	}
}

func elemDescForRead(pos *position, fd protoreflect.FieldDescriptor) protoreflect.FieldDescriptor {
	switch pos.family {
	case "mv", "mk":
		return fd.MapValue()
	}
	return fd
}

func valueOrNone(m *sproto.Message) starlark.Value {
	if m == nil {
		return starlark.None
	}
	return m
}

func safeString(m *sproto.Message) string {
	if m == nil {
		return "<none>"
	}
	var s string
	if p := sl.Safe(func() { s = m.String() }); p != nil {
		return "<String() panicked: " + p.String() + ">"
	}
	return driverTrunc(s)
}

func driverTrunc(s string) string {
	if len(s) > 300 {
		return s[:300] + "…"
	}
	return s
}

// readBack reads the slot written by the cell through the Starlark-visible API.
func (e *env) readBack(fs *fileSchema, kind string, pos *position, goRoute bool, m *sproto.Message, v starlark.Value) (res starlark.Value, err error, p *sl.Panic) {
	idx := 1
	if pos.name == "setindex" {
		idx = 0
	}
	if !goRoute {
		switch {
		case pos.nested:
			return e.call(e.thread, e.fns[fnName("rd_n", fs, kind)], m)
		case pos.family == "f":
			return e.call(e.thread, e.fns[fnName("rd_f", fs, kind)], m)
		case pos.family == "r":
			return e.call(e.thread, e.fns[fnName("rd_r", fs, kind)], m, starlark.MakeInt(idx))
		case pos.family == "mv":
			return e.call(e.thread, e.fns[fnName("rd_mv", fs, kind)], m, starlark.String("b"))
		default:
			return e.call(e.thread, e.fns[fnName("rd_mk", fs, kind)], m, v)
		}
	}
	p = sl.Safe(func() {
		holder := m
		if pos.nested {
			x, aerr := m.Attr("f_rec")
			if aerr != nil {
				err = aerr
				return
			}
			holder = x.(*sproto.Message)
		}
		x, aerr := holder.Attr(pos.family + "_" + kind)
		if aerr != nil {
			err = aerr
			return
		}
		switch pos.family {
		case "f":
			res = x
		case "r":
			ix := x.(starlark.Indexable)
			if idx >= ix.Len() {
				err = fmt.Errorf("index %d out of range (len %d)", idx, ix.Len())
				return
			}
			res = ix.Index(idx)
		case "mv", "mk":
			k := starlark.Value(starlark.String("b"))
			if pos.family == "mk" {
				k = v
			}
			y, found, gerr := x.(starlark.Mapping).Get(k)
			if gerr != nil || !found {
				err = fmt.Errorf("map lookup of %s: found=%v err=%v", k, found, gerr)
				return
			}
			res = y
		}
	})
	return
}

// roundTrip checks unmarshal(marshal(m)) == m for the binary and the text form.
func (e *env) roundTrip(fs *fileSchema, m *sproto.Message, goRoute bool, kind, vlabel, where string, extra func(m2 *sproto.Message) string) {
	c := e.c
	desc := pm(m).Descriptor()
	for _, form := range []string{"binary", "text"} {
		marshalName, unmarshalName := "marshal", "unmarshal"
		if form == "text" {
			marshalName, unmarshalName = "marshal_text", "unmarshal_text"
		}
		enc, err, p := e.call(e.thread, sproto.Module.Members[marshalName], m)
		if p != nil {
			c.Violation("C20 panic "+marshalName+" "+kind, fmt.Sprintf("host panic in proto.%s of %s: %s (%s)", marshalName, safeString(m), p.String(), where), map[string]any{"stack": stackTrunc(p.Stack)})
			continue
		}
		if err != nil {
			_, st := e.walk(m, true)
			if st.badUTF8 {
				c.Count("marshal_failed_invalid_utf8", 1)
				c.Violation("C20 marshal-fails string-field invalid-utf8",
					fmt.Sprintf("a proto3 string field accepted a str that is not valid UTF-8, and the message can no longer be encoded: proto.%s: %v (%s)", marshalName, err, where),
					map[string]any{"where": where, "error": err.Error(), "message": safeString(m)})
			} else {
				c.Violation("C20 marshal-fails "+kind+" "+vlabel, fmt.Sprintf("proto.%s failed: %v (%s)", marshalName, err, where), map[string]any{"where": where, "message": safeString(m)})
			}
			continue
		}
		var m2v starlark.Value
		if goRoute {
			// Go entry points
			var data []byte
			if b, ok := enc.(starlark.Bytes); ok {
				data = []byte(b)
			} else {
				data = []byte(enc.(starlark.String))
			}
			p = sl.Safe(func() {
				var mm *sproto.Message
				if form == "binary" {
					mm, err = sproto.Unmarshal(desc, data)
				} else {
					mm, err = sproto.UnmarshalText(desc, data)
				}
				if err == nil {
					m2v = mm
				}
			})
		} else {
			m2v, err, p = e.call(e.thread, sproto.Module.Members[unmarshalName], sproto.MessageDescriptor{Desc: desc}, enc)
		}
		if p != nil {
			c.Violation("C20 panic "+unmarshalName+" "+kind, fmt.Sprintf("host panic in proto.%s: %s (%s)", unmarshalName, p.String(), where), map[string]any{"stack": stackTrunc(p.Stack)})
			continue
		}
		if err != nil {
			c.Violation("C20 roundtrip-"+form+" "+kind+" "+vlabel, fmt.Sprintf("proto.%s(proto.%s(m)) failed: %v for m=%s (%s)", unmarshalName, marshalName, err, safeString(m), where), map[string]any{"where": where, "encoded": driverTrunc(enc.String())})
			continue
		}
		m2 := m2v.(*sproto.Message)
		c.Count("roundtrips_"+form, 1)
		if !protoEqual(pm(m), pm(m2)) {
			c.Violation("C20 roundtrip-"+form+" "+kind+" "+vlabel, fmt.Sprintf("proto.%s(proto.%s(m)) differs: m=%s decoded=%s (%s)", unmarshalName, marshalName, safeString(m), safeString(m2), where), map[string]any{"where": where, "encoded": driverTrunc(enc.String())})
			continue
		}
		if extra != nil {
			if s := extra(m2); s != "" {
				c.Violation("C20 roundtrip-"+form+" "+kind+" "+vlabel, s+" ("+where+")", map[string]any{"where": where, "encoded": driverTrunc(enc.String())})
			}
		}
	}
}
