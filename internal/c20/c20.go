// Package c20 monitors property C20: protocol messages (lib/proto) stay well-typed, lossless and
// respect freezing.
package c20

import (
	"fmt"
	"runtime"
	"runtime/debug"

	"verif/internal/driver"
)

func init() {
	driver.Register(&driver.Engine{
		ID:    "C20",
		Level: "exploration",
		Rule: "Message types are built at run time (proto2 and proto3 file: 15 scalar kinds, enum, nested and recursive message; singular, repeated, map<K,*> for the 12 key kinds, map<string,V> for every value kind; oneof, proto3 optional, proto2 defaults and extensions). " +
			"(1) Boundary matrix: file x kind x position (attr, kwarg, dict argument, set_field, nested dict, whole list/map, list literal, setindex, append, map value/key by setkey/assignment/kwarg, map lookup) x route (Starlark source / direct Go API) x 93 pool values (min-1, min, max, max+1, 2^64, 2^200, None, bool, floats, str incl. invalid UTF-8, bytes, containers, messages, enum values, descriptors, views); " +
			"each cell is judged against a per-kind range table (protobuf language guide): accept/reject verdict, stored content (proto.Equal with an independently built message), read-back through the wrapper, binary and text round trip, the same operation on the frozen message, reflective type/range walk; a cell is distinct by (file, kind, position, route, value). " +
			"(2) View assignment m.r = m.r / o.r = m.r for every kind; live repeated/map views of a different enum/message type or scalar kind as pool values at whole-field positions (attr, kwarg, set_field); element wrappers captured in plain Starlark containers (dict(map), dict.update, .items(), list/tuple/sorted/reversed(repeated), comprehensions, loop variables, Go Items/Entries/Elements/Get) and mutated after Freeze(); decoded messages with undeclared enum numbers; corrupted encodings; extension fields; a cyclic message in a helper process. " +
			"(3) Random histories (4..12 operations over <= 4 message variables and stored repeated/map views: construct, scalar/sub/repeated/map assignment, aliasing o.f = m.f, shallow copy M(m), element operations, stored views, plain-container captures and mutation through their elements, cross-type view assignment, iterate-and-mutate, re-encode, Freeze() directly or by finishing a module) with a snapshot-before/after oracle for every frozen message and a shadow model (storage-node identity, provenance of aliasing edges, flag groups) that names the shape; a history is distinct by its operation-kind sequence and counts as non-trivial when a mutating operation follows a freeze. " +
			"(4) Alias-view sequences (6..14 steps): one message reached through 2..3 long-lived wrappers and fresh ones by different routes (the original value after it was assigned into a parent by kwarg/dict/attribute/set_field/append/setindex/setkey, p.f_rec, p.r_rec[i], p.mv_rec[k], one level deeper, through a shallow copy, after decoding; each route confirmed by storage identity), interleaving through a random wrapper: read-and-keep a repeated/map view, whole-field assignment (list, tuple, dict, empty, None, kept view, another wrapper's view, None-then-assign; attribute or set_field), element writes through a fresh or a kept view, scalar assignment, re-wrap; after every step every wrapper must read, for 11 fields, exactly the content of a reference model of the message, as must unmarshal(marshal(w)) in binary and text form and every kept view that is still the field's storage; a sequence is distinct by (file, set-up, operation-kind sequence) and non-trivial when a field's storage object is replaced through another wrapper than one that read it. " +
			"(5) Defaults of unset message fields: the value read from an UNSET message-typed field (22 read routes: q.f_msg, q.c_m, defaults of defaults, of elements and map values, get_field incl. an extension, fresh/decoded/copied messages, Go Attr; q frozen before or after the read, by Freeze() or a module, or live) is assigned into another message at 15 positions and mutated there; after every step every unset message field of q, of a frozen bystander, of the new owner and of brand-new messages must read as the empty message, and the frozen q and bystander (which was given defaults read elsewhere) must not change. " +
			"(6) A second descriptor pool defines Sub, All and E with the same full names but other field types / an extra enum value; messages, default reads, elements, decoded messages, repeated/map views and enum values of those foreign types are offered at every message- and enum-typed position (34 Starlark forms, 8 Go forms): each must be rejected and leave every field of its declared type. " +
			"(7) Every callable attribute of every repeated/map view (dir(view)) of a message, its sub-message, an element and a map value is looked up BEFORE the message is frozen (5 ways to freeze, incl. a module that keeps the bound methods in globals) and called AFTER with 8 argument shapes; the frozen message must not change.",
		Assumptions: []string{
			"google.golang.org/protobuf (dynamicpb, proto.Equal, deterministic Marshal, protodesc) is the trusted reference for storage identity, equality and encoding",
			"per-kind ranges are those of the protobuf language guide (int32/sint32/sfixed32 -2^31..2^31-1, uint32/fixed32 0..2^32-1, int64/sint64/sfixed64 -2^63..2^63-1, uint64/fixed64 0..2^64-1); bool accepts only bool; enum accepts a declared number, a declared name or a value of the same enum; message accepts a message of the same descriptor or a dict of its fields; None unsets a singular/repeated/map field and is rejected as an element, key or map value (lib/proto setField doc)",
			"implicit conversions that lib/proto performs and the property does not mention are judged 'either' (accepting with exactly the converted value stored, or rejecting, are both fine): int -> float/double, str -> bytes, bytes -> string, finite float beyond float32 range -> float, undeclared number -> open (proto3) enum, str that is not valid UTF-8 -> proto3 string",
			"float/double fields are not required to read back exactly (narrowing to float32 is inherent); NaN equals NaN",
			"a failed assignment may leave a repeated/map field partially updated (the property only requires type/range validity after a failure)",
			"round trips are required for ordinary fields; extension fields are only checked for panics, verdict and read-back (proto.unmarshal has no extension resolver)",
			"an unset (protoreflect Has = false) singular message field reads as an empty message of the field's type (protobuf default-value semantics); the wrapper read from it and the message it was assigned into are not judged after that assignment (recorded aliasing findings), every other message is",
			"a message (or enum value) whose descriptor belongs to another pool, has the same full name and a different definition is not of the field's type and must be rejected; a foreign enum value whose number is declared here may be accepted or rejected",
			"mutation during iteration is not judged here (C06); histories only require no panic and no change of frozen messages",
			"alias-view sequences: which wrappers denote one message is taken from storage identity (lib/proto aliases a message assigned into a field, element or map value, and the sub-messages of a shallow copy); a kept view of a storage object that has since been replaced (map field reassigned, field set to None) is not judged, and a rejected element write (frozen default view of an empty field) must change nothing",
		},
		Run:         run,
		MinDistinct: 1000,
		Finish: func(ev map[string]any) (string, bool) {
			counters, _ := ev["counters"].(map[string]int64)
			cover, _ := ev["cover"].(map[string]map[string]struct{})
			if counters["frozen_snapshot_compares"] == 0 || counters["history_freezes"] == 0 {
				return "no frozen message was ever compared", true
			}
			if len(cover["matrix_kinds"]) != len(allKindNames) || len(cover["matrix_positions"]) != len(positions) || len(cover["matrix_routes"]) != 2 {
				return fmt.Sprintf("matrix incomplete: %d kinds, %d positions", len(cover["matrix_kinds"]), len(cover["matrix_positions"])), true
			}
			if counters["roundtrips_binary"] == 0 || counters["roundtrips_text"] == 0 || counters["invariant_walks"] == 0 {
				return "round trip / walk never ran", true
			}
			if counters["alias_wrapper_reads_compared"] == 0 || counters["alias_roundtrips_compared"] == 0 || counters["alias_storage_replaced_after_read_through_other_wrapper"] == 0 {
				return "alias-view sequences never compared wrappers after a storage replacement", true
			}
			return "", false
		},
	})
}

func run(c *driver.Ctx) {
	// one child per core is already running; a single-threaded workload gains nothing from 16 Ps
	// per child, and the idle GC workers of 16 x 16 Ps fight over the cores
	runtime.GOMAXPROCS(2)
	debug.SetGCPercent(400) // the live heap is ~10 MB; collect less often
	e, err := newEnv(c)
	if err != nil {
		// every shard fails the same way; report as inconclusive rather than crashing
		c.Inconclusive("C20 set-up failed: %v", err)
		return
	}

	// (1) boundary matrix: one case per (file, kind, position, route)
	for _, fs := range e.schema.files {
		for _, kind := range allKindNames {
			for pi := range positions {
				pos := &positions[pi]
				if pos.keyOnly && !isKeyKind(kind) {
					continue
				}
				for _, goRoute := range []bool{false, true} {
					if !c.Take() {
						continue
					}
					e.matrixCase(fs, kind, pos, goRoute)
				}
			}
		}
	}
	// (2) special cells
	for _, fs := range e.schema.files {
		for _, kind := range allKindNames {
			for _, goRoute := range []bool{false, true} {
				if c.Take() {
					e.viewAssignCase(fs, kind, goRoute)
				}
			}
		}
		for variant := 0; variant < 5; variant++ {
			if c.Take() {
				e.unknownEnumCase(fs, variant)
			}
		}
	}
	for _, fs := range e.schema.files {
		for fi := range plainForms {
			if c.Take() {
				e.plainViewCase(fs, &plainForms[fi])
			}
		}
	}
	for _, ext := range []string{"x_i", "x_m", "x_r", "x_s", "x_e"} {
		if c.Take() {
			e.extensionCase(ext)
		}
	}
	for _, mode := range []string{"str", "marshal", "list"} {
		if c.Take() {
			e.cycleProbe(mode)
		}
	}
	nfuzz := c.Pick(32, 640)
	for i := 0; i < nfuzz; i++ {
		if c.Take() {
			e.fuzzCase(e.schema.files[i%2], 250)
		}
	}
	// (3) histories
	n := c.Pick(6_000, 1_000_000)
	for i := 0; i < n; i++ {
		if !c.Take() {
			continue
		}
		e.runHistory(e.schema.files[i%2], c.Rand(), 12)
	}
	// (4) alias-view sequences: several wrappers of one message
	na := c.Pick(1_200, 150_000)
	for i := 0; i < na; i++ {
		if !c.Take() {
			continue
		}
		e.runAliasViews(e.schema.files[i%2], c.Rand())
	}
	// (5) defaults of unset message fields assigned elsewhere and mutated there
	for _, fs := range e.schema.files {
		for si := range defSources {
			if c.Take() {
				e.defaultShareCase(fs, si)
			}
		}
	}
	// (6) values of a foreign type with the same full name (second descriptor pool)
	for _, fs := range e.schema.files {
		for _, typ := range []string{"msg", "rec", "enum"} {
			if c.Take() {
				e.foreignTypeCase(fs, typ)
			}
		}
	}
	// (7) bound methods of views captured before a freeze and called after it
	for _, fs := range e.schema.files {
		for _, mode := range boundFreezeModes {
			if c.Take() {
				e.boundMethodCase(fs, mode)
			}
		}
	}
}
