package c20

import (
	"fmt"
	"math/rand"
	"sort"
	"strings"

	sproto "go.starlark.net/lib/proto"
	"go.starlark.net/starlark"
	"google.golang.org/protobuf/reflect/protoreflect"

	"verif/internal/sl"
)

// ---------------------------------------------------------------------------------------------
// Random histories over a handful of variables holding message wrappers and repeated/map views.
//
// Oracle: (1) no host panic; (2) invariant walk after every operation; (3) for every message on
// which Freeze() was called (directly, or by finishing a module that stores it in a global) the
// printed form and the deterministic encoding are compared before/after every later operation.
//
// Shadow model (used to name the shape of a violation, never to decide it):
//   - storage nodes are the underlying protoreflect Message/List/Map objects (pointer identity);
//   - every edge parent->child that an operation creates towards an already existing node is
//     tagged with how it was made (copy / alias-sub / alias-repeated / alias-map) and when;
//   - every wrapper belongs to a flag group as documented in lib/proto (a constructed, copied or
//     decoded message starts a group; wrappers obtained from it by field access, indexing or
//     lookup share it); Freeze() freezes the group.
// A changed frozen message is "direct-<op>" when the operation ran under a frozen group (the
// mutator's own check failed), otherwise it is named after the first tagged edge on the path the
// operation took (or, failing that, on the path from the frozen message to the written node).

type step struct {
	field string // f_rec | r_rec | mv_rec
	idx   int    // for r_rec
	key   string // for mv_rec
}

type path struct {
	v     string
	steps []step
}

func (p path) String() string {
	var b strings.Builder
	fmt.Fprintf(&b, "v[%q]", p.v)
	for _, s := range p.steps {
		switch s.field {
		case "f_rec":
			b.WriteString(".f_rec")
		case "r_rec":
			fmt.Fprintf(&b, ".r_rec[%d]", s.idx)
		case "mv_rec":
			fmt.Fprintf(&b, ".mv_rec[%q]", s.key)
		}
	}
	return b.String()
}

type hvar struct {
	name     string
	val      starlark.Value
	kind     byte // 'm' message, 'r' repeated view, 'k' map view
	group    int
	nodes    []any // storage nodes on the way from the group's root wrapper to this wrapper's node
	field    string
	shape    string // for plain containers ('p'): the view-* shape of how the elements were captured
	detached bool   // wraps a default value that is not part of any message
}

type victim struct {
	name string
	m    *sproto.Message
	node any
	snap string
	at   int
	how  string
}

type edge struct{ from, to any }
type edgeTag struct {
	kind string
	at   int
}

type hop struct {
	name     string // op kind (coverage, fingerprint)
	stmt     string // body of "def op(v):"
	dst      string // variable receiving the result ("" = none)
	dstKind  byte
	dstField string
	dstShape string
	rootVar  string // variable through which the operation addresses storage ("" = constructs only)
	opNodes  []any  // storage nodes addressed, in order
	alias    string // tag for edges this operation creates towards existing nodes
	direct   string // "direct-<...>" shape if it changes a frozen message under a frozen group
	mutating bool
	newGroup bool // result starts a new flag group
	goFn     func() (starlark.Value, error)
	onOK     func()       // bookkeeping after a successful operation
	freeze   func() error // freeze operations are executed by the harness
	freezeOf starlark.Value
}

type hist struct {
	e              *env
	fs             *fileSchema
	F              string
	r              *rand.Rand
	th             *starlark.Thread
	vars           map[string]*hvar
	order          []string
	store          *starlark.Dict
	ngroups        int
	frozen         map[int]bool
	victims        []*victim
	known          map[any]bool
	edges          map[edge]bool
	tags           map[edge]edgeTag
	adj            map[any][]any
	log            []string
	n              int
	goRoute        bool
	shape          []string
	frozeAt        int
	mutAfterFreeze int
	dead           bool // a cyclic message exists: printing it would kill the process
	// lastCont remembers, per message node and repeated/map field, the list/map object last seen there.
	// dynamicpb keeps an emptied list in the message (and reuses it on the next assignment) although the
	// field then reads as unset, so such a container may still be shared; it is kept in the graph as a
	// "may" edge (conservative for cycle avoidance, and it lets a later change be attributed).
	lastCont map[any]map[protoreflect.FieldNumber]any
}

func hasCycle(adj map[any][]any) bool {
	state := map[any]int{}
	var dfs func(n any) bool
	dfs = func(n any) bool {
		switch state[n] {
		case 1:
			return true
		case 2:
			return false
		}
		state[n] = 1
		for _, to := range adj[n] {
			if dfs(to) {
				return true
			}
		}
		state[n] = 2
		return false
	}
	for n := range adj {
		if dfs(n) {
			return true
		}
	}
	return false
}

func nodeKind(n any) string {
	switch n.(type) {
	case protoreflect.Message:
		return "sub"
	case protoreflect.List:
		return "repeated"
	case protoreflect.Map:
		return "map"
	}
	return "?"
}

// scanFrom adds the storage graph reachable from message node m to adj.
func scanFrom(m protoreflect.Message, adj map[any][]any, seen map[any]bool, lastCont map[any]map[protoreflect.FieldNumber]any) {
	if seen[m] {
		return
	}
	seen[m] = true
	remember := func(fd protoreflect.FieldDescriptor, node any) {
		if lastCont[m] == nil {
			lastCont[m] = map[protoreflect.FieldNumber]any{}
		}
		lastCont[m][fd.Number()] = node
	}
	defer func() {
		// containers last seen in fields that now read as unset
		var nums []int
		for num := range lastCont[m] {
			nums = append(nums, int(num))
		}
		sort.Ints(nums)
		for _, num := range nums {
			if fd := m.Descriptor().Fields().ByNumber(protoreflect.FieldNumber(num)); fd != nil && !m.Has(fd) {
				adj[m] = append(adj[m], lastCont[m][protoreflect.FieldNumber(num)])
			}
		}
	}()
	for _, fd := range sortedFields(m) {
		v := m.Get(fd)
		switch {
		case fd.IsList():
			l := v.List()
			remember(fd, any(l))
			adj[m] = append(adj[m], any(l))
			if !seen[any(l)] {
				seen[any(l)] = true
				if fd.Message() != nil {
					for i := 0; i < l.Len(); i++ {
						em := l.Get(i).Message()
						adj[any(l)] = append(adj[any(l)], any(em))
						scanFrom(em, adj, seen, lastCont)
					}
				}
			}
		case fd.IsMap():
			mp := v.Map()
			remember(fd, any(mp))
			adj[m] = append(adj[m], any(mp))
			if !seen[any(mp)] {
				seen[any(mp)] = true
				if fd.MapValue().Message() != nil {
					for _, k := range sortedKeys(mp) {
						vm := mp.Get(k).Message()
						adj[any(mp)] = append(adj[any(mp)], any(vm))
						scanFrom(vm, adj, seen, lastCont)
					}
				}
			}
		case fd.Message() != nil:
			sm := v.Message()
			adj[m] = append(adj[m], any(sm))
			scanFrom(sm, adj, seen, lastCont)
		}
	}
}

// rescan recomputes the storage graph from all variables and frozen messages; edges that are new
// and lead to a node that existed before are tagged with the alias kind of the operation.
func (h *hist) rescan(alias string, at int) {
	adj := map[any][]any{}
	seen := map[any]bool{}
	for _, name := range h.order {
		hv := h.vars[name]
		if hv == nil {
			continue
		}
		if m, ok := hv.val.(*sproto.Message); ok {
			scanFrom(pm(m), adj, seen, h.lastCont)
		}
	}
	for _, v := range h.victims {
		scanFrom(v.node.(protoreflect.Message), adj, seen, h.lastCont)
	}
	for from, tos := range adj {
		for _, to := range tos {
			ed := edge{from, to}
			if !h.edges[ed] {
				h.edges[ed] = true
				if h.known[to] {
					kind := alias
					if kind == "" {
						kind = "unexpected"
					}
					h.tags[ed] = edgeTag{kind, at}
				}
			}
		}
	}
	for n := range seen {
		h.known[n] = true
	}
	h.adj = adj
}

func (h *hist) reach(n any) map[any]bool {
	out := map[any]bool{}
	var dfs func(x any)
	dfs = func(x any) {
		if out[x] {
			return
		}
		out[x] = true
		for _, y := range h.adj[x] {
			dfs(y)
		}
	}
	dfs(n)
	return out
}

// resolve evaluates a message path on the real storage: the nodes it visits (after the variable's own
// nodes) and whether it ends in a populated message.
func (h *hist) resolve(p path) (nodes []any, msg protoreflect.Message, attached bool) {
	hv := h.vars[p.v]
	m, ok := hv.val.(*sproto.Message)
	if !ok {
		return nil, nil, false
	}
	nodes = append(nodes, hv.nodes...)
	cur := pm(m)
	if hv.detached {
		return nodes, cur, false
	}
	for _, s := range p.steps {
		fd := cur.Descriptor().Fields().ByName(protoreflect.Name(s.field))
		if !cur.Has(fd) {
			return nodes, nil, false
		}
		switch s.field {
		case "f_rec":
			cur = cur.Get(fd).Message()
			nodes = append(nodes, any(cur))
		case "r_rec":
			l := cur.Get(fd).List()
			if s.idx >= l.Len() {
				return nodes, nil, false
			}
			cur = l.Get(s.idx).Message()
			nodes = append(nodes, any(l), any(cur))
		case "mv_rec":
			mp := cur.Get(fd).Map()
			v := mp.Get(protoreflect.ValueOfString(s.key).MapKey())
			if !v.IsValid() {
				return nodes, nil, false
			}
			cur = v.Message()
			nodes = append(nodes, any(mp), any(cur))
		}
	}
	return nodes, cur, true
}

// evalGo evaluates a path through the Go API of the wrappers.
func evalGo(hv *hvar, p path) (starlark.Value, error) {
	var cur starlark.Value = hv.val
	for _, s := range p.steps {
		m, ok := cur.(*sproto.Message)
		if !ok {
			return nil, fmt.Errorf("not a message")
		}
		x, err := m.Attr(s.field)
		if err != nil {
			return nil, err
		}
		switch s.field {
		case "f_rec":
			cur = x
		case "r_rec":
			ix := x.(starlark.Indexable)
			if s.idx >= ix.Len() {
				return nil, fmt.Errorf("index out of range")
			}
			cur = ix.Index(s.idx)
		case "mv_rec":
			y, found, err := x.(starlark.Mapping).Get(starlark.String(s.key))
			if err != nil || !found {
				return nil, fmt.Errorf("key: %v %v", found, err)
			}
			cur = y
		}
	}
	return cur, nil
}

// msgPaths lists message-valued paths (depth <= 2) through populated fields of every message variable.
func (h *hist) msgPaths() []path {
	var out []path
	var rec func(p path, m protoreflect.Message, depth int, onPath map[any]bool)
	rec = func(p path, m protoreflect.Message, depth int, onPath map[any]bool) {
		out = append(out, p)
		if depth == 0 || onPath[m] {
			return
		}
		onPath[m] = true
		defer delete(onPath, m)
		ext := func(s step, sub protoreflect.Message) {
			np := path{p.v, append(append([]step(nil), p.steps...), s)}
			rec(np, sub, depth-1, onPath)
		}
		fields := m.Descriptor().Fields()
		if fd := fields.ByName("f_rec"); m.Has(fd) {
			ext(step{field: "f_rec"}, m.Get(fd).Message())
		}
		if fd := fields.ByName("r_rec"); m.Has(fd) {
			l := m.Get(fd).List()
			for i := 0; i < l.Len() && i < 2; i++ {
				ext(step{field: "r_rec", idx: i}, l.Get(i).Message())
			}
		}
		if fd := fields.ByName("mv_rec"); m.Has(fd) {
			mp := m.Get(fd).Map()
			for _, k := range sortedKeys(mp) {
				ext(step{field: "mv_rec", key: k.String()}, mp.Get(k).Message())
			}
		}
	}
	for _, name := range h.order {
		hv := h.vars[name]
		if hv == nil || hv.kind != 'm' || hv.detached {
			continue
		}
		rec(path{v: name}, pm(hv.val.(*sproto.Message)), 2, map[any]bool{})
	}
	return out
}

func (h *hist) fresh() int { h.n++; return 100 + h.n }

func (h *hist) freshMsgExpr() string {
	switch h.r.Intn(3) {
	case 0:
		return fmt.Sprintf("%s.All(f_int32 = %d)", h.F, h.fresh())
	case 1:
		return fmt.Sprintf("%s.All(f_string = \"s%d\", r_int32 = [%d])", h.F, h.fresh(), h.fresh())
	}
	return fmt.Sprintf("{\"f_int32\": %d}", h.fresh())
}

func (h *hist) richCtor(depth int) string {
	var args []string
	add := func(p float64, s string) {
		if h.r.Float64() < p {
			args = append(args, s)
		}
	}
	add(0.8, fmt.Sprintf("f_int32 = %d", h.fresh()))
	add(0.5, fmt.Sprintf("f_string = \"s%d\"", h.fresh()))
	add(0.3, "f_enum = "+[]string{"1", "\"TWO\"", h.F + ".E.NEG"}[h.r.Intn(3)])
	add(0.3, fmt.Sprintf("f_uint64 = %d", uint64(1<<63)+uint64(h.fresh())))
	add(0.5, fmt.Sprintf("r_int32 = [%d, %d]", h.fresh(), h.fresh()))
	add(0.5, fmt.Sprintf("mv_int32 = {\"k0\": %d}", h.fresh()))
	add(0.15, fmt.Sprintf("r_msg = [%s.Sub(i = %d)], mv_msg = {\"k0\": %s.Sub(i = %d)}, f_msg = %s.Sub(i = %d)", h.F, h.fresh(), h.F, h.fresh(), h.F, h.fresh()))
	add(0.15, "r_other = [1, 7]")
	if depth > 0 {
		add(0.7, "f_rec = "+h.richCtor(depth-1))
		add(0.6, "r_rec = ["+h.richCtor(depth-1)+", "+h.richCtor(0)+"]")
		add(0.6, "mv_rec = {\"k0\": "+h.richCtor(depth-1)+", \"k1\": "+h.richCtor(0)+"}")
	}
	return h.F + ".All(" + strings.Join(args, ", ") + ")"
}

func (h *hist) pickVarName(kind byte, allowNew bool) string {
	names := map[byte][]string{'m': {"a", "b", "c", "d"}, 'r': {"r0", "r1"}, 'k': {"k0", "k1"}, 'p': {"p0", "p1"}}[kind]
	if allowNew {
		return names[h.r.Intn(len(names))]
	}
	var have []string
	for _, n := range names {
		if h.vars[n] != nil {
			have = append(have, n)
		}
	}
	if len(have) == 0 {
		return ""
	}
	return have[h.r.Intn(len(have))]
}

// wouldCycle: linking vals below any of the target nodes (the addressed message and the list/map that
// may be written in place; either may be shared with other messages) creates a cycle.
func (h *hist) wouldCycle(targets []any, vals ...any) bool {
	for _, v := range vals {
		if v == nil {
			continue
		}
		r := h.reach(v)
		for _, t := range targets {
			if t != nil && r[t] {
				return true
			}
		}
	}
	return false
}

func (h *hist) genOp() *hop {
	r := h.r
	paths := h.msgPaths()
	if len(paths) == 0 {
		dst := h.pickVarName('m', true)
		return &hop{name: "construct", stmt: "return " + h.richCtor(2), dst: dst, dstKind: 'm', newGroup: true}
	}
	pick := func() path { return paths[r.Intn(len(paths))] }
	P := pick()
	Q := pick()
	pNodes, pMsg, pOK := h.resolve(P)
	qNodes, qMsg, qOK := h.resolve(Q)
	_ = qNodes
	if !pOK {
		return nil
	}
	ps, qs := P.String(), Q.String()
	pNode := any(pMsg)
	targets := func(fields ...string) []any {
		out := []any{pNode}
		for _, f := range fields {
			fd := pMsg.Descriptor().Fields().ByName(protoreflect.Name(f))
			if pMsg.Has(fd) {
				if fd.IsList() {
					out = append(out, any(pMsg.Get(fd).List()))
				} else if fd.IsMap() {
					out = append(out, any(pMsg.Get(fd).Map()))
				}
			} else if n := h.lastCont[pNode][fd.Number()]; n != nil {
				out = append(out, n)
			}
		}
		return out
	}
	listNode := func(m protoreflect.Message, f string) (any, protoreflect.List) {
		fd := m.Descriptor().Fields().ByName(protoreflect.Name(f))
		if !m.Has(fd) {
			return h.lastCont[any(m)][fd.Number()], nil
		}
		l := m.Get(fd).List()
		return any(l), l
	}
	mapNode := func(m protoreflect.Message, f string) (any, protoreflect.Map) {
		fd := m.Descriptor().Fields().ByName(protoreflect.Name(f))
		if !m.Has(fd) {
			return h.lastCont[any(m)][fd.Number()], nil
		}
		mp := m.Get(fd).Map()
		return any(mp), mp
	}
	withNode := func(nodes []any, extra ...any) []any {
		out := append([]any(nil), nodes...)
		for _, x := range extra {
			if x != nil {
				out = append(out, x)
			}
		}
		return out
	}
	hvP := h.vars[P.v]

	switch k := r.Intn(112); {
	case k < 6: // construct
		dst := h.pickVarName('m', true)
		return &hop{name: "construct", stmt: "return " + h.richCtor(2), dst: dst, dstKind: 'm', newGroup: true}
	case k < 16: // scalar assignment
		n := h.fresh()
		choice := r.Intn(5)
		stmt := [...]string{
			fmt.Sprintf("%s.f_int32 = %d", ps, n),
			fmt.Sprintf("%s.f_string = \"s%d\"", ps, n),
			fmt.Sprintf("%s.f_uint64 = %d", ps, uint64(1<<63)+uint64(n)),
			fmt.Sprintf("%s.c_i = %d", ps, n),
			fmt.Sprintf("%s.f_bytes = b\"b%d\"", ps, n),
		}[choice]
		o := &hop{name: "set-scalar", stmt: stmt, rootVar: P.v, opNodes: pNodes, direct: "direct-attr", mutating: true}
		if choice == 0 {
			o.goFn = func() (starlark.Value, error) {
				w, err := evalGo(hvP, P)
				if err != nil {
					return nil, err
				}
				return nil, w.(*sproto.Message).SetField("f_int32", starlark.MakeInt(n))
			}
		}
		return o
	case k < 20: // set_field builtin
		n := h.fresh()
		o := &hop{name: "set_field", stmt: fmt.Sprintf("proto.set_field(%s, %s.All.f_int32, %d)", ps, h.F, n), rootVar: P.v, opNodes: pNodes, direct: "direct-set_field", mutating: true}
		o.goFn = func() (starlark.Value, error) {
			w, err := evalGo(hvP, P)
			if err != nil {
				return nil, err
			}
			return starlark.Call(h.th, sproto.Module.Members["set_field"], starlark.Tuple{w, sproto.FieldDescriptor{Desc: h.fs.field("f_int32")}, starlark.MakeInt(n)}, nil)
		}
		return o
	case k < 30: // alias a message into a singular field
		if !qOK || h.wouldCycle(targets(), any(qMsg)) {
			h.e.c.Count("history_cycles_avoided", 1)
			return nil
		}
		o := &hop{name: "alias-sub", stmt: fmt.Sprintf("%s.f_rec = %s", ps, qs), rootVar: P.v, opNodes: pNodes, alias: "alias-sub", direct: "direct-attr", mutating: true}
		hvQ := h.vars[Q.v]
		o.goFn = func() (starlark.Value, error) {
			w, err := evalGo(hvP, P)
			if err != nil {
				return nil, err
			}
			q, err := evalGo(hvQ, Q)
			if err != nil {
				return nil, err
			}
			return nil, w.(*sproto.Message).SetField("f_rec", q)
		}
		return o
	case k < 34: // fresh sub-message / clear
		val := h.freshMsgExpr()
		if r.Intn(5) == 0 {
			val = "None"
		}
		return &hop{name: "set-sub-fresh", stmt: fmt.Sprintf("%s.f_rec = %s", ps, val), rootVar: P.v, opNodes: pNodes, direct: "direct-attr", mutating: true}
	case k < 42: // repeated field assignment
		switch r.Intn(5) {
		case 0, 1: // from another message's repeated field (elements are aliased)
			if !qOK {
				return nil
			}
			ql, qlist := listNode(qMsg, "r_rec")
			var elems []any
			if qlist != nil {
				for i := 0; i < qlist.Len(); i++ {
					elems = append(elems, any(qlist.Get(i).Message()))
				}
			}
			_ = ql
			if h.wouldCycle(targets("r_rec"), elems...) {
				h.e.c.Count("history_cycles_avoided", 1)
				return nil
			}
			pl, _ := listNode(pMsg, "r_rec")
			return &hop{name: "alias-repeated", stmt: fmt.Sprintf("%s.r_rec = %s.r_rec", ps, qs), rootVar: P.v, opNodes: withNode(pNodes, pl), alias: "alias-repeated", direct: "direct-list-assign", mutating: true}
		case 2: // list literal holding an existing message
			if !qOK || h.wouldCycle(targets("r_rec"), any(qMsg)) {
				h.e.c.Count("history_cycles_avoided", 1)
				return nil
			}
			pl, _ := listNode(pMsg, "r_rec")
			return &hop{name: "list-of-alias", stmt: fmt.Sprintf("%s.r_rec = [%s, %s]", ps, qs, h.freshMsgExpr()), rootVar: P.v, opNodes: withNode(pNodes, pl), alias: "alias-sub", direct: "direct-list-assign", mutating: true}
		case 3:
			pl, _ := listNode(pMsg, "r_int32")
			return &hop{name: "list-scalars", stmt: fmt.Sprintf("%s.r_int32 = [%d, %d]", ps, h.fresh(), h.fresh()), rootVar: P.v, opNodes: withNode(pNodes, pl), direct: "direct-list-assign", mutating: true}
		default:
			pl, _ := listNode(pMsg, "r_int32")
			return &hop{name: "list-from-view", stmt: fmt.Sprintf("%s.r_int32 = %s.r_int32", ps, qs), rootVar: P.v, opNodes: withNode(pNodes, pl), direct: "direct-list-assign", mutating: true}
		}
	case k < 50: // map field assignment
		switch r.Intn(4) {
		case 0, 1:
			if !qOK {
				return nil
			}
			_, qmap := mapNode(qMsg, "mv_rec")
			var vals []any
			if qmap != nil {
				for _, key := range sortedKeys(qmap) {
					vals = append(vals, any(qmap.Get(key).Message()))
				}
			}
			if h.wouldCycle(targets("mv_rec"), vals...) {
				h.e.c.Count("history_cycles_avoided", 1)
				return nil
			}
			return &hop{name: "alias-map", stmt: fmt.Sprintf("%s.mv_rec = %s.mv_rec", ps, qs), rootVar: P.v, opNodes: pNodes, alias: "alias-map", direct: "direct-map-assign", mutating: true}
		case 2:
			if !qOK || h.wouldCycle(targets("mv_rec"), any(qMsg)) {
				h.e.c.Count("history_cycles_avoided", 1)
				return nil
			}
			return &hop{name: "dict-of-alias", stmt: fmt.Sprintf("%s.mv_rec = {\"k0\": %s, \"k1\": %s}", ps, qs, h.freshMsgExpr()), rootVar: P.v, opNodes: pNodes, alias: "alias-sub", direct: "direct-map-assign", mutating: true}
		default:
			return &hop{name: "map-scalars", stmt: fmt.Sprintf("%s.mv_int32 = {\"k0\": %d, \"k2\": %d}", ps, h.fresh(), h.fresh()), rootVar: P.v, opNodes: pNodes, direct: "direct-map-assign", mutating: true}
		}
	case k < 62: // element operations through a freshly obtained view
		switch r.Intn(7) {
		case 0: // r_rec[i] = Q
			pl, plist := listNode(pMsg, "r_rec")
			if plist == nil || !qOK || h.wouldCycle(targets("r_rec"), any(qMsg)) {
				return nil
			}
			i := r.Intn(plist.Len())
			o := &hop{name: "setindex-alias", stmt: fmt.Sprintf("%s.r_rec[%d] = %s", ps, i, qs), rootVar: P.v, opNodes: withNode(pNodes, pl), alias: "alias-sub", direct: "direct-setindex", mutating: true}
			hvQ := h.vars[Q.v]
			o.goFn = func() (starlark.Value, error) {
				w, err := evalGo(hvP, P)
				if err != nil {
					return nil, err
				}
				q, err := evalGo(hvQ, Q)
				if err != nil {
					return nil, err
				}
				x, err := w.(*sproto.Message).Attr("r_rec")
				if err != nil {
					return nil, err
				}
				if i >= x.(starlark.Indexable).Len() {
					return nil, fmt.Errorf("index out of range")
				}
				return nil, x.(starlark.HasSetIndex).SetIndex(i, q)
			}
			return o
		case 1: // append message
			pl, _ := listNode(pMsg, "r_rec")
			val, alias := h.freshMsgExpr(), ""
			if r.Intn(2) == 0 && qOK && !h.wouldCycle(targets("r_rec"), any(qMsg)) {
				val, alias = qs, "alias-sub"
			}
			return &hop{name: "append-msg", stmt: fmt.Sprintf("%s.r_rec.append(%s)", ps, val), rootVar: P.v, opNodes: withNode(pNodes, pl), alias: alias, direct: "direct-append", mutating: true}
		case 2:
			pl, plist := listNode(pMsg, "r_int32")
			if plist == nil {
				return nil
			}
			i, n := r.Intn(plist.Len()), h.fresh()
			o := &hop{name: "setindex-scalar", stmt: fmt.Sprintf("%s.r_int32[%d] = %d", ps, i, n), rootVar: P.v, opNodes: withNode(pNodes, pl), direct: "direct-setindex", mutating: true}
			o.goFn = func() (starlark.Value, error) {
				w, err := evalGo(hvP, P)
				if err != nil {
					return nil, err
				}
				x, err := w.(*sproto.Message).Attr("r_int32")
				if err != nil {
					return nil, err
				}
				if i >= x.(starlark.Indexable).Len() {
					return nil, fmt.Errorf("index out of range")
				}
				return nil, x.(starlark.HasSetIndex).SetIndex(i, starlark.MakeInt(n))
			}
			return o
		case 3:
			pl, _ := listNode(pMsg, "r_int32")
			n := h.fresh()
			o := &hop{name: "append-scalar", stmt: fmt.Sprintf("%s.r_int32.append(%d)", ps, n), rootVar: P.v, opNodes: withNode(pNodes, pl), direct: "direct-append", mutating: true}
			o.goFn = func() (starlark.Value, error) {
				w, err := evalGo(hvP, P)
				if err != nil {
					return nil, err
				}
				x, err := w.(*sproto.Message).Attr("r_int32")
				if err != nil {
					return nil, err
				}
				a, err := x.(starlark.HasAttrs).Attr("append")
				if err != nil || a == nil {
					return nil, fmt.Errorf("no append: %v", err)
				}
				return starlark.Call(h.th, a, starlark.Tuple{starlark.MakeInt(n)}, nil)
			}
			return o
		case 4:
			pmn, _ := mapNode(pMsg, "mv_rec")
			val, alias := h.freshMsgExpr(), ""
			if r.Intn(2) == 0 && qOK && !h.wouldCycle(targets("mv_rec"), any(qMsg)) {
				val, alias = qs, "alias-sub"
			}
			return &hop{name: "setkey-msg", stmt: fmt.Sprintf("%s.mv_rec[\"k%d\"] = %s", ps, r.Intn(3), val), rootVar: P.v, opNodes: withNode(pNodes, pmn), alias: alias, direct: "direct-setkey", mutating: true}
		case 5:
			pmn, _ := mapNode(pMsg, "mv_int32")
			key, n := fmt.Sprintf("k%d", r.Intn(3)), h.fresh()
			o := &hop{name: "setkey-scalar", stmt: fmt.Sprintf("%s.mv_int32[%q] = %d", ps, key, n), rootVar: P.v, opNodes: withNode(pNodes, pmn), direct: "direct-setkey", mutating: true}
			o.goFn = func() (starlark.Value, error) {
				w, err := evalGo(hvP, P)
				if err != nil {
					return nil, err
				}
				x, err := w.(*sproto.Message).Attr("mv_int32")
				if err != nil {
					return nil, err
				}
				return nil, x.(starlark.HasSetKey).SetKey(starlark.String(key), starlark.MakeInt(n))
			}
			return o
		default:
			f := []string{"r_rec", "r_int32", "mv_rec", "mv_int32", "f_rec"}[r.Intn(5)]
			fd := pMsg.Descriptor().Fields().ByName(protoreflect.Name(f))
			cont := h.lastCont[pNode][fd.Number()]
			return &hop{name: "clear-field", stmt: fmt.Sprintf("%s.%s = None", ps, f), rootVar: P.v, opNodes: withNode(pNodes, cont), direct: "direct-attr", mutating: true,
				onOK: func() { delete(h.lastCont[pNode], fd.Number()) }} // Clear drops the container from the message
		}
	case k < 70: // shallow copy
		dst := h.pickVarName('m', true)
		o := &hop{name: "copy", stmt: fmt.Sprintf("return %s.All(%s)", h.F, ps), dst: dst, dstKind: 'm', alias: "copy", newGroup: true}
		o.goFn = func() (starlark.Value, error) {
			w, err := evalGo(hvP, P)
			if err != nil {
				return nil, err
			}
			return starlark.Call(h.th, sproto.MessageDescriptor{Desc: h.fs.all}, starlark.Tuple{w}, nil)
		}
		return o
	case k < 76: // capture a view in a variable
		switch r.Intn(3) {
		case 0:
			if len(P.steps) == 0 {
				return nil
			}
			return &hop{name: "view-msg", stmt: "return " + ps, dst: h.pickVarName('m', true), dstKind: 'm', rootVar: P.v, opNodes: pNodes}
		case 1:
			f := []string{"r_rec", "r_int32"}[r.Intn(2)]
			n, _ := listNode(pMsg, f)
			return &hop{name: "view-repeated", stmt: fmt.Sprintf("return %s.%s", ps, f), dst: h.pickVarName('r', true), dstKind: 'r', dstField: f, rootVar: P.v, opNodes: withNode(pNodes, n)}
		default:
			f := []string{"mv_rec", "mv_int32"}[r.Intn(2)]
			n, _ := mapNode(pMsg, f)
			return &hop{name: "view-map", stmt: fmt.Sprintf("return %s.%s", ps, f), dst: h.pickVarName('k', true), dstKind: 'k', dstField: f, rootVar: P.v, opNodes: withNode(pNodes, n)}
		}
	case k < 84: // mutate through a stored view
		kind := []byte{'r', 'k'}[r.Intn(2)]
		name := h.pickVarName(kind, false)
		if name == "" {
			return nil
		}
		hv := h.vars[name]
		vs := fmt.Sprintf("v[%q]", name)
		msgElem := hv.field == "r_rec" || hv.field == "mv_rec"
		val, alias := fmt.Sprint(h.fresh()), ""
		if msgElem {
			val = h.freshMsgExpr()
			var container any
			if len(hv.nodes) > 0 {
				container = hv.nodes[len(hv.nodes)-1]
			}
			if r.Intn(2) == 0 && qOK && container != nil && !h.reach(any(qMsg))[container] {
				val, alias = qs, "alias-sub"
			}
		}
		if kind == 'r' {
			n := 0
			if ix, ok := hv.val.(starlark.Indexable); ok {
				n = ix.Len()
			}
			if n > 0 && r.Intn(2) == 0 {
				return &hop{name: "stored-view-setindex", stmt: fmt.Sprintf("%s[%d] = %s", vs, r.Intn(n), val), rootVar: name, opNodes: hv.nodes, alias: alias, direct: "direct-setindex", mutating: true}
			}
			return &hop{name: "stored-view-append", stmt: fmt.Sprintf("%s.append(%s)", vs, val), rootVar: name, opNodes: hv.nodes, alias: alias, direct: "direct-append", mutating: true}
		}
		return &hop{name: "stored-view-setkey", stmt: fmt.Sprintf("%s[\"k%d\"] = %s", vs, r.Intn(3), val), rootVar: name, opNodes: hv.nodes, alias: alias, direct: "direct-setkey", mutating: true}
	case k < 92: // iterate and mutate
		switch r.Intn(4) {
		case 0:
			pl, plist := listNode(pMsg, "r_rec")
			all := []any{pl}
			for i := 0; plist != nil && i < plist.Len(); i++ {
				all = append(all, any(plist.Get(i).Message()))
			}
			return &hop{name: "iter-elem-mutate", stmt: fmt.Sprintf("for e in %s.r_rec:\n        e.f_int32 = %d", ps, h.fresh()), rootVar: P.v, opNodes: withNode(pNodes, all...), direct: "direct-attr", mutating: true}
		case 1:
			pmn, pmap := mapNode(pMsg, "mv_rec")
			all := []any{pmn}
			if pmap != nil {
				for _, key := range sortedKeys(pmap) {
					all = append(all, any(pmap.Get(key).Message()))
				}
			}
			return &hop{name: "iter-map-mutate", stmt: fmt.Sprintf("for k in %s.mv_rec:\n        %s.mv_rec[k].f_int32 = %d", ps, ps, h.fresh()), rootVar: P.v, opNodes: withNode(pNodes, all...), direct: "direct-attr", mutating: true}
		case 2:
			pl, _ := listNode(pMsg, "r_int32")
			return &hop{name: "iter-append", stmt: fmt.Sprintf("for x in %s.r_int32:\n        if len(%s.r_int32) < 6:\n            %s.r_int32.append(%d)", ps, ps, ps, h.fresh()), rootVar: P.v, opNodes: withNode(pNodes, pl), direct: "direct-append", mutating: true}
		default:
			pl, _ := listNode(pMsg, "r_rec")
			return &hop{name: "iter-reassign", stmt: fmt.Sprintf("for x in %s.r_rec:\n        %s.r_rec = [%s]", ps, ps, h.freshMsgExpr()), rootVar: P.v, opNodes: withNode(pNodes, pl), direct: "direct-list-assign", mutating: true}
		}
	case k < 95: // deep copy by encoding
		return &hop{name: "reencode", stmt: fmt.Sprintf("return proto.unmarshal(%s.All, proto.marshal(%s))", h.F, ps), dst: h.pickVarName('m', true), dstKind: 'm', newGroup: true}
	case k < 100:
		return h.genFreeze()
	case k < 105: // capture element wrappers in a plain Starlark container
		forms := []struct{ field, shape, expr string }{
			{"mv_rec", "view-dict-of-map", "dict(%s.mv_rec)"},
			{"mv_rec", "view-dict-of-map", "dict(%s.mv_rec, zz = 1)"},
			{"mv_rec", "view-items-of-map", "dict(%s.mv_rec).items()"},
			{"mv_rec", "view-iteration-variable", "[%[1]s.mv_rec[k] for k in %[1]s.mv_rec]"},
			{"r_rec", "view-list-of-repeated", "list(%s.r_rec)"},
			{"r_rec", "view-list-of-repeated", "tuple(%s.r_rec)"},
			{"r_rec", "view-list-of-repeated", "sorted(%s.r_rec, key = lambda e: e.f_int32)"},
			{"r_rec", "view-iteration-variable", "[e for e in %s.r_rec]"},
		}
		f := forms[r.Intn(len(forms))]
		var cont any
		if f.field == "r_rec" {
			cont, _ = listNode(pMsg, f.field)
		} else {
			cont, _ = mapNode(pMsg, f.field)
		}
		return &hop{name: "capture-plain", stmt: "return " + fmt.Sprintf(f.expr, ps), dst: h.pickVarName('p', true), dstKind: 'p', dstShape: f.shape, rootVar: P.v, opNodes: withNode(pNodes, cont)}
	case k < 110: // mutate through an element held by a plain container
		name := h.pickVarName('p', false)
		if name == "" {
			return nil
		}
		hv := h.vars[name]
		type el struct {
			acc string
			m   *sproto.Message
		}
		var els []el
		vs := fmt.Sprintf("v[%q]", name)
		add := func(acc string, x starlark.Value) {
			if t, ok := x.(starlark.Tuple); ok && len(t) == 2 {
				x, acc = t[1], acc+"[1]"
			}
			if m, ok := x.(*sproto.Message); ok {
				els = append(els, el{acc, m})
			}
		}
		switch cv := hv.val.(type) {
		case *starlark.Dict:
			for _, kv := range cv.Items() {
				add(fmt.Sprintf("%s[%s]", vs, kv[0].String()), kv[1])
			}
		case starlark.Indexable:
			for i := 0; i < cv.Len(); i++ {
				add(fmt.Sprintf("%s[%d]", vs, i), cv.Index(i))
			}
		}
		if len(els) == 0 {
			return nil
		}
		x := els[r.Intn(len(els))]
		n := h.fresh()
		stmt := [...]string{
			fmt.Sprintf("%s.f_int32 = %d", x.acc, n),
			fmt.Sprintf("%s.r_int32 = [%d]", x.acc, n),
			fmt.Sprintf("%s.mv_int32 = {\"k0\": %d}", x.acc, n),
			fmt.Sprintf("proto.set_field(%s, %s.All.f_int32, %d)", x.acc, h.F, n),
			fmt.Sprintf("%s.f_rec = {\"f_int32\": %d}", x.acc, n),
		}[r.Intn(5)]
		return &hop{name: "plain-elem-mutate", stmt: stmt, rootVar: name, opNodes: withNode(hv.nodes, any(pm(x.m))), direct: hv.shape, mutating: true}
	default: // assign a live view of a field of a different message type (must fail cleanly)
		which := r.Intn(5)
		stmt := [...]string{
			fmt.Sprintf("%s.r_rec = %s.r_msg", ps, qs),
			fmt.Sprintf("%s.r_msg = %s.r_rec", ps, qs),
			fmt.Sprintf("%s.mv_rec = %s.mv_msg", ps, qs),
			fmt.Sprintf("%s.r_enum = %s.r_other", ps, qs),
			fmt.Sprintf("%s.f_rec = %s.f_msg", ps, qs),
		}[which]
		if !qOK {
			return nil
		}
		// the container the statement addresses (an accepted assignment of an empty view refills it in place)
		var pc any
		switch which {
		case 0:
			pc, _ = listNode(pMsg, "r_rec")
		case 1:
			pc, _ = listNode(pMsg, "r_msg")
		case 2:
			pc, _ = mapNode(pMsg, "mv_rec")
		case 3:
			pc, _ = listNode(pMsg, "r_enum")
		}
		return &hop{name: "cross-type-view-assign", stmt: stmt, rootVar: P.v, opNodes: withNode(pNodes, pc), direct: "direct-list-assign", mutating: true}
	}
}

func (h *hist) genFreeze() *hop {
	r := h.r
	// target: a message path, or a stored view
	if r.Intn(5) == 0 {
		kind := []byte{'r', 'k'}[r.Intn(2)]
		if name := h.pickVarName(kind, false); name != "" && !h.vars[name].detached {
			hv := h.vars[name]
			return &hop{name: "freeze-view", stmt: fmt.Sprintf("# v[%q].Freeze()", name), rootVar: name, freezeOf: hv.val, freeze: func() error { hv.val.Freeze(); return nil }}
		}
	}
	paths := h.msgPaths()
	if len(paths) == 0 {
		return nil
	}
	// prefer whole variables (3 of 4)
	var P path
	if r.Intn(4) != 0 {
		var roots []path
		for _, p := range paths {
			if len(p.steps) == 0 {
				roots = append(roots, p)
			}
		}
		P = roots[r.Intn(len(roots))]
	} else {
		P = paths[r.Intn(len(paths))]
	}
	_, _, ok := h.resolve(P)
	if !ok {
		return nil
	}
	w, err := evalGo(h.vars[P.v], P)
	if err != nil {
		return nil
	}
	mode := r.Intn(5)
	o := &hop{name: "freeze-direct", stmt: fmt.Sprintf("# %s.Freeze()", P), rootVar: P.v, freezeOf: w}
	switch mode {
	case 0, 1:
		o.freeze = func() error { w.Freeze(); return nil }
	default:
		src := [...]string{"g = x\n", "g = [1, x]\n", "g = {\"k\": (x,)}\n"}[mode-2]
		o.name = "freeze-module"
		o.stmt = fmt.Sprintf("# module with x = %s finishes: %s", P, strings.TrimSpace(src))
		o.freeze = func() error {
			th := h.e.newThread()
			var err error
			p := sl.Safe(func() {
				_, err = starlark.ExecFileOptions(h.e.opts, th, "mod.star", src, starlark.StringDict{"x": w})
			})
			if p != nil {
				return fmt.Errorf("panic: %s", p.String())
			}
			return err
		}
	}
	return o
}

// classify names the shape of a violation (see the comment at the top of the file).
func (h *hist) classify(o *hop, v *victim, adjBefore map[any][]any) string {
	if o.rootVar != "" {
		if hv := h.vars[o.rootVar]; hv != nil && h.frozen[hv.group] && o.direct != "" {
			return o.direct
		}
	}
	shapeOf := func(ed edge) (string, bool) {
		t, ok := h.tags[ed]
		if !ok {
			return "", false
		}
		if t.kind == "copy" {
			return "copy-then-mutate-" + nodeKind(ed.to), true
		}
		when := "before"
		if t.at > v.at {
			when = "after"
		}
		return t.kind + "-" + when + "-freeze", true
	}
	for i := 0; i+1 < len(o.opNodes); i++ {
		if s, ok := shapeOf(edge{o.opNodes[i], o.opNodes[i+1]}); ok {
			return s
		}
	}
	// path from the frozen message to a node addressed by the operation
	target := map[any]bool{}
	for _, n := range o.opNodes {
		target[n] = true
	}
	type item struct {
		n     any
		shape string
	}
	search := func() string {
		seen := map[any]bool{v.node: true}
		queue := []item{{v.node, ""}}
		for len(queue) > 0 {
			it := queue[0]
			queue = queue[1:]
			if target[it.n] && it.shape != "" {
				return it.shape
			}
			for _, to := range adjBefore[it.n] {
				if seen[to] {
					continue
				}
				seen[to] = true
				s := it.shape
				if s == "" {
					if x, ok := shapeOf(edge{it.n, to}); ok {
						s = x
					}
				}
				queue = append(queue, item{to, s})
			}
		}
		return ""
	}
	if s := search(); s != "" {
		return s
	}
	// an assignment to a field of an addressed message works on that message's containers (a repeated
	// field is refilled in place): they count as addressed too
	for _, n := range o.opNodes {
		for _, child := range adjBefore[n] {
			if nodeKind(child) != "sub" {
				target[child] = true
			}
		}
	}
	if s := search(); s != "" {
		return s
	}
	// the aliasing edge points at a node the operation addressed (e.g. the frozen message itself was shared)
	for _, n := range o.opNodes {
		best, found := edge{}, false
		for ed, t := range h.tags {
			if ed.to == n && (!found || t.at < h.tags[best].at) {
				best, found = ed, true
			}
		}
		if found {
			s, _ := shapeOf(best)
			return s
		}
	}
	return "unclassified"
}

func (e *env) runHistory(fs *fileSchema, r *rand.Rand, maxOps int) {
	c := e.c
	h := &hist{e: e, fs: fs, F: fileVar(fs), r: r, th: e.newThread(), vars: map[string]*hvar{}, store: starlark.NewDict(8),
		frozen: map[int]bool{}, known: map[any]bool{}, edges: map[edge]bool{}, tags: map[edge]edgeTag{}, adj: map[any][]any{},
		lastCont: map[any]map[protoreflect.FieldNumber]any{},
		goRoute:  r.Intn(3) == 0, frozeAt: -1}
	nops := 4 + r.Intn(maxOps-3)
	c.Note("random history on %s (replay this case to see its operations)", fs.path)
	executed := 0
	for i := 0; executed < nops && i < 4*nops; i++ {
		var o *hop
		switch {
		case executed == 0:
			o = &hop{name: "construct", stmt: "return " + h.richCtor(2), dst: "a", dstKind: 'm', newGroup: true}
		case executed == 1 && r.Intn(3) != 0:
			o = &hop{name: "construct", stmt: "return " + h.richCtor(1), dst: "b", dstKind: 'm', newGroup: true}
		case h.frozeAt < 0 && executed >= 3 && r.Intn(4) == 0:
			o = h.genFreeze()
		default:
			o = h.genOp()
		}
		if o == nil {
			continue
		}
		executed++
		h.exec(o, executed)
		if h.dead {
			break
		}
	}
	c.Eval(1)
	c.Count("histories", 1)
	if h.goRoute {
		c.Count("histories_goapi_route", 1)
	}
	if h.frozeAt >= 0 && h.mutAfterFreeze > 0 {
		c.Distinct("hist " + fs.syntax + " " + strings.Join(h.shape, ","))
		c.Count("histories_with_mutation_after_freeze", 1)
	}
	if c.WantSample() && len(h.victims) > 0 && h.mutAfterFreeze > 0 {
		c.Sample(map[string]any{"kind": "history", "file": fs.path, "ops": h.log, "frozen": h.victims[0].name, "frozen_printed_form_at_end": safeString(h.victims[0].m)})
	}
}

func (h *hist) exec(o *hop, at int) {
	c := h.e.c
	c.Cover("history_ops", o.name)
	c.Count("history_ops", 1)
	h.shape = append(h.shape, o.name)
	adjBefore := h.adj

	var res starlark.Value
	var err error
	var p *sl.Panic
	via := "starlark"
	switch {
	case o.freeze != nil:
		via = "harness"
		// register the frozen message first
		if m, ok := o.freezeOf.(*sproto.Message); ok {
			dup := false
			for _, v := range h.victims {
				if v.node == any(pm(m)) {
					dup = true
				}
			}
			if !dup {
				snap, sp := snapshot(m)
				if sp != nil {
					c.Violation("C20 panic history snapshot", sp.String(), map[string]any{"ops": h.log})
					return
				}
				h.victims = append(h.victims, &victim{name: strings.TrimPrefix(o.stmt, "# "), m: m, node: any(pm(m)), snap: snap, at: at, how: o.name})
			}
		}
		p = sl.Safe(func() { err = o.freeze() })
		if hv := h.vars[o.rootVar]; hv != nil && err == nil && p == nil {
			h.frozen[hv.group] = true
		}
		if h.frozeAt < 0 {
			h.frozeAt = at
		}
		c.Count("history_freezes", 1)
	case h.goRoute && o.goFn != nil:
		via = "goapi"
		p = sl.Safe(func() { res, err = o.goFn() })
		c.Count("history_ops_goapi", 1)
	default:
		src := "def op(v):\n    " + o.stmt + "\n"
		var g starlark.StringDict
		g, err, p = h.e.exec(h.th, src, nil)
		if err == nil && p == nil {
			res, err, p = h.e.call(h.th, g["op"], h.store)
		}
	}
	outcome := "ok"
	if p != nil {
		outcome = "PANIC " + p.String()
	} else if err != nil {
		outcome = "error: " + firstLine(err.Error())
	}
	shown := strings.ReplaceAll(o.stmt, "\n", " ")
	if o.dst != "" {
		shown = fmt.Sprintf("v[%q] = %s", o.dst, strings.TrimPrefix(shown, "return "))
	}
	h.log = append(h.log, fmt.Sprintf("%2d [%s] %s    -> %s", at, via, shown, outcome))
	if p != nil {
		c.Violation("C20 panic history "+o.name, fmt.Sprintf("host panic in %q: %s @ %s", o.stmt, p.String(), p.TopFrame()),
			map[string]any{"ops": h.log, "stack": stackTrunc(p.Stack)})
	}
	if err != nil {
		c.Count("history_op_errors", 1)
		if strings.Contains(err.Error(), "frozen") {
			c.Count("history_frozen_rejections", 1)
			c.Cover("history_ops_rejected_as_frozen", o.name)
		}
	} else {
		c.Count("history_ops_ok", 1)
		c.Cover("history_ops_succeeded", o.name)
		if o.onOK != nil && p == nil {
			o.onOK()
		}
	}
	if o.mutating && h.frozeAt >= 0 {
		h.mutAfterFreeze++
	}

	// result variable
	if o.dst != "" && err == nil && p == nil && res != nil {
		hv := &hvar{name: o.dst, val: res, kind: o.dstKind, field: o.dstField, shape: o.dstShape}
		ok := true
		switch o.dstKind {
		case 'm':
			m, isMsg := res.(*sproto.Message)
			ok = isMsg
			if isMsg {
				if o.newGroup {
					h.ngroups++
					hv.group = h.ngroups
					hv.nodes = []any{any(pm(m))}
				} else {
					root := h.vars[o.rootVar]
					hv.group = root.group
					hv.nodes = o.opNodes
					hv.detached = len(o.opNodes) == 0 || o.opNodes[len(o.opNodes)-1] != any(pm(m))
				}
			}
		default:
			root := h.vars[o.rootVar]
			hv.group = root.group
			hv.nodes = o.opNodes
			// a view of an unpopulated field is a detached frozen default
			if n, isLen := res.(interface{ Len() int }); isLen && n.Len() == 0 {
				hv.detached = true
			}
		}
		if ok {
			if h.vars[o.dst] == nil {
				h.order = append(h.order, o.dst)
			}
			h.vars[o.dst] = hv
			h.store.SetKey(starlark.String(o.dst), res)
		}
	}

	// storage graph and provenance tags
	h.rescan(o.alias, at)

	if hasCycle(h.adj) {
		c.Count("history_cycles_seen", 1) // must stay 0: the generator avoids cycles (see cycleProbe for that defect)
		c.Violation("C20 harness cycle-created", "a cyclic message was created although the generator avoids it", map[string]any{"ops": h.log})
		h.dead = true
		return
	}

	// frozen messages must be unchanged
	for _, v := range h.victims {
		now, sp := snapshot(v.m)
		c.Count("frozen_snapshot_compares", 1)
		if sp != nil {
			c.Violation("C20 panic history snapshot", sp.String(), map[string]any{"ops": h.log})
			continue
		}
		if now == v.snap {
			continue
		}
		shape := h.classify(o, v, adjBefore)
		c.Cover("frozen_mutated_shapes", shape)
		c.Count("frozen_mutations_observed", 1)
		c.Violation("C20 frozen-mutated "+shape,
			fmt.Sprintf("content of frozen message changed: frozen by [%s] at op %d, changed by op %d %q: printed form before %s, after %s",
				v.name, v.at, at, o.stmt, driverTrunc(showSnap(v.snap)), driverTrunc(showSnap(now))),
			map[string]any{"file": h.fs.path, "shape": shape, "ops": h.log, "frozen_by": v.name, "frozen_at_op": v.at, "changed_by_op": at,
				"before": showSnap(v.snap), "after": showSnap(now), "note": "v is a dict of variables; each op is the body of a Starlark function called from Go, or the Go API equivalent where marked [goapi]"})
		v.snap = now
	}

	// invariant walk over every message variable
	for _, name := range h.order {
		if m, ok := h.vars[name].val.(*sproto.Message); ok {
			if problem, _ := h.e.walk(m, true); problem != "" {
				c.Violation("C20 invariant history "+o.name, problem, map[string]any{"ops": h.log})
			}
		}
	}
}

func firstLine(s string) string {
	if i := strings.IndexByte(s, '\n'); i >= 0 {
		return s[:i]
	}
	return s
}
