package c20

import (
	"fmt"
	"strings"

	sproto "go.starlark.net/lib/proto"
	"go.starlark.net/starlark"
	"google.golang.org/protobuf/proto"
	"google.golang.org/protobuf/reflect/protodesc"
	"google.golang.org/protobuf/reflect/protoreflect"
	"google.golang.org/protobuf/reflect/protoregistry"
	"google.golang.org/protobuf/types/descriptorpb"

	"verif/internal/sl"
)

// Round-4 families:
//
//	(5) defaults of unset message fields: the value read from an UNSET message-typed field is assigned
//	    into another message and mutated through the new owner; every other message must be unaffected;
//	(6) values of a FOREIGN type with the same full name (second descriptor pool) in every message-typed
//	    (and enum-typed) position;
//	(7) bound methods of repeated/map views captured BEFORE the owner is frozen and called AFTER.

type ext4State struct {
	defFns   map[*fileSchema]starlark.StringDict
	forFns   map[*fileSchema]starlark.StringDict
	foreign  *schemaT
	emptyStr map[protoreflect.MessageDescriptor]string
}

func (e *env) ext4() *ext4State {
	if e.x4 == nil {
		e.x4 = &ext4State{
			defFns:   map[*fileSchema]starlark.StringDict{},
			forFns:   map[*fileSchema]starlark.StringDict{},
			emptyStr: map[protoreflect.MessageDescriptor]string{},
		}
	}
	return e.x4
}

func stmtOf(body string) string {
	return strings.Join(strings.Fields(strings.ReplaceAll(body, "\n", "; ")), " ")
}

// freezeByModule freezes m the way a finished module freezes its globals.
func (e *env) freezeByModule(m starlark.Value) bool {
	_, err, p := e.exec(e.newThread(), "g = [x]\n", starlark.StringDict{"x": m})
	if err != nil || p != nil {
		e.c.Violation("C20 harness module-freeze", fmt.Sprintf("err=%v panic=%v", err, p), nil)
		return false
	}
	return true
}

// =============================================================================================
// (5) Defaults of unset message fields.
//
// Oracle (none of it refers to what defaultValue does today):
//   O1  a message-typed singular field that is not populated (protoreflect Has = false) reads as an
//       EMPTY message of the field's type (no populated field, prints like a newly built empty message),
//       for every message: frozen, live, brand new, decoded, copied;
//   O2  the content of a frozen message (printed form + deterministic encoding) never changes.
// Neither the wrapper read from the unset field itself nor the new owner is judged (the new owner
// legitimately changes; the wrapper aliases the new owner's storage, which is the recorded
// alias-sub finding).

const (
	keyDefEmpty  = "C20 unset-message-field default-not-empty"
	keyDefFrozen = "C20 frozen-mutated shared-default-of-unset-field"
)

type defSource struct {
	expr   string // Starlark expression over q ({F} = file variable); "" = Go route
	typ    string // "msg" (Sub) | "rec" (All)
	p2only bool
	goAttr string
}

var defSources = []defSource{
	{expr: "q.f_msg", typ: "msg"},
	{expr: "q.c_m", typ: "msg"},
	{expr: "q.f_rec.f_msg", typ: "msg"},
	{expr: "q.f_rec.f_rec.c_m", typ: "msg"},
	{expr: "q.r_rec[0].f_msg", typ: "msg"},
	{expr: "q.mv_rec[\"k\"].f_msg", typ: "msg"},
	{expr: "getattr(q, \"f_msg\")", typ: "msg"},
	{expr: "proto.get_field(q, {F}.All.f_msg)", typ: "msg"},
	{expr: "proto.get_field(q, p2.x_m)", typ: "msg", p2only: true},
	{expr: "{F}.All().f_msg", typ: "msg"},
	{expr: "proto.unmarshal({F}.All, b\"\").f_msg", typ: "msg"},
	{expr: "{F}.All(q).f_msg", typ: "msg"},
	{goAttr: "f_msg", typ: "msg"},
	{goAttr: "c_m", typ: "msg"},
	{expr: "q.f_rec", typ: "rec"},
	{expr: "q.f_rec.f_rec", typ: "rec"},
	{expr: "q.r_rec[0].f_rec", typ: "rec"},
	{expr: "q.mv_rec[\"k\"].f_rec", typ: "rec"},
	{expr: "{F}.All().f_rec", typ: "rec"},
	{expr: "proto.unmarshal_text({F}.All, \"\").f_rec", typ: "rec"},
	{expr: "{F}.All(q).f_rec", typ: "rec"},
	{goAttr: "f_rec", typ: "rec"},
}

func (s *defSource) label() string {
	if s.expr == "" {
		return "Go q.Attr(\"" + s.goAttr + "\")"
	}
	return s.expr
}

type defSink struct {
	name   string
	body   string // body of def sink(p, d): returns (owner, sub-message reached through the new owner)
	only   string // "" | "msg"
	p2only bool
	goSet  bool
}

var defSinks = []defSink{
	{name: "attr", body: "p.f_{S} = d\n    return p, p.f_{S}"},
	{name: "kwarg", body: "p = {F}.All(f_{S} = d)\n    return p, p.f_{S}"},
	{name: "dictarg", body: "p = {F}.All({\"f_{S}\": d})\n    return p, p.f_{S}"},
	{name: "set_field", body: "proto.set_field(p, {F}.All.f_{S}, d)\n    return p, p.f_{S}"},
	{name: "nested-attr", body: "p.f_rec.f_{S} = d\n    return p, p.f_rec.f_{S}"},
	{name: "nested-dict", body: "p.f_rec = {\"f_{S}\": d}\n    return p, p.f_rec.f_{S}"},
	{name: "list-assign", body: "p.r_{S} = [d]\n    return p, p.r_{S}[0]"},
	{name: "append", body: "p.r_{S}.append(d)\n    return p, p.r_{S}[len(p.r_{S}) - 1]"},
	{name: "setindex", body: "p.r_{S}[0] = d\n    return p, p.r_{S}[0]"},
	{name: "map-assign", body: "p.mv_{S} = {\"k\": d}\n    return p, p.mv_{S}[\"k\"]"},
	{name: "setkey", body: "p.mv_{S}[\"k\"] = d\n    return p, p.mv_{S}[\"k\"]"},
	{name: "oneof", only: "msg", body: "p.c_m = d\n    return p, p.c_m"},
	{name: "extension", only: "msg", p2only: true, body: "proto.set_field(p, p2.x_m, d)\n    return p, proto.get_field(p, p2.x_m)"},
	{name: "attr-then-copy", body: "p.f_{S} = d\n    c = {F}.All(p)\n    return c, c.f_{S}"},
	{name: "go-SetField", goSet: true},
}

var defMuts = map[string][]string{
	"msg": {
		"t.i = n",
		"t.s = \"poison\"",
		"proto.set_field(t, {F}.Sub.i, n + 1)",
	},
	"rec": {
		"t.f_int32 = n",
		"t.f_string = \"poison\"",
		"t.r_int32 = [n]",
		"t.mv_int32 = {\"z\": n}",
		"t.f_msg = {\"i\": n}",
		"t.f_rec = {F}.All(f_int32 = n)",
	},
}

var defQStates = []string{"frozen-then-read", "read-then-frozen", "module-frozen-then-read", "live"}

func sinkFn(name, typ string) string {
	return "sink_" + strings.ReplaceAll(name, "-", "_") + "_" + typ
}

func (e *env) defProgram(fs *fileSchema) starlark.StringDict {
	x := e.ext4()
	if g, ok := x.defFns[fs]; ok {
		return g
	}
	F := fileVar(fs)
	var b strings.Builder
	b.WriteString(strings.ReplaceAll(`
def mk_q(): return {F}.All(f_int32 = 1, r_rec = [{F}.All(f_int32 = 2)], mv_rec = {"k": {F}.All(f_int32 = 3)})
def mk_p(): return {F}.All(f_int32 = 9, f_rec = {F}.All(f_int32 = 8), r_msg = [{F}.Sub(i = 1)], r_rec = [{F}.All(f_int32 = 7)], mv_msg = {"z": {F}.Sub(i = 2)}, mv_rec = {"z": {F}.All(f_int32 = 6)})
def mk_r():
    r = {F}.All(f_int32 = 4)
    r.f_msg = {F}.All().f_msg
    r.f_rec = {F}.All().f_rec
    r.c_m = mk_q().c_m
    r.r_msg = [{F}.All().f_msg, mk_q().f_rec.f_msg]
    r.r_rec = [mk_q().r_rec[0].f_rec]
    r.mv_msg = {"d": {F}.All().c_m}
    r.mv_rec = {"d": {F}.All().f_rec}
    return r
def fresh(): return [{F}.All(), proto.unmarshal({F}.All, b""), {F}.All({F}.All()), {F}.All(f_int32 = 5), mk_q()]
`, "{F}", F))
	for i, s := range defSources {
		if s.expr == "" || (s.p2only && fs.syntax != "proto2") {
			continue
		}
		fmt.Fprintf(&b, "def src_%d(q): return %s\n", i, strings.ReplaceAll(s.expr, "{F}", F))
	}
	for _, typ := range []string{"msg", "rec"} {
		r := strings.NewReplacer("{F}", F, "{S}", typ)
		for _, k := range defSinks {
			if k.goSet || (k.only != "" && k.only != typ) || (k.p2only && fs.syntax != "proto2") {
				continue
			}
			fmt.Fprintf(&b, "def %s(p, d):\n    %s\n", sinkFn(k.name, typ), r.Replace(k.body))
		}
		for i, m := range defMuts[typ] {
			fmt.Fprintf(&b, "def mut_%s_%d(t, n):\n    %s\n", typ, i, r.Replace(m))
		}
	}
	g, err, p := e.exec(e.thread, b.String(), nil)
	if err != nil || p != nil {
		e.c.Violation("C20 harness default-program", fmt.Sprintf("err=%v panic=%v", sl.ErrText(err), p), nil)
		g = nil
	}
	x.defFns[fs] = g
	return g
}

func isEmptyMsg(m protoreflect.Message) bool {
	n := 0
	m.Range(func(protoreflect.FieldDescriptor, protoreflect.Value) bool { n++; return false })
	return n == 0 && len(m.GetUnknown()) == 0
}

// emptyString is the printed form of an empty message of the type, obtained by decoding zero bytes.
func (e *env) emptyString(desc protoreflect.MessageDescriptor) string {
	x := e.ext4()
	if s, ok := x.emptyStr[desc]; ok {
		return s
	}
	s := "?"
	sl.Safe(func() {
		if m, err := sproto.Unmarshal(desc, nil); err == nil {
			s = m.String()
		}
	})
	x.emptyStr[desc] = s
	return s
}

// unsetDefaults applies O1 to m and, to the given depth, to the messages read from it (defaults of
// defaults, populated sub-messages, elements and map values). n counts the unset fields examined.
func (e *env) unsetDefaults(m *sproto.Message, path string, depth int, n *int) string {
	rm := pm(m)
	fds := rm.Descriptor().Fields()
	for i := 0; i < fds.Len(); i++ {
		fd := fds.Get(i)
		name := string(fd.Name())
		switch {
		case fd.IsMap():
			if fd.MapValue().Message() == nil || depth == 0 || !rm.Has(fd) {
				continue
			}
			v, err := m.Attr(name)
			im, ok := v.(starlark.IterableMapping)
			if err != nil || !ok {
				continue
			}
			for _, kv := range im.Items() {
				if w, ok := kv[1].(*sproto.Message); ok {
					if s := e.unsetDefaults(w, fmt.Sprintf("%s.%s[%s]", path, name, kv[0]), depth-1, n); s != "" {
						return s
					}
				}
			}
		case fd.IsList():
			if fd.Message() == nil || depth == 0 || !rm.Has(fd) {
				continue
			}
			v, err := m.Attr(name)
			ix, ok := v.(starlark.Indexable)
			if err != nil || !ok {
				continue
			}
			for j := 0; j < ix.Len(); j++ {
				if w, ok := ix.Index(j).(*sproto.Message); ok {
					if s := e.unsetDefaults(w, fmt.Sprintf("%s.%s[%d]", path, name, j), depth-1, n); s != "" {
						return s
					}
				}
			}
		case fd.Message() != nil:
			v, err := m.Attr(name)
			w, ok := v.(*sproto.Message)
			if err != nil || !ok {
				return fmt.Sprintf("%s.%s reads as %v (err=%v), want a message", path, name, v, err)
			}
			if !rm.Has(fd) {
				*n++
				if pm(w).Descriptor() != fd.Message() {
					return fmt.Sprintf("%s.%s is unset but reads as a message of type %s", path, name, pm(w).Descriptor().FullName())
				}
				if str := w.String(); !isEmptyMsg(pm(w)) || str != e.emptyString(fd.Message()) {
					return fmt.Sprintf("%s.%s is unset (never assigned) but reads as %s, want the empty message %s", path, name, driverTrunc(str), e.emptyString(fd.Message()))
				}
			}
			if depth > 0 {
				if s := e.unsetDefaults(w, path+"."+name, depth-1, n); s != "" {
					return s
				}
			}
		}
	}
	return ""
}

type defObs struct {
	name   string
	m      *sproto.Message
	frozen bool
	before string
}

func (e *env) defaultShareCase(fs *fileSchema, si int) {
	c := e.c
	src := &defSources[si]
	if src.p2only && fs.syntax != "proto2" {
		return
	}
	g := e.defProgram(fs)
	if g == nil {
		return
	}
	F := fileVar(fs)
	srcLabel := strings.ReplaceAll(src.label(), "{F}", F)
	c.Cover("default_sources", srcLabel)
	hasFn, getFn := sproto.Module.Members["has"], sproto.Module.Members["get_field"]
	var xm starlark.Value
	if fs.syntax == "proto2" {
		if xd := fs.fd.Extensions().ByName("x_m"); xd != nil {
			xm = sproto.FieldDescriptor{Desc: xd}
		}
	}
	mk := func(name string) *sproto.Message {
		v, err, p := e.call(e.thread, g[name])
		m, ok := v.(*sproto.Message)
		if err != nil || p != nil || !ok {
			c.Violation("C20 setup construct-valid-message", fmt.Sprintf("%s %s(): err=%v panic=%v", fs.syntax, name, err, p), nil)
			return nil
		}
		return m
	}
	for _, qstate := range defQStates {
		for ki := range defSinks {
			sink := &defSinks[ki]
			if (sink.only != "" && sink.only != src.typ) || (sink.p2only && fs.syntax != "proto2") {
				continue
			}
			where := fmt.Sprintf("%s source=%s q=%s sink=%s", fs.syntax, srcLabel, qstate, sink.name)
			c.Note("default-share %s", where)
			q, r, p0 := mk("mk_q"), mk("mk_r"), mk("mk_p")
			if q == nil || r == nil || p0 == nil {
				return
			}
			r.Freeze()
			switch qstate {
			case "frozen-then-read":
				q.Freeze()
			case "module-frozen-then-read":
				if !e.freezeByModule(q) {
					return
				}
			}
			// read the unset field
			var d starlark.Value
			var derr error
			var dp *sl.Panic
			if src.expr == "" {
				dp = sl.Safe(func() { d, derr = q.Attr(src.goAttr) })
			} else {
				d, derr, dp = e.call(e.thread, g[fmt.Sprintf("src_%d", si)], q)
			}
			c.Eval(1)
			c.Count("default_reads_of_unset_message_fields", 1)
			if dp != nil {
				c.Violation("C20 panic default-of-unset-field", fmt.Sprintf("host panic reading %s (%s): %s", srcLabel, where, dp.String()), map[string]any{"stack": stackTrunc(dp.Stack)})
				continue
			}
			if _, ok := d.(*sproto.Message); derr != nil || !ok {
				c.Violation("C20 harness default-read", fmt.Sprintf("%s: got %v err=%v", where, d, derr), nil)
				continue
			}
			if qstate == "read-then-frozen" {
				q.Freeze()
			}
			obs := []*defObs{{name: "q", m: q, frozen: qstate != "live"}, {name: "r", m: r, frozen: true}}
			history := []string{"q = mk_q() [f_msg, f_rec, c_m unset; " + qstate + "]", "r = mk_r(); freeze(r)", "d = " + srcLabel}
			owner := p0
			check := func(stage string) {
				det := map[string]any{"where": where, "stage": stage, "history": strings.Join(history, "; ")}
				// O1 on q, r, the new owner and brand-new messages
				targets := []*defObs{obs[0], obs[1], {name: "p", m: owner}}
				if fv, ferr, fp := e.call(e.thread, g["fresh"]); ferr == nil && fp == nil {
					if l, ok := fv.(*starlark.List); ok {
						for i := 0; i < l.Len(); i++ {
							if m, ok := l.Index(i).(*sproto.Message); ok {
								targets = append(targets, &defObs{name: fmt.Sprintf("fresh()[%d]", i), m: m})
							}
						}
					}
				}
				for _, t := range targets {
					n := 0
					var problem string
					pp := sl.Safe(func() { problem = e.unsetDefaults(t.m, t.name, 2, &n) })
					c.Count("default_unset_fields_checked_empty", n)
					if pp != nil {
						c.Violation("C20 panic default-of-unset-field", fmt.Sprintf("host panic reading unset fields of %s (%s): %s", t.name, where, pp.String()), det)
						continue
					}
					if problem == "" && xm != nil {
						// extension field x_m (proto2): proto.has false => proto.get_field is empty
						hv, herr, hp := e.call(e.thread, hasFn, t.m, xm)
						if herr == nil && hp == nil && hv == starlark.False {
							gv, gerr, gp := e.call(e.thread, getFn, t.m, xm)
							if w, ok := gv.(*sproto.Message); gerr == nil && gp == nil && ok {
								c.Count("default_unset_fields_checked_empty", 1)
								if !isEmptyMsg(pm(w)) {
									problem = fmt.Sprintf("proto.get_field(%s, p2.x_m) is unset but reads as %s", t.name, safeString(w))
								}
							}
						}
					}
					if problem != "" {
						c.Count("default_not_empty_observed", 1)
						c.Violation(keyDefEmpty, fmt.Sprintf("%s; %s: %s", stage, problem, strings.Join(history, "; ")), det)
					}
				}
				// O2 on the frozen observers
				for _, o := range obs {
					if !o.frozen {
						continue
					}
					after, sp := snapshot(o.m)
					c.Count("frozen_snapshot_compares", 1)
					if sp != nil {
						c.Violation("C20 panic default-of-unset-field", fmt.Sprintf("host panic printing %s (%s): %s", o.name, where, sp.String()), det)
						continue
					}
					if o.before != "" && after != o.before {
						c.Count("frozen_mutations_observed", 1)
						c.Violation(keyDefFrozen, fmt.Sprintf("frozen message %s changed (%s): before %s, after %s: %s", o.name, stage,
							driverTrunc(showSnap(o.before)), driverTrunc(showSnap(after)), strings.Join(history, "; ")), det)
					}
					o.before = after
				}
			}
			check("before the default is assigned anywhere")
			// assign it into the mutable message p
			var t starlark.Value
			var serr error
			var sp *sl.Panic
			stmt := ""
			if sink.goSet {
				fname := "f_" + src.typ
				stmt = fmt.Sprintf("p.SetField(%q, d) [Go]", fname)
				sp = sl.Safe(func() {
					if serr = p0.SetField(fname, d); serr == nil {
						t, serr = p0.Attr(fname)
					}
				})
			} else {
				stmt = stmtOf(strings.NewReplacer("{F}", F, "{S}", src.typ).Replace(sink.body))
				var res starlark.Value
				res, serr, sp = e.call(e.thread, g[sinkFn(sink.name, src.typ)], p0, d)
				if tup, ok := res.(starlark.Tuple); ok && len(tup) == 2 {
					if o, ok := tup[0].(*sproto.Message); ok {
						owner = o
					}
					t = tup[1]
				}
			}
			history = append(history, "p = mk_p(); "+stmt)
			c.Eval(1)
			c.Cover("default_sinks", sink.name+"/"+src.typ)
			c.Distinct("default-share " + where)
			if sp != nil {
				c.Violation("C20 panic default-of-unset-field", fmt.Sprintf("host panic in %s (%s): %s", stmt, where, sp.String()), map[string]any{"stack": stackTrunc(sp.Stack)})
				continue
			}
			if serr != nil {
				c.Count("default_assignments_rejected", 1)
			} else {
				c.Count("default_assignments_accepted", 1)
			}
			check("after assigning the default into p")
			if tm, ok := t.(*sproto.Message); ok && serr == nil {
				for mi, mbody := range defMuts[src.typ] {
					mstmt := strings.ReplaceAll(mbody, "{F}", F)
					n := 5000 + 10*ki + mi
					_, merr, mp := e.call(e.thread, g[fmt.Sprintf("mut_%s_%d", src.typ, mi)], tm, starlark.MakeInt(n))
					c.Eval(1)
					history = append(history, fmt.Sprintf("t = <that sub-message of p>; %s [n=%d, err=%v]", mstmt, n, merr != nil))
					if mp != nil {
						c.Violation("C20 panic default-of-unset-field", fmt.Sprintf("host panic in %s (%s): %s", mstmt, where, mp.String()), map[string]any{"stack": stackTrunc(mp.Stack)})
						continue
					}
					if merr == nil {
						c.Count("default_new_owner_mutations_ok", 1)
					} else {
						c.Count("default_new_owner_mutations_rejected", 1)
					}
					check("after " + mstmt + " through p")
				}
			}
			for _, x := range []*sproto.Message{q, r, owner} {
				if problem, _ := e.walk(x, true); problem != "" {
					c.Violation("C20 invariant default-of-unset-field", problem+" ("+where+")", nil)
				}
			}
		}
	}
}

// =============================================================================================
// (6) Values of a foreign type with the same full name.
//
// A second descriptor pool holds another revision of both files: Sub{i string=1; s int32=2} instead of
// Sub{i int32=1; s string=2}, All.f_int32/f_string with swapped types, and enum E with an extra value
// SEVEN=7. A message of the foreign Sub/All type is not "of the field's type" for any field of the
// engine's own All, so every assignment of one must fail with an error, and whatever happens every
// field must still hold values of its declared type (reflective walk: descriptor identity).

const (
	keyForeignMsg  = "C20 wrong-accept foreign-same-name-message"
	keyForeignEnum = "C20 wrong-accept foreign-same-name-enum-value"
)

func buildForeignSchema() (*schemaT, error) {
	s := &schemaT{pool: new(protoregistry.Files)}
	str, i32 := descriptorpb.FieldDescriptorProto_TYPE_STRING, descriptorpb.FieldDescriptorProto_TYPE_INT32
	for _, syn := range []string{"proto2", "proto3"} {
		fdp := buildFileProto(syn)
		for _, mt := range fdp.MessageType {
			for _, f := range mt.Field {
				switch mt.GetName() + "." + f.GetName() {
				case "Sub.i", "All.f_int32":
					f.Type = str.Enum()
				case "Sub.s", "All.f_string":
					f.Type = i32.Enum()
				}
			}
		}
		for _, et := range fdp.EnumType {
			if et.GetName() == "E" {
				et.Value = append(et.Value, &descriptorpb.EnumValueDescriptorProto{Name: proto.String("SEVEN"), Number: proto.Int32(7)})
			}
		}
		fd, err := protodesc.NewFile(fdp, s.pool)
		if err != nil {
			return nil, fmt.Errorf("foreign protodesc.NewFile(%s): %v", syn, err)
		}
		if err := s.pool.RegisterFile(fd); err != nil {
			return nil, err
		}
		fs := &fileSchema{syntax: syn, pkg: fdp.GetPackage(), path: fdp.GetName(), fd: fd,
			all: fd.Messages().ByName("All"), sub: fd.Messages().ByName("Sub"),
			enum: fd.Enums().ByName("E"), other: fd.Enums().ByName("Other")}
		if fs.all == nil || fs.sub == nil || fs.enum == nil {
			return nil, fmt.Errorf("foreign schema %s incomplete", syn)
		}
		s.files = append(s.files, fs)
	}
	return s, nil
}

type forPos struct {
	name   string
	body   string // body of def f(m, v, v0); {S} = msg | rec | enum
	ctor   bool
	only   string // "" | "msg" | "rec" | "msgrec"
	p2only bool
	whole  string // "" (v is one value) | "list" | "map" (v is a whole container)
}

var forPositions = []forPos{
	{name: "attr", body: "m.f_{S} = v"},
	{name: "kwarg", ctor: true, body: "return {F}.All(f_{S} = v)"},
	{name: "dictarg", ctor: true, body: "return {F}.All({\"f_{S}\": v})"},
	{name: "set_field", body: "proto.set_field(m, {F}.All.f_{S}, v)"},
	{name: "nested-dict", ctor: true, body: "return {F}.All(f_rec = {\"f_{S}\": v})"},
	{name: "nested-attr-dict", body: "m.f_rec = {\"f_{S}\": v}"},
	{name: "nested-attr", body: "m.f_rec.f_{S} = v"},
	{name: "element-attr", body: "m.r_rec[0].f_{S} = v"},
	{name: "mapvalue-attr", body: "m.mv_rec[\"a\"].f_{S} = v"},
	{name: "oneof-attr", only: "msg", body: "m.c_m = v"},
	{name: "oneof-kwarg", only: "msg", ctor: true, body: "return {F}.All(c_m = v)"},
	{name: "extension", only: "msg", p2only: true, body: "proto.set_field(m, p2.x_m, v)"},
	{name: "copy", only: "rec", ctor: true, body: "return {F}.All(v)"},
	{name: "list-assign", body: "m.r_{S} = [v0, v]"},
	{name: "tuple-assign", body: "m.r_{S} = (v,)"},
	{name: "list-kwarg", ctor: true, body: "return {F}.All(r_{S} = [v0, v])"},
	{name: "list-set_field", body: "proto.set_field(m, {F}.All.r_{S}, [v])"},
	{name: "list-nested-dict", ctor: true, body: "return {F}.All(f_rec = {\"r_{S}\": [v]})"},
	{name: "setindex", body: "m.r_{S}[0] = v"},
	{name: "append", body: "m.r_{S}.append(v)"},
	{name: "bound-append", body: "f = m.r_{S}.append\n    f(v)"},
	{name: "map-assign", body: "m.mv_{S} = {\"b\": v}"},
	{name: "map-kwarg", ctor: true, body: "return {F}.All(mv_{S} = {\"b\": v})"},
	{name: "map-set_field", body: "proto.set_field(m, {F}.All.mv_{S}, {\"b\": v})"},
	{name: "map-nested-dict", ctor: true, body: "return {F}.All(f_rec = {\"mv_{S}\": {\"b\": v}})"},
	{name: "setkey-new", body: "m.mv_{S}[\"b\"] = v"},
	{name: "setkey-existing", body: "m.mv_{S}[\"a\"] = v"},
	{name: "whole-list-attr", whole: "list", body: "m.r_{S} = v"},
	{name: "whole-list-kwarg", whole: "list", ctor: true, body: "return {F}.All(r_{S} = v)"},
	{name: "whole-list-set_field", whole: "list", body: "proto.set_field(m, {F}.All.r_{S}, v)"},
	{name: "whole-list-nested", whole: "list", body: "m.f_rec = {\"r_{S}\": v}"},
	{name: "whole-map-attr", whole: "map", body: "m.mv_{S} = v"},
	{name: "whole-map-kwarg", whole: "map", ctor: true, body: "return {F}.All(mv_{S} = v)"},
	{name: "whole-map-set_field", whole: "map", body: "proto.set_field(m, {F}.All.mv_{S}, v)"},
}

func forFn(name, typ string) string { return "fp_" + strings.ReplaceAll(name, "-", "_") + "_" + typ }

func (p *forPos) applies(fs *fileSchema, typ string) bool {
	if p.p2only && fs.syntax != "proto2" {
		return false
	}
	return p.only == "" || p.only == typ
}

func (e *env) foreignProgram(fs *fileSchema) starlark.StringDict {
	x := e.ext4()
	if g, ok := x.forFns[fs]; ok {
		return g
	}
	F := fileVar(fs)
	var b strings.Builder
	b.WriteString(strings.ReplaceAll(`
def base(): return {F}.All(f_int32 = 1, f_msg = {F}.Sub(i = 1), f_rec = {F}.All(f_int32 = 2), f_enum = 1, r_msg = [{F}.Sub(i = 3)], r_rec = [{F}.All(f_int32 = 4)], r_enum = [1], mv_msg = {"a": {F}.Sub(i = 5)}, mv_rec = {"a": {F}.All(f_int32 = 6)}, mv_enum = {"a": 2})
`, "{F}", F))
	for _, typ := range []string{"msg", "rec", "enum"} {
		r := strings.NewReplacer("{F}", F, "{S}", typ)
		for i := range forPositions {
			p := &forPositions[i]
			if p.applies(fs, typ) {
				fmt.Fprintf(&b, "def %s(m, v, v0):\n    %s\n", forFn(p.name, typ), r.Replace(p.body))
			}
		}
	}
	g, err, p := e.exec(e.thread, b.String(), nil)
	if err != nil || p != nil {
		e.c.Violation("C20 harness foreign-program", fmt.Sprintf("err=%v panic=%v", sl.ErrText(err), p), nil)
		g = nil
	}
	x.forFns[fs] = g
	return g
}

type forVal struct {
	label      string
	v          starlark.Value
	whole      string // "" | "list" | "map"
	mustReject bool   // false: accepting is tolerated when the content stays well-typed (foreign enum value whose number is declared here)
}

func getOr(m *sproto.Message, name string) starlark.Value {
	var v starlark.Value = starlark.None
	sl.Safe(func() {
		if x, err := m.Attr(name); err == nil && x != nil {
			v = x
		}
	})
	return v
}

func (e *env) foreignValues(fs, ffs *fileSchema, typ string) []forVal {
	F := fileVar(fs)
	fSub := e.newMsg(ffs.sub, "i", starlark.String("hello"), "s", starlark.MakeInt(7))
	fSubFrozen := e.newMsg(ffs.sub, "i", starlark.String("frozen"))
	fSubFrozen.Freeze()
	fInner := func(s string) *sproto.Message {
		return e.newMsg(ffs.all, "f_int32", starlark.String(s), "f_string", starlark.MakeInt(5))
	}
	fAll := e.newMsg(ffs.all,
		"f_int32", starlark.String("str"), "f_string", starlark.MakeInt(5),
		"f_msg", e.newMsg(ffs.sub, "i", starlark.String("in f_msg")),
		"f_rec", fInner("in f_rec"),
		"r_msg", mkList(e.newMsg(ffs.sub, "i", starlark.String("in r_msg"))),
		"r_rec", mkList(fInner("in r_rec")),
		"mv_msg", mkDict(starlark.String("k"), e.newMsg(ffs.sub, "i", starlark.String("in mv_msg"))),
		"mv_rec", mkDict(starlark.String("k"), fInner("in mv_rec")),
		"r_enum", mkList(starlark.MakeInt(1), starlark.MakeInt(7)),
		"mv_enum", mkDict(starlark.String("k"), starlark.MakeInt(7)))
	fAllFrozen := fInner("frozen")
	fAllFrozen.Freeze()
	fEmptyAll := e.newMsg(ffs.all)
	index := func(v starlark.Value, i int) starlark.Value {
		if ix, ok := v.(starlark.Indexable); ok && i < ix.Len() {
			return ix.Index(i)
		}
		return starlark.None
	}
	lookup := func(v starlark.Value, k string) starlark.Value {
		if mp, ok := v.(starlark.Mapping); ok {
			if x, found, err := mp.Get(starlark.String(k)); err == nil && found {
				return x
			}
		}
		return starlark.None
	}
	listOf := func(v starlark.Value) starlark.Value {
		var elems []starlark.Value
		if it := starlark.Iterate(v); it != nil {
			var x starlark.Value
			for it.Next(&x) {
				elems = append(elems, x)
			}
			it.Done()
		}
		return starlark.NewList(elems)
	}
	dictOf := func(v starlark.Value) starlark.Value {
		d := starlark.NewDict(2)
		if im, ok := v.(starlark.IterableMapping); ok {
			for _, kv := range im.Items() {
				d.SetKey(kv[0], kv[1])
			}
		}
		return d
	}
	pre := "foreign " + F + "'."
	var vals []forVal
	switch typ {
	case "msg":
		dec := starlark.Value(starlark.None)
		if data, err := proto.Marshal(fSub.Message()); err == nil {
			if m, err := sproto.Unmarshal(ffs.sub, data); err == nil {
				dec = m
			}
		}
		vals = []forVal{
			{label: pre + "Sub(i = \"hello\", s = 7)", v: fSub, mustReject: true},
			{label: pre + "Sub()", v: e.newMsg(ffs.sub), mustReject: true},
			{label: "frozen " + pre + "Sub(i = \"frozen\")", v: fSubFrozen, mustReject: true},
			{label: pre + "All(...).f_msg", v: getOr(fAll, "f_msg"), mustReject: true},
			{label: pre + "All().f_msg (unset)", v: getOr(fEmptyAll, "f_msg"), mustReject: true},
			{label: pre + "All(...).c_m (unset)", v: getOr(fAll, "c_m"), mustReject: true},
			{label: pre + "All(...).r_msg[0]", v: index(getOr(fAll, "r_msg"), 0), mustReject: true},
			{label: pre + "All(...).mv_msg[\"k\"]", v: lookup(getOr(fAll, "mv_msg"), "k"), mustReject: true},
			{label: "proto.unmarshal(" + pre + "Sub, data)", v: dec, mustReject: true},
			{label: pre + "All(...).r_msg (view)", v: getOr(fAll, "r_msg"), whole: "list", mustReject: true},
			{label: "list(" + pre + "All(...).r_msg)", v: listOf(getOr(fAll, "r_msg")), whole: "list", mustReject: true},
			{label: pre + "All(...).mv_msg (view)", v: getOr(fAll, "mv_msg"), whole: "map", mustReject: true},
			{label: "dict(" + pre + "All(...).mv_msg)", v: dictOf(getOr(fAll, "mv_msg")), whole: "map", mustReject: true},
		}
	case "rec":
		dec := starlark.Value(starlark.None)
		if data, err := proto.Marshal(fAll.Message()); err == nil {
			if m, err := sproto.Unmarshal(ffs.all, data); err == nil {
				dec = m
			}
		}
		vals = []forVal{
			{label: pre + "All(f_int32 = \"str\", f_string = 5, ...)", v: fAll, mustReject: true},
			{label: pre + "All()", v: fEmptyAll, mustReject: true},
			{label: "frozen " + pre + "All(f_int32 = \"frozen\")", v: fAllFrozen, mustReject: true},
			{label: pre + "All(...).f_rec", v: getOr(fAll, "f_rec"), mustReject: true},
			{label: pre + "All().f_rec (unset)", v: getOr(fEmptyAll, "f_rec"), mustReject: true},
			{label: pre + "All(...).r_rec[0]", v: index(getOr(fAll, "r_rec"), 0), mustReject: true},
			{label: pre + "All(...).mv_rec[\"k\"]", v: lookup(getOr(fAll, "mv_rec"), "k"), mustReject: true},
			{label: "proto.unmarshal(" + pre + "All, data)", v: dec, mustReject: true},
			{label: pre + "All(...).r_rec (view)", v: getOr(fAll, "r_rec"), whole: "list", mustReject: true},
			{label: "list(" + pre + "All(...).r_rec)", v: listOf(getOr(fAll, "r_rec")), whole: "list", mustReject: true},
			{label: pre + "All(...).mv_rec (view)", v: getOr(fAll, "mv_rec"), whole: "map", mustReject: true},
			{label: "dict(" + pre + "All(...).mv_rec)", v: dictOf(getOr(fAll, "mv_rec")), whole: "map", mustReject: true},
		}
	case "enum":
		ev := func(name string) starlark.Value {
			return sproto.EnumValueDescriptor{Desc: ffs.enum.Values().ByName(protoreflect.Name(name))}
		}
		vals = []forVal{
			{label: pre + "E.SEVEN (7 is not declared here)", v: ev("SEVEN"), mustReject: true},
			{label: pre + "E.ONE", v: ev("ONE")},
			{label: pre + "E.ZERO", v: ev("ZERO")},
			{label: pre + "All(r_enum = [1, 7]).r_enum (view)", v: getOr(fAll, "r_enum"), whole: "list", mustReject: true},
			{label: "list(" + pre + "All(r_enum = [1, 7]).r_enum)", v: listOf(getOr(fAll, "r_enum")), whole: "list", mustReject: true},
			{label: pre + "All(mv_enum = {\"k\": 7}).mv_enum (view)", v: getOr(fAll, "mv_enum"), whole: "map", mustReject: true},
			{label: "dict(" + pre + "All(mv_enum = {\"k\": 7}).mv_enum)", v: dictOf(getOr(fAll, "mv_enum")), whole: "map", mustReject: true},
		}
	}
	return vals
}

// Go-route positions of the foreign family.
type forGoPos struct {
	name  string
	whole string
	ctor  bool
	run   func(e *env, fs *fileSchema, typ string, m *sproto.Message, v, v0 starlark.Value) (*sproto.Message, error)
}

var forGoPositions = []forGoPos{
	{name: "go Message.SetField(f)", run: func(e *env, fs *fileSchema, typ string, m *sproto.Message, v, v0 starlark.Value) (*sproto.Message, error) {
		return nil, m.SetField("f_"+typ, v)
	}},
	{name: "go Message.SetField(r, [v0, v])", run: func(e *env, fs *fileSchema, typ string, m *sproto.Message, v, v0 starlark.Value) (*sproto.Message, error) {
		return nil, m.SetField("r_"+typ, mkList(v0, v))
	}},
	{name: "go Message.SetField(mv, {b: v})", run: func(e *env, fs *fileSchema, typ string, m *sproto.Message, v, v0 starlark.Value) (*sproto.Message, error) {
		return nil, m.SetField("mv_"+typ, mkDict(starlark.String("b"), v))
	}},
	{name: "go RepeatedField.SetIndex", run: func(e *env, fs *fileSchema, typ string, m *sproto.Message, v, v0 starlark.Value) (*sproto.Message, error) {
		x, err := m.Attr("r_" + typ)
		if err != nil {
			return nil, err
		}
		return nil, x.(starlark.HasSetIndex).SetIndex(0, v)
	}},
	{name: "go MapField.SetKey", run: func(e *env, fs *fileSchema, typ string, m *sproto.Message, v, v0 starlark.Value) (*sproto.Message, error) {
		x, err := m.Attr("mv_" + typ)
		if err != nil {
			return nil, err
		}
		return nil, x.(starlark.HasSetKey).SetKey(starlark.String("b"), v)
	}},
	{name: "go MessageDescriptor(f = v)", ctor: true, run: func(e *env, fs *fileSchema, typ string, m *sproto.Message, v, v0 starlark.Value) (*sproto.Message, error) {
		res, err := starlark.Call(e.thread, sproto.MessageDescriptor{Desc: fs.all}, nil, []starlark.Tuple{{starlark.String("f_" + typ), v}})
		r, _ := res.(*sproto.Message)
		return r, err
	}},
	{name: "go Message.SetField(r, v)", whole: "list", run: func(e *env, fs *fileSchema, typ string, m *sproto.Message, v, v0 starlark.Value) (*sproto.Message, error) {
		return nil, m.SetField("r_"+typ, v)
	}},
	{name: "go Message.SetField(mv, v)", whole: "map", run: func(e *env, fs *fileSchema, typ string, m *sproto.Message, v, v0 starlark.Value) (*sproto.Message, error) {
		return nil, m.SetField("mv_"+typ, v)
	}},
}

func (e *env) foreignTypeCase(fs *fileSchema, typ string) {
	c := e.c
	x := e.ext4()
	if x.foreign == nil {
		s, err := buildForeignSchema()
		if err != nil {
			c.Inconclusive("C20 foreign schema: %v", err)
			return
		}
		x.foreign = s
	}
	var ffs *fileSchema
	for _, f := range x.foreign.files {
		if f.syntax == fs.syntax {
			ffs = f
		}
	}
	g := e.foreignProgram(fs)
	if g == nil || ffs == nil {
		return
	}
	if ffs.all == fs.all || ffs.all.FullName() != fs.all.FullName() || ffs.sub.FullName() != fs.sub.FullName() {
		c.Violation("C20 harness foreign-schema", "the foreign pool does not define distinct descriptors of the same full names", nil)
		return
	}
	F := fileVar(fs)
	vals := e.foreignValues(fs, ffs, typ)
	var v0 starlark.Value
	judge := func(where, stmt string, fv *forVal, pos string, m, res *sproto.Message, err error, p *sl.Panic) {
		c.Eval(1)
		c.Count("foreign_type_cells", 1)
		c.Cover("foreign_type_positions", typ+"/"+pos)
		c.Distinct("foreign " + where)
		det := map[string]any{"where": where, "statement": stmt, "value": fv.label}
		if p != nil {
			c.Violation("C20 panic foreign-same-name-value", fmt.Sprintf("host panic in %s with v = %s: %s @ %s", stmt, fv.label, p.String(), p.TopFrame()), det)
			return
		}
		holder := m
		if res != nil {
			holder = res
		}
		problem, _ := e.walk(holder, true)
		if res != nil && problem == "" {
			problem, _ = e.walk(m, true)
		}
		if err != nil {
			c.Count("foreign_type_rejected", 1)
			if problem != "" {
				c.Violation("C20 invariant foreign-same-name-value", fmt.Sprintf("after the rejected %s with v = %s: %s", stmt, fv.label, problem), det)
			}
			return
		}
		c.Count("foreign_type_accepted", 1)
		if !fv.mustReject {
			if problem != "" {
				c.Violation("C20 invariant foreign-same-name-value", fmt.Sprintf("after %s with v = %s: %s", stmt, fv.label, problem), det)
			}
			return
		}
		key := keyForeignMsg
		if typ == "enum" {
			key = keyForeignEnum
		} else if pos == "copy" {
			key += " copy"
		}
		if problem == "" {
			problem = "reflective walk found no wrongly typed value"
		}
		c.Violation(key, fmt.Sprintf("%s succeeded with v = %s, a value of a different type that merely has the same full name (another descriptor pool); message is now %s; %s",
			stmt, fv.label, safeString(holder), problem), det)
	}
	for vi := range vals {
		fv := &vals[vi]
		if fv.v == nil || fv.v == starlark.None {
			c.Violation("C20 harness foreign-value", fmt.Sprintf("%s %s: could not build %s", fs.syntax, typ, fv.label), nil)
			continue
		}
		for pi := range forPositions {
			pos := &forPositions[pi]
			if !pos.applies(fs, typ) || pos.whole != fv.whole {
				continue
			}
			stmt := stmtOf(strings.NewReplacer("{F}", F, "{S}", typ).Replace(pos.body))
			where := fmt.Sprintf("%s %s %s value=%s", fs.syntax, typ, pos.name, fv.label)
			c.Note("foreign-type %s", where)
			bv, berr, bp := e.call(e.thread, g["base"])
			m, ok := bv.(*sproto.Message)
			if berr != nil || bp != nil || !ok {
				c.Violation("C20 setup construct-valid-message", fmt.Sprintf("%s base(): err=%v panic=%v", fs.syntax, berr, bp), nil)
				return
			}
			v0 = e.sample(fs, typ, 0)
			res, err, p := e.call(e.thread, g[forFn(pos.name, typ)], m, fv.v, v0)
			rm, _ := res.(*sproto.Message)
			if !pos.ctor {
				rm = nil
			}
			judge(where, stmt, fv, pos.name, m, rm, err, p)
		}
		for gi := range forGoPositions {
			gp := &forGoPositions[gi]
			if gp.whole != fv.whole {
				continue
			}
			where := fmt.Sprintf("%s %s %s value=%s", fs.syntax, typ, gp.name, fv.label)
			c.Note("foreign-type %s", where)
			bv, berr, bp := e.call(e.thread, g["base"])
			m, ok := bv.(*sproto.Message)
			if berr != nil || bp != nil || !ok {
				return
			}
			v0 = e.sample(fs, typ, 0)
			var res *sproto.Message
			var err error
			p := sl.Safe(func() { res, err = gp.run(e, fs, typ, m, fv.v, v0) })
			judge(where, gp.name, fv, gp.name, m, res, err, p)
		}
	}
}

// =============================================================================================
// (7) Bound methods of repeated/map views across a freeze.
//
// Every callable attribute that a repeated-field or map-field view offers (dir(view): today only
// RepeatedField.append) is looked up on the views of a message, of its sub-message, of an element and
// of a map value BEFORE the message is frozen, kept, and called AFTER the freeze with several
// argument shapes. Whatever the call answers, the frozen message must not change.

const (
	keyBoundBefore = "C20 frozen-mutated bound-method-captured-before-freeze"
	keyBoundAfter  = "C20 frozen-mutated bound-method-captured-after-freeze"
)

var boundFreezeModes = []string{"Message.Freeze", "module-value", "view.Freeze", "bound-method.Freeze", "module-globals"}

const boundCaptureSrc = `
def capture(m):
    out = []
    owners = [("m", m), ("m.f_rec", m.f_rec), ("m.r_rec[0]", m.r_rec[0]), ("m.mv_rec[\"k\"]", m.mv_rec["k"])]
    for oname, o in owners:
        for f in dir(o):
            if f == "descriptor" or not proto.has(o, f):
                continue
            v = getattr(o, f)
            t = type(v)
            if t.startswith("proto.repeated<") or t.startswith("proto.map<"):
                for name in dir(v):
                    out.append((oname, f, name, v, getattr(v, name)))
    return out
`

type boundCap struct {
	owner, field, method string
	view, fn             starlark.Value
}

func (b *boundCap) expr() string { return b.owner + "." + b.field + "." + b.method }

func (e *env) boundMessage(fs *fileSchema) *sproto.Message {
	m := e.richMessage(fs)
	var err error
	p := sl.Safe(func() {
		if err = m.SetField("f_rec", e.richMessage(fs)); err != nil {
			return
		}
		if err = m.SetField("r_rec", mkList(e.richMessage(fs))); err != nil {
			return
		}
		err = m.SetField("mv_rec", mkDict(starlark.String("k"), e.richMessage(fs)))
	})
	if err != nil || p != nil {
		e.c.Violation("C20 setup construct-valid-message", fmt.Sprintf("bound-method message: err=%v panic=%v", err, p), nil)
		return nil
	}
	return m
}

// captureGo looks the methods up through the Go API (HasAttrs), tolerating errors.
func (e *env) captureGo(m *sproto.Message) (caps []boundCap) {
	type ow struct {
		name string
		m    *sproto.Message
	}
	owners := []ow{{"m", m}}
	sl.Safe(func() {
		if w, ok := getOr(m, "f_rec").(*sproto.Message); ok {
			owners = append(owners, ow{"m.f_rec", w})
		}
		if ix, ok := getOr(m, "r_rec").(starlark.Indexable); ok && ix.Len() > 0 {
			if w, ok := ix.Index(0).(*sproto.Message); ok {
				owners = append(owners, ow{"m.r_rec[0]", w})
			}
		}
		if mp, ok := getOr(m, "mv_rec").(starlark.Mapping); ok {
			if x, found, err := mp.Get(starlark.String("k")); err == nil && found {
				if w, ok := x.(*sproto.Message); ok {
					owners = append(owners, ow{"m.mv_rec[\"k\"]", w})
				}
			}
		}
	})
	for _, o := range owners {
		for _, f := range o.m.AttrNames() {
			if f == "descriptor" {
				continue
			}
			var v starlark.Value
			if p := sl.Safe(func() { v, _ = o.m.Attr(f) }); p != nil || v == nil {
				continue
			}
			switch v.(type) {
			case *sproto.RepeatedField, *sproto.MapField:
			default:
				continue
			}
			ha, ok := v.(starlark.HasAttrs)
			if !ok {
				continue
			}
			for _, name := range ha.AttrNames() {
				var fn starlark.Value
				var err error
				if p := sl.Safe(func() { fn, err = ha.Attr(name) }); p != nil {
					e.c.Violation("C20 panic bound-method", fmt.Sprintf("host panic looking up %s.%s.%s: %s", o.name, f, name, p.String()), nil)
					continue
				}
				if err != nil || fn == nil {
					e.c.Count("bound_lookups_refused", 1)
					continue
				}
				caps = append(caps, boundCap{owner: o.name, field: f, method: name, view: v, fn: fn})
			}
		}
	}
	return
}

func parseCaps(v starlark.Value) (caps []boundCap) {
	l, ok := v.(*starlark.List)
	if !ok {
		return nil
	}
	for i := 0; i < l.Len(); i++ {
		t, ok := l.Index(i).(starlark.Tuple)
		if !ok || len(t) != 5 {
			continue
		}
		o, _ := starlark.AsString(t[0])
		f, _ := starlark.AsString(t[1])
		n, _ := starlark.AsString(t[2])
		caps = append(caps, boundCap{owner: o, field: f, method: n, view: t[3], fn: t[4]})
	}
	return
}

// boundArgs returns the argument tuples tried for a bound method of the view of the named field.
func (e *env) boundArgs(fs *fileSchema, field string) (valid starlark.Value, shapes []starlark.Tuple, labels []string) {
	kind := field
	if i := strings.IndexByte(field, '_'); i >= 0 {
		kind = field[i+1:]
	}
	isMapKeyField := strings.HasPrefix(field, "mk_")
	var v starlark.Value
	switch {
	case kind == "other":
		v = starlark.String("OTHER_SEVEN")
	case isMapKeyField:
		v = starlark.MakeInt(3)
	default:
		v = e.sample(fs, kind, 2)
	}
	var k starlark.Value = starlark.String("zz")
	if isMapKeyField {
		k = e.sample(fs, kind, 2)
	}
	var wrong starlark.Value = starlark.String("wrong")
	if kind == "string" || kind == "bytes" {
		wrong = starlark.MakeInt(1)
	}
	shapes = []starlark.Tuple{
		{v}, {wrong}, {}, {starlark.MakeInt(0)}, {starlark.MakeInt(0), v}, {mkList(v)}, {k, v}, {mkDict(k, v)},
	}
	labels = []string{"(v)", "(wrong-typed)", "()", "(0)", "(0, v)", "([v])", "(k, v)", "({k: v})"}
	return v, shapes, labels
}

func (e *env) boundMethodCase(fs *fileSchema, mode string) {
	c := e.c
	capFns, err, p := e.exec(e.thread, boundCaptureSrc, nil)
	if err != nil || p != nil {
		c.Violation("C20 harness bound-capture-program", fmt.Sprintf("err=%v panic=%v", sl.ErrText(err), p), nil)
		return
	}
	routes := []string{"goapi", "starlark"}
	if mode == "module-globals" {
		routes = []string{"starlark"}
	}
	c.Cover("bound_freeze_modes", mode)
	for _, route := range routes {
		where := fmt.Sprintf("%s freeze=%s capture=%s", fs.syntax, mode, route)
		c.Note("bound-method %s", where)
		m := e.boundMessage(fs)
		if m == nil {
			return
		}
		capture := func(target *sproto.Message) ([]boundCap, bool) {
			if route == "goapi" {
				return e.captureGo(target), true
			}
			res, err, p := e.call(e.thread, capFns["capture"], target)
			if p != nil {
				c.Violation("C20 panic bound-method", fmt.Sprintf("host panic capturing bound methods (%s): %s", where, p.String()), map[string]any{"stack": stackTrunc(p.Stack)})
				return nil, false
			}
			if err != nil {
				c.Count("bound_capture_programs_failed", 1)
				return nil, false
			}
			return parseCaps(res), true
		}
		var caps []boundCap
		frozenM := m
		if mode == "module-globals" {
			// a module builds its configuration message, keeps bound methods in globals and finishes:
			// all its globals are frozen now
			g, err, p := e.exec(e.newThread(), boundCaptureSrc+"m = m0\ncaps = capture(m)\n", starlark.StringDict{"m0": m})
			if p != nil {
				c.Violation("C20 panic bound-method", fmt.Sprintf("host panic capturing bound methods (%s): %s", where, p.String()), map[string]any{"stack": stackTrunc(p.Stack)})
				continue
			}
			if err != nil {
				c.Violation("C20 harness bound-capture-module", fmt.Sprintf("%s: %v", where, sl.ErrText(err)), nil)
				continue
			}
			caps = parseCaps(g["caps"])
		} else {
			var ok bool
			caps, ok = capture(m)
			if !ok {
				c.Violation("C20 harness bound-capture", fmt.Sprintf("%s: capturing on a mutable message failed", where), nil)
				continue
			}
			// warm-up on the still mutable message: shows which methods and argument shapes do mutate
			for i := range caps {
				bc := &caps[i]
				v, _, _ := e.boundArgs(fs, bc.field)
				b0, _ := snapshot(m)
				_, werr, wp := e.call(e.thread, bc.fn, v)
				b1, _ := snapshot(m)
				c.Eval(1)
				if wp != nil {
					c.Violation("C20 panic bound-method", fmt.Sprintf("host panic in %s(v) on a mutable message: %s", bc.expr(), wp.String()), map[string]any{"stack": stackTrunc(wp.Stack)})
				}
				if werr == nil && b0 != b1 {
					c.Count("bound_calls_effective_before_freeze", 1)
					c.Cover("bound_methods_effective", bc.view.Type()+"."+bc.method)
				}
			}
		}
		if len(caps) == 0 {
			c.Violation("C20 harness bound-capture", fmt.Sprintf("%s: no bound method captured", where), nil)
			continue
		}
		c.Count("bound_methods_captured_before_freeze", len(caps))
		before, _ := snapshot(frozenM)
		switch mode {
		case "Message.Freeze":
			m.Freeze()
		case "module-value":
			if !e.freezeByModule(m) {
				return
			}
		case "view.Freeze":
			caps[0].view.Freeze()
		case "bound-method.Freeze":
			caps[0].fn.Freeze()
		}
		// the freeze must have taken: a direct field assignment is refused
		if err := m.SetField("f_int32", starlark.MakeInt(77)); err == nil {
			c.Count("bound_freeze_did_not_take", 1)
			before, _ = snapshot(frozenM)
			if mode == "Message.Freeze" || mode == "module-value" || mode == "module-globals" {
				c.Violation("C20 frozen-mutated direct-attr", fmt.Sprintf("m.f_int32 = 77 succeeded on a frozen message (%s)", where), nil)
			}
			m.Freeze()
		}
		callAll := func(caps []boundCap, key, timing string) {
			for i := range caps {
				bc := &caps[i]
				_, shapes, labels := e.boundArgs(fs, bc.field)
				for ai, args := range shapes {
					th := e.thread
					th.Steps = 0
					var cerr error
					cp := sl.Safe(func() { _, cerr = starlark.Call(th, bc.fn, args, nil) })
					after, sp := snapshot(frozenM)
					c.Eval(1)
					c.Count("bound_calls_after_freeze", 1)
					c.Cover("bound_methods_called_after_freeze", bc.view.Type()+"."+bc.method)
					stmt := fmt.Sprintf("f = %s [%s]; freeze by %s; f%s", bc.expr(), timing, mode, labels[ai])
					det := map[string]any{"where": where, "statement": stmt, "args": args.String(), "before": driverTrunc(showSnap(before)), "after": driverTrunc(showSnap(after))}
					switch {
					case cp != nil:
						c.Violation("C20 panic bound-method", fmt.Sprintf("host panic in %s: %s @ %s", stmt, cp.String(), cp.TopFrame()), det)
					case sp != nil:
						c.Violation("C20 panic bound-method", fmt.Sprintf("host panic printing the message after %s: %s", stmt, sp.String()), det)
					case after != before:
						c.Count("frozen_mutations_observed", 1)
						c.Violation(key, fmt.Sprintf("frozen message changed by a bound method of a %s view (%s): %s with args %s (err=%v)", bc.view.Type(), where, stmt, driverTrunc(args.String()), cerr), det)
						before = after
					case cerr != nil:
						c.Count("bound_calls_rejected_after_freeze", 1)
					default:
						c.Count("bound_calls_noop_after_freeze", 1)
					}
					c.Count("frozen_snapshot_compares", 1)
				}
			}
		}
		callAll(caps, keyBoundBefore, "looked up before the freeze")
		// methods looked up after the freeze (the ordinary spelling m.r.append(v))
		if late, ok := capture(m); ok {
			c.Count("bound_methods_captured_after_freeze", len(late))
			callAll(late, keyBoundAfter, "looked up after the freeze")
		}
		c.Distinct("bound-method " + where)
		if problem, _ := e.walk(m, true); problem != "" {
			c.Violation("C20 invariant bound-method", problem+" ("+where+")", nil)
		}
	}
	// default (frozen, empty) views of unset fields of a live message: the bound methods must fail cleanly
	live := e.newMsg(fs.all)
	for _, bc := range e.captureGo(live) {
		v, _, _ := e.boundArgs(fs, bc.field)
		_, _, dp := e.call(e.thread, bc.fn, v)
		c.Eval(1)
		c.Count("bound_calls_on_default_views", 1)
		if dp != nil {
			c.Violation("C20 panic bound-method default-view", fmt.Sprintf("host panic in %s(v) on the view of an unset field: %s", bc.expr(), dp.String()), map[string]any{"stack": stackTrunc(dp.Stack)})
		}
	}
}
