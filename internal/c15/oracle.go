package c15

import (
	"fmt"
	"math"
	"strings"
	"unicode/utf8"

	"go.starlark.net/starlark"
	"go.starlark.net/syntax"

	"verif/internal/driver"
	"verif/internal/sl"
)

// eng holds the per-child state of the monitor.
type eng struct {
	c      *driver.Ctx
	opts   *syntax.FileOptions
	thread *starlark.Thread
	reprB  starlark.Value
	strB   starlark.Value
	seen   map[string]struct{} // local cache in front of c.Cover
	sample map[string]any      // candidate samples by section
}

func newEng(c *driver.Ctx) *eng {
	return &eng{
		c: c, opts: sl.AllOptions(), thread: &starlark.Thread{Name: "c15"},
		reprB: starlark.Universe["repr"], strB: starlark.Universe["str"],
		seen: map[string]struct{}{}, sample: map[string]any{},
	}
}

func (e *eng) cover(group, item string) {
	k := group + "\x00" + item
	if _, ok := e.seen[k]; ok {
		return
	}
	e.seen[k] = struct{}{}
	e.c.Cover(group, item)
}

// modes of the scalar checks
const (
	full     = 0 // judge, record coverage and counters
	blame    = 1 // re-judging a leaf of a failing container: no accounting, but minimise the input for the key
	minimise = 2 // inside minimisation: no accounting, no further minimisation
)

// bad is one refuting observation.
type bad struct {
	key    string
	what   string
	detail map[string]any
}

func (e *eng) report(b *bad) {
	if b == nil {
		return
	}
	e.c.Violation(b.key, b.what, b.detail)
}

// ---------------------------------------------------------------------------------------------
// running the real code

// eval evaluates src as a Starlark expression with every dialect option on.
func (e *eng) eval(src string) (v starlark.Value, err error, p *sl.Panic) {
	p = sl.Safe(func() {
		v, err = starlark.EvalOptions(e.opts, e.thread, "repr.star", src, nil)
	})
	if p != nil {
		e.thread = &starlark.Thread{Name: "c15"}
	}
	return
}

// call1 calls the built-in fn (repr or str) on v through the interpreter's call path.
func (e *eng) call1(fn, v starlark.Value) (s string, err error, p *sl.Panic) {
	p = sl.Safe(func() {
		var r starlark.Value
		r, err = starlark.Call(e.thread, fn, starlark.Tuple{v}, nil)
		if err == nil {
			rs, ok := r.(starlark.String)
			if !ok {
				err = fmt.Errorf("result of built-in is %s, not string", r.Type())
				return
			}
			s = string(rs)
		}
	})
	if p != nil {
		e.thread = &starlark.Thread{Name: "c15"}
	}
	return
}

// unquoteLiteral parses the text produced by syntax.Quote with the real scanner/parser and
// returns the literal's token and decoded value (syntax.unquote is not exported; the scanner is
// the only way in, and is also what "reads back" a printed value).
func (e *eng) unquoteLiteral(q string) (tok syntax.Token, val string, err error, p *sl.Panic) {
	p = sl.Safe(func() {
		var x syntax.Expr
		x, err = e.opts.ParseExpr("quote.star", q, 0)
		if err != nil {
			return
		}
		lit, ok := x.(*syntax.Literal)
		if !ok {
			err = fmt.Errorf("parsed as %T, not a literal", x)
			return
		}
		tok = lit.Token
		s, ok := lit.Value.(string)
		if !ok {
			err = fmt.Errorf("literal value is %T, not string", lit.Value)
			return
		}
		val = s
	})
	return
}

// ---------------------------------------------------------------------------------------------
// classification (for stable violation keys and for coverage)

func runeClass(r rune) string {
	switch {
	case r == '"' || r == '\'':
		return "quote"
	case r == '\\':
		return "backslash"
	case r >= 7 && r <= 13:
		return "ascii-control-named"
	case r < 0x20:
		return "ascii-control"
	case r == 0x7f:
		return "del"
	case r < 0x80:
		return "ascii-printable"
	case r < 0xa0:
		return "c1-control"
	case r == 0x2028 || r == 0x2029:
		return "line-separator"
	case r < 0x10000:
		if isPrint(r) {
			return "bmp-printable"
		}
		return "bmp-nonprintable"
	default:
		if isPrint(r) {
			return "astral-printable"
		}
		return "astral-nonprintable"
	}
}

func byteClass(b byte) string {
	if b >= 0x80 {
		return "high-byte"
	}
	return runeClass(rune(b))
}

// errClass reduces an error text to a stable class (no operands, no positions).
func errClass(err error) string {
	if err == nil {
		return "ok"
	}
	s := err.Error()
	// strip "file:line:col: "
	if i := strings.Index(s, ".star:"); i >= 0 {
		rest := s[i+6:]
		if j := strings.Index(rest, ": "); j >= 0 {
			s = rest[j+2:]
		}
	}
	var b strings.Builder
	for _, r := range s {
		switch {
		case r >= 'a' && r <= 'z', r >= 'A' && r <= 'Z':
			b.WriteRune(r)
		case r == ' ' || r == '-':
			b.WriteByte('-')
		case r == '\\' || r == '(' || r == ':':
			// operands follow
			return strings.Trim(trunc(b.String(), 40), "-")
		}
	}
	return strings.Trim(trunc(b.String(), 40), "-")
}

func trunc(s string, n int) string {
	if len(s) > n {
		return s[:n]
	}
	return s
}

// escapeForms records which spellings occur in a quoted literal.
func (e *eng) escapeForms(group, q string) {
	body := q
	for i := 0; i < len(body); {
		ch := body[i]
		switch {
		case ch == '\\' && i+1 < len(body):
			e.cover(group, `\`+string(body[i+1]))
			i += 2
		case ch >= utf8.RuneSelf:
			_, w := utf8.DecodeRuneInString(body[i:])
			e.cover(group, "raw-non-ascii")
			i += w
		default:
			i++
		}
	}
}

// ---------------------------------------------------------------------------------------------
// scalar laws

// strFails reports (quietly) whether the string s alone breaks one of the string laws.
func (e *eng) strFails(s string) bool {
	return e.checkString(s, minimise) != nil
}

// checkString judges one string value: str(s)==s always; for valid UTF-8 also
// Unquote(Quote(s,false))==s as a STRING token and Eval(repr(s))==s of type string.
// With quiet set no coverage is recorded (used when minimising a failing input).
func (e *eng) checkString(s string, mode int) *bad {
	quiet := mode != full
	det := func(extra map[string]any) map[string]any {
		m := map[string]any{"kind": "string", "value_go_quoted": fmt.Sprintf("%+q", s), "value_hex": fmt.Sprintf("%x", s)}
		for k, v := range extra {
			m[k] = v
		}
		return m
	}
	// str of a string is the string itself (any string).
	got, err, p := e.call1(e.strB, starlark.String(s))
	if p != nil || err != nil || got != s {
		return &bad{"C15 str-identity string", fmt.Sprintf("str(s) != s for s=%+q: got %+q err=%v panic=%v", s, got, err, p),
			det(map[string]any{"got": fmt.Sprintf("%+q", got), "err": fmt.Sprint(err), "panic": fmt.Sprint(p)})}
	}
	if !utf8.ValidString(s) {
		// Quote documents that the result "is not a legal literal" for invalid bytes, and the
		// property states the inverse law for valid UTF-8 strings only: nothing more is demanded.
		if !quiet {
			e.c.Count("strings_invalid_utf8_only_str_identity_judged", 1)
		}
		return nil
	}
	class := func() string {
		if utf8.RuneCountInString(s) == 1 {
			r, _ := utf8.DecodeRuneInString(s)
			return runeClass(r)
		}
		if mode == minimise {
			return "multi-rune"
		}
		for _, r := range s {
			if e.strFails(string(r)) {
				return runeClass(r)
			}
		}
		return "multi-rune-context"
	}

	// law 1: Quote / scanner+unquote
	q := syntax.Quote(s, false)
	tok, val, err, p := e.unquoteLiteral(q)
	if !quiet {
		e.escapeForms("string_escape_forms", q[1:len(q)-1])
		e.c.Count("law_quote_unquote_string", 1)
	}
	switch {
	case p != nil:
		return &bad{"C15 quote-roundtrip string panic " + class(), fmt.Sprintf("scanner panicked on Quote(%+q)=%s: %v", s, q, p), det(map[string]any{"quoted": q, "panic": p.String(), "stack": p.Stack})}
	case err != nil:
		return &bad{"C15 quote-roundtrip string rejected " + class() + " " + errClass(err), fmt.Sprintf("Quote(%+q,false)=%s is rejected by the scanner: %v", s, q, err), det(map[string]any{"quoted": q, "err": err.Error()})}
	case tok != syntax.STRING:
		return &bad{"C15 quote-roundtrip string wrong-token " + class(), fmt.Sprintf("Quote(%+q,false)=%s scans as %v", s, q, tok), det(map[string]any{"quoted": q, "token": tok.String()})}
	case val != s:
		return &bad{"C15 quote-roundtrip string wrong-value " + class(), fmt.Sprintf("Quote(%+q,false)=%s unquotes to %+q", s, q, val), det(map[string]any{"quoted": q, "got": fmt.Sprintf("%+q", val)})}
	}

	// law 2: Eval(repr(s))
	rs, err, p := e.call1(e.reprB, starlark.String(s))
	if p != nil || err != nil {
		return &bad{"C15 repr-fails string " + class(), fmt.Sprintf("repr(%+q) failed: err=%v panic=%v", s, err, p), det(map[string]any{"err": fmt.Sprint(err), "panic": fmt.Sprint(p)})}
	}
	v, err, p := e.eval(rs)
	if !quiet {
		e.c.Count("law_eval_repr_string", 1)
	}
	switch {
	case p != nil:
		return &bad{"C15 repr-eval string panic " + class(), fmt.Sprintf("Eval(repr(%+q)=%s) panicked: %v", s, rs, p), det(map[string]any{"repr": rs, "panic": p.String(), "stack": p.Stack})}
	case err != nil:
		return &bad{"C15 repr-eval string fails " + class() + " " + errClass(err), fmt.Sprintf("Eval(repr(%+q)=%s) failed: %v", s, rs, err), det(map[string]any{"repr": rs, "err": err.Error()})}
	}
	gs, ok := v.(starlark.String)
	if !ok {
		return &bad{"C15 repr-eval string wrong-type " + class(), fmt.Sprintf("Eval(repr(%+q)=%s) has type %s", s, rs, v.Type()), det(map[string]any{"repr": rs, "got_type": v.Type()})}
	}
	if string(gs) != s {
		return &bad{"C15 repr-eval string wrong-value " + class(), fmt.Sprintf("Eval(repr(%+q)=%s) = %+q", s, rs, string(gs)), det(map[string]any{"repr": rs, "got": fmt.Sprintf("%+q", string(gs))})}
	}
	return nil
}

func (e *eng) bytesFails(s string) bool { return e.checkBytes(s, minimise) != nil }

// checkBytes judges one bytes value: Unquote(Quote(b,true))==b as a BYTES token and
// Eval(repr(b))==b of type bytes.
func (e *eng) checkBytes(s string, mode int) *bad {
	quiet := mode != full
	det := func(extra map[string]any) map[string]any {
		m := map[string]any{"kind": "bytes", "value_go_quoted": fmt.Sprintf("%+q", s), "value_hex": fmt.Sprintf("%x", s)}
		for k, v := range extra {
			m[k] = v
		}
		return m
	}
	class := func() string {
		if len(s) == 1 {
			return byteClass(s[0])
		}
		if mode == minimise {
			return "multi-byte"
		}
		// single bytes first, then single (valid) runes
		for i := 0; i < len(s); i++ {
			if e.bytesFails(s[i : i+1]) {
				return byteClass(s[i])
			}
		}
		for i, r := range s {
			w := utf8.RuneLen(r)
			if r != utf8.RuneError && w > 1 && e.bytesFails(s[i:i+w]) {
				return "utf8-" + runeClass(r)
			}
		}
		if utf8.RuneCountInString(s) == 1 && utf8.ValidString(s) {
			r, _ := utf8.DecodeRuneInString(s)
			return "utf8-" + runeClass(r)
		}
		return "multi-byte-context"
	}
	q := syntax.Quote(s, true)
	tok, val, err, p := e.unquoteLiteral(q)
	if !quiet {
		if len(q) >= 3 {
			e.escapeForms("bytes_escape_forms", q[2:len(q)-1])
		}
		e.c.Count("law_quote_unquote_bytes", 1)
	}
	switch {
	case p != nil:
		return &bad{"C15 quote-roundtrip bytes panic " + class(), fmt.Sprintf("scanner panicked on Quote(%+q,true)=%s: %v", s, q, p), det(map[string]any{"quoted": q, "panic": p.String(), "stack": p.Stack})}
	case err != nil:
		return &bad{"C15 quote-roundtrip bytes rejected " + class() + " " + errClass(err), fmt.Sprintf("Quote(%+q,true)=%s is rejected by the scanner: %v", s, q, err), det(map[string]any{"quoted": q, "err": err.Error()})}
	case tok != syntax.BYTES:
		return &bad{"C15 quote-roundtrip bytes wrong-token " + class(), fmt.Sprintf("Quote(%+q,true)=%s scans as %v", s, q, tok), det(map[string]any{"quoted": q, "token": tok.String()})}
	case val != s:
		return &bad{"C15 quote-roundtrip bytes wrong-value " + class(), fmt.Sprintf("Quote(%+q,true)=%s unquotes to %+q", s, q, val), det(map[string]any{"quoted": q, "got": fmt.Sprintf("%+q", val)})}
	}
	rs, err, p := e.call1(e.reprB, starlark.Bytes(s))
	if p != nil || err != nil {
		return &bad{"C15 repr-fails bytes " + class(), fmt.Sprintf("repr(bytes %+q) failed: err=%v panic=%v", s, err, p), det(map[string]any{"err": fmt.Sprint(err), "panic": fmt.Sprint(p)})}
	}
	v, err, p := e.eval(rs)
	if !quiet {
		e.c.Count("law_eval_repr_bytes", 1)
	}
	switch {
	case p != nil:
		return &bad{"C15 repr-eval bytes panic " + class(), fmt.Sprintf("Eval(repr(bytes %+q)=%s) panicked: %v", s, rs, p), det(map[string]any{"repr": rs, "panic": p.String(), "stack": p.Stack})}
	case err != nil:
		return &bad{"C15 repr-eval bytes fails " + class() + " " + errClass(err), fmt.Sprintf("Eval(repr(bytes %+q)=%s) failed: %v", s, rs, err), det(map[string]any{"repr": rs, "err": err.Error()})}
	}
	gb, ok := v.(starlark.Bytes)
	if !ok {
		return &bad{"C15 repr-eval bytes wrong-type " + class(), fmt.Sprintf("Eval(repr(bytes %+q)=%s) has type %s", s, rs, v.Type()), det(map[string]any{"repr": rs, "got_type": v.Type()})}
	}
	if string(gb) != s {
		return &bad{"C15 repr-eval bytes wrong-value " + class(), fmt.Sprintf("Eval(repr(bytes %+q)=%s) = %+q", s, rs, string(gb)), det(map[string]any{"repr": rs, "got": fmt.Sprintf("%+q", string(gb))})}
	}
	return nil
}

// floatForm classifies the spelling of a float repr.
func floatForm(rs string) string {
	switch {
	case strings.ContainsAny(rs, "eE"):
		return "exponent"
	case strings.HasSuffix(rs, ".0"):
		return "fixed-integral"
	case strings.Contains(rs, "."):
		return "fixed-fraction"
	}
	return "no-point-no-exponent"
}

// checkFloat judges one finite float: Eval(repr(f)) is a float with the same bit pattern.
func (e *eng) checkFloat(f float64, mode int) *bad {
	quiet := mode != full
	bits := math.Float64bits(f)
	det := func(extra map[string]any) map[string]any {
		m := map[string]any{"kind": "float", "bits": fmt.Sprintf("%016x", bits), "go_17g": fmt.Sprintf("%.17g", f)}
		for k, v := range extra {
			m[k] = v
		}
		return m
	}
	rs, err, p := e.call1(e.reprB, starlark.Float(f))
	if p != nil || err != nil {
		return &bad{"C15 repr-fails float", fmt.Sprintf("repr(float bits %016x) failed: err=%v panic=%v", bits, err, p), det(map[string]any{"err": fmt.Sprint(err), "panic": fmt.Sprint(p)})}
	}
	form := floatForm(rs)
	if f == 0 && math.Signbit(f) {
		form = "negative-zero"
	}
	if !quiet {
		e.cover("float_repr_forms", form)
		nd := 0
		for i := 0; i < len(rs) && rs[i] != 'e'; i++ {
			if rs[i] >= '0' && rs[i] <= '9' {
				nd++
			}
		}
		if nd >= 17 {
			e.cover("float_repr_forms", "17-significant-digits")
		}
		if strings.Contains(rs, "e+") {
			e.cover("float_repr_forms", "exponent-positive")
		}
		if strings.Contains(rs, "e-") {
			e.cover("float_repr_forms", "exponent-negative")
		}
		e.c.Count("law_eval_repr_float", 1)
	}
	v, err, p := e.eval(rs)
	switch {
	case p != nil:
		return &bad{"C15 repr-eval float panic " + form, fmt.Sprintf("Eval(repr(float %016x)=%s) panicked: %v", bits, rs, p), det(map[string]any{"repr": rs, "panic": p.String(), "stack": p.Stack})}
	case err != nil:
		return &bad{"C15 repr-eval float fails " + form + " " + errClass(err), fmt.Sprintf("Eval(repr(float %016x)=%s) failed: %v", bits, rs, err), det(map[string]any{"repr": rs, "err": err.Error()})}
	}
	gf, ok := v.(starlark.Float)
	if !ok {
		return &bad{"C15 repr-eval float wrong-type " + form, fmt.Sprintf("Eval(repr(float %.17g)=%s) has type %s (value %s)", f, rs, v.Type(), v.String()), det(map[string]any{"repr": rs, "got_type": v.Type()})}
	}
	if gb := math.Float64bits(float64(gf)); gb != bits {
		return &bad{"C15 repr-eval float wrong-bits " + form, fmt.Sprintf("Eval(repr(float %.17g)=%s) = %.17g (bits %016x, want %016x)", f, rs, float64(gf), gb, bits), det(map[string]any{"repr": rs, "got_bits": fmt.Sprintf("%016x", gb)})}
	}
	return nil
}

func intSize(i starlark.Int) string {
	n := i.BigInt().BitLen()
	switch {
	case n <= 31:
		return "le-31-bits"
	case n <= 63:
		return "le-63-bits"
	case n <= 64:
		return "64-bits"
	case n <= 128:
		return "le-128-bits"
	case n <= 256:
		return "le-256-bits"
	}
	return "gt-256-bits"
}

// checkInt judges one int: Eval(repr(i)) is an int with the same mathematical value.
func (e *eng) checkInt(i starlark.Int, mode int) *bad {
	quiet := mode != full
	want := i.BigInt()
	cov := intSize(i) // fine classes for coverage
	if want.Sign() < 0 {
		cov = "negative-" + cov
	}
	size := "fits-int64" // coarse classes for violation keys
	if !want.IsInt64() {
		size = "beyond-int64"
	}
	det := func(extra map[string]any) map[string]any {
		m := map[string]any{"kind": "int", "value": want.String(), "value_hex": want.Text(16)}
		for k, v := range extra {
			m[k] = v
		}
		return m
	}
	rs, err, p := e.call1(e.reprB, i)
	if p != nil || err != nil {
		return &bad{"C15 repr-fails int", fmt.Sprintf("repr(int %s) failed: err=%v panic=%v", want, err, p), det(map[string]any{"err": fmt.Sprint(err), "panic": fmt.Sprint(p)})}
	}
	if !quiet {
		e.cover("int_sizes", cov)
		e.c.Count("law_eval_repr_int", 1)
	}
	v, err, p := e.eval(rs)
	switch {
	case p != nil:
		return &bad{"C15 repr-eval int panic " + size, fmt.Sprintf("Eval(repr(int %s)=%s) panicked: %v", want, rs, p), det(map[string]any{"repr": rs, "panic": p.String(), "stack": p.Stack})}
	case err != nil:
		return &bad{"C15 repr-eval int fails " + size + " " + errClass(err), fmt.Sprintf("Eval(repr(int %s)=%s) failed: %v", want, rs, err), det(map[string]any{"repr": rs, "err": err.Error()})}
	}
	gi, ok := v.(starlark.Int)
	if !ok {
		return &bad{"C15 repr-eval int wrong-type " + size, fmt.Sprintf("Eval(repr(int %s)=%s) has type %s", want, rs, v.Type()), det(map[string]any{"repr": rs, "got_type": v.Type()})}
	}
	if gi.BigInt().Cmp(want) != 0 {
		return &bad{"C15 repr-eval int wrong-value " + size, fmt.Sprintf("Eval(repr(int %s)=%s) = %s", want, rs, gi.BigInt()), det(map[string]any{"repr": rs, "got": gi.BigInt().String()})}
	}
	return nil
}

// checkScalar dispatches on the kind of a leaf value (used by the container oracle to blame a leaf).
func (e *eng) checkScalar(v starlark.Value) *bad {
	switch v := v.(type) {
	case starlark.String:
		return e.checkString(string(v), blame)
	case starlark.Bytes:
		return e.checkBytes(string(v), blame)
	case starlark.Float:
		return e.checkFloat(float64(v), blame)
	case starlark.Int:
		return e.checkInt(v, blame)
	case starlark.NoneType, starlark.Bool:
		return e.checkConst(v)
	}
	return nil
}

// checkConst judges None / True / False.
func (e *eng) checkConst(v starlark.Value) *bad {
	rs, err, p := e.call1(e.reprB, v)
	if p != nil || err != nil {
		return &bad{"C15 repr-fails " + v.Type(), fmt.Sprintf("repr(%v) failed: err=%v panic=%v", v, err, p), map[string]any{"kind": v.Type()}}
	}
	got, err, p := e.eval(rs)
	if p != nil || err != nil {
		return &bad{"C15 repr-eval " + v.Type() + " fails", fmt.Sprintf("Eval(%s) failed: err=%v panic=%v", rs, err, p), map[string]any{"kind": v.Type(), "repr": rs}}
	}
	if got != v {
		return &bad{"C15 repr-eval " + v.Type() + " wrong-value", fmt.Sprintf("Eval(repr(%v)=%s) = %v (%s)", v, rs, got, got.Type()), map[string]any{"kind": v.Type(), "repr": rs, "got": got.String(), "got_type": got.Type()}}
	}
	return nil
}

// ---------------------------------------------------------------------------------------------
// structural comparison: same type at every level, floats by bits, ints by value,
// dict entries matched irrespective of order (dict equality does not depend on order).

type mismatch struct {
	class string // stable
	path  string
	what  string
}

func same(a, b starlark.Value, path string) *mismatch {
	switch a := a.(type) {
	case starlark.NoneType:
		if _, ok := b.(starlark.NoneType); !ok {
			return &mismatch{"type NoneType", path, fmt.Sprintf("want None, got %s %s", b.Type(), trunc(b.String(), 80))}
		}
	case starlark.Bool:
		bb, ok := b.(starlark.Bool)
		if !ok {
			return &mismatch{"type bool", path, fmt.Sprintf("want bool %v, got %s %s", a, b.Type(), trunc(b.String(), 80))}
		}
		if a != bb {
			return &mismatch{"value bool", path, fmt.Sprintf("want %v, got %v", a, bb)}
		}
	case starlark.Int:
		bi, ok := b.(starlark.Int)
		if !ok {
			return &mismatch{"type int", path, fmt.Sprintf("want int %v, got %s %s", a, b.Type(), trunc(b.String(), 80))}
		}
		if a.BigInt().Cmp(bi.BigInt()) != 0 {
			return &mismatch{"value int", path, fmt.Sprintf("want %v, got %v", a, bi)}
		}
	case starlark.Float:
		bf, ok := b.(starlark.Float)
		if !ok {
			return &mismatch{"type float", path, fmt.Sprintf("want float %.17g, got %s %s", float64(a), b.Type(), trunc(b.String(), 80))}
		}
		if math.Float64bits(float64(a)) != math.Float64bits(float64(bf)) {
			return &mismatch{"value float", path, fmt.Sprintf("want bits %016x (%.17g), got %016x (%.17g)", math.Float64bits(float64(a)), float64(a), math.Float64bits(float64(bf)), float64(bf))}
		}
	case starlark.String:
		bs, ok := b.(starlark.String)
		if !ok {
			return &mismatch{"type string", path, fmt.Sprintf("want string %+q, got %s", string(a), b.Type())}
		}
		if a != bs {
			return &mismatch{"value string", path, fmt.Sprintf("want %+q, got %+q", string(a), string(bs))}
		}
	case starlark.Bytes:
		bs, ok := b.(starlark.Bytes)
		if !ok {
			return &mismatch{"type bytes", path, fmt.Sprintf("want bytes %+q, got %s", string(a), b.Type())}
		}
		if a != bs {
			return &mismatch{"value bytes", path, fmt.Sprintf("want b%+q, got b%+q", string(a), string(bs))}
		}
	case starlark.Tuple:
		bt, ok := b.(starlark.Tuple)
		if !ok {
			return &mismatch{fmt.Sprintf("type tuple-of-%s", lenClass(len(a))), path, fmt.Sprintf("want tuple of %d, got %s %s", len(a), b.Type(), trunc(b.String(), 80))}
		}
		if len(a) != len(bt) {
			return &mismatch{"length tuple", path, fmt.Sprintf("want %d elements, got %d", len(a), len(bt))}
		}
		for i := range a {
			if m := same(a[i], bt[i], fmt.Sprintf("%s(%d)", path, i)); m != nil {
				return m
			}
		}
	case *starlark.List:
		bl, ok := b.(*starlark.List)
		if !ok {
			return &mismatch{"type list", path, fmt.Sprintf("want list of %d, got %s %s", a.Len(), b.Type(), trunc(b.String(), 80))}
		}
		if a.Len() != bl.Len() {
			return &mismatch{"length list", path, fmt.Sprintf("want %d elements, got %d", a.Len(), bl.Len())}
		}
		for i := 0; i < a.Len(); i++ {
			if m := same(a.Index(i), bl.Index(i), fmt.Sprintf("%s[%d]", path, i)); m != nil {
				return m
			}
		}
	case *starlark.Dict:
		bd, ok := b.(*starlark.Dict)
		if !ok {
			return &mismatch{"type dict", path, fmt.Sprintf("want dict of %d, got %s %s", a.Len(), b.Type(), trunc(b.String(), 80))}
		}
		if a.Len() != bd.Len() {
			return &mismatch{"length dict", path, fmt.Sprintf("want %d entries, got %d", a.Len(), bd.Len())}
		}
		ai, bi := a.Items(), bd.Items()
		used := make([]bool, len(bi))
		for i, it := range ai {
			// fast path: same position
			j := -1
			if same(it[0], bi[i][0], "") == nil && !used[i] {
				j = i
			} else {
				for k := range bi {
					if !used[k] && same(it[0], bi[k][0], "") == nil {
						j = k
						break
					}
				}
			}
			if j < 0 {
				return &mismatch{"key dict", path, fmt.Sprintf("key %s (%s) has no identical counterpart", trunc(it[0].String(), 80), it[0].Type())}
			}
			used[j] = true
			if m := same(it[1], bi[j][1], fmt.Sprintf("%s{%d}", path, i)); m != nil {
				return m
			}
		}
	default:
		return &mismatch{"harness unknown kind", path, fmt.Sprintf("%T", a)}
	}
	return nil
}

func lenClass(n int) string {
	switch n {
	case 0:
		return "0"
	case 1:
		return "1"
	}
	return "n"
}

// leaves calls f on every scalar reachable in v (including dict keys and their elements).
func leaves(v starlark.Value, f func(starlark.Value) bool) bool {
	switch v := v.(type) {
	case starlark.Tuple:
		for _, x := range v {
			if !leaves(x, f) {
				return false
			}
		}
	case *starlark.List:
		for i := 0; i < v.Len(); i++ {
			if !leaves(v.Index(i), f) {
				return false
			}
		}
	case *starlark.Dict:
		for _, it := range v.Items() {
			if !leaves(it[0], f) || !leaves(it[1], f) {
				return false
			}
		}
	default:
		return f(v)
	}
	return true
}

// checkContainer judges an acyclic container value.
func (e *eng) checkContainer(v starlark.Value) *bad {
	rs, err, p := e.call1(e.reprB, v)
	if p != nil || err != nil {
		return &bad{"C15 repr-fails container " + v.Type(), fmt.Sprintf("repr(<%s>) failed: err=%v panic=%v", v.Type(), err, p), map[string]any{"kind": v.Type(), "err": fmt.Sprint(err), "panic": fmt.Sprint(p)}}
	}
	e.c.Count("law_eval_repr_container", 1)
	blameLeaf := func() *bad {
		var lb *bad
		leaves(v, func(x starlark.Value) bool {
			lb = e.checkScalar(x)
			return lb == nil
		})
		return lb
	}
	got, err, p := e.eval(rs)
	if p != nil || err != nil {
		if lb := blameLeaf(); lb != nil {
			lb.what += " [first seen inside a container: " + driver.Truncate(rs, 300) + "]"
			return lb
		}
		return &bad{"C15 repr-eval container fails " + v.Type() + " " + errClass(err), fmt.Sprintf("Eval(repr(<%s>)) failed: err=%v panic=%v; repr=%s", v.Type(), err, p, driver.Truncate(rs, 600)),
			map[string]any{"kind": v.Type(), "repr": rs, "err": fmt.Sprint(err), "panic": fmt.Sprint(p)}}
	}
	if m := same(v, got, "v"); m != nil {
		if lb := blameLeaf(); lb != nil {
			lb.what += " [first seen inside a container at " + m.path + "]"
			return lb
		}
		return &bad{"C15 repr-eval container " + m.class, fmt.Sprintf("Eval(repr(v)) differs from v at %s: %s; repr=%s", m.path, m.what, driver.Truncate(rs, 600)),
			map[string]any{"kind": v.Type(), "repr": rs, "path": m.path, "mismatch": m.what, "reread_repr": driver.Truncate(got.String(), 4000)}}
	}
	// "a value equal to v": the interpreter's own equality must agree as well.
	var eq bool
	var eqErr error
	if p := sl.Safe(func() { eq, eqErr = starlark.Equal(v, got) }); p != nil || eqErr != nil || !eq {
		return &bad{"C15 repr-eval container not-equal-by-starlark", fmt.Sprintf("Eval(repr(v)) is structurally identical to v but starlark.Equal says %v (err=%v panic=%v); repr=%s", eq, eqErr, p, driver.Truncate(rs, 600)),
			map[string]any{"kind": v.Type(), "repr": rs}}
	}
	return nil
}

// depthOf returns the nesting depth of v (scalars 0) and the number of nodes of its tree expansion.
func depthOf(v starlark.Value) (depth, nodes int) {
	max := 0
	n := 1
	visit := func(x starlark.Value) {
		d, k := depthOf(x)
		if d+1 > max {
			max = d + 1
		}
		n += k
	}
	switch v := v.(type) {
	case starlark.Tuple:
		max = 1
		for _, x := range v {
			visit(x)
		}
	case *starlark.List:
		max = 1
		for i := 0; i < v.Len(); i++ {
			visit(v.Index(i))
		}
	case *starlark.Dict:
		max = 1
		for _, it := range v.Items() {
			visit(it[0])
			visit(it[1])
		}
	}
	return max, n
}
