package c15

import (
	"fmt"
	"math/rand"
	"strings"
	"time"

	"go.starlark.net/starlark"

	"verif/internal/sl"
)

// cyc is one object graph with at least one reference cycle through lists/dicts
// (tuples only ever sit between them). Cycles through structs are deliberately absent:
// that stack overflow is owned by C02 (DESIGN §7 #4).
type cyc struct {
	shape string
	desc  string
	roots []starlark.Value
}

var cycleShapes = []string{"list-self", "dict-self", "list-dict", "dict-tuple-list", "tuple-in-list", "ring", "shared-cyclic", "deep-back-edge", "random-graph"}

func pad(r *rand.Rand) starlark.Value {
	switch r.Intn(4) {
	case 0:
		return starlark.MakeInt(r.Intn(100))
	case 1:
		return starlark.String(randString(r))
	case 2:
		return starlark.None
	}
	return starlark.Float(float64(r.Intn(64)) / 4)
}

func mustAppend(l *starlark.List, v starlark.Value) {
	if err := l.Append(v); err != nil {
		panic("c15 harness: " + err.Error())
	}
}

func mustSet(d *starlark.Dict, k, v starlark.Value) {
	if err := d.SetKey(k, v); err != nil {
		panic("c15 harness: " + err.Error())
	}
}

func buildCycle(r *rand.Rand, shape string) cyc {
	g := cyc{shape: shape}
	pads := func(l *starlark.List) {
		for n := r.Intn(3); n > 0; n-- {
			mustAppend(l, pad(r))
		}
	}
	dpads := func(d *starlark.Dict) {
		for n := r.Intn(3); n > 0; n-- {
			mustSet(d, starlark.String(fmt.Sprintf("p%d", r.Intn(50))), pad(r))
		}
	}
	switch shape {
	case "list-self":
		l := starlark.NewList(nil)
		pads(l)
		mustAppend(l, l)
		pads(l)
		if r.Intn(2) == 0 {
			mustAppend(l, l) // twice
		}
		g.roots = []starlark.Value{l}
		g.desc = fmt.Sprintf("l = [..]; l.append(l)  (len %d)", l.Len())
	case "dict-self":
		d := starlark.NewDict(4)
		dpads(d)
		mustSet(d, pad(r), d)
		dpads(d)
		if r.Intn(2) == 0 {
			mustSet(d, starlark.MakeInt(-1), d)
		}
		g.roots = []starlark.Value{d}
		g.desc = fmt.Sprintf("d = {..}; d[k] = d  (len %d)", d.Len())
	case "list-dict":
		l := starlark.NewList(nil)
		d := starlark.NewDict(4)
		pads(l)
		mustAppend(l, d)
		pads(l)
		dpads(d)
		mustSet(d, starlark.String("back"), l)
		dpads(d)
		g.roots = []starlark.Value{l, d}
		g.desc = "l = [.., d, ..]; d['back'] = l"
	case "dict-tuple-list":
		d := starlark.NewDict(4)
		l := starlark.NewList(nil)
		dpads(d)
		mustSet(d, starlark.MakeInt(1), starlark.Tuple{l, pad(r)})
		pads(l)
		mustAppend(l, starlark.Tuple{d})
		g.roots = []starlark.Value{d, l, starlark.Tuple{d, l}}
		g.desc = "d = {1: (l, x)}; l.append((d,))"
	case "tuple-in-list":
		l := starlark.NewList(nil)
		pads(l)
		inner := starlark.Tuple{pad(r), starlark.Tuple{l, pad(r)}}
		t := starlark.Tuple{l}
		mustAppend(l, t)
		mustAppend(l, inner)
		pads(l)
		g.roots = []starlark.Value{l, t, inner}
		g.desc = "t = (l,); l = [.., t, (x, (l, y)), ..]"
	case "ring":
		n := 2 + r.Intn(39)
		nodes := make([]starlark.Value, n)
		var kinds strings.Builder
		for i := range nodes {
			if r.Intn(2) == 0 {
				nodes[i] = starlark.NewList(nil)
				kinds.WriteByte('L')
			} else {
				nodes[i] = starlark.NewDict(2)
				kinds.WriteByte('D')
			}
		}
		for i := range nodes {
			next := nodes[(i+1)%n]
			if r.Intn(3) == 0 {
				next = starlark.Tuple{next}
				kinds.WriteByte('t')
			}
			switch x := nodes[i].(type) {
			case *starlark.List:
				pads(x)
				mustAppend(x, next)
			case *starlark.Dict:
				dpads(x)
				mustSet(x, starlark.MakeInt(i), next)
			}
		}
		g.roots = []starlark.Value{nodes[0], nodes[r.Intn(n)]}
		g.desc = fmt.Sprintf("ring of %d nodes %s", n, kinds.String())
	case "shared-cyclic":
		l := starlark.NewList(nil)
		x := starlark.NewList([]starlark.Value{l})
		d := starlark.NewDict(2)
		mustSet(d, starlark.String("x"), x)
		mustSet(d, starlark.String("l"), l)
		mustAppend(l, x)
		mustAppend(l, x)
		mustAppend(l, d)
		mustAppend(l, l)
		g.roots = []starlark.Value{l, x, d}
		g.desc = "x = [l]; d = {'x': x, 'l': l}; l = [x, x, d, l]"
	case "deep-back-edge":
		depth := 2 + r.Intn(5)
		chain := make([]starlark.Value, depth)
		for i := range chain {
			if r.Intn(2) == 0 {
				chain[i] = starlark.NewList(nil)
			} else {
				chain[i] = starlark.NewDict(2)
			}
		}
		link := func(from, to starlark.Value) {
			if r.Intn(3) == 0 {
				to = starlark.Tuple{pad(r), to}
			}
			switch x := from.(type) {
			case *starlark.List:
				pads(x)
				mustAppend(x, to)
			case *starlark.Dict:
				mustSet(x, starlark.String(fmt.Sprintf("k%d", x.Len())), to)
			}
		}
		for i := 0; i+1 < depth; i++ {
			link(chain[i], chain[i+1])
		}
		back := r.Intn(depth)
		link(chain[depth-1], chain[back])
		g.roots = []starlark.Value{chain[0], chain[depth-1]}
		g.desc = fmt.Sprintf("chain of %d containers, last refers back to #%d", depth, back)
	default: // random-graph
		n := 2 + r.Intn(5)
		nodes := make([]starlark.Value, n)
		for i := range nodes {
			if r.Intn(2) == 0 {
				nodes[i] = starlark.NewList(nil)
			} else {
				nodes[i] = starlark.NewDict(2)
			}
		}
		edges := 0
		for i := range nodes {
			deg := 1 + r.Intn(3)
			for e := 0; e < deg; e++ {
				var to starlark.Value = nodes[r.Intn(n)]
				if r.Intn(4) == 0 {
					to = starlark.Tuple{to}
				}
				switch x := nodes[i].(type) {
				case *starlark.List:
					mustAppend(x, to)
				case *starlark.Dict:
					mustSet(x, starlark.MakeInt(e), to)
				}
				edges++
			}
		}
		// guarantee a cycle: close 0 -> ... -> 0
		switch x := nodes[n-1].(type) {
		case *starlark.List:
			mustAppend(x, nodes[0])
		case *starlark.Dict:
			mustSet(x, starlark.String("back"), nodes[0])
		}
		switch x := nodes[0].(type) {
		case *starlark.List:
			mustAppend(x, nodes[n-1])
		case *starlark.Dict:
			mustSet(x, starlark.String("fwd"), nodes[n-1])
		}
		g.roots = []starlark.Value{nodes[0], nodes[n-1], nodes[r.Intn(n)]}
		g.desc = fmt.Sprintf("random graph of %d list/dict nodes, %d random edges, plus 0<->%d", n, edges, n-1)
	}
	return g
}

type cycleResult struct {
	texts []string
	err   error
	p     *sl.Panic
}

// printCycle runs str and repr (through the built-ins) and String() on every root of g in a
// separate goroutine. It returns false if the wall-clock watchdog fired (=> inconclusive; the
// caller must stop, the goroutine may still be running). A stack overflow is a Go fatal error:
// it kills the child and the driver reports it against the key written with Note.
func (e *eng) printCycle(g cyc, timeout time.Duration, state string) (ok bool, texts []string) {
	c := e.c
	skey := g.shape
	if state != "mutable" {
		skey = g.shape + " " + state
	}
	c.Note("key=C15 cycle-print fatal %s\nstr/repr of cyclic value (%s), shape %s: %s", skey, state, g.shape, g.desc)
	done := make(chan cycleResult, 1)
	go func() {
		var out cycleResult
		th := &starlark.Thread{Name: "c15-cycle"}
		out.p = sl.Safe(func() {
			for _, root := range g.roots {
				for _, fn := range []starlark.Value{e.strB, e.reprB} {
					r, err := starlark.Call(th, fn, starlark.Tuple{root}, nil)
					if err != nil {
						out.err = err
						return
					}
					s, isStr := r.(starlark.String)
					if !isStr {
						out.err = fmt.Errorf("built-in returned %s", r.Type())
						return
					}
					out.texts = append(out.texts, string(s))
				}
				out.texts = append(out.texts, root.String())
			}
		})
		done <- out
	}()
	var res cycleResult
	select {
	case res = <-done:
	case <-time.After(timeout):
		c.Inconclusive("str/repr of a cyclic value (%s, shape %s: %s) did not return within %v", state, g.shape, g.desc, timeout)
		return false, nil
	}
	c.Eval(1)
	c.Count("cyclic_graphs_printed", 1)
	c.Count("cyclic_print_calls_returned", len(res.texts))
	e.cover("cycle_shapes", g.shape)
	e.cover("cycle_states", state)
	switch {
	case res.p != nil:
		c.Violation("C15 cycle-print panic "+skey, fmt.Sprintf("str/repr of a cyclic value panicked (%s): %v", g.desc, res.p),
			map[string]any{"shape": g.shape, "desc": g.desc, "panic": res.p.String(), "stack": res.p.Stack})
	case res.err != nil:
		c.Violation("C15 cycle-print error "+skey, fmt.Sprintf("str/repr of a cyclic value failed (%s): %v", g.desc, res.err),
			map[string]any{"shape": g.shape, "desc": g.desc, "err": res.err.Error()})
	default:
		total := 0
		for _, t := range res.texts {
			total += len(t)
			if strings.Contains(t, "[...]") {
				c.Count("cyclic_prints_with_list_marker", 1)
				e.cover("cycle_markers", "[...]")
			}
			if strings.Contains(t, "{...}") {
				c.Count("cyclic_prints_with_dict_marker", 1)
				e.cover("cycle_markers", "{...}")
			}
		}
		c.Count("cyclic_print_bytes", total)
		c.Distinct("cycle\x00" + g.shape + "\x00" + strings.Join(res.texts, "\x00"))
		if _, have := e.sample["cycle"]; !have {
			e.sample["cycle"] = map[string]any{"kind": "cyclic " + g.shape, "built_as": g.desc, "repr_returned": trunc(res.texts[1], 200), "terminated": true}
		}
		return true, res.texts
	}
	return true, nil
}
