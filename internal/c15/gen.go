package c15

import (
	"math"
	"math/big"
	"math/rand"
	"strconv"
	"strings"
	"unicode"
	"unicode/utf8"

	"go.starlark.net/starlark"
)

func isPrint(r rune) bool { return unicode.IsPrint(r) }

// ---------------------------------------------------------------------------------------------
// strings

// hostile runes: the classes the property's quantifier names, plus neighbours that tend to
// confuse escape writers/readers (digits and hex letters right after an escape, both quotes,
// CR/LF, triple quotes, non-characters, BOM, soft hyphen, combining marks, private use).
var hostileRunes = []rune{
	0, 1, 7, 8, 9, 10, 11, 12, 13, 0x1b, 0x1f, ' ', '"', '\'', '\\', '/', '%', '{', '}', '#', '$',
	'0', '1', '7', '8', '9', 'a', 'b', 'f', 'n', 'r', 't', 'v', 'x', 'u', 'U', 'N', 'A', 'F',
	0x7e, 0x7f, 0x80, 0x85, 0x9f, 0xa0, 0xa1, 0xad, 0xff, 0x100, 0x17f, 0x300, 0x301, 0x378, 0x3a9,
	0x600, 0x61c, 0x7ff, 0x800, 0x180e, 0x2000, 0x200b, 0x200d, 0x200e, 0x2028, 0x2029, 0x202e, 0x2060,
	0x20ac, 0x3000, 0x4e16, 0xd7ff, 0xe000, 0xf8ff, 0xfdd0, 0xfeff, 0xfff9, 0xfffc, 0xfffd, 0xfffe, 0xffff,
	0x10000, 0x1f600, 0x1f468, 0x1d11e, 0x1fffe, 0x1ffff, 0x2fa1d, 0xe0001, 0xe0100, 0xf0000, 0x10fffd, 0x10fffe, 0x10ffff,
}

func randRune(r *rand.Rand) rune {
	for {
		var x rune
		switch r.Intn(10) {
		case 0, 1, 2, 3:
			x = hostileRunes[r.Intn(len(hostileRunes))]
		case 4:
			x = rune(r.Intn(0x80))
		case 5:
			x = rune(r.Intn(0x800))
		case 6, 7:
			x = rune(r.Intn(0x10000))
		default:
			x = rune(r.Intn(0x110000))
		}
		if x >= 0xd800 && x < 0xe000 {
			continue
		}
		return x
	}
}

var hostileChunks = []string{`"""`, `'''`, "\r\n", `\n`, `\x41`, `A`, `\\`, `\"`, `b"`, `r"`, "\\\n", "${", "%s", "\x00" + "1", "\x7f" + "f", " " + "8"}

// randString returns a valid UTF-8 string of 0..30 runes.
func randString(r *rand.Rand) string {
	n := r.Intn(31)
	if r.Intn(20) == 0 {
		n = 0
	}
	var b strings.Builder
	for i := 0; i < n; i++ {
		if r.Intn(12) == 0 {
			b.WriteString(hostileChunks[r.Intn(len(hostileChunks))])
			continue
		}
		b.WriteRune(randRune(r))
	}
	return b.String()
}

// randBytes returns an arbitrary byte string of 0..40 bytes: a mix of raw bytes (mostly invalid
// UTF-8), truncated/overlong/surrogate encodings and valid runes.
func randBytes(r *rand.Rand) string {
	n := r.Intn(24)
	var b []byte
	for i := 0; i < n; i++ {
		switch r.Intn(8) {
		case 0, 1:
			b = append(b, byte(r.Intn(256)))
		case 2:
			b = append(b, byte(0x80+r.Intn(0x80)))
		case 3:
			b = utf8.AppendRune(b, randRune(r))
		case 4: // truncated multi-byte sequence
			enc := utf8.AppendRune(nil, randRune(r))
			b = append(b, enc[:1+r.Intn(len(enc))]...)
		case 5: // surrogate / overlong / out of range encodings
			bad := [][]byte{{0xed, 0xa0, 0x80}, {0xed, 0xbf, 0xbf}, {0xc0, 0x80}, {0xc1, 0xbf}, {0xe0, 0x80, 0x80}, {0xf0, 0x80, 0x80, 0x80}, {0xf4, 0x90, 0x80, 0x80}, {0xf8, 0x88, 0x80, 0x80, 0x80}, {0xfe}, {0xff}}
			b = append(b, bad[r.Intn(len(bad))]...)
		default:
			b = append(b, byte(hostileRunes[r.Intn(40)]))
		}
	}
	return string(b)
}

// ---------------------------------------------------------------------------------------------
// ints

func randInt(r *rand.Rand) *big.Int {
	bits := 1 + r.Intn(300)
	switch r.Intn(6) {
	case 0:
		bits = 1 + r.Intn(70)
	case 1:
		bits = 60 + r.Intn(10)
	}
	x := new(big.Int).Rand(r, new(big.Int).Lsh(big.NewInt(1), uint(bits)))
	switch r.Intn(8) {
	case 0: // 10^k + d
		x.Exp(big.NewInt(10), big.NewInt(int64(r.Intn(91))), nil)
		x.Add(x, big.NewInt(int64(r.Intn(7)-3)))
	case 1: // all ones / sparse
		x.Lsh(big.NewInt(1), uint(bits))
		x.Sub(x, big.NewInt(1))
	}
	if r.Intn(2) == 0 {
		x.Neg(x)
	}
	return x
}

// ---------------------------------------------------------------------------------------------
// floats

func finite(f float64) bool { return !math.IsNaN(f) && !math.IsInf(f, 0) }

func randFiniteBits(r *rand.Rand) float64 {
	for {
		f := math.Float64frombits(r.Uint64())
		if finite(f) {
			return f
		}
	}
}

func randSubnormal(r *rand.Rand) float64 {
	m := r.Uint64() & (1<<52 - 1)
	switch r.Intn(6) {
	case 0:
		m &= 1<<uint(1+r.Intn(52)) - 1 // few low bits
	case 1:
		m = 1 << uint(r.Intn(52))
	}
	if m == 0 {
		m = 1
	}
	f := math.Float64frombits(m)
	if r.Intn(2) == 0 {
		f = -f
	}
	return f
}

// neighbours appends f and its k nearest neighbours on each side (finite ones).
func neighbours(out []float64, f float64, k int) []float64 {
	out = append(out, f)
	up, down := f, f
	for i := 0; i < k; i++ {
		up = math.Nextafter(up, math.Inf(1))
		down = math.Nextafter(down, math.Inf(-1))
		if finite(up) {
			out = append(out, up)
		}
		if finite(down) {
			out = append(out, down)
		}
	}
	return out
}

// tieChain: a float that has a short decimal spelling (k significant digits) and the chain of
// its neighbours; neighbours of short decimals are where shortest-digit printers and
// readers disagree if either is off by an ulp.
func tieChain(r *rand.Rand, out []float64) []float64 {
	f := randFiniteBits(r)
	if r.Intn(3) == 0 { // keep magnitudes in the range people print
		f = math.Ldexp(r.Float64()+0.5, r.Intn(140)-70)
	}
	k := 1 + r.Intn(17)
	s := strconv.FormatFloat(f, 'e', k-1, 64)
	g, err := strconv.ParseFloat(s, 64)
	if err != nil || !finite(g) {
		g = f
	}
	return neighbours(out, g, 3)
}

// randIntegral returns a float with an integer value (the ".0"/exponent decision).
func randIntegral(r *rand.Rand) float64 {
	var f float64
	switch r.Intn(6) {
	case 0:
		f = float64(r.Intn(2_000_000))
	case 1:
		f = float64(r.Int63n(1 << 53))
	case 2:
		f = math.Ldexp(float64(r.Int63n(1<<53)), r.Intn(60))
	case 3: // 10^k + d, k in 0..22 exactly representable region and beyond
		p := math.Pow(10, float64(r.Intn(24)))
		f = p + float64(r.Intn(7)-3)
	case 4: // d * 10^k
		f = float64(1+r.Intn(999)) * math.Pow(10, float64(r.Intn(300)))
	default:
		f = math.Trunc(math.Ldexp(r.Float64(), r.Intn(80)))
	}
	if !finite(f) {
		f = 1e22
	}
	if r.Intn(2) == 0 {
		f = -f
	}
	return f
}

// enumeratedFloats: all powers of two (with neighbours), all powers of ten (with neighbours),
// the extreme values, small integers, and the 1e-5..1e22 boundaries where the spelling changes.
func enumeratedFloats() []float64 {
	var out []float64
	for e := -1074; e <= 1023; e++ {
		p := math.Ldexp(1, e)
		out = neighbours(out, p, 1)
		out = neighbours(out, -p, 1)
	}
	for e := -324; e <= 308; e++ {
		p, err := strconv.ParseFloat("1e"+strconv.Itoa(e), 64)
		if err != nil && !finite(p) {
			continue
		}
		out = neighbours(out, p, 2)
		out = neighbours(out, -p, 2)
		for _, d := range []string{"5e", "9.999999999999999e", "1.5e", "2.5e", "1.0000000000000002e"} {
			if q, err := strconv.ParseFloat(d+strconv.Itoa(e), 64); err == nil && finite(q) {
				out = append(out, q, -q)
			}
		}
	}
	for _, f := range []float64{0, math.Copysign(0, -1), math.MaxFloat64, -math.MaxFloat64, math.SmallestNonzeroFloat64, -math.SmallestNonzeroFloat64,
		math.Float64frombits(0x000fffffffffffff), math.Float64frombits(0x0010000000000000), 0.1, 0.2, 0.3, 1.0 / 3, 2.0 / 3, math.Pi, math.E,
		9007199254740992, 9007199254740993, 9007199254740994, 4503599627370496.5, 123456789, 1234567, 999999, 999999.5, 1000000, 100000, 0.0001, 0.00001, 0.00009999999999999999,
		5e-324, 2.2250738585072014e-308, 2.2250738585072011e-308, 1.7976931348623157e308, 8.41e21, 8.5e21, 9.5e21, 2e22, 1e23, 4.35e24} {
		out = neighbours(out, f, 2)
	}
	for i := 0; i <= 4096; i++ {
		out = append(out, float64(i), -float64(i), float64(i)+0.5, float64(i)/1024)
	}
	// integer-valued floats around every power of ten up to 1e23 (exact integers up to 2^53, then spaced)
	for k := 0; k <= 23; k++ {
		p := math.Pow(10, float64(k))
		for d := -3; d <= 3; d++ {
			out = append(out, p+float64(d), -(p + float64(d)))
		}
	}
	var fin []float64
	for _, f := range out {
		if finite(f) {
			fin = append(fin, f)
		}
	}
	return fin
}

// ---------------------------------------------------------------------------------------------
// containers

type pooled struct {
	v     starlark.Value
	depth int
	nodes int
}

type cgen struct {
	r    *rand.Rand
	pool []pooled // completed sub-values, reusable (sharing)
	feat map[string]bool
}

func (g *cgen) scalar() starlark.Value {
	r := g.r
	switch r.Intn(12) {
	case 0:
		return starlark.None
	case 1:
		return starlark.Bool(r.Intn(2) == 0)
	case 2, 3:
		if r.Intn(3) == 0 {
			return starlark.MakeBigInt(randInt(r))
		}
		return starlark.MakeInt(r.Intn(200) - 100)
	case 4, 5:
		switch r.Intn(4) {
		case 0:
			return starlark.Float(randFiniteBits(r))
		case 1:
			return starlark.Float(randIntegral(r))
		case 2:
			return starlark.Float(math.Copysign(0, -1))
		}
		return starlark.Float(float64(r.Intn(2000)-1000) / 8)
	case 6, 7, 8:
		s := randString(r)
		if len(s) > 24 {
			s = strings.ToValidUTF8(s[:24], "")
		}
		return starlark.String(s)
	case 9, 10:
		b := randBytes(r)
		if len(b) > 12 {
			b = b[:12]
		}
		return starlark.Bytes(b)
	}
	return starlark.MakeInt(r.Intn(10))
}

// key returns a hashable value of nesting depth <= maxDepth.
func (g *cgen) key(maxDepth int) starlark.Value {
	r := g.r
	if maxDepth >= 1 && r.Intn(5) == 0 {
		n := r.Intn(4)
		t := make(starlark.Tuple, n)
		for i := range t {
			if maxDepth >= 2 && r.Intn(4) == 0 {
				t[i] = g.key(maxDepth - 1)
			} else {
				t[i] = g.scalar()
			}
		}
		g.feat["dict-key-tuple"] = true
		return t
	}
	k := g.scalar()
	g.feat["dict-key-"+k.Type()] = true
	return k
}

// gen returns a value of nesting depth <= d; if force, of depth exactly d (d >= 1).
// budget bounds the size of the tree expansion.
func (g *cgen) gen(d int, force bool, budget int) (starlark.Value, int, int) {
	r := g.r
	if d == 0 || (!force && (budget < 2 || r.Intn(4) == 0)) {
		return g.scalar(), 0, 1
	}
	// share an already built sub-value
	if !force && len(g.pool) > 0 && r.Intn(3) == 0 {
		for try := 0; try < 4; try++ {
			p := g.pool[r.Intn(len(g.pool))]
			if p.depth <= d && p.nodes <= budget {
				g.feat["shared-"+p.v.Type()] = true
				return p.v, p.depth, p.nodes
			}
		}
	}
	n := r.Intn(4) // 0..3 children
	if force && d > 1 && n == 0 {
		n = 1
	}
	if force && d == 1 && r.Intn(3) == 0 {
		n = 0 // an empty container has depth 1
	}
	kind := r.Intn(3)
	spine := -1
	if force && d > 1 {
		spine = r.Intn(n)
	}
	maxd, nodes := 1, 1
	child := func(i int) starlark.Value {
		b := (budget - 1) / (n + 1)
		var v starlark.Value
		var cd, cn int
		if i == spine {
			v, cd, cn = g.gen(d-1, true, budget-1-(n-1)*b)
		} else {
			v, cd, cn = g.gen(r.Intn(d), false, b)
		}
		if cd+1 > maxd {
			maxd = cd + 1
		}
		nodes += cn
		return v
	}
	var out starlark.Value
	switch kind {
	case 0:
		elems := make([]starlark.Value, n)
		for i := range elems {
			elems[i] = child(i)
		}
		// the same object twice in one list
		if n >= 2 && r.Intn(5) == 0 {
			elems[0] = elems[n-1]
			g.feat["same-object-twice"] = true
			maxd, nodes = 1, 1
			for _, x := range elems {
				cd, cn := depthOf(x)
				if cd+1 > maxd {
					maxd = cd + 1
				}
				nodes += cn
			}
			if force && maxd < d { // lost the spine: put it back
				elems[0], _, _ = g.gen(d-1, true, 8)
				maxd = d
				_, cn := depthOf(elems[0])
				nodes += cn
			}
		}
		out = starlark.NewList(elems)
		g.feat["list-of-"+lenClass(n)] = true
	case 1:
		t := make(starlark.Tuple, n)
		for i := range t {
			t[i] = child(i)
		}
		out = t
		g.feat["tuple-of-"+lenClass(n)] = true
	default:
		dd := starlark.NewDict(n)
		for i := 0; i < n; i++ {
			v := child(i)
			k := g.key(d - 1)
			kd, kn := depthOf(k)
			if kd+1 > maxd {
				maxd = kd + 1
			}
			nodes += kn
			if err := dd.SetKey(k, v); err != nil {
				// cannot happen: keys are built from hashable kinds only
				panic("c15 harness: unhashable generated key: " + err.Error())
			}
		}
		out = dd
		g.feat["dict-of-"+lenClass(dd.Len())] = true
		// keys may have collapsed (equal keys): recompute the real shape
		maxd, nodes = depthOf(out)
		if force && maxd < d {
			// extremely rare (spine overwritten by an equal key): wrap to restore depth
			return g.gen(d, true, budget)
		}
	}
	g.pool = append(g.pool, pooled{out, maxd, nodes})
	return out, maxd, nodes
}
