// Package c15 monitors property C15 "Printed values read back as the same values":
// for values built from None, bools, ints, finite floats, strings, bytes, lists, tuples and dicts,
// Eval(repr(v)) is a value of the same type (at every level) equal to v (floats by bit pattern);
// str(s) is s for strings; syntax.Quote followed by the scanner's unquote is the identity on valid
// UTF-8 strings and on all byte strings; str/repr of cyclic lists/dicts terminate.
package c15

import (
	"fmt"
	"math"
	"math/big"
	"runtime/debug"
	"sort"
	"strings"
	"time"
	"unicode/utf8"

	"go.starlark.net/starlark"
	"go.starlark.net/syntax"

	"verif/internal/driver"
)

func init() {
	driver.Register(&driver.Engine{
		ID: "C15", Level: "exploration",
		Rule: "Enumerated: every Unicode scalar value (thorough: all 1 112 064; quick: all below U+3000 plus every 16th of the rest, offset by seed) as a one-rune string, " +
			"embedded between hex-digit letters and between octal digits, and as the bytes of its UTF-8 encoding; all 256 single bytes; all 65 536 byte pairs (quick: 4 096 sampled); " +
			"all powers of two and ten as floats with their neighbours, ints 2^k+d for k<=300. Random (PRNG from seed and case index): strings and byte strings of hostile classes, " +
			"ints up to 2^300, finite float bit patterns, subnormals, integer-valued floats, neighbour chains of short decimals, list/tuple/dict values nested to depth 6 with shared sub-objects, " +
			"cyclic list/dict/tuple graphs of 9 shapes. One evaluation = one value judged by all laws that apply to its kind. A value counts as distinct by (kind, repr text); " +
			"the embedded and bytes forms derived from a code point are not counted as distinct. exhaustive=true refers only to the code-point and byte-pair sub-spaces in the thorough tier.",
		Assumptions: []string{
			"Go runtime, strconv/math/big/unicode used by the oracle to build and compare values",
			"the parser entry point FileOptions.ParseExpr is used to reach the unexported syntax.unquote (Quote's inverse)",
			"the structural comparison in the monitor (types at every level, floats by bits, dict entries irrespective of order)",
			"wall-clock watchdog of 120 s per cyclic print decides only inconclusive, never held/violated",
		},
		Run:         run,
		MinDistinct: 1000,
		Finish:      finish,
	})
}

var needEscapes = []string{`\a`, `\b`, `\f`, `\n`, `\r`, `\t`, `\v`, `\\`, `\"`, `\x`, `\u`, `\U`, "raw-non-ascii"}

func finish(ev map[string]any) (string, bool) {
	cover, _ := ev["cover"].(map[string]map[string]struct{})
	counters, _ := ev["counters"].(map[string]int64)
	var missing []string
	need := func(group string, items ...string) {
		for _, it := range items {
			if _, ok := cover[group][it]; !ok {
				missing = append(missing, group+":"+it)
			}
		}
	}
	need("string_escape_forms", needEscapes...)
	need("bytes_escape_forms", needEscapes...)
	need("float_repr_forms", "exponent", "fixed-integral", "fixed-fraction", "negative-zero", "17-significant-digits", "exponent-positive", "exponent-negative", "subnormal")
	need("int_sizes", "le-31-bits", "le-63-bits", "le-128-bits", "gt-256-bits", "negative-gt-256-bits")
	need("container_depth", "1", "2", "3", "4", "5", "6")
	need("container_features", "tuple-of-0", "tuple-of-1", "list-of-0", "dict-of-0", "same-object-twice", "shared-list", "shared-dict", "shared-tuple", "dict-key-tuple", "dict-key-float", "dict-key-bytes")
	need("cycle_shapes", cycleShapes...)
	need("cycle_markers", "[...]", "{...}")
	need("cycle_states", "mutable", "frozen")
	need("kinds", "NoneType", "bool", "int", "float", "string", "bytes", "list", "tuple", "dict")
	if counters["cyclic_graphs_printed"] == 0 {
		missing = append(missing, "no cyclic value was printed")
	}
	if len(missing) > 0 {
		return "monitor did not observe: " + strings.Join(missing, ", "), true
	}
	return "", false
}

const cycleTimeout = 120 * time.Second

func run(c *driver.Ctx) {
	// A runaway recursion in the printer should die quickly and cheaply (growing a Go stack to the default 1 GB limit
	// takes a long time); the legitimate recursion depth of every case here is a few hundred frames (< 100 KB of stack).
	debug.SetMaxStack(8 << 20)
	e := newEng(c)
	defer e.emitSamples()

	e.sectionConsts()
	e.sectionCodePoints()
	e.sectionBytePairs()
	e.sectionRandomStrings()
	e.sectionInts()
	e.sectionFloats()
	e.sectionContainers()
	e.sectionCycles() // last: a fired watchdog leaves a goroutine behind and ends the shard
}

// emitSamples hands the per-section samples to the driver, rotated by shard so that the merged
// evidence shows different kinds.
func (e *eng) emitSamples() {
	names := make([]string, 0, len(e.sample))
	for n := range e.sample {
		names = append(names, n)
	}
	sort.Strings(names)
	if len(names) == 0 {
		return
	}
	off := e.c.Shard % len(names)
	for i := range names {
		n := names[(i+off)%len(names)]
		if e.c.WantSample() {
			e.c.Sample(e.sample[n])
		}
	}
}

func (e *eng) keepSample(section string, f func() map[string]any) {
	if _, have := e.sample[section]; !have {
		e.sample[section] = f()
	}
}

// ---------------------------------------------------------------------------------------------

func (e *eng) sectionConsts() {
	c := e.c
	if !c.Take() {
		return
	}
	for _, v := range []starlark.Value{starlark.None, starlark.True, starlark.False} {
		c.Note("repr/eval of %v", v)
		e.report(e.checkConst(v))
		e.cover("kinds", v.Type())
		c.Eval(1)
		c.Count("values_const", 1)
	}
}

// judgeStr judges one string value and does the accounting shared by all string sections.
func (e *eng) judgeStr(s string, distinct bool) {
	c := e.c
	b := e.checkString(s, full)
	e.report(b)
	c.Eval(1)
	c.Count("values_string", 1)
	e.cover("kinds", "string")
	if distinct {
		c.Distinct("s\x00" + s)
	}
}

func (e *eng) judgeBytes(s string, distinct bool) {
	c := e.c
	e.report(e.checkBytes(s, full))
	c.Eval(1)
	c.Count("values_bytes", 1)
	e.cover("kinds", "bytes")
	if distinct {
		c.Distinct("b\x00" + s)
	}
}

func (e *eng) sectionCodePoints() {
	c := e.c
	off := rune(c.GlobalRand("codepoint-stride").Intn(16))
	for base := rune(0); base < 0x110000; {
		span := rune(256)
		if !c.Thorough() && base >= 0x3000 {
			span = 4096
		}
		lo, hi := base, base+span
		base = hi
		if lo >= 0xd800 && hi <= 0xe000 {
			continue // surrogates only (same decision in every shard)
		}
		if !c.Take() {
			continue
		}
		c.Note("code points U+%04X..U+%04X as one-rune strings, embedded strings and UTF-8 bytes", lo, hi-1)
		n := 0
		for r := lo; r < hi; r++ {
			if r >= 0xd800 && r < 0xe000 {
				continue
			}
			if !c.Thorough() && r >= 0x3000 && (r+off)%16 != 0 {
				continue
			}
			s := string(r)
			e.judgeStr(s, true)
			e.judgeStr("a"+s+"b", false)
			e.judgeStr("7"+s+"1", false)
			e.judgeBytes(s, false)
			e.cover("rune_classes", runeClass(r))
			n++
			if r == 0x2028 {
				e.keepSample("codepoint", func() map[string]any {
					q := syntax.Quote(s, false)
					return map[string]any{"kind": "string U+2028", "quoted": q, "unquoted_equal": true, "eval_repr_equal": true}
				})
			}
		}
		c.Count("code_points_judged", n)
	}
	if c.Thorough() {
		c.Count("exhaustive_subspace_completed", 1)
	}
}

func (e *eng) sectionBytePairs() {
	c := e.c
	// all single bytes, as bytes and (str identity only, unless ASCII) as strings
	if c.Take() {
		c.Note("all 256 single bytes")
		for b := 0; b < 256; b++ {
			s := string([]byte{byte(b)})
			e.judgeBytes(s, true)
			e.judgeBytes("a"+s+"b", false)
			e.judgeBytes("7"+s+"1", false)
			e.judgeStr(s, false) // bytes >= 0x80: invalid UTF-8, only str(s)==s is demanded
			e.cover("byte_classes", byteClass(byte(b)))
		}
		e.keepSample("byte", func() map[string]any {
			return map[string]any{"kind": "bytes", "value_hex": "ff", "quoted": syntax.Quote("\xff", true), "eval_repr_equal": true}
		})
	}
	if c.Thorough() {
		for hi := 0; hi < 256; hi++ {
			if !c.Take() {
				continue
			}
			c.Note("byte pairs %02x00..%02xff", hi, hi)
			for lo := 0; lo < 256; lo++ {
				e.judgeBytes(string([]byte{byte(hi), byte(lo)}), true)
			}
			c.Count("byte_pairs_judged", 256)
		}
		c.Count("exhaustive_subspace_completed", 1)
		return
	}
	for k := 0; k < 16; k++ {
		if !c.Take() {
			continue
		}
		r := c.Rand()
		c.Note("256 sampled byte pairs")
		for i := 0; i < 256; i++ {
			e.judgeBytes(string([]byte{byte(r.Intn(256)), byte(r.Intn(256))}), true)
		}
		c.Count("byte_pairs_judged", 256)
	}
}

func (e *eng) sectionRandomStrings() {
	c := e.c
	const batch = 200
	for k, n := 0, c.Pick(200, 1500); k < n; k++ {
		if !c.Take() {
			continue
		}
		r := c.Rand()
		c.Note("%d random hostile strings", batch)
		for i := 0; i < batch; i++ {
			s := randString(r)
			e.judgeStr(s, true)
			if i == 7 {
				e.keepSample("string", func() map[string]any {
					return map[string]any{"kind": "string", "value_go_quoted": fmt.Sprintf("%+q", s), "repr": trunc(syntax.Quote(s, false), 200), "eval_repr_equal": true, "str_identity": true}
				})
			}
		}
	}
	for k, n := 0, c.Pick(100, 750); k < n; k++ {
		if !c.Take() {
			continue
		}
		r := c.Rand()
		c.Note("%d random byte strings", batch)
		for i := 0; i < batch; i++ {
			s := randBytes(r)
			e.judgeBytes(s, true)
			if !utf8.ValidString(s) {
				c.Count("bytes_values_not_valid_utf8", 1)
			}
			if i%4 == 0 {
				e.judgeStr(s, false) // arbitrary string content: str identity; full laws if it happens to be valid UTF-8
			}
		}
	}
}

func (e *eng) judgeInt(x *big.Int) {
	c := e.c
	i := starlark.MakeBigInt(x)
	e.report(e.checkInt(i, full))
	c.Eval(1)
	c.Count("values_int", 1)
	e.cover("kinds", "int")
	c.Distinct("i\x00" + x.Text(62))
}

func (e *eng) sectionInts() {
	c := e.c
	// 2^k + d, both signs, k = 0..300 in groups of 10 exponents
	for k0 := 0; k0 <= 300; k0 += 10 {
		if !c.Take() {
			continue
		}
		c.Note("ints ±(2^k+d), k=%d..%d, d=-3..3", k0, k0+9)
		for k := k0; k < k0+10 && k <= 300; k++ {
			p := new(big.Int).Lsh(big.NewInt(1), uint(k))
			for d := int64(-3); d <= 3; d++ {
				x := new(big.Int).Add(p, big.NewInt(d))
				e.judgeInt(x)
				e.judgeInt(new(big.Int).Neg(x))
			}
		}
	}
	const batch = 200
	for k, n := 0, c.Pick(150, 1000); k < n; k++ {
		if !c.Take() {
			continue
		}
		r := c.Rand()
		c.Note("%d random ints up to 2^300", batch)
		for i := 0; i < batch; i++ {
			x := randInt(r)
			e.judgeInt(x)
			if i == 3 {
				e.keepSample("int", func() map[string]any {
					return map[string]any{"kind": "int", "bits": x.BitLen(), "repr": trunc(x.String(), 120), "eval_repr_equal": true, "type_after": "int"}
				})
			}
		}
	}
}

func (e *eng) judgeFloat(f float64) {
	c := e.c
	if !finite(f) {
		return // the property speaks of finite floats
	}
	e.report(e.checkFloat(f, full))
	c.Eval(1)
	c.Count("values_float", 1)
	e.cover("kinds", "float")
	bits := math.Float64bits(f)
	if bits&(0x7ff<<52) == 0 && bits<<1 != 0 {
		e.cover("float_repr_forms", "subnormal")
	}
	c.DistinctH(bits*0x9e3779b97f4a7c15 + 0xf10a7)
}

func (e *eng) sectionFloats() {
	c := e.c
	enum := enumeratedFloats()
	const batch = 500
	for i := 0; i < len(enum); i += batch {
		if !c.Take() {
			continue
		}
		j := i + batch
		if j > len(enum) {
			j = len(enum)
		}
		c.Note("enumerated floats #%d..%d (powers of two/ten and neighbours, boundaries, small integers)", i, j-1)
		for _, f := range enum[i:j] {
			e.judgeFloat(f)
		}
		c.Count("floats_enumerated", j-i)
	}
	type class struct {
		name string
		q, t int // batches
		gen  func(e *eng, c *driver.Ctx)
	}
	classes := []class{
		{"random-bits", 300, 4000, func(e *eng, c *driver.Ctx) {
			r := c.Rand()
			for i := 0; i < batch; i++ {
				f := randFiniteBits(r)
				e.judgeFloat(f)
				if i == 5 {
					e.keepSample("float", func() map[string]any {
						return map[string]any{"kind": "float", "bits": fmt.Sprintf("%016x", math.Float64bits(f)), "repr": starlark.Float(f).String(), "eval_repr_same_bits": true, "type_after": "float"}
					})
				}
			}
		}},
		{"subnormal", 10, 200, func(e *eng, c *driver.Ctx) {
			r := c.Rand()
			for i := 0; i < batch; i++ {
				e.judgeFloat(randSubnormal(r))
			}
		}},
		{"integer-valued", 30, 400, func(e *eng, c *driver.Ctx) {
			r := c.Rand()
			for i := 0; i < batch; i++ {
				e.judgeFloat(randIntegral(r))
			}
		}},
		{"short-decimal-neighbour-chains", 40, 600, func(e *eng, c *driver.Ctx) {
			r := c.Rand()
			var fs []float64
			for len(fs) < batch {
				fs = tieChain(r, fs)
			}
			for _, f := range fs {
				e.judgeFloat(f)
			}
		}},
	}
	for _, cl := range classes {
		for k, n := 0, c.Pick(cl.q, cl.t); k < n; k++ {
			if !c.Take() {
				continue
			}
			c.Note("%d floats of class %s", batch, cl.name)
			cl.gen(e, c)
			e.cover("float_classes", cl.name)
		}
	}
}

func (e *eng) sectionContainers() {
	c := e.c
	const batch = 20
	for k, n := 0, c.Pick(1000, 7500); k < n; k++ {
		if !c.Take() {
			continue
		}
		r := c.Rand()
		g := &cgen{r: r, feat: map[string]bool{}}
		for i := 0; i < batch; i++ {
			d := 1 + r.Intn(6)
			if r.Intn(3) == 0 {
				d = 6
			}
			if len(g.pool) > 60 {
				g.pool = g.pool[:0]
			}
			v, _, _ := g.gen(d, true, 150)
			depth, nodes := depthOf(v)
			if depth > 6 {
				// generator bug, not a property of the code under test: never judge beyond the stated bound
				c.Inconclusive("harness: generated a container of depth %d", depth)
				continue
			}
			c.Note("container of type %s, depth %d, %d nodes: %s", v.Type(), depth, nodes, driver.Truncate(v.String(), 1500))
			b := e.checkContainer(v)
			e.report(b)
			c.Eval(1)
			c.Count("values_container", 1)
			c.Count("container_nodes", nodes)
			e.cover("kinds", v.Type())
			e.cover("container_depth", fmt.Sprint(depth))
			rs := v.String()
			c.Distinct("c\x00" + rs)
			if i == 11 && depth >= 3 && len(rs) < 300 {
				e.keepSample("container", func() map[string]any {
					return map[string]any{"kind": v.Type(), "depth": depth, "nodes": nodes, "repr": rs, "eval_repr_same_types_and_values": b == nil}
				})
			}
		}
		for f := range g.feat {
			e.cover("container_features", f)
		}
	}
}

func (e *eng) sectionCycles() {
	c := e.c
	n := c.Pick(900, 6000) // kept moderate: on a tree with broken cycle detection every such case kills the child once
	for k := 0; k < n; k++ {
		if !c.Take() {
			continue
		}
		r := c.Rand()
		g := buildCycle(r, cycleShapes[k%len(cycleShapes)])
		ok, before := e.printCycle(g, cycleTimeout, "mutable")
		if !ok {
			return // watchdog fired: inconclusive was recorded; the printing goroutine may still run, so end the shard now
		}
		// the same graph once more after it has been frozen (a module's globals are frozen with their
		// cycles in place): printing must still terminate, with the same text
		for _, root := range g.roots {
			root.Freeze()
		}
		ok, after := e.printCycle(g, cycleTimeout, "frozen")
		if !ok {
			return
		}
		if before != nil && after != nil && strings.Join(before, "\x00") != strings.Join(after, "\x00") {
			c.Violation("C15 cycle-print changed-by-freeze "+g.shape, fmt.Sprintf("str/repr of a cyclic value differ before and after Freeze (%s)", g.desc),
				map[string]any{"shape": g.shape, "desc": g.desc, "before": before, "after": after})
		}
	}
}
