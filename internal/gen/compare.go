package gen

import (
	"fmt"
	"math"
	"math/big"
	"reflect"

	"go.starlark.net/syntax"
)

// CompareOpts selects what Compare checks.
type CompareOpts struct {
	Positions bool // compare every position field (line, column)
	Raw       bool // compare Literal.Raw
}

func unparen(e syntax.Expr) syntax.Expr {
	for {
		p, ok := e.(*syntax.ParenExpr)
		if !ok {
			return e
		}
		e = p.X
	}
}

type cmp struct {
	o    CompareOpts
	path []string
}

func (c *cmp) errf(format string, args ...any) error {
	p := ""
	for _, s := range c.path {
		p += "/" + s
	}
	return fmt.Errorf("at %s: %s", p, fmt.Sprintf(format, args...))
}

func (c *cmp) pos(name string, a, b syntax.Position) error {
	if !c.o.Positions {
		return nil
	}
	if a.Line != b.Line || a.Col != b.Col {
		return c.errf("%s: want %d:%d, got %d:%d", name, a.Line, a.Col, b.Line, b.Col)
	}
	return nil
}

// CompareStmts reports the first difference between the generated statements want and the parsed
// statements got. ParenExpr nodes are erased on both sides; resolver annotations and comments are ignored.
func CompareStmts(want, got []syntax.Stmt, o CompareOpts) error {
	c := &cmp{o: o}
	return c.stmts("file", want, got)
}

// CompareExpr is CompareStmts for one expression.
func CompareExpr(want, got syntax.Expr, o CompareOpts) error {
	c := &cmp{o: o}
	return c.expr("expr", want, got)
}

func (c *cmp) stmts(name string, a, b []syntax.Stmt) error {
	if len(a) != len(b) {
		return c.errf("%s: want %d statements, got %d", name, len(a), len(b))
	}
	for i := range a {
		if err := c.stmt(fmt.Sprintf("%s[%d]", name, i), a[i], b[i]); err != nil {
			return err
		}
	}
	return nil
}

func (c *cmp) stmt(name string, a, b syntax.Stmt) error {
	c.path = append(c.path, name)
	defer func() { c.path = c.path[:len(c.path)-1] }()
	if reflect.TypeOf(a) != reflect.TypeOf(b) {
		return c.errf("want %T, got %T", a, b)
	}
	switch a := a.(type) {
	case *syntax.AssignStmt:
		b := b.(*syntax.AssignStmt)
		if a.Op != b.Op {
			return c.errf("assign op: want %v, got %v", a.Op, b.Op)
		}
		if err := c.pos("OpPos", a.OpPos, b.OpPos); err != nil {
			return err
		}
		if err := c.expr("LHS", a.LHS, b.LHS); err != nil {
			return err
		}
		return c.expr("RHS", a.RHS, b.RHS)
	case *syntax.BranchStmt:
		b := b.(*syntax.BranchStmt)
		if a.Token != b.Token {
			return c.errf("branch: want %v, got %v", a.Token, b.Token)
		}
		return c.pos("TokenPos", a.TokenPos, b.TokenPos)
	case *syntax.DefStmt:
		b := b.(*syntax.DefStmt)
		if err := c.pos("Def", a.Def, b.Def); err != nil {
			return err
		}
		if err := c.expr("Name", a.Name, b.Name); err != nil {
			return err
		}
		if err := c.pos("Lparen", a.Lparen, b.Lparen); err != nil {
			return err
		}
		if err := c.exprs("Params", a.Params, b.Params); err != nil {
			return err
		}
		if err := c.pos("Rparen", a.Rparen, b.Rparen); err != nil {
			return err
		}
		return c.stmts("Body", a.Body, b.Body)
	case *syntax.ExprStmt:
		return c.expr("X", a.X, b.(*syntax.ExprStmt).X)
	case *syntax.ForStmt:
		b := b.(*syntax.ForStmt)
		if err := c.pos("For", a.For, b.For); err != nil {
			return err
		}
		if err := c.expr("Vars", a.Vars, b.Vars); err != nil {
			return err
		}
		if err := c.expr("X", a.X, b.X); err != nil {
			return err
		}
		return c.stmts("Body", a.Body, b.Body)
	case *syntax.WhileStmt:
		b := b.(*syntax.WhileStmt)
		if err := c.pos("While", a.While, b.While); err != nil {
			return err
		}
		if err := c.expr("Cond", a.Cond, b.Cond); err != nil {
			return err
		}
		return c.stmts("Body", a.Body, b.Body)
	case *syntax.IfStmt:
		b := b.(*syntax.IfStmt)
		if err := c.pos("If", a.If, b.If); err != nil {
			return err
		}
		if err := c.expr("Cond", a.Cond, b.Cond); err != nil {
			return err
		}
		if err := c.stmts("True", a.True, b.True); err != nil {
			return err
		}
		if (a.False == nil) != (b.False == nil) {
			return c.errf("else branch: want present=%v, got present=%v", a.False != nil, b.False != nil)
		}
		if a.False != nil {
			if err := c.pos("ElsePos", a.ElsePos, b.ElsePos); err != nil {
				return err
			}
		}
		return c.stmts("False", a.False, b.False)
	case *syntax.LoadStmt:
		b := b.(*syntax.LoadStmt)
		if err := c.pos("Load", a.Load, b.Load); err != nil {
			return err
		}
		if err := c.expr("Module", a.Module, b.Module); err != nil {
			return err
		}
		if len(a.From) != len(b.From) || len(a.To) != len(b.To) {
			return c.errf("load: want %d names, got %d", len(a.From), len(b.From))
		}
		for i := range a.From {
			if err := c.expr(fmt.Sprintf("From[%d]", i), a.From[i], b.From[i]); err != nil {
				return err
			}
			if err := c.expr(fmt.Sprintf("To[%d]", i), a.To[i], b.To[i]); err != nil {
				return err
			}
		}
		return c.pos("Rparen", a.Rparen, b.Rparen)
	case *syntax.ReturnStmt:
		b := b.(*syntax.ReturnStmt)
		if err := c.pos("Return", a.Return, b.Return); err != nil {
			return err
		}
		if (a.Result == nil) != (b.Result == nil) {
			return c.errf("return value: want present=%v, got present=%v", a.Result != nil, b.Result != nil)
		}
		if a.Result != nil {
			return c.expr("Result", a.Result, b.Result)
		}
		return nil
	}
	return c.errf("unexpected statement %T", a)
}

func (c *cmp) exprs(name string, a, b []syntax.Expr) error {
	if len(a) != len(b) {
		return c.errf("%s: want %d elements, got %d", name, len(a), len(b))
	}
	for i := range a {
		if err := c.expr(fmt.Sprintf("%s[%d]", name, i), a[i], b[i]); err != nil {
			return err
		}
	}
	return nil
}

func (c *cmp) optExpr(name string, a, b syntax.Expr) error {
	an, bn := a == nil || reflect.ValueOf(a).IsNil(), b == nil || reflect.ValueOf(b).IsNil()
	if an != bn {
		return c.errf("%s: want present=%v, got present=%v", name, !an, !bn)
	}
	if an {
		return nil
	}
	return c.expr(name, a, b)
}

func sameValue(a, b any) bool {
	switch a := a.(type) {
	case int64:
		switch b := b.(type) {
		case int64:
			return a == b
		case *big.Int:
			return b.IsInt64() && b.Int64() == a
		}
	case *big.Int:
		switch b := b.(type) {
		case int64:
			return a.IsInt64() && a.Int64() == b
		case *big.Int:
			return a.Cmp(b) == 0
		}
	case float64:
		if b, ok := b.(float64); ok {
			return math.Float64bits(a) == math.Float64bits(b)
		}
	case string:
		if b, ok := b.(string); ok {
			return a == b
		}
	}
	return false
}

func (c *cmp) expr(name string, a, b syntax.Expr) error {
	a, b = unparen(a), unparen(b)
	c.path = append(c.path, fmt.Sprintf("%s(%T)", name, a))
	defer func() { c.path = c.path[:len(c.path)-1] }()
	if reflect.TypeOf(a) != reflect.TypeOf(b) {
		return c.errf("want %T, got %T", a, b)
	}
	switch a := a.(type) {
	case *syntax.Ident:
		b := b.(*syntax.Ident)
		if a.Name != b.Name {
			return c.errf("identifier: want %q, got %q", a.Name, b.Name)
		}
		return c.pos("NamePos", a.NamePos, b.NamePos)
	case *syntax.Literal:
		b := b.(*syntax.Literal)
		if a.Token != b.Token {
			return c.errf("literal kind: want %v, got %v (raw %q)", a.Token, b.Token, b.Raw)
		}
		if !sameValue(a.Value, b.Value) {
			return c.errf("literal %q: want value %#v (%T), got %#v (%T)", a.Raw, a.Value, a.Value, b.Value, b.Value)
		}
		if c.o.Raw && a.Raw != b.Raw {
			return c.errf("literal raw text: want %q, got %q", a.Raw, b.Raw)
		}
		return c.pos("TokenPos", a.TokenPos, b.TokenPos)
	case *syntax.ListExpr:
		b := b.(*syntax.ListExpr)
		if err := c.pos("Lbrack", a.Lbrack, b.Lbrack); err != nil {
			return err
		}
		if err := c.exprs("List", a.List, b.List); err != nil {
			return err
		}
		return c.pos("Rbrack", a.Rbrack, b.Rbrack)
	case *syntax.DictExpr:
		b := b.(*syntax.DictExpr)
		if err := c.pos("Lbrace", a.Lbrace, b.Lbrace); err != nil {
			return err
		}
		if err := c.exprs("List", a.List, b.List); err != nil {
			return err
		}
		return c.pos("Rbrace", a.Rbrace, b.Rbrace)
	case *syntax.DictEntry:
		b := b.(*syntax.DictEntry)
		if err := c.expr("Key", a.Key, b.Key); err != nil {
			return err
		}
		if err := c.pos("Colon", a.Colon, b.Colon); err != nil {
			return err
		}
		return c.expr("Value", a.Value, b.Value)
	case *syntax.TupleExpr:
		b := b.(*syntax.TupleExpr)
		if len(a.List) == 0 && len(b.List) == 0 {
			if err := c.pos("Lparen", a.Lparen, b.Lparen); err != nil {
				return err
			}
			if err := c.pos("Rparen", a.Rparen, b.Rparen); err != nil {
				return err
			}
		}
		return c.exprs("List", a.List, b.List)
	case *syntax.UnaryExpr:
		b := b.(*syntax.UnaryExpr)
		if a.Op != b.Op {
			return c.errf("unary operator: want %v, got %v", a.Op, b.Op)
		}
		if err := c.pos("OpPos", a.OpPos, b.OpPos); err != nil {
			return err
		}
		return c.optExpr("X", a.X, b.X)
	case *syntax.BinaryExpr:
		b := b.(*syntax.BinaryExpr)
		if a.Op != b.Op {
			return c.errf("binary operator: want %v, got %v", a.Op, b.Op)
		}
		if err := c.expr("X", a.X, b.X); err != nil {
			return err
		}
		if err := c.pos("OpPos", a.OpPos, b.OpPos); err != nil {
			return err
		}
		return c.expr("Y", a.Y, b.Y)
	case *syntax.CondExpr:
		b := b.(*syntax.CondExpr)
		if err := c.expr("True", a.True, b.True); err != nil {
			return err
		}
		if err := c.pos("If", a.If, b.If); err != nil {
			return err
		}
		if err := c.expr("Cond", a.Cond, b.Cond); err != nil {
			return err
		}
		if err := c.pos("ElsePos", a.ElsePos, b.ElsePos); err != nil {
			return err
		}
		return c.expr("False", a.False, b.False)
	case *syntax.LambdaExpr:
		b := b.(*syntax.LambdaExpr)
		if err := c.pos("Lambda", a.Lambda, b.Lambda); err != nil {
			return err
		}
		if err := c.exprs("Params", a.Params, b.Params); err != nil {
			return err
		}
		return c.expr("Body", a.Body, b.Body)
	case *syntax.CallExpr:
		b := b.(*syntax.CallExpr)
		if err := c.expr("Fn", a.Fn, b.Fn); err != nil {
			return err
		}
		if err := c.pos("Lparen", a.Lparen, b.Lparen); err != nil {
			return err
		}
		if err := c.exprs("Args", a.Args, b.Args); err != nil {
			return err
		}
		return c.pos("Rparen", a.Rparen, b.Rparen)
	case *syntax.IndexExpr:
		b := b.(*syntax.IndexExpr)
		if err := c.expr("X", a.X, b.X); err != nil {
			return err
		}
		if err := c.pos("Lbrack", a.Lbrack, b.Lbrack); err != nil {
			return err
		}
		if err := c.expr("Y", a.Y, b.Y); err != nil {
			return err
		}
		return c.pos("Rbrack", a.Rbrack, b.Rbrack)
	case *syntax.SliceExpr:
		b := b.(*syntax.SliceExpr)
		if err := c.expr("X", a.X, b.X); err != nil {
			return err
		}
		if err := c.pos("Lbrack", a.Lbrack, b.Lbrack); err != nil {
			return err
		}
		if err := c.optExpr("Lo", a.Lo, b.Lo); err != nil {
			return err
		}
		if err := c.optExpr("Hi", a.Hi, b.Hi); err != nil {
			return err
		}
		if err := c.optExpr("Step", a.Step, b.Step); err != nil {
			return err
		}
		return c.pos("Rbrack", a.Rbrack, b.Rbrack)
	case *syntax.DotExpr:
		b := b.(*syntax.DotExpr)
		if err := c.expr("X", a.X, b.X); err != nil {
			return err
		}
		if err := c.pos("Dot", a.Dot, b.Dot); err != nil {
			return err
		}
		// (DotExpr.NamePos is not set by the parser; the name's own position is compared.)
		return c.expr("Name", a.Name, b.Name)
	case *syntax.Comprehension:
		b := b.(*syntax.Comprehension)
		if a.Curly != b.Curly {
			return c.errf("comprehension brackets: want curly=%v, got %v", a.Curly, b.Curly)
		}
		if err := c.pos("Lbrack", a.Lbrack, b.Lbrack); err != nil {
			return err
		}
		if err := c.expr("Body", a.Body, b.Body); err != nil {
			return err
		}
		if len(a.Clauses) != len(b.Clauses) {
			return c.errf("comprehension: want %d clauses, got %d", len(a.Clauses), len(b.Clauses))
		}
		for i := range a.Clauses {
			if reflect.TypeOf(a.Clauses[i]) != reflect.TypeOf(b.Clauses[i]) {
				return c.errf("clause %d: want %T, got %T", i, a.Clauses[i], b.Clauses[i])
			}
			switch ca := a.Clauses[i].(type) {
			case *syntax.ForClause:
				cb := b.Clauses[i].(*syntax.ForClause)
				if err := c.pos("For", ca.For, cb.For); err != nil {
					return err
				}
				if err := c.expr("Vars", ca.Vars, cb.Vars); err != nil {
					return err
				}
				if err := c.pos("In", ca.In, cb.In); err != nil {
					return err
				}
				if err := c.expr("X", ca.X, cb.X); err != nil {
					return err
				}
			case *syntax.IfClause:
				cb := b.Clauses[i].(*syntax.IfClause)
				if err := c.pos("If", ca.If, cb.If); err != nil {
					return err
				}
				if err := c.expr("Cond", ca.Cond, cb.Cond); err != nil {
					return err
				}
			}
		}
		return c.pos("Rbrack", a.Rbrack, b.Rbrack)
	}
	return c.errf("unexpected expression %T", a)
}
