// Package gen builds Starlark syntax trees (as go.starlark.net/syntax nodes), renders them to
// source text with randomised layout while recording the exact position of every token in the
// nodes' own position fields, and compares trees. The renderer is written from the grammar and
// the operator table in doc/spec.md; it does not use the parser.
package gen

import (
	"fmt"
	"math"
	"math/big"
	"math/rand"
	"strconv"
	"strings"
	"unicode/utf8"

	"go.starlark.net/syntax"
)

// Layout controls the randomised layout. Probabilities are in [0,1].
type Layout struct {
	ExtraSpace    float64 // extra blanks between tokens
	Tabs          bool    // allow tabs as inter-token blanks
	Comments      float64 // comments (end of line, and own-line between statements / inside brackets)
	BlankLines    float64 // blank lines between statements
	Continuation  float64 // backslash-newline between tokens outside brackets
	BracketBreaks float64 // newlines between tokens inside brackets
	TrailingComma float64
	Semicolons    float64 // join simple statements with ';'
	OneLineSuites float64 // 'if x: stmt' on one line
	RedundantPar  float64 // redundant parentheses around expressions
	NonASCII      bool    // non-ASCII runes in comments (columns are counted in runes)
	Minimal       bool    // no optional layout at all (overrides the above)
}

// Plain is a layout with single spaces and no optional features.
var Plain = Layout{Minimal: true}

// RandomLayout picks a layout profile.
func RandomLayout(r *rand.Rand) Layout {
	switch r.Intn(4) {
	case 0:
		return Plain
	case 1:
		return Layout{ExtraSpace: 0.15, Comments: 0.1, BlankLines: 0.2, TrailingComma: 0.3, Semicolons: 0.15, OneLineSuites: 0.2}
	case 2:
		return Layout{ExtraSpace: 0.3, Tabs: true, Comments: 0.25, BlankLines: 0.3, Continuation: 0.08, BracketBreaks: 0.25, TrailingComma: 0.5, Semicolons: 0.3, OneLineSuites: 0.3, RedundantPar: 0.15, NonASCII: true}
	default:
		return Layout{ExtraSpace: 0.1, BracketBreaks: 0.5, Comments: 0.3, TrailingComma: 0.7, RedundantPar: 0.35, Continuation: 0.15, NonASCII: true}
	}
}

// Unparen marks a TupleExpr to be rendered without parentheses (only legal in some contexts;
// the generator is responsible for using it only there).
type renderer struct {
	r        *rand.Rand
	lay      Layout
	buf      strings.Builder
	line     int32
	col      int32
	depth    int // bracket depth
	last     byte
	lastNum  bool // last token was a numeric literal
	fname    *string
	noParen  map[*syntax.TupleExpr]bool
	atStart  bool // at the start of a logical line (no token emitted yet on it)
	elif     map[*syntax.IfStmt]bool
	onToken  func(string, syntax.Position)
	before   func(syntax.Stmt) string
	Spelling func(r *rand.Rand, lit *syntax.Literal) string // optional literal speller
}

// Options for Render.
type Options struct {
	Layout   Layout
	Filename string
	NoParen  map[*syntax.TupleExpr]bool                     // tuples to render without parentheses
	Elif     map[*syntax.IfStmt]bool                        // IfStmts (sole statement of an else branch) to spell 'elif'
	Spelling func(r *rand.Rand, lit *syntax.Literal) string // chooses Raw for a literal whose Raw is empty
	// OnToken, if set, is called for every token emitted (text and position), in order. NEWLINE,
	// INDENT and OUTDENT are not reported; comments and white space are not tokens.
	OnToken func(text string, pos syntax.Position)
	// BeforeStmt, if set, returns raw text to insert before the given statement; it must consist of
	// whole lines that are blank or comments (each ending in "\n"), e.g. to create huge line gaps.
	BeforeStmt func(s syntax.Stmt) string
}

// Render renders the statements and stores every token position in the nodes.
func Render(stmts []syntax.Stmt, r *rand.Rand, o Options) string {
	fn := o.Filename
	w := &renderer{r: r, lay: o.Layout, line: 1, col: 1, fname: &fn, noParen: o.NoParen, elif: o.Elif, atStart: true, Spelling: o.Spelling, onToken: o.OnToken, before: o.BeforeStmt}
	if w.noParen == nil {
		w.noParen = map[*syntax.TupleExpr]bool{}
	}
	w.stmts(stmts, "")
	return w.buf.String()
}

// RenderExpr renders a single expression (as for ParseExpr).
func RenderExpr(e syntax.Expr, r *rand.Rand, o Options) string {
	fn := o.Filename
	w := &renderer{r: r, lay: o.Layout, line: 1, col: 1, fname: &fn, noParen: o.NoParen, atStart: true, Spelling: o.Spelling, onToken: o.OnToken}
	if w.noParen == nil {
		w.noParen = map[*syntax.TupleExpr]bool{}
	}
	w.expr(e, precLowest)
	return w.buf.String()
}

func (w *renderer) chance(p float64) bool { return !w.lay.Minimal && p > 0 && w.r.Float64() < p }

func (w *renderer) pos() syntax.Position { return syntax.MakePosition(w.fname, w.line, w.col) }

func (w *renderer) raw(s string) {
	w.buf.WriteString(s)
	for _, c := range s {
		if c == '\n' {
			w.line++
			w.col = 1
		} else {
			w.col++
		}
	}
	if len(s) > 0 {
		w.last = s[len(s)-1]
	}
}

func isWord(b byte) bool {
	return b == '_' || b >= '0' && b <= '9' || b >= 'a' && b <= 'z' || b >= 'A' && b <= 'Z' || b >= 0x80
}
func isOp(b byte) bool { return strings.IndexByte("+-*/%&|^<>=!~", b) >= 0 }

var commentTexts = []string{"# c", "#", "# x = 1", "#!", "# )]}", "# \"'", "# \\", "#\t tab"}
var commentTextsU = []string{"# é", "# 日本語", "# 😀 wide", "# naïve — dash"}

func (w *renderer) comment() string {
	if w.lay.NonASCII && w.r.Intn(3) == 0 {
		return commentTextsU[w.r.Intn(len(commentTextsU))]
	}
	return commentTexts[w.r.Intn(len(commentTexts))]
}

// gap emits the white space (possibly none) before the token tok.
func (w *renderer) gap(tok string) {
	if w.atStart {
		w.atStart = false
		return
	}
	first := tok[0]
	need := isWord(w.last) && isWord(first) || isOp(w.last) && isOp(first) ||
		w.lastNum && w.last != ' ' && w.last != '\t' && w.last != '\n' && (first == '.' || isWord(first)) || w.last == '.' && first == '.' ||
		(w.last == '\'' || w.last == '"') && (first == '\'' || first == '"' || isWord(first)) ||
		isWord(w.last) && (first == '\'' || first == '"')
	wrote := false
	if !w.lay.Minimal {
		if w.depth > 0 && w.chance(w.lay.BracketBreaks) {
			if w.chance(w.lay.Comments) {
				w.raw(" " + w.comment())
			}
			w.raw("\n" + strings.Repeat(" ", w.r.Intn(9)))
			for w.chance(w.lay.Comments * 0.5) {
				w.raw(w.comment() + "\n" + strings.Repeat(" ", w.r.Intn(5)))
			}
			wrote = true
		} else if w.depth == 0 && w.chance(w.lay.Continuation) {
			if w.last != ' ' && w.r.Intn(2) == 0 {
				w.raw(" ")
			}
			w.raw("\\\n" + strings.Repeat(" ", w.r.Intn(7)))
			wrote = true
		} else if w.chance(w.lay.ExtraSpace) {
			sp := []string{" ", "  ", "   "}
			if w.lay.Tabs {
				sp = append(sp, "\t", " \t ")
			}
			w.raw(sp[w.r.Intn(len(sp))])
			wrote = true
		}
	}
	if need && !wrote {
		w.raw(" ")
	} else if need && wrote && !(w.last == ' ' || w.last == '\t' || w.last == '\n') {
		w.raw(" ")
	}
}

// tok emits a token (after an optional gap) and returns its position.
func (w *renderer) tok(s string) syntax.Position {
	w.gap(s)
	p := w.pos()
	w.raw(s)
	w.lastNum = false
	if w.onToken != nil {
		w.onToken(s, p)
	}
	return p
}

// sp emits a conventional single space in non-minimal-agnostic places (purely cosmetic).
func (w *renderer) sp() {
	if w.last != ' ' && w.last != '\n' && w.last != '\t' && !w.atStart {
		w.raw(" ")
	}
}

func (w *renderer) open(s string) syntax.Position {
	p := w.tok(s)
	w.depth++
	return p
}
func (w *renderer) close(s string) syntax.Position {
	p := w.tok(s)
	w.depth--
	return p
}

// ---- precedence (doc/spec.md, "Operators": lowest to highest) ----
//
//	or | and | not | comparisons (non-associative) | '|' | '^' | '&' | << >> | + - | * / // % | unary + - ~ | primary
const (
	precLowest  = -1 // conditional expression, lambda
	precOr      = 0
	precAnd     = 1
	precNot     = 2
	precCmp     = 3
	precPipe    = 4
	precCaret   = 5
	precAmp     = 6
	precShift   = 7
	precAdd     = 8
	precMul     = 9
	precUnary   = 10
	precPrimary = 11
)

func binPrec(op syntax.Token) int {
	switch op {
	case syntax.OR:
		return precOr
	case syntax.AND:
		return precAnd
	case syntax.EQL, syntax.NEQ, syntax.LT, syntax.GT, syntax.LE, syntax.GE, syntax.IN, syntax.NOT_IN:
		return precCmp
	case syntax.PIPE:
		return precPipe
	case syntax.CIRCUMFLEX:
		return precCaret
	case syntax.AMP:
		return precAmp
	case syntax.LTLT, syntax.GTGT:
		return precShift
	case syntax.PLUS, syntax.MINUS:
		return precAdd
	case syntax.STAR, syntax.SLASH, syntax.SLASHSLASH, syntax.PERCENT:
		return precMul
	}
	panic(fmt.Sprintf("binPrec: %v", op))
}

func exprPrec(e syntax.Expr) int {
	switch e := e.(type) {
	case *syntax.CondExpr, *syntax.LambdaExpr:
		return precLowest
	case *syntax.BinaryExpr:
		return binPrec(e.Op)
	case *syntax.UnaryExpr:
		if e.Op == syntax.NOT {
			return precNot
		}
		return precUnary
	case *syntax.TupleExpr:
		return precPrimary // rendered with its own parentheses unless marked
	}
	return precPrimary
}

func opText(op syntax.Token) string {
	switch op {
	case syntax.NOT_IN:
		return "not in"
	}
	return op.String()
}

// expr renders e in a context that admits operators of precedence >= ctx without parentheses.
func (w *renderer) expr(e syntax.Expr, ctx int) {
	if p, ok := e.(*syntax.ParenExpr); ok {
		p.Lparen = w.open("(")
		w.expr(p.X, precLowest)
		p.Rparen = w.close(")")
		return
	}
	needPar := exprPrec(e) < ctx
	if t, ok := e.(*syntax.TupleExpr); ok && w.noParen[t] {
		needPar = false
		if ctx > precLowest {
			needPar = true
		}
	} else if !needPar && w.chance(w.lay.RedundantPar) {
		needPar = true
	}
	if needPar {
		if t, ok := e.(*syntax.TupleExpr); ok && w.noParen[t] {
			delete(w.noParen, t) // parenthesised after all: it becomes an ordinary tuple
			w.expr1(e)
			return
		}
		w.open("(")
		w.expr1(e)
		w.close(")")
		return
	}
	w.expr1(e)
}

func (w *renderer) commaList(n int, trailingOK bool, item func(i int)) {
	for i := 0; i < n; i++ {
		if i > 0 {
			w.tok(",")
			w.spMaybe()
		}
		item(i)
	}
	if n > 0 && trailingOK && w.chance(w.lay.TrailingComma) {
		w.tok(",")
	}
}

func (w *renderer) spMaybe() {
	if w.lay.Minimal || w.r.Intn(4) != 0 {
		w.sp()
	}
}

func isStarArg(e syntax.Expr) bool {
	u, ok := e.(*syntax.UnaryExpr)
	return ok && (u.Op == syntax.STAR || u.Op == syntax.STARSTAR)
}

// arg renders a call argument or a parameter: expr | name=expr | *expr | **expr | *
func (w *renderer) arg(e syntax.Expr) {
	switch e := e.(type) {
	case *syntax.BinaryExpr:
		if e.Op == syntax.EQ {
			w.expr1(e.X)
			e.OpPos = w.tok("=")
			w.expr(e.Y, precLowest)
			return
		}
	case *syntax.UnaryExpr:
		if e.Op == syntax.STAR || e.Op == syntax.STARSTAR {
			e.OpPos = w.tok(e.Op.String())
			if e.X != nil {
				w.expr(e.X, precLowest)
			}
			return
		}
	}
	w.expr(e, precLowest)
}

// param renders a parameter: ident | ident=expr | *ident | **ident | *
func (w *renderer) param(e syntax.Expr) {
	switch e := e.(type) {
	case *syntax.Ident:
		w.expr1(e)
	case *syntax.BinaryExpr:
		w.expr1(e.X)
		e.OpPos = w.tok("=")
		w.expr(e.Y, precLowest)
	case *syntax.UnaryExpr:
		e.OpPos = w.tok(e.Op.String())
		if e.X != nil {
			w.expr1(e.X)
		}
	default:
		panic(fmt.Sprintf("render: unexpected parameter %T", e))
	}
}

func (w *renderer) args(list []syntax.Expr) {
	trailing := len(list) > 0 && !isStarArg(list[len(list)-1])
	w.commaList(len(list), trailing, func(i int) { w.arg(list[i]) })
}

func (w *renderer) expr1(e syntax.Expr) {
	switch e := e.(type) {
	case *syntax.Ident:
		e.NamePos = w.tok(e.Name)
	case *syntax.Literal:
		if e.Raw == "" {
			if w.Spelling != nil {
				e.Raw = w.Spelling(w.r, e)
			} else {
				e.Raw = DefaultSpelling(e)
			}
		}
		e.TokenPos = w.tok(e.Raw)
		w.lastNum = e.Token == syntax.INT || e.Token == syntax.FLOAT
	case *syntax.ListExpr:
		e.Lbrack = w.open("[")
		w.commaList(len(e.List), true, func(i int) { w.expr(e.List[i], precLowest) })
		e.Rbrack = w.close("]")
	case *syntax.DictExpr:
		e.Lbrace = w.open("{")
		w.commaList(len(e.List), true, func(i int) { w.expr1(e.List[i]) })
		e.Rbrace = w.close("}")
	case *syntax.DictEntry:
		w.expr(e.Key, precLowest)
		e.Colon = w.tok(":")
		w.spMaybe()
		w.expr(e.Value, precLowest)
	case *syntax.TupleExpr:
		if w.noParen[e] {
			e.Lparen, e.Rparen = syntax.Position{}, syntax.Position{}
			for i, x := range e.List {
				if i > 0 {
					w.tok(",")
					w.spMaybe()
				}
				w.expr(x, precLowest)
			}
			if len(e.List) == 1 {
				w.tok(",")
			}
			return
		}
		// The parser represents a parenthesised non-empty tuple as ParenExpr{TupleExpr} and sets
		// the tuple's own Lparen/Rparen only for the empty tuple; ParenExpr is erased by Compare.
		lp := w.open("(")
		for i, x := range e.List {
			if i > 0 {
				w.tok(",")
				w.spMaybe()
			}
			w.expr(x, precLowest)
		}
		if len(e.List) == 1 || len(e.List) > 1 && w.chance(w.lay.TrailingComma) {
			w.tok(",")
		}
		rp := w.close(")")
		e.Lparen, e.Rparen = syntax.Position{}, syntax.Position{}
		if len(e.List) == 0 {
			e.Lparen, e.Rparen = lp, rp
		}
	case *syntax.UnaryExpr:
		e.OpPos = w.tok(e.Op.String())
		if e.Op == syntax.NOT {
			w.expr(e.X, precNot)
		} else {
			w.expr(e.X, precUnary)
		}
	case *syntax.BinaryExpr:
		p := binPrec(e.Op)
		l, r := p, p+1 // left-associative
		if p == precCmp {
			l, r = p+1, p+1 // comparisons do not associate
		}
		w.expr(e.X, l)
		w.spMaybe()
		if e.Op == syntax.NOT_IN {
			// The scanner fuses 'not' 'in' into one token positioned at 'in'; either word
			// identifies the operator, so that convention is adopted here.
			w.tok("not")
			e.OpPos = w.tok("in")
		} else {
			e.OpPos = w.tok(opText(e.Op))
		}
		w.spMaybe()
		w.expr(e.Y, r)
	case *syntax.CondExpr:
		w.expr(e.True, precOr)
		e.If = w.tok("if")
		w.expr(e.Cond, precOr)
		e.ElsePos = w.tok("else")
		w.expr(e.False, precLowest)
	case *syntax.LambdaExpr:
		e.Lambda = w.tok("lambda")
		for i, p := range e.Params {
			if i > 0 {
				w.tok(",")
				w.spMaybe()
			}
			w.param(p)
		}
		w.tok(":")
		w.spMaybe()
		w.expr(e.Body, precLowest)
	case *syntax.CallExpr:
		w.primaryOperand(e.Fn)
		e.Lparen = w.open("(")
		w.args(e.Args)
		e.Rparen = w.close(")")
	case *syntax.IndexExpr:
		w.primaryOperand(e.X)
		e.Lbrack = w.open("[")
		w.exprOrBareTuple(e.Y)
		e.Rbrack = w.close("]")
	case *syntax.SliceExpr:
		w.primaryOperand(e.X)
		e.Lbrack = w.open("[")
		if e.Lo != nil {
			w.expr(e.Lo, precLowest)
		}
		w.tok(":")
		if e.Hi != nil {
			w.expr(e.Hi, precLowest)
		}
		if e.Step != nil {
			w.tok(":")
			w.expr(e.Step, precLowest)
		} else if w.chance(0.2) {
			w.tok(":")
		}
		e.Rbrack = w.close("]")
	case *syntax.DotExpr:
		if lit, ok := e.X.(*syntax.Literal); ok && (lit.Token == syntax.INT || lit.Token == syntax.FLOAT) {
			w.open("(")
			w.expr1(e.X)
			w.close(")")
		} else {
			w.primaryOperand(e.X)
		}
		e.Dot = w.tok(".")
		e.NamePos = w.tok(e.Name.Name)
		e.Name.NamePos = e.NamePos
	case *syntax.Comprehension:
		if e.Curly {
			e.Lbrack = w.open("{")
		} else {
			e.Lbrack = w.open("[")
		}
		if de, ok := e.Body.(*syntax.DictEntry); ok {
			w.expr1(de)
		} else {
			w.expr(e.Body, precLowest)
		}
		for _, c := range e.Clauses {
			switch c := c.(type) {
			case *syntax.ForClause:
				c.For = w.tok("for")
				w.loopVars(c.Vars)
				c.In = w.tok("in")
				w.expr(c.X, precOr)
			case *syntax.IfClause:
				c.If = w.tok("if")
				w.expr(c.Cond, precOr)
			}
		}
		if e.Curly {
			e.Rbrack = w.close("}")
		} else {
			e.Rbrack = w.close("]")
		}
	default:
		panic(fmt.Sprintf("render: unexpected expr %T", e))
	}
}

func (w *renderer) exprOrBareTuple(e syntax.Expr) {
	w.expr(e, precLowest)
}

// primaryOperand renders the operand of a call, index, slice or attribute selection.
func (w *renderer) primaryOperand(e syntax.Expr) { w.expr(e, precPrimary) }

// loopVars renders the target list of a for statement/clause: primary expressions separated by commas.
func (w *renderer) loopVars(e syntax.Expr) {
	if t, ok := e.(*syntax.TupleExpr); ok && w.noParen[t] {
		t.Lparen, t.Rparen = syntax.Position{}, syntax.Position{}
		for i, x := range t.List {
			if i > 0 {
				w.tok(",")
				w.spMaybe()
			}
			w.expr(x, precPrimary)
		}
		if len(t.List) == 1 {
			w.tok(",")
		}
		return
	}
	w.expr(e, precPrimary)
}

// ---- statements ----

func isSimple(s syntax.Stmt) bool {
	switch s.(type) {
	case *syntax.DefStmt, *syntax.IfStmt, *syntax.ForStmt, *syntax.WhileStmt:
		return false
	}
	return true
}

func (w *renderer) newline() {
	if w.chance(w.lay.Comments) {
		if w.last != ' ' {
			w.raw(" ")
		}
		w.raw(w.comment())
	} else if w.chance(w.lay.ExtraSpace) {
		w.raw(" ")
	}
	w.raw("\n")
	w.atStart = true
	w.lastNum = false
}

func (w *renderer) interStmt(indent string) {
	for w.chance(w.lay.BlankLines) {
		switch w.r.Intn(3) {
		case 0:
			w.raw("\n")
		case 1:
			w.raw(strings.Repeat(" ", w.r.Intn(6)) + "\n")
		case 2:
			if w.lay.Comments > 0 {
				w.raw(strings.Repeat(" ", w.r.Intn(10)) + w.comment() + "\n")
			} else {
				w.raw("\n")
			}
		}
	}
}

func (w *renderer) stmts(list []syntax.Stmt, indent string) {
	for i := 0; i < len(list); i++ {
		w.interStmt(indent)
		if w.before != nil {
			w.raw(w.before(list[i]))
		}
		w.raw(indent)
		w.atStart = true
		w.stmt(list[i], indent)
		// join following simple statements with ';'
		for isSimple(list[i]) && i+1 < len(list) && isSimple(list[i+1]) && w.chance(w.lay.Semicolons) {
			w.tok(";")
			w.spMaybe()
			i++
			w.simple(list[i])
		}
		if isSimple(list[i]) {
			if w.chance(w.lay.Semicolons * 0.3) {
				w.tok(";")
			}
			w.newline()
		}
	}
}

func (w *renderer) suite(body []syntax.Stmt, indent string) {
	allSimple := true
	for _, s := range body {
		if !isSimple(s) {
			allSimple = false
		}
	}
	if allSimple && w.chance(w.lay.OneLineSuites) {
		w.sp()
		for i, s := range body {
			if i > 0 {
				w.tok(";")
				w.spMaybe()
			}
			w.simple(s)
		}
		w.newline()
		return
	}
	w.newline()
	in := indent + "    "
	if !w.lay.Minimal {
		switch w.r.Intn(5) {
		case 0:
			in = indent + " "
		case 1:
			in = indent + "  "
		case 2:
			if w.lay.Tabs && !strings.Contains(indent, " ") {
				in = indent + "\t"
			}
		case 3:
			in = indent + "        "
		}
	}
	w.stmts(body, in)
}

func (w *renderer) stmt(s syntax.Stmt, indent string) {
	switch s := s.(type) {
	case *syntax.DefStmt:
		s.Def = w.tok("def")
		s.Name.NamePos = w.tok(s.Name.Name)
		s.Lparen = w.open("(")
		trailing := len(s.Params) > 0 && !isStarArg(s.Params[len(s.Params)-1])
		w.commaList(len(s.Params), trailing, func(i int) { w.param(s.Params[i]) })
		s.Rparen = w.close(")")
		w.tok(":")
		w.suite(s.Body, indent)
	case *syntax.IfStmt:
		w.ifStmt(s, "if", indent)
	case *syntax.ForStmt:
		s.For = w.tok("for")
		w.loopVars(s.Vars)
		w.tok("in")
		w.expr(s.X, precLowest)
		w.tok(":")
		w.suite(s.Body, indent)
	case *syntax.WhileStmt:
		s.While = w.tok("while")
		w.expr(s.Cond, precLowest)
		w.tok(":")
		w.suite(s.Body, indent)
	default:
		w.simple(s)
	}
}

func (w *renderer) ifStmt(s *syntax.IfStmt, kw string, indent string) {
	s.If = w.tok(kw)
	w.expr(s.Cond, precLowest)
	w.tok(":")
	w.suite(s.True, indent)
	if s.False == nil {
		return
	}
	// 'elif' is represented as an else branch holding a single IfStmt (as the parser does).
	if len(s.False) == 1 {
		if inner, ok := s.False[0].(*syntax.IfStmt); ok && w.elif[inner] {
			w.raw(indent)
			w.atStart = true
			s.ElsePos = w.pos()
			w.ifStmt(inner, "elif", indent)
			return
		}
	}
	w.raw(indent)
	w.atStart = true
	s.ElsePos = w.tok("else")
	w.tok(":")
	w.suite(s.False, indent)
}

func (w *renderer) simple(s syntax.Stmt) {
	switch s := s.(type) {
	case *syntax.ExprStmt:
		w.expr(s.X, precLowest)
	case *syntax.AssignStmt:
		w.expr(s.LHS, precLowest)
		w.spMaybe()
		s.OpPos = w.tok(s.Op.String())
		w.spMaybe()
		w.expr(s.RHS, precLowest)
	case *syntax.BranchStmt:
		s.TokenPos = w.tok(s.Token.String())
	case *syntax.ReturnStmt:
		s.Return = w.tok("return")
		if s.Result != nil {
			w.expr(s.Result, precLowest)
		}
	case *syntax.LoadStmt:
		s.Load = w.tok("load")
		w.open("(")
		w.expr1(s.Module)
		for i := range s.From {
			w.tok(",")
			w.spMaybe()
			if s.To[i].Name != s.From[i].Name {
				s.To[i].NamePos = w.tok(s.To[i].Name)
				w.tok("=")
				lit := &syntax.Literal{Token: syntax.STRING, Value: s.From[i].Name}
				lit.Raw = strconv.Quote(s.From[i].Name)
				lit.TokenPos = w.tok(lit.Raw)
				s.From[i].NamePos = offsetCol(lit.TokenPos, 1)
			} else {
				raw := strconv.Quote(s.From[i].Name)
				p := w.tok(raw)
				s.From[i].NamePos = offsetCol(p, 1)
				s.To[i].NamePos = s.From[i].NamePos
			}
		}
		if w.chance(w.lay.TrailingComma) {
			w.tok(",")
		}
		s.Rparen = w.close(")")
	default:
		panic(fmt.Sprintf("render: unexpected stmt %T", s))
	}
}

func offsetCol(p syntax.Position, d int32) syntax.Position {
	f := p.Filename()
	return syntax.MakePosition(&f, p.Line, p.Col+d)
}

// DefaultSpelling returns the canonical spelling of a literal value.
func DefaultSpelling(e *syntax.Literal) string {
	switch e.Token {
	case syntax.INT:
		switch v := e.Value.(type) {
		case int64:
			return strconv.FormatInt(v, 10)
		case *big.Int:
			return v.String()
		}
	case syntax.FLOAT:
		f := e.Value.(float64)
		s := strconv.FormatFloat(f, 'g', -1, 64)
		if !strings.ContainsAny(s, ".e") || math.IsInf(f, 0) {
			s += ".0"
		}
		return s
	case syntax.STRING:
		return syntax.Quote(e.Value.(string), false)
	case syntax.BYTES:
		return syntax.Quote(e.Value.(string), true)
	}
	panic(fmt.Sprintf("DefaultSpelling: %v %T", e.Token, e.Value))
}

var _ = utf8.RuneLen
