package gen

import (
	"fmt"
	"math/rand"
	"sort"
	"strings"
	"testing"

	"go.starlark.net/starlark"
	"go.starlark.net/syntax"
)

func hostEnv(ticks *int) starlark.StringDict {
	return starlark.StringDict{
		"t": starlark.NewBuiltin("t", func(_ *starlark.Thread, _ *starlark.Builtin, args starlark.Tuple, _ []starlark.Tuple) (starlark.Value, error) {
			return args[1], nil
		}),
		"tick": starlark.NewBuiltin("tick", func(_ *starlark.Thread, _ *starlark.Builtin, args starlark.Tuple, _ []starlark.Tuple) (starlark.Value, error) {
			*ticks++
			return starlark.MakeInt(*ticks), nil
		}),
		"trace": starlark.NewBuiltin("trace", func(_ *starlark.Thread, _ *starlark.Builtin, args starlark.Tuple, _ []starlark.Tuple) (starlark.Value, error) {
			return starlark.None, nil
		}),
	}
}

func TestGeneratedProgramsAreValid(t *testing.T) {
	stats := map[string]int{}
	feats := map[string]int{}
	for i := 0; i < 4000; i++ {
		r := rand.New(rand.NewSource(int64(i)))
		bits := r.Intn(32)
		opts := syntax.FileOptions{Set: bits&1 != 0, While: bits&2 != 0, TopLevelControl: bits&4 != 0, GlobalReassign: bits&8 != 0, Recursion: bits&16 != 0}
		p := Generate(r, Config{Opts: opts, Trace: true, Host: true, Loads: true})
		for k, v := range p.Features {
			feats[k] += v
		}
		o := p.Options(RandomLayout(r))
		src := Render(p.Stmts, r, o)
		f, err := opts.Parse("p.star", src, 0)
		if err != nil {
			t.Fatalf("program %d does not parse: %v\n%s", i, err, src)
		}
		if err := CompareStmts(p.Stmts, f.Stmts, CompareOpts{Positions: true}); err != nil {
			t.Fatalf("program %d: tree differs: %v\n%s", i, err, src)
		}
		ticks := 0
		th := &starlark.Thread{Load: func(*starlark.Thread, string) (starlark.StringDict, error) {
			return starlark.StringDict{"la": starlark.MakeInt(3), "lb": starlark.MakeInt(4)}, nil
		}}
		th.SetMaxExecutionSteps(100000)
		_, err = starlark.ExecFileOptions(&opts, th, "p.star", src, hostEnv(&ticks))
		switch e := err.(type) {
		case nil:
			stats["ok"]++
		case *starlark.EvalError:
			msg := e.Msg
			if i := strings.IndexAny(msg, ":("); i > 0 {
				msg = msg[:i]
			}
			stats["dynamic: "+msg]++
		default:
			stats["STATIC"]++
			if stats["STATIC"] < 4 {
				t.Errorf("program %d is statically invalid (opts %+v): %v\n%s", i, opts, err, src)
			}
		}
		stats["steps"] += int(th.ExecutionSteps())
	}
	var keys []string
	for k := range stats {
		keys = append(keys, k)
	}
	sort.Strings(keys)
	for _, k := range keys {
		t.Logf("%-60s %d", k, stats[k])
	}
	var fk []string
	for k, v := range feats {
		fk = append(fk, fmt.Sprintf("%s=%d", k, v))
	}
	sort.Strings(fk)
	t.Log(strings.Join(fk, " "))
}
