package gen

import "go.starlark.net/syntax"

// FromParsed returns the render options (unparenthesised tuples, elif spellings) that reproduce
// the token sequence of a tree obtained from the parser.
func FromParsed(stmts []syntax.Stmt) Options {
	o := Options{NoParen: map[*syntax.TupleExpr]bool{}, Elif: map[*syntax.IfStmt]bool{}}
	for _, s := range stmts {
		syntax.Walk(s, func(n syntax.Node) bool {
			switch n := n.(type) {
			case *syntax.TupleExpr:
				if !n.Lparen.IsValid() {
					o.NoParen[n] = true
				}
			case *syntax.IfStmt:
				if len(n.False) == 1 {
					if inner, ok := n.False[0].(*syntax.IfStmt); ok && inner.If == n.ElsePos {
						o.Elif[inner] = true
					}
				}
			}
			return true
		})
	}
	return o
}
