package gen

import (
	"fmt"
	"strings"

	"go.starlark.net/syntax"
)

// Directed templates for scoping, closures, aliasing and defaults. Each is a source snippet whose
// identifiers starting with '_' are replaced by fresh names; it is parsed once (only to build the
// tree: the rendered program is re-parsed by the system under test like any other).
var templates = []struct {
	name     string
	needsTop bool // only valid at module level
	inFunc   bool // wrap in a function when emitted at module level without TopLevelControl
	src      string
}{
	{"late-binding-closure", false, true, `
def _f():
    def _g():
        return _v
    _v = 5
    return _g()
trace("late", _f())
`},
	{"loop-var-capture", false, true, `
def _f():
    _fs = [lambda: _i for _i in range(3)]
    _hs = []
    for _j in range(3):
        _hs.append(lambda _k=_j: (_j, _k))
    return [_x() for _x in _fs] + [_h() for _h in _hs]
trace("capture", _f())
`},
	{"local-shadows-global-after-use", false, true, `
_gv = 1
def _f(_flag):
    if _flag:
        trace("shadow-use", _gv)
    _gv = 2
    return _gv
trace("shadow", _f(False))
trace("shadow", _f(True))
`},
	{"comprehension-scope", false, true, `
def _f():
    _v = 1
    _l = [_v * 2 for _v in [5, 6]]
    _m = [[_a * _b for _b in range(_a)] for _a in range(4)]
    _d = {_k: _v for _k in "ab" .elems()}
    return (_v, _l, _m, _d)
trace("compscope", _f())
`},
	{"shared-mutable-default", false, true, `
def _f(_x, _acc=[]):
    _acc.append(_x)
    return len(_acc)
trace("default", _f(1), _f(2), _f(3, []), _f(4))
`},
	{"forward-global-reference", true, false, `
def _a():
    return _b() + 1
def _b():
    return 41
trace("forward", _a())
`},
	{"param-shadows-builtin", false, true, `
def _f(len, str=3):
    return len + str
trace("shadowbuiltin", _f(1), len("abc"))
`},
	{"inplace-aliasing", false, true, `
def _f():
    _a = [1]
    _b = _a
    _a += [2]
    _c = _a
    _a = _a + [3]
    _d = {"k": 1}
    _e = _d
    _d |= {"j": 2}
    _t = (1,)
    _u = _t
    _t += (2,)
    return (_a, _b, _c, _d, _e, _t, _u)
trace("alias", _f())
`},
	{"inplace-index-attr-aliasing", false, true, `
def _f(_o):
    _grid = [[], [0]]
    _row = _grid[0]
    _grid[0] += [1]
    _grid[0] += (2,)
    _grid[t(905, 1)] += [t(906, 3)]
    _d = {"k": {"a": 1}}
    _inner = _d["k"]
    _d["k"] |= {"b": 2}
    _o.g = []
    _al = _o.g
    _o.g += [5]
    _o.g += (6,)
    _o.h = {}
    _ah = _o.h
    _o.h |= {"z": 1}
    return (_grid, _row, _d, _inner, _al, _o.g, _ah)
trace("inplace-index", _f(obj()))
`},
	{"plus-chain-folding-order", false, true, `
def _f(_x):
    return _x + [t(907, 1)] + [t(908, 2)] + [t(909, 3)]
def _g(_x):
    return _x + "a" + "b" + str(t(910, 4)) + "c" + "d"
def _h(_x):
    return (t(911, 0),) + (t(912, 1),) + _x + (t(913, 2),) + (t(914, 3),)
trace("fold", _g("s"), _h(()))
trace("fold", _f([0]))
trace("fold", _h(0))
`},
	{"plus-chain-folding-order-failing-left", false, true, `
def _f(_x):
    return _x + [t(915, 1)] + [t(916, 2)]
trace("foldfail", _f(0))
`},
	{"operand-grouping", false, true, `
def _f(_a, _b, _c):
    return (_a + (_b + _c), (_a + _b) + _c, _a - (_b - _c), _a * (_b * _c), (_a * _b) * _c, _a / (_b / _c))
def _g(_a, _b, _c):
    return _a + (_b + _c)
trace("group", _f(0.1, 0.2, 0.3), _f(1e16, 1.0, 1.0), _f(1e308, 1e308, -1e308))
trace("group", 0.1 + (0.2 + 0.3), 1e16 + (1.0 + 1.0), "a" + ("b" + "c"), [1] + ([2] + [3]), 1e16 + (1.0 + (1.0 + (1.0 + 1.0))))
trace("group", _g("a", "b", "c"), _g([t(920, 1)], [t(921, 2)], [t(922, 3)]), _g((1,), (2,), (3,)))
trace("group", {"a": 1} | ({"b": 2} | {"a": 3}), ({"a": 1} | {"b": 2}) | {"a": 3}, 7 - (4 - 2), 64 // (8 // 2), 2 * (3 % 2))
`},
	{"operand-grouping-failing-left", false, true, `
def _f():
    return t(923, 1) + (t(924, "s") + t(925, "t"))
trace("groupfail", _f())
`},
	{"operand-grouping-failing-literal", false, true, `
def _f(_x):
    return _x + ("a" + "b") + ("c" + str(t(926, 1)))
trace("groupfail", _f("z"))
trace("groupfail", _f(0))
`},
	{"nested-unpack-for", false, true, `
def _f():
    _out = []
    for (_a, _b), _c in [((1, 2), 3), ((4, 5), 6)]:
        _out.append(_a + _b * _c)
    [_p, [_q, _r]] = [7, (8, 9)]
    return (_out, _p, _q, _r)
trace("unpack", _f())
`},
	{"counter-closure", false, true, `
def _mk():
    _n = [0]
    def _inc(_by=1):
        _n[0] += _by
        return _n[0]
    def _get():
        return _n[0]
    return _inc, _get
_i1, _g1 = _mk()
_i2, _g2 = _mk()
trace("counter", _i1(), _i1(5), _i2(), _g1(), _g2())
`},
	{"kwargs-order", false, true, `
def _f(*_args, **_kw):
    return (_args, list(_kw.items()))
trace("kwargs", _f(1, 2, z=1, a=2, **{"m": 3, "b": 4}), _f(*[3, 4], **{"q": 1}))
`},
	{"attr-assign", false, true, `
def _f(_o):
    _o.f = 1
    _o.f += t(900, 2)
    _o.g = [_o.f]
    _o.g += [4]
    return (_o.f, _o.g)
trace("attr", _f(obj()))
`},
	{"attr-augassign-effectful-object", false, true, `
def _f():
    _os = [obj(), obj()]
    _os[0].n = 1
    _os[1].n = 100
    _k = [0]
    def _next():
        _k[0] += 1
        return _k[0] - 1
    def _get(_i):
        trace("get", _i)
        return _os[_i % 2]
    _os[_next()].n += 5
    _get(0).n += 10
    _get(1).n *= 2
    _os[tick() % 2].n -= t(931, 3)
    (_get(0)).n |= 8
    return (_os[0].n, _os[1].n, _k[0])
trace("attr-aug", _f())
`},
	{"return-in-loop-in-comprehension-callee", false, true, `
def _first(_l, _p):
    for _x in _l:
        if _p(_x):
            return _x
    return None
trace("first", [_first([1, 2, 3, 4], lambda _v, _n=_n: _v > _n) for _n in range(5)])
`},
	{"and-or-values", false, true, `
def _f(_a, _b):
    return (_a and _b, _a or _b, not _a, _a and _b or "z", _a if _b else "n")
trace("andor", _f(0, 1), _f([], {}), _f("x", None), _f(2, 3))
`},
	{"mutual-recursion", false, true, `
def _even(_n):
    return True if _n == 0 else _odd(_n - 1)
def _odd(_n):
    return False if _n == 0 else _even(_n - 1)
trace("mutual", _even(4))
`},
	{"dict-literal-order-and-dup", false, true, `
def _f(_k):
    return {t(901, "a"): t(902, 1), t(903, _k): t(904, 2)}
trace("dictlit", _f("b"))
trace("dictlit", _f("a"))
`},
}

// template instantiates one directed template with fresh identifiers.
func (g *g) template() []syntax.Stmt {
	for try := 0; try < 10; try++ {
		t := templates[g.r.Intn(len(templates))]
		if !g.cfg.Host {
			return nil
		}
		if t.needsTop && !g.atTop() {
			continue
		}
		if !g.atTop() && strings.Contains(t.src, "\ndef ") && g.sc.inLoop {
			continue
		}
		opts := &syntax.FileOptions{Set: true, While: true, TopLevelControl: true, GlobalReassign: true, Recursion: true}
		f, err := opts.Parse("template", t.src, 0)
		if err != nil {
			panic(fmt.Sprintf("gen: template %s: %v", t.name, err))
		}
		g.uniq++
		suffix := fmt.Sprintf("_%d", g.uniq)
		rename := func(id *syntax.Ident) {
			if strings.HasPrefix(id.Name, "_") {
				id.Name = "z" + id.Name[1:] + suffix
			}
		}
		for _, s := range f.Stmts {
			syntax.Walk(s, func(n syntax.Node) bool {
				switch n := n.(type) {
				case *syntax.Ident:
					rename(n)
				case *syntax.Literal:
					n.Raw = "" // let the renderer choose the spelling
				}
				return true
			})
		}
		o := FromParsed(f.Stmts)
		for k, v := range o.NoParen {
			g.p.NoParen[k] = v
		}
		for k, v := range o.Elif {
			g.p.Elif[k] = v
		}
		g.feat("template:" + t.name)
		return f.Stmts
	}
	return nil
}
