package gen

import (
	"fmt"
	"math/big"
	"math/rand"

	"go.starlark.net/syntax"
)

// Kind is the approximate dynamic type the generator aims for (errors are welcome, but most
// programs should run for a while).
type Kind int

const (
	KInt Kind = iota
	KBool
	KStr
	KList // list of ints
	KDict // dict str -> int
	KTuple
	KFunc
	KAny
)

// Config bounds a generated program.
type Config struct {
	Opts      syntax.FileOptions // dialect: Set, While, Recursion, TopLevelControl, GlobalReassign are honoured
	MaxStmts  int                // top-level statements (default 12)
	MaxDepth  int                // expression depth (default 4)
	Trace     bool               // wrap sub-expressions in t(tag, e) (host function returning e) to expose evaluation order
	Loads     bool               // may begin with load("m.star", "la", lb="lb") binding ints la, lb
	Host      bool               // may call host functions tick() -> int and trace(...) -> None
	Templates bool               // mix in directed scoping/closure/aliasing templates (they call trace, t and obj)
	Misuse    float64            // probability of deliberately ill-typed / erroneous constructs (default 0.004)
}

// Program is a generated module.
type Program struct {
	Stmts    []syntax.Stmt
	NoParen  map[*syntax.TupleExpr]bool
	Elif     map[*syntax.IfStmt]bool
	Features map[string]int
}

// Options returns render options for the program with the given layout.
func (p *Program) Options(l Layout) Options {
	np := map[*syntax.TupleExpr]bool{}
	for k, v := range p.NoParen {
		np[k] = v
	}
	return Options{Layout: l, Filename: "prog.star", NoParen: np, Elif: p.Elif}
}

type variable struct {
	name string
	kind Kind
	fn   *function
}

type function struct {
	name       string
	npos       int // positional parameters p0..p(npos-1)
	nopt       int // how many of them (the last ones) have defaults
	varargs    bool
	kwonly     []string
	kwoptional []bool
	kwargs     bool
	ret        Kind
}

type scope struct {
	parent   *scope
	vars     []*variable
	isFunc   bool
	inLoop   bool
	assigned map[string]bool // globals assigned at top level (for !GlobalReassign)
}

type g struct {
	r     *rand.Rand
	cfg   Config
	p     *Program
	tag   int
	uniq  int
	sc    *scope
	top   *scope
	funcs []*function
}

func (g *g) feat(s string) { g.p.Features[s]++ }

func (g *g) chance(p float64) bool { return g.r.Float64() < p }

func id(name string) *syntax.Ident { return &syntax.Ident{Name: name} }

func intLit(n int64) syntax.Expr {
	if n < 0 {
		return &syntax.UnaryExpr{Op: syntax.MINUS, X: &syntax.Literal{Token: syntax.INT, Value: -n}}
	}
	return &syntax.Literal{Token: syntax.INT, Value: n}
}

func strLit(s string) syntax.Expr { return &syntax.Literal{Token: syntax.STRING, Value: s} }

func call(fn syntax.Expr, args ...syntax.Expr) *syntax.CallExpr {
	return &syntax.CallExpr{Fn: fn, Args: args}
}

func dot(x syntax.Expr, name string) syntax.Expr { return &syntax.DotExpr{X: x, Name: id(name)} }

func bin(op syntax.Token, x, y syntax.Expr) syntax.Expr {
	return &syntax.BinaryExpr{Op: op, X: x, Y: y}
}

func named(name string, v syntax.Expr) syntax.Expr {
	return &syntax.BinaryExpr{Op: syntax.EQ, X: id(name), Y: v}
}

// Generate builds a random program.
func Generate(r *rand.Rand, cfg Config) *Program {
	if cfg.MaxStmts == 0 {
		cfg.MaxStmts = 12
	}
	if cfg.MaxDepth == 0 {
		cfg.MaxDepth = 4
	}
	if cfg.Misuse == 0 {
		cfg.Misuse = 0.004
	}
	gg := &g{r: r, cfg: cfg, p: &Program{NoParen: map[*syntax.TupleExpr]bool{}, Elif: map[*syntax.IfStmt]bool{}, Features: map[string]int{}}}
	gg.top = &scope{assigned: map[string]bool{}}
	gg.sc = gg.top
	var stmts []syntax.Stmt
	if cfg.Loads && gg.chance(0.5) {
		ld := &syntax.LoadStmt{Module: &syntax.Literal{Token: syntax.STRING, Value: "m.star"},
			From: []*syntax.Ident{id("la"), id("lb")}, To: []*syntax.Ident{id("la"), id("lx")}}
		stmts = append(stmts, ld)
		gg.top.vars = append(gg.top.vars, &variable{name: "la", kind: KInt}, &variable{name: "lx", kind: KInt})
		gg.top.assigned["la"], gg.top.assigned["lx"] = true, true
		gg.feat("load")
	}
	n := 3 + r.Intn(cfg.MaxStmts)
	for i := 0; i < n; i++ {
		stmts = append(stmts, gg.stmt(0)...)
	}
	gg.p.Stmts = stmts
	return gg.p
}

func (g *g) fresh(prefix string) string {
	g.uniq++
	return fmt.Sprintf("%s%d", prefix, g.uniq)
}

// visible variables of a kind (innermost first)
func (g *g) vars(k Kind) []*variable {
	var out []*variable
	for s := g.sc; s != nil; s = s.parent {
		for _, v := range s.vars {
			if v.kind == k || k == KAny {
				out = append(out, v)
			}
		}
	}
	return out
}

func (g *g) pickVar(k Kind) *variable {
	vs := g.vars(k)
	if len(vs) == 0 {
		return nil
	}
	return vs[g.r.Intn(len(vs))]
}

// traced wraps e in t(tag, e) when tracing is on.
func (g *g) traced(e syntax.Expr) syntax.Expr {
	if g.cfg.Trace && g.chance(0.3) {
		g.tag++
		g.feat("trace-wrap")
		return call(id("t"), intLit(int64(g.tag)), e)
	}
	return e
}

// ---- expressions ----

func (g *g) expr(k Kind, d int) syntax.Expr {
	if g.chance(g.cfg.Misuse) {
		k = Kind(g.r.Intn(int(KFunc))) // wrong kind on purpose
		g.feat("misuse-kind")
	}
	var e syntax.Expr
	switch k {
	case KInt:
		e = g.intExpr(d)
	case KBool:
		e = g.boolExpr(d)
	case KStr:
		e = g.strExpr(d)
	case KList:
		e = g.listExpr(d)
	case KDict:
		e = g.dictExpr(d)
	case KTuple:
		e = &syntax.TupleExpr{List: []syntax.Expr{g.expr(KInt, d+1), g.expr(KInt, d+1)}}
	default:
		e = g.intExpr(d)
	}
	return g.traced(e)
}

var intOps = []syntax.Token{syntax.PLUS, syntax.MINUS, syntax.STAR, syntax.SLASHSLASH, syntax.PERCENT, syntax.AMP, syntax.PIPE, syntax.CIRCUMFLEX, syntax.LTLT, syntax.GTGT}

func (g *g) intExpr(d int) syntax.Expr {
	if d >= g.cfg.MaxDepth {
		if v := g.pickVar(KInt); v != nil && g.chance(0.6) {
			return id(v.name)
		}
		return intLit(int64(g.r.Intn(20) - 3))
	}
	switch g.r.Intn(14) {
	case 0, 1:
		if v := g.pickVar(KInt); v != nil {
			return id(v.name)
		}
		return intLit(int64(g.r.Intn(100)))
	case 2:
		vals := []int64{0, 1, 2, 7, 10, 255, 1 << 31, 1 << 40, -1, 3}
		if g.chance(0.1) {
			g.feat("big-int-const")
			b := new(big.Int).Lsh(big.NewInt(int64(1+g.r.Intn(9))), uint(64+g.r.Intn(40)))
			return &syntax.Literal{Token: syntax.INT, Value: b}
		}
		return intLit(vals[g.r.Intn(len(vals))])
	case 3, 4:
		op := intOps[g.r.Intn(len(intOps))]
		y := g.expr(KInt, d+1)
		if op == syntax.LTLT || op == syntax.GTGT {
			y = intLit(int64(g.r.Intn(5)))
		}
		if (op == syntax.SLASHSLASH || op == syntax.PERCENT) && g.chance(0.8) {
			y = bin(syntax.PLUS, bin(syntax.PERCENT, y, intLit(7)), intLit(1)) // mostly non-zero divisors
		}
		g.feat("binop")
		return bin(op, g.expr(KInt, d+1), y)
	case 5:
		g.feat("unary")
		return &syntax.UnaryExpr{Op: []syntax.Token{syntax.MINUS, syntax.PLUS, syntax.TILDE}[g.r.Intn(3)], X: g.expr(KInt, d+1)}
	case 6:
		g.feat("len")
		return call(id("len"), g.expr([]Kind{KList, KStr, KDict}[g.r.Intn(3)], d+1))
	case 7:
		if v := g.pickVar(KList); v != nil {
			g.feat("index")
			return &syntax.IndexExpr{X: id(v.name), Y: g.smallIndex(d)}
		}
		return &syntax.IndexExpr{X: bin(syntax.PLUS, g.listExpr(d+1), &syntax.ListExpr{List: []syntax.Expr{intLit(0)}}), Y: intLit(0)}
	case 8:
		g.feat("cond-expr")
		return &syntax.CondExpr{Cond: g.expr(KBool, d+1), True: g.expr(KInt, d+1), False: g.expr(KInt, d+1)}
	case 9:
		if f := g.pickFunc(KInt); f != nil {
			return g.callFunc(f, d)
		}
		return intLit(4)
	case 10:
		if v := g.pickVar(KDict); v != nil {
			g.feat("dict-get")
			return call(dot(id(v.name), "get"), strLit(g.key()), intLit(0))
		}
		return intLit(5)
	case 11:
		g.feat("and-or-value")
		op := []syntax.Token{syntax.AND, syntax.OR}[g.r.Intn(2)]
		return bin(op, g.expr(KInt, d+1), g.expr(KInt, d+1))
	case 12:
		if g.cfg.Host {
			g.feat("tick")
			return call(id("tick"))
		}
		return intLit(6)
	default:
		g.feat("lambda-call")
		lam := &syntax.LambdaExpr{Params: []syntax.Expr{id("q"), &syntax.BinaryExpr{Op: syntax.EQ, X: id("w"), Y: intLit(2)}}, Body: bin(syntax.PLUS, bin(syntax.STAR, id("q"), id("w")), g.closedInt(d+1))}
		return call(lam, g.expr(KInt, d+1))
	}
}

// closedInt is an int expression that may refer to enclosing variables (captured by lambdas).
func (g *g) closedInt(d int) syntax.Expr {
	if v := g.pickVar(KInt); v != nil && g.chance(0.7) {
		g.feat("lambda-capture")
		return id(v.name)
	}
	return intLit(1)
}

func (g *g) smallIndex(d int) syntax.Expr {
	if g.chance(0.85) {
		return intLit(int64(g.r.Intn(2) - 1)) // 0 or -1: valid for any non-empty list
	}
	return g.expr(KInt, d+1)
}

var cmpOps = []syntax.Token{syntax.EQL, syntax.NEQ, syntax.LT, syntax.GT, syntax.LE, syntax.GE}

func (g *g) boolExpr(d int) syntax.Expr {
	if d >= g.cfg.MaxDepth {
		return bin(cmpOps[g.r.Intn(len(cmpOps))], g.intExpr(d), intLit(int64(g.r.Intn(10))))
	}
	switch g.r.Intn(8) {
	case 0, 1, 2:
		g.feat("compare")
		return bin(cmpOps[g.r.Intn(len(cmpOps))], g.expr(KInt, d+1), g.expr(KInt, d+1))
	case 3:
		g.feat("not")
		return &syntax.UnaryExpr{Op: syntax.NOT, X: g.expr(KBool, d+1)}
	case 4:
		g.feat("and-or")
		return bin([]syntax.Token{syntax.AND, syntax.OR}[g.r.Intn(2)], g.expr(KBool, d+1), g.expr(KBool, d+1))
	case 5:
		g.feat("in")
		op := []syntax.Token{syntax.IN, syntax.NOT_IN}[g.r.Intn(2)]
		return bin(op, g.expr(KInt, d+1), g.expr(KList, d+1))
	case 6:
		g.feat("str-compare")
		return bin(cmpOps[g.r.Intn(len(cmpOps))], g.expr(KStr, d+1), g.expr(KStr, d+1))
	default:
		return id([]string{"True", "False"}[g.r.Intn(2)])
	}
}

var words = []string{"a", "b", "ab", "k1", "k2", "xyz", "", "hello world", "Z"}

func (g *g) key() string { return []string{"a", "b", "k1", "k2"}[g.r.Intn(4)] }

func (g *g) strExpr(d int) syntax.Expr {
	if d >= g.cfg.MaxDepth {
		if v := g.pickVar(KStr); v != nil && g.chance(0.5) {
			return id(v.name)
		}
		return strLit(words[g.r.Intn(len(words))])
	}
	switch g.r.Intn(8) {
	case 0:
		if v := g.pickVar(KStr); v != nil {
			return id(v.name)
		}
		return strLit("s")
	case 1:
		g.feat("str-concat")
		// chains of '+' over literals and non-literals exercise constant folding
		e := g.strExpr(d + 1)
		for i, n := 0, 1+g.r.Intn(3); i < n; i++ {
			if g.chance(0.6) {
				e = bin(syntax.PLUS, e, strLit(words[g.r.Intn(len(words))]))
			} else {
				e = bin(syntax.PLUS, e, g.strExpr(d+2))
			}
		}
		return e
	case 2:
		g.feat("str-format")
		return bin(syntax.PERCENT, strLit("%d-%s"), &syntax.TupleExpr{List: []syntax.Expr{g.expr(KInt, d+1), g.expr(KStr, d+1)}})
	case 3:
		g.feat("str-method")
		m := []string{"upper", "lower", "strip", "title"}[g.r.Intn(4)]
		return call(dot(g.expr(KStr, d+1), m))
	case 4:
		g.feat("str-of")
		return call(id("str"), g.expr([]Kind{KInt, KList, KBool, KDict}[g.r.Intn(4)], d+1))
	case 5:
		g.feat("slice")
		return &syntax.SliceExpr{X: g.expr(KStr, d+1), Lo: g.optIndex(d), Hi: g.optIndex(d), Step: g.optStep()}
	case 6:
		g.feat("str-repeat")
		return bin(syntax.STAR, g.expr(KStr, d+1), intLit(int64(g.r.Intn(3))))
	default:
		return strLit(words[g.r.Intn(len(words))])
	}
}

func (g *g) optIndex(d int) syntax.Expr {
	if g.chance(0.4) {
		return nil
	}
	return intLit(int64(g.r.Intn(7) - 3))
}

func (g *g) optStep() syntax.Expr {
	if g.chance(0.7) {
		return nil
	}
	return intLit([]int64{1, 2, -1, -2}[g.r.Intn(4)])
}

func (g *g) listExpr(d int) syntax.Expr {
	if d >= g.cfg.MaxDepth {
		if v := g.pickVar(KList); v != nil && g.chance(0.5) {
			return id(v.name)
		}
		return &syntax.ListExpr{List: []syntax.Expr{intLit(1), intLit(2)}}
	}
	switch g.r.Intn(9) {
	case 0:
		if v := g.pickVar(KList); v != nil {
			return id(v.name)
		}
		fallthrough
	case 1:
		n := 1 + g.r.Intn(3)
		if g.chance(0.05) {
			n = 0
		}
		l := &syntax.ListExpr{}
		for i := 0; i < n; i++ {
			l.List = append(l.List, g.expr(KInt, d+1))
		}
		g.feat("list-literal")
		return l
	case 2:
		g.feat("list-comp")
		return g.comprehension(d, false)
	case 3:
		g.feat("list-concat")
		e := g.listExpr(d + 1)
		for i, n := 0, 1+g.r.Intn(2); i < n; i++ {
			if g.chance(0.5) {
				e = bin(syntax.PLUS, e, &syntax.ListExpr{List: []syntax.Expr{intLit(int64(i))}})
			} else {
				e = bin(syntax.PLUS, e, g.listExpr(d+2))
			}
		}
		return e
	case 4:
		g.feat("range")
		return call(id("list"), call(id("range"), intLit(int64(1+g.r.Intn(4)))))
	case 5:
		g.feat("sorted")
		args := []syntax.Expr{g.expr(KList, d+1)}
		if g.chance(0.5) {
			args = append(args, named("reverse", id("True")))
		}
		if g.chance(0.3) {
			args = append(args, named("key", &syntax.LambdaExpr{Params: []syntax.Expr{id("q")}, Body: &syntax.UnaryExpr{Op: syntax.MINUS, X: id("q")}}))
		}
		return call(id("sorted"), args...)
	case 6:
		g.feat("slice")
		return &syntax.SliceExpr{X: g.expr(KList, d+1), Lo: g.optIndex(d), Hi: g.optIndex(d), Step: g.optStep()}
	case 7:
		g.feat("list-repeat")
		return bin(syntax.STAR, g.expr(KList, d+1), intLit(int64(1+g.r.Intn(2))))
	default:
		if v := g.pickVar(KDict); v != nil {
			g.feat("dict-keys")
			return call(dot(id(v.name), []string{"keys", "values"}[g.r.Intn(2)]))
		}
		return &syntax.ListExpr{}
	}
}

// comprehension builds [body for x in L (if c | for y in L2)*] or the dict form.
func (g *g) comprehension(d int, curly bool) syntax.Expr {
	saved := g.sc
	cs := &scope{parent: saved, isFunc: saved.isFunc}
	g.sc = cs
	defer func() { g.sc = saved }()
	c := &syntax.Comprehension{Curly: curly}
	nfor := 1 + g.r.Intn(2)
	for i := 0; i < nfor; i++ {
		name := g.fresh("c")
		// the first iterable is evaluated in the enclosing scope; later ones may use earlier variables
		var x syntax.Expr
		if i == 0 {
			g.sc = saved
			x = g.exprNoCond(KList, d+1)
			g.sc = cs
		} else {
			x = g.exprNoCond(KList, d+1)
		}
		if g.chance(0.25) {
			// tuple target over enumerate
			n2 := g.fresh("c")
			t := &syntax.TupleExpr{List: []syntax.Expr{id(name), id(n2)}}
			g.p.NoParen[t] = g.chance(0.7)
			c.Clauses = append(c.Clauses, &syntax.ForClause{Vars: t, X: call(id("enumerate"), x)})
			g.sc.vars = append(g.sc.vars, &variable{name: name, kind: KInt}, &variable{name: n2, kind: KInt})
			g.feat("comp-tuple-target")
		} else {
			c.Clauses = append(c.Clauses, &syntax.ForClause{Vars: id(name), X: x})
			g.sc.vars = append(g.sc.vars, &variable{name: name, kind: KInt})
		}
		if g.chance(0.4) {
			c.Clauses = append(c.Clauses, &syntax.IfClause{Cond: g.exprNoCond(KBool, d+1)})
			g.feat("comp-if")
		}
	}
	if nfor > 1 {
		g.feat("comp-nested-for")
	}
	if curly {
		c.Body = &syntax.DictEntry{Key: g.expr(KStr, d+1), Value: g.expr(KInt, d+1)}
	} else {
		c.Body = g.expr(KInt, d+1)
	}
	return c
}

// exprNoCond is expr but never a bare conditional/lambda at the top (renderer parenthesises anyway).
func (g *g) exprNoCond(k Kind, d int) syntax.Expr { return g.expr(k, d) }

func (g *g) dictExpr(d int) syntax.Expr {
	if d >= g.cfg.MaxDepth || g.chance(0.3) {
		if v := g.pickVar(KDict); v != nil && g.chance(0.5) {
			return id(v.name)
		}
		de := &syntax.DictExpr{}
		keys := g.r.Perm(4)[:g.r.Intn(3)]
		for _, k := range keys {
			de.List = append(de.List, &syntax.DictEntry{Key: strLit([]string{"a", "b", "k1", "k2"}[k]), Value: g.expr(KInt, d+1)})
		}
		if g.chance(g.cfg.Misuse) && len(de.List) > 0 {
			dup := de.List[0].(*syntax.DictEntry).Key.(*syntax.Literal).Value.(string)
			de.List = append(de.List, &syntax.DictEntry{Key: strLit(dup), Value: intLit(9)}) // duplicate key: dynamic error
			g.feat("dict-dup-key")
		}
		g.feat("dict-literal")
		return de
	}
	switch g.r.Intn(3) {
	case 0:
		g.feat("dict-comp")
		return g.comprehension(d, true)
	case 1:
		g.feat("dict-union")
		return bin(syntax.PIPE, g.dictExpr(d+1), g.dictExpr(d+1))
	default:
		g.feat("dict-call")
		return call(id("dict"), named("a", g.expr(KInt, d+1)), named("zz", g.expr(KInt, d+1)))
	}
}

func (g *g) pickFunc(ret Kind) *function {
	var c []*function
	for sc := g.sc; sc != nil; sc = sc.parent {
		for _, v := range sc.vars {
			if v.fn != nil && v.fn.ret == ret {
				c = append(c, v.fn)
			}
		}
	}
	if len(c) == 0 {
		return nil
	}
	return c[g.r.Intn(len(c))]
}

// callFunc builds a call of f using a random mixture of call forms.
func (g *g) callFunc(f *function, d int) syntax.Expr {
	var args []syntax.Expr
	nreq := f.npos - f.nopt
	npass := nreq
	if f.nopt > 0 {
		npass += g.r.Intn(f.nopt + 1)
	}
	if g.chance(g.cfg.Misuse) {
		npass = g.r.Intn(f.npos + 3) // arity error
		g.feat("misuse-arity")
	}
	byName := npass
	if npass > 0 && g.chance(0.35) {
		byName = g.r.Intn(npass + 1) // parameters from index byName on are passed by name
	}
	viaStar := -1
	if byName > 0 && g.chance(0.25) {
		viaStar = g.r.Intn(byName + 1) // positional values from viaStar on are passed through *[...]
	}
	var star []syntax.Expr
	for i := 0; i < npass; i++ {
		v := g.expr(KInt, d+1)
		switch {
		case i >= byName:
			args = append(args, named(fmt.Sprintf("p%d", i), v))
			g.feat("call-named")
		case viaStar >= 0 && i >= viaStar:
			star = append(star, v)
		default:
			args = append(args, v)
		}
	}
	if f.varargs && byName == npass && npass == f.npos && g.chance(0.5) {
		for i, n := 0, 1+g.r.Intn(2); i < n; i++ {
			if viaStar >= 0 {
				star = append(star, g.expr(KInt, d+1))
			} else {
				// surplus positionals must precede named arguments
				args = append(args[:byName:byName], append([]syntax.Expr{g.expr(KInt, d+1)}, args[byName:]...)...)
				byName++
			}
		}
		g.feat("call-surplus-positional")
	}
	var kwd []syntax.Expr
	for i, k := range f.kwonly {
		if !f.kwoptional[i] || g.chance(0.5) {
			if g.chance(0.3) {
				kwd = append(kwd, &syntax.DictEntry{Key: strLit(k), Value: g.expr(KInt, d+1)})
			} else {
				args = append(args, named(k, g.expr(KInt, d+1)))
			}
		}
	}
	if f.kwargs && g.chance(0.4) {
		kwd = append(kwd, &syntax.DictEntry{Key: strLit("extra"), Value: g.expr(KInt, d+1)})
		g.feat("call-extra-kw")
	}
	if viaStar >= 0 {
		var sv syntax.Expr = &syntax.ListExpr{List: star}
		if g.chance(0.3) {
			sv = &syntax.TupleExpr{List: star}
		}
		args = append(args, &syntax.UnaryExpr{Op: syntax.STAR, X: g.traced(sv)})
		g.feat("call-star")
	}
	if len(kwd) > 0 {
		args = append(args, &syntax.UnaryExpr{Op: syntax.STARSTAR, X: g.traced(&syntax.DictExpr{List: kwd})})
		g.feat("call-starstar")
	}
	g.feat("call")
	return call(g.traced(id(f.name)), args...)
}

// ---- statements ----

func (g *g) block(depth int, n int) []syntax.Stmt {
	var out []syntax.Stmt
	for i := 0; i < n; i++ {
		out = append(out, g.stmt(depth)...)
	}
	if len(out) == 0 {
		out = append(out, &syntax.BranchStmt{Token: syntax.PASS})
	}
	return out
}

func (g *g) atTop() bool { return g.sc == g.top }

func (g *g) canControl() bool { return !g.atTop() || g.cfg.Opts.TopLevelControl }

// declare introduces (or reuses) an assignable variable name of the given kind in the current scope.
func (g *g) declare(k Kind) string {
	if g.atTop() {
		if g.cfg.Opts.GlobalReassign && g.chance(0.3) {
			for _, v := range g.top.vars {
				if v.kind == k && v.fn == nil && v.name[0] == 'g' {
					g.feat("global-reassign")
					return v.name
				}
			}
		}
		name := g.fresh("g")
		g.top.vars = append(g.top.vars, &variable{name: name, kind: k})
		return name
	}
	if g.chance(0.35) {
		for _, v := range g.sc.vars {
			if v.kind == k && v.fn == nil && v.name[0] == 'v' {
				return v.name
			}
		}
	}
	name := g.fresh("v")
	g.sc.vars = append(g.sc.vars, &variable{name: name, kind: k})
	return name
}

// localInt returns a reassignable int variable of the current function scope, if any.
func (g *g) localAssignable(k Kind) *variable {
	if g.atTop() && !g.cfg.Opts.GlobalReassign {
		return nil
	}
	for _, v := range g.sc.vars {
		if v.kind == k && v.fn == nil && (v.name[0] == 'v' || v.name[0] == 'g') {
			return v
		}
	}
	return nil
}

func (g *g) stmt(depth int) []syntax.Stmt {
	for {
		if g.cfg.Templates && depth == 0 && g.atTop() && g.chance(0.12) {
			if st := g.template(); st != nil {
				return st
			}
		}
		switch g.r.Intn(16) {
		case 0, 1, 2:
			k := []Kind{KInt, KInt, KStr, KList, KDict, KBool}[g.r.Intn(6)]
			e := g.expr(k, 0)
			name := g.declare(k)
			g.feat("assign")
			return []syntax.Stmt{&syntax.AssignStmt{Op: syntax.EQ, LHS: id(name), RHS: e}}
		case 3:
			if v := g.localAssignable(KInt); v != nil {
				g.feat("aug-assign-name")
				op := []syntax.Token{syntax.PLUS_EQ, syntax.MINUS_EQ, syntax.STAR_EQ, syntax.PERCENT_EQ, syntax.PIPE_EQ, syntax.AMP_EQ, syntax.LTLT_EQ, syntax.SLASHSLASH_EQ}[g.r.Intn(8)]
				rhs := g.expr(KInt, 1)
				if op == syntax.LTLT_EQ {
					rhs = intLit(int64(g.r.Intn(4)))
				}
				if op == syntax.PERCENT_EQ || op == syntax.SLASHSLASH_EQ {
					rhs = intLit(int64(1 + g.r.Intn(5)))
				}
				return []syntax.Stmt{&syntax.AssignStmt{Op: op, LHS: id(v.name), RHS: rhs}}
			}
		case 4:
			if v := g.pickVar(KList); v != nil {
				switch g.r.Intn(4) {
				case 0:
					g.feat("index-assign")
					return []syntax.Stmt{&syntax.AssignStmt{Op: syntax.EQ, LHS: &syntax.IndexExpr{X: g.traced(id(v.name)), Y: g.traced(g.smallIndex(1))}, RHS: g.expr(KInt, 1)}}
				case 1:
					g.feat("aug-assign-index")
					return []syntax.Stmt{&syntax.AssignStmt{Op: syntax.PLUS_EQ, LHS: &syntax.IndexExpr{X: g.traced(id(v.name)), Y: g.traced(g.smallIndex(1))}, RHS: g.expr(KInt, 1)}}
				case 2:
					g.feat("list-append")
					return []syntax.Stmt{&syntax.ExprStmt{X: call(dot(id(v.name), "append"), g.expr(KInt, 1))}}
				default:
					if lv := g.localAssignable(KList); lv != nil {
						g.feat("aug-assign-list")
						return []syntax.Stmt{&syntax.AssignStmt{Op: syntax.PLUS_EQ, LHS: id(lv.name), RHS: g.expr(KList, 1)}}
					}
					g.feat("list-extend")
					return []syntax.Stmt{&syntax.ExprStmt{X: call(dot(id(v.name), "extend"), g.expr(KList, 1))}}
				}
			}
		case 5:
			if v := g.pickVar(KDict); v != nil {
				switch g.r.Intn(4) {
				case 0:
					g.feat("dict-assign")
					return []syntax.Stmt{&syntax.AssignStmt{Op: syntax.EQ, LHS: &syntax.IndexExpr{X: id(v.name), Y: g.traced(strLit(g.key()))}, RHS: g.expr(KInt, 1)}}
				case 1:
					g.feat("dict-update")
					return []syntax.Stmt{&syntax.ExprStmt{X: call(dot(id(v.name), "update"), g.expr(KDict, 1))}}
				case 2:
					if lv := g.localAssignable(KDict); lv != nil {
						g.feat("aug-assign-dict")
						return []syntax.Stmt{&syntax.AssignStmt{Op: syntax.PIPE_EQ, LHS: id(lv.name), RHS: g.expr(KDict, 1)}}
					}
					fallthrough
				default:
					g.feat("dict-setdefault")
					return []syntax.Stmt{&syntax.ExprStmt{X: call(dot(id(v.name), "setdefault"), strLit(g.key()), g.expr(KInt, 1))}}
				}
			}
		case 6:
			if g.canControl() && depth < 3 {
				return []syntax.Stmt{g.ifStmt(depth)}
			}
		case 7:
			if g.canControl() && depth < 3 {
				return []syntax.Stmt{g.forStmt(depth)}
			}
		case 8:
			if g.cfg.Opts.While && g.canControl() && depth < 2 {
				return g.whileStmt(depth)
			}
		case 9:
			if g.atTop() && len(g.funcs) < 6 || !g.atTop() && depth < 2 && g.chance(0.3) {
				return g.defStmt(depth)
			}
		case 10:
			// tuple assignment
			g.feat("tuple-assign")
			rhs := &syntax.TupleExpr{List: []syntax.Expr{g.expr(KInt, 1), g.expr(KInt, 1)}}
			a := g.declare(KInt)
			b := g.fresh("v")
			if g.atTop() {
				b = g.fresh("g")
			}
			g.sc.vars = append(g.sc.vars, &variable{name: b, kind: KInt})
			lhs := &syntax.TupleExpr{List: []syntax.Expr{id(a), id(b)}}
			g.p.NoParen[lhs] = g.chance(0.6)
			g.p.NoParen[rhs] = g.chance(0.6)
			var l syntax.Expr = lhs
			if !g.p.NoParen[lhs] && g.chance(0.3) {
				l = &syntax.ListExpr{List: lhs.List}
				delete(g.p.NoParen, lhs)
			}
			if g.chance(g.cfg.Misuse) {
				rhs.List = append(rhs.List, intLit(3)) // unpack mismatch
				g.feat("misuse-unpack")
			}
			return []syntax.Stmt{&syntax.AssignStmt{Op: syntax.EQ, LHS: l, RHS: rhs}}
		case 11:
			if g.cfg.Host {
				g.feat("trace-call")
				return []syntax.Stmt{&syntax.ExprStmt{X: call(id("trace"), g.expr(Kind(g.r.Intn(int(KTuple)+1)), 1))}}
			}
		case 12:
			if g.sc.isFunc && g.chance(0.5) {
				g.feat("return")
				return []syntax.Stmt{&syntax.ReturnStmt{Result: g.expr(KInt, 1)}}
			}
		case 13:
			if g.sc.inLoop {
				g.feat("break-continue")
				tok := []syntax.Token{syntax.BREAK, syntax.CONTINUE}[g.r.Intn(2)]
				return []syntax.Stmt{&syntax.IfStmt{Cond: g.expr(KBool, 2), True: []syntax.Stmt{&syntax.BranchStmt{Token: tok}}}}
			}
		case 14:
			if f := g.pickFunc(KInt); f != nil {
				g.feat("call-stmt")
				rhs := g.callFunc(f, 1)
				name := g.declare(KInt)
				return []syntax.Stmt{&syntax.AssignStmt{Op: syntax.EQ, LHS: id(name), RHS: rhs}}
			}
		case 15:
			if g.cfg.Opts.Set && g.chance(0.5) {
				g.feat("set")
				rhs := call(id("len"), bin(syntax.PIPE, call(id("set"), g.expr(KList, 1)), call(id("set"), g.expr(KList, 1))))
				name := g.declare(KInt)
				return []syntax.Stmt{&syntax.AssignStmt{Op: syntax.EQ, LHS: id(name), RHS: rhs}}
			}
		}
	}
}

func (g *g) inner(f func()) {
	saved := g.sc
	g.sc = &scope{parent: saved, isFunc: saved.isFunc, inLoop: saved.inLoop}
	ntop := len(g.top.vars)
	if saved == g.top {
		// control-flow blocks at top level do not open a new binding scope: globals stay globals
		g.sc = saved
	}
	f()
	if saved == g.top && g.chance(0.95) {
		g.top.vars = g.top.vars[:ntop] // possibly unbound later: mostly keep them out of later code
	}
	if saved != g.top {
		// variables first assigned inside a nested block of a function remain function-local, but may
		// be unassigned on some paths; keep them out of later expressions to limit use-before-def
		// (a small fraction is kept on purpose).
		if g.chance(0.05) {
			saved.vars = append(saved.vars, g.sc.vars...)
			if len(g.sc.vars) > 0 {
				g.feat("maybe-unassigned-local")
			}
		}
	}
	g.sc = saved
}

func (g *g) ifStmt(depth int) syntax.Stmt {
	g.feat("if")
	s := &syntax.IfStmt{Cond: g.expr(KBool, 1)}
	g.inner(func() { s.True = g.block(depth+1, 1+g.r.Intn(3)) })
	if g.chance(0.5) {
		if g.chance(0.4) {
			g.feat("elif")
			in := &syntax.IfStmt{Cond: g.expr(KBool, 1)}
			g.inner(func() { in.True = g.block(depth+1, 1+g.r.Intn(2)) })
			if g.chance(0.5) {
				g.inner(func() { in.False = g.block(depth+1, 1+g.r.Intn(2)) })
			}
			g.p.Elif[in] = true
			s.False = []syntax.Stmt{in}
		} else {
			g.inner(func() { s.False = g.block(depth+1, 1+g.r.Intn(3)) })
		}
	}
	return s
}

func (g *g) forStmt(depth int) syntax.Stmt {
	g.feat("for")
	s := &syntax.ForStmt{}
	iv := g.fresh("i")
	var x syntax.Expr
	var vars []*variable
	switch g.r.Intn(4) {
	case 0:
		x = call(id("range"), intLit(int64(g.r.Intn(5))))
		s.Vars = id(iv)
		vars = []*variable{{name: iv, kind: KInt}}
	case 1:
		x = g.expr(KList, 1)
		s.Vars = id(iv)
		vars = []*variable{{name: iv, kind: KInt}}
	case 2:
		jv := g.fresh("i")
		x = call(id("enumerate"), g.expr(KList, 1))
		t := &syntax.TupleExpr{List: []syntax.Expr{id(iv), id(jv)}}
		g.p.NoParen[t] = g.chance(0.7)
		s.Vars = t
		vars = []*variable{{name: iv, kind: KInt}, {name: jv, kind: KInt}}
		g.feat("for-tuple-target")
	default:
		x = call(dot(g.expr(KDict, 1), "items"))
		jv := g.fresh("i")
		t := &syntax.TupleExpr{List: []syntax.Expr{id(iv), id(jv)}}
		g.p.NoParen[t] = g.chance(0.7)
		s.Vars = t
		vars = []*variable{{name: iv, kind: KStr}, {name: jv, kind: KInt}}
		g.feat("for-dict-items")
	}
	s.X = x
	saved := g.sc
	if saved == g.top {
		ntop := len(g.top.vars)
		g.top.vars = append(g.top.vars, vars...)
		wasLoop := g.top.inLoop
		g.top.inLoop = true
		s.Body = g.block(depth+1, 1+g.r.Intn(3))
		g.top.inLoop = wasLoop
		if g.chance(0.95) {
			g.top.vars = g.top.vars[:ntop]
		}
		if !g.cfg.Opts.GlobalReassign {
			// loop variables are globals bound repeatedly; that is permitted (one binding site)
		}
		return s
	}
	g.sc = &scope{parent: saved, isFunc: true, inLoop: true, vars: vars}
	s.Body = g.block(depth+1, 1+g.r.Intn(3))
	g.sc = saved
	return s
}

func (g *g) whileStmt(depth int) []syntax.Stmt {
	g.feat("while")
	if g.atTop() && !g.cfg.Opts.GlobalReassign {
		// a counter cannot be re-bound at top level; use a one-element list as the counter
		cn := g.fresh("g")
		g.top.vars = append(g.top.vars, &variable{name: cn, kind: KList})
		init := &syntax.AssignStmt{Op: syntax.EQ, LHS: id(cn), RHS: &syntax.ListExpr{List: []syntax.Expr{intLit(0)}}}
		w := &syntax.WhileStmt{Cond: bin(syntax.LT, &syntax.IndexExpr{X: id(cn), Y: intLit(0)}, intLit(int64(1+g.r.Intn(4))))}
		inc := &syntax.AssignStmt{Op: syntax.PLUS_EQ, LHS: &syntax.IndexExpr{X: id(cn), Y: intLit(0)}, RHS: intLit(1)}
		wasLoop := g.top.inLoop
		g.top.inLoop = true
		w.Body = append([]syntax.Stmt{inc}, g.block(depth+1, 1+g.r.Intn(2))...)
		g.top.inLoop = wasLoop
		return []syntax.Stmt{init, w}
	}
	cn := g.fresh("v")
	if g.atTop() {
		cn = g.fresh("g")
	}
	init := &syntax.AssignStmt{Op: syntax.EQ, LHS: id(cn), RHS: intLit(0)}
	w := &syntax.WhileStmt{Cond: bin(syntax.LT, id(cn), intLit(int64(1+g.r.Intn(4))))}
	inc := &syntax.AssignStmt{Op: syntax.PLUS_EQ, LHS: id(cn), RHS: intLit(1)}
	saved := g.sc
	if saved == g.top {
		wasLoop := g.top.inLoop
		g.top.inLoop = true
		w.Body = append([]syntax.Stmt{inc}, g.block(depth+1, 1+g.r.Intn(2))...)
		g.top.inLoop = wasLoop
		g.top.vars = append(g.top.vars, &variable{name: cn, kind: KAny})
	} else {
		g.sc = &scope{parent: saved, isFunc: true, inLoop: true}
		w.Body = append([]syntax.Stmt{inc}, g.block(depth+1, 1+g.r.Intn(2))...)
		g.sc = saved
	}
	return []syntax.Stmt{init, w}
}

// defStmt defines a function (possibly with a nested closure, recursion, or a mutable default)
// and registers it for later calls.
func (g *g) defStmt(depth int) []syntax.Stmt {
	g.feat("def")
	f := &function{name: g.fresh("f"), ret: KInt}
	f.npos = g.r.Intn(4)
	if f.npos > 0 {
		f.nopt = g.r.Intn(f.npos + 1)
	}
	f.varargs = g.chance(0.3)
	bareStar := false
	if g.chance(0.35) {
		n := 1 + g.r.Intn(2)
		for i := 0; i < n; i++ {
			f.kwonly = append(f.kwonly, fmt.Sprintf("k%d", i))
			f.kwoptional = append(f.kwoptional, g.chance(0.5))
		}
		bareStar = !f.varargs
		g.feat("kwonly")
	}
	f.kwargs = g.chance(0.25)
	d := &syntax.DefStmt{Name: id(f.name)}
	saved := g.sc
	fs := &scope{parent: saved, isFunc: true}
	for i := 0; i < f.npos; i++ {
		pn := fmt.Sprintf("p%d", i)
		if i >= f.npos-f.nopt {
			// defaults are evaluated in the enclosing scope at definition time
			d.Params = append(d.Params, &syntax.BinaryExpr{Op: syntax.EQ, X: id(pn), Y: g.expr(KInt, 2)})
		} else {
			d.Params = append(d.Params, id(pn))
		}
		fs.vars = append(fs.vars, &variable{name: pn, kind: KInt})
	}
	if f.varargs {
		d.Params = append(d.Params, &syntax.UnaryExpr{Op: syntax.STAR, X: id("args")})
		fs.vars = append(fs.vars, &variable{name: "args", kind: KTuple})
	} else if bareStar {
		d.Params = append(d.Params, &syntax.UnaryExpr{Op: syntax.STAR})
	}
	for i, k := range f.kwonly {
		if f.kwoptional[i] {
			d.Params = append(d.Params, &syntax.BinaryExpr{Op: syntax.EQ, X: id(k), Y: g.expr(KInt, 2)})
		} else {
			d.Params = append(d.Params, id(k))
		}
		fs.vars = append(fs.vars, &variable{name: k, kind: KInt})
	}
	if f.kwargs {
		d.Params = append(d.Params, &syntax.UnaryExpr{Op: syntax.STARSTAR, X: id("kwargs")})
		fs.vars = append(fs.vars, &variable{name: "kwargs", kind: KDict})
	}
	g.sc = fs
	var body []syntax.Stmt
	switch {
	case g.chance(0.2):
		// closure: a local mutable cell shared by a nested function, which is called and returned through
		g.feat("closure")
		cell := g.fresh("v")
		inner := g.fresh("h")
		fs.vars = append(fs.vars, &variable{name: cell, kind: KList})
		body = append(body, &syntax.AssignStmt{Op: syntax.EQ, LHS: id(cell), RHS: &syntax.ListExpr{List: []syntax.Expr{g.expr(KInt, 2)}}})
		in := &syntax.DefStmt{Name: id(inner), Params: []syntax.Expr{id("q")}}
		g.sc = &scope{parent: fs, isFunc: true, vars: []*variable{{name: "q", kind: KInt}}}
		in.Body = []syntax.Stmt{
			&syntax.AssignStmt{Op: syntax.PLUS_EQ, LHS: &syntax.IndexExpr{X: id(cell), Y: intLit(0)}, RHS: g.expr(KInt, 2)},
			&syntax.ReturnStmt{Result: bin(syntax.PLUS, &syntax.IndexExpr{X: id(cell), Y: intLit(0)}, id("q"))},
		}
		g.sc = fs
		body = append(body, in)
		body = append(body, g.block(depth+1, g.r.Intn(2))...)
		body = append(body, &syntax.ReturnStmt{Result: bin(syntax.PLUS, call(id(inner), g.expr(KInt, 2)), call(id(inner), intLit(1)))})
	case g.chance(0.15) && f.npos > f.nopt:
		// bounded recursion on p0 (fails dynamically unless the Recursion option is on)
		g.feat("recursion")
		rec := []syntax.Expr{bin(syntax.MINUS, bin(syntax.PERCENT, id("p0"), intLit(5)), intLit(1))}
		for i := 1; i < f.npos-f.nopt; i++ {
			rec = append(rec, intLit(int64(i)))
		}
		for i, k := range f.kwonly {
			if !f.kwoptional[i] {
				rec = append(rec, named(k, intLit(1)))
			}
		}
		body = append(body, &syntax.IfStmt{Cond: bin(syntax.LE, bin(syntax.PERCENT, id("p0"), intLit(5)), intLit(0)), True: []syntax.Stmt{&syntax.ReturnStmt{Result: g.expr(KInt, 2)}}})
		body = append(body, &syntax.ReturnStmt{Result: bin(syntax.PLUS, call(id(f.name), rec...), intLit(1))})
	default:
		body = g.block(depth+1, 1+g.r.Intn(4))
		if g.chance(0.85) {
			body = append(body, &syntax.ReturnStmt{Result: g.expr(KInt, 1)})
		} else {
			f.ret = KAny // falls off the end: returns None
			g.feat("implicit-none-return")
		}
	}
	d.Body = body
	g.sc = saved
	g.funcs = append(g.funcs, f)
	saved.vars = append(saved.vars, &variable{name: f.name, kind: KFunc, fn: f})
	if saved == g.top {
		g.top.assigned[f.name] = true
	}
	return []syntax.Stmt{d}
}
