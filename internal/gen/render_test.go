package gen

import (
	"math/rand"
	"os"
	"path/filepath"
	"strings"
	"testing"

	"go.starlark.net/syntax"
)

// TestRoundTripCorpus parses every chunk of the repository's .star corpus, re-renders the tree with
// random layouts (positions are rewritten by the renderer), parses the new text and compares.
func TestRoundTripCorpus(t *testing.T) {
	files, _ := filepath.Glob("/repo/starlark/testdata/*.star")
	more, _ := filepath.Glob("/repo/syntax/testdata/*.star")
	files = append(files, more...)
	more, _ = filepath.Glob("/repo/resolve/testdata/*.star")
	files = append(files, more...)
	more, _ = filepath.Glob("/repo/starlarktest/*.star")
	files = append(files, more...)
	opts := &syntax.FileOptions{Set: true, While: true, TopLevelControl: true, GlobalReassign: true, Recursion: true}
	n, ok := 0, 0
	for _, f := range files {
		b, _ := os.ReadFile(f)
		for ci, chunk := range strings.Split(string(b), "\n---\n") {
			file, err := opts.Parse(f, chunk, 0)
			if err != nil {
				continue
			}
			for seed := int64(0); seed < 12; seed++ {
				r := rand.New(rand.NewSource(seed))
				o := FromParsed(file.Stmts)
				o.Layout = RandomLayout(r)
				if seed == 0 {
					o.Layout = Plain
				}
				text := Render(file.Stmts, r, o)
				n++
				file2, err := opts.Parse("x.star", text, 0)
				if err != nil {
					t.Errorf("%s chunk %d seed %d: rendered text does not parse: %v\n%s", f, ci, seed, err, text)
					break
				}
				if err := CompareStmts(file.Stmts, file2.Stmts, CompareOpts{Positions: true, Raw: true}); err != nil {
					t.Errorf("%s chunk %d seed %d: %v\n%s", f, ci, seed, err, text)
					break
				}
				ok++
			}
		}
	}
	t.Logf("%d renderings, %d agreed", n, ok)
	if ok < 1000 {
		t.Errorf("too few round trips: %d", ok)
	}
}
