// Package c08 monitors property C08: arguments bind to parameters exactly as specified.
//
// Part A: every signature in the bounded space x (sampled | all) calls, executed from source
// (attempt(lambda: f(...)) call sites, so the CALL* opcodes flatten the arguments) and through
// starlark.Call, judged by an independent binder and by CPython.
// Part B: starlark.UnpackArgs / UnpackPositionalArgs against an independent implementation of
// their documented contract, with sentinel-filled targets.
package c08

import (
	"bytes"
	_ "embed"
	"fmt"
	"runtime"
	"runtime/debug"
	"strings"

	"go.starlark.net/starlark"
	"go.starlark.net/syntax"

	"verif/internal/driver"
	"verif/internal/sl"
)

//go:embed ref.py
var refPy string

func init() {
	driver.Register(&driver.Engine{
		ID: "C08", Level: "exploration",
		Rule: "Part A: all 280 signatures (<=3 positional required/optional, none|*|*args, <=2 keyword-only required/optional, optional **kwargs) x calls " +
			"(0-4 positional values, every subset of the 7 names a,b,c,k,m,u,v as named arguments (written forward or reversed, alternating), *seq in {absent, list|tuple|range of length 0-3, int, string}, " +
			"**dict in 11 shapes incl. duplicates of positional/named arguments, undeclared keys, non-string keys, non-mapping); quick = weighted sample of ~150 calls per signature, " +
			"thorough = the full product (exhaustive for that sub-space). Each call runs from source, through starlark.Call, and from the module after a Program.Write/CompiledProgram round trip, and is judged by an independent binder and by CPython. " +
			"Part B: all 121 marker sequences (name, name?, name??) over <=4 parameters x positional count 0..n+1 x named subsets (+unknown, +duplicate) x sampled target types and argument kinds for UnpackArgs, " +
			"plus sampled UnpackPositionalArgs calls. A case is distinct by (signature, call tuple) resp. (spec, types, call, argument kinds); non-trivial = it passes at least one argument.",
		Assumptions: []string{
			"CPython 3.11 argument binding (second oracle for Part A)",
			"the independent binder and the UnpackArgs contract model in verif/internal/c08 (written from doc/spec.md and the UnpackArgs doc comment)",
			"functions that return all their parameters make the binding observable",
		},
		MinDistinct: 1000,
		Run:         run,
		Finish:      finish,
	})
}

func finish(ev map[string]any) (string, bool) {
	counters, _ := ev["counters"].(map[string]int64)
	if counters == nil {
		return "", false
	}
	need := []string{"A_pairs", "A_ok_bindings", "A_python_compared", "A_direct_calls", "A_compiled_pairs", "A_compiled_ok_bindings", "B_unpackargs_calls", "B_wrongtype_target_checks", "B_none_skipped", "B_none_plus_second_argument_must_fail", "op_CALL", "op_CALL_VAR", "op_CALL_KW", "op_CALL_VAR_KW"}
	for _, k := range need {
		if counters[k] == 0 {
			return "counter " + k + " is zero: the monitor did not observe what it needs", true
		}
	}
	return "", false
}

// ---------------------------------------------------------------------------------------------

// measured CALL* opcodes executed inside lambdas (the generated call sites)
var opIndex [256]int8
var opCounts [5]int64
var opNames = []string{"", "CALL", "CALL_VAR", "CALL_KW", "CALL_VAR_KW"}

func installHook() {
	for op := 0; op < 256; op++ {
		var name string
		if p := sl.Safe(func() { name = starlark.VerifOpcodeName(uint8(op)) }); p != nil {
			continue
		}
		for i, n := range opNames {
			if i > 0 && strings.EqualFold(strings.TrimSpace(name), n) {
				opIndex[op] = int8(i)
			}
		}
	}
	starlark.VerifStepHook = func(th *starlark.Thread, fn *starlark.Function, pc uint32, op uint8) {
		if i := opIndex[op]; i != 0 && fn.Name() == "lambda" {
			opCounts[i]++
		}
	}
}

type engine struct {
	c    *driver.Ctx
	sp   *space
	sigs []*sig
	py   *driver.Py

	counts map[string]int         // local counters, flushed to the driver after every case
	covers map[[2]string]struct{} // cover items already reported by this process
}

func (e *engine) count(name string, n int) { e.counts[name] += n }

func (e *engine) cover(group, item string) {
	k := [2]string{group, item}
	if _, ok := e.covers[k]; !ok {
		e.covers[k] = struct{}{}
		e.c.Cover(group, item)
	}
}

func (e *engine) flushCounts() {
	for k, n := range e.counts {
		e.c.Count(k, n)
		delete(e.counts, k)
	}
}

func mix64(x uint64) uint64 {
	x += 0x9e3779b97f4a7c15
	x = (x ^ (x >> 30)) * 0xbf58476d1ce4e5b9
	x = (x ^ (x >> 27)) * 0x94d049bb133111eb
	return x ^ (x >> 31)
}

func run(c *driver.Ctx) {
	debug.SetGCPercent(200) // small heaps: fewer collections
	runtime.GOMAXPROCS(2)   // one child per core already; avoids 16x16 GC worker threads
	installHook()
	e := &engine{c: c, sp: newSpace(), sigs: allSigs(), counts: map[string]int{}, covers: map[[2]string]struct{}{}}
	py, err := driver.StartPy(refPy)
	if err != nil {
		c.Inconclusive("cannot start python3: %v", err)
		return
	}
	defer py.Close()
	e.py = py
	var initResp struct {
		OK      bool   `json:"ok"`
		Version string `json:"version"`
	}
	if err := py.Call(map[string]any{"op": "init", "names": callNames, "namedvals": namedVals, "posvals": posVals,
		"seqs": e.sp.seqs, "dicts": e.sp.dicts, "seqbase": seqBase}, &initResp); err != nil || !initResp.OK {
		c.Inconclusive("python reference did not initialise: %v", err)
		return
	}
	c.Cover("python_version", initResp.Version)

	e.staticSuite()
	e.partA()
	e.partB()
	for i := 1; i < len(opNames); i++ {
		c.Count("op_"+opNames[i], int(opCounts[i]))
	}
}

// ---------------------------------------------------------------------------------------------
// Part A

const chunkSize = 2500

func (e *engine) partA() {
	c := e.c
	if c.Thorough() {
		var all []call
		e.sp.enumerate(func(cl call) { all = append(all, cl) })
		if len(all) != e.sp.size() {
			c.Inconclusive("enumeration size mismatch: %d vs %d", len(all), e.sp.size())
			return
		}
		for _, s := range e.sigs {
			for lo := 0; lo < len(all); lo += chunkSize {
				hi := min(lo+chunkSize, len(all))
				if !c.Take() {
					continue
				}
				e.runChunk(s, all[lo:hi])
			}
		}
		if c.Shard == 0 {
			// every shard walks the same fixed list; a shard that died is restarted by the parent after
			// the case in flight, so reaching this point in shard 0 means the list was walked to its end.
			c.Count("exhaustive_subspace_completed", 1)
			c.Count("A_product_size_per_signature", len(all))
		}
		return
	}
	for _, s := range e.sigs {
		if !c.Take() {
			continue
		}
		r := c.Rand()
		seen := map[[5]int]bool{}
		var calls []call
		for len(calls) < 150 {
			cl := e.sp.sample(r, s)
			if seen[cl.tuple()] {
				continue
			}
			seen[cl.tuple()] = true
			calls = append(calls, cl)
		}
		e.runChunk(s, calls)
	}
}

type attemptResult struct {
	ok  bool
	val starlark.Value
	err error
}

// render renders the tuple returned by f in the canonical form shared with the oracles.
func renderBinding(names []string, v starlark.Value) string {
	t, ok := v.(starlark.Tuple)
	if !ok || len(t) != len(names) {
		return "?unexpected result " + v.String()
	}
	var b strings.Builder
	for i, n := range names {
		if i > 0 {
			b.WriteByte(';')
		}
		b.WriteString(n)
		b.WriteByte('=')
		renderVal(&b, t[i])
	}
	return b.String()
}

func renderVal(b *strings.Builder, v starlark.Value) {
	switch v := v.(type) {
	case starlark.Int:
		b.WriteString(v.String())
	case starlark.String:
		b.WriteString(string(v))
	case starlark.Tuple:
		b.WriteByte('(')
		for i, x := range v {
			if i > 0 {
				b.WriteByte(',')
			}
			renderVal(b, x)
		}
		b.WriteByte(')')
	case *starlark.Dict:
		b.WriteByte('{')
		for i, it := range v.Items() {
			if i > 0 {
				b.WriteByte(',')
			}
			renderVal(b, it[0])
			b.WriteByte(':')
			renderVal(b, it[1])
		}
		b.WriteByte('}')
	default:
		b.WriteString("?" + v.Type() + ":" + v.String())
	}
}

// classify maps the text of a call error to a class (for counters only).
func classify(err error) string {
	msg := err.Error()
	if ee, ok := err.(*starlark.EvalError); ok {
		msg = ee.Msg
	}
	switch {
	case strings.Contains(msg, "missing ") && strings.Contains(msg, "argument"):
		return "missing"
	case strings.Contains(msg, "unexpected keyword argument"):
		return "unexpected-keyword"
	case strings.Contains(msg, "multiple values for"):
		return "duplicate"
	case strings.Contains(msg, "positional argument"):
		return "too-many-positional"
	case strings.Contains(msg, "accepts no arguments"):
		return "nullary-got-arguments"
	case strings.Contains(msg, "argument after * must be iterable"):
		return "star-not-iterable"
	case strings.Contains(msg, "argument after ** must be a mapping"):
		return "starstar-not-mapping"
	case strings.Contains(msg, "keywords must be strings"):
		return "non-string-keyword"
	case strings.Contains(msg, "referenced before assignment"):
		// raised by the body of f: the binding phase let the call through with a parameter left unset
		return "unbound-parameter-in-body"
	}
	return "other"
}

func (e *engine) outcomeOf(names []string, v starlark.Value, err error) (string, string) {
	if err != nil {
		return "err", classify(err)
	}
	return "ok:" + renderBinding(names, v), ""
}

func mismatchKind(got, want string) string {
	switch {
	case got == want:
		return ""
	case got == "err":
		return "rejected-valid-call"
	case want == "err":
		return "accepted-invalid-call"
	}
	return "wrong-binding"
}

func (e *engine) runChunk(s *sig, calls []call) {
	c := e.c
	sp := e.sp
	def := s.defText()
	names := append([]string{}, s.outNames()...)
	c.Note("C08 part A signature %q, %d calls starting at %v", def, len(calls), calls[0].tuple())

	// ---- module with all call sites
	var src strings.Builder
	src.Grow(len(calls) * 80)
	src.WriteString(def)
	src.WriteString("\n")
	for _, cl := range calls {
		src.WriteString("attempt(lambda: ")
		src.WriteString(sp.src(cl))
		src.WriteString(")\n")
	}
	results := make([]attemptResult, 0, len(calls))
	attempt := starlark.NewBuiltin("attempt", func(th *starlark.Thread, b *starlark.Builtin, args starlark.Tuple, kwargs []starlark.Tuple) (starlark.Value, error) {
		if len(args) != 1 || len(kwargs) != 0 {
			return nil, fmt.Errorf("attempt: want one callable")
		}
		v, err := starlark.Call(th, args[0], nil, nil)
		results = append(results, attemptResult{ok: err == nil, val: v, err: err})
		return starlark.None, nil
	})
	thread := &starlark.Thread{Name: "c08"}
	var globals starlark.StringDict
	var execErr error
	if p := sl.Safe(func() {
		globals, execErr = starlark.ExecFileOptions(&syntax.FileOptions{}, thread, "c08.star", src.String(), starlark.StringDict{"attempt": attempt})
	}); p != nil {
		c.Violation("C08 panic executing call module", fmt.Sprintf("panic %v for %s", p.Value, def), map[string]any{"def": def, "panic": p.String(), "stack": p.Stack, "first_call": sp.src(calls[0])})
		return
	}
	if execErr != nil || len(results) != len(calls) {
		c.Violation("C08 valid call module rejected", fmt.Sprintf("module for %q failed: %v (%d of %d call sites ran)", def, execErr, len(results), len(calls)),
			map[string]any{"def": def, "error": fmt.Sprint(execErr), "ran": len(results), "source_head": driver.Truncate(src.String(), 2000)})
		return
	}
	fn := globals["f"]

	// ---- second route: the same module compiled, serialized (Program.Write), reloaded
	// (starlark.CompiledProgram) and initialised — how hosts that cache compiled modules run it.
	cresults := make([]attemptResult, 0, len(calls))
	cattempt := starlark.NewBuiltin("attempt", func(th *starlark.Thread, b *starlark.Builtin, args starlark.Tuple, kwargs []starlark.Tuple) (starlark.Value, error) {
		if len(args) != 1 || len(kwargs) != 0 {
			return nil, fmt.Errorf("attempt: want one callable")
		}
		v, err := starlark.Call(th, args[0], nil, nil)
		cresults = append(cresults, attemptResult{ok: err == nil, val: v, err: err})
		return starlark.None, nil
	})
	var cerr error
	cstage := "compile"
	if p := sl.Safe(func() {
		pre := starlark.StringDict{"attempt": cattempt}
		var prog *starlark.Program
		if _, prog, cerr = starlark.SourceProgramOptions(&syntax.FileOptions{}, "c08.star", src.String(), pre.Has); cerr != nil {
			return
		}
		cstage = "write"
		var buf bytes.Buffer
		if cerr = prog.Write(&buf); cerr != nil {
			return
		}
		e.count("A_compiled_program_bytes", buf.Len())
		cstage = "load"
		var prog2 *starlark.Program
		if prog2, cerr = starlark.CompiledProgram(&buf); cerr != nil {
			return
		}
		cstage = "init"
		_, cerr = prog2.Init(&starlark.Thread{Name: "c08-compiled"}, pre)
	}); p != nil {
		c.Violation("C08 panic executing compiled call module", fmt.Sprintf("panic %v at stage %s for %s", p.Value, cstage, def), map[string]any{"def": def, "panic": p.String(), "stack": p.Stack, "stage": cstage, "first_call": sp.src(calls[0])})
		return
	}
	if cerr != nil || len(cresults) != len(calls) {
		c.Violation("C08 valid call module rejected after Write/CompiledProgram round trip", fmt.Sprintf("module for %q failed at stage %s: %v (%d of %d call sites ran)", def, cstage, cerr, len(cresults), len(calls)),
			map[string]any{"def": def, "error": fmt.Sprint(cerr), "stage": cstage, "ran": len(cresults), "source_head": driver.Truncate(src.String(), 2000)})
		return
	}
	e.cover("route", "source")
	e.cover("route", "starlark.Call")
	e.cover("route", "compiled")

	// ---- python
	req := map[string]any{"op": "batch", "def": def, "out": names}
	tuples := make([][5]int, len(calls))
	for i, cl := range calls {
		tuples[i] = cl.tuple()
	}
	req["calls"] = tuples
	var presp struct {
		Res []string `json:"res"`
	}
	err := e.py.Call(req, &presp)
	if err != nil || len(presp.Res) != len(calls) {
		c.Inconclusive("python reference failed on %q: %v (%d results)", def, err, len(presp.Res))
		return
	}

	e.cover("signature_features", s.features())

	for i, cl := range calls {
		want := sp.oracle(s, cl)
		wantS := want.String()
		r := results[i]
		gotS, errc := e.outcomeOf(names, r.val, r.err)
		e.count("A_pairs", 1)
		mode := sp.callMode(cl)
		okS := "/err"
		if r.ok {
			okS = "/ok"
		}
		if r.ok {
			e.count("A_ok_bindings", 1)
		} else {
			e.count("A_err_"+errc, 1)
			if errc == "other" {
				c.Inconclusive("unclassified call error %q for %s / %s", r.err, def, sp.src(cl))
			}
			if errc == "unbound-parameter-in-body" {
				// f only returns its parameters, so this error can only mean that the call was accepted
				// and the body ran with an unset parameter: a binding the specification never produces.
				c.Violation("C08 starlark function body entered with unbound parameter",
					fmt.Sprintf("%s ; %s => %v", def, sp.src(cl), r.err), map[string]any{"def": def, "call": sp.src(cl), "error": fmt.Sprint(r.err), "binder": wantS})
			}
		}
		e.cover("outcome_by_callmode", mode+okS)
		if !want.ok {
			e.cover("oracle_error_classes", want.errc)
		}
		if cl.npos > 0 || cl.mask != 0 || cl.seq != 0 || cl.dict != 0 {
			t := cl.tuple()
			c.DistinctH(mix64(uint64(s.id)<<40 | uint64(t[0])<<32 | uint64(t[1])<<16 | uint64(t[2])<<12 | uint64(t[3])<<6 | uint64(t[4])))
		}

		// direct call through the Go API (only where the arguments can be flattened at all)
		directS := ""
		if pos, named, ferr := sp.flatten(cl); ferr == "" {
			args := make(starlark.Tuple, len(pos))
			for j, v := range pos {
				args[j] = starlark.MakeInt(v)
			}
			kwargs := make([]starlark.Tuple, len(named))
			for j, na := range named {
				kwargs[j] = starlark.Tuple{starlark.String(na.name), starlark.MakeInt(na.val)}
			}
			var dv starlark.Value
			var derr error
			if p := sl.Safe(func() { dv, derr = starlark.Call(thread, fn, args, kwargs) }); p != nil {
				c.Violation("C08 panic in starlark.Call", fmt.Sprintf("panic %v: %s with %s", p.Value, def, sp.src(cl)), map[string]any{"def": def, "call": sp.src(cl), "stack": p.Stack})
				continue
			}
			directS, _ = e.outcomeOf(names, dv, derr)
			e.count("A_direct_calls", 1)
		}

		srcBad := mismatchKind(gotS, wantS)
		dirBad := ""
		if directS != "" {
			dirBad = mismatchKind(directS, wantS)
		}
		if srcBad != "" || dirBad != "" {
			where, kind := "binding", srcBad
			switch {
			case srcBad != "" && directS != "" && dirBad == "":
				where = "source-call-flattening"
			case srcBad == "" && dirBad != "":
				where, kind = "starlark.Call-only", dirBad
			}
			c.Violation(fmt.Sprintf("C08 starlark function %s (%s)", kind, where),
				fmt.Sprintf("%s ; %s => source %s, starlark.Call %s, independent binder %s", def, sp.src(cl), gotS, directS, wantS),
				map[string]any{"def": def, "call": sp.src(cl), "source_result": gotS, "direct_result": directS, "binder": wantS, "binder_error_class": want.errc, "python": presp.Res[i], "callmode": mode})
		}

		// the reloaded compiled program must bind exactly like the oracle too
		cr := cresults[i]
		compS, cerrc := e.outcomeOf(names, cr.val, cr.err)
		e.count("A_compiled_pairs", 1)
		if cr.ok {
			e.count("A_compiled_ok_bindings", 1)
		} else if cerrc == "other" {
			c.Inconclusive("unclassified call error %q (compiled route) for %s / %s", cr.err, def, sp.src(cl))
		}
		if srcBad == "" { // otherwise the same root cause is already reported under the source route's key
			if cerrc == "unbound-parameter-in-body" {
				c.Violation("C08 compiled-program function body entered with unbound parameter",
					fmt.Sprintf("%s ; %s => %v", def, sp.src(cl), cr.err), map[string]any{"def": def, "call": sp.src(cl), "error": fmt.Sprint(cr.err), "binder": wantS})
			} else if k := mismatchKind(compS, wantS); k != "" {
				c.Violation(fmt.Sprintf("C08 compiled-program function %s", k),
					fmt.Sprintf("%s ; %s => after Program.Write/CompiledProgram %s, from source %s, independent binder %s", def, sp.src(cl), compS, gotS, wantS),
					map[string]any{"def": def, "call": sp.src(cl), "compiled_result": compS, "source_result": gotS, "binder": wantS, "callmode": mode})
			}
		}

		// python, wherever both languages accept the call text with the same meaning
		pyS := presp.Res[i]
		if strings.HasPrefix(pyS, "exc:") {
			c.Inconclusive("python raised an unexpected exception for %s / %s: %s", def, sp.src(cl), pyS)
		} else if sp.seqs[cl.seq].Kind == "str" {
			e.count("A_python_excluded_string_star", 1) // a string is iterable in Python and not in Starlark
		} else {
			e.count("A_python_compared", 1)
			if pyS == gotS {
				e.count("A_python_agreed", 1)
			}
			if k := mismatchKind(gotS, pyS); k != "" {
				c.Violation(fmt.Sprintf("C08 starlark function disagrees with python (%s)", k),
					fmt.Sprintf("%s ; %s => starlark %s, python %s", def, sp.src(cl), gotS, pyS),
					map[string]any{"def": def, "call": sp.src(cl), "starlark": gotS, "python": pyS, "binder": wantS})
			} else if pyS != wantS {
				// implementation and python agree and the binder does not: the binder is wrong
				c.Inconclusive("independent binder disagrees with both: %s ; %s => %s, binder %s", def, sp.src(cl), gotS, wantS)
			}
		}

		if c.Shard%2 == 0 && c.WantSample() && ((r.ok && i%5 == 3) || i%149 == 111) {
			c.Sample(map[string]any{"part": "A", "def": def, "call": sp.src(cl), "starlark": gotS, "starlark.Call": directS, "compiled": compS, "binder": wantS, "python": pyS})
		}
	}
	c.Eval(len(calls))
	e.flushCounts()
}

// ---------------------------------------------------------------------------------------------
// Static rules the spec states for calls ("It is a static error if a function call has two named
// arguments of the same name"; "All the positional arguments must precede all the named arguments";
// "Starlark does not allow more than one *args argument in a call, and if a *args argument is
// present it must appear after all positional and named arguments"). These texts never reach the
// binder; the monitor only checks that they are rejected before execution.

func (e *engine) staticSuite() {
	c := e.c
	if !c.Take() {
		return
	}
	def := "def f(a=-1, b=-2, *args, **kwargs): return (a, b, args, kwargs)"
	cases := []struct{ name, call string }{
		{"repeated-named", "f(a=1, a=2)"},
		{"positional-after-named", "f(a=1, 2)"},
		{"two-star-args", "f(*[1], *[2])"},
		{"named-after-star-args", "f(*[1], b=2)"},
		{"positional-after-star-args", "f(*[1], 2)"},
	}
	for _, tc := range cases {
		ran := false
		marker := starlark.NewBuiltin("marker", func(*starlark.Thread, *starlark.Builtin, starlark.Tuple, []starlark.Tuple) (starlark.Value, error) {
			ran = true
			return starlark.None, nil
		})
		src := def + "\nmarker()\ndef g():\n    return " + tc.call + "\n"
		var err error
		p := sl.Safe(func() {
			_, err = starlark.ExecFileOptions(&syntax.FileOptions{}, &starlark.Thread{}, "static.star", src, starlark.StringDict{"marker": marker})
		})
		c.Eval(1)
		c.Count("A_static_rejections_checked", 1)
		c.Cover("static_rules", tc.name)
		if p != nil || err == nil || ran {
			c.Violation("C08 static call rule not enforced "+tc.name, fmt.Sprintf("%s: err=%v executed=%v panic=%v", tc.call, err, ran, p), map[string]any{"source": src})
		}
	}
	// Python's pre-check for the one text both languages reject: a repeated keyword.
	var presp struct {
		Res []string `json:"res"`
	}
	req := map[string]any{"op": "raw", "def": def, "out": []string{"a", "b", "args", "kwargs"},
		"calls": []map[string]any{{"pos": []int{}, "named": [][]any{{"a", 1}, {"a", 2}}}}}
	if err := e.py.Call(req, &presp); err != nil || len(presp.Res) != 1 || presp.Res[0] != "err" {
		c.Inconclusive("python pre-check for repeated keyword did not answer err: %v %v", err, presp.Res)
	}
}
