# C08 reference: CPython's own argument binding.
# Protocol: one JSON request per line, one JSON response per line.
#   {"op":"init","names":[..],"namedvals":[..],"posvals":[..],"seqs":[{kind,n}..],"dicts":[{kind,entries}..],"seqbase":301}
#   {"op":"batch","def":"def f(..): return (..)","out":[param names],"calls":[[npos,mask,rev,seq,dict],..]}
#       -> {"res":["ok:<binding>" | "err" | "exc:<type>:<msg>", ..]}
#   {"op":"raw","def":..., "out":[..], "calls":[{"pos":[..],"named":[[n,v]..],"seq":null|[..],"dict":null|[[k,v]..]}]}
# The call is performed programmatically as f(*pos, *seq, **named, **dict), which binds exactly
# like the source call f(p.., n=v.., *seq, **dict); a keyword repeated in the source text is a
# SyntaxError in Python, so it is pre-checked and reported as "err".
import sys, json

T = {}


def fmt(v):
    if isinstance(v, tuple):
        return "(" + ",".join(fmt(x) for x in v) + ")"
    if isinstance(v, dict):
        return "{" + ",".join("%s:%s" % (k, fmt(x)) for k, x in v.items()) + "}"
    return str(v)


def mkseq(q):
    k, n = q["kind"], q["n"]
    base = T["seqbase"]
    if k == "none":
        return ()
    if k == "list":
        return [base + i for i in range(n)]
    if k == "tuple":
        return tuple(base + i for i in range(n))
    if k == "range":
        return range(base, base + n)
    if k == "int":
        return 7
    if k == "str":
        return "xy"
    raise ValueError(k)


def mkdict(d):
    if d["kind"] == "none":
        return {}
    if d["kind"] == "nonmap":
        return 7
    r = {}
    for e in d["entries"] or []:
        r[e["intk"] if e["isint"] else e["key"]] = e["val"]
    return r


def run_one(f, out, pos, named_pairs, seq, dct):
    seen = set()
    for n, _ in named_pairs:
        if n in seen:
            return "err"  # SyntaxError: keyword argument repeated
        seen.add(n)
    named = dict(named_pairs)
    try:
        r = f(*pos, *seq, **named, **dct)
    except TypeError:
        return "err"
    except Exception as e:  # not expected
        return "exc:%s:%s" % (type(e).__name__, e)
    return "ok:" + ";".join("%s=%s" % (n, fmt(v)) for n, v in zip(out, r))


def define(src):
    env = {}
    exec(src, env)
    return env["f"]


def main():
    for line in sys.stdin:
        req = json.loads(line)
        op = req["op"]
        if op == "init":
            T.update(req)
            T["seqobjs"] = [mkseq(q) for q in req["seqs"]]
            T["dictobjs"] = [mkdict(d) for d in req["dicts"]]
            resp = {"ok": True, "version": sys.version.split()[0]}
        elif op == "batch":
            f = define(req["def"])
            out = req["out"] or []
            names, nvals, pvals = T["names"], T["namedvals"], T["posvals"]
            nn = len(names)
            res = []
            for npos, mask, rev, qi, di in req["calls"]:
                pairs = []
                for i in range(nn):
                    j = nn - 1 - i if rev else i
                    if mask >> j & 1:
                        pairs.append((names[j], nvals[j]))
                res.append(run_one(f, out, pvals[:npos], pairs, T["seqobjs"][qi], T["dictobjs"][di]))
            resp = {"res": res}
        elif op == "raw":
            f = define(req["def"])
            res = []
            for c in req["calls"]:
                seq = c["seq"] if c.get("seq") is not None else ()
                dct = dict((k, v) for k, v in c["dict"]) if c.get("dict") is not None else {}
                res.append(run_one(f, req["out"] or [], c["pos"], [tuple(p) for p in c["named"]], seq, dct))
            resp = {"res": res}
        else:
            resp = {"error": "unknown op"}
        sys.stdout.write(json.dumps(resp) + "\n")
        sys.stdout.flush()


main()
