package c08

import (
	"strconv"
	"strings"
)

// Independent binder, written from doc/spec.md ("Functions", "Function definitions",
// "Function and method calls"); it does not follow the structure of starlark.setArgs.
//
//   * "a function call may provide an arbitrary number of positional or named arguments supplied by
//     a list or dictionary": the elements of *seq are further positional arguments, the entries of
//     **dict are further named arguments (in the order of the dict).
//   * positional arguments are given to the parameters before * / *args in order; "Any surplus
//     positional arguments provided by the caller are formed into a tuple and assigned to the args
//     parameter"; without *args a surplus is an error.
//   * parameters after * / *args are keyword-only: "if a call provides their values, it must do so
//     as keyword arguments, not positional ones".
//   * a named argument goes to the parameter of that name; "Any surplus named arguments that do
//     not correspond to named parameters are collected in a new dictionary and assigned to the
//     kwargs parameter"; without **kwargs that is an error ("f got unexpected keyword argument").
//   * two values for one name ("f(x=1, **dict(x=2))") is a dynamic error; so is a value given
//     both by position and by name.
//   * parameters without an argument take their default; "all calls must provide an argument
//     value for" required parameters.

type outcome struct {
	ok      bool
	binding string // canonical rendering when ok
	errc    string // error class when !ok
}

func (o outcome) String() string {
	if o.ok {
		return "ok:" + o.binding
	}
	return "err"
}

type namedArg struct {
	name string
	val  int
}

type slot struct {
	set bool
	val int
}

// bindFlat binds already flattened arguments.
func bindFlat(s *sig, positional []int, named []namedArg) outcome {
	slots := map[string]*slot{}
	for _, p := range s.pos {
		slots[p.name] = &slot{}
	}
	for _, p := range s.kwonly {
		slots[p.name] = &slot{}
	}

	// positional arguments
	var surplus []int
	for i, v := range positional {
		if i < len(s.pos) {
			sl := slots[s.pos[i].name]
			sl.set, sl.val = true, v
		} else {
			surplus = append(surplus, v)
		}
	}
	if len(surplus) > 0 && s.star != starArgs {
		return outcome{errc: "too-many-positional"}
	}

	// named arguments
	var extraNames []string
	extraVals := map[string]int{}
	for _, na := range named {
		if sl, isParam := slots[na.name]; isParam {
			if sl.set {
				return outcome{errc: "duplicate"}
			}
			sl.set, sl.val = true, na.val
			continue
		}
		if !s.kwargs {
			return outcome{errc: "unexpected-keyword"}
		}
		if _, dup := extraVals[na.name]; dup {
			return outcome{errc: "duplicate"}
		}
		extraVals[na.name] = na.val
		extraNames = append(extraNames, na.name)
	}

	// defaults / missing
	fill := func(ps []param) bool {
		for _, p := range ps {
			sl := slots[p.name]
			if sl.set {
				continue
			}
			if !p.opt {
				return false
			}
			sl.set, sl.val = true, p.def
		}
		return true
	}
	okPos := fill(s.pos)
	okKw := fill(s.kwonly)
	if !okPos || !okKw {
		return outcome{errc: "missing"}
	}

	// render in the order in which f returns its parameters
	var b strings.Builder
	sep := func() {
		if b.Len() > 0 {
			b.WriteByte(';')
		}
	}
	for _, p := range s.pos {
		sep()
		b.WriteString(p.name + "=" + strconv.Itoa(slots[p.name].val))
	}
	if s.star == starArgs {
		sep()
		b.WriteString("args=(")
		for i, v := range surplus {
			if i > 0 {
				b.WriteByte(',')
			}
			b.WriteString(strconv.Itoa(v))
		}
		b.WriteString(")")
	}
	for _, p := range s.kwonly {
		sep()
		b.WriteString(p.name + "=" + strconv.Itoa(slots[p.name].val))
	}
	if s.kwargs {
		sep()
		b.WriteString("kwargs={")
		for i, n := range extraNames {
			if i > 0 {
				b.WriteByte(',')
			}
			b.WriteString(n + ":" + strconv.Itoa(extraVals[n]))
		}
		b.WriteString("}")
	}
	return outcome{ok: true, binding: b.String()}
}

// flatten turns a call into flattened arguments, or reports why the call fails before binding.
// flatOK=false means the call cannot even be expressed through starlark.Call.
func (sp *space) flatten(c call) (positional []int, named []namedArg, errc string) {
	positional = append(positional, posVals[:c.npos]...)
	names, vals := c.named()
	for i, n := range names {
		named = append(named, namedArg{n, vals[i]})
	}
	q := sp.seqs[c.seq]
	switch {
	case q.Kind == "none":
	case q.iterable():
		positional = append(positional, q.elems()...)
	default:
		return nil, nil, "star-not-iterable"
	}
	d := sp.dicts[c.dict]
	switch d.Kind {
	case "nonmap":
		return nil, nil, "starstar-not-mapping"
	case "dict":
		for _, e := range d.Entries {
			if e.IsInt {
				return nil, nil, "non-string-keyword"
			}
		}
		for _, e := range d.Entries {
			named = append(named, namedArg{e.Key, e.Val})
		}
	}
	return positional, named, ""
}

func (sp *space) oracle(s *sig, c call) outcome {
	pos, named, errc := sp.flatten(c)
	if errc != "" {
		return outcome{errc: errc}
	}
	return bindFlat(s, pos, named)
}
