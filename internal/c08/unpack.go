package c08

import (
	"fmt"
	"math/big"
	"math/rand"
	"strconv"
	"strings"

	"go.starlark.net/starlark"

	"verif/internal/driver"
	"verif/internal/sl"
)

// ---------------------------------------------------------------------------------------------
// Part B: starlark.UnpackArgs / starlark.UnpackPositionalArgs against their documented contract.
//
// Contract used by the oracle (doc comment of UnpackArgs in starlark/unpack.go):
//   * pairs alternate names and pointers; positional arguments fill the parameters in order,
//     keyword arguments fill the parameter of that name;
//   * `name?` is optional; `name??` is optional and "treats the None value as if the argument was
//     absent"; "If a parameter is marked optional, then all following parameters are implicitly
//     optional whether or not they are marked" — so every marker sequence is a legal spec;
//   * the variable's type decides the check: bool, Go integers (AsInt: type and range), string,
//     *List, *Dict, Callable, Iterable, an implementation of Value (assignability), an Unpacker
//     (its Unpack method decides), Value (anything);
//   * too many positional arguments, an unknown keyword, two arguments for one parameter, a missing
//     required parameter and a failed check are errors (message text is not judged);
//   * a parameter that receives no argument keeps the variable's previous contents (that is how
//     defaults work in the documented examples);
//   * unpackArgNoEscape: "On failure, don't clobber *ptr".
// What is demanded on failure is only this: a target holds either its sentinel or the conversion
// of a correctly typed argument that the call supplied for that very parameter.
//
// A `??` parameter that receives None still *received an argument*: "as if the argument was absent"
// governs what happens to the variable (it keeps its previous contents), not how many arguments the
// call supplied for the parameter. The property demands binding "by the same rules" as Starlark
// functions, where a parameter given twice (by position and by name, or twice by name) is always an
// error whatever the values are. So None + a second argument for the same `??` parameter must fail.

type tkind int

const (
	tValue tkind = iota
	tString
	tBool
	tInt
	tInt8
	tUint64
	tFloat64
	tList
	tDict
	tCallable
	tIterable
	tSInt
	tCustom
	numTkinds
)

var tkindNames = []string{"*Value", "*string", "*bool", "*int", "*int8", "*uint64", "*float64", "**List", "**Dict", "*Callable", "*Iterable", "*Int", "Unpacker"}

// custom is the user-defined Unpacker: it accepts strings and ints only and leaves itself
// untouched on failure.
type custom struct{ tag string }

func (u *custom) Unpack(v starlark.Value) error {
	switch v := v.(type) {
	case starlark.String:
		u.tag = "s:" + string(v)
		return nil
	case starlark.Int:
		u.tag = "i:" + v.String()
		return nil
	}
	return fmt.Errorf("got %s, want string or int", v.Type())
}

var (
	sentValue = starlark.String("<sentinel value>")
	sentList  = starlark.NewList([]starlark.Value{starlark.String("<sentinel list>")})
	sentDict  = func() *starlark.Dict {
		d := starlark.NewDict(1)
		d.SetKey(starlark.String("<sentinel dict>"), starlark.None)
		return d
	}()
	sentCallable = starlark.NewBuiltin("sentinel_callable", func(*starlark.Thread, *starlark.Builtin, starlark.Tuple, []starlark.Tuple) (starlark.Value, error) {
		return starlark.None, nil
	})
	sentIterable = starlark.Tuple{starlark.String("<sentinel iterable>")}
	sentSInt     = starlark.MakeInt(-9999)
)

// target is one typed variable, pre-filled with a sentinel.
type target struct {
	kind tkind
	v    starlark.Value
	s    string
	b    bool
	i    int
	i8   int8
	u64  uint64
	f    float64
	l    *starlark.List
	d    *starlark.Dict
	c    starlark.Callable
	it   starlark.Iterable
	si   starlark.Int
	cu   custom
}

func newTarget(k tkind, boolSentinel bool) *target {
	return &target{kind: k, v: sentValue, s: "<sentinel string>", b: boolSentinel, i: -7777, i8: -77, u64: 7777777, f: -7.5,
		l: sentList, d: sentDict, c: sentCallable, it: sentIterable, si: sentSInt, cu: custom{tag: "<sentinel custom>"}}
}

func (t *target) ptr() any {
	switch t.kind {
	case tValue:
		return &t.v
	case tString:
		return &t.s
	case tBool:
		return &t.b
	case tInt:
		return &t.i
	case tInt8:
		return &t.i8
	case tUint64:
		return &t.u64
	case tFloat64:
		return &t.f
	case tList:
		return &t.l
	case tDict:
		return &t.d
	case tCallable:
		return &t.c
	case tIterable:
		return &t.it
	case tSInt:
		return &t.si
	}
	return &t.cu
}

func showValue(v starlark.Value) string {
	if v == nil {
		return "<nil>"
	}
	return v.Type() + ":" + v.String()
}

// observe renders the current contents of the variable.
func (t *target) observe() string {
	switch t.kind {
	case tValue:
		return showValue(t.v)
	case tString:
		return "string:" + t.s
	case tBool:
		return "bool:" + strconv.FormatBool(t.b)
	case tInt:
		return "int:" + strconv.Itoa(t.i)
	case tInt8:
		return "int8:" + strconv.Itoa(int(t.i8))
	case tUint64:
		return "uint64:" + strconv.FormatUint(t.u64, 10)
	case tFloat64:
		return "float64:" + strconv.FormatFloat(t.f, 'g', -1, 64)
	case tList:
		if t.l == nil {
			return "<nil>"
		}
		return showValue(t.l)
	case tDict:
		if t.d == nil {
			return "<nil>"
		}
		return showValue(t.d)
	case tCallable:
		return showValue(t.c)
	case tIterable:
		return showValue(t.it)
	case tSInt:
		return showValue(t.si)
	}
	return "custom:" + t.cu.tag
}

// An argument with the oracle's verdict about it for a given target type.
type argv struct {
	val    starlark.Value
	class  string // "right", "wrong", "none", "range"
	accept bool   // the documented check for the target type accepts it
	expect string // what observe() must show after assignment (when accept)
}

func bigInt(s string) starlark.Int {
	b, _ := new(big.Int).SetString(s, 10)
	return starlark.MakeBigInt(b)
}

var someCallable = starlark.NewBuiltin("some_callable", func(*starlark.Thread, *starlark.Builtin, starlark.Tuple, []starlark.Tuple) (starlark.Value, error) {
	return starlark.None, nil
})

// genArg draws an argument of the requested class for a target of kind k. tag makes values distinct.
// The acceptance verdict is derived here from the documented checks, not from UnpackArg.
func genArg(r *rand.Rand, k tkind, class string, tag int, boolSentinel bool) argv {
	str := func() starlark.Value { return starlark.String("str" + strconv.Itoa(tag)) }
	num := func() starlark.Int { return starlark.MakeInt(tag) }
	if class == "none" {
		a := argv{val: starlark.None, class: "none"}
		if k == tValue { // a Value variable accepts any value, None included
			a.accept, a.expect = true, showValue(starlark.None)
		}
		return a
	}
	if class == "range" {
		var v starlark.Int
		switch k {
		case tInt8:
			v = []starlark.Int{starlark.MakeInt(128), starlark.MakeInt(-129), starlark.MakeInt(255), bigInt("36893488147419103232")}[r.Intn(4)]
		case tUint64:
			v = []starlark.Int{starlark.MakeInt(-1), bigInt("18446744073709551616"), bigInt("-18446744073709551616")}[r.Intn(3)]
		case tInt:
			v = []starlark.Int{bigInt("9223372036854775808"), bigInt("-9223372036854775809"), bigInt("36893488147419103232")}[r.Intn(3)]
		default:
			return genArg(r, k, "wrong", tag, boolSentinel)
		}
		return argv{val: v, class: "range"}
	}
	if class == "wrong" {
		var v starlark.Value
		switch k {
		case tValue:
			return genArg(r, k, "right", tag, boolSentinel) // nothing is wrong for a Value
		case tString:
			v = []starlark.Value{num(), starlark.Bytes("b"), starlark.True}[r.Intn(3)]
		case tBool:
			v = []starlark.Value{starlark.MakeInt(1), starlark.MakeInt(0), str()}[r.Intn(3)]
		case tInt, tInt8, tUint64:
			v = []starlark.Value{str(), starlark.Float(1), starlark.True}[r.Intn(3)]
		case tFloat64:
			v = []starlark.Value{str(), starlark.True, starlark.NewList(nil)}[r.Intn(3)]
		case tList:
			v = []starlark.Value{starlark.Tuple{num()}, str(), starlark.NewDict(0)}[r.Intn(3)]
		case tDict:
			v = []starlark.Value{starlark.NewList(nil), str(), num()}[r.Intn(3)]
		case tCallable:
			v = []starlark.Value{num(), str(), starlark.NewList(nil)}[r.Intn(3)]
		case tIterable:
			v = []starlark.Value{num(), str(), starlark.True}[r.Intn(3)] // a string is not iterable
		case tSInt:
			v = []starlark.Value{str(), starlark.Float(2), starlark.True}[r.Intn(3)]
		case tCustom:
			v = []starlark.Value{starlark.Float(2), starlark.True, starlark.NewList(nil)}[r.Intn(3)]
		}
		return argv{val: v, class: "wrong"}
	}
	// right
	a := argv{class: "right", accept: true}
	switch k {
	case tValue:
		a.val = []starlark.Value{num(), str(), starlark.Tuple{num()}, starlark.Float(float64(tag) + 0.5)}[r.Intn(4)]
		a.expect = showValue(a.val)
	case tString:
		a.val = str()
		a.expect = "string:str" + strconv.Itoa(tag)
	case tBool:
		a.val = starlark.Bool(!boolSentinel) // the only value that makes an assignment visible
		a.expect = "bool:" + strconv.FormatBool(!boolSentinel)
	case tInt:
		n := []int{tag, -tag, 1 << 40, -(1 << 62)}[r.Intn(4)]
		a.val = starlark.MakeInt(n)
		a.expect = "int:" + strconv.Itoa(n)
	case tInt8:
		n := []int{tag % 100, -128, 127, 0}[r.Intn(4)]
		a.val = starlark.MakeInt(n)
		a.expect = "int8:" + strconv.Itoa(n)
	case tUint64:
		if r.Intn(3) == 0 {
			a.val = bigInt("18446744073709551615")
			a.expect = "uint64:18446744073709551615"
		} else {
			a.val = starlark.MakeInt(tag)
			a.expect = "uint64:" + strconv.Itoa(tag)
		}
	case tFloat64:
		f := float64(tag) + 0.25
		a.val = starlark.Float(f)
		a.expect = "float64:" + strconv.FormatFloat(f, 'g', -1, 64)
	case tList:
		a.val = starlark.NewList([]starlark.Value{num()})
		a.expect = showValue(a.val)
	case tDict:
		d := starlark.NewDict(1)
		d.SetKey(num(), starlark.None)
		a.val = d
		a.expect = showValue(d)
	case tCallable:
		a.val = someCallable
		a.expect = showValue(someCallable)
	case tIterable:
		a.val = []starlark.Value{starlark.NewList([]starlark.Value{num()}), starlark.Tuple{num(), num()}, starlark.NewDict(0)}[r.Intn(3)]
		a.expect = showValue(a.val)
	case tSInt:
		a.val = []starlark.Value{num(), bigInt("36893488147419103232")}[r.Intn(2)]
		a.expect = showValue(a.val)
	case tCustom:
		if r.Intn(2) == 0 {
			a.val = str()
			a.expect = "custom:s:str" + strconv.Itoa(tag)
		} else {
			a.val = num()
			a.expect = "custom:i:" + strconv.Itoa(tag)
		}
	}
	return a
}

func drawClass(r *rand.Rand) string {
	switch x := r.Intn(100); {
	case x < 70:
		return "right"
	case x < 82:
		return "none"
	case x < 93:
		return "wrong"
	}
	return "range"
}

var unpackNames = []string{"alpha", "beta", "gamma", "delta"}

type supplied struct {
	param int // parameter index, -1 for an unknown keyword
	name  string
	arg   argv
	byPos bool
}

// unpackOracle decides the call from the documented contract.
//
//	markers[i]: 0 = `name`, 1 = `name?`, 2 = `name??`.
//
// It returns whether the call must succeed, whether a `??` parameter got None plus a second argument
// (noneDup: a duplicate like any other, reported separately only for the evidence counters), and for each
// target the set of admissible observations.
func unpackOracle(markers []int, npos int, sup []supplied, sentinels []string) (ok, noneDup bool, final []string, allowed []map[string]bool, errc string) {
	n := len(markers)
	allowed = make([]map[string]bool, n)
	for i := range allowed {
		allowed[i] = map[string]bool{sentinels[i]: true}
	}
	firstOptional := n
	for i, m := range markers {
		if m != 0 {
			firstOptional = i
			break
		}
	}
	var errs []string
	if npos > n {
		errs = append(errs, "too-many-positional")
	}
	count := make([]int, n)     // arguments supplied for the parameter (reading B: None for ?? counts)
	effective := make([]int, n) // arguments that are not "as if absent"
	final = append([]string(nil), sentinels...)
	for _, su := range sup {
		if su.param < 0 {
			if su.byPos {
				continue // surplus positional, already an error
			}
			errs = append(errs, "unknown-keyword")
			continue
		}
		i := su.param
		count[i]++
		if markers[i] == 2 && su.arg.class == "none" {
			continue // as if absent
		}
		effective[i]++
		if !su.arg.accept {
			errs = append(errs, "type")
			continue
		}
		allowed[i][su.arg.expect] = true
		final[i] = su.arg.expect
	}
	for i := 0; i < n; i++ {
		if count[i] > 1 {
			errs = append(errs, "duplicate")
			if effective[i] <= 1 {
				noneDup = true // None for `??` plus a second argument: still a duplicate
			}
		}
		if i < firstOptional && count[i] == 0 {
			errs = append(errs, "missing")
		}
	}
	if len(errs) > 0 {
		return false, noneDup, nil, allowed, errs[0]
	}
	return true, false, final, allowed, ""
}

func classifyUnpackErr(err error) string {
	m := err.Error()
	switch {
	case strings.Contains(m, "for parameter"):
		return "type"
	case strings.Contains(m, "unexpected keyword argument"):
		return "unknown-keyword"
	case strings.Contains(m, "multiple values"):
		return "duplicate"
	case strings.Contains(m, "missing argument"):
		return "missing"
	case strings.Contains(m, "want at most") || strings.Contains(m, "want at least") || (strings.Contains(m, "got ") && strings.Contains(m, "arguments, want")):
		return "arity"
	case strings.Contains(m, "unexpected keyword arguments"):
		return "keywords-not-allowed"
	}
	return "other"
}

func (e *engine) partB() {
	c := e.c
	draws := c.Pick(4, 40)
	// all marker sequences over 0..4 parameters
	var specs [][]int
	for n := 0; n <= 4; n++ {
		total := 1
		for i := 0; i < n; i++ {
			total *= 3
		}
		for x := 0; x < total; x++ {
			m := make([]int, n)
			y := x
			for i := range m {
				m[i] = y % 3
				y /= 3
			}
			specs = append(specs, m)
		}
	}
	for si, markers := range specs {
		if !c.Take() {
			continue
		}
		r := c.Rand()
		n := len(markers)
		c.Note("C08 part B UnpackArgs markers %v", markers)
		for npos := 0; npos <= n+1; npos++ {
			for sub := 0; sub < 1<<n; sub++ {
				for extra := 0; extra < 4; extra++ { // bit0: unknown keyword, bit1: duplicate of a keyword
					if extra&2 != 0 && sub == 0 && extra&1 == 0 {
						continue // nothing to duplicate
					}
					for d := 0; d < draws; d++ {
						e.unpackArgsCase(r, si, markers, npos, sub, extra)
					}
					c.Eval(draws)
				}
			}
		}
		e.flushCounts()
	}
	// UnpackPositionalArgs
	nPos := c.Pick(40, 400)
	for i := 0; i < nPos; i++ {
		if !c.Take() {
			continue
		}
		r := c.Rand()
		c.Note("C08 part B UnpackPositionalArgs batch %d", i)
		for j := 0; j < 100; j++ {
			e.unpackPositionalCase(r)
		}
		c.Eval(100)
		e.flushCounts()
	}
}

func markerText(name string, m int) string {
	return name + []string{"", "?", "??"}[m]
}

func (e *engine) unpackArgsCase(r *rand.Rand, si int, markers []int, npos, sub, extra int) {
	c := e.c
	n := len(markers)
	boolSent := r.Intn(2) == 0
	targets := make([]*target, n)
	pairs := make([]any, 0, 2*n)
	sentinels := make([]string, n)
	var specText []string
	for i := range targets {
		targets[i] = newTarget(tkind(r.Intn(int(numTkinds))), boolSent)
		pairs = append(pairs, markerText(unpackNames[i], markers[i]), targets[i].ptr())
		sentinels[i] = targets[i].observe()
		specText = append(specText, markerText(unpackNames[i], markers[i])+" "+tkindNames[targets[i].kind])
	}
	tag := 1000
	mk := func(i int) argv {
		tag++
		k := tValue
		if i >= 0 && i < n {
			k = targets[i].kind
		}
		return genArg(r, k, drawClass(r), tag, boolSent)
	}
	var sup []supplied
	args := make(starlark.Tuple, 0, npos)
	for i := 0; i < npos; i++ {
		su := supplied{param: i, byPos: true}
		if i >= n {
			su.param = -1
		} else {
			su.name = unpackNames[i]
		}
		su.arg = mk(i)
		sup = append(sup, su)
		args = append(args, su.arg.val)
	}
	var kws []supplied
	for i := 0; i < n; i++ {
		if sub&(1<<i) != 0 {
			kws = append(kws, supplied{param: i, name: unpackNames[i], arg: mk(i)})
		}
	}
	if extra&1 != 0 {
		nm := []string{"omega", "alph", "betaa", "alpha?", ""}[r.Intn(5)]
		kws = append(kws, supplied{param: -1, name: nm, arg: mk(-1)})
	}
	if extra&2 != 0 && len(kws) > 0 {
		j := r.Intn(len(kws))
		dup := kws[j]
		dup.arg = mk(dup.param)
		kws = append(kws, dup)
	}
	r.Shuffle(len(kws), func(i, j int) { kws[i], kws[j] = kws[j], kws[i] })
	kwargs := make([]starlark.Tuple, len(kws))
	for i, k := range kws {
		kwargs[i] = starlark.Tuple{starlark.String(k.name), k.arg.val}
	}
	sup = append(sup, kws...)

	wantOK, noneDup, final, allowed, werr := unpackOracle(markers, npos, sup, sentinels)

	var err error
	p := sl.Safe(func() { err = starlark.UnpackArgs("fn", args, kwargs, pairs...) })
	e.count("B_unpackargs_calls", 1)

	describe := func() map[string]any {
		var as, ks []string
		for _, a := range args {
			as = append(as, showValue(a))
		}
		for _, k := range kwargs {
			ks = append(ks, string(k[0].(starlark.String))+"="+showValue(k[1]))
		}
		obs := make([]string, n)
		for i, t := range targets {
			obs[i] = t.observe()
		}
		return map[string]any{"spec": specText, "args": as, "kwargs": ks, "error": fmt.Sprint(err), "targets_after": obs, "oracle_ok": wantOK, "oracle_error": werr, "oracle_targets": final}
	}
	if p != nil {
		c.Violation("C08 UnpackArgs panic", fmt.Sprintf("panic %v for spec %v", p.Value, specText), map[string]any{"case": describe(), "stack": p.Stack})
		return
	}
	if len(args)+len(kwargs) > 0 {
		fp := make([]byte, 0, 48)
		fp = append(fp, 'B', byte(si), byte(npos), byte(sub), byte(extra))
		for _, t := range targets {
			fp = append(fp, byte(t.kind))
		}
		for _, su := range sup {
			fp = append(fp, byte(su.param+1), su.arg.class[0], byte(len(su.name)))
		}
		c.DistinctH(driver.Hash64(string(fp)))
	}
	e.cover("B_marker_sequences", fmt.Sprint(markers))
	if err == nil {
		e.count("B_ok", 1)
	} else {
		cl := classifyUnpackErr(err)
		e.count("B_err_"+cl, 1)
		if cl == "other" {
			c.Inconclusive("unclassified UnpackArgs error %q", err)
		}
	}
	gotOK := err == nil
	if noneDup {
		e.count("B_none_plus_second_argument_must_fail", 1)
	}
	switch {
	case gotOK && !wantOK:
		c.Violation("C08 UnpackArgs accepted-invalid-call "+werr, fmt.Sprintf("spec %v accepted a call the contract rejects (%s)", specText, werr), describe())
		return
	case !gotOK && wantOK:
		c.Violation("C08 UnpackArgs rejected-valid-call "+classifyUnpackErr(err), fmt.Sprintf("spec %v rejected a valid call: %v", specText, err), describe())
		return
	}
	// targets
	for i, t := range targets {
		obs := t.observe()
		if gotOK && wantOK {
			if obs != final[i] {
				kind := "wrong-binding"
				if final[i] == sentinels[i] {
					kind = "assigned-absent-parameter"
				}
				c.Violation("C08 UnpackArgs "+kind, fmt.Sprintf("spec %v: target %d holds %s, want %s", specText, i, obs, final[i]), describe())
				return
			}
		} else if !allowed[i][obs] {
			c.Violation("C08 UnpackArgs target clobbered on failure", fmt.Sprintf("spec %v: after error %v target %d holds %s which no correctly typed argument for it explains", specText, err, i, obs), describe())
			return
		}
	}
	// bookkeeping of what was observed
	for _, su := range sup {
		if su.param < 0 {
			continue
		}
		if !su.arg.accept && !(markers[su.param] == 2 && su.arg.class == "none") {
			e.count("B_wrongtype_target_checks", 1)
			e.cover("B_rejected_argument_kinds", tkindNames[targets[su.param].kind]+"<-"+su.arg.class)
		}
		if markers[su.param] == 2 && su.arg.class == "none" {
			e.count("B_none_skipped", 1)
		}
		if su.arg.accept && gotOK {
			e.cover("B_assigned_target_kinds", tkindNames[targets[su.param].kind])
		}
	}
	if c.Shard%2 == 1 && c.WantSample() && n >= 2 && len(sup) >= 2 && r.Intn(map[bool]int{true: 3, false: 300}[gotOK]) == 0 {
		d := describe()
		d["part"] = "B"
		c.Sample(d)
	}
}

func (e *engine) unpackPositionalCase(r *rand.Rand) {
	c := e.c
	n := r.Intn(5)
	min := 0
	if n > 0 {
		min = r.Intn(n + 1)
	}
	boolSent := r.Intn(2) == 0
	targets := make([]*target, n)
	vars := make([]any, n)
	sentinels := make([]string, n)
	var specText []string
	for i := range targets {
		targets[i] = newTarget(tkind(r.Intn(int(numTkinds))), boolSent)
		vars[i] = targets[i].ptr()
		sentinels[i] = targets[i].observe()
		specText = append(specText, tkindNames[targets[i].kind])
	}
	npos := r.Intn(n + 2)
	args := make(starlark.Tuple, npos)
	argvs := make([]argv, npos)
	for i := range args {
		k := tValue
		if i < n {
			k = targets[i].kind
		}
		cl := drawClass(r)
		if r.Intn(3) != 0 {
			cl = "right"
		}
		argvs[i] = genArg(r, k, cl, 2000+i, boolSent)
		args[i] = argvs[i].val
	}
	var kwargs []starlark.Tuple
	if r.Intn(6) == 0 {
		kwargs = append(kwargs, starlark.Tuple{starlark.String("alpha"), starlark.MakeInt(1)})
	}
	wantOK := len(kwargs) == 0 && npos >= min && npos <= n
	for i := 0; i < npos && i < n; i++ {
		if !argvs[i].accept {
			wantOK = false
		}
	}
	var err error
	p := sl.Safe(func() { err = starlark.UnpackPositionalArgs("fn", args, kwargs, min, vars...) })
	e.count("B_unpackpositional_calls", 1)
	detail := func() map[string]any {
		var as []string
		for _, a := range args {
			as = append(as, showValue(a))
		}
		obs := make([]string, n)
		for i, t := range targets {
			obs[i] = t.observe()
		}
		return map[string]any{"vars": specText, "min": min, "args": as, "kwargs": len(kwargs), "error": fmt.Sprint(err), "targets_after": obs}
	}
	if p != nil {
		c.Violation("C08 UnpackPositionalArgs panic", fmt.Sprintf("panic %v", p.Value), map[string]any{"case": detail(), "stack": p.Stack})
		return
	}
	if npos > 0 {
		fp := []byte{'P', byte(n), byte(min), byte(npos), byte(len(kwargs))}
		for _, t := range targets {
			fp = append(fp, byte(t.kind))
		}
		for _, a := range argvs {
			fp = append(fp, a.class[0])
		}
		c.DistinctH(driver.Hash64(string(fp)))
	}
	if err != nil {
		cl := classifyUnpackErr(err)
		e.count("B_pos_err_"+cl, 1)
		if cl == "other" {
			c.Inconclusive("unclassified UnpackPositionalArgs error %q", err)
		}
	} else {
		e.count("B_pos_ok", 1)
	}
	if (err == nil) != wantOK {
		kind := "accepted-invalid-call"
		if wantOK {
			kind = "rejected-valid-call"
		}
		c.Violation("C08 UnpackPositionalArgs "+kind, fmt.Sprintf("vars %v min %d: err=%v", specText, min, err), detail())
		return
	}
	for i, t := range targets {
		obs := t.observe()
		var okSet []string
		if err == nil {
			if i < npos {
				okSet = []string{argvs[i].expect}
			} else {
				okSet = []string{sentinels[i]}
			}
		} else {
			okSet = []string{sentinels[i]}
			if i < npos && argvs[i].accept {
				okSet = append(okSet, argvs[i].expect)
			}
			if i < npos && !argvs[i].accept {
				e.count("B_wrongtype_target_checks", 1)
			}
		}
		found := false
		for _, s := range okSet {
			found = found || s == obs
		}
		if !found {
			key := "C08 UnpackPositionalArgs wrong-binding"
			if err != nil {
				key = "C08 UnpackPositionalArgs target clobbered on failure"
			}
			c.Violation(key, fmt.Sprintf("vars %v: target %d holds %s, admissible %v", specText, i, obs, okSet), detail())
			return
		}
	}
}
