package c08

import (
	"fmt"
	"math/rand"
	"strconv"
	"strings"
)

// ---------------------------------------------------------------------------------------------
// Signature space: <= 3 positional parameters (required ones first, then optional ones),
// {no star, bare "*", "*args"}, <= 2 keyword-only parameters (each required or optional; a bare
// "*" needs at least one), optional "**kwargs": 10 x 14 x 2 = 280 signatures.

type param struct {
	name string
	opt  bool
	def  int // default value (distinct per parameter so that a default taken from the wrong slot is visible)
}

const (
	starNone = 0
	starBare = 1
	starArgs = 2
)

type sig struct {
	id     int
	pos    []param // a, b, c
	star   int
	kwonly []param // k, m
	kwargs bool
}

var posNames = []string{"a", "b", "c"}
var kwNames = []string{"k", "m"}
var defaults = map[string]int{"a": -1, "b": -2, "c": -3, "k": -4, "m": -5}

func allSigs() []*sig {
	var out []*sig
	type starPat struct {
		star int
		kw   []bool // opt flag of each keyword-only parameter
	}
	var pats []starPat
	pats = append(pats, starPat{starNone, nil})
	for _, st := range []int{starBare, starArgs} {
		lo := 0
		if st == starBare {
			lo = 1
		}
		for nk := lo; nk <= 2; nk++ {
			for bits := 0; bits < 1<<nk; bits++ {
				kw := make([]bool, nk)
				for i := range kw {
					kw[i] = bits&(1<<i) != 0
				}
				pats = append(pats, starPat{st, kw})
			}
		}
	}
	for np := 0; np <= 3; np++ {
		for nreq := np; nreq >= 0; nreq-- {
			for _, sp := range pats {
				for _, kwargs := range []bool{false, true} {
					s := &sig{id: len(out), star: sp.star, kwargs: kwargs}
					for i := 0; i < np; i++ {
						n := posNames[i]
						s.pos = append(s.pos, param{n, i >= nreq, defaults[n]})
					}
					for i, o := range sp.kw {
						n := kwNames[i]
						s.kwonly = append(s.kwonly, param{n, o, defaults[n]})
					}
					out = append(out, s)
				}
			}
		}
	}
	return out
}

// outNames lists the parameters in the order in which f returns them.
func (s *sig) outNames() []string {
	var l []string
	for _, p := range s.pos {
		l = append(l, p.name)
	}
	if s.star == starArgs {
		l = append(l, "args")
	}
	for _, p := range s.kwonly {
		l = append(l, p.name)
	}
	if s.kwargs {
		l = append(l, "kwargs")
	}
	return l
}

func (s *sig) paramList() string {
	var l []string
	w := func(p param) {
		if p.opt {
			l = append(l, fmt.Sprintf("%s=%d", p.name, p.def))
		} else {
			l = append(l, p.name)
		}
	}
	for _, p := range s.pos {
		w(p)
	}
	switch s.star {
	case starBare:
		l = append(l, "*")
	case starArgs:
		l = append(l, "*args")
	}
	for _, p := range s.kwonly {
		w(p)
	}
	if s.kwargs {
		l = append(l, "**kwargs")
	}
	return strings.Join(l, ", ")
}

// defText is valid Starlark and valid Python.
func (s *sig) defText() string {
	names := s.outNames()
	ret := "(" + strings.Join(names, ", ")
	if len(names) == 1 {
		ret += ","
	}
	ret += ")"
	return fmt.Sprintf("def f(%s): return %s", s.paramList(), ret)
}

// features is a short tag used for coverage accounting.
func (s *sig) features() string {
	req := 0
	for _, p := range s.pos {
		if !p.opt {
			req++
		}
	}
	t := fmt.Sprintf("pos%d/req%d", len(s.pos), req)
	switch s.star {
	case starBare:
		t += "/*"
	case starArgs:
		t += "/*args"
	}
	for _, p := range s.kwonly {
		if p.opt {
			t += "/kwopt"
		} else {
			t += "/kwreq"
		}
	}
	if s.kwargs {
		t += "/**kwargs"
	}
	return t
}

// ---------------------------------------------------------------------------------------------
// Call space. A call is (npos, named subset, order of the named arguments, *seq shape, **dict shape).

// callNames is the universe of names usable as named arguments: the five names that a signature
// may declare plus two that no signature declares. A name that the signature at hand does not
// declare is an undeclared name for it.
var callNames = []string{"a", "b", "c", "k", "m", "u", "v"}
var namedVals = []int{201, 202, 203, 204, 205, 206, 207}
var posVals = []int{101, 102, 103, 104}

const maxNpos = 4

type seqShape struct {
	Kind string `json:"kind"` // "none", "list", "tuple", "range", "int" (not iterable), "str" (not iterable in Starlark; iterable in Python)
	N    int    `json:"n"`
}

const seqBase = 301

func (q seqShape) iterable() bool { return q.Kind == "list" || q.Kind == "tuple" || q.Kind == "range" }

func (q seqShape) elems() []int {
	l := make([]int, q.N)
	for i := range l {
		l[i] = seqBase + i
	}
	return l
}

func (q seqShape) src() string {
	el := q.elems()
	strs := make([]string, len(el))
	for i, e := range el {
		strs[i] = strconv.Itoa(e)
	}
	switch q.Kind {
	case "list":
		return "*[" + strings.Join(strs, ", ") + "]"
	case "tuple":
		if len(strs) == 1 {
			return "*(" + strs[0] + ",)"
		}
		return "*(" + strings.Join(strs, ", ") + ")"
	case "range":
		return fmt.Sprintf("*range(%d, %d)", seqBase, seqBase+q.N)
	case "int":
		return "*7"
	case "str":
		return `*"xy"`
	}
	return ""
}

func allSeqShapes() []seqShape {
	l := []seqShape{{"none", 0}}
	for _, k := range []string{"list", "tuple", "range"} {
		for n := 0; n <= 3; n++ {
			l = append(l, seqShape{k, n})
		}
	}
	l = append(l, seqShape{"int", 0}, seqShape{"str", 0})
	return l
}

// dictEntry: a key is a string, or (IsInt) an int — the non-string-key case.
type dictEntry struct {
	Key   string `json:"key"`
	IntK  int    `json:"intk"`
	IsInt bool   `json:"isint"`
	Val   int    `json:"val"`
}

type dictShape struct {
	Kind    string      `json:"kind"` // "none", "dict", "nonmap"
	Entries []dictEntry `json:"entries"`
}

func (d dictShape) src() string {
	switch d.Kind {
	case "nonmap":
		return "**7"
	case "dict":
		var l []string
		for _, e := range d.Entries {
			if e.IsInt {
				l = append(l, fmt.Sprintf("%d: %d", e.IntK, e.Val))
			} else {
				l = append(l, fmt.Sprintf("%q: %d", e.Key, e.Val))
			}
		}
		return "**{" + strings.Join(l, ", ") + "}"
	}
	return ""
}

func allDictShapes() []dictShape {
	s := func(k string, v int) dictEntry { return dictEntry{Key: k, Val: v} }
	i := func(k int, v int) dictEntry { return dictEntry{IntK: k, IsInt: true, Val: v} }
	return []dictShape{
		{Kind: "none"},
		{Kind: "dict"},
		{Kind: "dict", Entries: []dictEntry{s("a", 401)}},                           // may duplicate a positional or a named argument
		{Kind: "dict", Entries: []dictEntry{s("k", 402)}},                           // keyword-only through **
		{Kind: "dict", Entries: []dictEntry{s("u", 403)}},                           // undeclared; may duplicate named u
		{Kind: "dict", Entries: []dictEntry{s("w", 404), s("c", 405)}},              // never named + maybe declared
		{Kind: "dict", Entries: []dictEntry{s("m", 406), s("v", 407), s("b", 408)}}, // order of **kwargs
		{Kind: "dict", Entries: []dictEntry{i(1, 409)}},                             // non-string key
		{Kind: "dict", Entries: []dictEntry{s("b", 410), i(2, 411)}},                // non-string key after a valid one
		{Kind: "nonmap"}, // not a mapping
		{Kind: "dict", Entries: []dictEntry{s("args", 412), s("kwargs", 413)}}, // the names of the star parameters are not parameters
	}
}

type call struct {
	npos int
	mask int  // bit i set: callNames[i] is passed as a named argument
	rev  bool // named arguments written in reverse order of callNames
	seq  int  // index into seqShapes
	dict int  // index into dictShapes
}

func (c call) tuple() [5]int {
	r := 0
	if c.rev {
		r = 1
	}
	return [5]int{c.npos, c.mask, r, c.seq, c.dict}
}

// named returns the named arguments in source order.
func (c call) named() (names []string, vals []int) {
	for i := range callNames {
		j := i
		if c.rev {
			j = len(callNames) - 1 - i
		}
		if c.mask&(1<<j) != 0 {
			names = append(names, callNames[j])
			vals = append(vals, namedVals[j])
		}
	}
	return
}

func popcount(x int) int {
	n := 0
	for ; x != 0; x &= x - 1 {
		n++
	}
	return n
}

type space struct {
	seqs  []seqShape
	dicts []dictShape
}

func newSpace() *space { return &space{allSeqShapes(), allDictShapes()} }

// size of the full call product for one signature.
func (sp *space) size() int {
	return (maxNpos + 1) * (1 << len(callNames)) * len(sp.seqs) * len(sp.dicts)
}

// enumerate calls fn for every call of the product, in a fixed order. The order in which the named
// arguments are written (forward / reverse) is not a dimension of the product: it alternates with
// the parity of the other coordinates, so every subset is written in both orders many times.
func (sp *space) enumerate(fn func(call)) {
	for npos := 0; npos <= maxNpos; npos++ {
		for m := 0; m < 1<<len(callNames); m++ {
			for q := range sp.seqs {
				for d := range sp.dicts {
					rev := popcount(m) >= 2 && (npos+q+d)%2 == 1
					fn(call{npos, m, rev, q, d})
				}
			}
		}
	}
}

// sample draws one call. A uniform draw from the product is an error almost always, so half of the
// draws are biased towards calls the signature can accept (positional count within the positional
// parameters, named arguments among the parameters not yet bound, undeclared names only with
// **kwargs) and the other half towards small named subsets and absent * / ** arguments.
func (sp *space) sample(r *rand.Rand, s *sig) call {
	var c call
	if r.Intn(2) == 0 {
		c.npos = r.Intn(len(s.pos) + 1)
		if s.star == starArgs && r.Intn(3) == 0 {
			c.npos = r.Intn(maxNpos + 1)
		}
		for i, n := range callNames {
			want := false
			for j, p := range s.pos {
				if p.name == n && j >= c.npos {
					want = r.Intn(10) < 5 || (!p.opt && r.Intn(10) < 8)
				}
			}
			for _, p := range s.kwonly {
				if p.name == n {
					want = r.Intn(10) < 5 || (!p.opt && r.Intn(10) < 8)
				}
			}
			if (n == "u" || n == "v") && s.kwargs {
				want = r.Intn(4) == 0
			}
			if want {
				c.mask |= 1 << i
			}
		}
		c.rev = popcount(c.mask) >= 2 && r.Intn(2) == 0
		if r.Intn(10) < 4 {
			c.seq = 1 + r.Intn(len(sp.seqs)-3) // an iterable
		}
		if r.Intn(10) < 4 {
			c.dict = 1 + r.Intn(len(sp.dicts)-1)
		}
		return c
	}
	c.npos = r.Intn(maxNpos + 1)
	var k int
	switch x := r.Intn(100); {
	case x < 22:
		k = 0
	case x < 50:
		k = 1
	case x < 75:
		k = 2
	case x < 88:
		k = 3
	default:
		k = 4 + r.Intn(4)
	}
	declared := map[string]bool{}
	for _, p := range s.pos {
		declared[p.name] = true
	}
	for _, p := range s.kwonly {
		declared[p.name] = true
	}
	for popcount(c.mask) < k {
		i := r.Intn(len(callNames))
		if !declared[callNames[i]] && r.Intn(3) != 0 {
			continue // prefer declared names 3:1
		}
		c.mask |= 1 << i
	}
	c.rev = popcount(c.mask) >= 2 && r.Intn(2) == 0
	if r.Intn(5) < 2 {
		c.seq = 1 + r.Intn(len(sp.seqs)-1)
	}
	if r.Intn(5) < 2 {
		c.dict = 1 + r.Intn(len(sp.dicts)-1)
	}
	return c
}

// src renders the call as source text, valid in Starlark and (except for nothing) in Python:
// positional, named, *seq, **dict — the only order the Starlark resolver admits.
func (sp *space) src(c call) string {
	var l []string
	for i := 0; i < c.npos; i++ {
		l = append(l, strconv.Itoa(posVals[i]))
	}
	names, vals := c.named()
	for i, n := range names {
		l = append(l, n+"="+strconv.Itoa(vals[i]))
	}
	if t := sp.seqs[c.seq].src(); t != "" {
		l = append(l, t)
	}
	if t := sp.dicts[c.dict].src(); t != "" {
		l = append(l, t)
	}
	return "f(" + strings.Join(l, ", ") + ")"
}

// opcode that the compiler must select for the call (used only to label coverage; the
// executed opcodes are measured separately through the step hook).
func (sp *space) callMode(c call) string {
	v := sp.seqs[c.seq].Kind != "none"
	k := sp.dicts[c.dict].Kind != "none"
	switch {
	case v && k:
		return "CALL_VAR_KW"
	case v:
		return "CALL_VAR"
	case k:
		return "CALL_KW"
	}
	return "CALL"
}
