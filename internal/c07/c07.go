// Package c07 monitors property C07: step limits and cancellation always stop execution.
package c07

import (
	"bytes"
	"fmt"
	"math"
	"math/rand"
	"strings"
	"sync"
	"sync/atomic"
	"time"

	"github.com/anishathalye/porcupine"
	"go.starlark.net/starlark"
	"go.starlark.net/syntax"

	"verif/internal/driver"
	"verif/internal/gen"
	"verif/internal/sl"
)

func init() {
	driver.Register(&driver.Engine{
		ID: "C07", Level: "fault_enumeration",
		Rule:        "programs (terminating corpus with S up to ~5000 steps + non-terminating loops/recursion) x step limit N (every N in 1..S+2 thorough, sampled quick) x cancellation from inside built-in call #j x deterministic asynchronous cancellation injected by blocking the step hook at instruction k x exhaustive Cancel/Uncancel/exec sequences (length <= 6 thorough, <= 4 quick) x concurrent Cancel/Uncancel/exec histories checked by porcupine against a set-if-empty register; logical clock = instruction starts counted by VerifStepHook, independent of Thread.Steps. distinct = distinct (arm, program, cut point) with the cut actually observed by the hook",
		Assumptions: []string{"VerifStepHook is called exactly once per instruction start, after the cancellation test", "porcupine v1.3.0 linearizability checker", "Go race detector (race variant)"},
		Run:         run,
		Variants: func(tier string) []driver.Variant {
			return []driver.Variant{{Name: "default", VLimitKB: 7 << 20}, {Name: "race", Race: true}}
		},
		MinDistinct: 500,
	})
}

// hookState is attached to a thread with SetLocal("c07", …).
type hookState struct {
	count      int64 // instruction starts observed
	afterFlag  int64 // instruction starts observed while cancelled flag was set
	cancelled  atomic.Bool
	blockAt    int64  // block the hook at this instruction start (0 = never) …
	blockFn    func() // … and run this (synchronously) before letting the instruction proceed
	lastOp     uint8
	opAtCancel uint8
	ops        *[256]int64
	abortAt    int64 // monitor-side abort of a run that already overran its limit by a margin (0 = off)
}

// abortRun is panicked by the hook to end an execution that has already been seen to violate its
// step limit (so that a broken limit cannot make the check run forever); execute reports it.
type abortRun struct{}

var installOnce sync.Once

func install() {
	installOnce.Do(func() {
		starlark.VerifStepHook = func(th *starlark.Thread, fn *starlark.Function, pc uint32, op uint8) {
			hs, _ := th.Local("c07").(*hookState)
			if hs == nil {
				return
			}
			hs.count++
			hs.lastOp = op
			if hs.ops != nil {
				hs.ops[op]++
			}
			if hs.cancelled.Load() {
				hs.afterFlag++
			}
			if hs.abortAt != 0 && hs.count >= hs.abortAt {
				panic(abortRun{})
			}
			if hs.blockAt != 0 && hs.count == hs.blockAt {
				hs.opAtCancel = op
				hs.blockFn()
			}
		}
	})
}

type program struct {
	name string
	src  string
}

func newRand(seed int64) *rand.Rand { return rand.New(rand.NewSource(seed)) }

// terminating corpus; every program is self-contained, deterministic and calls the predeclared
// built-in "bi()" at several points (used as cancellation sites).
var corpus = []program{
	{"arith-loop", "def f(n):\n    s = 0\n    for i in range(n):\n        s += i * 2 % 7\n        bi()\n    return s\nr = f(40)\n"},
	{"nested-calls", "def a(n):\n    return b(n) + 1\ndef b(n):\n    bi()\n    return c(n) * 2\ndef c(n):\n    return n - 1\nr = [a(i) for i in range(25)]\n"},
	{"comprehensions", "r = [x * y for x in range(12) for y in range(12) if (x + y) % 3 == 0]\nbi()\nd = {k: [k] * 3 for k in range(30)}\nbi()\n"},
	{"sorted-callback", "def key(x):\n    bi()\n    return -x\nr = sorted([5, 3, 9, 1, 7, 2, 8], key=key)\nm = min([4, 2, 6], key=key)\nM = max([4, 2, 6], key=key)\n"},
	{"while-loop", "def f():\n    i = 0\n    while i < 60:\n        i += 1\n        if i % 7 == 0:\n            bi()\n            continue\n        if i == 55:\n            break\n    return i\nr = f()\n"},
	{"recursion", "def fib(n):\n    if n < 2:\n        bi()\n        return n\n    return fib(n - 1) + fib(n - 2)\nr = fib(9)\n"},
	{"closures", "def mk(k):\n    def inner(x):\n        bi()\n        return x + k\n    return inner\nfs = [mk(i) for i in range(10)]\nr = [f(1) for f in fs]\n"},
	{"unpack-dict", "d = {}\nfor i, (a, b) in enumerate([(1, 2), (3, 4), (5, 6)] * 6):\n    d[i] = a + b\n    bi()\nr = sorted(d.items())\n"},
	{"strings", "s = ''\nfor w in 'the quick brown fox jumps over the lazy dog'.split(' '):\n    s += w.upper()[::-1] + '-'\n    bi()\nr = s.strip('-').split('-')\n"},
	{"kwargs-calls", "def f(a, b=2, *args, c, d=4, **kw):\n    bi()\n    return a + b + c + d + len(args) + len(kw)\nr = [f(1, c=3), f(1, 2, 3, 4, c=5, e=6), f(*[1, 2], **{'c': 3})] * 5\n"},
	{"long", "def g(n):\n    t = []\n    for i in range(n):\n        if i % 3:\n            t.append(i)\n        elif i % 5:\n            t.append(-i)\n        else:\n            bi()\n    return t\nr = [len(g(k)) for k in range(40)]\n"},
	{"toplevel-only", "x = 1\nbi()\ny = x + 2\nz = [x, y]\nbi()\n"},
	{"error-exit", "def f(i):\n    bi()\n    return 10 // (5 - i)\nr = [f(i) for i in range(10)]\n"},
	{"set-ops", "s = set()\nfor i in range(30):\n    s.add(i % 11)\n    bi()\nt = s | set([100]) \nu = [e for e in t if e in s]\n"},
	{"lambda-map", "ap = lambda f, xs: [f(x) for x in xs]\nr = ap(lambda v: (bi(), v * v)[1], range(20))\n"},
}

var nonTerminating = []program{
	{"while-true", "def f():\n    i = 0\n    while True:\n        i += 1\nf()\n"},
	{"toplevel-while", "i = 0\nwhile True:\n    i += 1\n"},
	{"unbounded-recursion", "def f(n):\n    return f(n + 1)\nf(0)\n"},
	{"mutual-recursion", "def a(n):\n    return b(n + 1)\ndef b(n):\n    return a(n + 1)\na(0)\n"},
	{"callback-recursion", "def f(x):\n    return sorted([1, 2], key=f)\nf(0)\n"},
	{"comprehension-forever", "def f():\n    l = [1]\n    n = 0\n    for x in range(1 << 60):\n        n += 1\n    return n\nf()\n"},
	{"growing-loop", "def f():\n    n = 0\n    for a in range(1000000):\n        for b in range(1000000):\n            n += b\nf()\n"},
}

type result struct {
	err     error
	panic   *sl.Panic
	hs      *hookState
	steps   uint64
	bicalls int
	afterBi int64 // instruction starts observed after a built-in that cancelled returned
	thread  *starlark.Thread
}

type runOpts struct {
	maxSteps  uint64
	cancelAtB int // cancel from inside built-in call #j (1-based; 0 = never)
	reason    string
	second    string // a second Cancel with this reason right after the first
	blockAt   int64
	blockFn   func(th *starlark.Thread)
	thread    *starlark.Thread // reuse
	ops       *[256]int64
	entry     string // "" or "file": ExecFileOptions; "repl": ExecREPLChunk; "program": SourceProgramOptions+Init; "compiled": Write, CompiledProgram, Init; "call": compile on a scratch thread, then starlark.Call of the module body wrapped in a function; "eval": EvalOptions (src must be an expression)
}

// entryPoints are the public ways of starting an execution on a thread.
var entryPoints = []string{"file", "repl", "program", "compiled", "call", "eval"}

// runEntry starts src on th through the chosen entry point.
func runEntry(entry string, fopts *syntax.FileOptions, th *starlark.Thread, src string, env starlark.StringDict) error {
	isPre := func(name string) bool { _, ok := env[name]; return ok }
	switch entry {
	case "", "file":
		_, err := starlark.ExecFileOptions(fopts, th, "c07.star", src, env)
		return err
	case "repl":
		f, err := fopts.Parse("c07.star", src, 0)
		if err != nil {
			return err
		}
		globals := starlark.StringDict{}
		for k, v := range env {
			globals[k] = v
		}
		return starlark.ExecREPLChunk(f, th, globals)
	case "program", "compiled":
		_, prog, err := starlark.SourceProgramOptions(fopts, "c07.star", src, isPre)
		if err != nil {
			return err
		}
		if entry == "compiled" {
			var buf bytes.Buffer
			if err := prog.Write(&buf); err != nil {
				return err
			}
			if prog, err = starlark.CompiledProgram(&buf); err != nil {
				return err
			}
		}
		_, err = prog.Init(th, env)
		return err
	case "call":
		// the module body becomes the body of a function built on another thread; only the call runs on th
		var b strings.Builder
		b.WriteString("def c07_main():\n")
		for _, line := range strings.Split(strings.TrimRight(src, "\n"), "\n") {
			b.WriteString("    " + line + "\n")
		}
		g, err := starlark.ExecFileOptions(fopts, &starlark.Thread{Name: "c07-build"}, "c07.star", b.String(), env)
		if err != nil {
			return err
		}
		_, err = starlark.Call(th, g["c07_main"], nil, nil)
		return err
	case "eval":
		_, err := starlark.EvalOptions(fopts, th, "c07.star", src, env)
		return err
	}
	return fmt.Errorf("unknown entry %q", entry)
}

func execute(src string, o runOpts) *result { return executeOpts(src, sl.AllOptions(), o) }

func executeOpts(src string, fopts *syntax.FileOptions, o runOpts) *result {
	install()
	th := o.thread
	if th == nil {
		th = &starlark.Thread{Name: "c07"}
	}
	hs := &hookState{blockAt: o.blockAt, ops: o.ops}
	if o.blockFn != nil {
		hs.blockFn = func() { o.blockFn(th) }
	}
	th.SetLocal("c07", hs)
	if o.maxSteps > 0 {
		th.SetMaxExecutionSteps(o.maxSteps)
		if o.maxSteps < math.MaxUint64/2 {
			hs.abortAt = int64(o.maxSteps) + 2000
		}
	}
	res := &result{hs: hs, thread: th}
	var countAtCancelReturn int64 = -1
	env := starlark.StringDict{
		"bi": starlark.NewBuiltin("bi", func(t *starlark.Thread, _ *starlark.Builtin, _ starlark.Tuple, _ []starlark.Tuple) (starlark.Value, error) {
			res.bicalls++
			if o.cancelAtB != 0 && res.bicalls == o.cancelAtB {
				t.Cancel(o.reason)
				if o.second != "" {
					t.Cancel(o.second)
				}
				hs.cancelled.Store(true)
				countAtCancelReturn = hs.count
			}
			return starlark.None, nil
		}),
	}
	steps0 := th.ExecutionSteps()
	res.panic = sl.Safe(func() {
		res.err = runEntry(o.entry, fopts, th, src, env)
	})
	if res.panic != nil {
		if _, ok := res.panic.Value.(abortRun); ok {
			res.panic = nil // the overrun itself is reported by the caller (hook count >= N)
			res.err = fmt.Errorf("aborted by the monitor after overrunning the step limit")
		}
	}
	res.steps = th.ExecutionSteps() - steps0
	if countAtCancelReturn >= 0 {
		res.afterBi = hs.count - countAtCancelReturn
	}
	return res
}

func isCancelled(err error, reason string) bool {
	return err != nil && strings.Contains(err.Error(), "Starlark computation cancelled: "+reason)
}

func run(c *driver.Ctx) {
	install()
	if c.Variant == "race" {
		armAsyncRace(c)
		armHistories(c)
		return
	}
	armStepLimit(c)
	armGeneratedStepLimit(c)
	armNonTerminating(c)
	armCancelInBuiltin(c)
	armAsyncInjected(c)
	armSequences(c)
}

// ---- Arm 1: step limits -------------------------------------------------------------------

func armStepLimit(c *driver.Ctx) {
	for _, p := range corpus {
		// baseline, twice (determinism of the step count), on fresh threads
		var ops [256]int64
		base := execute(p.src, runOpts{ops: &ops})
		base2 := execute(p.src, runOpts{})
		S := base.steps
		if c.Take() {
			c.Eval(2)
			for op, n := range ops {
				if n > 0 {
					c.Cover("opcodes_executed", starlark.VerifOpcodeName(uint8(op)))
				}
			}
			if base.panic != nil {
				c.Violation("C07 panic baseline "+p.name, fmt.Sprintf("panic: %v", base.panic.Value), map[string]any{"program": p.src})
			}
			if base2.steps != S || (base.err == nil) != (base2.err == nil) {
				c.Violation("C07 nondeterministic-steps "+p.name, fmt.Sprintf("two runs took %d and %d steps", S, base2.steps), map[string]any{"program": p.src})
			}
			if uint64(base.hs.count) != S {
				c.Violation("C07 steps-vs-hook "+p.name, fmt.Sprintf("ExecutionSteps=%d but the hook observed %d instruction starts on a complete run", S, base.hs.count), map[string]any{"program": p.src})
			}
			c.Distinct("S/base/" + p.name)
			if c.WantSample() {
				c.Sample(map[string]any{"arm": "steplimit-baseline", "program": p.name, "steps": S, "hook_instruction_starts": base.hs.count, "error": fmt.Sprint(base.err)})
			}
		}
		var ns []uint64
		if c.Thorough() {
			for n := uint64(1); n <= S+2; n++ {
				ns = append(ns, n)
			}
		} else {
			r := c.GlobalRand("N/" + p.name)
			ns = []uint64{1, 2, 3, S - 1, S, S + 1, S + 2}
			for len(ns) < 60 {
				ns = append(ns, 1+uint64(r.Int63n(int64(S))))
			}
		}
		const batch = 64
		for i := 0; i < len(ns); i += batch {
			if !c.Take() {
				continue
			}
			for _, N := range ns[i:min(i+batch, len(ns))] {
				r := execute(p.src, runOpts{maxSteps: N})
				c.Eval(1)
				c.Count("steplimit_runs", 1)
				detail := map[string]any{"program": p.src, "N": N, "S": S, "hook_count": r.hs.count, "steps": r.steps, "err": fmt.Sprint(r.err)}
				if r.panic != nil {
					c.Violation("C07 panic steplimit "+p.name, fmt.Sprintf("panic with limit %d: %v", N, r.panic.Value), detail)
					continue
				}
				if uint64(r.hs.count) >= N {
					c.Violation("C07 overrun "+p.name, fmt.Sprintf("limit N=%d but %d instruction starts were observed", N, r.hs.count), detail)
				}
				if N > S {
					// the limit is not reached: same outcome as the baseline
					if (r.err == nil) != (base.err == nil) || isCancelled(r.err, "") || r.steps != S {
						c.Violation("C07 spurious-cancel "+p.name, fmt.Sprintf("limit N=%d > S=%d but outcome differs from the unlimited run: err=%v steps=%d", N, S, r.err, r.steps), detail)
					}
					c.Count("limit_not_reached", 1)
				} else {
					if !isCancelled(r.err, "too many steps") {
						c.Violation("C07 limit-ignored "+p.name, fmt.Sprintf("limit N=%d <= S=%d but execution did not fail with 'too many steps': err=%v", N, S, r.err), detail)
					} else {
						c.Distinct(fmt.Sprintf("S/%s/%d", p.name, N))
						c.Cover("opcode_before_cut", starlark.VerifOpcodeName(r.hs.lastOp))
					}
					c.Count("limit_reached", 1)
				}
			}
		}
	}
}

// armGeneratedStepLimit repeats the step-limit oracle on generated programs (internal/gen), which
// execute many more opcodes and constructs than the fixed corpus.
func armGeneratedStepLimit(c *driver.Ctx) {
	n := c.Pick(80, 4000)
	for i := 0; i < n; i++ {
		if !c.Take() {
			continue
		}
		r := c.Rand()
		opts := syntax.FileOptions{Set: true, While: true, TopLevelControl: true, GlobalReassign: r.Intn(2) == 0, Recursion: r.Intn(2) == 0}
		p := gen.Generate(r, gen.Config{Opts: opts, Loads: false, MaxStmts: 10})
		src := gen.Render(p.Stmts, r, p.Options(gen.Plain))
		var ops [256]int64
		base := executeOpts(src, &opts, runOpts{ops: &ops, maxSteps: 200000})
		if base.panic != nil || isCancelled(base.err, "too many steps") {
			continue
		}
		S := base.steps
		if S < 3 {
			continue
		}
		for op, k := range ops {
			if k > 0 {
				c.Cover("opcodes_executed", starlark.VerifOpcodeName(uint8(op)))
			}
		}
		if uint64(base.hs.count) != S {
			c.Violation("C07 steps-vs-hook generated", fmt.Sprintf("ExecutionSteps=%d but the hook observed %d instruction starts", S, base.hs.count), map[string]any{"program": src})
		}
		ns := []uint64{1, 2, S - 1, S, S + 1}
		for len(ns) < 14 {
			ns = append(ns, 1+uint64(r.Int63n(int64(S))))
		}
		for _, N := range ns {
			res := executeOpts(src, &opts, runOpts{maxSteps: N})
			c.Eval(1)
			c.Count("generated_steplimit_runs", 1)
			detail := map[string]any{"program": src, "N": N, "S": S, "hook_count": res.hs.count, "err": fmt.Sprint(res.err)}
			switch {
			case res.panic != nil:
				c.Violation("C07 panic steplimit generated", fmt.Sprintf("panic with limit %d: %v", N, res.panic.Value), detail)
			case uint64(res.hs.count) >= N:
				c.Violation("C07 overrun generated", fmt.Sprintf("limit N=%d but %d instruction starts were observed", N, res.hs.count), detail)
			case N > S && ((res.err == nil) != (base.err == nil) || res.steps != S):
				c.Violation("C07 spurious-cancel generated", fmt.Sprintf("limit N=%d > S=%d but outcome differs: err=%v steps=%d", N, S, res.err, res.steps), detail)
			case N <= S && !isCancelled(res.err, "too many steps"):
				c.Violation("C07 limit-ignored generated", fmt.Sprintf("limit N=%d <= S=%d but err=%v", N, S, res.err), detail)
			case N <= S:
				c.Distinct(fmt.Sprintf("G/%d/%d", c.Case(), N))
				c.Cover("opcode_before_cut", starlark.VerifOpcodeName(res.hs.lastOp))
			}
		}
	}
}

func armNonTerminating(c *driver.Ctx) {
	limits := []uint64{1, 2, 10, 1000, 100000}
	if c.Thorough() {
		limits = append(limits, 3, 7, 333, 5000, 1000000, 3000000)
	}
	for _, p := range nonTerminating {
		for _, N := range limits {
			if !c.Take() {
				continue
			}
			c.Note("key=C07 crash nonterminating %s\nN=%d", p.name, N)
			r := execute(p.src, runOpts{maxSteps: N})
			c.Eval(1)
			detail := map[string]any{"program": p.src, "N": N, "hook_count": r.hs.count, "err": fmt.Sprint(r.err)}
			switch {
			case r.panic != nil:
				c.Violation("C07 panic nonterminating "+p.name, fmt.Sprintf("panic: %v", r.panic.Value), detail)
			case uint64(r.hs.count) >= N:
				c.Violation("C07 overrun "+p.name, fmt.Sprintf("limit N=%d but %d instruction starts were observed", N, r.hs.count), detail)
			case r.err == nil:
				c.Violation("C07 limit-ignored "+p.name, "non-terminating program returned success", detail)
			case !isCancelled(r.err, "too many steps") && !strings.Contains(r.err.Error(), "Starlark stack overflow"):
				c.Violation("C07 wrong-error "+p.name, "non-terminating program failed with "+r.err.Error(), detail)
			default:
				c.Distinct(fmt.Sprintf("NT/%s/%d", p.name, N))
				c.Count("nonterminating_stopped", 1)
			}
		}
	}
}

// ---- Arm 2: cancellation from inside a built-in (same goroutine) ---------------------------

func armCancelInBuiltin(c *driver.Ctx) {
	for _, p := range corpus {
		base := execute(p.src, runOpts{})
		nb := base.bicalls
		for j := 1; j <= nb; j++ {
			if !c.Thorough() && j > 3 && j != nb && j != nb/2 {
				continue
			}
			if !c.Take() {
				continue
			}
			r := execute(p.src, runOpts{cancelAtB: j, reason: "first-reason 50%", second: "second-reason"})
			c.Eval(1)
			detail := map[string]any{"program": p.src, "cancel_in_builtin_call": j, "err": fmt.Sprint(r.err), "instruction_starts_after_cancel": r.afterBi}
			if r.panic != nil {
				c.Violation("C07 panic cancel-in-builtin "+p.name, fmt.Sprintf("panic: %v", r.panic.Value), detail)
				continue
			}
			if r.afterBi != 0 || r.hs.afterFlag != 0 {
				c.Violation("C07 runs-after-cancel builtin", fmt.Sprintf("%d instruction(s) started after the cancelling built-in call #%d returned (%s)", r.afterBi, j, p.name), detail)
			}
			if !isCancelled(r.err, "first-reason 50%") {
				c.Violation("C07 wrong-reason builtin", fmt.Sprintf("error after Cancel(first-reason 50%%);Cancel(second-reason) is %v (%s)", r.err, p.name), detail)
			}
			// cancellation persists for later executions on the same thread, until Uncancel
			r2 := execute("x = 1\n", runOpts{thread: r.thread})
			if !isCancelled(r2.err, "first-reason 50%") || r2.hs.count != 0 {
				c.Violation("C07 not-persistent", fmt.Sprintf("next execution on the cancelled thread: err=%v, %d instruction starts", r2.err, r2.hs.count), detail)
			}
			r.thread.Uncancel()
			r3 := execute("x = 1\ny = x + 1\n", runOpts{thread: r.thread})
			if r3.err != nil {
				c.Violation("C07 uncancel-ineffective", fmt.Sprintf("after Uncancel the thread still fails: %v", r3.err), detail)
			}
			c.Distinct(fmt.Sprintf("B/%s/%d", p.name, j))
			if c.WantSample() && j == 2 {
				c.Sample(map[string]any{"arm": "cancel-in-builtin", "program": p.name, "builtin_call": j, "error": fmt.Sprint(r.err), "instruction_starts_after_cancel": r.afterBi})
			}
		}
	}
}

// ---- Arm 3: asynchronous cancellation injected deterministically at instruction k ----------

func armAsyncInjected(c *driver.Ctx) {
	for _, p := range corpus {
		base := execute(p.src, runOpts{})
		S := int64(base.steps)
		var ks []int64
		if c.Thorough() {
			for k := int64(1); k <= S; k++ {
				ks = append(ks, k)
			}
		} else {
			r := c.GlobalRand("K/" + p.name)
			ks = []int64{1, 2, S - 1, S}
			for len(ks) < 60 {
				ks = append(ks, 1+r.Int63n(S))
			}
		}
		const batch = 32
		for i := 0; i < len(ks); i += batch {
			if !c.Take() {
				continue
			}
			for _, k := range ks[i:min(i+batch, len(ks))] {
				returned := make(chan struct{})
				r := execute(p.src, runOpts{blockAt: k, blockFn: func(th *starlark.Thread) {
					// another goroutine cancels while this thread is parked inside the hook of instruction k
					go func() {
						th.Cancel("async-reason")
						th.Cancel("late-reason")
						close(returned)
					}()
					<-returned
				}})
				c.Eval(1)
				c.Count("async_injected_runs", 1)
				detail := map[string]any{"program": p.src, "k": k, "S": S, "hook_count": r.hs.count, "err": fmt.Sprint(r.err), "opcode_in_flight": starlark.VerifOpcodeName(r.hs.opAtCancel)}
				if r.panic != nil {
					c.Violation("C07 panic async "+p.name, fmt.Sprintf("panic: %v", r.panic.Value), detail)
					continue
				}
				// Cancel returned before instruction k executed; only instruction k (in flight) may complete.
				if r.hs.count > k {
					c.Violation("C07 runs-after-cancel async", fmt.Sprintf("Cancel returned while instruction %d (%s) was in flight, yet %d more instruction(s) started (%s)", k, starlark.VerifOpcodeName(r.hs.opAtCancel), r.hs.count-k, p.name), detail)
				}
				if k < S || base.err == nil {
					// unless instruction k was the last one of a failing program, the outcome must be the cancellation
					if k < S && !isCancelled(r.err, "async-reason") {
						c.Violation("C07 wrong-reason async", fmt.Sprintf("after async Cancel at instruction %d/%d the error is %v (%s)", k, S, r.err, p.name), detail)
					}
				}
				c.Cover("opcode_in_flight_at_cancel", starlark.VerifOpcodeName(r.hs.opAtCancel))
				c.Distinct(fmt.Sprintf("A/%s/%d", p.name, k))
			}
		}
	}
}

// ---- Arm 4: exhaustive Cancel/Uncancel/exec sequences on one thread ------------------------

func armSequences(c *driver.Ctx) {
	maxLen := c.Pick(4, 6)
	ops := []string{"cancel-a", "cancel-b 100%s %d%", "uncancel", "exec", "exec-limit", "exec-keep"}
	// enumerate by first two ops as a case, all extensions inside
	for a := range ops {
		for b := range ops {
			if !c.Take() {
				continue
			}
			var ext func(seq []int)
			ext = func(seq []int) {
				checkSequence(c, ops, seq)
				if len(seq) == maxLen {
					return
				}
				for i := range ops {
					ext(append(append([]int(nil), seq...), i))
				}
			}
			if b == 0 {
				checkSequence(c, ops, []int{a})
			}
			ext([]int{a, b})
		}
	}
}

func checkSequence(c *driver.Ctx, ops []string, seq []int) {
	th := &starlark.Thread{Name: "seq"}
	reg := ""        // model: the reason in force ("" = none)
	limited := false // model: a step limit of 5 is in force on the thread
	var names []string
	for step, oi := range seq {
		op := ops[oi]
		names = append(names, op)
		switch op {
		case "cancel-a", "cancel-b 100%s %d%":
			th.Cancel(op)
			if reg == "" {
				reg = op
			}
		case "uncancel":
			th.Uncancel()
			reg = ""
		case "exec", "exec-limit", "exec-keep":
			o := runOpts{thread: th, maxSteps: math.MaxUint64}
			if op == "exec-limit" {
				o.maxSteps = 5 // the program below needs more
				limited = true
			}
			if op == "exec-keep" {
				o.maxSteps = 0 // leave the thread's limit as it is
			}
			if op == "exec" {
				limited = false
			}
			// every public entry point in turn (which one is fixed by the sequence and the position in it)
			eh := step
			for _, x := range seq {
				eh = eh*7 + x
			}
			o.entry = entryPoints[eh%len(entryPoints)]
			src := "def f():\n    return [i for i in range(5)]\nx = f()\n"
			switch o.entry {
			case "eval":
				src = "[j for j in [i for i in range(5)]]" // an expression needing more than 5 steps
				if reg != "" {
					// on a cancelled thread even the smallest expressions must be refused
					src = []string{"bi", "(bi)", "1", "bi()", src}[eh%5]
				}
			case "call":
				src = "y = [i for i in range(5)]\nx = [j for j in y]\n"
			}
			r := execute(src, o)
			c.Eval(1)
			c.Cover("sequence_entry_points", o.entry)
			names[len(names)-1] = op + "@" + o.entry
			detail := map[string]any{"sequence": names, "step": step, "model_reason": reg, "err": fmt.Sprint(r.err), "instruction_starts": r.hs.count}
			switch {
			case r.panic != nil:
				c.Violation("C07 panic sequence", fmt.Sprintf("panic: %v", r.panic.Value), detail)
			case reg != "":
				if !isCancelled(r.err, reg) || r.hs.count != 0 {
					c.Violation("C07 sequence cancelled-thread-ran", fmt.Sprintf("after %v: thread cancelled with %q must fail at once naming it; got err=%v after %d instruction starts", names, reg, r.err, r.hs.count), detail)
				}
			case op == "exec-limit" || op == "exec-keep" && limited:
				// (with the limit of 5 kept from an earlier exec-limit the thread is past it already)
				if !isCancelled(r.err, "too many steps") || r.hs.count >= 5 {
					c.Violation("C07 sequence limit", fmt.Sprintf("after %v: limit 5 gave err=%v after %d instruction starts", names, r.err, r.hs.count), detail)
				}
				reg = "too many steps" // the default handler cancels the thread; stays in force
			default:
				if r.err != nil {
					c.Violation("C07 sequence spurious-failure", fmt.Sprintf("after %v: uncancelled thread failed: %v", names, r.err), detail)
				}
			}
		}
	}
	c.Distinct("Q/" + strings.Join(names, ","))
	c.Count("sequences_checked", 1)
}

// ---- Race variant: truly asynchronous cancellation under the race detector -----------------

func armAsyncRace(c *driver.Ctx) {
	n := c.Pick(40, 1500)
	for _, p := range corpus {
		base := execute(p.src, runOpts{})
		S := int64(base.steps)
		for i := 0; i < n; i++ {
			if !c.Take() {
				continue
			}
			rnd := c.Rand()
			k := 1 + rnd.Int63n(S)
			// The canceller is released when the interpreter reaches instruction k but the
			// interpreter does not wait for it: both proceed concurrently.
			release := make(chan struct{})
			doneCh := make(chan struct{})
			var hsRef atomic.Pointer[hookState]
			var thRef atomic.Pointer[starlark.Thread]
			go func() {
				<-release
				if rnd.Intn(2) == 0 {
					time.Sleep(time.Duration(rnd.Intn(20)) * time.Microsecond)
				}
				th := thRef.Load()
				th.Cancel("race-reason")
				hsRef.Load().cancelled.Store(true) // set only after Cancel has returned
				close(doneCh)
			}()
			var once sync.Once
			r := executeWith(p.src, runOpts{blockAt: k, blockFn: func(th *starlark.Thread) {
				once.Do(func() { close(release) })
			}}, func(th *starlark.Thread, hs *hookState) {
				thRef.Store(th)
				hsRef.Store(hs)
			})
			once.Do(func() { close(release) })
			<-doneCh
			c.Eval(1)
			c.Count("async_race_runs", 1)
			detail := map[string]any{"program": p.src, "k": k, "S": S, "instruction_starts_after_cancel_returned": r.hs.afterFlag, "err": fmt.Sprint(r.err)}
			if r.panic != nil {
				c.Violation("C07 panic async-race "+p.name, fmt.Sprintf("panic: %v", r.panic.Value), detail)
				continue
			}
			if r.hs.afterFlag > 1 {
				c.Violation("C07 runs-after-cancel async", fmt.Sprintf("%d instructions started after Cancel had returned (only the one in flight is allowed) (%s)", r.hs.afterFlag, p.name), detail)
			}
			if r.err != nil && strings.Contains(r.err.Error(), "cancelled") && !isCancelled(r.err, "race-reason") {
				c.Violation("C07 wrong-reason async", fmt.Sprintf("error %v does not name the reason given", r.err), detail)
			}
			if isCancelled(r.err, "race-reason") {
				c.Count("async_race_cancel_landed_midrun", 1)
				c.Distinct(fmt.Sprintf("R/%s/%d", p.name, r.hs.count))
			}
		}
	}
}

func executeWith(src string, o runOpts, pre func(*starlark.Thread, *hookState)) *result {
	install()
	th := &starlark.Thread{Name: "c07r"}
	hs := &hookState{blockAt: o.blockAt}
	if o.blockFn != nil {
		hs.blockFn = func() { o.blockFn(th) }
	}
	th.SetLocal("c07", hs)
	pre(th, hs)
	res := &result{hs: hs, thread: th}
	env := starlark.StringDict{"bi": starlark.NewBuiltin("bi", func(*starlark.Thread, *starlark.Builtin, starlark.Tuple, []starlark.Tuple) (starlark.Value, error) {
		return starlark.None, nil
	})}
	res.panic = sl.Safe(func() {
		_, res.err = starlark.ExecFileOptions(sl.AllOptions(), th, "c07.star", src, env)
	})
	res.steps = th.ExecutionSteps()
	return res
}

// ---- Race variant: concurrent Cancel/Uncancel/exec histories, checked by porcupine ---------

type histIn struct {
	Kind   string // "cancel", "uncancel", "exec"
	Reason string
}

var cancelModel = porcupine.Model{
	Init: func() any { return "" },
	Step: func(state, input, output any) (bool, any) {
		st := state.(string)
		in := input.(histIn)
		switch in.Kind {
		case "cancel":
			if st == "" {
				return true, in.Reason
			}
			return true, st
		case "uncancel":
			return true, ""
		default: // exec observes the register at one point of its interval
			return output.(string) == st, st
		}
	},
	DescribeOperation: func(input, output any) string {
		in := input.(histIn)
		if in.Kind == "exec" {
			return fmt.Sprintf("exec -> %q", output)
		}
		return in.Kind + "(" + in.Reason + ")"
	},
}

func armHistories(c *driver.Ctx) {
	n := c.Pick(150, 6000)
	for h := 0; h < n; h++ {
		if !c.Take() {
			continue
		}
		rnd := c.Rand()
		th := &starlark.Thread{Name: "hist"}
		var mu sync.Mutex
		var opsRec []porcupine.Operation
		t0 := time.Now()
		now := func() int64 { return int64(time.Since(t0)) }
		record := func(client int, in histIn, out string, call, ret int64) {
			mu.Lock()
			opsRec = append(opsRec, porcupine.Operation{ClientId: client, Input: in, Call: call, Output: out, Return: ret})
			mu.Unlock()
		}
		var wg sync.WaitGroup
		ncancel := 2 + rnd.Intn(2)
		seeds := make([]int64, 8)
		for i := range seeds {
			seeds[i] = rnd.Int63()
		}
		for g := 0; g < ncancel; g++ {
			wg.Add(1)
			go func(g int) {
				defer wg.Done()
				r := newRand(seeds[g])
				for i := 0; i < 4; i++ {
					spin(r.Intn(300))
					reason := fmt.Sprintf("r%d.%d", g, i)
					call := now()
					th.Cancel(reason)
					record(g, histIn{"cancel", reason}, "", call, now())
				}
			}(g)
		}
		wg.Add(1)
		go func() {
			defer wg.Done()
			r := newRand(seeds[6])
			for i := 0; i < 5; i++ {
				spin(r.Intn(400))
				call := now()
				th.Uncancel()
				record(5, histIn{"uncancel", ""}, "", call, now())
			}
		}()
		wg.Add(1)
		go func() {
			defer wg.Done()
			r := newRand(seeds[7])
			for i := 0; i < 8; i++ {
				spin(r.Intn(200))
				call := now()
				res := execute("def f():\n    return [i for i in range(4)]\nx = f()\n", runOpts{thread: th, maxSteps: math.MaxUint64})
				out := ""
				if res.err != nil {
					msg := res.err.Error()
					const pfx = "Starlark computation cancelled: "
					if i := strings.Index(msg, pfx); i >= 0 {
						out = msg[i+len(pfx):]
					} else {
						out = "?" + msg
					}
				}
				record(6, histIn{"exec", ""}, out, call, now())
			}
		}()
		wg.Wait()
		c.Eval(len(opsRec))
		resv, info := porcupine.CheckOperationsVerbose(cancelModel, opsRec, 20*time.Second)
		switch resv {
		case porcupine.Ok:
			c.Count("histories_linearizable", 1)
			execs, cancelled := 0, 0
			for _, o := range opsRec {
				if o.Input.(histIn).Kind == "exec" {
					execs++
					if o.Output.(string) != "" {
						cancelled++
					}
				}
			}
			if cancelled > 0 && cancelled < execs {
				c.Distinct(fmt.Sprintf("H/%d", c.Case()))
				c.Count("histories_with_mixed_exec_outcomes", 1)
			}
		case porcupine.Unknown:
			c.Count("histories_checker_timeout", 1)
			c.Inconclusive("porcupine timed out on history %d", c.Case())
		default:
			var lines []string
			for _, o := range opsRec {
				lines = append(lines, fmt.Sprintf("client %d [%d,%d] %s", o.ClientId, o.Call, o.Return, cancelModel.DescribeOperation(o.Input, o.Output)))
			}
			_ = info
			c.Violation("C07 history not-linearizable", "Cancel/Uncancel/exec history is not explained by a set-if-empty register (first reason wins, persists until Uncancel)", map[string]any{"history": lines})
		}
		if c.WantSample() {
			var lines []string
			for _, o := range opsRec[:min(len(opsRec), 12)] {
				lines = append(lines, fmt.Sprintf("client %d [%d,%d] %s", o.ClientId, o.Call, o.Return, cancelModel.DescribeOperation(o.Input, o.Output)))
			}
			c.Sample(map[string]any{"arm": "history", "verdict": fmt.Sprint(resv), "first_ops": lines})
		}
	}
}

func spin(n int) {
	x := 0
	for i := 0; i < n; i++ {
		x += i
	}
	_ = x
}
