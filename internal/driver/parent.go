package driver

import (
	"bufio"
	"encoding/json"
	"fmt"
	"os"
	"os/exec"
	"path/filepath"
	"regexp"
	"runtime"
	"sort"
	"strconv"
	"strings"
	"sync"
	"syscall"
	"time"
)

var raceBuild bool

// Main is the entry point of cmd/vcheck.
func Main() {
	if len(os.Args) < 2 {
		usage()
	}
	switch os.Args[1] {
	case "run":
		if len(os.Args) < 3 {
			usage()
		}
		os.Exit(parentMain(os.Args[2], os.Args[3:]))
	case "child":
		childMain(os.Args[2], splitKV(os.Args[3:]))
	case "needs-race":
		if e := engines[os.Args[2]]; e != nil && needsRace(e) {
			os.Exit(0)
		}
		os.Exit(1)
	case "helper":
		h := helpers[os.Args[2]]
		if h == nil {
			fmt.Fprintf(os.Stderr, "no helper %q\n", os.Args[2])
			os.Exit(3)
		}
		h(os.Args[3:])
	case "describe":
		ids := []string{}
		for id := range engines {
			ids = append(ids, id)
		}
		sort.Strings(ids)
		for _, id := range ids {
			e := engines[id]
			fmt.Printf("### %s (%s)\n\n%s\n\n", id, e.Level, e.Rule)
			for _, a := range e.Assumptions {
				fmt.Printf("* assumes: %s\n", a)
			}
			fmt.Println()
		}
	case "list":
		ids := []string{}
		for id := range engines {
			ids = append(ids, id)
		}
		sort.Strings(ids)
		fmt.Println(strings.Join(ids, " "))
	default:
		usage()
	}
}

func needsRace(e *Engine) bool {
	if e.Race {
		return true
	}
	if e.Variants != nil {
		for _, t := range []string{"quick", "thorough"} {
			for _, v := range e.Variants(t) {
				if v.Race {
					return true
				}
			}
		}
	}
	return false
}

func usage() {
	fmt.Fprintln(os.Stderr, "usage: vcheck run <Cxx> quick|thorough | vcheck run <Cxx> --replay <file> | vcheck list")
	os.Exit(3)
}

func childMain(id string, kv map[string]string) {
	e := engines[id]
	if e == nil {
		fmt.Fprintf(os.Stderr, "no engine %q\n", id)
		os.Exit(3)
	}
	atoi := func(s string, d int64) int64 {
		if s == "" {
			return d
		}
		n, err := strconv.ParseInt(s, 10, 64)
		if err != nil {
			return d
		}
		return n
	}
	c := &Ctx{
		ID: id, Tier: kv["tier"], Seed: atoi(kv["seed"], 1),
		Shard: int(atoi(kv["shard"], 0)), NShards: int(atoi(kv["nshards"], 1)),
		Variant: kv["variant"], resumeAfter: atoi(kv["resume-after"], 0), onlyCase: atoi(kv["only-case"], -1),
		dir:      kv["dir"],
		cover:    map[string]map[string]struct{}{},
		distinct: map[uint64]struct{}{},
		vioKeys:  map[string]int{},
		sampleCap: 6,
	}
	c.res.Counters = map[string]int64{}
	c.lastFlush = time.Now()
	if c.dir != "" {
		var err error
		c.wal, err = os.OpenFile(filepath.Join(c.dir, fmt.Sprintf("wal-%s-%d", c.Variant, c.Shard)), os.O_CREATE|os.O_RDWR|os.O_TRUNC, 0o644)
		if err != nil {
			fmt.Fprintln(os.Stderr, err)
			os.Exit(3)
		}
		c.vioFile, err = os.OpenFile(filepath.Join(c.dir, fmt.Sprintf("vio-%s-%d.jsonl", c.Variant, c.Shard)), os.O_CREATE|os.O_WRONLY|os.O_APPEND, 0o644)
		if err != nil {
			fmt.Fprintln(os.Stderr, err)
			os.Exit(3)
		}
	}
	e.Run(c)
	c.flush(true)
	if c.dir == "" && len(c.vioKeys) > 0 {
		os.Exit(1)
	}
	os.Exit(0)
}

// ---------------------------------------------------------------------------------------------

type finding struct{ prop, key, what string }

func loadFindings() []finding {
	var out []finding
	f, err := os.Open(filepath.Join(Root(), "known_findings.txt"))
	if err != nil {
		return nil
	}
	defer f.Close()
	re := regexp.MustCompile(`^finding:\s+property=(\S+)\s+key="([^"]*)"\s*::\s*(.*)$`)
	sc := bufio.NewScanner(f)
	sc.Buffer(make([]byte, 1<<20), 1<<20)
	for sc.Scan() {
		if m := re.FindStringSubmatch(strings.TrimSpace(sc.Text())); m != nil {
			out = append(out, finding{m[1], m[2], m[3]})
		}
	}
	return out
}

type crash struct {
	variant string
	shard   int
	caseIdx int64
	note    string
	class   string // "crash", "oom", "watchdog"
	summary string
	stderr  string
}

var reHex = regexp.MustCompile(`0x[0-9a-fA-F]+`)
var reNum = regexp.MustCompile(`\d+`)

func classifyStderr(s string) (class, summary, frame string) {
	lines := strings.Split(s, "\n")
	for i, l := range lines {
		if strings.HasPrefix(l, "panic: ") || strings.HasPrefix(l, "fatal error: ") || strings.HasPrefix(l, "runtime: ") && strings.Contains(l, "out of memory") {
			low := strings.ToLower(l)
			if strings.Contains(low, "out of memory") || strings.Contains(low, "cannot allocate memory") {
				// Memory ran out while a goroutine stack was being grown: that is a runaway
				// recursion (stack exhaustion), not a huge allocation.
				if strings.Contains(s, "runtime.stackalloc") || strings.Contains(s, "runtime.copystack") || strings.Contains(s, "runtime.newstack") {
					return "crash", "fatal error: stack overflow (out of memory while growing a goroutine stack)", ""
				}
				return "oom", l, ""
			}
			sum := reNum.ReplaceAllString(reHex.ReplaceAllString(l, "X"), "N")
			if len(sum) > 160 {
				sum = sum[:160]
			}
			// first frame inside go.starlark.net
			for _, fl := range lines[i+1:] {
				if strings.HasPrefix(fl, "go.starlark.net/") {
					fr := fl
					if k := strings.LastIndex(fr, "("); k > 0 {
						fr = fr[:k]
					}
					frame = strings.TrimPrefix(fr, "go.starlark.net/")
					break
				}
			}
			return "crash", sum, frame
		}
	}
	if strings.Contains(s, "out of memory") || strings.Contains(s, "cannot allocate memory") {
		return "oom", "out of memory", ""
	}
	return "crash", "child died without panic message", ""
}

func parentMain(id string, args []string) int {
	e := engines[id]
	if e == nil {
		fmt.Fprintf(os.Stderr, "no engine %q\n", id)
		return 3
	}
	t0 := time.Now()
	tier := os.Getenv("VERIF_TIER")
	replay := ""
	for i := 0; i < len(args); i++ {
		switch args[i] {
		case "quick", "thorough":
			tier = args[i]
		case "--replay":
			if i+1 < len(args) {
				replay = args[i+1]
				i++
			}
		}
	}
	if tier == "" {
		tier = "quick"
	}
	seed := int64(1)
	if s := os.Getenv("VERIF_SEED"); s != "" {
		if n, err := strconv.ParseInt(s, 10, 64); err == nil {
			seed = n
		}
	}
	root := Root()
	exe := SelfExe()
	raceExe := exe
	if !raceBuild {
		raceExe = filepath.Join(root, "bin", "vcheck-race")
		if _, err := os.Stat(raceExe); err != nil && needsRace(e) {
			fmt.Printf("INCONCLUSIVE property=%s reason=race build %s missing\n", id, raceExe)
			return 2
		}
	}
	if e.Race {
		exe = raceExe
	}

	if replay != "" {
		return replayMain(e, exe, raceExe, replay)
	}

	dir := filepath.Join(root, "work", fmt.Sprintf("%s-%d", id, os.Getpid()))
	os.RemoveAll(dir)
	os.MkdirAll(dir, 0o755)
	defer os.RemoveAll(dir)
	evPath := filepath.Join(root, "evidence", id+".json")
	os.MkdirAll(filepath.Join(root, "evidence"), 0o755)
	os.Remove(evPath)
	os.RemoveAll(filepath.Join(root, "replays", id))

	nshards := runtime.NumCPU()
	if e.Shards != nil {
		nshards = e.Shards(tier)
	}
	variants := []Variant{{Name: "default"}}
	if e.Variants != nil {
		variants = e.Variants(tier)
	}
	wdMin := 30
	if tier == "thorough" {
		wdMin = 120
	}
	if e.WatchdogMin != nil {
		wdMin = e.WatchdogMin(tier)
	}
	deadline := time.Now().Add(time.Duration(wdMin) * time.Minute)

	var mu sync.Mutex
	var crashes []crash
	var results []shardResult
	sem := make(chan struct{}, runtime.NumCPU())
	var wg sync.WaitGroup
	for _, v := range variants {
		for s := 0; s < nshards; s++ {
			wg.Add(1)
			go func(v Variant, s int) {
				defer wg.Done()
				sem <- struct{}{}
				defer func() { <-sem }()
				resume := int64(0)
				for attempt := 0; ; attempt++ {
					x := exe
					if v.Race {
						x = raceExe
					}
					cr, res, ok := runChild(x, e, v, tier, seed, s, nshards, resume, dir, attempt, deadline)
					mu.Lock()
					if res != nil {
						results = append(results, *res)
					}
					if cr != nil {
						crashes = append(crashes, *cr)
					}
					mu.Unlock()
					if ok || cr == nil {
						return
					}
					if cr.class == "watchdog" || attempt >= 400 || cr.caseIdx <= resume {
						return
					}
					resume = cr.caseIdx
				}
			}(v, s)
		}
	}
	wg.Wait()

	// ---- merge
	ev := map[string]any{}
	counters := map[string]int64{}
	cover := map[string]map[string]struct{}{}
	distinct := map[uint64]struct{}{}
	var evaluations int64
	var samples []any
	var inconcl []string
	over := false
	for round := 0; round < 6 && len(samples) < 8; round++ {
		for _, r := range results {
			if round < len(r.Samples) && len(samples) < 8 {
				samples = append(samples, r.Samples[round])
			}
		}
	}
	for _, r := range results {
		evaluations += r.Evaluations
		for k, n := range r.Counters {
			counters[k] += n
		}
		for g, l := range r.Cover {
			m := cover[g]
			if m == nil {
				m = map[string]struct{}{}
				cover[g] = m
			}
			for _, it := range l {
				m[it] = struct{}{}
			}
		}
		for _, h := range r.Distinct {
			distinct[h] = struct{}{}
		}
		over = over || r.DistinctOver
		inconcl = append(inconcl, r.Inconclusive...)
	}

	// ---- violations
	var vios []violation
	files, _ := filepath.Glob(filepath.Join(dir, "vio-*.jsonl"))
	sort.Strings(files)
	for _, f := range files {
		b, _ := os.ReadFile(f)
		for _, line := range strings.Split(string(b), "\n") {
			if strings.TrimSpace(line) == "" {
				continue
			}
			var v violation
			if json.Unmarshal([]byte(line), &v) == nil {
				vios = append(vios, v)
			}
		}
	}
	ooms, watchdogs, restarts := 0, 0, 0
	for _, cr := range crashes {
		switch cr.class {
		case "restart":
			restarts++
		case "oom":
			ooms++
		case "watchdog":
			watchdogs++
			inconcl = append(inconcl, fmt.Sprintf("watchdog fired in shard %s/%d at case %d", cr.variant, cr.shard, cr.caseIdx))
		default:
			key := "crash: " + cr.summary
			if k, rest, ok := strings.Cut(cr.note, "\n"); ok && strings.HasPrefix(k, "key=") {
				key = strings.TrimPrefix(k, "key=") + " :: " + cr.summary
				cr.note = rest
			}
			rdir := filepath.Join(root, "replays", id)
			os.MkdirAll(rdir, 0o755)
			path := filepath.Join(rdir, fmt.Sprintf("%016x-crash-%s-s%d-c%d.json", Hash64(key), cr.variant, cr.shard, cr.caseIdx))
			rep := map[string]any{"property": id, "key": key, "what": cr.summary, "tier": tier, "seed": seed,
				"variant": cr.variant, "case": cr.caseIdx, "nshards": nshards, "detail": map[string]any{"in_flight": cr.note, "stderr_head": Truncate(cr.stderr, 6000)}}
			b, _ := json.MarshalIndent(rep, "", " ")
			os.WriteFile(path, b, 0o644)
			vios = append(vios, violation{Key: key, What: "process crash while running case " + strconv.FormatInt(cr.caseIdx, 10) + ": " + cr.summary + " | in flight: " + Truncate(cr.note, 300), Replay: path})
		}
	}
	counters["child_oom_excluded"] += int64(ooms)
	counters["child_crashes"] += int64(len(crashes) - ooms - watchdogs - restarts)
	counters["child_restarts_requested"] += int64(restarts)

	known := loadFindings()
	knownSeen := map[string]bool{}
	unknown := map[string][]violation{}
	var unknownOrder []string
	for _, v := range vios {
		matched := false
		for _, f := range known {
			if f.prop == id && f.key == v.Key {
				matched = true
				if !knownSeen[f.key] {
					knownSeen[f.key] = true
					fmt.Printf("KNOWN-FINDING: property=%s %s (key=%q)\n", id, f.what, f.key)
				}
				break
			}
		}
		if !matched {
			if _, ok := unknown[v.Key]; !ok {
				unknownOrder = append(unknownOrder, v.Key)
			}
			unknown[v.Key] = append(unknown[v.Key], v)
		}
	}
	sort.Strings(unknownOrder)
	for _, k := range unknownOrder {
		v := unknown[k][0]
		fmt.Printf("VIOLATION property=%s replay=%s\n", id, v.Replay)
		fmt.Printf("  key=%q n=%d\n  %s\n", k, len(unknown[k]), Truncate(v.What, 1500))
	}

	// ---- verdict
	minDistinct := e.MinDistinct
	if minDistinct < 2 {
		minDistinct = 2
	}
	if len(distinct) < minDistinct {
		inconcl = append(inconcl, fmt.Sprintf("only %d distinct non-trivial cases observed (need %d)", len(distinct), minDistinct))
	}
	coverOut := map[string]any{}
	for g, m := range cover {
		l := make([]string, 0, len(m))
		for k := range m {
			l = append(l, k)
		}
		sort.Strings(l)
		if len(l) > 400 {
			coverOut[g] = map[string]any{"count": len(l), "first": l[:100]}
		} else {
			coverOut[g] = map[string]any{"count": len(l), "items": l}
		}
	}
	ev["counters"] = counters
	ev["cover"] = coverOut
	if e.Finish != nil {
		fin := map[string]any{"counters": counters, "cover": cover, "evaluations": evaluations, "distinct": len(distinct), "tier": tier}
		if reason, bad := e.Finish(fin); bad {
			inconcl = append(inconcl, reason)
		}
	}
	if len(samples) == 0 {
		samples = append(samples, "no sample recorded")
		inconcl = append(inconcl, "no sample recorded")
	}
	verdict := "held"
	exit := 0
	if len(unknownOrder) > 0 {
		verdict, exit = "violated", 1
	} else if len(inconcl) > 0 {
		verdict, exit = "inconclusive", 2
	}
	rule := e.Rule
	if over {
		rule += " (distinct set capped per shard: count is a lower bound)"
	}
	coverage := map[string]any{
		"evaluations":         evaluations,
		"distinct_nontrivial": len(distinct),
		"rule":                rule,
		"samples":             samples,
		"counters":            counters,
		"cover":               coverOut,
		"verdict":             verdict,
		"known_findings_seen": len(knownSeen),
		"shards":              nshards * len(variants),
		"exhaustive":          counters["exhaustive_subspace_completed"] > 0,
	}
	if len(inconcl) > 0 {
		coverage["inconclusive_reasons"] = inconcl
	}
	assumptions := e.Assumptions
	if assumptions == nil {
		assumptions = []string{}
	}
	out := map[string]any{
		"property_id": id, "tier": tier, "seed": seed, "level": e.Level,
		"coverage": coverage, "assumptions": assumptions,
		"wall_s": time.Since(t0).Seconds(), "violations": len(unknownOrder),
	}
	b, err := json.MarshalIndent(out, "", " ")
	if err != nil {
		fmt.Fprintf(os.Stderr, "cannot encode evidence: %v\n", err)
		return 3
	}
	if exit != 2 || evaluations > 0 {
		if evaluations < 1 {
			evaluations = 0
		}
		os.WriteFile(evPath, b, 0o644)
	}
	for _, r := range inconcl {
		fmt.Printf("INCONCLUSIVE property=%s reason=%s\n", id, r)
	}
	fmt.Printf("%s %s tier=%s seed=%d evaluations=%d distinct=%d known=%d violations=%d wall=%.1fs\n",
		id, verdict, tier, seed, evaluations, len(distinct), len(knownSeen), len(unknownOrder), time.Since(t0).Seconds())
	return exit
}

func runChild(exe string, e *Engine, v Variant, tier string, seed int64, shard, nshards int, resume int64, dir string, attempt int, deadline time.Time) (*crash, *shardResult, bool) {
	args := []string{"child", e.ID, "--tier=" + tier, fmt.Sprintf("--seed=%d", seed), fmt.Sprintf("--shard=%d", shard),
		fmt.Sprintf("--nshards=%d", nshards), "--variant=" + v.Name, fmt.Sprintf("--resume-after=%d", resume), "--dir=" + dir}
	var cmd *exec.Cmd
	if v.VLimitKB > 0 {
		sh := fmt.Sprintf("ulimit -v %d; exec \"$0\" \"$@\"", v.VLimitKB)
		cmd = exec.Command("/bin/sh", append([]string{"-c", sh, exe}, args...)...)
	} else {
		cmd = exec.Command(exe, args...)
	}
	cmd.Env = append(os.Environ(), "VERIF_ROOT="+Root())
	cmd.Env = append(cmd.Env, v.Env...)
	errPath := filepath.Join(dir, fmt.Sprintf("stderr-%s-%d-%d", v.Name, shard, attempt))
	ef, _ := os.Create(errPath)
	cmd.Stderr = ef
	cmd.Stdout = ef
	cmd.SysProcAttr = &syscall.SysProcAttr{Setpgid: true}
	resPath := filepath.Join(dir, fmt.Sprintf("res-%s-%d.json", v.Name, shard))
	os.Remove(resPath)
	if err := cmd.Start(); err != nil {
		ef.Close()
		return &crash{variant: v.Name, shard: shard, class: "watchdog", summary: "cannot start child: " + err.Error()}, nil, false
	}
	done := make(chan error, 1)
	go func() { done <- cmd.Wait() }()
	var werr error
	timedOut := false
	select {
	case werr = <-done:
	case <-time.After(time.Until(deadline)):
		timedOut = true
		syscall.Kill(-cmd.Process.Pid, syscall.SIGKILL)
		werr = <-done
	}
	ef.Close()
	var res *shardResult
	if b, err := os.ReadFile(resPath); err == nil {
		var r shardResult
		if json.Unmarshal(b, &r) == nil {
			res = &r
		}
	}
	if werr == nil && res != nil && res.Done {
		os.Remove(errPath)
		return nil, res, true
	}
	// crashed, killed, or exited without finishing
	cr := &crash{variant: v.Name, shard: shard}
	if b, err := os.ReadFile(filepath.Join(dir, fmt.Sprintf("wal-%s-%d", v.Name, shard))); err == nil && len(b) >= 28 {
		cr.caseIdx, _ = strconv.ParseInt(strings.TrimSpace(string(b[:20])), 10, 64)
		n, _ := strconv.Atoi(strings.TrimSpace(string(b[21:27])))
		if 28+n <= len(b) {
			cr.note = string(b[28 : 28+n])
		}
	}
	sb, _ := os.ReadFile(errPath)
	cr.stderr = string(sb)
	if timedOut {
		cr.class, cr.summary = "watchdog", "wall-clock watchdog"
		return cr, res, false
	}
	if ee, ok := werr.(*exec.ExitError); ok && ee.ExitCode() == 97 {
		cr.class, cr.summary = "restart", "child asked for a fresh process"
		return cr, res, false
	}
	var frame string
	cr.class, cr.summary, frame = classifyStderr(cr.stderr)
	if strings.Contains(cr.summary, "stack overflow") {
		frame = "" // the frame on top when the stack ran out is arbitrary: keep the key stable
	}
	if frame != "" {
		cr.summary += " @ " + frame
	}
	if werr != nil && cr.summary == "child died without panic message" {
		cr.summary += " (" + werr.Error() + ")"
	}
	return cr, res, false
}

func replayMain(e *Engine, exe, raceExe, path string) int {
	b, err := os.ReadFile(path)
	if err != nil {
		fmt.Fprintln(os.Stderr, err)
		return 3
	}
	var rep struct {
		Tier    string `json:"tier"`
		Seed    int64  `json:"seed"`
		Variant string `json:"variant"`
		Case    int64  `json:"case"`
		NShards int    `json:"nshards"`
	}
	if err := json.Unmarshal(b, &rep); err != nil {
		fmt.Fprintln(os.Stderr, err)
		return 3
	}
	variants := []Variant{{Name: "default"}}
	if e.Variants != nil {
		variants = e.Variants(rep.Tier)
	}
	var v Variant
	for _, x := range variants {
		if x.Name == rep.Variant {
			v = x
		}
	}
	if v.Race {
		exe = raceExe
	}
	args := []string{"child", e.ID, "--tier=" + rep.Tier, fmt.Sprintf("--seed=%d", rep.Seed), "--shard=0", "--nshards=1",
		"--variant=" + rep.Variant, fmt.Sprintf("--only-case=%d", rep.Case)}
	var cmd *exec.Cmd
	if v.VLimitKB > 0 {
		sh := fmt.Sprintf("ulimit -v %d; exec \"$0\" \"$@\"", v.VLimitKB)
		cmd = exec.Command("/bin/sh", append([]string{"-c", sh, exe}, args...)...)
	} else {
		cmd = exec.Command(exe, args...)
	}
	cmd.Env = append(os.Environ(), "VERIF_ROOT="+Root(), "VERIF_REPLAY=1")
	cmd.Env = append(cmd.Env, v.Env...)
	cmd.Stdout = os.Stdout
	cmd.Stderr = os.Stderr
	if err := cmd.Run(); err != nil {
		fmt.Printf("replay: child failed: %v\n", err)
		return 1
	}
	return 0
}
