// Package driver is the common harness of all property engines: case sharding over
// child processes with a write-ahead log (so a crash of the code under test is attributed
// to the case in flight), evidence accounting, known-finding filtering and verdict output.
package driver

import (
	"encoding/json"
	"fmt"
	"hash/fnv"
	"math/rand"
	"os"
	"path/filepath"
	"sort"
	"strings"
	"sync"
	"time"
)

// Variant is one process configuration in which an engine's shards are run.
type Variant struct {
	Name     string
	VLimitKB int64    // ulimit -v for the child (0 = none)
	Env      []string // extra environment
	Race     bool     // run this variant's children from the -race build
}

// Engine describes one property monitor.
type Engine struct {
	ID          string
	Level       string // "exploration" or "fault_enumeration"
	Race        bool   // children run from the -race build
	Rule        string // how cases are generated and what makes one distinct/non-trivial
	Assumptions []string
	Run         func(c *Ctx)                      // executed in every child (one shard of one variant)
	Shards      func(tier string) int             // default: number of CPUs
	Variants    func(tier string) []Variant       // default: one unnamed variant
	MinDistinct int                               // fewer distinct non-trivial cases than this => inconclusive (default 2)
	Finish      func(ev map[string]any) (string, bool) // optional parent-side gate over merged coverage: reason, inconclusive
	WatchdogMin func(tier string) int             // wall-clock watchdog in minutes (fires => inconclusive)
}

var engines = map[string]*Engine{}

func Register(e *Engine) {
	if _, dup := engines[e.ID]; dup {
		panic("duplicate engine " + e.ID)
	}
	engines[e.ID] = e
}

// Helper subcommands (fresh-process helpers used by engines, e.g. C03's record producer).
var helpers = map[string]func(args []string){}

func RegisterHelper(name string, f func(args []string)) { helpers[name] = f }

// ---------------------------------------------------------------------------------------------
// Child-side context

type violation struct {
	Key    string `json:"key"`
	What   string `json:"what"`
	Replay string `json:"replay"`
}

type shardResult struct {
	Evaluations  int64               `json:"evaluations"`
	Counters     map[string]int64    `json:"counters"`
	Cover        map[string][]string `json:"cover"`
	Distinct     []uint64            `json:"distinct"`
	DistinctOver bool                `json:"distinct_overflow"`
	Samples      []any               `json:"samples"`
	Inconclusive []string            `json:"inconclusive"`
	LastCase     int64               `json:"last_case"`
	Done         bool                `json:"done"`
}

// Ctx is handed to Engine.Run in a child process.
type Ctx struct {
	ID      string
	Tier    string
	Seed    int64
	Shard   int
	NShards int
	Variant string

	resumeAfter int64 // skip cases with index <= resumeAfter
	onlyCase    int64 // replay: take only this case (-1 = off)
	caseIdx     int64 // index of the current case (incremented by Take)
	dir         string
	wal         *os.File
	vioFile     *os.File

	mu        sync.Mutex
	res       shardResult
	cover     map[string]map[string]struct{}
	distinct  map[uint64]struct{}
	vioKeys   map[string]int
	lastFlush time.Time
	sampleCap int
	nsamples  int
}

const maxDistinctPerShard = 400000

func (c *Ctx) Thorough() bool { return c.Tier == "thorough" }

// Pick returns q in the quick tier and t in the thorough tier.
func (c *Ctx) Pick(q, t int) int {
	if c.Thorough() {
		return t
	}
	return q
}

// Take advances to the next case and reports whether this shard must run it.
// Every shard must call Take for the same deterministic sequence of cases.
func (c *Ctx) Take() bool {
	c.caseIdx++
	i := c.caseIdx
	if c.onlyCase >= 0 {
		return i == c.onlyCase
	}
	if int(i%int64(c.NShards)) != c.Shard || i <= c.resumeAfter {
		return false
	}
	c.writeWAL("")
	if time.Since(c.lastFlush) > 3*time.Second {
		c.flush(false)
	}
	return true
}

// Case returns the index of the current case.
func (c *Ctx) Case() int64 { return c.caseIdx }

// Rand returns a PRNG determined by (seed, engine, current case index, salt).
func (c *Ctx) Rand(salt ...int64) *rand.Rand {
	h := fnv.New64a()
	fmt.Fprintf(h, "%s/%d/%d/%v", c.ID, c.Seed, c.caseIdx, salt)
	return rand.New(rand.NewSource(int64(h.Sum64())))
}

// GlobalRand returns a PRNG determined by (seed, engine, name) only: identical in all shards.
func (c *Ctx) GlobalRand(name string) *rand.Rand {
	h := fnv.New64a()
	fmt.Fprintf(h, "%s/%d/global/%s", c.ID, c.Seed, name)
	return rand.New(rand.NewSource(int64(h.Sum64())))
}

func (c *Ctx) writeWAL(note string) {
	if c.wal == nil {
		return
	}
	if len(note) > 4000 {
		note = note[:4000]
	}
	b := fmt.Sprintf("%-20d\n%-6d\n%s", c.caseIdx, len(note), note)
	c.wal.WriteAt([]byte(b), 0)
}

// Note records a description of what is about to be executed, so that a crash of the
// process can be attributed to it.
func (c *Ctx) Note(format string, args ...any) {
	c.writeWAL(fmt.Sprintf(format, args...))
}

func (c *Ctx) Eval(n int) {
	c.mu.Lock()
	c.res.Evaluations += int64(n)
	c.mu.Unlock()
}

func (c *Ctx) Count(name string, n int) {
	c.mu.Lock()
	c.res.Counters[name] += int64(n)
	c.mu.Unlock()
}

// Cover records that item of the named coverage group was observed.
func (c *Ctx) Cover(group, item string) {
	c.mu.Lock()
	m := c.cover[group]
	if m == nil {
		m = map[string]struct{}{}
		c.cover[group] = m
	}
	m[item] = struct{}{}
	c.mu.Unlock()
}

func Hash64(s string) uint64 {
	h := fnv.New64a()
	h.Write([]byte(s))
	return h.Sum64()
}

// Distinct records the fingerprint of a non-trivial case.
func (c *Ctx) Distinct(fp string) { c.DistinctH(Hash64(fp)) }

func (c *Ctx) DistinctH(h uint64) {
	c.mu.Lock()
	if len(c.distinct) < maxDistinctPerShard {
		c.distinct[h] = struct{}{}
	} else if _, ok := c.distinct[h]; !ok {
		c.res.DistinctOver = true
	}
	c.mu.Unlock()
}

// Sample keeps a few literal cases for the evidence file.
func (c *Ctx) Sample(v any) {
	c.mu.Lock()
	c.nsamples++
	if len(c.res.Samples) < c.sampleCap {
		c.res.Samples = append(c.res.Samples, v)
	}
	c.mu.Unlock()
}

// WantSample reports whether another sample would be kept (to avoid building it otherwise).
func (c *Ctx) WantSample() bool {
	c.mu.Lock()
	defer c.mu.Unlock()
	return len(c.res.Samples) < c.sampleCap
}

func (c *Ctx) Inconclusive(format string, args ...any) {
	c.mu.Lock()
	if len(c.res.Inconclusive) < 20 {
		c.res.Inconclusive = append(c.res.Inconclusive, fmt.Sprintf(format, args...))
	}
	c.mu.Unlock()
}

// Violation records a refuting execution. key identifies the failing call site / input class
// (never a seed or address) and is what known_findings.txt matches on; what is a one-line
// description; detail is written to the replay file.
func (c *Ctx) Violation(key, what string, detail any) {
	c.mu.Lock()
	defer c.mu.Unlock()
	n := c.vioKeys[key]
	c.vioKeys[key] = n + 1
	if n >= 3 { // at most three witnesses per key and shard
		return
	}
	rdir := filepath.Join(Root(), "replays", c.ID)
	os.MkdirAll(rdir, 0o755)
	name := fmt.Sprintf("%016x-%s-s%d-%d.json", Hash64(key), c.Variant, c.Shard, n)
	path := filepath.Join(rdir, name)
	rep := map[string]any{
		"property": c.ID, "key": key, "what": what, "tier": c.Tier, "seed": c.Seed,
		"variant": c.Variant, "case": c.caseIdx, "nshards": c.NShards, "detail": detail,
	}
	b, _ := json.MarshalIndent(rep, "", " ")
	os.WriteFile(path, b, 0o644)
	v := violation{Key: key, What: what, Replay: path}
	if c.vioFile != nil {
		line, _ := json.Marshal(v)
		c.vioFile.Write(append(line, '\n'))
	} else {
		fmt.Printf("VIOLATION property=%s replay=%s\n  key=%s\n  %s\n", c.ID, path, key, what)
	}
}

// RestartProcess ends this child at a case boundary so that the parent starts a fresh process
// for the remaining cases (used when abandoned goroutines of timed-out calls pile up).
func (c *Ctx) RestartProcess() {
	c.flush(false)
	os.Exit(97)
}

func (c *Ctx) flush(done bool) {
	c.mu.Lock()
	defer c.mu.Unlock()
	c.lastFlush = time.Now()
	if c.dir == "" {
		return
	}
	c.res.Cover = map[string][]string{}
	for g, m := range c.cover {
		l := make([]string, 0, len(m))
		for k := range m {
			l = append(l, k)
		}
		sort.Strings(l)
		c.res.Cover[g] = l
	}
	c.res.Distinct = c.res.Distinct[:0]
	for h := range c.distinct {
		c.res.Distinct = append(c.res.Distinct, h)
	}
	c.res.LastCase = c.caseIdx
	c.res.Done = done
	b, err := json.Marshal(&c.res)
	if err != nil {
		fmt.Fprintf(os.Stderr, "driver: cannot marshal shard result: %v\n", err)
		// drop samples (the only free-form part) and retry
		c.res.Samples = nil
		b, _ = json.Marshal(&c.res)
	}
	tmp := filepath.Join(c.dir, fmt.Sprintf("res-%s-%d.tmp", c.Variant, c.Shard))
	os.WriteFile(tmp, b, 0o644)
	os.Rename(tmp, filepath.Join(c.dir, fmt.Sprintf("res-%s-%d.json", c.Variant, c.Shard)))
}

// Root is the /verif directory (the directory holding bin/).
func Root() string {
	if r := os.Getenv("VERIF_ROOT"); r != "" {
		return r
	}
	exe, err := os.Executable()
	if err == nil {
		d := filepath.Dir(filepath.Dir(exe))
		if _, err := os.Stat(filepath.Join(d, "properties.jsonl")); err == nil {
			return d
		}
	}
	return "/verif"
}

// SelfExe is the path of the running binary (for helpers).
func SelfExe() string {
	exe, err := os.Executable()
	if err != nil {
		return os.Args[0]
	}
	return exe
}

// Truncate shortens s for messages and samples.
func Truncate(s string, n int) string {
	if len(s) <= n {
		return s
	}
	return s[:n] + fmt.Sprintf("…(+%d bytes)", len(s)-n)
}

func splitKV(args []string) map[string]string {
	m := map[string]string{}
	for _, a := range args {
		if k, v, ok := strings.Cut(strings.TrimPrefix(a, "--"), "="); ok {
			m[k] = v
		}
	}
	return m
}
