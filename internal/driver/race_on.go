//go:build race

package driver

func init() { raceBuild = true }
