package driver

import (
	"bufio"
	"encoding/json"
	"fmt"
	"io"
	"os"
	"os/exec"
	"path/filepath"
)

// Py is a python3 reference server speaking JSON lines over a pipe: one request line in,
// one response line out. The script is supplied by the engine (usually via go:embed).
type Py struct {
	cmd  *exec.Cmd
	in   io.WriteCloser
	out  *bufio.Reader
	path string
}

// StartPy writes script to a scratch file under work/ and starts /usr/bin/python3 on it.
func StartPy(script string) (*Py, error) {
	dir := filepath.Join(Root(), "work", "py")
	os.MkdirAll(dir, 0o755)
	f, err := os.CreateTemp(dir, "ref-*.py")
	if err != nil {
		return nil, err
	}
	f.WriteString(script)
	f.Close()
	py := "/usr/bin/python3"
	cmd := exec.Command(py, "-u", "-S", f.Name())
	cmd.Env = append(os.Environ(), "PYTHONHASHSEED=0", "PYTHONDONTWRITEBYTECODE=1")
	cmd.Stderr = os.Stderr
	in, err := cmd.StdinPipe()
	if err != nil {
		return nil, err
	}
	out, err := cmd.StdoutPipe()
	if err != nil {
		return nil, err
	}
	if err := cmd.Start(); err != nil {
		return nil, err
	}
	return &Py{cmd: cmd, in: in, out: bufio.NewReaderSize(out, 1<<20), path: f.Name()}, nil
}

// Call sends one request and decodes one response.
func (p *Py) Call(req, resp any) error {
	b, err := json.Marshal(req)
	if err != nil {
		return err
	}
	if _, err := p.in.Write(append(b, '\n')); err != nil {
		return fmt.Errorf("python reference: write: %w", err)
	}
	line, err := p.out.ReadBytes('\n')
	if err != nil {
		return fmt.Errorf("python reference: read: %w", err)
	}
	return json.Unmarshal(line, resp)
}

func (p *Py) Close() {
	p.in.Close()
	p.cmd.Wait()
	os.Remove(p.path)
}
