package c14

// Near-miss arm. The engine owns the token list of a valid rendering (gen.Options.OnToken), deletes,
// duplicates or swaps one token inside one logical line and re-joins the tokens with single blanks.
// A rejected text is fine. An accepted text must be a text of the grammar with the same token
// sequence: the returned tree is rendered again (gen.FromParsed + gen.Render, which emits the
// parentheses that the spec's precedence table requires) and the two token sequences, extended with
// pseudo tokens for statement boundaries and block nesting, must agree up to the optional trailing
// commas, semicolons and the optional second colon of a slice.

import (
	"fmt"
	"math/rand"
	"os"
	"regexp"
	"strconv"
	"strings"
	"unicode"
	"unicode/utf8"

	"go.starlark.net/resolve"
	"go.starlark.net/syntax"

	"verif/internal/driver"
	"verif/internal/gen"
	"verif/internal/sl"
)

const (
	tSEP  = "<SEP>"
	tSEMI = "<;>" // a ';' that is followed by another statement on the same line (a trailing ';' is optional and dropped)
	tIN   = "<INDENT>"
	tOUT  = "<OUTDENT>"
)

var keywords = map[string]bool{"and": true, "break": true, "continue": true, "def": true, "elif": true, "else": true, "for": true, "if": true, "in": true,
	"lambda": true, "load": true, "not": true, "or": true, "pass": true, "return": true, "while": true}

func isOperandEnd(t string) bool {
	if t == ")" || t == "]" || t == "}" {
		return true
	}
	if keywords[t] || t == "" {
		return false
	}
	c, _ := utf8.DecodeRuneInString(t)
	if c == '_' || unicode.IsLetter(c) || c >= '0' && c <= '9' || c == '"' || c == '\'' {
		return true
	}
	return c == '.' && len(t) > 1 // .5
}

func tokClass(t string) string {
	if strings.HasPrefix(t, "<") && len(t) > 2 {
		return t
	}
	if keywords[t] {
		return t
	}
	c, _ := utf8.DecodeRuneInString(t)
	switch {
	case c == '_' || unicode.IsLetter(c):
		if strings.ContainsAny(t, `"'`) {
			return "STRING"
		}
		return "IDENT"
	case c >= '0' && c <= '9', c == '.' && len(t) > 1:
		return "NUMBER"
	case c == '"' || c == '\'':
		return "STRING"
	}
	return t
}

// structure turns positioned tokens (one logical line per physical line) into a flat sequence with
// statement separators and block markers, the way the lexical structure of the language defines
// them: deeper indentation opens a block, a return to an outer level closes blocks, a compound
// statement header may be followed by its simple statements on the same line.
func structure(toks []token) []string {
	var out []string
	stack := []int32{1}
	i := 0
	first := true
	for i < len(toks) {
		j := i
		for j < len(toks) && toks[j].line == toks[i].line {
			j++
		}
		line := toks[i:j]
		if !first {
			out = append(out, tSEP)
		}
		first = false
		col := line[0].col
		if col > stack[len(stack)-1] {
			stack = append(stack, col)
			out = append(out, tIN)
		}
		for col < stack[len(stack)-1] {
			stack = stack[:len(stack)-1]
			out = append(out, tOUT)
		}
		header := -1
		if compoundKw[line[0].text] {
			depth, lambdas := 0, 0
			for k, t := range line {
				switch t.text {
				case "(", "[", "{":
					depth++
				case ")", "]", "}":
					depth--
				case "lambda":
					if depth == 0 {
						lambdas++
					}
				case ":":
					if depth == 0 {
						if lambdas > 0 {
							lambdas--
						} else if header < 0 {
							header = k
						}
					}
				}
			}
		}
		oneLine := header >= 0 && header < len(line)-1
		for k, t := range line {
			if t.text == ";" {
				if k < len(line)-1 {
					out = append(out, tSEMI)
				}
			} else {
				out = append(out, t.text)
			}
			if oneLine && k == header {
				out = append(out, tSEP, tIN)
			}
		}
		if oneLine {
			out = append(out, tSEP, tOUT)
		}
		i = j
	}
	for len(stack) > 1 {
		stack = stack[:len(stack)-1]
		out = append(out, tOUT)
	}
	return out
}

type group struct {
	opener  string
	call    bool
	commas  []int
	colons  []int
	lambdas int
}

// normalise removes what the grammar declares optional: separators next to block markers and
// repeated separators, a trailing comma before a closing bracket (unless it is what makes a
// parenthesised expression a 1-tuple) or before the `in` of loop variables, and the second colon of
// a slice without a stride.
func normalise(seq []string) []string {
	drop := make([]bool, len(seq))
	var stack []*group
	prevTok := func(i int) string {
		for i--; i >= 0; i-- {
			if !drop[i] {
				return seq[i]
			}
		}
		return ""
	}
	for i, t := range seq {
		var top *group
		if len(stack) > 0 {
			top = stack[len(stack)-1]
		}
		switch t {
		case "(", "[", "{":
			p := prevTok(i)
			stack = append(stack, &group{opener: t, call: isOperandEnd(p) || p == "load"})
		case "for":
			stack = append(stack, &group{opener: "for"})
		case "in":
			if top != nil && top.opener == "for" {
				stack = stack[:len(stack)-1]
				if n := len(top.commas); n >= 2 && top.commas[n-1] == i-1 {
					drop[i-1] = true
				}
			}
		case ")", "]", "}":
			for top != nil && top.opener == "for" { // malformed; be conservative
				stack = stack[:len(stack)-1]
				top = nil
				if len(stack) > 0 {
					top = stack[len(stack)-1]
				}
			}
			if top == nil {
				continue
			}
			stack = stack[:len(stack)-1]
			if n := len(top.commas); n > 0 && top.commas[n-1] == i-1 {
				if top.opener != "(" || top.call || n >= 2 {
					drop[i-1] = true
				}
			}
			if n := len(top.colons); top.opener == "[" && n == 2 && top.colons[1] == i-1 {
				drop[i-1] = true
			}
		case ",":
			if top != nil {
				top.commas = append(top.commas, i)
			}
		case "lambda":
			if top != nil {
				top.lambdas++
			}
		case ":":
			if top != nil {
				if top.lambdas > 0 {
					top.lambdas--
				} else {
					top.colons = append(top.colons, i)
				}
			}
		}
	}
	var out []string
	for i, t := range seq {
		if drop[i] {
			continue
		}
		if t == tSEP {
			if n := len(out); n == 0 || out[n-1] == tSEP || out[n-1] == tIN || out[n-1] == tOUT {
				continue
			}
		}
		if t == tIN || t == tOUT {
			if n := len(out); n > 0 && out[n-1] == tSEP {
				out = out[:n-1]
			}
		}
		out = append(out, t)
	}
	for len(out) > 0 && out[len(out)-1] == tSEP {
		out = out[:len(out)-1]
	}
	for i, t := range out {
		if t == tSEMI { // 'a; b' and 'a NEWLINE b' are the same statement sequence
			out[i] = tSEP
		}
	}
	return out
}

var reNumber = regexp.MustCompile(`^([0-9]|\.[0-9])`)

// allowedExtraParen reports whether the parenthesis s[j], present in the re-rendered sequence only,
// is one the renderer adds although neither the grammar nor the parser needs it:
//   - around a number before '.' (the text has blanks there: `1 . f`);
//   - around a lambda that is the condition of a comprehension's if clause (errors.star: "Lambda is ok though");
//   - around a unary +, -, ~ expression that is a complete loop variable (Operand = ('-' | '+') PrimaryExpr is a
//     PrimaryExpr in the grammar; the resolver rejects it).
//
// k is the index of the matching ')'.
func allowedExtraParen(s []string, j int) (k int, ok bool) {
	depth := 0
	k = -1
	for x := j; x < len(s); x++ {
		switch s[x] {
		case "(":
			depth++
		case ")":
			depth--
		}
		if depth == 0 {
			k = x
			break
		}
	}
	if k < 0 || j+1 >= len(s) {
		return k, false
	}
	next := ""
	if k+1 < len(s) {
		next = s[k+1]
	}
	prev := ""
	if j > 0 {
		prev = s[j-1]
	}
	switch {
	case reNumber.MatchString(s[j+1]) && k == j+2 && next == ".":
		return k, true
	case prev == "if" && s[j+1] == "lambda" && (next == "for" || next == "if" || next == "]" || next == "}"):
		return k, true
	case (s[j+1] == "+" || s[j+1] == "-" || s[j+1] == "~") && (prev == "for" || prev == ",") && (next == "," || next == "in"):
		return k, true
	}
	return k, false
}

// dropSelfAliases removes `name =` from `name = "name"` inside load(...): the renderer spells a
// loaded name whose local name equals the original name without the alias (same LoadStmt).
func dropSelfAliases(seq []string, vals map[string]string) []string {
	var out []string
	for i := 0; i < len(seq); i++ {
		out = append(out, seq[i])
		if seq[i] != "load" || i+1 >= len(seq) || seq[i+1] != "(" {
			continue
		}
		depth := 0
		j := i + 1
		for ; j < len(seq); j++ {
			t := seq[j]
			if t == "(" || t == "[" || t == "{" {
				depth++
			} else if t == ")" || t == "]" || t == "}" {
				depth--
			}
			if depth == 1 && j+2 < len(seq) && seq[j+1] == "=" && tokClass(t) == "IDENT" && tokClass(seq[j+2]) == "STRING" {
				v, ok := vals[seq[j+2]]
				if !ok {
					if u, err := strconv.Unquote(seq[j+2]); err == nil {
						v, ok = u, true
					}
				}
				if ok && v == t {
					j++ // skip the name and '='
					continue
				}
			}
			out = append(out, t)
			if depth == 0 {
				break
			}
		}
		i = j
	}
	return out
}

// sameTokens compares the input sequence a with the re-rendered sequence s. String literals that the
// renderer spells anew (the names in a load statement) are compared by value: vals maps the literals
// of the input, all of which the engine generated, to the strings they denote.
func sameTokens(a, s []string, vals map[string]string) (bool, string) {
	i, j := 0, 0
	skip := map[int]bool{}
	for i < len(a) || j < len(s) {
		if skip[j] {
			j++
			continue
		}
		if i < len(a) && j < len(s) {
			if a[i] == s[j] {
				i++
				j++
				continue
			}
			if v, ok := vals[a[i]]; ok && tokClass(s[j]) == "STRING" {
				if u, err := strconv.Unquote(s[j]); err == nil && u == v {
					i++
					j++
					continue
				}
			}
		}
		if j < len(s) && s[j] == "(" {
			if k, ok := allowedExtraParen(s, j); ok {
				skip[k] = true
				j++
				continue
			}
		}
		ta, ts := "<end>", "<end>"
		if i < len(a) {
			ta = a[i]
		}
		if j < len(s) {
			ts = s[j]
		}
		switch {
		case ts == "(":
			return false, "re-associated (the tree needs parentheses that the text lacks)"
		case ta == "(" || ta == ")":
			return false, "parenthesis of the text not in the tree"
		}
		return false, "token of the text missing or changed in the tree"
	}
	return true, ""
}

// tokenRich is a layout in which every physical line is one logical line (no continuations, no line
// breaks inside brackets, no comments) but the optional tokens occur: semicolons, trailing commas,
// one-line suites, redundant parentheses, the second colon of a slice.
var tokenRich = gen.Layout{TrailingComma: 0.35, Semicolons: 0.4, OneLineSuites: 0.4, RedundantPar: 0.08}

func renderTokens(stmts []syntax.Stmt, r *rand.Rand, opt gen.Options, lay gen.Layout) (string, []token) {
	var toks []token
	opt.Layout = lay
	opt.Filename = "n.star"
	opt.OnToken = func(s string, p syntax.Position) { toks = append(toks, token{s, p.Line, p.Col}) }
	text := gen.Render(stmts, r, opt)
	return text, toks
}

// joinLines lays out token lines with the given indentation and single blanks, returning the
// positioned tokens as well.
func joinLines(lines [][]string, indent []int32) (string, []token) {
	var b strings.Builder
	var toks []token
	ln := int32(0)
	for li, line := range lines {
		if len(line) == 0 {
			continue
		}
		ln++
		b.WriteString(strings.Repeat(" ", int(indent[li])))
		col := indent[li] + 1
		for k, t := range line {
			if k > 0 {
				b.WriteByte(' ')
				col++
			}
			toks = append(toks, token{t, ln, col})
			b.WriteString(t)
			col += int32(utf8.RuneCountInString(t))
		}
		b.WriteByte('\n')
	}
	return b.String(), toks
}

func checkRejection(err error, nlines int) string {
	e, ok := err.(syntax.Error)
	if !ok {
		return fmt.Sprintf("error of type %T carries no position: %v", err, err)
	}
	if strings.Contains(e.Msg, "internal error") {
		return "the parser failed with an internal error: " + e.Msg
	}
	if !e.Pos.IsValid() || e.Pos.Line < 1 || int(e.Pos.Line) > nlines+1 || e.Pos.Col < 1 {
		return fmt.Sprintf("the error position %d:%d is outside the text (%d lines): %s", e.Pos.Line, e.Pos.Col, nlines, e.Msg)
	}
	return ""
}

func nearMissCase(c *driver.Ctx) {
	r := c.Rand()
	o := treeOpts{budget: 15 + r.Intn(50), exprDepth: 2 + r.Intn(3), stmtDepth: r.Intn(3), multiline: false, nonASCII: r.Intn(3) == 0}
	g := newTreeGen(r, o)
	stmts := g.program()
	baseText, baseToks := renderTokens(stmts, r, gen.Options{NoParen: copyNoParen(g.noParen), Elif: g.elif}, tokenRich)
	c.Note("near-miss base %q", driver.Truncate(baseText, 200))
	// lines of tokens
	var lines [][]string
	var indent []int32
	for i := 0; i < len(baseToks); {
		j := i
		var l []string
		for j < len(baseToks) && baseToks[j].line == baseToks[i].line {
			l = append(l, baseToks[j].text)
			j++
		}
		lines = append(lines, l)
		indent = append(indent, baseToks[i].col-1)
		i = j
	}
	if len(lines) == 0 {
		return
	}
	// the unmodified re-joined text must itself be accepted with the same tokens (harness check)
	baseJoined, _ := joinLines(lines, indent)
	vals := map[string]string{}
	for _, s := range stmts {
		syntax.Walk(s, func(n syntax.Node) bool {
			if l, ok := n.(*syntax.Literal); ok && (l.Token == syntax.STRING || l.Token == syntax.BYTES) {
				vals[l.Raw] = l.Value.(string)
			}
			return true
		})
	}
	if !judgeNearMiss(c, r, lines, indent, vals, "none", baseText, baseJoined, true) {
		return
	}
	const perBase = 20
	for m := 0; m < perBase; m++ {
		li := r.Intn(len(lines))
		for try := 0; try < 4 && len(lines[li]) < 2; try++ {
			li = r.Intn(len(lines))
		}
		line := lines[li]
		mut := append([]string(nil), line...)
		op := ""
		i := r.Intn(len(line))
		switch k := r.Intn(4); {
		case k == 0:
			op = "delete"
			mut = append(mut[:i:i], line[i+1:]...)
		case k == 1:
			op = "duplicate"
			mut = append(append(append([]string(nil), line[:i+1]...), line[i]), line[i+1:]...)
		case k == 2 && len(line) >= 2:
			op = "swap-adjacent"
			if i == len(line)-1 {
				i--
			}
			mut[i], mut[i+1] = mut[i+1], mut[i]
		default:
			op = "swap-any"
			if len(line) < 2 {
				op = "duplicate"
				mut = append(mut, line[i])
				break
			}
			j := r.Intn(len(line) - 1)
			if j >= i {
				j++
			}
			mut[i], mut[j] = mut[j], mut[i]
		}
		nl := make([][]string, len(lines))
		copy(nl, lines)
		nl[li] = mut
		judgeNearMiss(c, r, nl, indent, vals, op, baseText, baseJoined, false)
	}
}

// judgeNearMiss parses one re-joined text and applies the accepted/rejected oracle.
func judgeNearMiss(c *driver.Ctx, r *rand.Rand, lines [][]string, indent []int32, vals map[string]string, op, baseText, baseJoined string, base bool) bool {
	text, toks := joinLines(lines, indent)
	nlines := strings.Count(text, "\n")
	detail := func(extra map[string]any) map[string]any {
		extra["text"] = text
		extra["base_text"] = baseText
		extra["mutation"] = op
		return extra
	}
	var file *syntax.File
	var err error
	if p := sl.Safe(func() { file, err = parseOpts.Parse("n.star", text, 0) }); p != nil {
		c.Violation("C14 parser-panic", fmt.Sprintf("the parser panicked: %v", p), detail(map[string]any{"panic": p.String()}))
		return false
	}
	c.Eval(1)
	if base {
		if err != nil {
			c.Violation(rejectKey(err, toks), fmt.Sprintf("the tokens of a rendered tree, joined by single blanks, are rejected: %v", err), detail(map[string]any{"error": err.Error()}))
			return false
		}
	} else {
		c.Count("near_misses", 1)
		c.Cover("near_miss_mutations", op)
	}
	if err != nil {
		if bad := checkRejection(err, nlines); bad != "" {
			c.Violation("C14 near-miss rejection-without-position", bad, detail(map[string]any{"error": err.Error()}))
			return false
		}
		c.Count("near_misses_rejected_by_parser", 1)
		c.Cover("near_miss_rejections", normMsg(errMsg(err)))
		c.DistinctH(driver.Hash64("nm:" + text))
		return true
	}
	// The resolver runs first: rendering the tree again overwrites its position fields.
	var rerr error
	rpanic := sl.Safe(func() {
		rerr = resolve.File(file, func(string) bool { return true }, func(string) bool { return false })
	})
	// accepted: same token sequence?
	var rtoks []token
	var rtext string
	if p := sl.Safe(func() {
		opt := gen.FromParsed(file.Stmts)
		rtext, rtoks = renderTokens(file.Stmts, r, opt, gen.Plain)
	}); p != nil {
		c.Violation("C14 near-miss accepted-tree-not-renderable", fmt.Sprintf("the tree returned for an accepted near-miss cannot be rendered: %v", p), detail(map[string]any{"panic": p.String()}))
		return false
	}
	a := dropSelfAliases(normalise(structure(toks)), vals)
	s := dropSelfAliases(normalise(structure(rtoks)), vals)
	if same, diff := sameTokens(a, s, vals); !same {
		if base {
			c.Violation("C14 near-miss base-text-reparsed-with-other-tokens",
				fmt.Sprintf("a valid text is accepted, but the tree it is given spells a different token sequence (%s): input %q, tree re-rendered %q", diff, text, rtext),
				detail(map[string]any{"rerendered": rtext, "input_tokens": a, "tree_tokens": s}))
			return false
		}
		c.Violation("C14 near-miss accepted-with-other-tokens "+diff,
			fmt.Sprintf("near-miss (%s one token) is accepted, but the tree it is given spells a different token sequence (%s): input %q, tree re-rendered %q", op, diff, text, rtext),
			detail(map[string]any{"rerendered": rtext, "input_tokens": a, "tree_tokens": s}))
		return false
	}
	// accepted near-misses must pass the resolver or be rejected by it with a position inside the text
	if rpanic != nil {
		c.Violation("C14 near-miss resolver-panic", fmt.Sprintf("the resolver panicked on an accepted near-miss: %v", rpanic), detail(map[string]any{"panic": rpanic.String()}))
		return false
	}
	if rerr != nil {
		el, ok := rerr.(resolve.ErrorList)
		if !ok || len(el) == 0 {
			c.Violation("C14 near-miss resolver-error-without-position", fmt.Sprintf("resolver error of type %T: %v", rerr, rerr), detail(map[string]any{"error": rerr.Error()}))
			return false
		}
		for _, e := range el {
			if !e.Pos.IsValid() || e.Pos.Line < 1 || int(e.Pos.Line) > nlines || e.Pos.Col < 1 {
				c.Violation("C14 near-miss resolver-error-without-position", fmt.Sprintf("resolver error outside the text: %v", e), detail(map[string]any{"error": e.Error()}))
				return false
			}
		}
		if !base {
			c.Count("near_misses_accepted_then_rejected_by_resolver", 1)
			c.Cover("near_miss_resolver_rejections", normMsg(el[0].Msg))
		}
	} else if !base {
		c.Count("near_misses_accepted_and_resolved", 1)
	}
	if !base {
		c.Count("near_misses_accepted_same_tokens", 1)
		if text == baseJoined {
			c.Count("near_misses_identical_to_base", 1)
		}
		c.DistinctH(driver.Hash64("nm:" + text))
		if c.WantSample() && len(text) < 200 && r.Intn(50) == 0 {
			c.Sample(map[string]any{"arm": "near-miss", "mutation": op, "text": text, "outcome": "accepted; re-rendered tree spells the same tokens", "resolver": fmt.Sprint(rerr)})
		}
	}
	return true
}

// ---------------------------------------------------------------------------------------------
// The repository's annotated corpora as a self-validation of the rejected/accepted classification.

func corpusCase(c *driver.Ctx) {
	for _, name := range []string{"errors.star", "scan.star"} {
		path := "/repo/syntax/testdata/" + name
		data, err := os.ReadFile(path)
		if err != nil {
			c.Inconclusive("corpus %s unreadable: %v", path, err)
			continue
		}
		linenum := 1
		for ci, chunk := range strings.Split(string(data), "\n---\n") {
			want := map[int]*regexp.Regexp{}
			lines := strings.Split(chunk, "\n")
			for j, line := range lines {
				_, after, ok := strings.Cut(line, "###")
				if !ok {
					continue
				}
				pat, err := strconv.Unquote(strings.TrimSpace(after))
				if err != nil {
					continue // e.g. the row of # signs in scan.star
				}
				rx, err := regexp.Compile(pat)
				if err != nil {
					continue
				}
				want[linenum+j] = rx
			}
			src := strings.Repeat("\n", linenum-1) + chunk
			linenum += len(lines) + 1
			var perr error
			if p := sl.Safe(func() { _, perr = parseOpts.Parse(name, src, 0) }); p != nil {
				c.Violation("C14 parser-panic", fmt.Sprintf("the parser panicked on %s chunk %d: %v", name, ci, p), map[string]any{"text": chunk})
				continue
			}
			c.Eval(1)
			c.Count("corpus_chunks", 1)
			if len(want) == 0 {
				if perr != nil {
					c.Violation("C14 corpus unannotated-chunk-rejected", fmt.Sprintf("%s chunk %d carries no expected error but is rejected: %v", name, ci, perr), map[string]any{"text": chunk, "error": perr.Error()})
				} else {
					c.Count("corpus_chunks_accepted_as_annotated", 1)
				}
				continue
			}
			se, ok := perr.(syntax.Error)
			if perr == nil || !ok {
				c.Violation("C14 corpus annotated-chunk-accepted", fmt.Sprintf("%s chunk %d is annotated with an expected error but is accepted (%v)", name, ci, perr), map[string]any{"text": chunk})
				continue
			}
			rx, ok := want[int(se.Pos.Line)]
			if !ok {
				c.Violation("C14 corpus error-at-other-line", fmt.Sprintf("%s chunk %d: error reported at line %d, annotated elsewhere: %v", name, ci, se.Pos.Line, perr), map[string]any{"text": chunk, "error": perr.Error()})
				continue
			}
			c.Count("corpus_chunks_rejected_at_annotated_line", 1)
			if rx.MatchString(se.Msg) {
				c.Count("corpus_messages_matching_annotation", 1)
			}
		}
	}
	specRejections(c)
	c.Cover("corpora", "errors.star")
	c.Cover("corpora", "scan.star")
}

// specRejections: texts that doc/spec.md itself declares unacceptable and that no single-token
// mutation of a valid text is likely to produce.
//   - "Comparison operators, `in`, and `not in` are non-associative, so the parser will not accept `0 <= i < n`."
//   - "Starlark (like Python 3) does not accept an unparenthesized tuple expression as the operand of a list comprehension"
//   - grammar.txt: "trailing comma permitted only when within [...] or (...)"
func specRejections(c *driver.Ctx) {
	cmps := []string{"==", "!=", "<", ">", "<=", ">=", "in", "not in"}
	type st struct{ family, text string }
	var texts []st
	for _, a := range cmps {
		for _, b := range cmps {
			texts = append(texts, st{"comparison-chain", fmt.Sprintf("x = i %s j %s k\n", a, b)},
				st{"comparison-chain", fmt.Sprintf("f(0 %s i %s n + 1, [a %s b %s c])\n", a, b, b, a)})
		}
	}
	for _, t := range []string{"[2*x for x in 1, 2, 3]\n", "{x: 1 for x in 1, 2}\n", "[a for b in c if 1, 2]\n"} {
		texts = append(texts, st{"bare-tuple-in-comprehension", t})
	}
	for _, t := range []string{"a, b, = 1, 2\n", "a, b = 1, 2,\n", "x = 1,\n", "return 1,\n", "for x in 1, 2,: pass\n"} {
		texts = append(texts, st{"trailing-comma-outside-brackets", t})
	}
	// "The following tokens are keywords and may not be used as identifiers" / "The tokens below also may not be used
	// as identifiers" (assert is excepted by the implementation note that follows the list).
	for _, w := range []string{"and", "elif", "in", "or", "break", "else", "lambda", "pass", "continue", "for", "load", "return", "def", "if", "not", "while",
		"as", "except", "nonlocal", "finally", "raise", "async", "from", "try", "await", "global", "with", "class", "import", "yield", "del", "is"} {
		texts = append(texts, st{"reserved-word-as-identifier", w + " = 1\n"}, st{"reserved-word-as-identifier", "x = f(" + w + ")\n"}, st{"reserved-word-as-identifier", "def f(" + w + "): pass\n"})
	}
	for _, x := range texts {
		t := x.text
		var err error
		if p := sl.Safe(func() { _, err = parseOpts.Parse("s.star", t, 0) }); p != nil {
			c.Violation("C14 parser-panic", fmt.Sprintf("the parser panicked: %v", p), map[string]any{"text": t})
			continue
		}
		c.Eval(1)
		if err == nil {
			c.Violation("C14 accept spec-rejected-text "+x.family, fmt.Sprintf("doc/spec.md says the parser does not accept %q, but it is accepted", t), map[string]any{"text": t})
			continue
		}
		if bad := checkRejection(err, strings.Count(t, "\n")); bad != "" {
			c.Violation("C14 near-miss rejection-without-position", bad, map[string]any{"text": t, "error": err.Error()})
			continue
		}
		c.Count("spec_stated_rejections_confirmed", 1)
	}
}
