package c14

// Expression-entry arm: FileOptions.ParseExpr (also reached through the deprecated syntax.ParseExpr and
// through starlark.Eval / ExprFunc) parses the start symbol Expression = Test {',' Test} instead of File.
//
// Valid texts: a random Expression rendered in every layout, followed by nothing, a newline, or any number
// of blank and comment-only lines (white space and comments are not tokens); the returned tree must be the
// rendered one, with every position.
//
// Near-miss texts. The grammar's Expression contains no NEWLINE token, and a line break outside brackets
// that is not escaped by a backslash is a NEWLINE token (doc/spec.md, "Lexical elements"). Hence
//   - a complete expression followed by a line break and any further token (another expression, a
//     statement, an operator with its operand, a stray bracket, an indented line, a malformed literal),
//   - a complete expression followed on the same line by a token that cannot continue it,
//   - an expression whose plain rendering is broken by a line break between two tokens outside brackets
//
// are not Expressions: each must be rejected with a positioned error, never truncated to its first line.
// The same line break between two tokens inside brackets is not a token at all: the text must be
// accepted with the unchanged tree.

import (
	"fmt"
	"strings"

	"go.starlark.net/resolve"
	"go.starlark.net/starlark"
	"go.starlark.net/syntax"

	"verif/internal/driver"
	"verif/internal/gen"
	"verif/internal/sl"
)

const (
	keyAfterNewline = "C14 accept non-expression ParseExpr content-after-newline"
	keySameLine     = "C14 accept non-expression ParseExpr content-on-same-line"
	keyExprNoPos    = "C14 ParseExpr rejection-without-position"
)

// exprTrailers may follow an expression: only white space, line breaks and comments.
var exprTrailers = []struct{ name, text string }{
	{"nothing", ""},
	{"newline", "\n"},
	{"blank-lines", "\n\n\n"},
	{"blanks", "  \t"},
	{"comment-no-newline", " # c"},
	{"comment", "# c\n"},
	{"comment-lines", "\n# c\n#\n"},
	{"white-space-lines", "\n   \n\t\n"},
	{"indented-comment-lines", " # é\n    # )]}\n\t# x = 1\n\n"},
	{"blank-then-comment-no-newline", "\n\n# last"},
}

type exprRoute struct {
	name  string
	parse func(text string) (syntax.Expr, error)
}

var exprRoutes = []exprRoute{
	{"FileOptions.ParseExpr", func(t string) (syntax.Expr, error) { return parseOpts.ParseExpr("e.star", t, 0) }},
	{"syntax.ParseExpr (deprecated)", func(t string) (syntax.Expr, error) { return syntax.ParseExpr("e.star", t, 0) }},
	{"FileOptions.ParseExpr RetainComments", func(t string) (syntax.Expr, error) {
		return parseOpts.ParseExpr("e.star", t, syntax.RetainComments)
	}},
	{"FileOptions.ParseExpr zero-options", func(t string) (syntax.Expr, error) { return (&syntax.FileOptions{}).ParseExpr("e.star", t, 0) }},
}

// exprExtra is text that, placed after a complete expression, makes the whole a non-Expression.
type exprExtra struct {
	name, text string
	sameLine   bool // also not an Expression when separated from the expression by a blank only
}

var exprExtras = []exprExtra{
	{"identifier", "y", true},
	{"int-literal", "2", true},
	{"string-literal", `"s"`, true},
	{"call-expression", "g(2)", true},
	{"stray )", ")", true},
	{"stray ]", "]", true},
	{"stray }", "}", true},
	{"= operand", "= 1", true},
	{"colon", ": 1", true},
	{"semicolon statement", "; y", true},
	{"else operand", "else d", true},
	{"pass", "pass", true},
	{"return", "return", true},
	{"def statement", "def f(): pass", true},
	{"lambda", "lambda: 0", true},
	{"not operand", "not y", true},
	{"illegal character", "! y", true},
	{"assignment", "x = 1", true},
	{"load statement", `load("m.star", "a")`, true},
	// the following continue the expression on the same line, but not after a NEWLINE token
	{"* operand", "* 100", false},
	{"+ operand", "+ y", false},
	{"- operand -", "- c -", false},
	{"comma operand", ", z", false},
	{"dot name", ".f", false},
	{"call suffix", "(1)", false},
	{"index suffix", "[0]", false},
	{"if-else", "if c else d", false},
	{"for clause", "for x in y", false},
	{"and operand", "and y", false},
	{"or operand", "or z", false},
	{"in operand", "in z", false},
	{"not in operand", "not in z", false},
	{"== operand", "== 1", false},
	{"lone operator", "-", false},
	{"lone comma", ",", false},
	{"lone semicolon", ";", false},
	{"indented identifier", "  y", false},
	{"tab-indented identifier", "\ty", false},
	{"comment line then indented identifier", "  # c\n  y", false},
	{"blank lines then identifier", "\n\n# c\ny", false},
	{"malformed int literal", "0x", false},
	{"unterminated string", "'abc", false},
	{"if statement", "if x:\n  pass", false},
	{"two more lines", "y\nz", false},
}

// closedExprs have no free names: the resolver cannot be what rejects a text that starts with one.
var closedExprs = []string{"1 + 1", "[1, 2]", "(3)", `"a" + "b"`, "1, 2", "{1: 2}[1]", "[i for i in (1, 2)]", "(lambda: 0)()", "1 if 2 else 3", "-\\\n 1"}

func exprArm(c *driver.Ctx) {
	if c.Take() {
		c.Note("ParseExpr closed expressions through starlark.ExprFuncOptions")
		exprFuncCase(c)
	}
	n := c.Pick(600, 40000)
	for i := 0; i < n; i++ {
		if !c.Take() {
			continue
		}
		exprCase(c, i)
	}
}

// judgeNonExpr feeds a text that is not an Expression to every route.
func judgeNonExpr(c *driver.Ctx, text, key, family, what string, detail map[string]any) bool {
	nlines := strings.Count(text, "\n")
	detail["text"] = text
	detail["family"] = family
	for _, rt := range exprRoutes {
		var e syntax.Expr
		var err error
		if p := sl.Safe(func() { e, err = rt.parse(text) }); p != nil {
			detail["route"] = rt.name
			c.Violation("C14 parser-panic", fmt.Sprintf("%s panicked on %q: %v", rt.name, text, p), detail)
			return false
		}
		c.Eval(1)
		if err == nil {
			detail["route"] = rt.name
			got := ""
			if e != nil {
				s, end := e.Span()
				got = fmt.Sprintf(": a %T spanning %d:%d-%d:%d is returned", e, s.Line, s.Col, end.Line, end.Col)
			}
			c.Violation(key, fmt.Sprintf("%q (%s) is not an Expression, but %s accepts it%s", text, what, rt.name, got), detail)
			return false
		}
		if bad := checkRejection(err, nlines); bad != "" {
			detail["route"] = rt.name
			detail["error"] = err.Error()
			c.Violation(keyExprNoPos, fmt.Sprintf("%s on %q: %s", rt.name, text, bad), detail)
			return false
		}
		c.Cover("parseexpr_routes", rt.name)
	}
	c.Count("parseexpr_non_expressions_rejected", 1)
	c.Cover("parseexpr_near_miss_families", family)
	return true
}

func exprCase(c *driver.Ctx, idx int) {
	r := c.Rand()
	o := treeOpts{budget: 20 + r.Intn(100), exprDepth: 1 + r.Intn(6), stmtDepth: 1, multiline: r.Intn(2) == 0, nonASCII: r.Intn(2) == 0}
	g := newTreeGen(r, o)
	var e syntax.Expr
	what := "expression"
	switch idx % 3 {
	case 0:
		k := idx / 3
		p := nestPositions[k%len(nestPositions)]
		child := nestChildren[(k/len(nestPositions))%len(nestChildren)]
		e = g.nest(p, child, 3+r.Intn(3))
		what = "nest " + pairName(p, child)
	case 1:
		e = g.expr(o.exprDepth)
	default:
		if r.Intn(2) == 0 {
			e = g.bareTuple(o.exprDepth - 1)
			what = "bare tuple"
		} else {
			e = g.primary(o.exprDepth)
			what = "primary expression"
		}
	}
	// a second expression and a small program, as further lines
	g2 := newTreeGen(r, treeOpts{budget: 12, exprDepth: 2, stmtDepth: 1, nonASCII: o.nonASCII})
	secondExpr := gen.RenderExpr(g2.expression(2), r, gen.Options{Layout: gen.Plain, NoParen: copyNoParen(g2.noParen)})
	secondProg := strings.TrimRight(gen.Render(g2.program(), r, gen.Options{Layout: gen.Plain, NoParen: copyNoParen(g2.noParen), Elif: g2.elif}), "\n")
	c.Note("ParseExpr %s", what)

	specs := []layoutSpec{{"plain", gen.Plain}, {"minimal-parens", myLayout(r, false)}, {"redundant-parens", myLayout(r, true)}}
	if c.Thorough() {
		specs = append(specs, layoutSpec{"profile", gen.RandomLayout(r)})
	}
	var plainText string
	var plainToks []token
	var plainOffs []int
	allOK := true
	for li, sp := range specs {
		var toks []token
		opt := gen.Options{Layout: sp.lay, Filename: "e.star", NoParen: copyNoParen(g.noParen),
			OnToken: func(s string, p syntax.Position) { toks = append(toks, token{s, p.Line, p.Col}) }}
		var text string
		if p := sl.Safe(func() { text = gen.RenderExpr(e, r, opt) }); p != nil {
			c.Inconclusive("renderer panicked on a generated expression (%s): %v", what, p)
			return
		}
		offs, err := offsets(text, toks)
		if err != nil {
			c.Inconclusive("renderer bookkeeping is inconsistent (%s): %v", what, err)
			return
		}
		if li == 0 {
			plainText, plainToks, plainOffs = text, toks, offs
		}
		tokAt := make(map[[2]int32]string, len(toks))
		for _, t := range toks {
			tokAt[[2]int32{t.line, t.col}] = t.text
		}
		feats := map[string]int{}
		layoutFeatures(text, toks, offs, feats)

		// ---- valid: expression + trailer, by every route in turn
		tr := exprTrailers[(idx+li*3)%len(exprTrailers)]
		trailer := tr.text
		if strings.HasPrefix(trailer, "#") {
			trailer = " " + trailer
		}
		rt := exprRoutes[(idx/len(exprTrailers)+li)%len(exprRoutes)]
		full := text + trailer
		detail := func(extra map[string]any) map[string]any {
			extra["text"] = full
			extra["layout"] = fmt.Sprintf("%s %+v", sp.name, sp.lay)
			extra["tree"] = what
			extra["trailer"] = tr.name
			extra["route"] = rt.name
			extra["plain_rendering"] = plainText
			return extra
		}
		var got syntax.Expr
		var perr error
		if p := sl.Safe(func() { got, perr = rt.parse(full) }); p != nil {
			c.Violation("C14 parser-panic", fmt.Sprintf("%s panicked on a grammatical expression: %v", rt.name, p), detail(map[string]any{"panic": p.String()}))
			allOK = false
			continue
		}
		c.Eval(1)
		c.Count("parseexpr_valid_texts", 1)
		switch {
		case perr != nil:
			key := rejectKey(perr, toks)
			if trailer != "" {
				var err0 error
				sl.Safe(func() { _, err0 = rt.parse(text) })
				if err0 == nil {
					key = "C14 reject ParseExpr expression-followed-by " + tr.name
				}
			}
			c.Violation(key, fmt.Sprintf("an expression rendered from a syntax tree (%s, layout %s) followed by %s is rejected by %s: %v", what, sp.name, tr.name, rt.name, perr),
				detail(map[string]any{"error": perr.Error()}))
			allOK = false
			continue
		case got == nil:
			c.Violation("C14 ParseExpr nil-tree-without-error", fmt.Sprintf("%s returns neither a tree nor an error", rt.name), detail(map[string]any{}))
			allOK = false
			continue
		}
		if cerr := gen.CompareExpr(e, got, gen.CompareOpts{Positions: true, Raw: true}); cerr != nil {
			c.Violation(mismatchKey(cerr, text, toks), fmt.Sprintf("the tree returned by %s differs from the generated one (%s, layout %s, trailer %s): %v", rt.name, what, sp.name, tr.name, cerr),
				detail(map[string]any{"difference": cerr.Error()}))
			allOK = false
			continue
		}
		nspan, bad := spanCheck(got, tokAt)
		if bad != "" {
			c.Violation("C14 span-start "+normMsg(strings.SplitN(bad, ":", 2)[0]), fmt.Sprintf("%s (%s, layout %s, %s)", bad, what, sp.name, rt.name), detail(map[string]any{"span": bad}))
			allOK = false
			continue
		}
		c.Count("parseexpr_valid_agreed", 1)
		c.Count("token_positions_checked", len(toks))
		c.Count("node_span_starts_checked", nspan)
		c.Cover("parseexpr_routes", rt.name)
		c.Cover("parseexpr_trailers", tr.name)
		c.Cover("parseexpr_layouts", sp.name)
		for f := range feats {
			c.Cover("parseexpr_layout_features", f)
		}
		if c.WantSample() && li == 1 && len(full) < 200 {
			c.Sample(map[string]any{"arm": "ParseExpr", "tree": what, "layout": sp.name, "trailer": tr.name, "route": rt.name, "text": full, "outcome": "parsed tree and all positions equal"})
		}

		// ---- near-miss: the same rendering followed by more text
		nd := func(x exprExtra, sep string) map[string]any {
			return map[string]any{"layout": sp.name, "tree": what, "appended": x.text, "separator": sep, "expression_text": text}
		}
		extras := append([]exprExtra{{"rendered expression", secondExpr, false}, {"rendered program", secondProg, false}}, exprExtras...)
		for xi, x := range extras {
			if li > 0 && (xi+idx+li)%3 != 0 {
				continue // every extra after the plain rendering, a rotating third after the others
			}
			tail := []string{"", "\n", "\n\n# c\n"}[(xi+idx)%3]
			if !judgeNonExpr(c, text+"\n"+x.text+tail, keyAfterNewline, "line break then "+x.name,
				"a complete expression, a line break outside brackets, then "+x.name, nd(x, "\\n")) {
				allOK = false
				break
			}
			if !judgeNonExpr(c, text+" # c\n"+x.text+tail, keyAfterNewline, "comment, line break then "+x.name,
				"a complete expression, a comment to the end of the line, then "+x.name, nd(x, " # c\\n")) {
				allOK = false
				break
			}
			if x.sameLine {
				if !judgeNonExpr(c, text+" "+x.text+tail, keySameLine, "blank then "+x.name,
					"a complete expression followed on the same line by "+x.name, nd(x, " ")) {
					allOK = false
					break
				}
			}
		}
	}

	// ---- a line break between two tokens of the plain rendering
	if allOK && len(plainToks) > 1 {
		depth := 0
		limit := 48
		step := 1
		if len(plainToks) > limit {
			step = (len(plainToks) + limit - 1) / limit
		}
		for i := 1; i < len(plainToks); i++ {
			switch plainToks[i-1].text {
			case "(", "[", "{":
				depth++
			case ")", "]", "}":
				depth--
			}
			if (i+idx)%step != 0 {
				continue
			}
			brk := []string{"\n", "\n   ", " # c\n", "\n\n"}[(i+idx)%4]
			text := plainText[:plainOffs[i]] + brk + plainText[plainOffs[i]:]
			if i%2 == 0 {
				text += "\n"
			}
			if depth == 0 {
				if !judgeNonExpr(c, text, keyAfterNewline, "line break between tokens outside brackets",
					fmt.Sprintf("a line break outside brackets before the token %q", plainToks[i].text),
					map[string]any{"tree": what, "plain_rendering": plainText, "break_before_token": i}) {
					allOK = false
					break
				}
				c.Count("parseexpr_breaks_outside_brackets_rejected", 1)
				continue
			}
			rt := exprRoutes[(i+idx)%len(exprRoutes)]
			detail := map[string]any{"text": text, "tree": what, "plain_rendering": plainText, "break_before_token": i, "route": rt.name}
			var got syntax.Expr
			var perr error
			if p := sl.Safe(func() { got, perr = rt.parse(text) }); p != nil {
				c.Violation("C14 parser-panic", fmt.Sprintf("%s panicked on a grammatical expression: %v", rt.name, p), detail)
				allOK = false
				break
			}
			c.Eval(1)
			if perr != nil {
				detail["error"] = perr.Error()
				c.Violation("C14 reject ParseExpr line-break-inside-brackets", fmt.Sprintf("a line break inside brackets before the token %q makes %s reject the expression: %v", plainToks[i].text, rt.name, perr), detail)
				allOK = false
				break
			}
			if cerr := gen.CompareExpr(e, got, gen.CompareOpts{Positions: false, Raw: true}); cerr != nil {
				detail["difference"] = cerr.Error()
				c.Violation(mismatchKey(cerr, text, nil), fmt.Sprintf("a line break inside brackets before the token %q changes the tree returned by %s: %v", plainToks[i].text, rt.name, cerr), detail)
				allOK = false
				break
			}
			c.Count("parseexpr_breaks_inside_brackets_agreed", 1)
		}
	}
	if allOK {
		c.Count("parseexpr_expressions_agreed_everywhere", 1)
		c.Distinct("pexpr:" + plainText)
	}
}

// exprFuncCase: the expression entry point as reached through the evaluator's API. The expressions have no
// free names, so a text starting with one of them can only be refused for its syntax.
func exprFuncCase(c *driver.Ctx) {
	thread := &starlark.Thread{Name: "c14"}
	for _, src := range closedExprs {
		for _, tr := range exprTrailers {
			text := src + tr.text
			if strings.HasPrefix(tr.text, "#") {
				text = src + " " + tr.text
			}
			var err error
			if p := sl.Safe(func() { _, err = starlark.ExprFuncOptions(parseOpts, "e.star", text, nil) }); p != nil {
				c.Violation("C14 parser-panic", fmt.Sprintf("starlark.ExprFuncOptions panicked on %q: %v", text, p), map[string]any{"text": text})
				continue
			}
			c.Eval(1)
			if err != nil {
				c.Violation("C14 reject ParseExpr expression-followed-by "+tr.name, fmt.Sprintf("starlark.ExprFuncOptions rejects the closed expression %q followed by %s: %v", src, tr.name, err),
					map[string]any{"text": text, "error": err.Error(), "route": "starlark.ExprFuncOptions"})
				continue
			}
			c.Count("parseexpr_valid_through_evaluator_api", 1)
		}
		for xi, x := range exprExtras {
			seps := []string{"\n", "  # c\n"}
			if x.sameLine {
				seps = append(seps, " ")
			}
			for si, sep := range seps {
				text := src + sep + x.text + []string{"", "\n"}[(xi+si)%2]
				key := "C14 accept non-expression starlark.ExprFuncOptions content-after-newline"
				if sep == " " {
					key = "C14 accept non-expression starlark.ExprFuncOptions content-on-same-line"
				}
				detail := map[string]any{"text": text, "expression_text": src, "appended": x.text, "separator": sep}
				var err, everr error
				var v starlark.Value
				if p := sl.Safe(func() {
					_, err = starlark.ExprFuncOptions(parseOpts, "e.star", text, nil)
					v, everr = starlark.EvalOptions(parseOpts, thread, "e.star", text, nil)
				}); p != nil {
					c.Violation("C14 parser-panic", fmt.Sprintf("starlark.ExprFuncOptions/EvalOptions panicked on %q: %v", text, p), detail)
					continue
				}
				c.Eval(2)
				if err == nil || everr == nil {
					// one root cause, one key: if the parser's own entry point accepts the text too, it is the parser's defect
					var perr error
					sl.Safe(func() { _, perr = parseOpts.ParseExpr("e.star", text, 0) })
					if perr == nil && sep == " " {
						key = keySameLine
					} else if perr == nil {
						key = keyAfterNewline
					}
					val := ""
					if everr == nil && v != nil {
						val = "; EvalOptions returns the value " + v.String()
					}
					c.Violation(key, fmt.Sprintf("%q (the expression %q, then %s) is not an Expression, but the evaluator's entry points accept it%s", text, src, x.name, val), detail)
					continue
				}
				for _, e := range []error{err, everr} {
					switch e := e.(type) {
					case syntax.Error:
						if bad := checkRejection(e, strings.Count(text, "\n")); bad != "" {
							c.Violation(keyExprNoPos, fmt.Sprintf("starlark.ExprFuncOptions on %q: %s", text, bad), detail)
						}
					case resolve.ErrorList:
						// the resolver's share of static rejection: positioned by construction of resolve.Error
					default:
						c.Violation(keyExprNoPos, fmt.Sprintf("starlark.ExprFuncOptions/EvalOptions on %q: error of type %T is not a static positioned error: %v", text, e, e), detail)
					}
				}
				c.Count("parseexpr_non_expressions_rejected_through_evaluator_api", 1)
				c.Cover("parseexpr_routes", "starlark.ExprFuncOptions")
				c.Cover("parseexpr_routes", "starlark.EvalOptions")
			}
		}
	}
}
