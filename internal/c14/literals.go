package c14

// Literal arm: value -> spelling. Every literal is built from a value chosen first (big.Int, a
// decimal rational, a byte sequence assembled piece by piece); the spelling is then derived from
// the lexical grammar in doc/spec.md ("Lexical elements", "String literals", "String escapes").
// The expected value is therefore known by construction and never obtained from the scanner or
// from syntax.unquote.

import (
	"fmt"
	"math"
	"math/big"
	"math/rand"
	"strconv"
	"strings"
	"unicode/utf8"

	"go.starlark.net/syntax"
)

// judgement modes
const (
	mExact         = iota // must be accepted with exactly this value
	mRejectOrExact        // spec.md and the documented behaviour (quote.go) differ: either a positioned rejection or exactly this value
	mRejectOrInf          // float literal beyond the float64 range: the spec is silent; rejection or +Inf
	mMustReject           // the spec (or the documentation in quote.go) says this is an error
)

type litCase struct {
	tok    syntax.Token
	raw    string
	mode   int
	ival   *big.Int
	fval   float64
	sval   string
	class  string   // e.g. "int hex", "float I.FeX", "str", "raw-bytes"
	kinds  []string // forms / piece kinds used (coverage)
	pieces []piece  // string literals: the pieces (for attribution)
	flavor flavor
	bits   int
	bad    string // for mMustReject: the error class
}

// ---------------------------------------------------------------------------------------------
// ints

var baseName = map[int]string{10: "decimal", 16: "hex", 8: "octal", 2: "binary"}

func randBig(r *rand.Rand, bits int) *big.Int {
	if bits <= 0 {
		return new(big.Int)
	}
	v := new(big.Int)
	switch r.Intn(12) {
	case 0: // all ones
		v.Lsh(big.NewInt(1), uint(bits))
		v.Sub(v, big.NewInt(1))
	case 1: // power of two
		v.Lsh(big.NewInt(1), uint(bits-1))
	default:
		for i := 0; i < bits-1; i += 32 {
			v.Lsh(v, 32)
			v.Or(v, big.NewInt(int64(r.Uint32())))
		}
		mask := new(big.Int).Lsh(big.NewInt(1), uint(bits-1))
		v.And(v, new(big.Int).Sub(mask, big.NewInt(1)))
		v.Or(v, mask)
	}
	return v
}

func pickBits(r *rand.Rand) int {
	switch x := r.Intn(100); {
	case x < 25:
		return 1 + r.Intn(64)
	case x < 65:
		return 1 + r.Intn(300)
	case x < 85:
		return []int{31, 32, 33, 62, 63, 64, 65, 66, 127, 128, 129, 255, 256, 257, 299, 300}[r.Intn(16)]
	default:
		return 1 + r.Intn(8)
	}
}

// digitsOf returns the digits of v in the given base using my own conversion for bases 2, 8, 16
// (bit slicing) and big.Int.Text for base 10.
func digitsOf(v *big.Int, base int) string {
	if v.Sign() == 0 {
		return "0"
	}
	if base == 10 {
		return v.Text(10)
	}
	shift := map[int]uint{2: 1, 8: 3, 16: 4}[base]
	const dig = "0123456789abcdef"
	var out []byte
	t := new(big.Int).Set(v)
	mask := big.NewInt(int64(base - 1))
	for t.Sign() != 0 {
		d := new(big.Int).And(t, mask).Int64()
		out = append(out, dig[d])
		t.Rsh(t, shift)
	}
	for i, j := 0, len(out)-1; i < j; i, j = i+1, j-1 {
		out[i], out[j] = out[j], out[i]
	}
	return string(out)
}

func spellInt(r *rand.Rand, v *big.Int, base int) (string, []string) {
	var kinds []string
	d := digitsOf(v, base)
	if base == 10 {
		// decimal_lit = ('1'…'9') {decimal_digit} | '0' : no leading zeros
		return d, []string{"decimal"}
	}
	letter := map[int]string{16: "x", 8: "o", 2: "b"}[base]
	if r.Intn(2) == 0 {
		letter = strings.ToUpper(letter)
		kinds = append(kinds, baseName[base]+"-upper-prefix")
	} else {
		kinds = append(kinds, baseName[base]+"-lower-prefix")
	}
	if base == 16 {
		switch r.Intn(3) {
		case 0:
			d = strings.ToUpper(d)
			kinds = append(kinds, "hex-digits-upper")
		case 1:
			kinds = append(kinds, "hex-digits-lower")
		default:
			b := []byte(d)
			for i := range b {
				if r.Intn(2) == 0 && b[i] >= 'a' {
					b[i] -= 'a' - 'A'
				}
			}
			d = string(b)
			kinds = append(kinds, "hex-digits-mixed")
		}
	}
	// hex_lit = '0' ('x'|'X') hex_digit {hex_digit}: leading zero digits are allowed after the prefix
	if r.Intn(4) == 0 {
		d = strings.Repeat("0", 1+r.Intn(3)) + d
		kinds = append(kinds, baseName[base]+"-leading-zeros")
	}
	return "0" + letter + d, kinds
}

func genInt(r *rand.Rand) litCase {
	bits := pickBits(r)
	v := randBig(r, bits)
	if r.Intn(40) == 0 {
		v, bits = new(big.Int), 0
	}
	base := []int{10, 16, 8, 2}[r.Intn(4)]
	raw, kinds := spellInt(r, v, base)
	size := "le-63-bits"
	switch {
	case bits > 256:
		size = "gt-256-bits"
	case bits > 64:
		size = "gt-64-bits"
	case bits == 64:
		size = "64-bits"
	}
	kinds = append(kinds, baseName[base]+" "+size)
	return litCase{tok: syntax.INT, raw: raw, mode: mExact, ival: v, class: "int " + baseName[base], kinds: kinds, bits: bits}
}

// ---------------------------------------------------------------------------------------------
// floats

func randDigits(r *rand.Rand, n int) string {
	b := make([]byte, n)
	for i := range b {
		b[i] = byte('0' + r.Intn(10))
	}
	return string(b)
}

var pow10cache = map[int]*big.Int{}

func pow10(n int) *big.Int {
	if p, ok := pow10cache[n]; ok {
		return p
	}
	p := new(big.Int).Exp(big.NewInt(10), big.NewInt(int64(n)), nil)
	pow10cache[n] = p
	return p
}

// genFloat: float = decimals '.' [decimals] [exponent] | decimals exponent | '.' decimals [exponent]
func genFloat(r *rand.Rand) litCase {
	form := r.Intn(7)
	names := []string{"I.", "I.F", ".F", "IeX", "I.eX", "I.FeX", ".FeX"}
	var kinds []string
	ndig := func() int {
		switch r.Intn(6) {
		case 0:
			return 17
		case 1:
			return 1
		case 2:
			return 18 + r.Intn(8)
		}
		return 1 + r.Intn(9)
	}
	ip, fp := "", ""
	hasI := form != 2 && form != 6
	hasF := form == 1 || form == 2 || form == 5 || form == 6
	if hasI {
		ip = randDigits(r, ndig())
		switch r.Intn(6) {
		case 0:
			ip = "0"
		case 1: // leading zeros ("decimals" admits them); includes old-octal look-alikes such as 0755.
			ip = strings.Repeat("0", 1+r.Intn(2)) + ip
			kinds = append(kinds, "float-int-part-leading-zeros")
		case 2:
			ip = strings.TrimLeft(ip, "0")
			if ip == "" {
				ip = "0"
			}
		}
	}
	if hasF {
		fp = randDigits(r, ndig())
		if r.Intn(8) == 0 {
			fp = "0"
		}
	}
	if len(strings.TrimLeft(ip, "0"))+len(fp) == 17 || len(strings.TrimLeft(ip+fp, "0")) == 17 {
		kinds = append(kinds, "float-17-digits")
	}
	exp := 0
	expText := ""
	if form >= 3 {
		switch x := r.Intn(100); {
		case x < 55:
			exp = r.Intn(61) - 30
		case x < 80:
			exp = 280 + r.Intn(60)
			if r.Intn(2) == 0 {
				exp = -exp - 20
			}
			kinds = append(kinds, "float-exponent-near-limit")
		case x < 90:
			exp = 400 + r.Intn(800)
			if r.Intn(2) == 0 {
				exp = -exp
			}
			kinds = append(kinds, "float-exponent-beyond-range")
		default:
			exp = 0
		}
		e := "e"
		if r.Intn(2) == 0 {
			e = "E"
			kinds = append(kinds, "float-E-upper")
		} else {
			kinds = append(kinds, "float-e-lower")
		}
		sign := ""
		a := exp
		if exp < 0 {
			sign, a = "-", -exp
			kinds = append(kinds, "float-exp-minus")
		} else if r.Intn(2) == 0 {
			sign = "+"
			kinds = append(kinds, "float-exp-plus")
		} else {
			kinds = append(kinds, "float-exp-unsigned")
		}
		ds := strconv.Itoa(a)
		if r.Intn(6) == 0 {
			ds = "0" + ds
			kinds = append(kinds, "float-exp-leading-zero")
		}
		expText = e + sign + ds
	}
	raw := ""
	switch form {
	case 0:
		raw = ip + "."
	case 1:
		raw = ip + "." + fp
	case 2:
		raw = "." + fp
	case 3:
		raw = ip + expText
	case 4:
		raw = ip + "." + expText
	case 5:
		raw = ip + "." + fp + expText
	case 6:
		raw = "." + fp + expText
	}
	// value = (ip fp as an integer) * 10^(exp - len(fp)), computed exactly.
	m, _ := new(big.Int).SetString("0"+ip+fp, 10)
	e10 := exp - len(fp)
	rat := new(big.Rat)
	if e10 >= 0 {
		rat.SetInt(new(big.Int).Mul(m, pow10(e10)))
	} else {
		rat.SetFrac(m, pow10(-e10))
	}
	f, _ := rat.Float64()
	lc := litCase{tok: syntax.FLOAT, raw: raw, mode: mExact, fval: f, class: "float " + names[form], kinds: append(kinds, "float "+names[form])}
	if math.IsInf(f, 0) {
		lc.mode = mRejectOrInf
		lc.kinds = append(lc.kinds, "float-overflow")
	} else if f == 0 && m.Sign() != 0 {
		lc.kinds = append(lc.kinds, "float-underflow-to-zero")
	} else if f != 0 && math.Abs(f) < 2.2250738585072014e-308 {
		lc.kinds = append(lc.kinds, "float-subnormal")
	}
	return lc
}

// ---------------------------------------------------------------------------------------------
// strings and bytes

type flavor struct {
	raw, bytes, triple bool
	quote              byte
}

func (f flavor) name() string {
	switch {
	case f.raw && f.bytes:
		return "raw-bytes"
	case f.raw:
		return "raw-str"
	case f.bytes:
		return "bytes"
	}
	return "str"
}

func (f flavor) open() string {
	p := ""
	if f.raw {
		p += "r"
	}
	if f.bytes {
		p += "b"
	}
	return p + f.close()
}

func (f flavor) close() string {
	if f.triple {
		return strings.Repeat(string(f.quote), 3)
	}
	return string(f.quote)
}

type piece struct {
	kind  string
	text  string // spelling
	val   string // denoted bytes
	high  bool   // octal/hex escape above 127 (str literals: reject-or-exact)
	short bool   // octal escape of fewer than 3 digits: must not be followed by an octal digit
	// hexOpen: a deliberately truncated \x, \u, \U: must not be followed by a hex digit
	hexOpen bool
	bad     bool
}

const plainChars = "abcxyzABCXYZ0123456789 !#$%&()*+,-./:;<=>?@[]^_`{|}~\t"

var nonASCIIRunes = []rune{'\u00e9', '\u00df', '\u0416', '\u65e5', '\u672c', '\u8a9e', '\U0001f600', '\u00a0', '\u2028', '\ufeff', '\U0010ffff', '\u0080', '\u07ff', '\u0800', '\uffff', '\U00010000'}

type strOpts struct {
	allowCR      bool // CRLF line endings inside the literal
	allowNewline bool // multi-line tokens at all (triple-quoted newlines, escaped newlines)
	onlyExact    bool // no reject-or-exact pieces
	nonASCII     bool
}

func hexDigits(r *rand.Rand, n uint32, width int) (string, string) {
	s := fmt.Sprintf("%0*x", width, n)
	switch r.Intn(3) {
	case 0:
		return strings.ToUpper(s), "upper"
	case 1:
		return s, "lower"
	}
	b := []byte(s)
	for i := range b {
		if r.Intn(2) == 0 && b[i] >= 'a' {
			b[i] -= 'a' - 'A'
		}
	}
	return string(b), "mixed"
}

func randScalar(r *rand.Rand) rune {
	for {
		var c rune
		switch r.Intn(6) {
		case 0:
			c = rune(r.Intn(0x80))
		case 1:
			c = rune(0x80 + r.Intn(0x780))
		case 2:
			c = rune(0x800 + r.Intn(0xF800))
		case 3:
			c = rune(0x10000 + r.Intn(0x100000))
		case 4:
			c = []rune{0, 0x7f, 0x80, 0x7ff, 0x800, 0xd7ff, 0xe000, 0xffff, 0x10000, 0x10ffff}[r.Intn(10)]
		default:
			c = nonASCIIRunes[r.Intn(len(nonASCIIRunes))]
		}
		if c >= 0xd800 && c < 0xe000 {
			continue
		}
		return c
	}
}

// genPiece makes one well-formed piece for the flavor.
func genPiece(r *rand.Rand, f flavor, o strOpts) piece {
	other := byte('"')
	if f.quote == '"' {
		other = '\''
	}
	for {
		k := r.Intn(100)
		if f.raw {
			switch {
			case k < 35:
				c := plainChars[r.Intn(len(plainChars))]
				return piece{kind: "plain", text: string(c), val: string(c)}
			case k < 42:
				if !o.nonASCII || f.bytes {
					continue
				}
				c := string(nonASCIIRunes[r.Intn(len(nonASCIIRunes))])
				return piece{kind: "nonascii", text: c, val: c}
			case k < 50:
				return piece{kind: "otherquote", text: string(other), val: string(other)}
			case k < 62:
				// "no special processing of backslash escapes": backslash and the next character both stay
				cs := "nxuU0817abfrtv (wN"
				c := cs[r.Intn(len(cs))]
				return piece{kind: "raw-backslash-char", text: `\` + string(c), val: `\` + string(c)}
			case k < 72:
				// an escaped quotation mark does not end the literal and "there is no special processing":
				// both characters are part of the value (see the oracle notes in c14.go)
				q := f.quote
				kind := "raw-backslash-quote"
				if r.Intn(3) == 0 {
					q, kind = other, "raw-backslash-otherquote"
				}
				return piece{kind: kind, text: `\` + string(q), val: `\` + string(q)}
			case k < 80:
				return piece{kind: "raw-backslash-backslash", text: `\\`, val: `\\`}
			case k < 86:
				if !o.allowNewline {
					continue
				}
				// "an escaped newline (which denotes a backslash followed by a newline)"
				if o.allowCR && r.Intn(2) == 0 {
					return piece{kind: "raw-backslash-crlf", text: "\\\r\n", val: "\\\n"}
				}
				return piece{kind: "raw-backslash-newline", text: "\\\n", val: "\\\n"}
			case k < 94:
				if !f.triple || !o.allowNewline {
					continue
				}
				if o.allowCR && r.Intn(2) == 0 {
					return piece{kind: "crlf", text: "\r\n", val: "\n"}
				}
				return piece{kind: "newline", text: "\n", val: "\n"}
			default:
				if !f.triple {
					continue
				}
				n := 1 + r.Intn(2)
				s := strings.Repeat(string(f.quote), n)
				return piece{kind: fmt.Sprintf("quote-in-triple-%d", n), text: s, val: s}
			}
		}
		switch {
		case k < 22:
			c := plainChars[r.Intn(len(plainChars))]
			return piece{kind: "plain", text: string(c), val: string(c)}
		case k < 27:
			if !o.nonASCII || f.bytes {
				continue
			}
			c := string(nonASCIIRunes[r.Intn(len(nonASCIIRunes))])
			return piece{kind: "nonascii", text: c, val: c}
		case k < 31:
			return piece{kind: "otherquote", text: string(other), val: string(other)}
		case k < 47:
			esc := []struct{ k, t, v string }{
				{"esc-a", `\a`, "\x07"}, {"esc-b", `\b`, "\x08"}, {"esc-f", `\f`, "\x0c"}, {"esc-n", `\n`, "\x0a"},
				{"esc-r", `\r`, "\x0d"}, {"esc-t", `\t`, "\x09"}, {"esc-v", `\v`, "\x0b"}, {"esc-backslash", `\\`, `\`},
				{"esc-squote", `\'`, "'"}, {"esc-dquote", `\"`, `"`},
			}
			e := esc[r.Intn(len(esc))]
			return piece{kind: e.k, text: e.t, val: e.v}
		case k < 59:
			// octal escape: one, two or three octal digits, value <= 255
			nd := 1 + r.Intn(3)
			var n int
			switch nd {
			case 1:
				n = r.Intn(8)
			case 2:
				n = r.Intn(64)
			default:
				n = r.Intn(256)
			}
			if r.Intn(6) == 0 {
				n = []int{0, 7, 8, 10, 63, 64, 65, 90, 127, 128, 255}[r.Intn(11)]
				if n >= 64 {
					nd = 3
				} else if n >= 8 && nd < 2 {
					nd = 2
				}
			}
			p := piece{kind: fmt.Sprintf("octal%d", nd), text: fmt.Sprintf(`\%0*o`, nd, n), val: string([]byte{byte(n)}), short: nd < 3}
			if n > 127 {
				p.high = true
				p.kind = "octal-high"
				if !f.bytes && o.onlyExact {
					continue
				}
			}
			return p
		case k < 69:
			n := r.Intn(256)
			if r.Intn(3) == 0 {
				n = r.Intn(128)
			}
			h, cs := hexDigits(r, uint32(n), 2)
			p := piece{kind: "hex-" + cs, text: `\x` + h, val: string([]byte{byte(n)})}
			if n > 127 {
				p.high = true
				p.kind = "hex-high"
				if !f.bytes && o.onlyExact {
					continue
				}
			}
			return p
		case k < 76:
			var c rune
			for {
				c = randScalar(r)
				if c <= 0xffff {
					break
				}
			}
			h, _ := hexDigits(r, uint32(c), 4)
			return piece{kind: "u4", text: `\u` + h, val: string(c)}
		case k < 82:
			c := randScalar(r)
			h, _ := hexDigits(r, uint32(c), 8)
			return piece{kind: "U8", text: `\U` + h, val: string(c)}
		case k < 87:
			if !o.allowNewline {
				continue
			}
			// "An escaped newline ... is ignored"
			if o.allowCR && r.Intn(2) == 0 {
				return piece{kind: "esc-crlf", text: "\\\r\n", val: ""}
			}
			return piece{kind: "esc-newline", text: "\\\n", val: ""}
		case k < 94:
			if !f.triple || !o.allowNewline {
				continue
			}
			if o.allowCR && r.Intn(2) == 0 {
				return piece{kind: "crlf", text: "\r\n", val: "\n"}
			}
			return piece{kind: "newline", text: "\n", val: "\n"}
		default:
			if !f.triple {
				continue
			}
			n := 1 + r.Intn(2)
			s := strings.Repeat(string(f.quote), n)
			return piece{kind: fmt.Sprintf("quote-in-triple-%d", n), text: s, val: s}
		}
	}
}

// genBadPiece makes a piece that the spec (or quote.go's documentation for \u, \U) declares an error.
func genBadPiece(r *rand.Rand, f flavor) piece {
	for {
		k := r.Intn(9)
		if f.raw {
			// Raw literals process no escapes; only the line-structure errors remain.
			if f.triple {
				return piece{kind: "bad-eof", bad: true}
			}
			if r.Intn(2) == 0 {
				return piece{kind: "bad-newline-in-single-quoted", text: "\n", bad: true}
			}
			return piece{kind: "bad-eof", bad: true}
		}
		switch k {
		case 0: // "It is error if the value is greater than decimal 255."
			n := 256 + r.Intn(256)
			return piece{kind: "bad-octal-over-377", text: fmt.Sprintf(`\%o`, n), bad: true}
		case 1: // "exactly two hexadecimal digits"
			t := []string{`\x`, `\x4`, `\xg0`, `\x0g`, `\x-0`, `\xA`, `\x 41`}[r.Intn(7)]
			return piece{kind: "bad-hex", text: t, bad: true, hexOpen: true}
		case 2:
			t := []string{`\u`, `\u1`, `\u12`, `\u123`, `\u12g4`, `\uD800`, `\udfff`, `\uDBFF`}[r.Intn(8)]
			kind := "bad-u-short"
			if strings.HasPrefix(strings.ToLower(t), `\ud`) {
				kind = "bad-u-surrogate"
			}
			return piece{kind: kind, text: t, bad: true, hexOpen: kind == "bad-u-short"}
		case 3:
			t := []string{`\U`, `\U0001F60`, `\U00110000`, `\UFFFFFFFF`, `\U0000D800`, `\U0000dfff`, `\U001g0000`, `\U7FFFFFFF`}[r.Intn(8)]
			kind := "bad-U-range"
			switch t {
			case `\U`, `\U0001F60`, `\U001g0000`:
				kind = "bad-U-short"
			case `\U0000D800`, `\U0000dfff`:
				kind = "bad-U-surrogate"
			}
			return piece{kind: kind, text: t, bad: true, hexOpen: kind == "bad-U-short"}
		case 4, 5: // "It is an error for a backslash to appear within a string literal other than as part of one of the escapes"
			cs := "89cdeghijklmopqswyzABCDEFGHIJKLMNOPQRSTVWXYZ !#$%&()*+,-./:;<=>?@[]^_`{|}~"
			c := cs[r.Intn(len(cs))]
			return piece{kind: "bad-backslash-other", text: `\` + string(c), bad: true}
		case 6:
			if f.triple {
				continue
			}
			return piece{kind: "bad-newline-in-single-quoted", text: "\n", bad: true}
		case 7:
			return piece{kind: "bad-eof", bad: true}
		default:
			return piece{kind: "bad-backslash-nonascii", text: `\é`, bad: true}
		}
	}
}

func isOctalDigit(b byte) bool { return b >= '0' && b <= '7' }
func isHexDigit(b byte) bool {
	return b >= '0' && b <= '9' || b >= 'a' && b <= 'f' || b >= 'A' && b <= 'F'
}

// assemble joins pieces, repairing the two context conditions of the escape grammar: a short octal
// escape must not be followed by an octal digit, an unescaped quote run inside a triple-quoted literal
// must be followed by something that is not the quote (and must not touch the closing quotes).
func assemble(r *rand.Rand, f flavor, ps []piece) (text, val string, out []piece) {
	var tb, vb strings.Builder
	for i := 0; i < len(ps); i++ {
		p := ps[i]
		if len(out) > 0 {
			prev := out[len(out)-1]
			first := byte(0)
			if len(p.text) > 0 {
				first = p.text[0]
			}
			if prev.short && isOctalDigit(first) || prev.hexOpen && isHexDigit(first) ||
				strings.HasPrefix(prev.kind, "quote-in-triple") && (first == f.quote || first == 0) {
				sep := piece{kind: "plain", text: "z", val: "z"}
				out = append(out, sep)
				tb.WriteString(sep.text)
				vb.WriteString(sep.val)
			}
		}
		out = append(out, p)
		tb.WriteString(p.text)
		vb.WriteString(p.val)
	}
	if n := len(out); n > 0 && strings.HasPrefix(out[n-1].kind, "quote-in-triple") {
		sep := piece{kind: "plain", text: "-", val: "-"}
		out = append(out, sep)
		tb.WriteString(sep.text)
		vb.WriteString(sep.val)
	}
	return tb.String(), vb.String(), out
}

func randFlavor(r *rand.Rand) flavor {
	f := flavor{raw: r.Intn(3) == 0, bytes: r.Intn(3) == 0, triple: r.Intn(3) == 0, quote: '"'}
	if r.Intn(2) == 0 {
		f.quote = '\''
	}
	return f
}

func genString(r *rand.Rand, f flavor, o strOpts) litCase {
	n := 0
	switch r.Intn(8) {
	case 0:
		n = 0
	case 1:
		n = 1
	default:
		n = 1 + r.Intn(8)
	}
	ps := make([]piece, n)
	for i := range ps {
		ps[i] = genPiece(r, f, o)
	}
	body, val, out := assemble(r, f, ps)
	lc := litCase{tok: syntax.STRING, raw: f.open() + body + f.close(), mode: mExact, sval: val, class: f.name(), pieces: out, flavor: f}
	if f.bytes {
		lc.tok = syntax.BYTES
	}
	seen := map[string]bool{}
	q := "dquote"
	if f.quote == '\'' {
		q = "squote"
	}
	if f.triple {
		q = "triple-" + q
	}
	lc.kinds = append(lc.kinds, f.name()+" "+q)
	if n == 0 {
		lc.kinds = append(lc.kinds, f.name()+" empty")
	}
	for _, p := range out {
		if p.high && !f.bytes {
			lc.mode = mRejectOrExact
		}
		if !seen[p.kind] {
			seen[p.kind] = true
			lc.kinds = append(lc.kinds, f.name()+" "+p.kind)
		}
	}
	return lc
}

func genBadString(r *rand.Rand, f flavor, o strOpts) litCase {
	o.onlyExact = true
	bad := genBadPiece(r, f)
	var ps []piece
	for i, n := 0, r.Intn(4); i < n; i++ {
		ps = append(ps, genPiece(r, f, o))
	}
	ps = append(ps, bad)
	if bad.kind != "bad-eof" {
		for i, n := 0, r.Intn(4); i < n; i++ {
			ps = append(ps, genPiece(r, f, o))
		}
	}
	body, _, out := assemble(r, f, ps)
	raw := f.open() + body + f.close()
	if bad.kind == "bad-eof" {
		raw = f.open() + body
		if !f.raw && r.Intn(2) == 0 {
			raw = f.open() + body + `\` + f.close() // the closing quote is escaped
			if f.triple {
				raw = f.open() + body + f.close()[:2] // too few closing quotes
			}
		}
	}
	lc := litCase{tok: syntax.STRING, raw: raw, mode: mMustReject, class: f.name(), pieces: out, flavor: f, bad: bad.kind}
	lc.kinds = []string{f.name() + " " + bad.kind}
	return lc
}

// Ungrammatical numeric spellings (no token sequence of the lexical grammar forms an expression from them).
var badNumbers = []struct{ text, kind string }{
	{"00", "bad-int-all-zeros"}, {"000", "bad-int-all-zeros"}, {"0755", "bad-int-old-octal"}, {"01", "bad-int-leading-zero"}, {"09", "bad-int-leading-zero"}, {"0x", "bad-int-hex-no-digits"},
	{"0X", "bad-int-hex-no-digits"}, {"0xg", "bad-int-hex-no-digits"}, {"0o", "bad-int-octal-no-digits"}, {"0o8", "bad-int-octal-no-digits"},
	{"0O9", "bad-int-octal-no-digits"}, {"0b", "bad-int-binary-no-digits"}, {"0b2", "bad-int-binary-no-digits"}, {"0B9", "bad-int-binary-no-digits"},
	{"0o78", "bad-int-octal-bad-digit"}, {"0b12", "bad-int-binary-bad-digit"}, {"0x1g", "bad-int-hex-bad-digit"},
	{"1e", "bad-float-no-exponent-digits"}, {"1e+", "bad-float-no-exponent-digits"}, {"1.e-", "bad-float-no-exponent-digits"}, {".5E", "bad-float-no-exponent-digits"},
	{"1.5e+x", "bad-float-no-exponent-digits"}, {"1..2", "bad-float-two-dots"}, {"1.2.3", "bad-float-two-dots"}, {"1e5.5", "bad-float-two-dots"},
	{"123abc", "bad-number-letters"}, {"1_000", "bad-number-underscore"}, {"0xFFL", "bad-number-suffix"}, {"10L", "bad-number-suffix"}, {"1.5j", "bad-number-suffix"},
}

func genBadNumber(r *rand.Rand) litCase {
	b := badNumbers[r.Intn(len(badNumbers))]
	return litCase{tok: syntax.INT, raw: b.text, mode: mMustReject, class: "number", kinds: []string{"number " + b.kind}, bad: b.kind}
}

func genLiteral(r *rand.Rand) litCase {
	switch x := r.Intn(100); {
	case x < 25:
		return genInt(r)
	case x < 45:
		return genFloat(r)
	case x < 47:
		return genBadNumber(r)
	case x < 88:
		return genString(r, randFlavor(r), strOpts{allowCR: true, allowNewline: true, nonASCII: true})
	default:
		return genBadString(r, randFlavor(r), strOpts{allowCR: true, allowNewline: true, nonASCII: true})
	}
}

// endPos returns the position just after text that starts at (line, col); CRLF counts as one line ending.
func endPos(text string, line, col int32) (int32, int32) {
	for i := 0; i < len(text); {
		c, sz := utf8.DecodeRuneInString(text[i:])
		i += sz
		if c == '\r' && i < len(text) && text[i] == '\n' {
			continue
		}
		if c == '\n' {
			line++
			col = 1
		} else {
			col++
		}
	}
	return line, col
}

func describeValue(lc *litCase) string {
	switch lc.tok {
	case syntax.INT:
		if lc.ival != nil {
			return lc.ival.String()
		}
	case syntax.FLOAT:
		return strconv.FormatFloat(lc.fval, 'g', -1, 64)
	}
	return strconv.Quote(lc.sval)
}
