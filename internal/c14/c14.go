// Package c14 monitors property C14 "Parsing is faithful to the grammar".
//
// Three arms, all judged against things the engine builds itself before the parser sees any text:
//
//   - tree arm: random syntax trees over every expression and statement form are rendered by
//     verif/internal/gen in several layouts (the renderer writes the position of every token into the
//     tree and parenthesises minimally from the precedence table of doc/spec.md); FileOptions.Parse /
//     ParseExpr must return that tree with those positions.
//   - literal arm: value -> spelling; the scanner must return the value (ints via math/big, floats via
//     exact rational arithmetic, strings and bytes assembled piece by piece from the escape rules of
//     doc/spec.md), and must reject the spellings the spec declares erroneous.
//   - sequence arm: every parameter/argument kind sequence up to a length bound; the documented superset
//     the parser accepts must be cut back by the resolver to exactly the grammar's ordering rules.
//   - near-miss arm: one token of a valid token list is deleted, duplicated or swapped; the text is
//     rejected with a position, or accepted with a tree that spells the same token sequence.
//   - expression-entry arm (exprarm.go): ParseExpr on rendered expressions with blank/comment trailers
//     (same tree oracle) and on expressions followed by further lines or tokens (must be rejected).
//
// Oracle notes (where the documents are silent or disagree, the monitor does not judge):
//
//   - doc/spec.md gives no precedence for `not`, conditional expressions and lambda; the Python
//     ordering is assumed (the spec calls the syntax a subset of Python's): `not` between `and` and the
//     comparisons, `x if c else y` and lambda below `or`, lambda bodies extending as far as possible.
//   - Raw strings: "an escaped quotation mark (which denotes a literal quotation mark)" is read as "does
//     not end the literal"; as "there is no special processing of backslash escapes", the backslash stays.
//   - spec.md says \x and octal escapes "encode a single byte"; quote.go documents that in str (not bytes)
//     literals values above 127 are rejected. Both outcomes are accepted for those (reject-or-exact).
//   - spec.md has no section on bytes literals or on \u / \U; quote.go documents them (UTF-8 encoding of the
//     code point; surrogates and values above 0x10FFFF are errors). That documentation is the oracle there.
//   - A float literal beyond the float64 range: the spec is silent; rejection or +Inf are both accepted.
package c14

import (
	"fmt"
	"math"
	"math/big"
	"sort"
	"strconv"
	"strings"

	"go.starlark.net/syntax"

	"verif/internal/driver"
	"verif/internal/sl"
)

func init() {
	driver.Register(&driver.Engine{
		ID: "C14", Level: "exploration",
		Rule: "Tree arm: a case is one random syntax tree (PRNG from seed and case index; expression depth <= 6, statement nesting <= 3, all expression and statement forms of the grammar; " +
			"every 4th tree is a systematic operator nest: each of the 24 operand positions x 13 operator levels in turn) rendered in 3 (quick) or 5 (thorough) layouts including plain/minimal and redundant parentheses; " +
			"one evaluation = one rendering parsed and compared (structure, literal values, every token position, Span starts). Distinct = distinct plain renderings. " +
			"Literal arm: a case is a batch of 100 literals, each built value-first (ints 0-300 bits in 4 bases, 7 float forms, str/bytes/raw/triple literals of 0-8 escape pieces, and erroneous spellings); " +
			"one evaluation = one literal scanned in a small statement and judged (value, kind, raw text, positions of the literal and of the two following tokens). Distinct = distinct spellings. " +
			"Near-miss arm: a case is one random base program rendered plain plus 20 single-token deletions/duplications/swaps within a line; one evaluation = one text parsed and judged. Distinct = distinct mutated texts. " +
			"Trivial cases (a near-miss identical to its base) are not counted as distinct. " +
			"Sequence arm: every parameter list over {required, optional, *, *args, **kwargs} and every argument list over {positional, named, *x, **x} up to length 4 (quick) or 6 (thorough), in def, lambda and call position and rotating layouts: accepted by parser+resolver exactly when the spec's ordering rules allow it, the accepted tree spelling the same kinds in the same order, a rejection positioned inside the text. " +
			"Expression-entry arm: a case is one random Expression (Test, bare tuple or systematic operator nest) rendered in 3 (quick) or 4 (thorough) layouts and given to FileOptions.ParseExpr, the deprecated syntax.ParseExpr and (closed expressions) starlark.ExprFuncOptions/EvalOptions: followed by one of 10 blank/comment trailers it must come back as the rendered tree with every position; followed by a line break or a blank and one of 46 continuations (another expression, a statement, an operator and operand, a stray bracket, an indented line, a malformed literal), or broken by a line break between two tokens outside brackets, it is not an Expression and must be rejected with a positioned error, while the same break inside brackets must leave the tree unchanged.",
		Assumptions: []string{
			"verif/internal/gen renderer: token text and position bookkeeping (re-checked per rendering against the text by offset lookup) and its precedence table written from doc/spec.md",
			"precedence of `not`, conditional expressions and lambda taken from Python where doc/spec.md is silent",
			"math/big (Int, Rat.Float64) and strconv.ParseFloat as exact arithmetic for expected literal values (cross-checked against each other for floats)",
			"where doc/spec.md and the documentation in quote.go differ (non-ASCII \\x and octal escapes in str literals) or the spec is silent (float overflow) both outcomes are accepted",
			"raw string: backslash-quote keeps the backslash (spec wording read as 'does not end the literal'); \\u and \\U and bytes literals as documented in quote.go",
		},
		Run:         run,
		MinDistinct: 5000,
		Finish:      finish,
	})
}

func run(c *driver.Ctx) {
	if c.Take() {
		c.Note("corpora errors.star scan.star")
		corpusCase(c)
	}
	nt := c.Pick(3000, 300000)
	for i := 0; i < nt; i++ {
		if !c.Take() {
			continue
		}
		treeCase(c, i)
	}
	nl := c.Pick(300, 30000)
	for i := 0; i < nl; i++ {
		if !c.Take() {
			continue
		}
		literalCase(c)
	}
	seqArm(c)
	nn := c.Pick(1000, 100000)
	for i := 0; i < nn; i++ {
		if !c.Take() {
			continue
		}
		nearMissCase(c)
	}
	exprArm(c)
}

// ---------------------------------------------------------------------------------------------
// literal arm

var litPrefixes = []string{"x = ", "x=", "é = ", "x\t=\t", "名前 = [0, "}

func literalCase(c *driver.Ctx) {
	r := c.Rand()
	for k := 0; k < 100; k++ {
		lc := genLiteral(r)
		prefix := litPrefixes[r.Intn(len(litPrefixes))]
		judgeLiteral(c, &lc, prefix, true)
	}
}

type litResult struct {
	err   error
	lit   *syntax.Literal
	plus  *syntax.BinaryExpr
	shape string
}

func parseLiteral(text string, inList bool) (res litResult, p *sl.Panic) {
	p = sl.Safe(func() {
		f, err := parseOpts.Parse("l.star", text, 0)
		if err != nil {
			res.err = err
			return
		}
		res.shape = "unexpected statement shape"
		if len(f.Stmts) != 1 {
			return
		}
		as, ok := f.Stmts[0].(*syntax.AssignStmt)
		if !ok {
			return
		}
		rhs := as.RHS
		if inList {
			l, ok := rhs.(*syntax.ListExpr)
			if !ok || len(l.List) != 2 {
				return
			}
			rhs = l.List[1]
		}
		b, ok := rhs.(*syntax.BinaryExpr)
		if !ok || b.Op != syntax.PLUS {
			return
		}
		lit, ok := b.X.(*syntax.Literal)
		if !ok {
			return
		}
		if _, ok := b.Y.(*syntax.Ident); !ok {
			return
		}
		res.shape = ""
		res.lit, res.plus = lit, b
	})
	return
}

// judgeLiteral scans one literal inside "prefix LITERAL + y" and compares with the expectation.
// It reports at most one violation and returns a description of the failure ("" if none).
func judgeLiteral(c *driver.Ctx, lc *litCase, prefix string, report bool) string {
	inList := strings.HasSuffix(prefix, "[0, ")
	suffix := " + y\n"
	if inList {
		suffix = " + y]\n"
	}
	text := prefix + lc.raw + suffix
	nlines := strings.Count(text, "\n")
	res, p := parseLiteral(text, inList)
	if report {
		c.Eval(1)
		c.Count("literals", 1)
	}
	detail := map[string]any{"text": text, "literal": lc.raw, "class": lc.class, "expected": describeValue(lc), "kinds": lc.kinds}
	fail := func(key, what string) string {
		if report {
			key = attribute(c, lc, key)
			c.Violation(key, what, detail)
		}
		return what
	}
	if p != nil {
		return fail("C14 parser-panic", fmt.Sprintf("the parser panicked on literal %q: %v", lc.raw, p))
	}
	if res.err != nil {
		if strings.Contains(errMsg(res.err), "internal error") {
			return fail("C14 parser-panic", fmt.Sprintf("literal %q: %v", lc.raw, res.err))
		}
		switch lc.mode {
		case mMustReject, mRejectOrExact, mRejectOrInf:
			if bad := checkRejection(res.err, nlines); bad != "" {
				return fail("C14 literal rejection-without-position", fmt.Sprintf("literal %q: %s", lc.raw, bad))
			}
			if report {
				switch lc.mode {
				case mMustReject:
					c.Count("erroneous_literals_rejected", 1)
				case mRejectOrExact:
					c.Count("unjudged_non_ascii_escape_in_str_rejected", 1)
				default:
					c.Count("unjudged_float_out_of_range_rejected", 1)
				}
				noteLiteral(c, lc)
			}
			return ""
		}
		key := "C14 reject " + litKeyClass(lc)
		if lc.tok == syntax.INT && lc.bits > 63 && (strings.HasSuffix(lc.class, "octal") || strings.HasSuffix(lc.class, "binary")) {
			key = "C14 reject int-literal " + strings.TrimPrefix(lc.class, "int ") + "-over-63-bits"
		}
		return fail(key, fmt.Sprintf("%s literal %s (value %s) is rejected: %v", lc.class, driver.Truncate(lc.raw, 120), driver.Truncate(describeValue(lc), 120), res.err))
	}
	if lc.mode == mMustReject {
		got := ""
		if res.lit != nil {
			got = fmt.Sprintf(" as %v %#v", res.lit.Token, res.lit.Value)
		}
		return fail("C14 accept erroneous-literal "+lc.class+" "+lc.bad, fmt.Sprintf("%s spelling %q (%s) must be rejected but is accepted%s", lc.class, lc.raw, lc.bad, got))
	}
	if res.shape != "" {
		return fail("C14 wrong "+litKeyClass(lc)+" token-extent", fmt.Sprintf("%q does not parse as <literal> + y: the literal token was not scanned as one %v token", text, lc.tok))
	}
	lit := res.lit
	if lit.Token != lc.tok {
		return fail("C14 wrong "+litKeyClass(lc)+" token-kind", fmt.Sprintf("literal %q scanned as %v, want %v", lc.raw, lit.Token, lc.tok))
	}
	okv := false
	switch lc.tok {
	case syntax.INT:
		switch v := lit.Value.(type) {
		case int64:
			okv = lc.ival.IsInt64() && lc.ival.Int64() == v
		case *big.Int:
			okv = v != nil && lc.ival.Cmp(v) == 0
		}
	case syntax.FLOAT:
		v, ok := lit.Value.(float64)
		okv = ok && math.Float64bits(v) == math.Float64bits(lc.fval)
		if lc.mode == mRejectOrInf {
			okv = ok && math.IsInf(v, 1)
		}
	default:
		v, ok := lit.Value.(string)
		okv = ok && v == lc.sval
	}
	if !okv {
		return fail("C14 wrong "+litKeyClass(lc)+" value", fmt.Sprintf("%s literal %s denotes %s but the scanner returned %s", lc.class, driver.Truncate(lc.raw, 120),
			driver.Truncate(describeValue(lc), 120), driver.Truncate(fmt.Sprintf("%#v", lit.Value), 120)))
	}
	if !strings.Contains(lc.raw, "\r") && lit.Raw != lc.raw {
		return fail("C14 wrong "+litKeyClass(lc)+" raw-text", fmt.Sprintf("Literal.Raw is %q for the token %q", lit.Raw, lc.raw))
	}
	// positions: the literal, and the two tokens after it (so the scanner's idea of where the literal ends is checked)
	_, pcol := endPos(prefix, 1, 1)
	eline, ecol := endPos(lc.raw, 1, pcol)
	y := res.plus.Y.(*syntax.Ident)
	if lit.TokenPos.Line != 1 || lit.TokenPos.Col != pcol {
		return fail("C14 position "+positionClass(text, nil, 1, int(pcol), int(lit.TokenPos.Line), int(lit.TokenPos.Col)), fmt.Sprintf("literal %q starts at 1:%d, reported at %d:%d", lc.raw, pcol, lit.TokenPos.Line, lit.TokenPos.Col))
	}
	if res.plus.OpPos.Line != eline || res.plus.OpPos.Col != ecol+1 || y.NamePos.Line != eline || y.NamePos.Col != ecol+3 {
		cls := positionClass(text, []token{{lc.raw, 1, pcol}}, int(eline), int(ecol+1), int(res.plus.OpPos.Line), int(res.plus.OpPos.Col))
		if res.plus.OpPos.Line == eline && res.plus.OpPos.Col == ecol+1 {
			cls = positionClass(text, []token{{lc.raw, 1, pcol}}, int(eline), int(ecol+3), int(y.NamePos.Line), int(y.NamePos.Col))
		}
		return fail("C14 position "+cls, fmt.Sprintf("after literal %q the tokens '+' and 'y' are at %d:%d and %d:%d, reported at %d:%d and %d:%d",
			lc.raw, eline, ecol+1, eline, ecol+3, res.plus.OpPos.Line, res.plus.OpPos.Col, y.NamePos.Line, y.NamePos.Col))
	}
	if report {
		switch lc.mode {
		case mRejectOrExact:
			c.Count("unjudged_non_ascii_escape_in_str_accepted_exact", 1)
		case mRejectOrInf:
			c.Count("unjudged_float_out_of_range_accepted_inf", 1)
		default:
			c.Count("literals_value_exact", 1)
		}
		if lc.tok == syntax.FLOAT && lc.mode == mExact {
			// the two independent float oracles must agree, otherwise the monitor itself is unsound
			if f, err := strconv.ParseFloat(lc.raw, 64); err != nil || math.Float64bits(f) != math.Float64bits(lc.fval) {
				c.Count("float_oracle_disagreement", 1)
			}
		}
		noteLiteral(c, lc)
		if c.WantSample() && len(lc.raw) < 80 && len(lc.kinds) > 2 {
			c.Sample(map[string]any{"arm": "literal", "text": text, "class": lc.class, "expected_value": driver.Truncate(describeValue(lc), 100), "outcome": "value, kind, raw text and positions equal"})
		}
	}
	return ""
}

func noteLiteral(c *driver.Ctx, lc *litCase) {
	for _, k := range lc.kinds {
		c.Cover("literal_forms", k)
	}
	c.DistinctH(driver.Hash64("lit:" + lc.raw))
}

func litKeyClass(lc *litCase) string {
	switch lc.tok {
	case syntax.INT:
		return "int-literal " + strings.TrimPrefix(lc.class, "int ")
	case syntax.FLOAT:
		return "float-literal " + strings.TrimPrefix(lc.class, "float ")
	}
	return lc.class + "-literal"
}

// attribute refines the key of a failing string literal by the kind of the first piece that fails on
// its own (so that one root cause gives one key whatever else the literal contains).
func attribute(c *driver.Ctx, lc *litCase, key string) string {
	if strings.HasPrefix(key, "C14 position") || strings.HasPrefix(key, "C14 parser-panic") {
		return key
	}
	if len(lc.pieces) < 2 || lc.mode == mMustReject {
		if len(lc.pieces) == 1 && lc.mode != mMustReject {
			return key + " " + lc.pieces[0].kind
		}
		return key
	}
	var failing []string
	for _, p := range lc.pieces {
		body, val, out := assemble(nil, lc.flavor, []piece{p})
		one := litCase{tok: lc.tok, raw: lc.flavor.open() + body + lc.flavor.close(), mode: mExact, sval: val, class: lc.class, flavor: lc.flavor, pieces: out}
		if p.high && !lc.flavor.bytes {
			one.mode = mRejectOrExact
		}
		if judgeLiteral(c, &one, "x = ", false) != "" {
			failing = append(failing, p.kind)
		}
	}
	if len(failing) == 0 {
		return key + " combination"
	}
	sort.Strings(failing)
	return key + " " + failing[0]
}

// ---------------------------------------------------------------------------------------------
// gate

func finish(ev map[string]any) (string, bool) {
	cover, _ := ev["cover"].(map[string]map[string]struct{})
	counters, _ := ev["counters"].(map[string]int64)
	var missing []string
	need := func(group string, items ...string) {
		for _, it := range items {
			if _, ok := cover[group][it]; !ok {
				missing = append(missing, group+":"+it)
			}
		}
	}
	for _, p := range nestPositions {
		for _, ch := range nestChildren {
			need("operator_pairs", pairName(p, ch))
		}
	}
	need("layouts", "plain", "minimal-parens", "redundant-parens")
	need("layout_features", "backslash-continuation", "newline-inside-brackets", "comment", "non-ascii-comment", "tab", "tab-indentation", "trailing-comma", "semicolon",
		"one-line-suite", "redundant-parentheses", "blank-or-comment-lines-between-statements", "multi-line-token", "slice-second-colon-without-step", "adjacent-tokens", "extra-blanks", "comment-inside-brackets")
	var kinds []string
	for _, op := range []string{"or", "and", "==", "!=", "<", ">", "<=", ">=", "in", "not in", "|", "^", "&", "<<", ">>", "+", "-", "*", "/", "//", "%"} {
		kinds = append(kinds, "BinaryExpr "+op)
	}
	for _, op := range []string{"+", "-", "~", "not"} {
		kinds = append(kinds, "UnaryExpr "+op)
	}
	for _, lo := range []bool{false, true} {
		for _, hi := range []bool{false, true} {
			for _, st := range []bool{false, true} {
				kinds = append(kinds, fmt.Sprintf("SliceExpr lo=%v hi=%v step=%v", lo, hi, st))
			}
		}
	}
	for _, op := range []string{"=", "+=", "-=", "*=", "/=", "//=", "%=", "&=", "|=", "^=", "<<=", ">>="} {
		kinds = append(kinds, "AssignStmt op "+op)
	}
	for _, t := range []string{"Ident", "IndexExpr", "DotExpr", "TupleExpr", "ListExpr"} {
		kinds = append(kinds, "AssignStmt target "+t+" augmented=false", "AssignStmt target "+t+" augmented=true")
	}
	kinds = append(kinds, "Ident", "Ident non-ASCII", "Literal int", "Literal float", "Literal string", "Literal bytes",
		"ListExpr len=0", "ListExpr len=1", "ListExpr len=2", "DictExpr len=0", "DictExpr len=1", "DictExpr len=2",
		"TupleExpr len=0 bare=false", "TupleExpr len=1 bare=false", "TupleExpr len=2 bare=false", "TupleExpr len=3 bare=false", "TupleExpr len=2 bare=true", "TupleExpr len=3 bare=true",
		"CondExpr", "LambdaExpr params=0", "LambdaExpr params=1", "LambdaExpr params=3", "CallExpr", "IndexExpr", "DotExpr", "ParenExpr", "DictEntry",
		"named-argument-or-default", "star-argument-or-parameter", "starstar-argument-or-parameter", "bare-star-parameter",
		"Comprehension curly=false for=1 if=0", "Comprehension curly=true for=1 if=0", "Comprehension curly=false for=2 if=1", "Comprehension curly=true for=2 if=1", "Comprehension curly=false for=1 if=2",
		"ForClause", "IfClause", "DefStmt params=0", "DefStmt params=1", "DefStmt params=3", "IfStmt no-else", "IfStmt else", "IfStmt elif", "ForStmt", "WhileStmt",
		"BranchStmt break", "BranchStmt continue", "BranchStmt pass", "ReturnStmt value=true", "ReturnStmt value=false", "LoadStmt alias=true", "LoadStmt alias=false", "ExprStmt")
	need("node_kinds", kinds...)
	for _, b := range []string{"decimal", "hex", "octal", "binary"} {
		need("literal_forms", b+" le-63-bits")
	}
	for _, b := range []string{"decimal", "hex"} {
		need("literal_forms", b+" 64-bits", b+" gt-64-bits", b+" gt-256-bits")
	}
	need("literal_forms", "hex-upper-prefix", "hex-lower-prefix", "octal-upper-prefix", "binary-upper-prefix", "hex-digits-upper", "hex-digits-lower", "hex-digits-mixed",
		"hex-leading-zeros", "octal-leading-zeros", "binary-leading-zeros",
		"float I.", "float I.F", "float .F", "float IeX", "float I.eX", "float I.FeX", "float .FeX", "float-17-digits", "float-E-upper", "float-exp-plus", "float-exp-minus",
		"float-exp-leading-zero", "float-int-part-leading-zeros", "float-exponent-near-limit", "float-subnormal", "float-underflow-to-zero")
	for _, fl := range []string{"str", "bytes"} {
		for _, k := range []string{"esc-a", "esc-b", "esc-f", "esc-n", "esc-r", "esc-t", "esc-v", "esc-backslash", "esc-squote", "esc-dquote", "octal1", "octal2", "octal3",
			"hex-lower", "hex-upper", "u4", "U8", "esc-newline", "esc-crlf", "newline", "crlf", "quote-in-triple-1", "quote-in-triple-2", "otherquote", "plain",
			"empty", "squote", "dquote", "triple-squote", "triple-dquote",
			"bad-octal-over-377", "bad-hex", "bad-u-short", "bad-u-surrogate", "bad-U-range", "bad-U-surrogate", "bad-backslash-other", "bad-newline-in-single-quoted", "bad-eof"} {
			need("literal_forms", fl+" "+k)
		}
	}
	need("literal_forms", "bytes octal-high", "bytes hex-high", "str nonascii")
	for _, fl := range []string{"raw-str", "raw-bytes"} {
		for _, k := range []string{"raw-backslash-char", "raw-backslash-quote", "raw-backslash-otherquote", "raw-backslash-backslash", "raw-backslash-newline", "raw-backslash-crlf",
			"newline", "crlf", "quote-in-triple-1", "bad-newline-in-single-quoted", "bad-eof"} {
			need("literal_forms", fl+" "+k)
		}
	}
	need("near_miss_mutations", "delete", "duplicate", "swap-adjacent", "swap-any")
	need("corpora", "errors.star", "scan.star")
	var reasons []string
	if len(missing) > 0 {
		sort.Strings(missing)
		if len(missing) > 25 {
			missing = append(missing[:25], fmt.Sprintf("... and %d more", len(missing)-25))
		}
		reasons = append(reasons, "monitor did not observe: "+strings.Join(missing, ", "))
	}
	if n := counters["float_oracle_disagreement"]; n > 0 {
		reasons = append(reasons, fmt.Sprintf("the two float oracles (exact rational, strconv) disagree on %d literals", n))
	}
	for _, k := range []string{"tree_renderings_agreed", "literals_value_exact", "erroneous_literals_rejected", "near_misses_rejected_by_parser", "near_misses_accepted_same_tokens",
		"near_misses_accepted_then_rejected_by_resolver", "corpus_chunks_rejected_at_annotated_line", "token_positions_checked",
		"parseexpr_valid_agreed", "parseexpr_non_expressions_rejected", "parseexpr_breaks_inside_brackets_agreed", "parseexpr_breaks_outside_brackets_rejected",
		"parseexpr_non_expressions_rejected_through_evaluator_api"} {
		if counters[k] == 0 {
			reasons = append(reasons, "counter "+k+" is zero")
		}
	}
	if len(reasons) > 0 {
		return strings.Join(reasons, "; "), true
	}
	return "", false
}
