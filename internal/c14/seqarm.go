package c14

import (
	"fmt"
	"strings"

	"go.starlark.net/resolve"
	"go.starlark.net/syntax"

	"verif/internal/driver"
	"verif/internal/sl"
)

// Sequence arm: "parameter and argument forms". The parser deliberately accepts a superset of the
// grammar for parameter and argument lists (any order of the five parameter kinds / four argument
// kinds) and documents that the resolver rejects the rest. Every sequence up to a length bound is
// rendered in three syntactic homes (def, lambda, call) and several layouts; the text must be accepted
// by parser+resolver exactly when the sequence is one the specification allows, an accepted text must
// come back as the tree that was rendered (kinds and order of the parameters/arguments), and a
// rejection must carry a position inside the text.
//
// The ordering rules (doc/spec.md "Function definitions" and "Function and method calls"):
//   parameters: required* optional* [ ('*' | '*'name) (required|optional)* ] ['**'name], a bare '*'
//               being followed by at least one more (keyword-only) parameter;
//   arguments:  positional* named* ['*'expr] ['**'expr].

func seqValidParams(seq string) bool {
	i, n := 0, len(seq)
	for i < n && seq[i] == 'r' {
		i++
	}
	for i < n && seq[i] == 'o' {
		i++
	}
	if i < n && (seq[i] == 'S' || seq[i] == 'A') {
		bare := seq[i] == 'S'
		i++
		k := 0
		for i < n && (seq[i] == 'r' || seq[i] == 'o') {
			i++
			k++
		}
		if bare && k == 0 {
			return false
		}
	}
	if i < n && seq[i] == 'K' {
		i++
	}
	return i == n
}

func seqValidArgs(seq string) bool {
	i, n := 0, len(seq)
	for i < n && seq[i] == 'p' {
		i++
	}
	for i < n && seq[i] == 'n' {
		i++
	}
	if i < n && seq[i] == 's' {
		i++
	}
	if i < n && seq[i] == 'k' {
		i++
	}
	return i == n
}

func seqEnumerate(alphabet string, maxLen int, f func(seq string)) {
	var rec func(cur string)
	rec = func(cur string) {
		f(cur)
		if len(cur) == maxLen {
			return
		}
		for _, ch := range alphabet {
			rec(cur + string(ch))
		}
	}
	rec("")
}

// seqLayouts join the items of a list in different ways: sep between items, open/close padding.
var seqLayouts = []struct{ name, open, sep, close string }{
	{"plain", "", ", ", ""},
	{"tight", "", ",", ""},
	{"padded", " ", " , ", " "},
	{"multiline", "\n    ", ",\n    ", "\n"},
	{"comments", " # c\n  ", ", # c\n  ", " # c\n"},
}

func seqKindsOfParams(ps []syntax.Expr) string {
	var b strings.Builder
	for _, p := range ps {
		switch p := p.(type) {
		case *syntax.Ident:
			b.WriteByte('r')
		case *syntax.BinaryExpr:
			b.WriteByte('o')
		case *syntax.UnaryExpr:
			switch {
			case p.Op == syntax.STAR && p.X == nil:
				b.WriteByte('S')
			case p.Op == syntax.STAR:
				b.WriteByte('A')
			case p.Op == syntax.STARSTAR:
				b.WriteByte('K')
			default:
				b.WriteByte('?')
			}
		default:
			b.WriteByte('?')
		}
	}
	return b.String()
}

func seqKindsOfArgs(as []syntax.Expr) string {
	var b strings.Builder
	for _, a := range as {
		switch a := a.(type) {
		case *syntax.BinaryExpr:
			if a.Op == syntax.EQ {
				b.WriteByte('n')
			} else {
				b.WriteByte('p')
			}
		case *syntax.UnaryExpr:
			switch a.Op {
			case syntax.STAR:
				b.WriteByte('s')
			case syntax.STARSTAR:
				b.WriteByte('k')
			default:
				b.WriteByte('p')
			}
		default:
			b.WriteByte('p')
		}
	}
	return b.String()
}

func seqArm(c *driver.Ctx) {
	maxLen := c.Pick(4, 6)
	judge := func(home, seq, layout, text string, want bool, kindsOf func(*syntax.File) string) {
		c.Note("sequence %s %q layout=%s\n%s", home, seq, layout, text)
		nlines := strings.Count(text, "\n")
		var file *syntax.File
		var err error
		if p := sl.Safe(func() { file, err = parseOpts.Parse("q.star", text, 0) }); p != nil {
			c.Violation("C14 parser-panic", fmt.Sprintf("the parser panicked: %v", p), map[string]any{"text": text})
			return
		}
		c.Eval(1)
		c.Distinct("seq/" + home + "/" + seq + "/" + layout)
		c.Cover("sequence_homes", home)
		c.Cover("sequence_layouts", layout)
		detail := map[string]any{"text": text, "home": home, "sequence": seq, "layout": layout, "in_grammar": want}
		if err != nil {
			if bad := checkRejection(err, nlines); bad != "" {
				c.Violation("C14 sequence rejection-without-position", bad, detail)
				return
			}
			if want {
				c.Violation("C14 rejected-valid "+home+"-sequence", fmt.Sprintf("%s list %q is in the grammar but the parser rejects %q: %v", home, seq, text, err), detail)
			}
			c.Count("sequences_rejected_by_parser", 1)
			return
		}
		// the tree must spell the sequence that was written, in order
		if got := kindsOf(file); got != seq {
			c.Violation("C14 sequence tree-differs "+home, fmt.Sprintf("%s list written as %q comes back as %q for %q", home, seq, got, text), detail)
			return
		}
		var rerr error
		if p := sl.Safe(func() {
			rerr = resolve.File(file, func(string) bool { return true }, func(string) bool { return false })
		}); p != nil {
			c.Violation("C14 sequence resolver-panic", fmt.Sprintf("the resolver panicked: %v", p), detail)
			return
		}
		if rerr == nil {
			if !want {
				c.Violation("C14 accepted-outside-grammar "+home+"-sequence", fmt.Sprintf("%s list %q is not in the grammar, yet %q is accepted by parser and resolver", home, seq, text), detail)
			}
			c.Count("sequences_accepted", 1)
			return
		}
		el, ok := rerr.(resolve.ErrorList)
		if !ok || len(el) == 0 {
			c.Violation("C14 sequence rejection-without-position", fmt.Sprintf("resolver error of type %T: %v", rerr, rerr), detail)
			return
		}
		for _, e := range el {
			if !e.Pos.IsValid() || e.Pos.Line < 1 || int(e.Pos.Line) > nlines || e.Pos.Col < 1 {
				c.Violation("C14 sequence rejection-without-position", fmt.Sprintf("resolver error outside the text: %v", e), detail)
				return
			}
		}
		if want {
			c.Violation("C14 rejected-valid "+home+"-sequence", fmt.Sprintf("%s list %q is in the grammar but the resolver rejects %q: %v", home, seq, text, rerr), detail)
		}
		c.Count("sequences_rejected_by_resolver", 1)
	}
	li := 0
	seqEnumerate("roSAK", maxLen, func(seq string) {
		if !c.Take() {
			return
		}
		var ps []string
		for i, ch := range seq {
			switch ch {
			case 'r':
				ps = append(ps, fmt.Sprintf("a%d", i))
			case 'o':
				ps = append(ps, fmt.Sprintf("a%d = %d", i, i))
			case 'S':
				ps = append(ps, "*")
			case 'A':
				ps = append(ps, fmt.Sprintf("*a%d", i))
			case 'K':
				ps = append(ps, fmt.Sprintf("**a%d", i))
			}
		}
		want := seqValidParams(seq)
		for k := 0; k < 2; k++ {
			l := seqLayouts[li%len(seqLayouts)]
			li++
			open, cl := l.open, l.close
			if len(ps) == 0 {
				open, cl = "", ""
			}
			judge("parameter", seq, l.name, "def f("+open+strings.Join(ps, l.sep)+cl+"):\n    pass\n", want, func(f *syntax.File) string {
				if len(f.Stmts) != 1 {
					return "<not one statement>"
				}
				d, ok := f.Stmts[0].(*syntax.DefStmt)
				if !ok {
					return "<not a def>"
				}
				return seqKindsOfParams(d.Params)
			})
			if strings.Contains(l.sep, "\n") {
				continue // a lambda's parameter list is not bracketed: no line breaks
			}
			judge("lambda-parameter", seq, l.name, "f = lambda "+strings.Join(ps, l.sep)+": 0\n", want, func(f *syntax.File) string {
				if len(f.Stmts) != 1 {
					return "<not one statement>"
				}
				a, ok := f.Stmts[0].(*syntax.AssignStmt)
				if !ok {
					return "<not an assignment>"
				}
				lam, ok := a.RHS.(*syntax.LambdaExpr)
				if !ok {
					return "<not a lambda>"
				}
				return seqKindsOfParams(lam.Params)
			})
		}
		c.Count("parameter_sequences", 1)
	})
	seqEnumerate("pnsk", maxLen, func(seq string) {
		if !c.Take() {
			return
		}
		var as []string
		for i, ch := range seq {
			switch ch {
			case 'p':
				as = append(as, fmt.Sprint(i))
			case 'n':
				as = append(as, fmt.Sprintf("n%d = %d", i, i))
			case 's':
				as = append(as, "*[]")
			case 'k':
				as = append(as, "**{}")
			}
		}
		want := seqValidArgs(seq)
		for k := 0; k < 2; k++ {
			l := seqLayouts[li%len(seqLayouts)]
			li++
			open, cl := l.open, l.close
			if len(as) == 0 {
				open, cl = "", ""
			}
			judge("argument", seq, l.name, "x = f("+open+strings.Join(as, l.sep)+cl+")\n", want, func(f *syntax.File) string {
				if len(f.Stmts) != 1 {
					return "<not one statement>"
				}
				a, ok := f.Stmts[0].(*syntax.AssignStmt)
				if !ok {
					return "<not an assignment>"
				}
				call, ok := a.RHS.(*syntax.CallExpr)
				if !ok {
					return "<not a call>"
				}
				return seqKindsOfArgs(call.Args)
			})
		}
		c.Count("argument_sequences", 1)
	})
}
