package c14

import (
	"fmt"
	"math/rand"
	"regexp"
	"strconv"
	"strings"
	"unicode/utf8"

	"go.starlark.net/syntax"

	"verif/internal/driver"
	"verif/internal/gen"
	"verif/internal/sl"
)

var parseOpts = &syntax.FileOptions{Set: true, While: true, TopLevelControl: true, GlobalReassign: true, Recursion: true}

// token as emitted by the renderer (the engine owns the token list; no second scanner is involved).
type token struct {
	text      string
	line, col int32
}

func copyNoParen(m map[*syntax.TupleExpr]bool) map[*syntax.TupleExpr]bool {
	out := make(map[*syntax.TupleExpr]bool, len(m))
	for k, v := range m {
		out[k] = v
	}
	return out
}

// myLayout draws a layout with independent feature probabilities (more varied than gen.RandomLayout).
func myLayout(r *rand.Rand, redundant bool) gen.Layout {
	p := func(max float64) float64 {
		if r.Intn(3) == 0 {
			return 0
		}
		return r.Float64() * max
	}
	l := gen.Layout{ExtraSpace: p(0.4), Tabs: r.Intn(2) == 0, Comments: p(0.35), BlankLines: p(0.4), Continuation: p(0.2),
		BracketBreaks: p(0.5), TrailingComma: p(0.8), Semicolons: p(0.5), OneLineSuites: p(0.6), NonASCII: r.Intn(2) == 0}
	if redundant {
		l.RedundantPar = 0.1 + r.Float64()*0.4
	}
	return l
}

// offsets maps the renderer's (line, rune column) of every token to a byte offset of text, checking
// that the token's text is really there (a guard on the harness' own position bookkeeping).
func offsets(text string, toks []token) ([]int, error) {
	lineStart := []int{0}
	for i := 0; i < len(text); i++ {
		if text[i] == '\n' {
			lineStart = append(lineStart, i+1)
		}
	}
	out := make([]int, len(toks))
	for i, t := range toks {
		if int(t.line) < 1 || int(t.line) > len(lineStart) {
			return nil, fmt.Errorf("token %q: line %d out of range", t.text, t.line)
		}
		off := lineStart[t.line-1]
		for c := int32(1); c < t.col; c++ {
			if off >= len(text) || text[off] == '\n' {
				return nil, fmt.Errorf("token %q: column %d beyond the end of line %d", t.text, t.col, t.line)
			}
			_, sz := utf8.DecodeRuneInString(text[off:])
			off += sz
		}
		if !strings.HasPrefix(text[off:], t.text) {
			return nil, fmt.Errorf("token %q is not at %d:%d", t.text, t.line, t.col)
		}
		out[i] = off
	}
	return out, nil
}

var compoundKw = map[string]bool{"def": true, "if": true, "elif": true, "else": true, "for": true, "while": true}

// layoutFeatures measures which layout devices occur in a rendering, from the gaps between tokens.
func layoutFeatures(text string, toks []token, offs []int, feats map[string]int) {
	depth := 0
	prevEnd := 0
	lineFirst := ""
	lastTok := ""
	for i, t := range toks {
		gap := text[prevEnd:offs[i]]
		newLogical := i == 0
		if i > 0 {
			switch {
			case strings.Contains(gap, "\\\n"):
				feats["backslash-continuation"]++
			case strings.Contains(gap, "\n") && depth > 0:
				feats["newline-inside-brackets"]++
			case strings.Contains(gap, "\n"):
				newLogical = true
				if strings.Count(gap, "\n") > 1 {
					feats["blank-or-comment-lines-between-statements"]++
				}
			}
			if strings.Contains(gap, "#") {
				feats["comment"]++
				if depth > 0 {
					feats["comment-inside-brackets"]++
				}
				for j := 0; j < len(gap); j++ {
					if gap[j] >= 0x80 {
						feats["non-ascii-comment"]++
						break
					}
				}
			}
			if strings.Contains(gap, "\t") {
				feats["tab"]++
			}
			if gap == "" {
				feats["adjacent-tokens"]++
			} else if !strings.Contains(gap, "\n") && len(gap) > 1 {
				feats["extra-blanks"]++
			}
		}
		if newLogical {
			if compoundKw[lineFirst] && lastTok != ":" {
				feats["one-line-suite"]++
			}
			lineFirst = t.text
			if i > 0 {
				ind := gap[strings.LastIndex(gap, "\n")+1:]
				if strings.Contains(ind, "\t") {
					feats["tab-indentation"]++
				}
			}
		}
		switch t.text {
		case "(", "[", "{":
			depth++
		case ")", "]", "}":
			depth--
			if lastTok == "," {
				feats["trailing-comma"]++
			}
		case ";":
			feats["semicolon"]++
		case ":":
			if lastTok == ":" {
				feats["slice-second-colon-without-step"]++
			}
		}
		if strings.Contains(t.text, "\n") {
			feats["multi-line-token"]++
		}
		lastTok = t.text
		prevEnd = offs[i] + len(t.text)
	}
	if compoundKw[lineFirst] && lastTok != ":" {
		feats["one-line-suite"]++
	}
}

var (
	reDigits = regexp.MustCompile(`[0-9]+`)
	reQuoted = regexp.MustCompile(`"(?:[^"\\]|\\.)*"`)
	rePosMsg = regexp.MustCompile(`^(\w+): want (\d+):(\d+), got (\d+):(\d+)$`)
	rePath   = regexp.MustCompile(`\(\*syntax\.(\w+)\)[^/]*$`)
)

func normMsg(s string) string {
	for _, p := range []string{"load operand must be", "original name of loaded symbol must be quoted", "duplicate parameter", "load: names with leading underscores are not exported"} {
		if strings.HasPrefix(s, p) {
			return p
		}
	}
	if i := strings.Index(s, " may not follow **"); i >= 0 {
		s = s[:i] + " may not follow **NAME"
	}
	s = reQuoted.ReplaceAllString(s, "Q")
	s = reDigits.ReplaceAllString(s, "N")
	if len(s) > 90 {
		s = s[:90]
	}
	return s
}

// errMsg strips the position prefix of a syntax.Error.
func errMsg(err error) string {
	if e, ok := err.(syntax.Error); ok {
		return e.Msg
	}
	return err.Error()
}

// mismatchKey derives a stable key from a gen.Compare error ("at /path: message").
func mismatchKey(err error, text string, toks []token) string {
	s := err.Error()
	path, msg := s, s
	if i := strings.Index(s, ": "); i >= 0 {
		path, msg = s[:i], s[i+2:]
	}
	node := "?"
	if m := rePath.FindStringSubmatch(path); m != nil {
		node = m[1]
	} else if j := strings.LastIndex(path, "/"); j >= 0 {
		node = reDigits.ReplaceAllString(path[j+1:], "N")
	}
	if m := rePosMsg.FindStringSubmatch(msg); m != nil {
		var v [4]int
		for i := range v {
			v[i], _ = strconv.Atoi(m[i+2])
		}
		// A reported position that is the start of another token points at the parser (it attached the
		// position of the wrong token); otherwise the scanner's coordinates are off.
		for _, t := range toks {
			if int(t.line) == v[2] && int(t.col) == v[3] {
				return "C14 position of-another-token " + node + "." + m[1]
			}
		}
		return "C14 position " + positionClass(text, toks, v[0], v[1], v[2], v[3])
	}
	cat := msg
	switch {
	case strings.HasPrefix(msg, "want *syntax."):
		cat = "node kind"
	case strings.HasPrefix(msg, "literal \""):
		cat = "literal value"
	case strings.Contains(msg, ": "):
		cat = msg[:strings.Index(msg, ": ")]
	}
	return "C14 tree-mismatch " + node + ": " + normMsg(cat)
}

// firstPos returns the position of the first token of n, derived from the grammar's productions.
func firstPos(n syntax.Node) syntax.Position {
	switch n := n.(type) {
	case *syntax.Ident:
		return n.NamePos
	case *syntax.Literal:
		return n.TokenPos
	case *syntax.ParenExpr:
		return n.Lparen
	case *syntax.ListExpr:
		return n.Lbrack
	case *syntax.DictExpr:
		return n.Lbrace
	case *syntax.Comprehension:
		return n.Lbrack
	case *syntax.DictEntry:
		return firstPos(n.Key)
	case *syntax.TupleExpr:
		if n.Lparen.IsValid() || len(n.List) == 0 {
			return n.Lparen
		}
		return firstPos(n.List[0])
	case *syntax.UnaryExpr:
		return n.OpPos
	case *syntax.BinaryExpr:
		return firstPos(n.X)
	case *syntax.CondExpr:
		return firstPos(n.True)
	case *syntax.LambdaExpr:
		return n.Lambda
	case *syntax.CallExpr:
		return firstPos(n.Fn)
	case *syntax.IndexExpr:
		return firstPos(n.X)
	case *syntax.SliceExpr:
		return firstPos(n.X)
	case *syntax.DotExpr:
		return firstPos(n.X)
	case *syntax.ForClause:
		return n.For
	case *syntax.IfClause:
		return n.If
	case *syntax.AssignStmt:
		return firstPos(n.LHS)
	case *syntax.ExprStmt:
		return firstPos(n.X)
	case *syntax.BranchStmt:
		return n.TokenPos
	case *syntax.DefStmt:
		return n.Def
	case *syntax.IfStmt:
		return n.If
	case *syntax.ForStmt:
		return n.For
	case *syntax.WhileStmt:
		return n.While
	case *syntax.ReturnStmt:
		return n.Return
	case *syntax.LoadStmt:
		return n.Load
	}
	return syntax.Position{}
}

// spanCheck verifies on a parsed tree that every node's Span() starts at its first token, and that
// the parentheses of ParenExpr (erased by the tree comparison) are where the text has them.
func spanCheck(root syntax.Node, tokAt map[[2]int32]string) (n int, bad string) {
	depth, badDepth := 0, -1
	syntax.Walk(root, func(x syntax.Node) bool {
		if x == nil {
			depth--
			return true
		}
		depth++
		if _, ok := x.(*syntax.File); ok {
			return true
		}
		want := firstPos(x)
		if !want.IsValid() {
			return true
		}
		start, end := x.Span()
		n++
		// of several failing nodes the deepest is reported: the outer ones inherit its start
		report := func(msg string) {
			if depth > badDepth {
				bad, badDepth = msg, depth
			}
		}
		if start.Line != want.Line || start.Col != want.Col {
			report(fmt.Sprintf("%T: Span() starts at %d:%d but the node's first token is at %d:%d", x, start.Line, start.Col, want.Line, want.Col))
		} else if end.Line < start.Line || end.Line == start.Line && end.Col <= start.Col {
			report(fmt.Sprintf("%T: Span() end %d:%d is not after its start %d:%d", x, end.Line, end.Col, start.Line, start.Col))
		}
		if p, ok := x.(*syntax.ParenExpr); ok && tokAt != nil {
			if tokAt[[2]int32{p.Lparen.Line, p.Lparen.Col}] != "(" || tokAt[[2]int32{p.Rparen.Line, p.Rparen.Col}] != ")" {
				report(fmt.Sprintf("ParenExpr: parentheses reported at %d:%d and %d:%d, where the text has %q and %q", p.Lparen.Line, p.Lparen.Col, p.Rparen.Line, p.Rparen.Col,
					tokAt[[2]int32{p.Lparen.Line, p.Lparen.Col}], tokAt[[2]int32{p.Rparen.Line, p.Rparen.Col}]))
			}
		}
		return true
	})
	return n, bad
}

type layoutSpec struct {
	name string
	lay  gen.Layout
}

func treeCase(c *driver.Ctx, idx int) {
	r := c.Rand()
	o := treeOpts{budget: 40 + r.Intn(220), exprDepth: 2 + r.Intn(5), stmtDepth: r.Intn(4), multiline: r.Intn(2) == 0, nonASCII: r.Intn(2) == 0}
	g := newTreeGen(r, o)
	var stmts []syntax.Stmt
	var single syntax.Expr
	what := "program"
	if idx%4 == 0 {
		k := idx / 4
		p := nestPositions[k%len(nestPositions)]
		child := nestChildren[(k/len(nestPositions))%len(nestChildren)]
		e := g.nest(p, child, 3+r.Intn(3))
		what = "nest " + pairName(p, child)
		switch r.Intn(6) {
		case 0, 1:
			single = e
		case 2:
			stmts = []syntax.Stmt{&syntax.AssignStmt{Op: syntax.EQ, LHS: g.ident(), RHS: e}}
		case 3:
			stmts = []syntax.Stmt{&syntax.ExprStmt{X: e}}
		case 4:
			stmts = []syntax.Stmt{&syntax.IfStmt{Cond: e, True: []syntax.Stmt{&syntax.ReturnStmt{Result: e2(g)}}}}
		default:
			stmts = []syntax.Stmt{&syntax.ExprStmt{X: &syntax.CallExpr{Fn: g.ident(), Args: []syntax.Expr{e, &syntax.BinaryExpr{Op: syntax.EQ, X: g.ident(), Y: e2(g)}}}}}
		}
	} else {
		stmts = g.program()
	}
	cs := takeCensus(stmts, single, g)
	c.Note("tree %s", what)

	nlay := c.Pick(3, 5)
	specs := []layoutSpec{{"plain", gen.Plain}, {"minimal-parens", myLayout(r, false)}, {"redundant-parens", myLayout(r, true)}}
	for len(specs) < nlay {
		if r.Intn(2) == 0 {
			specs = append(specs, layoutSpec{"profile", gen.RandomLayout(r)})
		} else {
			specs = append(specs, layoutSpec{"random", myLayout(r, r.Intn(2) == 0)})
		}
	}
	plainParens := 0
	ok := true
	var plainText string
	for li, sp := range specs {
		var toks []token
		opt := gen.Options{Layout: sp.lay, Filename: "t.star", NoParen: copyNoParen(g.noParen), Elif: g.elif,
			OnToken: func(s string, p syntax.Position) { toks = append(toks, token{s, p.Line, p.Col}) }}
		var text string
		if p := sl.Safe(func() {
			if single != nil {
				text = gen.RenderExpr(single, r, opt)
			} else {
				text = gen.Render(stmts, r, opt)
			}
		}); p != nil {
			c.Inconclusive("renderer panicked on a generated tree (%s): %v", what, p)
			return
		}
		if li == 0 {
			plainText = text
		}
		offs, err := offsets(text, toks)
		if err != nil {
			c.Inconclusive("renderer bookkeeping is inconsistent (%s): %v", what, err)
			return
		}
		feats := map[string]int{}
		layoutFeatures(text, toks, offs, feats)
		parens := 0
		tokAt := make(map[[2]int32]string, len(toks))
		for _, t := range toks {
			if t.text == "(" {
				parens++
			}
			tokAt[[2]int32{t.line, t.col}] = t.text
		}
		if li == 0 {
			plainParens = parens
		} else if parens > plainParens {
			feats["redundant-parentheses"]++
		}
		detail := func(extra map[string]any) map[string]any {
			extra["text"] = text
			extra["layout"] = fmt.Sprintf("%s %+v", sp.name, sp.lay)
			extra["tree"] = what
			extra["plain_rendering"] = plainText
			return extra
		}

		var file *syntax.File
		var expr syntax.Expr
		var perr error
		if p := sl.Safe(func() {
			if single != nil {
				expr, perr = parseOpts.ParseExpr("t.star", text, 0)
			} else {
				file, perr = parseOpts.Parse("t.star", text, 0)
			}
		}); p != nil {
			c.Violation("C14 parser-panic", fmt.Sprintf("the parser panicked on a grammatical text: %v", p), detail(map[string]any{"panic": p.String()}))
			ok = false
			continue
		}
		c.Eval(1)
		c.Count("tree_renderings_parsed", 1)
		if perr != nil {
			c.Violation(rejectKey(perr, toks),
				fmt.Sprintf("a text rendered from a syntax tree (%s, layout %s) is rejected: %v", what, sp.name, perr), detail(map[string]any{"error": perr.Error()}))
			ok = false
			continue
		}
		var cerr error
		if single != nil {
			cerr = gen.CompareExpr(single, expr, gen.CompareOpts{Positions: true, Raw: true})
		} else {
			cerr = gen.CompareStmts(stmts, file.Stmts, gen.CompareOpts{Positions: true, Raw: true})
		}
		if cerr != nil {
			c.Violation(mismatchKey(cerr, text, toks), fmt.Sprintf("the parsed tree differs from the generated one (%s, layout %s): %v", what, sp.name, cerr), detail(map[string]any{"difference": cerr.Error()}))
			ok = false
			continue
		}
		var root syntax.Node = file
		if single != nil {
			root = expr
		}
		nspan, bad := spanCheck(root, tokAt)
		if bad != "" {
			c.Violation("C14 span-start "+normMsg(strings.SplitN(bad, ":", 2)[0]), fmt.Sprintf("%s (%s, layout %s)", bad, what, sp.name), detail(map[string]any{"span": bad}))
			ok = false
			continue
		}
		c.Count("tree_renderings_agreed", 1)
		c.Count("token_positions_checked", len(toks))
		c.Count("node_span_starts_checked", nspan)
		c.Cover("layouts", sp.name)
		for f := range feats {
			c.Cover("layout_features", f)
		}
		if c.WantSample() && li == 2 && len(text) < 400 {
			c.Sample(map[string]any{"arm": "tree", "tree": what, "layout": sp.name, "text": text, "tokens": len(toks), "outcome": "parsed tree and all positions equal"})
		}
	}
	if ok {
		c.Count("trees_agreed_in_all_layouts", 1)
		c.Count("tree_nodes_compared", cs.nodes*len(specs))
		for k := range cs.kinds {
			c.Cover("node_kinds", k)
		}
		for k := range cs.pairs {
			c.Cover("operator_pairs", k)
		}
		c.Distinct("tree:" + plainText)
	}
}

func e2(g *treeGen) syntax.Expr { return g.expr(2) }

// positionClass names what precedes the first token whose reported position differs from where the
// text has it, so that one cause of wrong coordinates gives one violation key whichever node it hits.
func positionClass(text string, toks []token, wantLine, wantCol, gotLine, gotCol int) string {
	lines := strings.Split(text, "\n")
	if wantLine < 1 || wantLine > len(lines) {
		return "unknown"
	}
	if gotLine == 0 && gotCol == 0 {
		return "missing"
	}
	if gotLine != wantLine {
		best, class := 0, "line"
		inside := map[int]bool{} // physical lines that end inside a multi-line token
		for _, t := range toks {
			if n := strings.Count(t.text, "\n"); n > 0 {
				for l := int(t.line); l < int(t.line)+n; l++ {
					inside[l] = true
				}
				if end := int(t.line) + n; end <= wantLine && end > best {
					best, class = end, "line-after-multi-line-token"
					if strings.Contains(t.text, "\r") {
						class = "line-after-multi-line-token-with-CRLF"
					}
				}
			}
		}
		for l := wantLine - 1; l >= 1; l-- {
			if strings.HasSuffix(lines[l-1], "\\") && !inside[l] {
				if l+1 > best {
					class = "line-after-backslash-continuation"
				}
				break
			}
		}
		return class
	}
	pre := []rune(lines[wantLine-1])
	if wantCol-1 <= len(pre) {
		pre = pre[:wantCol-1]
	}
	tab, wide := false, false
	for _, c := range pre {
		if c == '\t' {
			tab = true
		}
		if c >= 0x80 {
			wide = true
		}
	}
	switch {
	case tab && wide:
		return "column-after-tab-and-non-ascii"
	case tab:
		return "column-after-tab"
	case wide:
		return "column-after-non-ascii"
	}
	return "column"
}

var reGotWant = regexp.MustCompile(`^got (.*?)( after expression)?, want `)

// rejectKey names the rejection of a grammatical text: by the kind of token inside which the error
// is reported (then the scanner split a token), otherwise by the unexpected token or the message.
func rejectKey(err error, toks []token) string {
	const pre = "C14 reject grammatical-text: "
	if e, ok := err.(syntax.Error); ok {
		for _, t := range toks {
			if !strings.Contains(t.text, "\n") && t.line == e.Pos.Line && t.col < e.Pos.Col && e.Pos.Col < t.col+int32(utf8.RuneCountInString(t.text)) {
				return pre + "error inside " + tokClass(t.text) + " token"
			}
		}
		if m := reGotWant.FindStringSubmatch(e.Msg); m != nil {
			got := strings.Trim(m[1], "'")
			switch {
			case keywords[got] || strings.ContainsAny(got, "()[]{}"):
			case got == "newline" || got == "outdent" || got == "indent" || got == "end of file":
				got = "end of line"
			case strings.HasSuffix(got, "literal") || got == "":
				got = "literal"
			case got != "identifier":
				got = "operator or punctuation"
			}
			return pre + "unexpected " + got
		}
		for _, t := range toks {
			if t.line == e.Pos.Line && t.col == e.Pos.Col {
				if cl := tokClass(t.text); cl == "STRING" || cl == "NUMBER" {
					return pre + "error at " + cl + " token"
				}
			}
		}
	}
	return pre + normMsg(errMsg(err))
}
