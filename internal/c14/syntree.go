package c14

// A generator of *syntactic* trees: every expression and statement form of the grammar in
// doc/spec.md / syntax/grammar.txt, with no regard to static or dynamic validity (names are
// unbound, `return` appears at top level, parameters come in any order: those are resolver rules,
// not grammar rules). The trees are go.starlark.net/syntax nodes rendered by verif/internal/gen.

import (
	"fmt"
	"math/big"
	"math/rand"

	"go.starlark.net/syntax"
)

type treeOpts struct {
	budget    int  // soft bound on the number of nodes
	exprDepth int  // maximal expression nesting
	stmtDepth int  // maximal statement nesting
	multiline bool // allow string literals that span lines
	nonASCII  bool // non-ASCII identifiers and string contents
}

type treeGen struct {
	r       *rand.Rand
	o       treeOpts
	left    int
	noParen map[*syntax.TupleExpr]bool
	elif    map[*syntax.IfStmt]bool
}

func newTreeGen(r *rand.Rand, o treeOpts) *treeGen {
	return &treeGen{r: r, o: o, left: o.budget, noParen: map[*syntax.TupleExpr]bool{}, elif: map[*syntax.IfStmt]bool{}}
}

var identPool = []string{"a", "b", "c", "x", "y", "z", "f", "g", "r", "rb", "foo", "_", "_x1", "Bar9", "x_y", "i", "n", "None", "True", "print", "len", "e5", "o7", "xF", "é", "名前", "Ωmega", "ß2"}

func (g *treeGen) name() string {
	n := len(identPool)
	if !g.o.nonASCII {
		n -= 4
	}
	return identPool[g.r.Intn(n)]
}

func (g *treeGen) ident() *syntax.Ident { return &syntax.Ident{Name: g.name()} }

// ---- operator levels (doc/spec.md "Binary operators", lowest first; `not`, conditional and lambda as in Python) ----

var levelNames = []string{"or", "and", "not", "cmp", "pipe", "caret", "amp", "shift", "add", "mul", "unary", "cond", "lambda", "primary"}

var binLevels = map[string][]syntax.Token{
	"or":    {syntax.OR},
	"and":   {syntax.AND},
	"cmp":   {syntax.EQL, syntax.NEQ, syntax.LT, syntax.GT, syntax.LE, syntax.GE, syntax.IN, syntax.NOT_IN},
	"pipe":  {syntax.PIPE},
	"caret": {syntax.CIRCUMFLEX},
	"amp":   {syntax.AMP},
	"shift": {syntax.LTLT, syntax.GTGT},
	"add":   {syntax.PLUS, syntax.MINUS},
	"mul":   {syntax.STAR, syntax.SLASH, syntax.SLASHSLASH, syntax.PERCENT},
}
var binLevelOrder = []string{"or", "and", "cmp", "pipe", "caret", "amp", "shift", "add", "mul"}

func levelOfOp(op syntax.Token) string {
	for l, ops := range binLevels {
		for _, o := range ops {
			if o == op {
				return l
			}
		}
	}
	return "?"
}

func levelOf(e syntax.Expr) string {
	switch e := e.(type) {
	case *syntax.BinaryExpr:
		return levelOfOp(e.Op)
	case *syntax.UnaryExpr:
		if e.Op == syntax.NOT {
			return "not"
		}
		return "unary"
	case *syntax.CondExpr:
		return "cond"
	case *syntax.LambdaExpr:
		return "lambda"
	}
	return "primary"
}

// ---- expressions ----

func (g *treeGen) leaf() syntax.Expr {
	g.left--
	switch x := g.r.Intn(100); {
	case x < 55:
		return g.ident()
	case x < 90:
		return g.literal()
	case x < 93:
		return &syntax.ListExpr{}
	case x < 96:
		return &syntax.DictExpr{}
	default:
		return &syntax.TupleExpr{}
	}
}

func (g *treeGen) literal() *syntax.Literal {
	r := g.r
	switch x := r.Intn(100); {
	case x < 35:
		var lc litCase
		for {
			lc = genInt(r)
			// Octal and binary spellings above 63 bits are the subject of a separate finding of the
			// literal arm; the tree arm stays clear of them so that it can judge everything else.
			if lc.bits <= 63 || lc.class == "int decimal" || lc.class == "int hex" {
				break
			}
		}
		if r.Intn(2) == 0 {
			n := int64(r.Intn(1000))
			return &syntax.Literal{Token: syntax.INT, Value: n, Raw: fmt.Sprint(n)}
		}
		var v any = lc.ival
		if lc.ival.IsInt64() {
			v = lc.ival.Int64()
		} else {
			v = new(big.Int).Set(lc.ival)
		}
		return &syntax.Literal{Token: syntax.INT, Value: v, Raw: lc.raw}
	case x < 50:
		for {
			lc := genFloat(r)
			if lc.mode == mExact {
				return &syntax.Literal{Token: syntax.FLOAT, Value: lc.fval, Raw: lc.raw}
			}
		}
	default:
		f := randFlavor(r)
		if !g.o.multiline {
			f.triple = f.triple && r.Intn(2) == 0
		}
		lc := genString(r, f, strOpts{allowCR: false, allowNewline: g.o.multiline, onlyExact: true, nonASCII: g.o.nonASCII})
		return &syntax.Literal{Token: lc.tok, Value: lc.sval, Raw: lc.raw}
	}
}

func (g *treeGen) exprs(d, min, max int) []syntax.Expr {
	n := min + g.r.Intn(max-min+1)
	var l []syntax.Expr
	for i := 0; i < n; i++ {
		l = append(l, g.expr(d))
	}
	return l
}

// bareTuple returns an unparenthesised tuple of at least two components (Expression = Test {',' Test};
// a trailing comma is not permitted outside brackets, so a bare 1-tuple does not exist).
func (g *treeGen) bareTuple(d int) *syntax.TupleExpr {
	t := &syntax.TupleExpr{List: g.exprs(d, 2, 3)}
	g.noParen[t] = true
	return t
}

// expression returns an Expression: a Test or, sometimes, an unparenthesised tuple.
func (g *treeGen) expression(d int) syntax.Expr {
	if g.r.Intn(6) == 0 {
		return g.bareTuple(d - 1)
	}
	return g.expr(d)
}

func (g *treeGen) binary(level string, d int) *syntax.BinaryExpr {
	ops := binLevels[level]
	return &syntax.BinaryExpr{Op: ops[g.r.Intn(len(ops))], X: g.expr(d - 1), Y: g.expr(d - 1)}
}

// ofLevel returns an expression whose outermost operator has the given level.
func (g *treeGen) ofLevel(level string, d int) syntax.Expr {
	g.left--
	switch level {
	case "not":
		return &syntax.UnaryExpr{Op: syntax.NOT, X: g.expr(d - 1)}
	case "unary":
		return &syntax.UnaryExpr{Op: []syntax.Token{syntax.PLUS, syntax.MINUS, syntax.TILDE}[g.r.Intn(3)], X: g.expr(d - 1)}
	case "cond":
		return &syntax.CondExpr{True: g.expr(d - 1), Cond: g.expr(d - 1), False: g.expr(d - 1)}
	case "lambda":
		return &syntax.LambdaExpr{Params: g.params(d-1, true), Body: g.expr(d - 1)}
	case "primary":
		return g.primary(d)
	}
	return g.binary(level, d)
}

// target returns an expression usable as an assignment / loop target (PrimaryExpr forms).
func (g *treeGen) target(d int) syntax.Expr {
	g.left--
	switch x := g.r.Intn(100); {
	case x < 50 || d <= 0:
		return g.ident()
	case x < 62:
		return &syntax.IndexExpr{X: g.primary(d - 1), Y: g.expr(d - 1)}
	case x < 74:
		return &syntax.DotExpr{X: g.primary(d - 1), Name: g.ident()}
	case x < 84:
		t := &syntax.TupleExpr{}
		for i, n := 0, 1+g.r.Intn(3); i < n; i++ {
			t.List = append(t.List, g.target(d-1))
		}
		return t
	case x < 92:
		l := &syntax.ListExpr{}
		for i, n := 0, g.r.Intn(3); i < n; i++ {
			l.List = append(l.List, g.target(d-1))
		}
		return l
	case x < 96:
		return &syntax.SliceExpr{X: g.primary(d - 1), Lo: g.opt(d - 1), Hi: g.opt(d - 1)}
	default:
		return &syntax.CallExpr{Fn: g.primary(d - 1), Args: g.args(d - 1)}
	}
}

// loopVars: LoopVariables = PrimaryExpr {',' PrimaryExpr}
func (g *treeGen) loopVars(d int) syntax.Expr {
	if g.r.Intn(3) == 0 {
		t := &syntax.TupleExpr{}
		for i, n := 0, 2+g.r.Intn(2); i < n; i++ {
			t.List = append(t.List, g.target(d-1))
		}
		g.noParen[t] = true
		return t
	}
	return g.target(d)
}

func (g *treeGen) opt(d int) syntax.Expr {
	if g.r.Intn(2) == 0 {
		return nil
	}
	return g.expr(d)
}

// params: Parameter = identifier | identifier '=' Test | '*' | '*' identifier | '**' identifier.
// "The grammar does not enforce the legal order of params": mostly the conventional order, sometimes any.
func (g *treeGen) params(d int, lambda bool) []syntax.Expr {
	r := g.r
	var ps []syntax.Expr
	plain := func() syntax.Expr { return g.ident() }
	dflt := func() syntax.Expr {
		return &syntax.BinaryExpr{Op: syntax.EQ, X: g.ident(), Y: g.expr(d - 1)}
	}
	star := func() syntax.Expr { return &syntax.UnaryExpr{Op: syntax.STAR, X: g.ident()} }
	bare := func() syntax.Expr { return &syntax.UnaryExpr{Op: syntax.STAR} }
	kw := func() syntax.Expr { return &syntax.UnaryExpr{Op: syntax.STARSTAR, X: g.ident()} }
	if r.Intn(8) == 0 {
		for i, n := 0, r.Intn(5); i < n; i++ {
			ps = append(ps, []func() syntax.Expr{plain, dflt, star, bare, kw}[r.Intn(5)]())
		}
		return ps
	}
	for i, n := 0, r.Intn(3); i < n; i++ {
		ps = append(ps, plain())
	}
	for i, n := 0, r.Intn(3); i < n && r.Intn(2) == 0; i++ {
		ps = append(ps, dflt())
	}
	switch r.Intn(4) {
	case 0:
		ps = append(ps, star())
	case 1:
		ps = append(ps, bare())
		ps = append(ps, []func() syntax.Expr{plain, dflt}[r.Intn(2)]())
	}
	if n := len(ps); n > 0 && isStar(ps[n-1]) {
		for i, n := 0, r.Intn(3); i < n; i++ {
			ps = append(ps, []func() syntax.Expr{plain, dflt}[r.Intn(2)]())
		}
	}
	if r.Intn(3) == 0 {
		ps = append(ps, kw())
	}
	return ps
}

func isStar(e syntax.Expr) bool {
	u, ok := e.(*syntax.UnaryExpr)
	return ok && u.Op == syntax.STAR
}

// args: Argument = Test | identifier '=' Test | '*' Test | '**' Test (any order: "does not enforce the legal order")
func (g *treeGen) args(d int) []syntax.Expr {
	r := g.r
	var as []syntax.Expr
	pos := func() syntax.Expr { return g.expr(d - 1) }
	named := func() syntax.Expr { return &syntax.BinaryExpr{Op: syntax.EQ, X: g.ident(), Y: g.expr(d - 1)} }
	star := func() syntax.Expr { return &syntax.UnaryExpr{Op: syntax.STAR, X: g.expr(d - 1)} }
	kw := func() syntax.Expr { return &syntax.UnaryExpr{Op: syntax.STARSTAR, X: g.expr(d - 1)} }
	if r.Intn(8) == 0 {
		for i, n := 0, r.Intn(5); i < n; i++ {
			as = append(as, []func() syntax.Expr{pos, named, star, kw}[r.Intn(4)]())
		}
		return as
	}
	for i, n := 0, r.Intn(3); i < n; i++ {
		as = append(as, pos())
	}
	for i, n := 0, r.Intn(3); i < n && r.Intn(2) == 0; i++ {
		as = append(as, named())
	}
	if r.Intn(5) == 0 {
		as = append(as, star())
	}
	if r.Intn(5) == 0 {
		as = append(as, kw())
	}
	return as
}

func (g *treeGen) clauses(d int) []syntax.Node {
	var cs []syntax.Node
	cs = append(cs, &syntax.ForClause{Vars: g.loopVars(d - 1), X: g.expr(d - 1)})
	for i, n := 0, g.r.Intn(4); i < n; i++ {
		if g.r.Intn(2) == 0 {
			cs = append(cs, &syntax.ForClause{Vars: g.loopVars(d - 1), X: g.expr(d - 1)})
		} else {
			cs = append(cs, &syntax.IfClause{Cond: g.expr(d - 1)})
		}
	}
	return cs
}

// primary returns a PrimaryExpr (operand with suffixes).
func (g *treeGen) primary(d int) syntax.Expr {
	if d <= 0 || g.left <= 0 {
		return g.leaf()
	}
	g.left--
	r := g.r
	switch x := r.Intn(100); {
	case x < 22:
		return g.leaf()
	case x < 36:
		return &syntax.CallExpr{Fn: g.primary(d - 1), Args: g.args(d)}
	case x < 46:
		y := g.expr(d - 1)
		if r.Intn(5) == 0 {
			y = g.bareTuple(d - 1)
		}
		return &syntax.IndexExpr{X: g.primary(d - 1), Y: y}
	case x < 56:
		s := &syntax.SliceExpr{X: g.primary(d - 1), Lo: g.opt(d - 1), Hi: g.opt(d - 1), Step: g.opt(d - 1)}
		if s.Lo != nil && r.Intn(8) == 0 {
			s.Lo = g.bareTuple(d - 1) // SliceSuffix = '[' [Expression] ...
		}
		return s
	case x < 68:
		return &syntax.DotExpr{X: g.primary(d - 1), Name: g.ident()}
	case x < 76:
		return &syntax.ListExpr{List: g.exprs(d-1, 0, 3)}
	case x < 82:
		de := &syntax.DictExpr{}
		for i, n := 0, r.Intn(4); i < n; i++ {
			de.List = append(de.List, &syntax.DictEntry{Key: g.expr(d - 1), Value: g.expr(d - 1)})
		}
		return de
	case x < 89:
		return &syntax.TupleExpr{List: g.exprs(d-1, 0, 3)}
	case x < 94:
		return &syntax.Comprehension{Body: g.expr(d - 1), Clauses: g.clauses(d)}
	case x < 98:
		return &syntax.Comprehension{Curly: true, Body: &syntax.DictEntry{Key: g.expr(d - 1), Value: g.expr(d - 1)}, Clauses: g.clauses(d)}
	default:
		return &syntax.ParenExpr{X: g.expr(d - 1)}
	}
}

// expr returns a Test.
func (g *treeGen) expr(d int) syntax.Expr {
	if d <= 0 || g.left <= 0 {
		return g.leaf()
	}
	r := g.r
	switch x := r.Intn(100); {
	case x < 14:
		return g.leaf()
	case x < 46:
		return g.ofLevel(binLevelOrder[r.Intn(len(binLevelOrder))], d)
	case x < 52:
		return g.ofLevel("unary", d)
	case x < 57:
		return g.ofLevel("not", d)
	case x < 63:
		return g.ofLevel("cond", d)
	case x < 67:
		return g.ofLevel("lambda", d)
	default:
		return g.primary(d)
	}
}

// ---- statements ----

var augOps = []syntax.Token{syntax.PLUS_EQ, syntax.MINUS_EQ, syntax.STAR_EQ, syntax.SLASH_EQ, syntax.SLASHSLASH_EQ, syntax.PERCENT_EQ,
	syntax.AMP_EQ, syntax.PIPE_EQ, syntax.CIRCUMFLEX_EQ, syntax.LTLT_EQ, syntax.GTGT_EQ}

func (g *treeGen) lhs(d int) syntax.Expr {
	switch x := g.r.Intn(100); {
	case x < 70:
		return g.target(d)
	case x < 85: // a, b = ...
		t := &syntax.TupleExpr{}
		for i, n := 0, 2+g.r.Intn(2); i < n; i++ {
			t.List = append(t.List, g.target(d-1))
		}
		g.noParen[t] = true
		return t
	default: // AssignStmt = Expression '=' Expression: any expression (the resolver restricts it)
		return g.expression(d)
	}
}

func (g *treeGen) block(sd int) []syntax.Stmt {
	var out []syntax.Stmt
	for i, n := 0, 1+g.r.Intn(3); i < n; i++ {
		out = append(out, g.stmt(sd))
	}
	return out
}

func (g *treeGen) ifStmt(sd int) *syntax.IfStmt {
	s := &syntax.IfStmt{Cond: g.expr(g.o.exprDepth - 2), True: g.block(sd - 1)}
	switch g.r.Intn(4) {
	case 0: // no else
	case 1:
		s.False = g.block(sd - 1)
	default: // elif chain
		inner := g.ifStmt(sd)
		g.elif[inner] = true
		s.False = []syntax.Stmt{inner}
	}
	return s
}

func (g *treeGen) stmt(sd int) syntax.Stmt {
	r := g.r
	ed := g.o.exprDepth
	g.left--
	x := r.Intn(100)
	if (sd <= 0 || g.left <= 0) && x >= 58 && x < 88 {
		x = r.Intn(58)
	}
	switch {
	case x < 22:
		return &syntax.AssignStmt{Op: syntax.EQ, LHS: g.lhs(ed - 1), RHS: g.expression(ed)}
	case x < 32:
		return &syntax.AssignStmt{Op: augOps[r.Intn(len(augOps))], LHS: g.lhs(ed - 1), RHS: g.expression(ed)}
	case x < 46:
		return &syntax.ExprStmt{X: g.expression(ed)}
	case x < 52:
		if r.Intn(3) == 0 {
			return &syntax.ReturnStmt{}
		}
		return &syntax.ReturnStmt{Result: g.expression(ed)}
	case x < 58:
		return &syntax.BranchStmt{Token: []syntax.Token{syntax.BREAK, syntax.CONTINUE, syntax.PASS}[r.Intn(3)]}
	case x < 66:
		return &syntax.DefStmt{Name: g.ident(), Params: g.params(ed-2, false), Body: g.block(sd - 1)}
	case x < 76:
		return g.ifStmt(sd)
	case x < 84:
		return &syntax.ForStmt{Vars: g.loopVars(ed - 2), X: g.expression(ed - 1), Body: g.block(sd - 1)}
	case x < 88:
		return &syntax.WhileStmt{Cond: g.expr(ed - 1), Body: g.block(sd - 1)}
	default:
		if r.Intn(3) != 0 {
			return &syntax.ExprStmt{X: g.expr(ed)}
		}
		s := &syntax.LoadStmt{Module: &syntax.Literal{Token: syntax.STRING, Value: "m.star", Raw: `"m.star"`}}
		for i, n := 0, 1+r.Intn(3); i < n; i++ {
			from := &syntax.Ident{Name: g.name()}
			to := from
			if r.Intn(2) == 0 {
				to = &syntax.Ident{Name: g.name() + "2"}
			}
			s.From = append(s.From, from)
			s.To = append(s.To, to)
		}
		return s
	}
}

func (g *treeGen) program() []syntax.Stmt {
	var out []syntax.Stmt
	for i, n := 0, 1+g.r.Intn(4); i < n; i++ {
		out = append(out, g.stmt(g.o.stmtDepth))
	}
	return out
}

// ---- systematic operator nests ----

// A position in which an operand can stand.
type nestPos struct {
	parent string // one of binLevelOrder, "not", "unary", "cond", "lambda"
	side   string // L, R (binary); X (not, unary); T, C, F (cond); B (lambda body)
}

var nestPositions, nestChildren = func() ([]nestPos, []string) {
	var ps []nestPos
	for _, l := range binLevelOrder {
		ps = append(ps, nestPos{l, "L"}, nestPos{l, "R"})
	}
	ps = append(ps, nestPos{"not", "X"}, nestPos{"unary", "X"}, nestPos{"cond", "T"}, nestPos{"cond", "C"}, nestPos{"cond", "F"}, nestPos{"lambda", "B"})
	return ps, []string{"or", "and", "not", "cmp", "pipe", "caret", "amp", "shift", "add", "mul", "unary", "cond", "lambda"}
}()

func pairName(p nestPos, child string) string { return p.parent + "." + p.side + ":" + child }

// nest builds the expression with a child of the given level in the given operand position.
func (g *treeGen) nest(p nestPos, child string, d int) syntax.Expr {
	c := g.ofLevel(child, d-1)
	switch p.parent {
	case "not":
		return &syntax.UnaryExpr{Op: syntax.NOT, X: c}
	case "unary":
		return &syntax.UnaryExpr{Op: []syntax.Token{syntax.PLUS, syntax.MINUS, syntax.TILDE}[g.r.Intn(3)], X: c}
	case "cond":
		e := &syntax.CondExpr{True: g.expr(d - 2), Cond: g.expr(d - 2), False: g.expr(d - 2)}
		switch p.side {
		case "T":
			e.True = c
		case "C":
			e.Cond = c
		default:
			e.False = c
		}
		return e
	case "lambda":
		return &syntax.LambdaExpr{Params: g.params(1, true), Body: c}
	}
	b := g.binary(p.parent, d-1)
	if p.side == "L" {
		b.X = c
	} else {
		b.Y = c
	}
	return b
}

// ---- census of a generated tree ----

type census struct {
	kinds map[string]int
	pairs map[string]int
	nodes int
}

func (cs *census) pair(p nestPos, child syntax.Expr) {
	if _, ok := child.(*syntax.ParenExpr); ok {
		return
	}
	l := levelOf(child)
	if l == "primary" {
		return
	}
	cs.pairs[pairName(p, l)]++
}

func takeCensus(stmts []syntax.Stmt, extra syntax.Expr, g *treeGen) *census {
	cs := &census{kinds: map[string]int{}, pairs: map[string]int{}}
	visit := func(n syntax.Node) bool {
		cs.nodes++
		k := fmt.Sprintf("%T", n)[len("*syntax."):]
		switch n := n.(type) {
		case *syntax.BinaryExpr:
			if n.Op == syntax.EQ {
				k = "named-argument-or-default"
				break
			}
			k = "BinaryExpr " + n.Op.String()
			lv := levelOfOp(n.Op)
			cs.pair(nestPos{lv, "L"}, n.X)
			cs.pair(nestPos{lv, "R"}, n.Y)
		case *syntax.UnaryExpr:
			switch {
			case n.Op == syntax.NOT:
				cs.pair(nestPos{"not", "X"}, n.X)
				k = "UnaryExpr not"
			case n.Op == syntax.STAR && n.X == nil:
				k = "bare-star-parameter"
			case n.Op == syntax.STAR:
				k = "star-argument-or-parameter"
			case n.Op == syntax.STARSTAR:
				k = "starstar-argument-or-parameter"
			default:
				cs.pair(nestPos{"unary", "X"}, n.X)
				k = "UnaryExpr " + n.Op.String()
			}
		case *syntax.CondExpr:
			cs.pair(nestPos{"cond", "T"}, n.True)
			cs.pair(nestPos{"cond", "C"}, n.Cond)
			cs.pair(nestPos{"cond", "F"}, n.False)
		case *syntax.LambdaExpr:
			cs.pair(nestPos{"lambda", "B"}, n.Body)
			k = fmt.Sprintf("LambdaExpr params=%d", min(len(n.Params), 3))
		case *syntax.Literal:
			k = "Literal " + map[syntax.Token]string{syntax.INT: "int", syntax.FLOAT: "float", syntax.STRING: "string", syntax.BYTES: "bytes"}[n.Token]
		case *syntax.TupleExpr:
			k = fmt.Sprintf("TupleExpr len=%d bare=%v", min(len(n.List), 3), g != nil && g.noParen[n])
		case *syntax.ListExpr:
			k = fmt.Sprintf("ListExpr len=%d", min(len(n.List), 2))
		case *syntax.DictExpr:
			k = fmt.Sprintf("DictExpr len=%d", min(len(n.List), 2))
		case *syntax.SliceExpr:
			k = fmt.Sprintf("SliceExpr lo=%v hi=%v step=%v", n.Lo != nil, n.Hi != nil, n.Step != nil)
		case *syntax.Comprehension:
			nf, ni := 0, 0
			for _, c := range n.Clauses {
				if _, ok := c.(*syntax.ForClause); ok {
					nf++
				} else {
					ni++
				}
			}
			k = fmt.Sprintf("Comprehension curly=%v for=%d if=%d", n.Curly, min(nf, 3), min(ni, 2))
		case *syntax.AssignStmt:
			cs.kinds["AssignStmt op "+n.Op.String()]++
			k = fmt.Sprintf("AssignStmt target %s augmented=%v", fmt.Sprintf("%T", n.LHS)[len("*syntax."):], n.Op != syntax.EQ)
		case *syntax.ReturnStmt:
			k = fmt.Sprintf("ReturnStmt value=%v", n.Result != nil)
		case *syntax.BranchStmt:
			k = "BranchStmt " + n.Token.String()
		case *syntax.IfStmt:
			switch {
			case n.False == nil:
				k = "IfStmt no-else"
			case len(n.False) == 1 && g != nil && isElif(g, n.False[0]):
				k = "IfStmt elif"
			default:
				k = "IfStmt else"
			}
		case *syntax.DefStmt:
			k = fmt.Sprintf("DefStmt params=%d", min(len(n.Params), 3))
		case *syntax.LoadStmt:
			alias := false
			for i := range n.From {
				if n.From[i].Name != n.To[i].Name {
					alias = true
				}
			}
			k = fmt.Sprintf("LoadStmt alias=%v", alias)
		case *syntax.Ident:
			k = "Ident"
			for _, c := range n.Name {
				if c >= 0x80 {
					k = "Ident non-ASCII"
				}
			}
		}
		cs.kinds[k]++
		return true
	}
	for _, s := range stmts {
		syntax.Walk(s, func(n syntax.Node) bool {
			if n == nil {
				return true
			}
			return visit(n)
		})
	}
	if extra != nil {
		syntax.Walk(extra, func(n syntax.Node) bool {
			if n == nil {
				return true
			}
			return visit(n)
		})
	}
	return cs
}

func isElif(g *treeGen, s syntax.Stmt) bool {
	i, ok := s.(*syntax.IfStmt)
	return ok && g.elif[i]
}
