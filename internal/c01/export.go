package c01

import (
	"fmt"

	"go.starlark.net/starlark"
	"go.starlark.net/syntax"

	"verif/internal/canon"
	"verif/internal/refeval"
	"verif/internal/sl"
)

// Pair runs src through the production pipeline and through the reference evaluator in fresh
// identical environments and reports the first disagreement ("" = none). It is used by other
// engines (C09's dynamic recursion arm) that need the same side-by-side comparison.
func Pair(opts *syntax.FileOptions, src string) (what, desc string, vmOK bool, vmMsg string, vmEvents int, discarded bool) {
	ops := &opcodes{seen: map[uint8]bool{}}
	vm := runVM(opts, "prog.star", src, nil, loaderM, ops, 300000, nil)
	ref := runRef(opts, "prog.star", src, nil, loaderM, 6000000, nil)
	if vm.panic != "" {
		return "vm-panic", vm.panic, false, "", 0, false
	}
	if ref.panic != "" {
		return "HARNESS reference-panic", ref.panic, false, "", 0, false
	}
	if vm.static {
		return "static", vm.msg, false, vm.msg, 0, false
	}
	if vm.fuel || ref.fuel {
		return "", "", false, "", 0, true
	}
	what, desc = compare(vm, ref)
	return what, desc, vm.ok, vm.msg, len(vm.events), false
}

// HostEnvNames lists the predeclared names the generated programs use.
func HostEnvNames() []string { return []string{"t", "tick", "trace", "struct", "obj"} }

// StaticEnv returns an environment (and its event log length accessor) for checking that a
// rejected program runs no code.
func StaticEnv() (starlark.StringDict, func() int, *starlark.Thread) {
	ev := &events{}
	th := newThread(ev, loaderM)
	return hostEnv(ev), func() int { return len(ev.list) }, th
}

// PairCall executes src on both evaluators and then calls the global function fn(arg) from the
// host on a fresh thread (an empty call stack), comparing events and outcome of that call.
func PairCall(opts *syntax.FileOptions, src, fn string, arg int) (what, desc string, vmOK bool, vmMsg string) {
	// production pipeline
	vev := &events{}
	venv := hostEnv(vev)
	vth := newThread(vev, loaderM)
	vth.SetMaxExecutionSteps(300000)
	vg, err := starlark.ExecFileOptions(opts, vth, "prog.star", src, venv)
	if err != nil {
		return "module-failed", err.Error(), false, err.Error()
	}
	// reference evaluator
	rev := &events{}
	renv := hostEnv(rev)
	rth := newThread(rev, loaderM)
	f, err := opts.Parse("prog.star", src, 0)
	if err != nil {
		return "module-failed", err.Error(), false, err.Error()
	}
	in := &refeval.Interp{Opts: opts, Predeclared: renv, Thread: rth, Fuel: 6000000}
	rg, err := in.ExecFile(f)
	if err != nil {
		return "module-failed", err.Error(), false, err.Error()
	}
	if len(vev.list) != len(rev.list) {
		return "events", "module events differ", false, ""
	}
	// the host calls fn on fresh threads
	vth2 := newThread(vev, loaderM)
	vth2.SetMaxExecutionSteps(300000)
	rth2 := newThread(rev, loaderM)
	in.Thread = rth2
	var verr, rerr error
	var vv, rv starlark.Value
	vp := sl.Safe(func() { vv, verr = starlark.Call(vth2, vg[fn], starlark.Tuple{starlark.MakeInt(arg)}, nil) })
	rp := sl.Safe(func() { rv, rerr = starlark.Call(rth2, rg[fn], starlark.Tuple{starlark.MakeInt(arg)}, nil) })
	if vp != nil {
		return "vm-panic", fmt.Sprint(vp.Value), false, ""
	}
	if rp != nil {
		return "HARNESS reference-panic", fmt.Sprint(rp.Value), false, ""
	}
	vm := outcome{ok: verr == nil, events: vev.list}
	ref := outcome{ok: rerr == nil, events: rev.list}
	if verr != nil {
		vm.msg = verr.Error()
		if ee, ok := verr.(*starlark.EvalError); ok {
			vm.msg = ee.Msg
		}
	}
	if rerr != nil {
		ref.msg = rerr.Error()
	}
	if vm.ok && ref.ok {
		vm.globals, ref.globals = canon.ValueOpts(vv, brief), canon.ValueOpts(rv, brief)
	}
	// positions are not compared for host-initiated calls (the reference error may have none)
	vm.line, vm.col, ref.line, ref.col = 0, 0, 0, 0
	what, desc = compare(vm, ref)
	return what, desc, vm.ok, vm.msg
}
