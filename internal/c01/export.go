package c01

import (
	"go.starlark.net/starlark"
	"go.starlark.net/syntax"
)

// Pair runs src through the production pipeline and through the reference evaluator in fresh
// identical environments and reports the first disagreement ("" = none). It is used by other
// engines (C09's dynamic recursion arm) that need the same side-by-side comparison.
func Pair(opts *syntax.FileOptions, src string) (what, desc string, vmOK bool, vmMsg string, vmEvents int, discarded bool) {
	ops := &opcodes{seen: map[uint8]bool{}}
	vm := runVM(opts, "prog.star", src, nil, loaderM, ops, 300000, nil)
	ref := runRef(opts, "prog.star", src, nil, loaderM, 6000000, nil)
	if vm.panic != "" {
		return "vm-panic", vm.panic, false, "", 0, false
	}
	if ref.panic != "" {
		return "HARNESS reference-panic", ref.panic, false, "", 0, false
	}
	if vm.static {
		return "static", vm.msg, false, vm.msg, 0, false
	}
	if vm.fuel || ref.fuel {
		return "", "", false, "", 0, true
	}
	what, desc = compare(vm, ref)
	return what, desc, vm.ok, vm.msg, len(vm.events), false
}

// HostEnvNames lists the predeclared names the generated programs use.
func HostEnvNames() []string { return []string{"t", "tick", "trace", "struct", "obj"} }

// StaticEnv returns an environment (and its event log length accessor) for checking that a
// rejected program runs no code.
func StaticEnv() (starlark.StringDict, func() int, *starlark.Thread) {
	ev := &events{}
	th := newThread(ev, loaderM)
	return hostEnv(ev), func() int { return len(ev.list) }, th
}
