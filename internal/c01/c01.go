// Package c01 monitors property C01: execution through the production pipeline (resolver,
// compiler, VM) agrees with direct evaluation of the syntax tree by the reference evaluator.
package c01

import (
	"bytes"
	"errors"
	"fmt"
	"os"
	"path/filepath"
	"regexp"
	"sort"
	"strings"
	"time"

	"go.starlark.net/starlark"
	"go.starlark.net/starlarkstruct"
	"go.starlark.net/starlarktest"
	"go.starlark.net/syntax"

	"verif/internal/canon"
	"verif/internal/driver"
	"verif/internal/gen"
	"verif/internal/refeval"
	"verif/internal/sl"
)

func init() {
	driver.Register(&driver.Engine{
		ID: "C01", Level: "exploration",
		Rule:        "each case is one program executed twice: by the production pipeline (ExecFileOptions: resolve, compile, VM; every fourth generated program through SourceProgramOptions, Write, CompiledProgram, Init) and by the reference tree evaluator (internal/refeval: own scope analysis, evaluation order, control flow, assignment forms, argument binder, recursion rule; shares only the value library), in fresh identical environments; compared: the sequence of host-visible events (t(tag, v) wrappers around sub-expressions, tick(), trace(), print, load) with canonical argument values, the final module globals, and the outcome (success, or failure at the same source position). Programs: (a) generated (internal/gen: defs, lambdas, closures, comprehensions, loops, break/continue/return, conditional and short-circuit expressions, every assignment form, every call form, load) x option vectors {set, while, recursion, top-level control, global reassign} x random layouts; (b) a fixed module whose functions (direct, mutual, closure, lambda and callback recursion, every parameter kind, loops) are then called by the host with starlark.Call on both sides, under all 32 option vectors, from source and from the compiled form; (c) every chunk of the repository's own starlark/testdata corpus (also the self-validation of the reference evaluator). distinct = distinct program texts that executed >= 12 distinct opcodes and produced >= 1 host event",
		Assumptions: []string{"the shared value library (starlark.Binary/Unary/Compare/Iterate, built-in functions and methods) is outside this comparison: both sides call it", "cases in which either side exhausts its step/fuel budget are discarded and counted"},
		Run:         run,
		MinDistinct: 300,
		// a generated program may double a list in a loop: bound the address space so that such a
		// case ends as an (excluded, counted) out-of-memory death of the child instead of exhausting the machine
		Variants: func(string) []driver.Variant { return []driver.Variant{{Name: "default", VLimitKB: 7 << 20}} },
	})
}

type events struct {
	list []string
	tick int
}

func (ev *events) add(format string, args ...any) {
	if len(ev.list) < 20000 {
		ev.list = append(ev.list, fmt.Sprintf(format, args...))
	}
}

var brief = canon.Opts{FuncBrief: true, MaxNodes: 5000}

func hostEnv(ev *events) starlark.StringDict {
	return starlark.StringDict{
		"t": starlark.NewBuiltin("t", func(_ *starlark.Thread, _ *starlark.Builtin, args starlark.Tuple, _ []starlark.Tuple) (starlark.Value, error) {
			if len(args) != 2 {
				return nil, fmt.Errorf("t: want 2 arguments")
			}
			ev.add("t %s %s", args[0], canon.ValueOpts(args[1], brief))
			return args[1], nil
		}),
		"tick": starlark.NewBuiltin("tick", func(_ *starlark.Thread, _ *starlark.Builtin, args starlark.Tuple, _ []starlark.Tuple) (starlark.Value, error) {
			ev.tick++
			ev.add("tick %d", ev.tick)
			return starlark.MakeInt(ev.tick), nil
		}),
		"trace": starlark.NewBuiltin("trace", func(_ *starlark.Thread, _ *starlark.Builtin, args starlark.Tuple, kwargs []starlark.Tuple) (starlark.Value, error) {
			var parts []string
			for _, a := range args {
				parts = append(parts, canon.ValueOpts(a, brief))
			}
			for _, kv := range kwargs {
				parts = append(parts, string(kv[0].(starlark.String))+"="+canon.ValueOpts(kv[1], brief))
			}
			ev.add("trace %s", strings.Join(parts, " | "))
			return starlark.None, nil
		}),
		"struct": starlark.NewBuiltin("struct", starlarkstruct.Make),
		"obj":    starlark.NewBuiltin("obj", newObj),
	}
}

func newThread(ev *events, loader func(*starlark.Thread, string) (starlark.StringDict, error)) *starlark.Thread {
	th := &starlark.Thread{Name: "c01"}
	th.Print = func(_ *starlark.Thread, msg string) { ev.add("print %s", msg) }
	th.Load = func(t *starlark.Thread, module string) (starlark.StringDict, error) {
		ev.add("load %s", module)
		return loader(t, module)
	}
	return th
}

type outcome struct {
	ok           bool
	msg          string
	line         int32
	col          int32
	static       bool
	fuel         bool
	shared       bool
	kind         string
	spanS, spanE syntax.Position
	globals      string
	events       []string
	steps        uint64
	panic        string
}

var reEntering = regexp.MustCompile(`^function \S+ (missing|accepts|got|takes)|called recursively$|^Starlark stack overflow$`)

// vmFailurePos picks, from the VM's call stack, the position of the failing operation: the
// innermost frame that executes Starlark code of this file; failures raised while a function is
// being entered (argument binding, recursion check) are attributed to the call site below it.
func vmFailurePos(ee *starlark.EvalError, filename string) (int32, int32) {
	var frames []starlark.CallFrame
	for _, fr := range ee.CallStack {
		if fr.Pos.Filename() == filename {
			frames = append(frames, fr)
		}
	}
	if len(frames) == 0 {
		return 0, 0
	}
	i := len(frames) - 1
	top := ee.CallStack[len(ee.CallStack)-1]
	if reEntering.MatchString(ee.Msg) && top.Pos.Filename() == filename && i > 0 {
		// the top frame is the callee that could not be entered
		i--
	}
	return frames[i].Pos.Line, frames[i].Pos.Col
}

type opcodes struct {
	seen     map[uint8]bool
	compiled bool // run from the serialized form: SourceProgramOptions, Write, CompiledProgram, Init
}

func runVM(opts *syntax.FileOptions, filename, src string, extra starlark.StringDict, loader func(*starlark.Thread, string) (starlark.StringDict, error), ops *opcodes, maxSteps uint64, setup func(*starlark.Thread)) outcome {
	ev := &events{}
	env := hostEnv(ev)
	for k, v := range extra {
		env[k] = v
	}
	th := newThread(ev, loader)
	if setup != nil {
		setup(th)
	}
	th.SetMaxExecutionSteps(maxSteps)
	th.SetLocal("c01ops", ops)
	var g starlark.StringDict
	var err error
	p := sl.Safe(func() {
		if ops != nil && ops.compiled {
			var prog *starlark.Program
			if _, prog, err = starlark.SourceProgramOptions(opts, filename, src, func(name string) bool { _, ok := env[name]; return ok }); err != nil {
				return
			}
			var buf bytes.Buffer
			if err = prog.Write(&buf); err != nil {
				err = fmt.Errorf("Program.Write: %v", err)
				return
			}
			if prog, err = starlark.CompiledProgram(&buf); err != nil {
				err = fmt.Errorf("CompiledProgram: %v", err)
				return
			}
			g, err = prog.Init(th, env)
			return
		}
		g, err = starlark.ExecFileOptions(opts, th, filename, src, env)
	})
	o := outcome{events: ev.list, steps: th.ExecutionSteps()}
	if p != nil {
		o.panic = fmt.Sprintf("%v @ %s", p.Value, p.TopFrame())
		return o
	}
	o.globals = canon.GlobalsOpts(g, brief)
	switch e := err.(type) {
	case nil:
		o.ok = true
	case *starlark.EvalError:
		o.msg = e.Msg
		o.line, o.col = vmFailurePos(e, filename)
		if strings.Contains(e.Msg, "Starlark computation cancelled: too many steps") {
			o.fuel = true
		}
	default:
		o.static = true
		o.msg = err.Error()
	}
	return o
}

func runRef(opts *syntax.FileOptions, filename, src string, extra starlark.StringDict, loader func(*starlark.Thread, string) (starlark.StringDict, error), fuel int64, setup func(*starlark.Thread)) outcome {
	ev := &events{}
	env := hostEnv(ev)
	for k, v := range extra {
		env[k] = v
	}
	th := newThread(ev, loader)
	if setup != nil {
		setup(th)
	}
	f, err := opts.Parse(filename, src, 0)
	if err != nil {
		return outcome{static: true, msg: err.Error()}
	}
	in := &refeval.Interp{Opts: opts, Predeclared: env, Thread: th, Fuel: fuel}
	var g starlark.StringDict
	p := sl.Safe(func() { g, err = in.ExecFile(f) })
	o := outcome{events: ev.list}
	if p != nil {
		o.panic = fmt.Sprintf("%v\n%s", p.Value, driver.Truncate(p.Stack, 1500))
		return o
	}
	o.globals = canon.GlobalsOpts(g, brief)
	if err == nil {
		o.ok = true
		return o
	}
	if errors.Is(err, refeval.ErrFuel) {
		o.fuel = true
		return o
	}
	var re *refeval.Error
	if errors.As(err, &re) {
		o.msg, o.line, o.col, o.shared, o.kind = re.Msg, re.Pos.Line, re.Pos.Col, re.Shared, re.Kind
		o.spanS, o.spanE = re.Start, re.End
		return o
	}
	o.msg = "INTERNAL: " + err.Error()
	o.kind = "internal"
	return o
}

// compare returns "" if the two outcomes agree, else a (key suffix, description).
func compare(vm, ref outcome) (string, string) {
	n := len(vm.events)
	if len(ref.events) < n {
		n = len(ref.events)
	}
	for i := 0; i < n; i++ {
		if vm.events[i] != ref.events[i] {
			return "events", fmt.Sprintf("host event #%d differs: VM %q, reference %q", i, driver.Truncate(vm.events[i], 200), driver.Truncate(ref.events[i], 200))
		}
	}
	if len(vm.events) != len(ref.events) {
		return "events", fmt.Sprintf("VM produced %d host events, reference %d (first extra: %q)", len(vm.events), len(ref.events), driver.Truncate(append(vm.events, ref.events...)[n], 200))
	}
	if vm.ok != ref.ok {
		return "outcome", fmt.Sprintf("VM ok=%v (%s at %d:%d), reference ok=%v (%s at %d:%d)", vm.ok, vm.msg, vm.line, vm.col, ref.ok, ref.msg, ref.line, ref.col)
	}
	if !vm.ok && ref.spanE.IsValid() {
		// the exact position of this operation kind is not fixed by the property: it must lie in the span
		after := func(l1, c1, l2, c2 int32) bool { return l1 > l2 || l1 == l2 && c1 >= c2 }
		if after(vm.line, vm.col, ref.spanS.Line, ref.spanS.Col) && after(ref.spanE.Line, ref.spanE.Col, vm.line, vm.col) {
			return "", ""
		}
	}
	if !vm.ok && (vm.line != ref.line || vm.col != ref.col) {
		return "failure-position", fmt.Sprintf("VM fails at %d:%d (%s), reference at %d:%d (%s)", vm.line, vm.col, vm.msg, ref.line, ref.col, ref.msg)
	}
	if !vm.ok && ref.shared && vm.msg != ref.msg {
		return "failure-message", fmt.Sprintf("same position %d:%d but VM says %q, reference (same library call) says %q", vm.line, vm.col, vm.msg, ref.msg)
	}
	if vm.globals != ref.globals {
		return "globals", fmt.Sprintf("final globals differ:\nVM:\n%s\nreference:\n%s", driver.Truncate(vm.globals, 1500), driver.Truncate(ref.globals, 1500))
	}
	return "", ""
}

func loaderM(_ *starlark.Thread, module string) (starlark.StringDict, error) {
	if module == "m.star" {
		return starlark.StringDict{"la": starlark.MakeInt(3), "lb": starlark.MakeInt(4)}, nil
	}
	return nil, fmt.Errorf("no such module %s", module)
}

func run(c *driver.Ctx) {
	starlark.VerifStepHook = func(th *starlark.Thread, fn *starlark.Function, pc uint32, op uint8) {
		if o, _ := th.Local("c01ops").(*opcodes); o != nil {
			o.seen[op] = true
		}
	}
	armCorpus(c)
	armHostCalls(c)
	armGenerated(c)
}

func judge(c *driver.Ctx, arm, family string, opts *syntax.FileOptions, src string, vm, ref outcome, ops *opcodes, feats map[string]int) {
	c.Eval(1)
	detail := map[string]any{"options": sl.OptionsString(opts), "source": src}
	if vm.panic != "" {
		c.Violation("C01 vm-panic "+arm, "the VM pipeline panicked: "+vm.panic, detail)
		return
	}
	if ref.panic != "" {
		c.Violation("C01 HARNESS reference-evaluator-panic", "reference evaluator panicked (harness defect): "+ref.panic, detail)
		return
	}
	if vm.static {
		c.Count(arm+"_static_rejected", 1)
		return
	}
	if vm.fuel || ref.fuel {
		c.Count(arm+"_discarded_fuel", 1)
		return
	}
	c.Count(arm+"_judged", 1)
	c.Count("events_compared", len(vm.events))
	if vm.ok {
		c.Count(arm+"_outcome_ok", 1)
	} else {
		c.Count(arm+"_outcome_error", 1)
		kind := ref.kind
		if kind == "" {
			kind = "?"
		}
		c.Cover("error_kinds", kind)
	}
	for op := range ops.seen {
		c.Cover("opcodes_executed", starlark.VerifOpcodeName(op))
	}
	for f := range feats {
		c.Cover("constructs", f)
	}
	if len(ops.seen) >= 12 && len(vm.events) >= 1 {
		c.DistinctH(driver.Hash64(src))
	}
	if what, desc := compare(vm, ref); what != "" {
		detail["vm_events"] = tail(vm.events, 30)
		detail["ref_events"] = tail(ref.events, 30)
		detail["vm_error"] = fmt.Sprintf("%s @%d:%d", vm.msg, vm.line, vm.col)
		detail["ref_error"] = fmt.Sprintf("%s @%d:%d kind=%s", ref.msg, ref.line, ref.col, ref.kind)
		c.Violation("C01 "+what+" "+family, desc, detail)
	}
	if c.WantSample() && len(vm.events) > 3 {
		c.Sample(map[string]any{"arm": arm, "options": sl.OptionsString(opts), "source": driver.Truncate(src, 600), "events": len(vm.events), "ok": vm.ok, "error": vm.msg, "steps": vm.steps})
	}
}

func tail(l []string, n int) []string {
	if len(l) > n {
		return l[len(l)-n:]
	}
	return l
}

// ---- arm (a): generated programs ----

func armGenerated(c *driver.Ctx) {
	n := c.Pick(4000, 400000)
	for i := 0; i < n; i++ {
		if !c.Take() {
			continue
		}
		r := c.Rand()
		bits := r.Intn(32)
		opts := &syntax.FileOptions{Set: bits&1 != 0, While: bits&2 != 0, TopLevelControl: bits&4 != 0, GlobalReassign: bits&8 != 0, Recursion: bits&16 != 0}
		p := gen.Generate(r, gen.Config{Opts: *opts, Trace: true, Host: true, Loads: true, Templates: true, MaxStmts: 6 + r.Intn(14)})
		src := gen.Render(p.Stmts, r, p.Options(gen.RandomLayout(r)))
		c.Note("key=C01 crash generated\nopts=%s\n%s", sl.OptionsString(opts), src)
		// every fourth program runs from its serialized compiled form (the other way a host runs a program)
		ops := &opcodes{seen: map[uint8]bool{}, compiled: i%4 == 3}
		c.Count(map[bool]string{false: "route_source", true: "route_compiled"}[ops.compiled], 1)
		vm := runVM(opts, "prog.star", src, nil, loaderM, ops, 300000, nil)
		ref := runRef(opts, "prog.star", src, nil, loaderM, 6000000, nil)
		if vm.static {
			c.Violation("C01 HARNESS generator-invalid-program", "generated program rejected statically: "+vm.msg, map[string]any{"source": src, "options": sl.OptionsString(opts)})
			continue
		}
		c.Cover("option_vectors", sl.OptionsString(opts))
		judge(c, "generated", "generated", opts, src, vm, ref, ops, p.Features)
	}
}

// ---- arm (b): the repository's own corpus ----

var reOption = regexp.MustCompile(`(?m)^#\s*option:(\w+)`)

func corpusOptions(src string) *syntax.FileOptions {
	o := &syntax.FileOptions{}
	for _, m := range reOption.FindAllStringSubmatch(src, -1) {
		switch m[1] {
		case "globalreassign":
			o.GlobalReassign = true
		case "loadbindsglobally":
			o.LoadBindsGlobally = true
		case "recursion":
			o.Recursion = true
		case "set":
			o.Set = true
		case "toplevelcontrol":
			o.TopLevelControl = true
		case "while":
			o.While = true
		}
	}
	return o
}

type quietReporter struct{ errs *[]string }

func (q quietReporter) Error(args ...any) { *q.errs = append(*q.errs, fmt.Sprint(args...)) }

func armCorpus(c *driver.Ctx) {
	files, _ := filepath.Glob("/repo/starlark/testdata/*.star")
	sort.Strings(files)
	// the assert module is loaded once per side (it is itself executed by the VM; calling its
	// functions from the reference evaluator goes through starlark.Call)
	skip := map[string]string{"proto.star": "needs a descriptor pool", "benchmark.star": "benchmarks", "paths.star": "benchmark helper"}
	for _, f := range files {
		base := filepath.Base(f)
		b, err := os.ReadFile(f)
		if err != nil {
			continue
		}
		chunks := strings.Split(string(b), "\n---\n")
		for ci, chunk := range chunks {
			if !c.Take() {
				continue
			}
			if _, no := skip[base]; no {
				c.Count("corpus_chunks_skipped", 1)
				continue
			}
			// keep line numbers of the original file
			prefix := strings.Repeat("\n", strings.Count(strings.Join(chunks[:ci], "\n---\n"), "\n")+boolToInt(ci > 0)*2)
			src := prefix + chunk + "\n"
			opts := corpusOptions(chunk)
			loader := func(th *starlark.Thread, module string) (starlark.StringDict, error) {
				if module == "assert.star" {
					return starlarktest.LoadAssertModule()
				}
				return nil, fmt.Errorf("load not implemented")
			}
			var vmAsserts, refAsserts []string
			extra := func() starlark.StringDict {
				return starlark.StringDict{"struct": starlark.NewBuiltin("struct", starlarkstruct.Make)}
			}
			c.Note("key=C01 crash corpus %s\nchunk %d", base, ci)
			ops := &opcodes{seen: map[uint8]bool{}}
			vm := runVM(opts, f, src, extra(), loader, ops, 3000000, func(th *starlark.Thread) { starlarktest.SetReporter(th, quietReporter{&vmAsserts}) })
			if vm.static {
				c.Count("corpus_chunks_static_or_needs_host_values", 1)
				continue
			}
			t0 := time.Now()
			ref := runRef(opts, f, src, extra(), loader, 30000000, func(th *starlark.Thread) { starlarktest.SetReporter(th, quietReporter{&refAsserts}) })
			if d := time.Since(t0); d > 3*time.Second {
				c.Cover("slow_reference_runs(info)", fmt.Sprintf("%s chunk %d: %.0fs", base, ci, d.Seconds()))
			}
			c.Cover("corpus_files", base)
			// Assertions of the corpus about the wording of error messages (assert.fails with a
			// regular expression) are not part of the comparison: the reference evaluator does not
			// reproduce the VM's texts for argument-binding errors and spelling hints.
			semantic := func(l []string) []string {
				var out []string
				for _, a := range l {
					if !strings.Contains(a, "regular expression") {
						out = append(out, a)
					} else {
						c.Count("corpus_message_wording_assertions_ignored", 1)
					}
				}
				return out
			}
			vmAsserts, refAsserts = semantic(vmAsserts), semantic(refAsserts)
			vm.events = append(vm.events, vmAsserts...)
			ref.events = append(ref.events, refAsserts...)
			judge(c, "corpus", "corpus "+base, opts, chunk, vm, ref, ops, nil)
			if len(refAsserts) > 0 && len(vmAsserts) == 0 {
				c.Violation("C01 corpus-assertion "+base, "assertion failed only under the reference evaluator: "+refAsserts[0], map[string]any{"chunk": chunk})
			}
		}
	}
}

func boolToInt(b bool) int {
	if b {
		return 1
	}
	return 0
}
