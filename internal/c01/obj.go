package c01

import (
	"fmt"
	"sort"
	"strings"

	"go.starlark.net/starlark"
)

// mutObj is a host value with assignable fields (x.f = v, x.f += v).
type mutObj struct {
	fields map[string]starlark.Value
	frozen bool
}

var (
	_ starlark.HasSetField = (*mutObj)(nil)
)

func (o *mutObj) String() string {
	var names []string
	for n := range o.fields {
		names = append(names, n)
	}
	sort.Strings(names)
	var b strings.Builder
	b.WriteString("obj(")
	for i, n := range names {
		if i > 0 {
			b.WriteString(", ")
		}
		fmt.Fprintf(&b, "%s=%s", n, o.fields[n].String())
	}
	b.WriteString(")")
	return b.String()
}
func (o *mutObj) Type() string          { return "obj" }
func (o *mutObj) Truth() starlark.Bool  { return true }
func (o *mutObj) Hash() (uint32, error) { return 0, fmt.Errorf("unhashable: obj") }
func (o *mutObj) Freeze() {
	if !o.frozen {
		o.frozen = true
		for _, v := range o.fields {
			v.Freeze()
		}
	}
}
func (o *mutObj) Attr(name string) (starlark.Value, error) { return o.fields[name], nil }
func (o *mutObj) AttrNames() []string {
	var names []string
	for n := range o.fields {
		names = append(names, n)
	}
	sort.Strings(names)
	return names
}
func (o *mutObj) SetField(name string, v starlark.Value) error {
	if o.frozen {
		return fmt.Errorf("cannot set field of frozen obj")
	}
	o.fields[name] = v
	return nil
}

func newObj(*starlark.Thread, *starlark.Builtin, starlark.Tuple, []starlark.Tuple) (starlark.Value, error) {
	return &mutObj{fields: map[string]starlark.Value{}}, nil
}
