package c01

import (
	"fmt"
	"strings"

	"go.starlark.net/starlark"
	"go.starlark.net/syntax"

	"verif/internal/canon"
	"verif/internal/driver"
	"verif/internal/refeval"
	"verif/internal/sl"
)

// Host-call arm: after a module has run, the host calls its functions directly (callback style), so a
// Starlark function is the OUTERMOST frame of the thread instead of being reached from <toplevel>.
// Both pipelines run the module, then the same calls are made on both sides with starlark.Call; the
// events of each call, its result and whether it failed are compared. The functions only trace and
// compute (nothing reachable from the module is mutated: the module's values are frozen on the VM side).

const hostCallSrc = `
def rec(n):
    trace("rec", n)
    if n > 0:
        return rec(n - 1) + 1
    return 0

def even(n):
    trace("even", n)
    return True if n == 0 else odd(n - 1)

def odd(n):
    trace("odd", n)
    return False if n == 0 else even(n - 1)

def viasorted(n):
    trace("viasorted", n)
    return sorted([n], key = lambda x: viasorted(x - 1) if x > 0 else 0)

def viamax(n):
    trace("viamax", n)
    return max([n, n], key = lambda x: viamax(x - 1) if x > 0 else 0)

def mk():
    def inner(n):
        trace("inner", n)
        return inner(n - 1) if n > 0 else 0
    return inner

c1 = mk()
c2 = mk()

def cross(n):
    trace("cross", n)
    return c2(n) if n % 2 else c1(n)

def plain(a, b = 2, *args, k = 5, **kw):
    trace("plain", a, b, args, k, kw)
    return (a, b, args, k, kw)

def looper(xs):
    out = []
    for x in xs:
        if x == 3:
            continue
        if x == 5:
            break
        out.append(t(1, x) * 2)
    return out

lam = lambda n: lam(n - 1) if n > 0 else trace("lam", n)
trace("module done", rec(0), even(0))
`

type hostCall struct {
	fn     string
	args   starlark.Tuple
	kwargs []starlark.Tuple
}

func hostCallList() []hostCall {
	I := starlark.MakeInt
	kw := func(k string, v starlark.Value) starlark.Tuple { return starlark.Tuple{starlark.String(k), v} }
	return []hostCall{
		{"rec", starlark.Tuple{I(0)}, nil}, {"rec", starlark.Tuple{I(1)}, nil}, {"rec", starlark.Tuple{I(3)}, nil},
		{"even", starlark.Tuple{I(1)}, nil}, {"even", starlark.Tuple{I(4)}, nil}, {"odd", starlark.Tuple{I(3)}, nil},
		{"viasorted", starlark.Tuple{I(0)}, nil}, {"viasorted", starlark.Tuple{I(2)}, nil}, {"viamax", starlark.Tuple{I(2)}, nil},
		{"c1", starlark.Tuple{I(0)}, nil}, {"c1", starlark.Tuple{I(2)}, nil}, {"cross", starlark.Tuple{I(1)}, nil}, {"cross", starlark.Tuple{I(2)}, nil},
		{"lam", starlark.Tuple{I(0)}, nil}, {"lam", starlark.Tuple{I(2)}, nil},
		{"plain", starlark.Tuple{I(1)}, nil}, {"plain", nil, nil}, {"plain", starlark.Tuple{I(1), I(2), I(3)}, []starlark.Tuple{kw("k", I(4)), kw("z", I(9))}},
		{"plain", starlark.Tuple{I(1)}, []starlark.Tuple{kw("a", I(4))}},
		{"looper", starlark.Tuple{starlark.NewList([]starlark.Value{I(1), I(3), I(4), I(5), I(6)})}, nil}, {"looper", starlark.Tuple{I(7)}, nil},
		{"rec", starlark.Tuple{I(2)}, nil}, // once more after failures: the thread and the functions stay usable
	}
}

// postCalls makes the calls on th and appends their observations to ev.
func postCalls(th *starlark.Thread, ev *events, g starlark.StringDict) *sl.Panic {
	return sl.Safe(func() {
		for i, hc := range hostCallList() {
			f, ok := g[hc.fn].(starlark.Callable)
			if !ok {
				ev.add("hostcall %d %s: not callable", i, hc.fn)
				continue
			}
			ev.add("hostcall %d %s%s", i, hc.fn, hc.args.String())
			v, err := starlark.Call(th, f, hc.args, hc.kwargs)
			switch {
			case err != nil:
				ev.add("hostcall %d failed", i) // the wording of VM-originated messages is not part of the comparison
			default:
				ev.add("hostcall %d = %s", i, canon.ValueOpts(v, brief))
			}
			if d := th.CallStackDepth(); d != 0 {
				ev.add("hostcall %d left call stack depth %d", i, d)
			}
		}
	})
}

func armHostCalls(c *driver.Ctx) {
	for bits := 0; bits < 32; bits++ {
		if !c.Take() {
			continue
		}
		opts := &syntax.FileOptions{Set: bits&1 != 0, While: bits&2 != 0, TopLevelControl: bits&4 != 0, GlobalReassign: bits&8 != 0, Recursion: bits&16 != 0}
		for _, compiled := range []bool{false, true} {
			c.Note("key=C01 crash host-calls\nopts=%s compiled=%v", sl.OptionsString(opts), compiled)
			// VM side
			vev := &events{}
			venv := hostEnv(vev)
			vth := newThread(vev, loaderM)
			vth.SetMaxExecutionSteps(300000)
			var vg starlark.StringDict
			var verr error
			ops := &opcodes{seen: map[uint8]bool{}}
			vth.SetLocal("c01ops", ops)
			vp := sl.Safe(func() {
				_, prog, err := starlark.SourceProgramOptions(opts, "host.star", hostCallSrc, func(n string) bool { _, ok := venv[n]; return ok })
				if err != nil {
					verr = err
					return
				}
				if compiled {
					var b strings.Builder
					if verr = prog.Write(&b); verr != nil {
						return
					}
					if prog, verr = starlark.CompiledProgram(strings.NewReader(b.String())); verr != nil {
						return
					}
				}
				vg, verr = prog.Init(vth, venv)
			})
			// reference side
			rev := &events{}
			renv := hostEnv(rev)
			rth := newThread(rev, loaderM)
			var rg starlark.StringDict
			var rerr error
			rp := sl.Safe(func() {
				f, err := opts.Parse("host.star", hostCallSrc, 0)
				if err != nil {
					rerr = err
					return
				}
				in := &refeval.Interp{Opts: opts, Predeclared: renv, Thread: rth, Fuel: 6000000}
				rg, rerr = in.ExecFile(f)
			})
			c.Eval(1)
			detail := map[string]any{"options": sl.OptionsString(opts), "compiled": compiled, "source": hostCallSrc}
			if vp != nil || rp != nil || verr != nil || rerr != nil {
				c.Violation("C01 HARNESS host-call module failed", fmt.Sprintf("vm: err=%v panic=%v; reference: err=%v panic=%v", verr, vp, rerr, rp), detail)
				continue
			}
			vp = postCalls(vth, vev, vg)
			rp = postCalls(rth, rev, rg)
			if vp != nil {
				c.Violation("C01 vm-panic host-calls", "the VM panicked in a host-initiated call: "+vp.String(), detail)
				continue
			}
			if rp != nil {
				c.Violation("C01 HARNESS reference-evaluator-panic", "reference evaluator panicked in a host-initiated call: "+rp.String(), detail)
				continue
			}
			c.Count("host_calls_compared", len(hostCallList()))
			c.Cover("host_call_options", sl.OptionsString(opts))
			c.Distinct(fmt.Sprintf("hostcalls/%d/%v", bits, compiled))
			n := len(vev.list)
			if len(rev.list) < n {
				n = len(rev.list)
			}
			diff := ""
			for i := 0; i < n && diff == ""; i++ {
				if vev.list[i] != rev.list[i] {
					diff = fmt.Sprintf("event #%d differs: VM %q, reference %q", i, driver.Truncate(vev.list[i], 200), driver.Truncate(rev.list[i], 200))
				}
			}
			if diff == "" && len(vev.list) != len(rev.list) {
				diff = fmt.Sprintf("VM produced %d events, reference %d (first extra: %q)", len(vev.list), len(rev.list), driver.Truncate(append(vev.list, rev.list...)[n], 200))
			}
			if diff != "" {
				detail["vm_events"], detail["ref_events"] = vev.list, rev.list
				c.Violation("C01 events host-calls", diff, detail)
			}
		}
	}
}
