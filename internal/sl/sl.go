// Package sl holds small helpers shared by the engines for driving the interpreter.
package sl

import (
	"fmt"
	"runtime/debug"
	"strings"

	sjson "go.starlark.net/lib/json"
	smath "go.starlark.net/lib/math"
	stime "go.starlark.net/lib/time"
	"go.starlark.net/starlark"
	"go.starlark.net/starlarkstruct"
	"go.starlark.net/syntax"
)

// AllOptions has every dialect option on.
func AllOptions() *syntax.FileOptions {
	return &syntax.FileOptions{Set: true, While: true, TopLevelControl: true, GlobalReassign: true, LoadBindsGlobally: false, Recursion: true}
}

// OptionsFromBits decodes a 6-bit vector into FileOptions (bit order: Set, While, TopLevelControl, GlobalReassign, LoadBindsGlobally, Recursion).
func OptionsFromBits(b int) *syntax.FileOptions {
	return &syntax.FileOptions{
		Set: b&1 != 0, While: b&2 != 0, TopLevelControl: b&4 != 0,
		GlobalReassign: b&8 != 0, LoadBindsGlobally: b&16 != 0, Recursion: b&32 != 0,
	}
}

func OptionsString(o *syntax.FileOptions) string {
	var p []string
	add := func(on bool, n string) {
		if on {
			p = append(p, n)
		}
	}
	add(o.Set, "set")
	add(o.While, "while")
	add(o.TopLevelControl, "toplevelcontrol")
	add(o.GlobalReassign, "globalreassign")
	add(o.LoadBindsGlobally, "loadbindsglobally")
	add(o.Recursion, "recursion")
	return "{" + strings.Join(p, ",") + "}"
}

// StdModules returns a fresh predeclared environment with json, math, time and struct.
func StdModules() starlark.StringDict {
	return starlark.StringDict{
		"json":   sjson.Module,
		"math":   smath.Module,
		"time":   stime.Module,
		"struct": starlark.NewBuiltin("struct", starlarkstruct.Make),
	}
}

// Panic describes a recovered Go panic.
type Panic struct {
	Value any
	Stack string
}

func (p *Panic) String() string { return fmt.Sprint(p.Value) }

// TopFrame returns the first stack frame inside go.starlark.net of the recovered panic.
func (p *Panic) TopFrame() string {
	for _, l := range strings.Split(p.Stack, "\n") {
		if strings.HasPrefix(l, "go.starlark.net/") {
			if k := strings.LastIndex(l, "("); k > 0 {
				l = l[:k]
			}
			return strings.TrimPrefix(l, "go.starlark.net/")
		}
	}
	return ""
}

// Safe runs f and returns the panic it raised, if any.
func Safe(f func()) (p *Panic) {
	defer func() {
		if r := recover(); r != nil {
			p = &Panic{Value: r, Stack: string(debug.Stack())}
		}
	}()
	f()
	return nil
}

// Exec executes src with the given options, environment and step limit (0 = none).
func Exec(opts *syntax.FileOptions, thread *starlark.Thread, filename, src string, env starlark.StringDict, maxSteps uint64) (g starlark.StringDict, err error, p *Panic) {
	if thread == nil {
		thread = &starlark.Thread{Name: "t"}
	}
	if maxSteps > 0 {
		thread.SetMaxExecutionSteps(maxSteps)
	}
	p = Safe(func() {
		g, err = starlark.ExecFileOptions(opts, thread, filename, src, env)
	})
	return
}

// ErrText renders an error including the backtrace of an EvalError.
func ErrText(err error) string {
	if err == nil {
		return ""
	}
	if ee, ok := err.(*starlark.EvalError); ok {
		return ee.Msg + "\n" + ee.Backtrace()
	}
	return err.Error()
}
