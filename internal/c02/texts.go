package c02

import (
	"fmt"
	"math/rand"
	"os"
	"path/filepath"
	"sort"
	"strings"
	"time"

	"go.starlark.net/starlark"

	"verif/internal/driver"
	"verif/internal/gen"
	"verif/internal/sl"
)

const maxText = 64 << 10

var seedSnippets = []string{
	"x = 1\ny = x + 2\nprint(x, y)\n",
	"def f(a, b=2, *args, c, d=4, **kw):\n    return (a, b, args, c, d, kw)\nr = f(1, c=3)\n",
	"def outer():\n    def f():\n        return f\n    return f\ng = outer()\n",
	"def outer():\n    def f():\n        return g()\n    def g():\n        return f()\n    return [f, g]\nh = outer()\n",
	"l = [x * y for x in range(5) for y in range(3) if x != y]\nd = {k: v for k, v in zip('abc'.elems(), range(3))}\n",
	"load('m.star', 'a', b='c')\nz = a + b\n",
	"def fib(n):\n    if n < 2:\n        return n\n    return fib(n - 1) + fib(n - 2)\nr = fib(10)\n",
	"s = 'hello %s %d %r' % ('w', 1, [1])\nt = '{} {a}'.format(1, a=2)\nu = s[1:-1:2] + t.upper()\n",
	"i = 0\nwhile i < 10:\n    i += 1\n    if i == 5:\n        continue\n    if i == 8:\n        break\n",
	"a, (b, c), *d = 1, (2, 3), 4\n",
	"x = json.encode({'a': [1, 2.5, None, True, 'x']})\ny = json.decode(x)\nz = json.indent(x)\n",
	"m = math.floor(2.5) + math.ceil(-0.5)\nn = math.sqrt(2) ** 2 if False else math.pow(2, 10)\n",
	"t = time.from_timestamp(0)\nu = t + time.parse_duration('1h')\nv = (u - t).seconds\nw = time.time(year=2020, month=2, day=30)\n",
	"s = struct(a=1, b=[1, 2])\nq = s.a + len(s.b)\nr = str(s) + repr(s)\nl = [s]\n",
	"st = set([1, 2, 3]) | set([4]) & set([4, 5]) ^ set([1])\nst.add(9)\n",
	"def f(x):\n    x.append(1)\n    return x\nl = []\nfor i in range(3):\n    f(l)\nl2 = l * 3 + [0] * 2\n",
	"x = (lambda a, *b, **c: (a, b, c))(1, 2, 3, k=4)\n",
	"x = 1 if True else 2\ny = not x or x and None\nz = x in [1] and x not in (2,)\n",
	"def g():\n    pass\n\ndef h(*, k):\n    return k\n\nr = h(k=g())\n",
	"x = 0x1f + 0o17 + 0b11 + 1e3 + .5 + 1. + 10 // 3 % 2 - -1 * ~2 << 3 >> 1 | 4 & 5 ^ 6\n",
	"b = b'abc\\x00\\xff' + b\"d\" * 2\nc = 'a' 'b'\nd = r'\\n' + rb'\\x'\n",
	"'''doc'''\ndef f():\n    \"\"\"docstring\"\"\"\n    return 1\n",
	"x = [1, 2, 3]\nx[0], x[1] = x[1], x[0]\nx[2] += 1\nx += [4]\nd = {}\nd['a'] = 1\nd['a'] *= 2\nd |= {'b': 2}\n",
	"print(dir(''), dir([]), dir({}), type(1), hash('a'), getattr('', 'upper'), hasattr([], 'x'))\n",
	"r = sorted([3, 1, 2], key=lambda v: -v, reverse=True)\nm = max([1, 2], key=lambda v: v)\ne = list(enumerate(reversed(range(3)), 1))\n",
	"fail('a', 1, sep='-')\n",
	"x = int('12', 3) + int(1.5) + float('1e3') + len(str(1 << 100)) + ord('a') + len(chr(97)) + abs(-1)\n",
}

// call forms with hostile argument expansions (each is run as its own text)
var callForms = []string{
	"def f(a=1, **kw): return (a, kw)\nx = f(**{1: 2})\n",
	"x = sorted([], **{None: 1})\n",
	"x = dict(**{1: 2})\n",
	"def f(*a, **k): return (a, k)\nx = f(*1)\n",
	"def f(*a, **k): return (a, k)\nx = f(**1)\n",
	"def f(*a, **k): return (a, k)\nx = f(**[1])\n",
	"def f(a, **k): return (a, k)\nx = f(a=1, **{'a': 2})\n",
	"def f(*, c=1, **k): return (c, k)\nx = f(c=1, **{'c': 2})\n",
	"def f(a, b): return a\nx = f(*[1], **{'b': 2, 3: 4})\n",
	"def f(a, b): return a\nx = f(*[1, 2, 3])\n",
	"def f(a, *, b): return a\nx = f(1, 2)\n",
	"def f(): pass\nx = f(**{(1, 2): 3})\n",
	"x = len(*[[1]], **{})\ny = len(**{'x': [1]})\n",
	"x = 'abc'.find(**{1: 2})\ny = [].append(**{None: None})\n",
	"x = (lambda **k: k)(**{1.5: 2})\n",
	"x = struct(**{1: 2})\n",
	"x = json.encode(**{1: 2})\ny = math.floor(**{2: 1})\nz = time.time(**{3: 1})\n",
	"def f(a): return a\nx = [f(**{k: 1}) for k in [1, 'a', None, (1,)]]\n",
	"def f(**k): return k\nd = {}\nd[d.get] = 1\nx = f(**d)\n",
	"x = print(**{1: 2})\ny = fail(**{1: 2})\n",
	"x = getattr(*[], **{0: 0})\n",
	"def f(a, b=2, *c, d, e=5, **g): return 1\nx = f(*range(300), **{str(i): i for i in range(300)})\n",
	"def f(a): return a\nx = f(*[f], **{'a': f})\n",
}

var tokenDict = []string{"def", "lambda", "if", "else", "elif", "for", "in", "not", "and", "or", "return", "break", "continue", "pass", "load", "while",
	"(", ")", "[", "]", "{", "}", ",", ":", ";", ".", "=", "==", "!=", "<", ">", "<=", ">=", "+", "-", "*", "/", "//", "%", "**", "&", "|", "^", "~", "<<", ">>",
	"+=", "-=", "*=", "/=", "//=", "%=", "&=", "|=", "^=", "<<=", ">>=", "\n", "\n    ", "\n        ", "\t", "\\\n", "#c\n", "'", "\"", "'''", "\"\"\"", "\\", "0", "1", "0x", "1e", "1.", ".5",
	"x", "f", "None", "True", "False", "*", "**", "\x00", "\xff", "\r\n", "b'", "r'", "rb'", "\\x", "\\u12", "\\777", "1e999", "9999999999999999999999", "é", "😀"}

func loadCorpus() []string {
	out := append([]string(nil), seedSnippets...)
	files, _ := filepath.Glob("/repo/starlark/testdata/*.star")
	more, _ := filepath.Glob("/repo/syntax/testdata/*.star")
	files = append(files, more...)
	more, _ = filepath.Glob("/repo/resolve/testdata/*.star")
	files = append(files, more...)
	sort.Strings(files)
	for _, f := range files {
		b, err := os.ReadFile(f)
		if err != nil {
			continue
		}
		for _, chunk := range strings.Split(string(b), "\n---\n") {
			if len(chunk) > 0 && len(chunk) < 8000 {
				out = append(out, chunk+"\n")
			}
		}
	}
	return out
}

func mutate(r *rand.Rand, corpus []string) (string, string) {
	s := []byte(corpus[r.Intn(len(corpus))])
	n := 1 + r.Intn(4)
	var ops []string
	for i := 0; i < n; i++ {
		op := r.Intn(9)
		pos := 0
		if len(s) > 0 {
			pos = r.Intn(len(s) + 1)
		}
		switch op {
		case 0: // insert token
			t := tokenDict[r.Intn(len(tokenDict))]
			s = append(s[:pos], append([]byte(t), s[pos:]...)...)
			ops = append(ops, "ins-token")
		case 1: // delete range
			if len(s) > 0 {
				e := min(len(s), pos+1+r.Intn(8))
				s = append(s[:pos], s[e:]...)
			}
			ops = append(ops, "del")
		case 2: // flip byte
			if pos < len(s) {
				s[pos] ^= byte(1 << uint(r.Intn(8)))
			}
			ops = append(ops, "flip")
		case 3: // duplicate range
			if len(s) > 0 {
				e := min(len(s), pos+1+r.Intn(40))
				dup := append([]byte(nil), s[pos:e]...)
				k := 1 + r.Intn(3)
				for j := 0; j < k; j++ {
					s = append(s[:e], append(dup, s[e:]...)...)
				}
			}
			ops = append(ops, "dup")
		case 4: // truncate
			s = s[:pos]
			ops = append(ops, "trunc")
		case 5: // splice from another seed
			o := corpus[r.Intn(len(corpus))]
			if len(o) > 0 {
				a := r.Intn(len(o))
				b := min(len(o), a+1+r.Intn(200))
				s = append(s[:pos], append([]byte(o[a:b]), s[pos:]...)...)
			}
			ops = append(ops, "splice")
		case 6: // line ops
			lines := strings.Split(string(s), "\n")
			if len(lines) > 1 {
				i, j := r.Intn(len(lines)), r.Intn(len(lines))
				switch r.Intn(4) {
				case 0:
					lines[i], lines[j] = lines[j], lines[i]
				case 1:
					lines[i] = "    " + lines[i]
				case 2:
					lines[i] = strings.TrimPrefix(lines[i], "    ")
				case 3:
					lines = append(lines[:i], append([]string{lines[j]}, lines[i:]...)...)
				}
				s = []byte(strings.Join(lines, "\n"))
			}
			ops = append(ops, "line")
		case 7: // replace a token occurrence by another token
			t := tokenDict[r.Intn(len(tokenDict))]
			u := tokenDict[r.Intn(len(tokenDict))]
			s = []byte(strings.Replace(string(s), t, u, 1+r.Intn(3)))
			ops = append(ops, "swap-token")
		case 8: // repeat a token many times
			t := tokenDict[r.Intn(len(tokenDict))]
			k := []int{10, 100, 1000, 5000}[r.Intn(4)]
			s = append(s[:pos], append([]byte(strings.Repeat(t, k)), s[pos:]...)...)
			ops = append(ops, "repeat-token")
		}
		if len(s) > maxText {
			s = s[:maxText]
		}
	}
	return string(s), strings.Join(ops, "+")
}

type shapeGen struct {
	name string
	gen  func(n int) string
}

func rep(s string, n int) string { return strings.Repeat(s, n) }

var shapes = []shapeGen{
	{"paren-nest", func(n int) string { return "x = " + rep("(", n) + "1" + rep(")", n) + "\n" }},
	{"paren-nest-unclosed", func(n int) string { return "x = " + rep("(", n) + "1\n" }},
	{"list-nest", func(n int) string { return "x = " + rep("[", n) + rep("]", n) + "\n" }},
	{"dict-nest", func(n int) string { return "x = " + rep("{1:", n) + "1" + rep("}", n) + "\n" }},
	{"tuple-nest", func(n int) string { return "x = " + rep("(", n) + "1" + rep(",)", n) + "\n" }},
	{"unary-minus", func(n int) string { return "x = " + rep("-", n) + "1\n" }},
	{"unary-tilde", func(n int) string { return "x = " + rep("~", n) + "1\n" }},
	{"unary-plus-minus", func(n int) string { return "x = " + rep("+-", n) + "1\n" }},
	{"not-chain", func(n int) string { return "x = " + rep("not ", n) + "1\n" }},
	{"lambda-nest", func(n int) string { return "x = " + rep("lambda: ", n) + "1\n" }},
	{"lambda-nest-called", func(n int) string { return "x = " + rep("(lambda: ", n) + "1" + rep(")()", n) + "\n" }},
	{"call-nest", func(n int) string { return "def f(x): return x\ny = " + rep("f(", n) + "1" + rep(")", n) + "\n" }},
	{"call-chain", func(n int) string { return "def f(): return f\ny = f" + rep("()", n) + "\n" }},
	{"index-chain", func(n int) string { return "l = []\nl.append(l)\ny = l" + rep("[0]", n) + "\n" }},
	{"dot-chain", func(n int) string { return "y = 'a'" + rep(".upper()", n) + "\n" }},
	{"slice-chain", func(n int) string { return "y = 'abc'" + rep("[::-1]", n) + "\n" }},
	{"plus-chain", func(n int) string { return "x = 1" + rep(" + 1", n) + "\n" }},
	{"plus-chain-str", func(n int) string { return "x = 'a'" + rep(" + 'b'", n) + "\n" }},
	{"plus-chain-list", func(n int) string { return "x = [1]" + rep(" + [2]", n) + "\n" }},
	{"plus-chain-mixed", func(n int) string { return "y = 1\nx = 'a'" + rep(" + 'b' + str(y)", n) + "\n" }},
	{"and-chain", func(n int) string { return "x = 1" + rep(" and 1", n) + "\n" }},
	{"or-chain", func(n int) string { return "x = 0" + rep(" or 0", n) + "\n" }},
	{"cmp-chain", func(n int) string { return "x = 1" + rep(" < 2", min(n, 3)) + "\n" }},
	{"cond-chain", func(n int) string { return "x = " + rep("1 if 0 else ", n) + "2\n" }},
	{"cond-chain-left", func(n int) string { return "x = 1" + rep(" if 1 else 2", n) + "\n" }},
	{"elif-ladder", func(n int) string {
		return "def f(x):\n    if x == 0:\n        return 0\n" + rep("    elif x == 1:\n        return 1\n", n) + "    else:\n        return 2\ny = f(5)\n"
	}},
	{"if-nest", func(n int) string {
		var b strings.Builder
		b.WriteString("def f():\n")
		n = min(n, 340)
		for i := 0; i < n; i++ {
			b.WriteString(rep(" ", i+1) + "if True:\n")
		}
		b.WriteString(rep(" ", n+1) + "return 1\ny = f()\n")
		return b.String()
	}},
	{"def-nest", func(n int) string {
		var b strings.Builder
		n = min(n, 250)
		for i := 0; i < n; i++ {
			fmt.Fprintf(&b, "%sdef f%d():\n", rep(" ", i), i)
		}
		b.WriteString(rep(" ", n) + "return 1\n")
		for i := n - 1; i >= 1; i-- {
			fmt.Fprintf(&b, "%sreturn f%d\n", rep(" ", i), i)
		}
		b.WriteString("y = f0()\n")
		return b.String()
	}},
	{"for-nest", func(n int) string {
		var b strings.Builder
		b.WriteString("def f():\n")
		n = min(n, 300)
		for i := 0; i < n; i++ {
			fmt.Fprintf(&b, "%sfor i%d in [1]:\n", rep(" ", i+1), i)
		}
		b.WriteString(rep(" ", n+1) + "pass\ny = f()\n")
		return b.String()
	}},
	{"comp-nest", func(n int) string {
		n = min(n, 3000)
		return "x = " + rep("[1 for a in ", n) + "[1]" + rep("]", n) + "\n"
	}},
	{"comp-clauses", func(n int) string { n = min(n, 5000); return "x = [1" + rep(" for a in [1]", n) + "]\n" }},
	{"comp-ifs", func(n int) string { n = min(n, 8000); return "x = [1 for a in [1]" + rep(" if a", n) + "]\n" }},
	{"big-int-literal", func(n int) string { return "x = " + rep("9", n) + "\n" }},
	{"big-hex-literal", func(n int) string { return "x = 0x" + rep("f", n) + "\n" }},
	{"big-float-literal", func(n int) string { return "x = 1." + rep("0", n) + "1e" + rep("9", min(n, 400)) + "\n" }},
	{"big-string-literal", func(n int) string { return "x = '" + rep("a", n) + "'\n" }},
	{"many-escapes", func(n int) string { return "x = '" + rep("\\x41\\n\\u00e9", n/3) + "'\n" }},
	{"many-args", func(n int) string {
		n = min(n, 6000)
		return "def f(*a): return len(a)\ny = f(" + rep("1, ", n) + ")\n"
	}},
	{"many-kwargs", func(n int) string {
		n = min(n, 3000)
		var b strings.Builder
		b.WriteString("def f(**k): return len(k)\ny = f(")
		for i := 0; i < n; i++ {
			fmt.Fprintf(&b, "a%d=1, ", i)
		}
		b.WriteString(")\n")
		return b.String()
	}},
	{"many-params", func(n int) string {
		n = min(n, 3000)
		var b strings.Builder
		b.WriteString("def f(")
		for i := 0; i < n; i++ {
			fmt.Fprintf(&b, "a%d=1, ", i)
		}
		b.WriteString("): return a0\ny = f()\n")
		return b.String()
	}},
	{"many-targets", func(n int) string {
		n = min(n, 5000)
		return rep("a, ", n) + " = [1] * " + fmt.Sprint(n) + "\n"
	}},
	{"nested-targets", func(n int) string { n = min(n, 10000); return rep("(", n) + "a" + rep(",)", n) + " = 1\n" }},
	{"many-statements", func(n int) string { return rep("x = 1\n", n/6) }},
	{"semicolons", func(n int) string { return "x = 1" + rep("; x = 2", n/7) + "\n" }},
	{"continuations", func(n int) string { return "x = 1 +" + rep(" \\\n", n/3) + " 2\n" }},
	{"dedents", func(n int) string { return "if True:\n" + rep(" ", min(n, 30000)) + "x = 1\ny = 2\n" }},
	{"blank-lines", func(n int) string { return "x = 1\n" + rep("\n", n) + "y = 2\n" }},
	{"comments", func(n int) string { return rep("#", n) + "\nx = 1\n" }},
	{"tabs-spaces", func(n int) string { return "if True:\n\tx = 1\n        y = 2\n \tz = 3\n" }},
	{"crlf", func(n int) string { return rep("x = 1\r\n", min(n, 5000)) + "if x:\r\n    y = 2\r\n" }},
	{"nul-bytes", func(n int) string { return "x = 1\x00\ny = '\x00'\n" + rep("\x00", n) }},
	{"bom", func(n int) string { return "\xef\xbb\xbfx = 1\n" }},
	{"invalid-utf8", func(n int) string { return "x = '\xff\xfe' + \"" + rep("\xc0", n) + "\"\n" }},
	{"unterminated-triple", func(n int) string { return "x = '''" + rep("a\n", n/2) }},
	{"huge-shift", func(n int) string { return "x = 1 << " + fmt.Sprint(n) + "\ny = 1 << (1 << 40)\n" }},
	{"huge-repeat", func(n int) string { return "x = 'a' * (1 << 40)\n" }},
	{"huge-list-repeat", func(n int) string { return "x = [0] * (1 << 40)\n" }},
	{"huge-range", func(n int) string { return "x = range(1 << 62)[1 << 61]\ny = len(range(-(1 << 62), 1 << 62))\n" }},
	{"str-of-big", func(n int) string { return "x = len(str(1 << " + fmt.Sprint(min(n*10, 300000)) + "))\n" }},
	{"int-of-long", func(n int) string { return "x = int('" + rep("9", n) + "')\n" }},
	{"format-many", func(n int) string { n = min(n, 20000); return "x = '" + rep("%s", n) + "' % (" + rep("1,", n) + ")\n" }},
	{"doubling", func(n int) string { return "x = 'a'\nfor i in range(64):\n    x = x + x\n" }},
	{"list-doubling", func(n int) string { return "x = [1]\nfor i in range(64):\n    x = x + x\n" }},
	{"deep-recursion", func(n int) string { return "def f(n):\n    return f(n + 1)\nf(0)\n" }},
	{"deep-recursion-callback", func(n int) string { return "def f(x):\n    return sorted([1, 2], key=f)\nf(0)\n" }},
	{"deep-data-build", func(n int) string { return "x = []\nfor i in range(100000):\n    x = [x]\ns = str(x)\nh = x == x\n" }},
	{"deep-tuple-build", func(n int) string {
		return "x = ()\nfor i in range(100000):\n    x = (x,)\ns = repr(x)\nd = {}\nd[x] = 1\n"
	}},
	{"deep-dict-build", func(n int) string { return "x = {}\nfor i in range(100000):\n    x = {1: x}\ns = json.encode(x)\n" }},
	{"self-closure", func(n int) string { return "def outer():\n    def f():\n        return f\n    return f\ng = outer()\n" }},
	{"mutual-closure", func(n int) string {
		return "def outer():\n    def f():\n        return g\n    def g():\n        return f\n    return f\nh = outer()\n"
	}},
	{"closure-default-cycle", func(n int) string {
		return "def outer():\n    l = []\n    def f(x=l):\n        return f\n    l.append(f)\n    return f\nh = outer()\n"
	}},
	{"infinite-loop", func(n int) string { return "def f():\n    for i in range(1 << 60):\n        pass\nf()\n" }},
	{"while-true", func(n int) string { return "def f():\n    while True:\n        pass\nf()\n" }},
}

// boundaryNumerals are decimal digit strings around every width a parser might accumulate into.
var boundaryNumerals = []string{
	"0", "1", "00", "007", "9", "255", "256", "32767", "32768", "65535", "65536",
	"2147483647", "2147483648", "4294967295", "4294967296", "4294967297",
	"9223372036854775807", "9223372036854775808", "9223372036854775809", "9999999999999999999",
	"10000000000000000000", "18446744073709551615", "18446744073709551616", "18446744073709551617",
	"99999999999999999999", "340282366920938463463374607431768211456",
	"0000000000000000000000000000000000000001", "1" + strings.Repeat("0", 400),
}

// numeralTemplates are statements in which N is replaced by each boundary numeral.
var numeralTemplates = []string{
	`x = "{N}".format("a")`, `x = "{N}".format()`, `x = "{N}{}".format("a", "b")`, `x = "{}{N}".format("a", "b")`,
	`x = "{N.a}".format("a")`, `x = "{N[0]}".format("a")`, `x = "{0[N]}".format([1, 2])`, `x = "{0[-N]}".format([1, 2])`,
	`x = "{N!r}".format("a")`, `x = "{N:}".format("a")`, `x = "{a[N]}".format(a = "s")`, `x = "{-N}".format("a")`,
	`x = "{ N }".format("a")`, `x = "{+N}".format("a")`, `x = "{N}" % ()`, `x = "%(N)s" % {"N": 1}`,
	`x = "%Nd" % 1`, `x = "%.Nf" % 1.0`, `x = "%-Ns" % "a"`, `x = "%N$s" % "a"`, `x = "%c" % N`, `x = "%c" % -N`,
	`x = "%x %o %d %e" % (N, N, N, N)`, `x = int("N")`, `x = int("-N")`, `x = int("0xN", 16)`, `x = int("N", N)`,
	`x = int("N", 36)`, `x = int("z", N)`, `x = int("1", -N)`, `x = float("N")`, `x = float("1eN")`, `x = float("1e-N")`,
	`x = float("N.NeN")`, `x = float("0xNpN")`, `x = 1eN`, `x = 0xN`, `x = 0oN`, `x = 0b1N`,
	`x = json.decode("N")`, `x = json.decode("-N")`, `x = json.decode("[N]")`, `x = json.decode("1eN")`, `x = json.decode("1e-N")`,
	`x = json.decode("N.N")`, `x = json.decode('"\\uN"')`, `x = json.decode("{\"N\": N}")`, `x = json.encode(N)`, `x = json.indent("[N]", indent = " " * (N % 70000))`,
	`x = time.parse_duration("Nh")`, `x = time.parse_duration("Nns")`, `x = time.parse_duration("N.Ns")`, `x = time.parse_duration("-NhNmNs")`,
	`x = time.from_timestamp(N)`, `x = time.from_timestamp(-N, N)`, `x = time.time(year = N)`, `x = time.time(month = N, day = -N)`,
	`x = time.time(nanosecond = N)`, `x = time.parse_time("N", format = "2006")`, `x = time.parse_time("N", format = "N")`,
	`x = time.from_timestamp(0).format("N.000000000 2006 N")`, `x = time.from_timestamp(0) + time.parse_duration("Nh")`,
	`x = "\xN"`, `x = "\N"`, `x = "\uN"`, `x = "\UN"`, `x = b"\N"`, `x = "a" * N`, `x = [1] * -N`, `x = "abc"[N:]`, `x = "abc"[-N::N]`, `x = "abc"[::-N]`,
	`x = range(N)[N - 1]`, `x = range(-N, N, N)[-1]`, `x = len(range(-N, N))`, `x = N in range(N)`, `x = list(range(N, N + 3))`,
	`x = 1 << (N % 100000)`, `x = N >> N`, `x = -N >> N`, `x = N // -1`, `x = -N % N`, `x = float(N)`, `x = int(float(N))`, `x = N * 1.0 == N`,
	`x = chr(N)`, `x = chr(-N)`, `x = "abc".elems()[N % 3]`, `x = "a,b".split(",", N)`, `x = "a,b".rsplit(",", -N)`, `x = "aaa".replace("a", "b", N)`,
	`x = "aaa".replace("a", "b", -N)`, `x = "abc".find("b", N)`, `x = "abc".rindex("b", -N, N)`, `x = "abc".count("", -N, N)`, `x = "abc".startswith("a", N)`,
	`x = [1, 2, 3].index(2, -N, N)`, `x = [1, 2].insert(N, 0)`, `x = [1, 2].insert(-N, 0)`, `x = [1, 2].pop(N)`, `x = [1, 2].pop(-N)`,
	`x = list(enumerate([1], N))`, `x = list(enumerate([1], -N))`, `x = hash("N")`, `x = math.round(N)`, `x = math.pow(N, N)`, `x = math.gamma(N)`,
	`x = math.floor(N + 0.5)`, `x = math.ceil(-N - 0.5)`, `x = math.mod(N, 3)`, `x = math.log(N, N)`, `x = int(math.pow(2, N % 2000))`,
	`x = bytes([N % 256])`, `x = bytes([N])`, `x = b"abc"[N % 3]`, `x = str(N)[N % 5:]`, `x = ("%d" % N) == str(N)`,
}

var eofTokens = []string{"x = (", "x = [1,", "x = {1:", "def", "def f", "def f(", "def f(a", "def f(a,", "def f(a=", "def f():", "def f():\n", "def f():\n  ", "lambda", "lambda x", "lambda:", "if", "if x", "if x:", "for", "for x", "for x in", "for x in y:", "x =", "x +=", "x = 1 +", "x = not", "x = -", "x = 1 if", "x = 1 if 2", "x = 1 if 2 else", "x.", "x[", "x[1:", "x[1:2:", "f(", "f(a=", "f(*", "f(**", "load", "load(", "load('a'", "load('a',", "load('a', b=", "'", "\"", "'''", "b'", "r'", "'\\", "'\\x", "'\\x4", "'\\u", "'\\U0001", "'\\1", "0x", "0b", "0o", "1e", "1e+", "1.", ".", "x = 1 \\", "#", "return", "break", "pass;", "while", "while x", "x = [1 for", "x = [1 for a", "x = [1 for a in", "x = [1 for a in b if", "x = {1: 2 for", "@", "$", "?", "`", "!", "x = 1 ! 2", "x ==", "x <", "x <<", "x <<=", "x = a not", "x = a not i", "x = a is b", "\t", " ", "\r", "\n\n  \n", "\\"}

func fileOptsLoad(th *starlark.Thread) {
	th.Load = func(t *starlark.Thread, module string) (starlark.StringDict, error) {
		if strings.Contains(module, "bad") {
			return nil, fmt.Errorf("no such module")
		}
		return starlark.StringDict{"a": starlark.MakeInt(1), "b": starlark.MakeInt(2), "c": starlark.MakeInt(3), "assert": starlark.None, "x": starlark.String("x")}, nil
	}
}

// runText executes one source text under one option vector and judges the outcome.
func runText(c *driver.Ctx, site, src string, optBits int) {
	c.Note("key=C02 crash text %s\nopts=%d\n%s", site, optBits, src)
	res := guarded(8*time.Second, func(th *starlark.Thread) error {
		fileOptsLoad(th)
		env := sl.StdModules()
		_, err := starlark.ExecFileOptions(sl.OptionsFromBits(optBits), th, "t.star", src, env)
		return err
	})
	c.Eval(1)
	c.Count("texts_"+res.outcome, 1)
	text := fmt.Sprintf("opts=%s source=%q", sl.OptionsString(sl.OptionsFromBits(optBits)), driver.Truncate(src, 400))
	switch res.outcome {
	case "panic":
		if ob, ok := res.p.Value.(overBudget); ok {
			c.Violation("C02 budget-overrun text "+site, fmt.Sprintf("%d instruction starts with a budget of %d", ob.count, stepBudget), map[string]any{"source": src, "opts": optBits})
			return
		}
		msg := normPanic(res.p.Value)
		key := fmt.Sprintf("C02 panic text :: %s @ %s", msg, res.p.TopFrame())
		c.Violation(key, "Go panic: "+fmt.Sprint(res.p.Value)+" in "+text, map[string]any{"source": src, "opts": optBits, "stack": driver.Truncate(res.p.Stack, 3000)})
	case "timeout":
		c.Count("timeouts_excluded(wall-clock; not judged)", 1)
		c.Cover("timeout_sites", site+" "+driver.Truncate(src, 60))
	default:
		if res.steps >= stepBudget {
			c.Violation("C02 budget-overrun text "+site, fmt.Sprintf("%d instruction starts with a budget of %d", res.steps, stepBudget), map[string]any{"source": src, "opts": optBits})
		}
		if res.err != nil {
			switch {
			case strings.Contains(res.err.Error(), "too many steps"):
				c.Count("texts_hit_step_budget", 1)
			case res.steps > 0:
				c.Count("texts_dynamic_error", 1)
			default:
				c.Count("texts_static_error", 1)
			}
		}
	}
}

func armTexts(c *driver.Ctx) {
	corpus := loadCorpus()
	c.Count("corpus_seeds_loaded_in_this_shard", len(corpus))
	// (1) adversarial shapes
	sizes := []int{10, 100, 254, 255, 256, 257, 1000, 10000, 30000, 60000}
	for _, sh := range shapes {
		for _, n := range sizes {
			if !c.Take() {
				continue
			}
			src := sh.gen(n)
			if len(src) > maxText {
				src = src[:maxText]
			}
			r := c.Rand()
			opts := []int{63, 0, r.Intn(64)}
			if c.Thorough() {
				opts = opts[:0]
				for b := 0; b < 64; b += 1 + r.Intn(3) {
					opts = append(opts, b)
				}
			}
			for _, ob := range opts {
				runText(c, "shape "+sh.name, src, ob)
			}
			c.Distinct(fmt.Sprintf("shape/%s/%d", sh.name, n))
			c.Cover("shapes", sh.name)
			if leaked.Load() >= 3 {
				c.RestartProcess()
			}
		}
	}
	// (2) every token kind truncated at EOF, with and without trailing newline
	for i, t := range eofTokens {
		if !c.Take() {
			continue
		}
		for _, suffix := range []string{"", "\n", "\n\n", " ", "\\"} {
			for _, prefix := range []string{"", "y = 1\n", "def g():\n    ", "if 1:\n  if 2:\n    "} {
				runText(c, "eof", prefix+t+suffix, []int{63, 0}[i%2])
			}
		}
		c.Distinct("eof/" + t)
	}
	// (2b) hostile call forms, every option vector
	for i, src := range callForms {
		if !c.Take() {
			continue
		}
		for ob := 0; ob < 64; ob += 7 {
			runText(c, "call-form", src, ob)
		}
		runText(c, "call-form", src, 63)
		c.Distinct(fmt.Sprintf("callform/%d", i))
	}
	// (2d) numerals at machine-integer boundaries inside every mini-language a built-in parses
	// (format fields, % templates, int/float literals in strings, JSON text, durations, escapes)
	for ti, tmpl := range numeralTemplates {
		for ni, num := range boundaryNumerals {
			if !c.Take() {
				continue
			}
			runText(c, "numeral "+tmpl, strings.ReplaceAll(tmpl, "N", num)+"\n", []int{63, 0}[(ti+ni)%2])
			c.Distinct(fmt.Sprintf("numeral/%d/%d", ti, ni))
		}
		c.Cover("numeral_templates", tmpl)
	}
	// (2c) generated semantic programs with deliberate misuse (arity, kinds, unpacking), random options
	ng := c.Pick(600, 20000)
	for i := 0; i < ng; i++ {
		if !c.Take() {
			continue
		}
		r := c.Rand()
		bits := r.Intn(64)
		p := gen.Generate(r, gen.Config{Opts: *sl.OptionsFromBits(bits | 4), Trace: false, Host: false, Loads: true, Misuse: 0.05, MaxStmts: 10})
		src := gen.Render(p.Stmts, r, p.Options(gen.RandomLayout(r)))
		runText(c, "generated", src, bits|4)
		if r.Intn(4) == 0 {
			runText(c, "generated", src, r.Intn(64))
		}
		c.DistinctH(driver.Hash64(src))
	}
	// (3) mutated corpus
	n := c.Pick(2000, 40000)
	for i := 0; i < n; i++ {
		if !c.Take() {
			continue
		}
		r := c.Rand()
		src, ops := mutate(r, corpus)
		nopts := 2
		if c.Thorough() && i%16 == 0 {
			nopts = 64
		}
		for k := 0; k < nopts; k++ {
			ob := r.Intn(64)
			if nopts == 64 {
				ob = k
			} else if k == 0 {
				ob = 63
			}
			runText(c, "mutant", src, ob)
		}
		c.DistinctH(driver.Hash64(src))
		c.Cover("mutation_ops", ops)
		if c.WantSample() && i%50 == 0 {
			c.Sample(map[string]any{"arm": "text-mutant", "ops": ops, "source": driver.Truncate(src, 300)})
		}
		if leaked.Load() >= 3 {
			c.RestartProcess()
		}
	}
}
