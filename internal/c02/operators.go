package c02

import (
	"fmt"
	"strings"
	"time"

	"go.starlark.net/starlark"
	"go.starlark.net/syntax"

	"verif/internal/driver"
)

// Operator arm: every operator, indexing/slicing form, assignment form, unpacking and argument
// expansion form applied to every ordered pair (x, y) of pool values (z random), through the real
// pipeline: each form is a three-parameter function compiled once and called with the values.

type opForm struct {
	name           string
	body           string // body of "def f(a, b, c):", must assign r
	skipHugeRepeat bool
}

var opForms = func() []opForm {
	var fs []opForm
	for _, op := range []string{"+", "-", "*", "/", "//", "%", "&", "|", "^", "<<", ">>", "in", "not in", "==", "!=", "<", "<=", ">", ">=", "and", "or"} {
		fs = append(fs, opForm{name: "a " + op + " b", body: "r = a " + op + " b", skipHugeRepeat: op == "*"})
	}
	for _, op := range []string{"+", "-", "*", "/", "//", "%", "&", "|", "^", "<<", ">>"} {
		fs = append(fs, opForm{name: "a " + op + "= b", body: "a " + op + "= b\n    r = a", skipHugeRepeat: op == "*"})
	}
	for _, f := range []opForm{
		{name: "-a", body: "r = -a"}, {name: "+a", body: "r = +a"}, {name: "~a", body: "r = ~a"}, {name: "not a", body: "r = not a"},
		{name: "a[b]", body: "r = a[b]"}, {name: "a[b:c]", body: "r = a[b:c]"}, {name: "a[b:c:b]", body: "r = a[b:c:b]"}, {name: "a[::b]", body: "r = a[::b]"},
		{name: "a[b:]", body: "r = a[b:]"}, {name: "a[:b:c]", body: "r = a[:b:c]"}, {name: "a[b][c]", body: "r = a[b][c]"},
		{name: "a[b] = c", body: "a[b] = c\n    r = a"}, {name: "a[b] += c", body: "a[b] += c\n    r = a"}, {name: "a[b] |= c", body: "a[b] |= c\n    r = a"},
		{name: "a[b], a[c] = a[c], a[b]", body: "a[b], a[c] = a[c], a[b]\n    r = a"},
		{name: "p, q = a", body: "p, q = a\n    r = (p, q)"}, {name: "[p, [q, s]] = a", body: "[p, [q, s]] = a\n    r = p"},
		{name: "for e in a", body: "r = 0\n    for e in a:\n        r += 1\n        if r > 50:\n            break"},
		{name: "for p, q in a", body: "r = 0\n    for p, q in a:\n        r += 1\n        if r > 50:\n            break"},
		{name: "[e for e in a if e in b]", body: "r = [e for e in a if e in b][:5]"}, {name: "{e: c for e in a}", body: "r = len({e: c for e in a})"},
		{name: "a(*b)", body: "r = a(*b)"}, {name: "a(**b)", body: "r = a(**b)"}, {name: "a(*b, **c)", body: "r = a(*b, **c)"}, {name: "a(b, c)", body: "r = a(b, c)"}, {name: "a(b, k = c)", body: "r = a(b, k = c)"},
		{name: "{a: b}", body: "r = {a: b}"}, {name: "{a: 1, b: 2}", body: "r = {a: 1, b: 2}"}, {name: "[a] * b", body: "r = len([a] * b) if type(b) != 'int' or b < 1000 else 0"},
		{name: "a if b else c", body: "r = a if b else c"}, {name: "'%s %r' % (a, b)", body: "r = len('%s %r' % (a, b))"}, {name: "a % (b, c)", body: "r = a % (b, c)"}, {name: "a % {'x': b}", body: "r = a % {'x': b}"},
		{name: "a.format(b, x = c)", body: "r = a.format(b, x = c)"}, {name: "(a, b) < (b, a)", body: "r = (a, b) < (b, a)"}, {name: "[a, b] == [b, a]", body: "r = [a, b] == [b, a]"},
		{name: "a in {b: c}", body: "r = a in {b: c}"}, {name: "a in [b, c]", body: "r = a in [b, c]"}, {name: "a in (b, c)", body: "r = a in (b, c)"},
		{name: "lambda", body: "r = (lambda p = a, *q, **s: (p, q, s))(*[b], **{'k': c})"},
	} {
		fs = append(fs, f)
	}
	return fs
}()

func compileForm(f opForm) (*starlark.Function, error) {
	src := "def f(a, b, c):\n    " + f.body + "\n    return r\n"
	th := &starlark.Thread{Name: "c02-compile"}
	g, err := starlark.ExecFileOptions(&syntax.FileOptions{Set: true, While: true, TopLevelControl: true, GlobalReassign: true, Recursion: true}, th, "op.star", src, nil)
	if err != nil {
		return nil, err
	}
	return g["f"].(*starlark.Function), nil
}

func isBulky(p pv) bool {
	return p.tags == "huge" || p.name == "list-100k" || p.name == "string64k" || p.name == "bytes64k"
}

var (
	cachedPool  []pv
	cachedDirty bool
)

func armOperators(c *driver.Ctx) {
	perX := c.Pick(6, 400) // right operands per (form, left operand); 400 >= pool size: all of them
	npool := len(newPool())
	for fi, form := range opForms {
		fn, err := compileForm(form)
		if err != nil {
			c.Inconclusive("operator form %q does not compile: %v", form.name, err)
			return
		}
		c.Cover("operator_forms", form.name)
		for xi := 0; xi < npool; xi++ {
			if !c.Take() {
				continue
			}
			r := c.Rand()
			// building the pool (10^5-element and 20000-deep members) costs more than the calls of one job:
			// keep it between jobs unless a form that changes its operands, or an abandoned call, has used it
			mutating := strings.Contains(form.name, "= ") && !strings.Contains(form.name, "== ") && !strings.Contains(form.name, "k = c") || strings.HasPrefix(form.name, "a(")
			if cachedPool == nil || cachedDirty || mutating {
				cachedPool = newPool()
			}
			cachedDirty = mutating
			pool := cachedPool
			// right operands: one of every type first (so that every type pair meets under every form in
			// every run), then random others up to perX
			perm := r.Perm(len(pool))
			var ys []int
			seenType := map[string]bool{}
			for _, i := range perm {
				if t := pool[i].v.Type(); !seenType[t] {
					seenType[t] = true
					ys = append(ys, i)
				}
			}
			for _, i := range perm {
				if len(ys) >= perX+len(seenType) {
					break
				}
				ys = append(ys, i)
			}
			for _, yi := range ys {
				x, y, z := pool[xi], pool[yi], pool[r.Intn(len(pool))]
				if form.skipHugeRepeat && (isBulky(x) || isBulky(y)) {
					continue // a repeat of a 64 KiB+ operand is an allocation test, not an operator test
				}
				if (x.tags == "huge" || y.tags == "huge" || z.tags == "huge") && (strings.Contains(form.body, "(*") || strings.Contains(form.body, "(**") || strings.Contains(form.body, " for ")) {
					continue // expanding or traversing 2^31+ elements is the excluded huge allocation, and cannot be interrupted
				}
				if isBulky(x) && isBulky(y) {
					continue // 10^5 x 10^5 element pairs: a quadratic-time test (minutes per call), not an operator test
				}
				huge := x.tags == "huge" || y.tags == "huge" || z.tags == "huge"
				text := fmt.Sprintf("%s with a=%s:%s b=%s:%s c=%s:%s", form.name, x.name, describe(x.v), y.name, describe(y.v), z.name, describe(z.v))
				c.Note("key=C02 crash operator %s\n%s", form.name, text)
				nilAt := ""
				res := guarded(6*time.Second, func(th *starlark.Thread) error {
					v, err := starlark.Call(th, fn, starlark.Tuple{x.v, y.v, z.v}, nil)
					if err == nil {
						nilAt = findNil(v, "result", new(int))
					}
					return err
				})
				if nilAt != "" {
					c.Violation("C02 nil-value-in-result operator "+form.name, "an operator returned a value containing a nil (not None) element at "+nilAt+": "+text, map[string]any{"input": text})
				}
				c.Eval(1)
				c.Count("operators_"+res.outcome, 1)
				c.Distinct(fmt.Sprintf("op/%d/%s/%s/%s", fi, x.v.Type(), y.v.Type(), z.v.Type()))
				judgeCall(c, "operator "+form.name, text, res, huge)
				if res.outcome == "timeout" {
					// the abandoned goroutine may still use the values: fresh ones for everything that follows
					cachedPool = newPool()
					pool = cachedPool
				}
			}
			if leaked.Load() >= 3 {
				c.RestartProcess()
			}
		}
	}
}
