package c02

import (
	"verif/internal/driver"
)

func init() {
	driver.Register(&driver.Engine{
		ID: "C02", Level: "exploration",
		Rule:        "three hostile workloads in crash-isolated child processes (write-ahead log of the input in flight; Go panics recovered and reported, fatal errors attributed by the parent): (a) source texts <= 64 KiB: adversarial shapes (nesting/chains/huge literals/arity limits up to 60000 repetitions), every token kind truncated at EOF, and byte/token/line mutations of the repository's own test corpus, each under several FileOptions vectors with json/math/time/struct predeclared and a 200000-step budget watched by the step hook; (b) direct calls of every enumerated callable (universe, methods of every pool type, json/math/time members) with 0-4 positional and 0-2 keyword arguments from an edge-case pool (receivers from the same pool); (b2) every operator, augmented assignment, index/slice/element-assignment, unpacking, argument-expansion, comprehension, %-format and literal form (~80 three-parameter functions compiled once) applied to ordered pairs of pool values: every right-operand type for every left operand and form in the quick tier, all pairs in the thorough tier; (b3) boundary numerals (int32/int64/uint64 edges, 20-400 digits) substituted into ~130 statement templates covering every mini-language a built-in parses (format fields, % templates, int/float strings, JSON text, durations and times, escapes, indices, counts); (c) random cyclic value graphs (lists, dicts, tuples, closures, defaults, structs) under str/repr/==/</hash/json.encode/sorted/in/freeze. distinct = distinct (callable, argument type vector, #kwargs) / distinct text / distinct graph program",
		Assumptions: []string{"out-of-memory fatals and makeslice/growslice panics on operands with Len >= 2^31 are the 'single huge allocation' the property excludes", "calls that do not return within the per-call wall-clock guard are counted and not judged (built-ins are not interruptible)"},
		Run:         run,
		Variants: func(tier string) []driver.Variant {
			return []driver.Variant{{Name: "default", VLimitKB: 12 << 20}}
		},
		MinDistinct: 1000,
		WatchdogMin: func(tier string) int {
			if tier == "thorough" {
				return 240
			}
			return 90
		},
		Finish: func(ev map[string]any) (string, bool) {
			cover := ev["cover"].(map[string]map[string]struct{})
			if len(cover["callables_reached"]) < len(cover["callables_enumerated"]) {
				return "not every enumerated callable was reached", true
			}
			return "", false
		},
	})
}

func run(c *driver.Ctx) {
	installHook()
	armCalls(c)
	armOperators(c)
	armTexts(c)
	armGraphs(c)
}
