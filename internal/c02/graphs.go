package c02

import (
	"fmt"
	"math/rand"
	"strings"
	"time"

	sjson "go.starlark.net/lib/json"
	"go.starlark.net/starlark"
	"go.starlark.net/starlarkstruct"
	"go.starlark.net/syntax"

	"verif/internal/driver"
	"verif/internal/sl"
)

// genGraph returns a program whose function build() creates k nodes with random edges (cycles
// through lists, dicts, tuples, closures, defaults; structs are kept off cycles unless structCycle)
// and returns them in a list.
func genGraph(r *rand.Rand, structCycle bool) (string, []string) {
	k := 2 + r.Intn(5)
	kinds := make([]string, k)
	var b strings.Builder
	b.WriteString("def build():\n")
	choices := []string{"list", "dict", "list", "dict", "tuple", "struct", "closure", "default", "selfclosure", "set-holder"}
	reach := make([][]bool, k) // reach[i][j]: i can reach j
	for i := range reach {
		reach[i] = make([]bool, k)
	}
	addEdge := func(i, j int) {
		reach[i][j] = true
		for a := 0; a < k; a++ {
			if a == i || reach[a][i] {
				reach[a][j] = true
				for c := 0; c < k; c++ {
					if reach[j][c] {
						reach[a][c] = true
					}
				}
			}
		}
	}
	for i := 0; i < k; i++ {
		kinds[i] = choices[r.Intn(len(choices))]
		if i == 0 && (kinds[i] == "tuple" || kinds[i] == "struct" || kinds[i] == "default") {
			kinds[i] = "list"
		}
		switch kinds[i] {
		case "list", "set-holder":
			fmt.Fprintf(&b, "    n%d = []\n", i)
		case "dict":
			fmt.Fprintf(&b, "    n%d = {}\n", i)
		case "tuple":
			j := r.Intn(i)
			fmt.Fprintf(&b, "    n%d = (n%d, %d)\n", i, j, i)
			addEdge(i, j)
		case "struct":
			j := r.Intn(i)
			fmt.Fprintf(&b, "    n%d = struct(a=n%d, b=%d)\n", i, j, i)
			addEdge(i, j)
		case "closure":
			j := r.Intn(k)
			fmt.Fprintf(&b, "    def n%d():\n        return n%d\n", i, j)
			addEdge(i, j)
		case "selfclosure":
			fmt.Fprintf(&b, "    def n%d():\n        return n%d\n", i, i)
			addEdge(i, i)
		case "default":
			j := r.Intn(i)
			fmt.Fprintf(&b, "    def n%d(x=n%d):\n        return x\n", i, j)
			addEdge(i, j)
		}
	}
	// extra edges from mutable containers
	ne := k + r.Intn(2*k)
	for e := 0; e < ne; e++ {
		i, j := r.Intn(k), r.Intn(k)
		if kinds[i] != "list" && kinds[i] != "dict" && kinds[i] != "set-holder" {
			continue
		}
		if !structCycle {
			// keep structs off cycles: i -> j is allowed only if no struct s with (j reaches s or j==s) and (s reaches i)
			bad := false
			for s := 0; s < k; s++ {
				if kinds[s] == "struct" && (j == s || reach[j][s]) && (reach[s][i] || s == i) {
					bad = true
				}
			}
			if bad {
				continue
			}
		}
		if kinds[i] == "dict" {
			fmt.Fprintf(&b, "    n%d['e%d'] = n%d\n", i, e, j)
		} else {
			fmt.Fprintf(&b, "    n%d.append(n%d)\n", i, j)
		}
		addEdge(i, j)
	}
	b.WriteString("    return [")
	for i := 0; i < k; i++ {
		fmt.Fprintf(&b, "n%d, ", i)
	}
	b.WriteString("]\n")
	return b.String(), kinds
}

type graphOp struct {
	name string
	run  func(th *starlark.Thread, a, b starlark.Value) error
}

var graphOps = []graphOp{
	{"str", func(th *starlark.Thread, a, b starlark.Value) error { _ = a.String(); return nil }},
	{"repr", func(th *starlark.Thread, a, b starlark.Value) error {
		_, err := starlark.Call(th, starlark.Universe["repr"], starlark.Tuple{a}, nil)
		return err
	}},
	{"==", func(th *starlark.Thread, a, b starlark.Value) error {
		_, err := starlark.Compare(syntax.EQL, a, b)
		return err
	}},
	{"==self", func(th *starlark.Thread, a, b starlark.Value) error {
		_, err := starlark.Compare(syntax.EQL, a, a)
		return err
	}},
	{"==twin", func(th *starlark.Thread, a, b starlark.Value) error {
		_, err := starlark.Compare(syntax.EQL, a, b)
		return err
	}},
	{"<", func(th *starlark.Thread, a, b starlark.Value) error {
		_, err := starlark.Compare(syntax.LT, a, b)
		return err
	}},
	{"hash", func(th *starlark.Thread, a, b starlark.Value) error { _, err := a.Hash(); return err }},
	{"hash-builtin", func(th *starlark.Thread, a, b starlark.Value) error {
		_, err := starlark.Call(th, starlark.Universe["hash"], starlark.Tuple{a}, nil)
		return err
	}},
	{"json.encode", func(th *starlark.Thread, a, b starlark.Value) error {
		_, err := starlark.Call(th, sjson.Module.Members["encode"], starlark.Tuple{a}, nil)
		return err
	}},
	{"sorted", func(th *starlark.Thread, a, b starlark.Value) error {
		_, err := starlark.Call(th, starlark.Universe["sorted"], starlark.Tuple{starlark.NewList([]starlark.Value{a, b, a})}, nil)
		return err
	}},
	{"in", func(th *starlark.Thread, a, b starlark.Value) error {
		_, err := starlark.Binary(syntax.IN, a, b)
		return err
	}},
	{"dictkey", func(th *starlark.Thread, a, b starlark.Value) error { return starlark.NewDict(1).SetKey(a, b) }},
	{"setinsert", func(th *starlark.Thread, a, b starlark.Value) error { return starlark.NewSet(1).Insert(a) }},
	{"format", func(th *starlark.Thread, a, b starlark.Value) error {
		_, err := starlark.Binary(syntax.PERCENT, starlark.String("%s %r"), starlark.Tuple{a, b})
		return err
	}},
	{"print", func(th *starlark.Thread, a, b starlark.Value) error {
		_, err := starlark.Call(th, starlark.Universe["print"], starlark.Tuple{a, b}, nil)
		return err
	}},
	{"freeze", func(th *starlark.Thread, a, b starlark.Value) error { a.Freeze(); return nil }},
	{"str-after-freeze", func(th *starlark.Thread, a, b starlark.Value) error { _ = a.String(); return nil }},
	{"call", func(th *starlark.Thread, a, b starlark.Value) error {
		if f, ok := a.(starlark.Callable); ok {
			_, err := starlark.Call(th, f, nil, nil)
			return err
		}
		return nil
	}},
}

var nonPrintingOps = []string{"==", "==self", "==twin", "<", "hash", "hash-builtin", "json.encode", "sorted", "in", "dictkey", "setinsert", "freeze", "call"}

func graphEnv() starlark.StringDict {
	return starlark.StringDict{"struct": starlark.NewBuiltin("struct", starlarkstruct.Make), "json": sjson.Module}
}

func armGraphs(c *driver.Ctx) {
	n := c.Pick(300, 6000)
	for i := 0; i < n; i++ {
		if !c.Take() {
			continue
		}
		r := c.Rand()
		if i%2 == 1 {
			// cycles through structs are allowed here; the printing operations are left out for them
			// (the struct printer's missing cycle detection is a recorded finding with its own case)
			src, kinds := genGraph(r, true)
			runGraphOps(c, "graph-struct-cycles", src, kinds, nonPrintingOps)
			continue
		}
		src, kinds := genGraph(r, false)
		runGraph(c, "graph", src, kinds, true)
		if leaked.Load() >= 3 {
			c.RestartProcess()
		}
	}
	// module-level freeze of graphs stored in globals (freeze happens when the module finishes)
	for i := 0; i < n/4; i++ {
		if !c.Take() {
			continue
		}
		r := c.Rand()
		src, _ := genGraph(r, false)
		src += "g = build()\n"
		c.Note("key=C02 crash graph-module-freeze\n%s", src)
		res := guarded(20*time.Second, func(th *starlark.Thread) error {
			_, err := starlark.ExecFileOptions(sl.AllOptions(), th, "g.star", src, graphEnv())
			return err
		})
		c.Eval(1)
		c.Count("graph_modules_"+res.outcome, 1)
		if res.outcome == "panic" {
			c.Violation(fmt.Sprintf("C02 panic graph-module-freeze :: %s @ %s", normPanic(res.p.Value), res.p.TopFrame()), "Go panic "+fmt.Sprint(res.p.Value), map[string]any{"source": src})
		} else if res.err != nil {
			c.Violation("C02 graph-generator-invalid", "generated graph program failed: "+res.err.Error(), map[string]any{"source": src})
		}
		c.DistinctH(driver.Hash64("m" + src))
	}
	// the dedicated struct-cycle cases (cycle list -> struct -> list)
	scOps := []string{"str"}
	if c.Thorough() {
		scOps = []string{"str", "repr", "json.encode", "==self", "hash", "freeze", "print", "format"}
	}
	for _, op := range scOps {
		if !c.Take() {
			continue
		}
		src := "def build():\n    n0 = []\n    n1 = struct(a=n0, b=1)\n    n0.append(n1)\n    return [n0, n1]\n"
		runGraphOps(c, "struct-cycle", src, []string{"list", "struct"}, []string{op})
	}
}

func runGraph(c *driver.Ctx, site, src string, kinds []string, all bool) {
	var names []string
	for _, op := range graphOps {
		names = append(names, op.name)
	}
	runGraphOps(c, site, src, kinds, names)
}

func runGraphOps(c *driver.Ctx, site, src string, kinds []string, opNames []string) {
	var nodes, twins []starlark.Value
	c.Note("key=C02 crash %s build\n%s", site, src)
	res := guarded(20*time.Second, func(th *starlark.Thread) error {
		// build() is called from Go so that the nodes are NOT frozen by module completion
		g, err := starlark.ExecFileOptions(sl.AllOptions(), th, "g.star", src, graphEnv())
		if err != nil {
			return err
		}
		v, err := starlark.Call(th, g["build"], nil, nil)
		if err != nil {
			return err
		}
		l := v.(*starlark.List)
		for i := 0; i < l.Len(); i++ {
			nodes = append(nodes, l.Index(i))
		}
		// a second, separately built copy of the same graph (equal structure, distinct objects)
		v2, err := starlark.Call(th, g["build"], nil, nil)
		if err != nil {
			return err
		}
		l2 := v2.(*starlark.List)
		for i := 0; i < l2.Len(); i++ {
			twins = append(twins, l2.Index(i))
		}
		return nil
	})
	if res.outcome != "ok" {
		if res.outcome == "panic" {
			c.Violation(fmt.Sprintf("C02 panic %s build :: %s @ %s", site, normPanic(res.p.Value), res.p.TopFrame()), "Go panic "+fmt.Sprint(res.p.Value), map[string]any{"source": src})
		} else if res.err != nil {
			c.Violation("C02 graph-generator-invalid", "generated graph program failed: "+res.err.Error(), map[string]any{"source": src})
		}
		return
	}
	c.DistinctH(driver.Hash64(src))
	for _, k := range kinds {
		c.Cover("graph_node_kinds", k)
	}
	for _, on := range opNames {
		var op graphOp
		for _, o := range graphOps {
			if o.name == on {
				op = o
			}
		}
		for i, a := range nodes {
			b := nodes[(i+1)%len(nodes)]
			if op.name == "==twin" {
				b = twins[i]
			}
			c.Note("key=C02 fatal %s %s\nnode %d (%s) of:\n%s", site, op.name, i, kinds[i], src)
			res := guarded(20*time.Second, func(th *starlark.Thread) error { return op.run(th, a, b) })
			c.Eval(1)
			c.Count("graph_ops_"+res.outcome, 1)
			c.Cover("graph_ops", op.name)
			if res.outcome == "panic" {
				c.Violation(fmt.Sprintf("C02 panic %s %s :: %s @ %s", site, op.name, normPanic(res.p.Value), res.p.TopFrame()),
					fmt.Sprintf("Go panic %v applying %s to node %d (%s)", res.p.Value, op.name, i, kinds[i]), map[string]any{"source": src, "op": op.name, "node": i})
			} else if res.outcome == "timeout" {
				c.Count("timeouts_excluded(wall-clock; not judged)", 1)
				return // the abandoned goroutine still uses this graph: do not touch it again
			}
		}
	}
	if c.WantSample() {
		c.Sample(map[string]any{"arm": "graph", "site": site, "program": src, "ops": opNames})
	}
}
