// Package c02 monitors property C02: no source text and no built-in call can crash the host.
package c02

import (
	"math"
	"math/big"
	"strings"
	"time"

	sjson "go.starlark.net/lib/json"
	smath "go.starlark.net/lib/math"
	stime "go.starlark.net/lib/time"
	"go.starlark.net/starlark"
	"go.starlark.net/starlarkstruct"

	"verif/internal/sl"
)

type pv struct {
	name string
	v    starlark.Value
	tags string // "huge" = Len() >= 2^31 (allocation proportional to it is the excluded 'single huge allocation')
}

var bigString = strings.Repeat("abcdefgh", 8192) // 64 KiB
var bigBytes = starlark.Bytes(strings.Repeat("\x00\xff\x80a", 16384))

const poolSrc = `
def f0(): return 1
def f1(x): return x
def f2(a, b=2, *args, c=3, **kw): return (a, b, args, c, kw)
def frec(n): return frec(n + 1)
lam = lambda *a, **k: len(a) + len(k)
def mkclosure():
    state = [0]
    def bump(n=1):
        state[0] += n
        return state[0]
    return bump
clo = mkclosure()
def raises(*a, **k): fail("boom")
`

// newPool builds a fresh pool (mutable members are fresh objects each time).
func newPool() []pv {
	I := starlark.MakeInt
	bigI := func(s string) starlark.Value { b, _ := new(big.Int).SetString(s, 0); return starlark.MakeBigInt(b) }
	var p []pv
	add := func(name string, v starlark.Value) { p = append(p, pv{name: name, v: v}) }
	add("None", starlark.None)
	add("True", starlark.True)
	add("False", starlark.False)
	for _, n := range []int{0, 1, -1, 2, 3, 7, 10, 36, 37, 255, 256, 65536, 1 << 20} {
		add("int", I(n))
	}
	for _, s := range []string{"2147483647", "2147483648", "-2147483648", "-2147483649", "4294967296", "4611686018427387904", "-4611686018427387904",
		"9223372036854775807", "9223372036854775808", "-9223372036854775808", "-9223372036854775809", "18446744073709551615", "18446744073709551616",
		"0x100000000000000000000000000000000000000000000000000", "-0x100000000000000000000000000000000000000000000000000", "1152921504606846976"} {
		add("bigint", bigI(s))
	}
	for _, f := range []float64{0, math.Copysign(0, -1), 1, 0.5, -1.5, math.Inf(1), math.Inf(-1), math.NaN(), 1e308, 5e-324, 1e18, 9223372036854775808.0, -9223372036854775808.0, 4294967296.0, 2147483648.0, 1e100, 255.0, 2.5} {
		add("float", starlark.Float(f))
	}
	for _, s := range []string{"", "a", "abc", "hello world", "abcdefghijk", "abcdefghijkl", "abcdefghijklm", "\xff\xfe", "a\x00b", "%s", "%d", "%d %s %r", "%c", "%%", "%", "%(x)s", "{}", "{0}", "{} {}", "{a}", "{a.b}", "{0[1]}", "{", "}", "{!r}", "{:d}",
		" ", "\n", "a\nb\r\nc", "123", "-123", "0x1f", "0b101", "0o17", "1e5", "nan", "inf", "a,b,c", "  pad  ", "Ünïcödé ☃ 😀", " ", "ǅ", "ß", "UTC", "America/New_York", "2006-01-02T15:04:05Z07:00", "1h30m", "__", "key", "x"} {
		add("string", starlark.String(s))
	}
	add("string64k", starlark.String(bigString))
	for _, s := range []string{"", "abc", "\xff", "a\x00b", "a,b"} {
		add("bytes", starlark.Bytes(s))
	}
	add("bytes64k", bigBytes)

	mkList := func(vs ...starlark.Value) *starlark.List { return starlark.NewList(vs) }
	add("list-empty", mkList())
	add("list-ints", mkList(I(3), I(1), I(2)))
	add("list-strs", mkList(starlark.String("b"), starlark.String("a")))
	add("list-mixed", mkList(I(1), starlark.String("a"), starlark.None, starlark.Float(1.5)))
	add("list-pairs", mkList(starlark.Tuple{starlark.String("k"), I(1)}, starlark.Tuple{starlark.String("j"), I(2)}))
	big := make([]starlark.Value, 100000)
	for i := range big {
		big[i] = I(i % 97)
	}
	add("list-100k", starlark.NewList(big))
	fl := mkList(I(1), I(2))
	fl.Freeze()
	add("list-frozen", fl)
	il := mkList(I(1), I(2), I(3))
	il.Iterate() // left open on purpose: the list is "being iterated"
	add("list-iterating", il)
	self := mkList(I(1))
	self.Append(self)
	add("list-self", self)
	deep := starlark.Value(mkList())
	for i := 0; i < 20000; i++ {
		deep = mkList(deep)
	}
	add("list-deep20k", deep)
	deepT := starlark.Value(starlark.Tuple{})
	for i := 0; i < 20000; i++ {
		deepT = starlark.Tuple{deepT}
	}
	add("tuple-deep20k", deepT)

	add("tuple-empty", starlark.Tuple{})
	add("tuple-1", starlark.Tuple{I(1)})
	add("tuple-strs", starlark.Tuple{starlark.String("a"), starlark.String("ab")})
	add("tuple-mixed", starlark.Tuple{I(1), starlark.String("a"), starlark.Tuple{I(2)}})

	mkDict := func(kv ...starlark.Value) *starlark.Dict {
		d := starlark.NewDict(len(kv) / 2)
		for i := 0; i+1 < len(kv); i += 2 {
			d.SetKey(kv[i], kv[i+1])
		}
		return d
	}
	add("dict-empty", mkDict())
	add("dict-str", mkDict(starlark.String("a"), I(1), starlark.String("b"), I(2)))
	add("dict-int", mkDict(I(1), starlark.String("x"), I(2), starlark.String("y")))
	add("dict-mixed", mkDict(I(1), I(1), starlark.String("a"), mkList(), starlark.Tuple{I(1)}, starlark.None))
	fd := mkDict(starlark.String("a"), I(1))
	fd.Freeze()
	add("dict-frozen", fd)
	id := mkDict(starlark.String("a"), I(1), starlark.String("b"), I(2))
	id.Iterate()
	add("dict-iterating", id)
	sd := mkDict(starlark.String("a"), I(1))
	sd.SetKey(starlark.String("self"), sd)
	add("dict-self", sd)

	mkSet := func(vs ...starlark.Value) *starlark.Set {
		s := starlark.NewSet(len(vs))
		for _, v := range vs {
			s.Insert(v)
		}
		return s
	}
	add("set-empty", mkSet())
	add("set-ints", mkSet(I(1), I(2), I(3)))
	add("set-strs", mkSet(starlark.String("a"), starlark.String("b")))
	fs := mkSet(I(1))
	fs.Freeze()
	add("set-frozen", fs)
	is := mkSet(I(1), I(2))
	is.Iterate()
	add("set-iterating", is)

	th := &starlark.Thread{Name: "pool"}
	rng := func(args ...int) starlark.Value {
		var t starlark.Tuple
		for _, a := range args {
			t = append(t, I(a))
		}
		v, err := starlark.Call(th, starlark.Universe["range"], t, nil)
		if err != nil {
			panic(err)
		}
		return v
	}
	add("range-0", rng(0))
	add("range-5", rng(5))
	add("range-neg", rng(10, 0, -3))
	add("range-step", rng(-5, 5, 2))
	p = append(p, pv{name: "range-2^60", v: rng(1 << 60), tags: "huge"})
	p = append(p, pv{name: "range-2^31", v: rng(1 << 31), tags: "huge"})
	p = append(p, pv{name: "range-neg-huge", v: rng(1<<61, -(1 << 61), -3), tags: "huge"})

	g, err := starlark.ExecFileOptions(sl.AllOptions(), th, "pool.star", poolSrc, nil)
	if err != nil {
		panic(err)
	}
	for _, n := range []string{"f0", "f1", "f2", "frec", "lam", "clo", "raises"} {
		add("func-"+n, g[n])
	}
	add("builtin-len", starlark.Universe["len"])
	add("builtin-print", starlark.Universe["print"])
	lm, _ := mkList(I(1)).Attr("append")
	add("method-list.append", lm)
	sm, _ := starlark.String("a,b").Attr("split")
	add("method-str.split", sm)

	st := starlarkstruct.FromStringDict(starlarkstruct.Default, starlark.StringDict{"a": I(1), "b": starlark.String("x")})
	add("struct", st)
	add("struct-empty", starlarkstruct.FromStringDict(starlarkstruct.Default, starlark.StringDict{}))
	// iterables of unknown length (Len() < 0) and other lazy views
	for _, m := range []struct {
		recv starlark.Value
		name string
	}{
		{starlark.String("abc"), "codepoints"}, {starlark.String("a"), "codepoints"}, {starlark.String(""), "elems"},
		{starlark.String("héllo"), "codepoint_ords"}, {starlark.String("ab"), "elem_ords"}, {starlark.Bytes("abc"), "elems"}, {starlark.Bytes(""), "elems"},
	} {
		if f, err := m.recv.(starlark.HasAttrs).Attr(m.name); err == nil && f != nil {
			if v, err := starlark.Call(th, f, nil, nil); err == nil {
				add("lazy-"+m.name, v)
			}
		}
	}
	if f, err := mkDict(starlark.String("a"), I(1)).Attr("items"); err == nil {
		if v, err := starlark.Call(th, f, nil, nil); err == nil {
			add("dict-items", v)
		}
	}
	add("module-json", sjson.Module)
	add("module-math", smath.Module)
	add("time", stime.Time(time.Unix(1700000000, 123456789).UTC()))
	add("time-zero", stime.Time(time.Time{}))
	add("time-far", stime.Time(time.Unix(1<<40, 0)))
	add("duration", stime.Duration(90*time.Minute))
	add("duration-min", stime.Duration(math.MinInt64))
	add("duration-0", stime.Duration(0))
	return p
}

var kwNames = []string{"key", "reverse", "default", "start", "end", "sep", "count", "maxsplit", "keepends", "chars", "x", "base", "indent", "prefix",
	"year", "month", "day", "hour", "minute", "second", "nanosecond", "location", "sec", "nsec", "iterable", "name", "old", "new", "a", "", "not an ident", "key"}
