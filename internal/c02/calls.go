package c02

import (
	"fmt"
	"math"
	"regexp"
	"runtime/metrics"
	"sort"
	"strings"
	"sync/atomic"
	"time"

	sjson "go.starlark.net/lib/json"
	smath "go.starlark.net/lib/math"
	stime "go.starlark.net/lib/time"
	"go.starlark.net/starlark"
	"go.starlark.net/starlarkstruct"

	"verif/internal/driver"
	"verif/internal/sl"
)

// callKind is one callable identified by a stable name; mk binds it to a receiver from the pool.
type callKind struct {
	name string
	recv string // receiver type for methods ("" = plain function)
	fn   starlark.Value
	attr string
}

func enumerateCallKinds() []callKind {
	var ks []callKind
	var names []string
	for n, v := range starlark.Universe {
		if _, ok := v.(starlark.Callable); ok {
			names = append(names, n)
		}
	}
	sort.Strings(names)
	for _, n := range names {
		ks = append(ks, callKind{name: n, fn: starlark.Universe[n]})
	}
	ks = append(ks, callKind{name: "struct", fn: starlark.NewBuiltin("struct", starlarkstruct.Make)})
	for _, m := range []*starlarkstruct.Module{sjson.Module, smath.Module, stime.Module} {
		var ms []string
		for n, v := range m.Members {
			if _, ok := v.(starlark.Callable); ok {
				ms = append(ms, n)
			}
		}
		sort.Strings(ms)
		for _, n := range ms {
			ks = append(ks, callKind{name: m.Name + "." + n, fn: m.Members[n]})
		}
	}
	// methods: every attribute of every pool value type that is callable
	seen := map[string]bool{}
	for _, p := range newPool() {
		ha, ok := p.v.(starlark.HasAttrs)
		if !ok {
			continue
		}
		if _, isMod := p.v.(*starlarkstruct.Module); isMod {
			continue
		}
		t := p.v.Type()
		attrs := ha.AttrNames()
		sort.Strings(attrs)
		for _, a := range attrs {
			if seen[t+"."+a] {
				continue
			}
			v, err := ha.Attr(a)
			if err != nil || v == nil {
				continue
			}
			if _, ok := v.(starlark.Callable); !ok {
				continue
			}
			seen[t+"."+a] = true
			ks = append(ks, callKind{name: t + "." + a, recv: t, attr: a})
		}
	}
	return ks
}

var reNum = regexp.MustCompile(`\d+`)
var reHex = regexp.MustCompile(`0x[0-9a-fA-F]+`)

func normPanic(v any) string {
	s := fmt.Sprint(v)
	if len(s) > 120 {
		s = s[:120]
	}
	return reNum.ReplaceAllString(reHex.ReplaceAllString(s, "X"), "N")
}

func isHugeAllocPanic(msg string) bool {
	for _, m := range []string{"makeslice: len out of range", "makeslice: cap out of range", "growslice: len out of range", "growslice: cap out of range",
		"strings: Repeat count causes overflow", "strings: Repeat output length overflow", "strings.Builder.Grow: negative count", "bytes.Buffer: too large", "bytes.Buffer.Grow: negative count"} {
		if strings.Contains(msg, m) {
			return true
		}
	}
	return false
}

type callResult struct {
	outcome string // ok, error, panic, timeout
	err     error
	p       *sl.Panic
	steps   uint64
}

var leaked atomic.Int32

const stepBudget = 200000

// guarded runs f on a fresh thread in its own goroutine and waits at most d for it.
func guarded(d time.Duration, f func(th *starlark.Thread) error) callResult {
	stackBase := stackBytes()
	ch := make(chan callResult, 1)
	go func() {
		th := &starlark.Thread{Name: "c02", Print: func(*starlark.Thread, string) {}}
		th.SetMaxExecutionSteps(stepBudget)
		hs := &hookState{budget: stepBudget}
		th.SetLocal("c02", hs)
		var err error
		p := sl.Safe(func() { err = f(th) })
		r := callResult{err: err, p: p, steps: uint64(hs.count)}
		switch {
		case p != nil:
			r.outcome = "panic"
		case err != nil:
			r.outcome = "error"
		default:
			r.outcome = "ok"
		}
		ch <- r
	}()
	select {
	case r := <-ch:
		return r
	case <-time.After(d):
	}
	// Not back yet. If goroutine stacks have grown a lot since this call started and are still
	// growing, a runaway recursion is heading for the fatal stack-overflow: keep waiting so that
	// the crash is attributed to this input (the write-ahead note still names it). Otherwise
	// abandon the call. (Stacks held by earlier abandoned calls are in the baseline.)
	prev, still := stackBytes(), 0
	for i := 0; i < 200 && prev > stackBase+(48<<20) && still < 45; i++ {
		select {
		case r := <-ch:
			return r
		case <-time.After(time.Second):
		}
		cur := stackBytes()
		if cur == prev {
			still++
		} else {
			still = 0
		}
		prev = cur
	}
	select {
	case r := <-ch:
		return r
	default:
	}
	leaked.Add(1)
	return callResult{outcome: "timeout"}
}

// stackBytes reads the memory held by goroutine stacks (cheap: no stop-the-world).
func stackBytes() uint64 {
	s := []metrics.Sample{{Name: "/memory/classes/heap/stacks:bytes"}}
	metrics.Read(s)
	if s[0].Value.Kind() == metrics.KindUint64 {
		return s[0].Value.Uint64()
	}
	return 0
}

type hookState struct {
	count  int64
	budget int64
}

type overBudget struct{ count int64 }

func installHook() {
	starlark.VerifStepHook = func(th *starlark.Thread, fn *starlark.Function, pc uint32, op uint8) {
		hs, _ := th.Local("c02").(*hookState)
		if hs == nil {
			return
		}
		hs.count++
		if hs.count >= hs.budget+1000 {
			panic(overBudget{hs.count})
		}
	}
}

func describe(v starlark.Value) string {
	var s string
	p := sl.Safe(func() {
		switch x := v.(type) {
		case starlark.String:
			s = fmt.Sprintf("str[%d]%q", len(x), driver.Truncate(string(x), 24))
		case starlark.Bytes:
			s = fmt.Sprintf("bytes[%d]", len(x))
		case starlark.Int, starlark.Float, starlark.Bool, starlark.NoneType:
			s = driver.Truncate(v.String(), 40)
		default:
			s = v.Type()
		}
	})
	if p != nil {
		return v.Type()
	}
	return s
}

func armCalls(c *driver.Ctx) {
	kinds := enumerateCallKinds()
	for _, k := range kinds {
		c.Cover("callables_enumerated", k.name)
	}
	// unary sweep: every callable with every pool value as its only argument (and, for methods, every
	// receiver of the type with every pool value), so that no (callable, argument kind) pair is left to chance
	for ki := range kinds {
		if !c.Take() {
			continue
		}
		k := kinds[ki]
		pool := newPool()
		var recvs []pv
		if k.recv != "" {
			for _, p := range pool {
				if p.v.Type() == k.recv {
					recvs = append(recvs, p)
				}
			}
		} else {
			recvs = []pv{{}}
		}
		for ri := range recvs {
			for ai := range pool {
				fn := k.fn
				recvDesc := ""
				huge := false
				if k.recv != "" {
					rp := recvs[ri]
					v, err := rp.v.(starlark.HasAttrs).Attr(k.attr)
					if err != nil || v == nil {
						break
					}
					fn = v
					recvDesc = rp.name + ":" + describe(rp.v)
					huge = rp.tags == "huge"
					if ri > 1 && ai%4 != ri%4 {
						continue // beyond the first two receivers of a type: a quarter of the arguments each
					}
				}
				a := pool[ai]
				huge = huge || a.tags == "huge"
				text := fmt.Sprintf("%s recv=%s args=(%s)", k.name, recvDesc, a.name+":"+describe(a.v))
				c.Note("key=C02 crash call %s\n%s", k.name, text)
				nilAt := ""
				res := guarded(2*time.Second, func(th *starlark.Thread) error {
					v, err := starlark.Call(th, fn, starlark.Tuple{a.v}, nil)
					if err == nil {
						nilAt = findNil(v, "result", new(int))
					}
					return err
				})
				if nilAt != "" {
					c.Violation("C02 nil-value-in-result call "+k.name, "a built-in returned a value containing a nil (not None) element at "+nilAt+": any use of it crashes the host: "+text, map[string]any{"input": text})
				}
				c.Eval(1)
				c.Count("calls_"+res.outcome, 1)
				c.Count("unary_sweep_calls", 1)
				c.Cover("callables_reached", k.name)
				c.Distinct(k.name + "(" + a.v.Type() + ")kw0")
				judgeCall(c, "call "+k.name, text, res, huge)
				if res.outcome == "timeout" {
					pool = newPool()
					if k.recv != "" {
						recvs = recvs[:0]
						for _, p := range pool {
							if p.v.Type() == k.recv {
								recvs = append(recvs, p)
							}
						}
						if ri >= len(recvs) {
							break
						}
					}
				}
			}
			if leaked.Load() >= 3 {
				c.RestartProcess()
			}
		}
	}
	rounds := c.Pick(3, 40)
	per := 40
	for round := 0; round < rounds; round++ {
		for ki := range kinds {
			if !c.Take() {
				continue
			}
			k := kinds[ki]
			r := c.Rand()
			pool := newPool()
			byType := map[string][]pv{}
			var iterables []pv
			for _, p := range pool {
				byType[p.v.Type()] = append(byType[p.v.Type()], p)
				if _, ok := p.v.(starlark.Iterable); ok && p.tags != "huge" && p.name != "list-100k" && !strings.Contains(p.name, "deep") {
					iterables = append(iterables, p)
				}
			}
			for n := 0; n < per; n++ {
				fn := k.fn
				huge := false
				recvDesc := ""
				if k.recv != "" {
					cands := byType[k.recv]
					rp := cands[r.Intn(len(cands))]
					v, err := rp.v.(starlark.HasAttrs).Attr(k.attr)
					if err != nil || v == nil {
						continue
					}
					fn = v
					recvDesc = rp.name + ":" + describe(rp.v)
					huge = huge || rp.tags == "huge"
				}
				nargs := r.Intn(5)
				if n < 3 {
					nargs = n // make sure 0, 1, 2 arguments are always tried
				}
				var args starlark.Tuple
				var desc []string
				for i := 0; i < nargs; i++ {
					a := pool[r.Intn(len(pool))]
					if n%2 == 1 && len(iterables) > 0 {
						// every other call draws its arguments from the iterable values only, so that
						// pairs of (long, short / lazy / huge) sequences meet often
						a = iterables[r.Intn(len(iterables))]
					}
					args = append(args, a.v)
					desc = append(desc, a.name+":"+describe(a.v))
					huge = huge || a.tags == "huge"
				}
				var kwargs []starlark.Tuple
				if r.Intn(3) == 0 {
					for i, nk := 0, 1+r.Intn(2); i < nk; i++ {
						a := pool[r.Intn(len(pool))]
						kn := kwNames[r.Intn(len(kwNames))]
						kwargs = append(kwargs, starlark.Tuple{starlark.String(kn), a.v})
						desc = append(desc, kn+"="+a.name+":"+describe(a.v))
						huge = huge || a.tags == "huge"
					}
				}
				text := fmt.Sprintf("%s recv=%s args=(%s)", k.name, recvDesc, strings.Join(desc, ", "))
				c.Note("key=C02 crash call %s\n%s", k.name, text)
				nilAt := ""
				res := guarded(2*time.Second, func(th *starlark.Thread) error {
					v, err := starlark.Call(th, fn, args, kwargs)
					if err == nil {
						// use the result the way a program would: visit every element
						nilAt = findNil(v, "result", new(int))
					}
					return err
				})
				if nilAt != "" {
					c.Violation("C02 nil-value-in-result call "+k.name, "a built-in returned a value containing a nil (not None) element at "+nilAt+": any use of it crashes the host: "+text, map[string]any{"input": text})
				}
				c.Eval(1)
				c.Count("calls_"+res.outcome, 1)
				c.Cover("callables_reached", k.name)
				c.Cover("arity_kw_shapes", fmt.Sprintf("%d/%d", nargs, len(kwargs)))
				var types []string
				for _, a := range args {
					types = append(types, a.Type())
				}
				c.Distinct(k.name + "(" + strings.Join(types, ",") + fmt.Sprintf(")kw%d", len(kwargs)))
				judgeCall(c, "call "+k.name, text, res, huge)
				if res.outcome == "timeout" {
					// The abandoned goroutine may still be using (and mutating) the pool values:
					// never touch them again from this goroutine.
					pool = newPool()
					byType = map[string][]pv{}
					iterables = nil
					for _, p := range pool {
						byType[p.v.Type()] = append(byType[p.v.Type()], p)
						if _, ok := p.v.(starlark.Iterable); ok && p.tags != "huge" && p.name != "list-100k" && !strings.Contains(p.name, "deep") {
							iterables = append(iterables, p)
						}
					}
				}
			}
			if leaked.Load() >= 3 {
				c.RestartProcess()
			}
		}
	}
}

// findNil walks the containers of v (bounded) and returns the path of the first nil element.
func findNil(v starlark.Value, path string, budget *int) string {
	*budget++
	if *budget > 5000 {
		return ""
	}
	if v == nil {
		return path
	}
	switch v := v.(type) {
	case starlark.Tuple:
		for i, e := range v {
			if p := findNil(e, fmt.Sprintf("%s[%d]", path, i), budget); p != "" {
				return p
			}
		}
	case *starlark.List:
		for i := 0; i < v.Len() && i < 200; i++ {
			if p := findNil(v.Index(i), fmt.Sprintf("%s[%d]", path, i), budget); p != "" {
				return p
			}
		}
	case *starlark.Dict:
		for i, kv := range v.Items() {
			if i >= 200 {
				break
			}
			if p := findNil(kv[0], fmt.Sprintf("%s.key%d", path, i), budget); p != "" {
				return p
			}
			if p := findNil(kv[1], fmt.Sprintf("%s.value%d", path, i), budget); p != "" {
				return p
			}
		}
	}
	return ""
}

func judgeCall(c *driver.Ctx, site, text string, res callResult, huge bool) {
	switch res.outcome {
	case "panic":
		if ob, ok := res.p.Value.(overBudget); ok {
			c.Violation("C02 budget-overrun "+site, fmt.Sprintf("%d instruction starts with a budget of %d: %s", ob.count, stepBudget, text), map[string]any{"input": text})
			return
		}
		msg := normPanic(res.p.Value)
		if isHugeAllocPanic(msg) && huge {
			c.Count("excluded_huge_allocation_panics", 1)
			return
		}
		key := fmt.Sprintf("C02 panic %s :: %s @ %s", site, msg, res.p.TopFrame())
		c.Violation(key, "Go panic: "+fmt.Sprint(res.p.Value)+" in "+text, map[string]any{"input": text, "stack": driver.Truncate(res.p.Stack, 3000)})
	case "timeout":
		c.Count("timeouts_excluded(wall-clock; not judged)", 1)
		c.Cover("timeout_sites", site)
		if c.WantSample() {
			c.Sample(map[string]any{"arm": "timeout (not judged)", "input": driver.Truncate(text, 300)})
		}
	default:
		if res.steps >= stepBudget {
			c.Violation("C02 budget-overrun "+site, fmt.Sprintf("%d instruction starts with a budget of %d: %s", res.steps, stepBudget, text), map[string]any{"input": text})
		}
		if c.WantSample() && res.outcome == "error" {
			c.Sample(map[string]any{"arm": "call", "input": driver.Truncate(text, 300), "outcome": res.outcome, "error": driver.Truncate(res.err.Error(), 160)})
		}
	}
}

var _ = math.MaxInt64
