#!/usr/bin/python3
# Second reference for C18: CPython's json module in strict mode, mapped into the canonical
# data model used by the Go side (see model.go):
#   n | T | F | i<decimal> | f<16 hex digits IEEE bits> | s<hex utf-8> | [..] | {<hexkey>:v,...} (sorted, last duplicate wins)
# Request : {"docs": [<hex of document bytes>, ...]}
# Response: {"r": [[1, canon] | [0, reason], ...]}
import sys, json, struct

try:
    sys.set_int_max_str_digits(0)
except AttributeError:
    pass
sys.setrecursionlimit(20000)


class I(str):
    pass


class Fl(str):
    pass


class O(object):
    __slots__ = ("d",)

    def __init__(self, pairs):
        d = {}
        for k, v in pairs:
            d[k] = v  # last duplicate wins
        self.d = d


def const(name):
    raise ValueError("constant " + name + " is not JSON")


def canon(v, out):
    if v is None:
        out.append("n")
    elif v is True:
        out.append("T")
    elif v is False:
        out.append("F")
    elif isinstance(v, I):
        out.append("i" + str(int(v)))
    elif isinstance(v, Fl):
        out.append("f" + struct.pack(">d", float(v)).hex())
    elif isinstance(v, str):
        out.append("s" + v.encode("utf-8", "surrogatepass").hex())
    elif isinstance(v, list):
        out.append("[")
        first = True
        for e in v:
            if not first:
                out.append(",")
            first = False
            canon(e, out)
        out.append("]")
    elif isinstance(v, O):
        items = sorted(((k.encode("utf-8", "surrogatepass"), x) for k, x in v.d.items()), key=lambda kv: kv[0])
        out.append("{")
        first = True
        for k, x in items:
            if not first:
                out.append(",")
            first = False
            out.append(k.hex())
            out.append(":")
            canon(x, out)
        out.append("}")
    else:
        out.append("?" + type(v).__name__)


def one(h):
    try:
        raw = bytes.fromhex(h)
    except ValueError:
        return [0, "bad hex"]
    try:
        s = raw.decode("utf-8")
    except UnicodeDecodeError as e:
        return [0, "not UTF-8: " + str(e)[:80]]
    try:
        v = json.loads(s, parse_int=I, parse_float=Fl, parse_constant=const, object_pairs_hook=O)
    except RecursionError:
        return [0, "recursion limit"]
    except ValueError as e:
        return [0, str(e)[:120]]
    out = []
    try:
        canon(v, out)
    except RecursionError:
        return [0, "recursion limit"]
    return [1, "".join(out)]


def main():
    for line in sys.stdin:
        line = line.strip()
        if not line:
            continue
        req = json.loads(line)
        res = [one(h) for h in req.get("docs", [])]
        sys.stdout.write(json.dumps({"r": res}) + "\n")
        sys.stdout.flush()


main()
