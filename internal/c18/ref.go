package c18

import (
	_ "embed"
	"encoding/hex"
	"encoding/json"
	"fmt"
	"math"
	"math/big"
	"sort"
	"strconv"
	"strings"

	"verif/internal/driver"
)

//go:embed ref.py
var refPy string

// goRes is the opinion of Go's encoding/json on a document.
type goRes struct {
	valid    bool
	canon    string
	err      string
	overflow bool // a number token is outside float64 range (ParseFloat: ErrRange to ±Inf)
}

func goRef(doc string) goRes {
	if !json.Valid([]byte(doc)) {
		var v any
		err := json.Unmarshal([]byte(doc), &v)
		msg := "json.Valid = false"
		if err != nil {
			msg = err.Error()
		}
		return goRes{valid: false, err: msg}
	}
	dec := json.NewDecoder(strings.NewReader(doc))
	dec.UseNumber()
	var v any
	if err := dec.Decode(&v); err != nil {
		// Valid but not decodable: treat as a reference limit, not as a verdict.
		return goRes{valid: true, err: err.Error(), overflow: true}
	}
	var sb strings.Builder
	res := goRes{valid: true}
	canonAny(&sb, v, &res)
	res.canon = sb.String()
	return res
}

func canonAny(sb *strings.Builder, v any, res *goRes) {
	switch v := v.(type) {
	case nil:
		sb.WriteByte('n')
	case bool:
		if v {
			sb.WriteByte('T')
		} else {
			sb.WriteByte('F')
		}
	case json.Number:
		s := string(v)
		if strings.ContainsAny(s, ".eE") {
			f, err := strconv.ParseFloat(s, 64)
			if err != nil || math.IsInf(f, 0) {
				res.overflow = true
			}
			fmt.Fprintf(sb, "f%016x", math.Float64bits(f))
		} else {
			x, ok := new(big.Int).SetString(s, 10)
			if !ok {
				sb.WriteString("?int:" + s)
				return
			}
			sb.WriteByte('i')
			sb.WriteString(x.String())
		}
	case string:
		sb.WriteByte('s')
		sb.WriteString(hex.EncodeToString([]byte(v)))
	case []any:
		sb.WriteByte('[')
		for i, e := range v {
			if i > 0 {
				sb.WriteByte(',')
			}
			canonAny(sb, e, res)
		}
		sb.WriteByte(']')
	case map[string]any:
		keys := make([]string, 0, len(v))
		for k := range v {
			keys = append(keys, k)
		}
		sort.Strings(keys)
		sb.WriteByte('{')
		for i, k := range keys {
			if i > 0 {
				sb.WriteByte(',')
			}
			sb.WriteString(hex.EncodeToString([]byte(k)))
			sb.WriteByte(':')
			canonAny(sb, v[k], res)
		}
		sb.WriteByte('}')
	default:
		fmt.Fprintf(sb, "?%T", v)
	}
}

// pyRes is the opinion of CPython's json on a document.
type pyRes struct {
	valid bool
	canon string // or the reason when !valid
}

type pyRef struct {
	py *driver.Py
}

func startPy() (*pyRef, error) {
	py, err := driver.StartPy(refPy)
	if err != nil {
		return nil, err
	}
	p := &pyRef{py: py}
	// self-test: the server must answer and agree on a trivial document
	r, err := p.ask([]string{`{"a":[1,2.5,"x",null,true]}`, `[1,]`})
	if err != nil {
		py.Close()
		return nil, err
	}
	if len(r) != 2 || !r[0].valid || r[1].valid || r[0].canon != "{61:[i1,f4004000000000000,s78,n,T]}" {
		py.Close()
		return nil, fmt.Errorf("python reference self-test failed: %+v", r)
	}
	return p, nil
}

func (p *pyRef) ask(docs []string) ([]pyRes, error) {
	hx := make([]string, len(docs))
	for i, d := range docs {
		hx[i] = hex.EncodeToString([]byte(d))
	}
	var resp struct {
		R [][]any `json:"r"`
	}
	if err := p.py.Call(map[string]any{"docs": hx}, &resp); err != nil {
		return nil, err
	}
	if len(resp.R) != len(docs) {
		return nil, fmt.Errorf("python reference: %d answers for %d documents", len(resp.R), len(docs))
	}
	out := make([]pyRes, len(docs))
	for i, r := range resp.R {
		if len(r) != 2 {
			return nil, fmt.Errorf("python reference: malformed answer")
		}
		ok, _ := r[0].(float64)
		s, _ := r[1].(string)
		out[i] = pyRes{valid: ok == 1, canon: s}
	}
	return out, nil
}

func (p *pyRef) close() {
	if p != nil && p.py != nil {
		p.py.Close()
	}
}
