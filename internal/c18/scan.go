package c18

import (
	"strconv"
	"strings"
)

// An independent RFC 8259 recogniser. It is used for three things:
//   - a second opinion on validity for EVERY document (it must agree with encoding/json.Valid,
//     otherwise the document is not judged and the run is inconclusive),
//   - naming the first grammar offence of an invalid document (stable violation keys),
//   - feature coverage of valid documents (escape kinds, number forms, whitespace kinds) and
//     detection of lone surrogate escapes (grammar-valid, semantics unspecified: RFC 8259 §8.2).

const (
	fEscQuote = iota
	fEscBackslash
	fEscSolidus
	fEscB
	fEscF
	fEscN
	fEscR
	fEscT
	fEscU
	fEscPair
	fRawNonASCII
	fRawDEL
	fNumInt
	fNumNegZero
	fNumFrac
	fNumExpLower
	fNumExpUpper
	fNumExpPlus
	fNumExpMinus
	fNumBig
	fWsSpace
	fWsTab
	fWsLF
	fWsCR
	fEmptyArr
	fEmptyObj
	fLitNull
	fLitTrue
	fLitFalse
	fNested
	fEmptyString
	nFeatures
)

var featureNames = [nFeatures]string{
	`escape \"`, `escape \\`, `escape \/`, `escape \b`, `escape \f`, `escape \n`, `escape \r`, `escape \t`,
	`escape \uXXXX`, `escape surrogate pair`, "raw non-ASCII", "raw DEL",
	"number int", "number -0", "number fraction", "number exponent e", "number exponent E", "number exponent +", "number exponent -", "number >19 digits",
	"ws space", "ws tab", "ws LF", "ws CR", "empty array", "empty object", "null", "true", "false", "nested container", "empty string",
}

type scanRes struct {
	ok       bool
	class    string // first offence (invalid documents)
	off      int
	lone     bool // a lone surrogate escape occurs (only meaningful if ok)
	overflow bool // a number token with fraction/exponent lies outside float64 range
	feat     uint64
	maxDepth int
}

type scanner struct {
	s     string
	i     int
	depth int
	res   scanRes
	// recording (minimiser): spans of all values, and of the elements/members of each container
	rec   bool
	vals  [][2]int
	elems [][3]int // start, end, container id
	nCont int
}

// scanSpans scans a document and returns the byte spans of its values and container elements.
func scanSpans(s string) (ok bool, vals [][2]int, elems [][3]int) {
	p := &scanner{s: s, rec: true}
	ok = p.doc()
	return ok, p.vals, p.elems
}

func scanDoc(s string) scanRes {
	p := &scanner{s: s}
	p.res.ok = p.doc()
	return p.res
}

func (p *scanner) fail(class string) bool {
	if p.res.class == "" {
		p.res.class = class
		p.res.off = p.i
	}
	return false
}

func (p *scanner) ws() {
	for p.i < len(p.s) {
		switch p.s[p.i] {
		case ' ':
			p.res.feat |= 1 << fWsSpace
		case '\t':
			p.res.feat |= 1 << fWsTab
		case '\n':
			p.res.feat |= 1 << fWsLF
		case '\r':
			p.res.feat |= 1 << fWsCR
		default:
			return
		}
		p.i++
	}
}

func (p *scanner) doc() bool {
	if p.s == "" {
		return p.fail("empty-input")
	}
	if strings.HasPrefix(p.s, "\xef\xbb\xbf") {
		return p.fail("leading-bom")
	}
	p.ws()
	if p.i >= len(p.s) {
		return p.fail("empty-input")
	}
	if !p.value() {
		return false
	}
	p.ws()
	if p.i < len(p.s) {
		if p.s[p.i] == '/' {
			return p.fail("comment")
		}
		return p.fail("trailing-garbage")
	}
	return true
}

func isDigit(b byte) bool { return b >= '0' && b <= '9' }
func isHex(b byte) bool {
	return b >= '0' && b <= '9' || b >= 'a' && b <= 'f' || b >= 'A' && b <= 'F'
}

func (p *scanner) value() bool {
	if p.rec {
		start := p.i
		ok := p.value1()
		if ok {
			p.vals = append(p.vals, [2]int{start, p.i})
		}
		return ok
	}
	return p.value1()
}

func (p *scanner) value1() bool {
	if p.i >= len(p.s) {
		return p.fail("unexpected-eof")
	}
	c := p.s[p.i]
	switch {
	case c == '"':
		return p.str()
	case c == '-' || isDigit(c):
		return p.num()
	case c == 't':
		return p.lit("true", fLitTrue)
	case c == 'f':
		return p.lit("false", fLitFalse)
	case c == 'n':
		return p.lit("null", fLitNull)
	case c == '[':
		return p.arr()
	case c == '{':
		return p.obj()
	case c == '.':
		return p.fail("number-leading-dot")
	case c == '+':
		return p.fail("number-leading-plus")
	case c == '\'':
		return p.fail("single-quote")
	case c == '/':
		return p.fail("comment")
	case c == ',':
		return p.fail("extra-comma")
	case c == ':':
		return p.fail("unexpected-colon")
	case c == ']' || c == '}':
		return p.fail("unexpected-closer")
	}
	rest := p.s[p.i:]
	if strings.HasPrefix(rest, "NaN") || strings.HasPrefix(rest, "Infinity") || strings.HasPrefix(rest, "nan") || strings.HasPrefix(rest, "inf") {
		return p.fail("nan-infinity-token")
	}
	low := strings.ToLower(rest)
	if strings.HasPrefix(low, "true") || strings.HasPrefix(low, "false") || strings.HasPrefix(low, "null") {
		return p.fail("literal-wrong-case")
	}
	if c < 0x20 {
		return p.fail("control-character-outside-string")
	}
	if c >= 0x80 {
		return p.fail("non-ascii-outside-string")
	}
	return p.fail("unexpected-character")
}

func (p *scanner) lit(word string, f int) bool {
	if strings.HasPrefix(p.s[p.i:], word) {
		p.i += len(word)
		p.res.feat |= 1 << f
		return true
	}
	return p.fail("truncated-literal")
}

func (p *scanner) num() bool {
	start := p.i
	neg := false
	if p.s[p.i] == '-' {
		neg = true
		p.i++
		if p.i >= len(p.s) {
			return p.fail("number-bare-minus")
		}
		c := p.s[p.i]
		if c == '.' {
			return p.fail("number-leading-dot")
		}
		if c == 'I' || c == 'i' || c == 'N' {
			return p.fail("nan-infinity-token")
		}
		if !isDigit(c) {
			return p.fail("number-bare-minus")
		}
	}
	intStart := p.i
	if p.s[p.i] == '0' {
		p.i++
		if p.i < len(p.s) && isDigit(p.s[p.i]) {
			return p.fail("number-leading-zero")
		}
	} else {
		for p.i < len(p.s) && isDigit(p.s[p.i]) {
			p.i++
		}
	}
	intLen := p.i - intStart
	frac, exp := false, false
	if p.i < len(p.s) && p.s[p.i] == '.' {
		p.i++
		if p.i >= len(p.s) || !isDigit(p.s[p.i]) {
			return p.fail("number-trailing-dot")
		}
		for p.i < len(p.s) && isDigit(p.s[p.i]) {
			p.i++
		}
		frac = true
	}
	if p.i < len(p.s) && (p.s[p.i] == 'e' || p.s[p.i] == 'E') {
		if p.s[p.i] == 'e' {
			p.res.feat |= 1 << fNumExpLower
		} else {
			p.res.feat |= 1 << fNumExpUpper
		}
		p.i++
		if p.i < len(p.s) && (p.s[p.i] == '+' || p.s[p.i] == '-') {
			if p.s[p.i] == '+' {
				p.res.feat |= 1 << fNumExpPlus
			} else {
				p.res.feat |= 1 << fNumExpMinus
			}
			p.i++
		}
		if p.i >= len(p.s) || !isDigit(p.s[p.i]) {
			return p.fail("number-empty-exponent")
		}
		for p.i < len(p.s) && isDigit(p.s[p.i]) {
			p.i++
		}
		exp = true
	}
	if frac {
		p.res.feat |= 1 << fNumFrac
	}
	if frac || exp {
		if _, err := strconv.ParseFloat(p.s[start:p.i], 64); err != nil {
			p.res.overflow = true
		}
	}
	if !frac && !exp {
		p.res.feat |= 1 << fNumInt
		if intLen > 19 {
			p.res.feat |= 1 << fNumBig
		}
	}
	if neg && p.s[start+1] == '0' {
		p.res.feat |= 1 << fNumNegZero
	}
	return true
}

func hexVal(s string) int {
	v := 0
	for i := 0; i < len(s); i++ {
		c := s[i]
		switch {
		case c >= '0' && c <= '9':
			v = v<<4 | int(c-'0')
		case c >= 'a' && c <= 'f':
			v = v<<4 | int(c-'a'+10)
		default:
			v = v<<4 | int(c-'A'+10)
		}
	}
	return v
}

func (p *scanner) str() bool {
	p.i++ // opening quote
	if p.i < len(p.s) && p.s[p.i] == '"' {
		p.res.feat |= 1 << fEmptyString
	}
	for {
		if p.i >= len(p.s) {
			return p.fail("unterminated-string")
		}
		c := p.s[p.i]
		switch {
		case c == '"':
			p.i++
			return true
		case c < 0x20:
			return p.fail("raw-control-in-string")
		case c == '\\':
			if p.i+1 >= len(p.s) {
				p.i++
				return p.fail("unterminated-string")
			}
			e := p.s[p.i+1]
			switch e {
			case '"':
				p.res.feat |= 1 << fEscQuote
			case '\\':
				p.res.feat |= 1 << fEscBackslash
			case '/':
				p.res.feat |= 1 << fEscSolidus
			case 'b':
				p.res.feat |= 1 << fEscB
			case 'f':
				p.res.feat |= 1 << fEscF
			case 'n':
				p.res.feat |= 1 << fEscN
			case 'r':
				p.res.feat |= 1 << fEscR
			case 't':
				p.res.feat |= 1 << fEscT
			case 'u':
				if p.i+6 > len(p.s) {
					return p.fail("bad-unicode-escape")
				}
				for k := 2; k < 6; k++ {
					if !isHex(p.s[p.i+k]) {
						return p.fail("bad-unicode-escape")
					}
				}
				u := hexVal(p.s[p.i+2 : p.i+6])
				switch {
				case u >= 0xD800 && u < 0xDC00:
					// needs a following low surrogate escape
					paired := false
					if p.i+12 <= len(p.s) && p.s[p.i+6] == '\\' && p.s[p.i+7] == 'u' {
						okhex := true
						for k := 8; k < 12; k++ {
							if !isHex(p.s[p.i+k]) {
								okhex = false
							}
						}
						if okhex {
							lo := hexVal(p.s[p.i+8 : p.i+12])
							if lo >= 0xDC00 && lo < 0xE000 {
								paired = true
							}
						}
					}
					if paired {
						p.res.feat |= 1 << fEscPair
						p.i += 6 // the low half is consumed below as part of this escape
					} else {
						p.res.lone = true
					}
				case u >= 0xDC00 && u < 0xE000:
					p.res.lone = true
				default:
					p.res.feat |= 1 << fEscU
				}
				p.i += 6
				continue
			default:
				return p.fail("bad-escape")
			}
			p.i += 2
		default:
			if c == 0x7f {
				p.res.feat |= 1 << fRawDEL
			} else if c >= 0x80 {
				p.res.feat |= 1 << fRawNonASCII
			}
			p.i++
		}
	}
}

func (p *scanner) enter() {
	p.depth++
	if p.depth > p.res.maxDepth {
		p.res.maxDepth = p.depth
	}
	if p.depth > 1 {
		p.res.feat |= 1 << fNested
	}
}

func (p *scanner) arr() bool {
	p.enter()
	defer func() { p.depth-- }()
	p.i++
	p.ws()
	if p.i < len(p.s) && p.s[p.i] == ']' {
		p.i++
		p.res.feat |= 1 << fEmptyArr
		return true
	}
	p.nCont++
	id := p.nCont
	for {
		if p.i >= len(p.s) {
			return p.fail("unterminated-container")
		}
		es := p.i
		if !p.value() {
			return false
		}
		if p.rec {
			p.elems = append(p.elems, [3]int{es, p.i, id})
		}
		p.ws()
		if p.i >= len(p.s) {
			return p.fail("unterminated-container")
		}
		switch p.s[p.i] {
		case ',':
			p.i++
			p.ws()
			if p.i < len(p.s) && p.s[p.i] == ']' {
				return p.fail("trailing-comma")
			}
		case ']':
			p.i++
			return true
		case '}':
			return p.fail("mismatched-closer")
		case '/':
			return p.fail("comment")
		default:
			return p.fail("missing-comma")
		}
	}
}

func (p *scanner) obj() bool {
	p.enter()
	defer func() { p.depth-- }()
	p.i++
	p.ws()
	if p.i < len(p.s) && p.s[p.i] == '}' {
		p.i++
		p.res.feat |= 1 << fEmptyObj
		return true
	}
	p.nCont++
	id := p.nCont
	for {
		if p.i >= len(p.s) {
			return p.fail("unterminated-container")
		}
		es := p.i
		switch c := p.s[p.i]; {
		case c == '"':
		case c == '\'':
			return p.fail("single-quote")
		case c == '/':
			return p.fail("comment")
		case c == ',':
			return p.fail("extra-comma")
		case c == ':':
			return p.fail("unexpected-colon")
		case c == ']':
			return p.fail("mismatched-closer")
		case c == '}':
			return p.fail("unexpected-closer")
		default:
			return p.fail("non-string-key")
		}
		if !p.str() {
			return false
		}
		p.ws()
		if p.i >= len(p.s) {
			return p.fail("unterminated-container")
		}
		if p.s[p.i] != ':' {
			if p.s[p.i] == '/' {
				return p.fail("comment")
			}
			return p.fail("missing-colon")
		}
		p.i++
		p.ws()
		if p.i >= len(p.s) {
			return p.fail("unterminated-container")
		}
		if !p.value() {
			return false
		}
		if p.rec {
			p.elems = append(p.elems, [3]int{es, p.i, id})
		}
		p.ws()
		if p.i >= len(p.s) {
			return p.fail("unterminated-container")
		}
		switch p.s[p.i] {
		case ',':
			p.i++
			p.ws()
			if p.i < len(p.s) && p.s[p.i] == '}' {
				return p.fail("trailing-comma")
			}
		case '}':
			p.i++
			return true
		case ']':
			return p.fail("mismatched-closer")
		case '/':
			return p.fail("comment")
		default:
			return p.fail("missing-comma")
		}
	}
}

// featureOf names the kind of a (minimised) valid document, for violation keys.
func featureOf(doc string) string {
	t := strings.Trim(doc, " \t\n\r")
	if t != doc {
		return "whitespace"
	}
	if t == "" {
		return "empty"
	}
	switch c := t[0]; {
	case c == '"':
		for i := 1; i < len(t); i++ {
			if t[i] == '\\' && i+1 < len(t) {
				switch t[i+1] {
				case '"':
					return "string-escape-quote"
				case '\\':
					return "string-escape-backslash"
				case '/':
					return "string-escape-solidus"
				case 'u':
					if i+6 <= len(t) {
						u := 0
						ok := true
						for k := 2; k < 6; k++ {
							if !isHex(t[i+k]) {
								ok = false
							}
						}
						if ok {
							u = hexVal(t[i+2 : i+6])
						}
						if u >= 0xD800 && u < 0xE000 {
							return "string-escape-surrogate"
						}
					}
					return "string-escape-u"
				default:
					return "string-escape-" + string(t[i+1])
				}
			}
		}
		for i := 1; i < len(t); i++ {
			if t[i] >= 0x80 {
				return "string-non-ascii"
			}
		}
		if strings.IndexByte(t, 0x7f) >= 0 {
			return "string-del"
		}
		return "string-plain"
	case c == '-' || isDigit(c):
		if strings.ContainsAny(t, "eE") {
			return "number-exponent"
		}
		if strings.Contains(t, ".") {
			return "number-fraction"
		}
		return "number-int"
	case c == '[':
		return "array"
	case c == '{':
		return "object"
	}
	return "literal"
}
