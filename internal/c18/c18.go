// Package c18 monitors property C18 "JSON encoding and decoding are faithful" of go.starlark.net/lib/json.
//
// Every execution of json.encode / json.decode / json.indent / json.encode_indent on generated values,
// grammar-generated documents and single-token corruptions is judged against two independent references
// (Go's encoding/json and CPython's json, both mapped into one canonical JSON data model) and an
// independent RFC 8259 recogniser (scan.go). A document on which the references disagree among themselves
// is never judged (it is counted and makes the run inconclusive).
package c18

import (
	"fmt"
	"math/big"
	"math/rand"
	"runtime"
	"runtime/debug"
	"sort"
	"strconv"
	"strings"
	"unicode/utf8"

	sjson "go.starlark.net/lib/json"
	"go.starlark.net/starlark"

	"verif/internal/driver"
	"verif/internal/sl"
)

func init() {
	driver.Register(&driver.Engine{
		ID: "C18", Level: "exploration",
		Rule: "value cases: random nested None/bool/int(|x|<=2^200)/finite float/Unicode string/list/tuple/dict/struct values (depth<=6, shared substructure, tuple-slice aliases), " +
			"plus unrepresentable ones (NaN/Inf, non-string keys, cycles, unsupported types) that must make encode fail; each is encoded, the output validated and decoded by encoding/json and CPython json, " +
			"and read back with json.decode. document cases: documents from an RFC 8259 grammar (all whitespace placements, every escape, surrogate pairs, number forms, duplicate keys, nesting<=200), " +
			"each either as generated or with one named single-token/byte corruption, decoded with and without default=. " +
			"integer grid cases: every ±(2^k±2^j) for k=1..200, j in {0,7,15,16,31,32,63,64} and ±(m*2^w+low) for word-boundary m/low patterns (w=32,64,128), |x|<=2^200, judged against math/big and the decimal text itself " +
			"(json.decode(s) must be the int with BigInt()==b and str==s and re-encode to s; json.encode(MakeBigInt(b)) must be the decimal integer b and decode back to b), and again inside containers with both references. " +
			"distinct = distinct canonical value (values) or distinct document bytes (documents); non-trivial = not a bare null/true/false and not empty",
		Assumptions: []string{
			"Go encoding/json: json.Valid decides RFC 8259 grammar validity; Decoder.UseNumber keeps number tokens verbatim; duplicate object keys resolve last-wins",
			"strconv.ParseFloat and CPython float() are correctly rounded (they are compared bit for bit on every number with a fraction or exponent)",
			"CPython 3.11 json.loads (strict, parse_constant rejecting NaN/Infinity) is a standards-conforming decoder; it is consulted on every document, not only on disagreements",
			"documents that are grammar-valid but whose meaning RFC 8259 leaves open (lone surrogate escapes, invalid UTF-8 bytes, numbers beyond float64 range) are only checked for absence of panics and default= consistency",
			"number mapping per lib/json doc: no fraction and no exponent -> int (exact, any size), otherwise float",
		},
		Run:         run,
		MinDistinct: 1000,
		Finish:      finish,
	})
}

func finish(ev map[string]any) (string, bool) {
	cn, _ := ev["counters"].(map[string]int64)
	cv, _ := ev["cover"].(map[string]map[string]struct{})
	var bad []string
	need := func(name string, min int64) {
		if cn[name] < min {
			bad = append(bad, fmt.Sprintf("counter %s=%d < %d", name, cn[name], min))
		}
	}
	need("values_encoded", 1000)
	need("encode_unrepresentable_cases", 50)
	need("docs_valid_judged", 1000)
	need("docs_invalid_judged", 1000)
	need("default_checks", 1000)
	need("python_docs_compared", 1000)
	need("int_grid_values", 5000)
	need("int_grid_decode_exact", 1)
	need("int_grid_encode_exact", 1)
	if cn["reference_split"] > 0 {
		bad = append(bad, fmt.Sprintf("the references disagreed among themselves on %d documents (see cover group reference_split)", cn["reference_split"]))
	}
	needCover := func(group string, min int) {
		if len(cv[group]) < min {
			bad = append(bad, fmt.Sprintf("cover group %s has %d items < %d", group, len(cv[group]), min))
		}
	}
	needCover("corruption", len(uniq(corruptionNames)))
	needCover("valid_doc_feature", nFeatures)
	needCover("invalid_class", 15)
	needCover("value_kind", 30)
	if len(bad) > 0 {
		return strings.Join(bad, "; "), true
	}
	return "", false
}

func uniq(l []string) []string {
	m := map[string]bool{}
	var out []string
	for _, s := range l {
		if !m[s] {
			m[s] = true
			out = append(out, s)
		}
	}
	return out
}

// ---------------------------------------------------------------------------------------------

type env struct {
	c      *driver.Ctx
	py     *pyRef
	pyDead bool
	th     *starlark.Thread

	fEncode, fDecode, fIndent, fEncodeIndent starlark.Value
	shrunk                                   map[string]int // per violation key: how many witnesses were minimised
	valSamples                               int
}

func run(c *driver.Ctx) {
	// One child per core: keep the Go runtime of this child from fanning GC work out over all cores,
	// and let the heap grow to a few hundred MB between collections (the live heap is tiny).
	runtime.GOMAXPROCS(2)
	debug.SetGCPercent(400)
	e := &env{c: c, th: &starlark.Thread{Name: "c18"}, shrunk: map[string]int{}}
	e.fEncode = sjson.Module.Members["encode"]
	e.fDecode = sjson.Module.Members["decode"]
	e.fIndent = sjson.Module.Members["indent"]
	e.fEncodeIndent = sjson.Module.Members["encode_indent"]
	py, err := startPy()
	if err != nil {
		c.Inconclusive("python reference cannot start: %v", err)
		return
	}
	e.py = py
	defer e.py.close()

	nv := c.Pick(1200, 100_000) // x 50 values
	nd := c.Pick(1000, 80_000)  // x 100 documents
	for i := 0; i < nv; i++ {
		if !c.Take() {
			continue
		}
		if i == 0 {
			e.valueCorpusCase()
		} else {
			e.valueCase(c.Rand())
		}
	}
	for i := 0; i < nd; i++ {
		if !c.Take() {
			continue
		}
		if i == 0 {
			e.corpusCase(c.Rand())
		} else {
			e.docCase(c.Rand())
		}
	}
	// integer grid (constant list, the same in both tiers); appended last so that earlier case indices keep their meaning
	for i, n := 0, intGridCases(); i < n; i++ {
		if !c.Take() {
			continue
		}
		e.intGridCase(i, c.Rand())
	}
}

// ---------------------------------------------------------------------------------------------
// calling the code under test

type callRes struct {
	v   starlark.Value
	err error
	pan *sl.Panic
}

func (e *env) call(fn starlark.Value, args starlark.Tuple, kwargs []starlark.Tuple) (r callRes) {
	r.pan = sl.Safe(func() {
		r.v, r.err = starlark.Call(e.th, fn, args, kwargs)
	})
	return
}

type implRes struct {
	ok    bool
	v     starlark.Value
	canon string
	err   string
	pan   *sl.Panic
}

func (r implRes) describe() string {
	switch {
	case r.pan != nil:
		return "PANIC " + r.pan.String()
	case r.ok:
		return "returned " + driver.Truncate(r.v.String(), 200) + "  [" + driver.Truncate(pretty(r.canon), 200) + "]"
	}
	return "error: " + driver.Truncate(r.err, 200)
}

// decode calls json.decode(doc) or json.decode(doc, default) (positionally or by keyword).
func (e *env) decode(doc string, def starlark.Value, kw bool) implRes {
	args := starlark.Tuple{starlark.String(doc)}
	var kwargs []starlark.Tuple
	if def != nil {
		if kw {
			kwargs = []starlark.Tuple{{starlark.String("default"), def}}
		} else {
			args = append(args, def)
		}
	}
	r := e.call(e.fDecode, args, kwargs)
	switch {
	case r.pan != nil:
		return implRes{pan: r.pan}
	case r.err != nil:
		return implRes{err: r.err.Error()}
	}
	return implRes{ok: true, v: r.v, canon: canonOfStar(r.v)}
}

func goQuote(s string) string { return strconv.QuoteToASCII(s) }

// ---------------------------------------------------------------------------------------------
// documents

type docCase struct {
	doc    string
	origin string // "grammar", "corruption <name>", "corpus", "json.encode output"
	// set when the document is the output of json.encode(val):
	val       *mval
	valStr    string // Starlark rendering of the value
	expect    string // canonical data the output must denote ("" = not compared: value holds invalid UTF-8)
	defChoice int
}

func (e *env) askPy(docs []string) []pyRes {
	if e.pyDead {
		return nil
	}
	r, err := e.py.ask(docs)
	if err != nil {
		e.pyDead = true
		e.c.Inconclusive("python reference failed: %v", err)
		return nil
	}
	e.c.Count("python_docs_compared", len(docs))
	return r
}

type preRes struct {
	g goRes
	s scanRes
	r implRes
}

func (e *env) judgeBatch(cases []docCase) {
	if len(cases) == 0 {
		return
	}
	docs := make([]string, len(cases))
	for i := range cases {
		docs[i] = cases[i].doc
	}
	// python works on the batch while this process runs the references and the code under test
	ch := make(chan []pyRes, 1)
	go func() { ch <- e.askPy(docs) }()
	pre := make([]preRes, len(cases))
	for i, d := range docs {
		pre[i] = preRes{g: goRef(d), s: scanDoc(d), r: e.decode(d, nil, false)}
	}
	py := <-ch
	if py == nil {
		return
	}
	for i := range cases {
		e.judge(&cases[i], py[i], pre[i])
	}
}

func (e *env) split(dc *docCase, why string, g goRes, s scanRes, p pyRes) {
	e.c.Count("reference_split", 1)
	e.c.Cover("reference_split", driver.Truncate(why+": "+goQuote(dc.doc), 300))
}

func lenientDoc(doc string, g goRes, s scanRes) (bool, string) {
	if !g.valid {
		return false, ""
	}
	switch {
	case !utf8.ValidString(doc):
		return true, "invalid UTF-8 bytes"
	case s.lone:
		return true, "lone surrogate escape"
	case g.overflow || s.overflow:
		return true, "number outside float64 range"
	}
	return false, ""
}

func (e *env) judge(dc *docCase, p pyRes, pre preRes) {
	c := e.c
	doc := dc.doc
	g, s := pre.g, pre.s
	c.Eval(1)
	c.Count("docs", 1)
	if t := strings.Trim(doc, " \t\n\r"); t != "" && t != "null" && t != "true" && t != "false" {
		c.Distinct("d:" + doc)
	}

	// 1. the references must agree among themselves, otherwise nobody is judged
	if g.valid != s.ok {
		e.split(dc, fmt.Sprintf("encoding/json valid=%v but RFC scanner valid=%v (%s)", g.valid, s.ok, s.class), g, s, p)
		return
	}
	lenient, why := lenientDoc(doc, g, s)
	if !lenient {
		if p.valid != g.valid {
			e.split(dc, fmt.Sprintf("encoding/json valid=%v but python valid=%v (%s)", g.valid, p.valid, p.canon), g, s, p)
			return
		}
		if g.valid && p.canon != g.canon {
			e.split(dc, fmt.Sprintf("encoding/json reads %s but python reads %s", pretty(g.canon), pretty(p.canon)), g, s, p)
			return
		}
	}
	if g.valid {
		for f := 0; f < nFeatures; f++ {
			if s.feat&(1<<f) != 0 {
				c.Cover("valid_doc_feature", featureNames[f])
			}
		}
		if s.maxDepth >= 100 {
			c.Cover("valid_doc_feature_extra", "nesting >= 100")
		}
	} else {
		c.Cover("invalid_class", s.class)
	}

	// 2. json.encode output: valid and denoting the same data
	encodeBad := false
	if dc.val != nil {
		switch {
		case !g.valid:
			encodeBad = true
			class, repro := e.diagnoseEncode(dc.val)
			e.c.Violation("C18 encode invalid-json "+class,
				fmt.Sprintf("json.encode(%s) = %s is not valid JSON (%s at offset %d; encoding/json: %s; python: %s); minimal: %s",
					driver.Truncate(dc.valStr, 200), driver.Truncate(goQuote(doc), 300), s.class, s.off, g.err, p.canon, repro),
				map[string]any{"value": dc.valStr, "encoded": goQuote(doc), "go_ref": g.err, "python_ref": p.canon, "scanner": s.class, "offset": s.off, "minimal": repro})
		case dc.expect != "" && !lenient && g.canon != dc.expect:
			encodeBad = true
			class, repro := e.diagnoseEncode(dc.val)
			e.c.Violation("C18 encode wrong-data "+class,
				fmt.Sprintf("json.encode(%s) = %s denotes %s, want %s (encoding/json and python agree on the reading); minimal: %s",
					driver.Truncate(dc.valStr, 200), driver.Truncate(goQuote(doc), 300), driver.Truncate(pretty(g.canon), 300), driver.Truncate(pretty(dc.expect), 300), repro),
				map[string]any{"value": dc.valStr, "encoded": goQuote(doc), "go_ref": pretty(g.canon), "python_ref": pretty(p.canon), "want": pretty(dc.expect), "minimal": repro})
		default:
			c.Count("encode_outputs_ok", 1)
		}
	}

	// 3. json.decode
	r := pre.r
	if r.pan != nil {
		c.Violation("C18 decode panic", fmt.Sprintf("json.decode(%s) panics: %v", driver.Truncate(goQuote(doc), 300), r.pan.Value),
			map[string]any{"doc": goQuote(doc), "origin": dc.origin, "panic": r.pan.String(), "stack": driver.Truncate(r.pan.Stack, 3000)})
		return
	}
	def, defName, kw := e.pickDefault(dc.defChoice)
	if lenient {
		c.Count("docs_lenient_unjudged", 1)
		c.Cover("lenient_reason", why)
		// only internal consistency of default=
		rd := e.decode(doc, def, kw)
		if rd.pan != nil {
			c.Violation("C18 decode panic", fmt.Sprintf("json.decode(%s, default=%s) panics: %v", driver.Truncate(goQuote(doc), 300), defName, rd.pan.Value),
				map[string]any{"doc": goQuote(doc), "origin": dc.origin, "panic": rd.pan.String()})
		}
		return
	}
	verdictOK := true
	if g.valid {
		c.Count("docs_valid_judged", 1)
		switch {
		case !r.ok:
			verdictOK = false
			e.reportDecode("reject", dc, g, s, p, r)
		case r.canon != g.canon:
			verdictOK = false
			e.reportDecode("wrong", dc, g, s, p, r)
		default:
			c.Count("docs_valid_agreed", 1)
			if dc.val != nil && !encodeBad && dc.expect != "" {
				if r.canon == dc.expect {
					c.Count("values_roundtripped", 1)
				} else {
					// cannot happen when the two checks above passed; kept as a direct statement of the inverse law
					c.Violation("C18 roundtrip differs", fmt.Sprintf("json.decode(json.encode(%s)) = %s", driver.Truncate(dc.valStr, 200), r.describe()),
						map[string]any{"value": dc.valStr, "encoded": goQuote(doc), "decoded": pretty(r.canon), "want": pretty(dc.expect)})
				}
			}
		}
	} else {
		c.Count("docs_invalid_judged", 1)
		if r.ok {
			verdictOK = false
			e.reportDecode("accept", dc, g, s, p, r)
		} else {
			c.Count("docs_invalid_rejected", 1)
		}
	}
	if dc.val == nil && c.WantSample() && c.Case()%7 == 3 && len(doc) > 2 && len(doc) < 160 {
		ref := "valid, denotes " + driver.Truncate(pretty(g.canon), 120)
		if !g.valid {
			ref = "invalid (" + s.class + ")"
		}
		c.Sample(map[string]any{"kind": "document", "origin": dc.origin, "doc": driver.Truncate(goQuote(doc), 200), "references": ref, "json.decode": driver.Truncate(r.describe(), 200)})
	}
	if !verdictOK {
		return
	}

	// 4. default= is returned for invalid input only
	rd := e.decode(doc, def, kw)
	c.Count("default_checks", 1)
	form := "json.decode(x, " + defName + ")"
	if kw {
		form = "json.decode(x, default=" + defName + ")"
	}
	c.Cover("default_form", form)
	switch {
	case rd.pan != nil:
		c.Violation("C18 decode panic", fmt.Sprintf("%s with x=%s panics: %v", form, driver.Truncate(goQuote(doc), 300), rd.pan.Value),
			map[string]any{"doc": goQuote(doc), "origin": dc.origin, "panic": rd.pan.String()})
	case g.valid:
		isDef := rd.ok && sameAsDefault(rd.v, def)
		switch {
		case rd.ok && rd.canon == g.canon && !(isDef && isPointer(def)):
			c.Count("default_ignored_on_valid", 1)
		case isDef:
			c.Violation("C18 default returned for valid document", fmt.Sprintf("%s with valid x=%s returns the default instead of %s", form, driver.Truncate(goQuote(doc), 300), driver.Truncate(pretty(g.canon), 200)),
				map[string]any{"doc": goQuote(doc), "origin": dc.origin, "impl": rd.describe(), "go_ref": pretty(g.canon), "python_ref": pretty(p.canon)})
		default:
			c.Violation("C18 wrong result with default on valid document", fmt.Sprintf("%s with valid x=%s: %s, want %s", form, driver.Truncate(goQuote(doc), 300), rd.describe(), driver.Truncate(pretty(g.canon), 200)),
				map[string]any{"doc": goQuote(doc), "origin": dc.origin, "impl": rd.describe(), "go_ref": pretty(g.canon), "python_ref": pretty(p.canon)})
		}
	default:
		switch {
		case rd.ok && sameAsDefault(rd.v, def):
			c.Count("default_returned_on_invalid", 1)
		case !rd.ok:
			c.Violation("C18 default not returned for invalid document", fmt.Sprintf("%s with invalid x=%s (%s) fails: %s", form, driver.Truncate(goQuote(doc), 300), s.class, rd.err),
				map[string]any{"doc": goQuote(doc), "origin": dc.origin, "impl": rd.describe(), "go_ref": g.err, "python_ref": p.canon})
		default:
			c.Violation("C18 default replaced on invalid document", fmt.Sprintf("%s with invalid x=%s (%s): %s", form, driver.Truncate(goQuote(doc), 300), s.class, rd.describe()),
				map[string]any{"doc": goQuote(doc), "origin": dc.origin, "impl": rd.describe(), "go_ref": g.err, "python_ref": p.canon})
		}
	}

	// 5. json.indent keeps validity and data (valid documents only; behaviour on invalid input is unspecified)
	if g.valid && dc.defChoice%8 == 0 {
		e.checkIndent(dc, g)
	}
}

func isPointer(v starlark.Value) bool {
	_, ok := v.(*starlark.List)
	return ok
}

func sameAsDefault(v, def starlark.Value) bool {
	if l, ok := def.(*starlark.List); ok {
		return v == starlark.Value(l)
	}
	return v.Type() == def.Type() && canonOfStar(v) == canonOfStar(def)
}

// pickDefault returns the default= argument of a document: a fresh marker list (identity observable),
// or one of the falsy values None, False, 0, "".
func (e *env) pickDefault(choice int) (starlark.Value, string, bool) {
	kw := choice%2 == 0
	switch (choice / 2) % 6 {
	case 0, 1:
		return starlark.NewList([]starlark.Value{starlark.String("marker")}), `["marker"]`, kw
	case 2:
		return starlark.None, "None", kw
	case 3:
		return starlark.False, "False", kw
	case 4:
		return starlark.MakeInt(0), "0", kw
	}
	return starlark.String(""), `""`, kw
}

var wsStrings = []string{"", " ", "\t", "  ", "\t\t", " \t", "    "}

func (e *env) checkIndent(dc *docCase, g goRes) {
	c := e.c
	prefix := wsStrings[(dc.defChoice/8)%len(wsStrings)]
	ind := wsStrings[(dc.defChoice/56)%len(wsStrings)]
	r := e.call(e.fIndent, starlark.Tuple{starlark.String(dc.doc)}, []starlark.Tuple{
		{starlark.String("prefix"), starlark.String(prefix)}, {starlark.String("indent"), starlark.String(ind)}})
	c.Count("indent_checks", 1)
	what := fmt.Sprintf("json.indent(%s, prefix=%q, indent=%q)", driver.Truncate(goQuote(dc.doc), 300), prefix, ind)
	switch {
	case r.pan != nil:
		c.Violation("C18 indent panic", what+" panics: "+r.pan.String(), map[string]any{"doc": goQuote(dc.doc), "panic": r.pan.String()})
	case r.err != nil:
		c.Violation("C18 indent fails on valid document", what+" fails: "+r.err.Error(), map[string]any{"doc": goQuote(dc.doc), "error": r.err.Error()})
	default:
		out, _ := starlark.AsString(r.v)
		g2 := goRef(out)
		if !g2.valid || g2.canon != g.canon {
			c.Violation("C18 indent changes data", what+" = "+driver.Truncate(goQuote(out), 300)+" does not denote the same data",
				map[string]any{"doc": goQuote(dc.doc), "indented": goQuote(out), "before": pretty(g.canon), "after_valid": g2.valid, "after": pretty(g2.canon)})
		}
	}
}

// sig classifies the judgement of a document without consulting python (used while minimising).
func (e *env) sig(doc string) string {
	g := goRef(doc)
	s := scanDoc(doc)
	if g.valid != s.ok {
		return ""
	}
	if l, _ := lenientDoc(doc, g, s); l {
		return ""
	}
	r := e.decode(doc, nil, false)
	switch {
	case r.pan != nil:
		return "panic"
	case g.valid && !r.ok:
		return "reject"
	case g.valid && r.canon != g.canon:
		return "wrong"
	case !g.valid && r.ok:
		return "accept " + s.class
	}
	return ""
}

func (e *env) reportDecode(kind string, dc *docCase, g goRes, s scanRes, p pyRes, r implRes) {
	c := e.c
	want := kind
	key := ""
	if kind == "accept" {
		want = "accept " + s.class
		key = "C18 accept " + s.class
	}
	min := dc.doc
	if key == "" || e.shrunk[key] < 4 {
		min = e.minimise(dc.doc, want)
		if key != "" {
			e.shrunk[key]++
		}
	}
	// the minimal document is confirmed by python as well; otherwise fall back to the original
	gm, sm := goRef(min), scanDoc(min)
	pm := p
	if min != dc.doc {
		if a := e.askPy([]string{min}); a != nil {
			pm = a[0]
		}
		if pm.valid != gm.valid || (gm.valid && pm.canon != gm.canon) {
			min, gm, sm, pm = dc.doc, g, s, p
		}
	}
	rm := e.decode(min, nil, false)
	detail := map[string]any{
		"doc": goQuote(dc.doc), "origin": dc.origin, "minimal_doc": goQuote(min),
		"impl":        r.describe(),
		"impl_on_min": rm.describe(),
	}
	if dc.val != nil {
		detail["encoded_value"] = dc.valStr
	}
	var what string
	switch kind {
	case "accept":
		detail["go_ref"] = "invalid: " + gm.err
		detail["python_ref"] = "invalid: " + pm.canon
		detail["scanner"] = fmt.Sprintf("%s at offset %d", sm.class, sm.off)
		what = fmt.Sprintf("json.decode(%s) %s; encoding/json, python json and RFC 8259 reject it (%s at offset %d). found in %s: %s",
			goQuote(min), rm.describe(), sm.class, sm.off, dc.origin, driver.Truncate(goQuote(dc.doc), 200))
	case "reject":
		key = "C18 reject valid " + featureOf(min)
		detail["go_ref"] = pretty(gm.canon)
		detail["python_ref"] = pretty(pm.canon)
		what = fmt.Sprintf("json.decode(%s) fails (%s) but the document is valid and denotes %s (encoding/json and python agree). found in %s: %s",
			goQuote(min), rm.err, driver.Truncate(pretty(gm.canon), 200), dc.origin, driver.Truncate(goQuote(dc.doc), 200))
	case "wrong":
		key = "C18 wrong value " + featureOf(min)
		detail["go_ref"] = pretty(gm.canon)
		detail["python_ref"] = pretty(pm.canon)
		what = fmt.Sprintf("json.decode(%s) %s, want %s (encoding/json and python agree). found in %s: %s",
			goQuote(min), rm.describe(), driver.Truncate(pretty(gm.canon), 200), dc.origin, driver.Truncate(goQuote(dc.doc), 200))
	}
	c.Violation(key, what, detail)
}

// minimise shrinks doc while sig(doc) stays want: first to the shortest token-aligned substring,
// then by delta debugging over bytes.
func (e *env) minimise(doc, want string) string {
	calls := 0
	ok := func(d string) bool {
		calls++
		return e.sig(d) == want
	}
	cur := doc
	// structural pass (valid documents): replace the document by one of its sub-values, or drop
	// one element/member of a container, as long as the same judgement results
	for progress := true; progress && calls < 4000; {
		progress = false
		valid, vals, elems := scanSpans(cur)
		if !valid {
			break
		}
		sort.SliceStable(vals, func(i, j int) bool { return vals[i][1]-vals[i][0] < vals[j][1]-vals[j][0] })
		for _, v := range vals {
			if v[1]-v[0] >= len(cur) {
				continue
			}
			if ok(cur[v[0]:v[1]]) {
				cur = cur[v[0]:v[1]]
				progress = true
				break
			}
		}
		if progress {
			continue
		}
		for k, el := range elems {
			var cand string
			switch {
			case k+1 < len(elems) && elems[k+1][2] == el[2] && elems[k+1][0] > el[1]:
				cand = cur[:el[0]] + cur[elems[k+1][0]:]
			case k > 0 && elems[k-1][2] == el[2] && elems[k-1][1] < el[0]:
				cand = cur[:elems[k-1][1]] + cur[el[1]:]
			default:
				// elements of one container are not adjacent in the list when containers nest; find neighbours by id
				prev, next := -1, -1
				for m := range elems {
					if elems[m][2] != el[2] || m == k {
						continue
					}
					if elems[m][1] <= el[0] && (prev < 0 || elems[m][1] > elems[prev][1]) {
						prev = m
					}
					if elems[m][0] >= el[1] && (next < 0 || elems[m][0] < elems[next][0]) {
						next = m
					}
				}
				switch {
				case next >= 0:
					cand = cur[:el[0]] + cur[elems[next][0]:]
				case prev >= 0:
					cand = cur[:elems[prev][1]] + cur[el[1]:]
				default:
					cand = cur[:el[0]] + cur[el[1]:]
				}
			}
			if ok(cand) {
				cur = cand
				progress = true
				break
			}
		}
	}
	// substring pass
	isBoundBefore := func(i int) bool { // a substring may start at i
		return i == 0 || strings.IndexByte("[{,: \t\n\r", cur[i-1]) >= 0
	}
	isBoundAfter := func(j int) bool { // a substring may end before j
		return j == len(cur) || strings.IndexByte("]},: \t\n\r", cur[j]) >= 0
	}
	if len(cur) <= 4000 {
		type span struct{ a, b int }
		var spans []span
		for a := 0; a < len(cur); a++ {
			if !isBoundBefore(a) {
				continue
			}
			for b := a + 1; b <= len(cur); b++ {
				if isBoundAfter(b) && b-a < len(cur) {
					spans = append(spans, span{a, b})
				}
			}
			if len(spans) > 20000 {
				break
			}
		}
		sort.SliceStable(spans, func(i, j int) bool { return spans[i].b-spans[i].a < spans[j].b-spans[j].a })
		for _, sp := range spans {
			if calls > 3000 {
				break
			}
			if ok(cur[sp.a:sp.b]) {
				cur = cur[sp.a:sp.b]
				break
			}
		}
	}
	// ddmin over bytes
	n := 2
	for len(cur) > 1 && calls < 6000 {
		chunk := (len(cur) + n - 1) / n
		reduced := false
		for start := 0; start < len(cur); start += chunk {
			end := start + chunk
			if end > len(cur) {
				end = len(cur)
			}
			cand := cur[:start] + cur[end:]
			if ok(cand) {
				cur = cand
				reduced = true
				if n > 2 {
					n--
				}
				break
			}
		}
		if !reduced {
			if chunk <= 1 {
				break
			}
			n *= 2
			if n > len(cur) {
				n = len(cur)
			}
		}
	}
	return cur
}

// ---------------------------------------------------------------------------------------------
// document cases

const docsPerCase = 100

func (e *env) docCase(r *rand.Rand) {
	notes := map[string]bool{}
	cases := make([]docCase, 0, docsPerCase)
	for k := 0; k < docsPerCase; k++ {
		toks := genDoc(r, notes)
		dc := docCase{defChoice: r.Intn(1 << 20)}
		if r.Intn(100) < 42 {
			dc.doc = joinToks(toks)
			dc.origin = "grammar"
		} else {
			name := corruptionNames[r.Intn(len(corruptionNames))]
			dc.doc = corrupt(r, toks, name)
			dc.origin = "corruption " + name + " of " + driver.Truncate(goQuote(joinToks(toks)), 120)
			e.c.Cover("corruption", name)
		}
		cases = append(cases, dc)
	}
	for n := range notes {
		e.c.Cover("doc_generator", n)
	}
	e.c.Note("key=C18 crash in document case\n%d documents, first: %s", len(cases), goQuote(cases[0].doc))
	e.judgeBatch(cases)
}

func (e *env) corpusCase(r *rand.Rand) {
	var cases []docCase
	for i, d := range literalCorpus {
		cases = append(cases, docCase{doc: d, origin: "corpus", defChoice: i * 2})
	}
	// every bad number / literal / escape / whitespace / garbage token once, bare and inside containers
	add := func(d, origin string) {
		cases = append(cases, docCase{doc: d, origin: origin, defChoice: len(cases)})
	}
	for _, s := range badNumbers {
		add(s, "corpus bad number")
		add("["+s+"]", "corpus bad number")
		add(`{"a":`+s+`}`, "corpus bad number")
		add("[0,"+s+" ,1]", "corpus bad number")
	}
	for _, s := range badLiterals {
		add(s, "corpus bad literal")
		add("["+s+"]", "corpus bad literal")
	}
	for _, s := range badEscapes {
		add(`"`+s+`"`, "corpus bad escape")
		add(`"a`+s+`b"`, "corpus bad escape")
		add(`{"`+s+`":1}`, "corpus bad escape")
	}
	for _, s := range loneSurrogates {
		add(`"`+s+`"`, "corpus lone surrogate")
	}
	for _, s := range badUTF8 {
		add(`"`+s+`"`, "corpus invalid utf-8")
		add(`"é`+s+`"`, "corpus invalid utf-8")
	}
	for _, s := range badWhitespace {
		add(s+"1", "corpus bad whitespace")
		add("1"+s, "corpus bad whitespace")
		add("[1,"+s+"2]", "corpus bad whitespace")
	}
	for _, s := range comments {
		add(s+"1", "corpus comment")
		add("[1,"+s+"2]", "corpus comment")
		add("1 "+s, "corpus comment")
	}
	for _, s := range trailingGarbage {
		add("1"+s, "corpus trailing garbage")
		add("[] "+s, "corpus trailing garbage")
		add(`"a"`+s, "corpus trailing garbage")
	}
	for ch := 0; ch < 0x20; ch++ {
		add("\"a"+string(rune(ch))+"b\"", "corpus raw control")
		add("\"é"+string(rune(ch))+"\"", "corpus raw control")
		add("{\"k"+string(rune(ch))+"\":1}", "corpus raw control")
		add(fmt.Sprintf(`"\u%04x"`, ch), "corpus escaped control")
	}
	for _, s := range simpleEscapes {
		add(`"`+s+`"`, "corpus escape")
		add(`"x`+s+`é"`, "corpus escape")
	}
	for _, s := range fixedNumbers {
		add(s, "corpus number")
		add(" [ "+s+" ] ", "corpus number")
	}
	for _, s := range overflowNumbers {
		add(s, "corpus overflow number")
	}
	for _, k := range []int{1, 2, 50, 100, 199, 200} {
		add(strings.Repeat("[", k)+strings.Repeat("]", k), "corpus nesting")
		add(strings.Repeat(`{"a":`, k)+"1"+strings.Repeat("}", k), "corpus nesting")
		add(strings.Repeat("[", k)+strings.Repeat("]", k-1), "corpus nesting")
	}
	e.c.Note("key=C18 crash in corpus case\nliteral corpus of %d documents", len(cases))
	for i := 0; i < len(cases); i += 200 {
		j := i + 200
		if j > len(cases) {
			j = len(cases)
		}
		e.judgeBatch(cases[i:j])
	}
	_ = r
}

// ---------------------------------------------------------------------------------------------
// value cases

const valuesPerCase = 50

func poisonClass(name string) string {
	switch {
	case name == "nan" || name == "+inf" || name == "-inf":
		return "non-finite-float"
	case strings.HasPrefix(name, "dict-"):
		return "non-string-key"
	case strings.HasPrefix(name, "cycle-"):
		return "cycle"
	}
	return "unsupported-type"
}

func (e *env) valueCase(r *rand.Rand) {
	g := &vgen{r: r, kinds: map[string]bool{}}
	vals := make([]*mval, 0, valuesPerCase)
	for k := 0; k < valuesPerCase; k++ {
		g.budget = 3 + r.Intn(40)
		var m *mval
		if r.Intn(25) == 0 {
			m = g.chain(6)
		} else {
			m = g.value(0, 6)
		}
		switch c := r.Intn(100); {
		case c < 12:
			m = g.inject(m, &mval{k: 'x', s: poisonKinds[r.Intn(len(poisonKinds))]})
		case c < 16:
			m = g.inject(m, &mval{k: 's', s: g.genBadUTF8String()})
		case c < 20:
			name := []string{"alias-prefix", "alias-empty"}[r.Intn(2)]
			g.note("tuple " + name)
			m = g.inject(m, &mval{k: 'a', s: name, elems: []*mval{g.scalar()}})
		}
		vals = append(vals, m)
	}
	for k := range g.kinds {
		e.c.Cover("value_kind", k)
	}
	e.runValues(vals, r)
}

func (e *env) valueCorpusCase() {
	var vals []*mval
	str := func(s string) *mval { return &mval{k: 's', s: s} }
	for ch := rune(0); ch < 0x100; ch++ {
		vals = append(vals, str(string(ch)))
	}
	for _, ch := range notableRunes {
		vals = append(vals, str(string(ch)), str("a"+string(ch)+"b"))
	}
	for ch := rune(0); ch < 0x80; ch++ {
		// as dict key and struct field name, and inside a longer ASCII string
		vals = append(vals, &mval{k: 'd', keys: []string{"k" + string(ch)}, elems: []*mval{{k: 'n'}}})
		vals = append(vals, &mval{k: 'o', keys: []string{"k" + string(ch)}, elems: []*mval{{k: 'n'}}})
		vals = append(vals, str("abc"+string(ch)+"def"))
	}
	vals = append(vals, str(""), str(strings.Repeat("a", 127)), str(strings.Repeat("a", 128)), str(strings.Repeat("\"", 127)), str(strings.Repeat("\\", 64)), str(strings.Repeat("a", 126)+"\x7f"))
	for _, f := range specialFloats {
		vals = append(vals, &mval{k: 'f', f: f}, &mval{k: 'f', f: -f})
	}
	for _, k := range pow2s {
		x := new(big.Int).Lsh(big.NewInt(1), k)
		for d := int64(-1); d <= 1; d++ {
			y := new(big.Int).Add(x, big.NewInt(d))
			if y.Cmp(big200) > 0 {
				continue
			}
			vals = append(vals, &mval{k: 'i', i: y}, &mval{k: 'i', i: new(big.Int).Neg(y)})
		}
	}
	vals = append(vals, &mval{k: 'i', i: big.NewInt(0)}, &mval{k: 'n'}, &mval{k: 'b', b: true}, &mval{k: 'b'},
		&mval{k: 'l'}, &mval{k: 't'}, &mval{k: 'd'}, &mval{k: 'o'},
		&mval{k: 't', elems: []*mval{{k: 't'}, {k: 'l', elems: []*mval{{k: 't'}}}}},
		&mval{k: 'a', s: "alias-prefix", elems: []*mval{{k: 'i', i: big.NewInt(1)}}},
		&mval{k: 'a', s: "alias-empty", elems: []*mval{{k: 'i', i: big.NewInt(1)}}},
		&mval{k: 'd', keys: []string{"b", "a", "", "é", "\x7f", "a\"b"}, elems: []*mval{{k: 'n'}, {k: 'n'}, {k: 'n'}, {k: 'n'}, {k: 'n'}, {k: 'n'}}},
		&mval{k: 'o', keys: []string{"b", "a", "x y", "é"}, elems: []*mval{{k: 'n'}, {k: 'f', f: 1}, {k: 'i', i: big.NewInt(1)}, {k: 'n'}}},
	)
	for _, p := range poisonKinds {
		vals = append(vals, &mval{k: 'x', s: p}, &mval{k: 'l', elems: []*mval{{k: 'i', i: big.NewInt(1)}, {k: 'x', s: p}}},
			&mval{k: 'd', keys: []string{"a"}, elems: []*mval{{k: 'x', s: p}}}, &mval{k: 'o', keys: []string{"a"}, elems: []*mval{{k: 'x', s: p}}},
			&mval{k: 't', elems: []*mval{{k: 'x', s: p}}})
	}
	e.runValues(vals, rand.New(rand.NewSource(18)))
}

func (e *env) encodeStar(v starlark.Value) (string, callRes) {
	r := e.call(e.fEncode, starlark.Tuple{v}, nil)
	if r.pan != nil || r.err != nil {
		return "", r
	}
	s, ok := starlark.AsString(r.v)
	if !ok {
		r.err = fmt.Errorf("json.encode returned %s, not a string", r.v.Type())
	}
	return s, r
}

func starString(v starlark.Value) string {
	var s string
	if p := sl.Safe(func() { s = v.String() }); p != nil {
		return "<unprintable: " + p.String() + ">"
	}
	return s
}

func (e *env) runValues(vals []*mval, r *rand.Rand) {
	c := e.c
	var cases []docCase
	for _, m := range vals {
		poison, utf8ok := m.scanFlags()
		v := m.star(map[*mval]starlark.Value{})
		vs := ""
		if !strings.HasPrefix(poison, "cycle") {
			vs = starString(v)
		} else {
			vs = "<cyclic value: " + poison + ">"
		}
		c.Note("key=C18 crash in json.encode\njson.encode(%s)", driver.Truncate(vs, 3000))
		out, res := e.encodeStar(v)
		c.Eval(1)
		c.Count("values_encoded", 1)
		if res.pan != nil {
			c.Violation("C18 encode panic", fmt.Sprintf("json.encode(%s) panics: %v", driver.Truncate(vs, 300), res.pan.Value),
				map[string]any{"value": vs, "panic": res.pan.String(), "stack": driver.Truncate(res.pan.Stack, 3000)})
			continue
		}
		if poison != "" {
			c.Count("encode_unrepresentable_cases", 1)
			c.Cover("encode_must_fail", poison)
			if res.err == nil {
				c.Violation("C18 encode accepts "+poisonClass(poison), fmt.Sprintf("json.encode(%s) = %s, want an error (%s)", driver.Truncate(vs, 300), driver.Truncate(goQuote(out), 300), poison),
					map[string]any{"value": vs, "encoded": goQuote(out), "unrepresentable_because": poison})
			} else {
				c.Count("encode_unrepresentable_rejected", 1)
			}
			continue
		}
		expect := m.canonString()
		if len(expect) > 1 {
			c.Distinct("v:" + expect)
		}
		if res.err != nil {
			class := "other"
			min := ""
			if strings.Contains(res.err.Error(), "cycle") {
				class = "false-cycle"
				// confirm the three-line reproducer before quoting it
				t := &mval{k: 'a', s: "alias-prefix", elems: []*mval{{k: 'i', i: big.NewInt(1)}}}
				if _, r2 := e.encodeStar(t.star(map[*mval]starlark.Value{})); r2.err != nil {
					min = "minimal: t = (1, []); t[1].append(t[:1]); json.encode(t) fails although t == (1, [(1,)]) is acyclic (a tuple and a slice of it share their backing array, which the cycle detector takes for identity). "
				}
			}
			c.Violation("C18 encode error "+class, fmt.Sprintf("%sjson.encode(%s) fails: %s; the value is JSON-representable as %s",
				min, driver.Truncate(vs, 200), driver.Truncate(res.err.Error(), 200), driver.Truncate(pretty(expect), 200)),
				map[string]any{"value": vs, "error": res.err.Error(), "want_data": pretty(expect)})
			continue
		}
		if !utf8ok {
			expect = "" // not exactly representable: only validity of the output is demanded
			c.Count("values_with_invalid_utf8", 1)
		}
		dc := docCase{doc: out, origin: "json.encode output", val: m, valStr: vs, expect: expect, defChoice: r.Intn(1 << 20)}
		cases = append(cases, dc)

		if e.valSamples < 3 && c.WantSample() && c.Case()%5 == 1 && len(vs) > 8 && len(vs) < 160 {
			e.valSamples++
			c.Sample(map[string]any{"kind": "value", "value": driver.Truncate(vs, 200), "json.encode": driver.Truncate(out, 200)})
		}
		// encode_indent(x) == indent(encode(x)) and denotes the same data
		if dc.defChoice%4 == 0 {
			e.checkEncodeIndent(v, vs, out, dc.defChoice/4)
		}
	}
	for i := 0; i < len(cases); i += 200 {
		j := i + 200
		if j > len(cases) {
			j = len(cases)
		}
		e.judgeBatch(cases[i:j])
	}
}

func (e *env) checkEncodeIndent(v starlark.Value, vs, out string, choice int) {
	c := e.c
	if !goRef(out).valid {
		return // reported as an encode violation
	}
	prefix := wsStrings[choice%len(wsStrings)]
	ind := wsStrings[(choice/7)%len(wsStrings)]
	kwargs := []starlark.Tuple{{starlark.String("prefix"), starlark.String(prefix)}, {starlark.String("indent"), starlark.String(ind)}}
	a := e.call(e.fEncodeIndent, starlark.Tuple{v}, kwargs)
	b := e.call(e.fIndent, starlark.Tuple{starlark.String(out)}, kwargs)
	c.Count("encode_indent_checks", 1)
	what := fmt.Sprintf("json.encode_indent(%s, prefix=%q, indent=%q)", driver.Truncate(vs, 200), prefix, ind)
	if a.pan != nil || b.pan != nil {
		c.Violation("C18 indent panic", what+" panics", map[string]any{"value": vs})
		return
	}
	if a.err != nil || b.err != nil {
		c.Violation("C18 encode_indent fails", fmt.Sprintf("%s: encode_indent error %v, indent(encode(x)) error %v", what, a.err, b.err), map[string]any{"value": vs, "encoded": goQuote(out)})
		return
	}
	sa, _ := starlark.AsString(a.v)
	sb, _ := starlark.AsString(b.v)
	if sa != sb {
		c.Violation("C18 encode_indent differs from indent(encode)", fmt.Sprintf("%s = %s but json.indent(json.encode(x)) = %s", what, driver.Truncate(goQuote(sa), 200), driver.Truncate(goQuote(sb), 200)),
			map[string]any{"value": vs, "encode_indent": goQuote(sa), "indent_encode": goQuote(sb)})
		return
	}
	g1, g2 := goRef(out), goRef(sa)
	if !g2.valid || g1.canon != g2.canon {
		c.Violation("C18 indent changes data", fmt.Sprintf("%s = %s does not denote the same data as json.encode(x) = %s", what, driver.Truncate(goQuote(sa), 200), driver.Truncate(goQuote(out), 200)),
			map[string]any{"value": vs, "encode_indent": goQuote(sa), "encode": goQuote(out)})
	}
}

// diagnoseEncode finds the smallest part of m whose own encoding is already invalid or wrong and
// names its class (for stable keys), with a reproducer.
func (e *env) diagnoseEncode(m *mval) (class, repro string) {
	bad := func(x *mval) bool {
		out, r := e.encodeStar(x.star(map[*mval]starlark.Value{}))
		if r.pan != nil || r.err != nil {
			return true
		}
		g := goRef(out)
		if !g.valid {
			return true
		}
		if _, u := x.scanFlags(); !u {
			return false
		}
		return g.canon != x.canonString()
	}
	show := func(x *mval) string {
		v := x.star(map[*mval]starlark.Value{})
		out, _ := e.encodeStar(v)
		return fmt.Sprintf("json.encode(%s) = %s", driver.Truncate(starString(v), 120), driver.Truncate(goQuote(out), 160))
	}
	var found *mval
	seen := map[*mval]bool{}
	var walk func(x *mval)
	walk = func(x *mval) {
		if found != nil || seen[x] {
			return
		}
		seen[x] = true
		for _, k := range x.keys {
			// the same text as a plain string first: string quoting is shared by values, keys and field names
			ps := &mval{k: 's', s: k}
			ks := &mval{k: x.k, keys: []string{k}, elems: []*mval{{k: 'n'}}}
			if found == nil && bad(ps) {
				found = ps
			} else if found == nil && bad(ks) {
				found = ks
			}
		}
		switch x.k {
		case 'i', 'f', 's', 'n', 'b':
			if bad(x) {
				found = x
			}
		}
		for _, el := range x.elems {
			walk(el)
		}
	}
	walk(m)
	if found == nil {
		return "structure", "(every scalar encodes correctly on its own)"
	}
	switch found.k {
	case 'i':
		return "int", show(found)
	case 'f':
		return "float", show(found)
	case 's':
		for _, rn := range found.s {
			one := &mval{k: 's', s: string(rn)}
			if bad(one) {
				return "string-" + runeClass(rn), show(one)
			}
		}
		return "string", show(found)
	case 'd', 'o':
		kind := map[byte]string{'d': "dict-key", 'o': "struct-field"}[found.k]
		for _, rn := range found.keys[0] {
			one := &mval{k: found.k, keys: []string{string(rn)}, elems: []*mval{{k: 'n'}}}
			if bad(one) {
				return kind + "-" + runeClass(rn), show(one)
			}
		}
		return kind, show(found)
	}
	return "literal", show(found)
}
