package c18

import (
	"fmt"
	"math/big"
	"math/rand"

	"go.starlark.net/starlark"

	"verif/internal/driver"
)

// Integer grid: "integers exact at any size" judged against math/big and the decimal text itself.
//
// The random value generator reaches only 2^k and 2^k±1 for a few k, and uniformly random big ints; an
// integer representation that switches between machine words and big.Int (starlark.MakeBigInt, Int.String,
// the decoder's SetString+MakeBigInt) can be wrong exactly at values whose low machine word has a
// boundary pattern while higher words are set (e.g. -(m*2^64 + 2^31)). Such values are enumerated here:
//
//	lattice   ±(2^k ± 2^j)            k = 1..200, j in {0, 7, 15, 16, 31, 32, 63, 64}
//	words     ±(m*2^w + low)          w in {32, 64, 128}, m and low from word-boundary patterns
//
// all with |x| <= 2^200 (the scope of the property). For each b (with s = b.String(), computed by math/big):
//
//	json.decode(s)                  must be an int v with v.BigInt() == b and str(v) == s, and json.encode(v) == s
//	json.encode(MakeBigInt(b))      must be a JSON decimal integer token whose value is b
//	json.decode(of that output)     must again equal b (big.Int comparison)
//
// and, in addition, each value goes inside a container through the general pipeline (runValues/judgeBatch:
// encoding/json and CPython as references, default=, indent).

var gridOffsets = []uint{0, 7, 15, 16, 31, 32, 63, 64}

type gridInt struct {
	b      *big.Int
	family string
	offset string // cover item: which offset/low-word pattern
}

func pow2(k uint) *big.Int { return new(big.Int).Lsh(big.NewInt(1), k) }

// intGrid is a constant list (independent of seed and tier), in a fixed order, without duplicates.
func intGrid() []gridInt {
	var out []gridInt
	seen := map[string]bool{}
	add := func(x *big.Int, family, offset string) {
		for _, neg := range []bool{false, true} {
			y := new(big.Int).Set(x)
			if neg {
				y.Neg(y)
			}
			if new(big.Int).Abs(y).Cmp(big200) > 0 {
				continue
			}
			key := y.String()
			if seen[key] {
				continue
			}
			seen[key] = true
			out = append(out, gridInt{b: y, family: family, offset: offset})
		}
	}
	add(big.NewInt(0), "lattice 2^k±2^j", "zero")
	for k := uint(1); k <= 200; k++ {
		for _, j := range gridOffsets {
			add(new(big.Int).Add(pow2(k), pow2(j)), "lattice 2^k±2^j", fmt.Sprintf("+2^%d", j))
			add(new(big.Int).Sub(pow2(k), pow2(j)), "lattice 2^k±2^j", fmt.Sprintf("-2^%d", j))
		}
	}
	one := big.NewInt(1)
	type named struct {
		name string
		x    *big.Int
	}
	lows := []named{
		{"0", big.NewInt(0)}, {"1", big.NewInt(1)}, {"2^15", pow2(15)}, {"2^16", pow2(16)},
		{"2^31-1", new(big.Int).Sub(pow2(31), one)}, {"2^31", pow2(31)}, {"2^31+1", new(big.Int).Add(pow2(31), one)},
		{"2^32-1", new(big.Int).Sub(pow2(32), one)}, {"2^32", pow2(32)}, {"2^32+1", new(big.Int).Add(pow2(32), one)},
		{"2^63-1", new(big.Int).Sub(pow2(63), one)}, {"2^63", pow2(63)}, {"2^63+1", new(big.Int).Add(pow2(63), one)},
		{"2^64-1", new(big.Int).Sub(pow2(64), one)},
	}
	ms := []*big.Int{
		big.NewInt(1), big.NewInt(2), big.NewInt(3), big.NewInt(5), pow2(31), new(big.Int).Sub(pow2(32), one), new(big.Int).Add(pow2(32), one),
		pow2(63), new(big.Int).Sub(pow2(64), one), new(big.Int).Add(pow2(64), one), new(big.Int).Add(pow2(100), one),
	}
	for _, w := range []uint{32, 64, 128} {
		for _, m := range ms {
			for _, lo := range lows {
				if lo.x.BitLen() > int(w) {
					continue
				}
				x := new(big.Int).Lsh(m, w)
				x.Add(x, lo.x)
				add(x, fmt.Sprintf("words m*2^%d+low", w), "low="+lo.name)
			}
		}
	}
	return out
}

const gridPerCase = 500

func intGridCases() int { return (len(intGrid()) + gridPerCase - 1) / gridPerCase }

func bitsBucket(b *big.Int) string {
	switch n := b.BitLen(); {
	case n < 32:
		return "<32 bits"
	case n == 32:
		return "32 bits"
	case n <= 63:
		return "33..63 bits"
	case n == 64:
		return "64 bits"
	case n <= 128:
		return "65..128 bits"
	}
	return "129..201 bits"
}

// isJSONInt reports whether s is a JSON number token without fraction and exponent: -?(0|[1-9][0-9]*).
func isJSONInt(s string) bool {
	if len(s) > 0 && s[0] == '-' {
		s = s[1:]
	}
	if s == "" || (len(s) > 1 && s[0] == '0') {
		return false
	}
	for i := 0; i < len(s); i++ {
		if s[i] < '0' || s[i] > '9' {
			return false
		}
	}
	return true
}

func signName(b *big.Int) string {
	if b.Sign() < 0 {
		return "negative"
	}
	return "non-negative"
}

func (e *env) intGridCase(part int, r *rand.Rand) {
	c := e.c
	grid := intGrid()
	lo, hi := part*gridPerCase, (part+1)*gridPerCase
	if hi > len(grid) {
		hi = len(grid)
	}
	if lo >= hi {
		return
	}
	var vals []*mval
	var docs []docCase
	for idx := lo; idx < hi; idx++ {
		gi := grid[idx]
		b := gi.b
		s := b.String()
		c.Note("key=C18 crash in integer grid\njson.decode(%q) / json.encode(MakeBigInt(%s))", s, s)
		c.Count("int_grid_values", 1)
		c.Cover("int_grid_family", gi.family)
		c.Cover("int_grid_offset", gi.offset)
		c.Cover("int_grid_magnitude", signName(b)+" "+bitsBucket(b))
		// the class of the operand, for violation details (never part of the key)
		class := fmt.Sprintf("%s, %s, %s, %s", gi.family, gi.offset, signName(b), bitsBucket(b))

		// 1. decode of the decimal text
		rd := e.decode(s, nil, false)
		c.Eval(1)
		switch {
		case rd.pan != nil:
			c.Violation("C18 decode panic", fmt.Sprintf("json.decode(%q) panics: %v", s, rd.pan.Value), map[string]any{"doc": s, "panic": rd.pan.String()})
		case !rd.ok:
			c.Violation("C18 int decode inexact", fmt.Sprintf("json.decode(%q) fails: %s; the document is a valid JSON integer (%s)", s, rd.err, class),
				map[string]any{"doc": s, "error": rd.err, "class": class})
		default:
			v, isInt := rd.v.(starlark.Int)
			switch {
			case !isInt:
				c.Violation("C18 int decode inexact", fmt.Sprintf("json.decode(%q) returns a %s (%s), want the int (%s)", s, rd.v.Type(), driver.Truncate(starString(rd.v), 100), class),
					map[string]any{"doc": s, "got_type": rd.v.Type(), "class": class})
			case v.BigInt().Cmp(b) != 0 || v.String() != s:
				c.Violation("C18 int decode inexact", fmt.Sprintf("json.decode(%q) = %s (BigInt %s), want exactly %s (%s)", s, v.String(), v.BigInt().String(), s, class),
					map[string]any{"doc": s, "got_str": v.String(), "got_bigint": v.BigInt().String(), "want": s, "class": class})
			default:
				c.Count("int_grid_decode_exact", 1)
				// re-encoding the decoded value spells the same text
				out, re := e.encodeStar(v)
				c.Eval(1)
				switch {
				case re.pan != nil:
					c.Violation("C18 encode panic", fmt.Sprintf("json.encode(json.decode(%q)) panics: %v", s, re.pan.Value), map[string]any{"doc": s, "panic": re.pan.String()})
				case re.err != nil:
					c.Violation("C18 int roundtrip inexact", fmt.Sprintf("json.encode(json.decode(%q)) fails: %v (%s)", s, re.err, class), map[string]any{"doc": s, "error": re.err.Error(), "class": class})
				case !intTokenIs(out, b):
					c.Violation("C18 int roundtrip inexact", fmt.Sprintf("json.encode(json.decode(%q)) = %s, want %s (%s)", s, driver.Truncate(goQuote(out), 120), s, class),
						map[string]any{"doc": s, "reencoded": goQuote(out), "class": class})
				default:
					c.Count("int_grid_reencode_exact", 1)
				}
			}
		}

		// 2. encode of the Int built through the Go API, and reading the output back
		v0 := starlark.MakeBigInt(new(big.Int).Set(b))
		out, re := e.encodeStar(v0)
		c.Eval(1)
		switch {
		case re.pan != nil:
			c.Violation("C18 encode panic", fmt.Sprintf("json.encode(MakeBigInt(%s)) panics: %v", s, re.pan.Value), map[string]any{"value": s, "panic": re.pan.String()})
		case re.err != nil:
			c.Violation("C18 int encode inexact", fmt.Sprintf("json.encode(MakeBigInt(%s)) fails: %v (%s)", s, re.err, class), map[string]any{"value": s, "error": re.err.Error(), "class": class})
		case !intTokenIs(out, b):
			c.Violation("C18 int encode inexact", fmt.Sprintf("json.encode(MakeBigInt(%s)) = %s, want the decimal integer %s (%s)", s, driver.Truncate(goQuote(out), 120), s, class),
				map[string]any{"value": s, "encoded": goQuote(out), "class": class})
		default:
			c.Count("int_grid_encode_exact", 1)
			rb := e.decode(out, nil, false)
			c.Eval(1)
			bv, isInt := rb.v.(starlark.Int)
			switch {
			case rb.pan != nil:
				c.Violation("C18 decode panic", fmt.Sprintf("json.decode(%q) panics: %v", out, rb.pan.Value), map[string]any{"doc": out, "panic": rb.pan.String()})
			case !rb.ok || !isInt || bv.BigInt().Cmp(b) != 0:
				c.Violation("C18 int roundtrip inexact", fmt.Sprintf("json.decode(json.encode(MakeBigInt(%s))): %s, want int %s (%s)", s, rb.describe(), s, class),
					map[string]any{"value": s, "encoded": goQuote(out), "decoded": rb.describe(), "class": class})
			default:
				c.Count("int_grid_roundtrip_exact", 1)
			}
		}

		// 3. the same integer inside a container, through the general pipeline with both references
		iv := &mval{k: 'i', i: b}
		var m *mval
		var doc string
		switch idx % 4 {
		case 0:
			m = iv
			doc = " " + s + "\n"
		case 1:
			m = &mval{k: 'l', elems: []*mval{iv, {k: 'i', i: big.NewInt(0)}}}
			doc = "[0," + s + " ,1]"
		case 2:
			m = &mval{k: 'd', keys: []string{"k"}, elems: []*mval{{k: 'l', elems: []*mval{iv}}}}
			doc = `{"k": [` + s + `]}`
		default:
			m = &mval{k: 't', elems: []*mval{{k: 'o', keys: []string{"a"}, elems: []*mval{iv}}}}
			doc = `[{"a":` + s + `,"b":` + s + `}]`
		}
		vals = append(vals, m)
		docs = append(docs, docCase{doc: doc, origin: "integer grid (" + class + ")", defChoice: r.Intn(1 << 20)})
	}
	e.runValues(vals, r)
	for i := 0; i < len(docs); i += 200 {
		j := i + 200
		if j > len(docs) {
			j = len(docs)
		}
		e.judgeBatch(docs[i:j])
	}
}

// intTokenIs reports whether out is a JSON decimal integer token whose value is b.
func intTokenIs(out string, b *big.Int) bool {
	if !isJSONInt(out) {
		return false
	}
	x, ok := new(big.Int).SetString(out, 10)
	return ok && x.Cmp(b) == 0
}
