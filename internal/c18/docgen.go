package c18

import (
	"fmt"
	"math/rand"
	"strconv"
	"strings"
)

// Grammar-driven document generator. A document is a token list in which every position where
// RFC 8259 allows whitespace holds a (possibly empty) whitespace token, so that whitespace
// placement, token replacement and structural corruptions can be applied at token level.

type tok struct {
	k     byte // 'w' whitespace, '0' number, 's' string, 'l' literal, and the punctuation bytes [ ] { } , :
	s     string
	items []string // strings: the raw items between the quotes (one char or one escape each)
	key   bool
}

type dgen struct {
	r      *rand.Rand
	toks   []tok
	budget int
	notes  map[string]bool
}

func (g *dgen) note(s string) { g.notes[s] = true }

func (g *dgen) emit(k byte, s string) { g.toks = append(g.toks, tok{k: k, s: s}) }

func (g *dgen) ws() {
	r := g.r
	s := ""
	switch r.Intn(10) {
	case 0, 1:
		s = string(" \t\n\r"[r.Intn(4)])
	case 2:
		n := 2 + r.Intn(3)
		for i := 0; i < n; i++ {
			s += string(" \t\n\r"[r.Intn(4)])
		}
	case 3:
		if r.Intn(8) == 0 {
			n := 5 + r.Intn(20)
			for i := 0; i < n; i++ {
				s += string(" \t\n\r"[r.Intn(4)])
			}
		} else {
			s = " "
		}
	}
	g.emit('w', s)
}

var fixedNumbers = []string{
	"-0", "0", "0.5", "1e5", "1E+5", "1e-5", "-0.0", "0.0", "-0e0", "0e0", "1E5", "1e+5", "1.5e300", "-1.5E-300",
	"4.9e-324", "5e-324", "2.2250738585072014e-308", "2.2250738585072011e-308", "1.7976931348623157e308", "1.7976931348623157E+308",
	"0.1", "0.30000000000000004", "123456789012345678901234567890", "-9223372036854775808", "9223372036854775807",
	"9223372036854775808", "18446744073709551615", "18446744073709551616", "9007199254740993", "9007199254740993.0",
	"1e21", "1e22", "1e23", "0.000001", "1e-7", "1e007", "1.0e+00", "100000000000000000000.0", "1e-400", "-1e-400", "0e999",
	"2147483647", "2147483648", "-2147483648", "-2147483649", "4294967296", "1.0", "-1", "10", "1.25", "0.1e1", "0.0e-0",
	"1606938044258990275541962092341162602522202993782792835301376", // 2^200
	"-1606938044258990275541962092341162602522202993782792835301376",
	"179769313486231570000000000000000000000000000000000000000000000000000000000000000000000000000000000000000000000000000000000000000000000000000000000000000000000000000000000000000000000000000000000000000000000000000000000000000000000000000000000000000000000000000000000000000000000000000000000000000000000000000000000.0",
	"0.000000000000000000000000000000000000000000000000000000000000000000000000000000000000000000000000000000000000000000000000000000000001",
	"8.5e-1", "123E-2", "5e-5", "1E-5", "12345678901234567890.123456789012345678901234567890",
}

var overflowNumbers = []string{"1e400", "-1e400", "1e309", "1.8e308", "1e99999"}

func (g *dgen) digits(n int, leadingNonZero bool) string {
	b := make([]byte, n)
	for i := range b {
		b[i] = byte('0' + g.r.Intn(10))
	}
	if leadingNonZero && n > 0 && b[0] == '0' {
		b[0] = byte('1' + g.r.Intn(9))
	}
	return string(b)
}

func (g *dgen) number() string {
	r := g.r
	switch r.Intn(10) {
	case 0, 1, 2:
		g.note("number fixed-list")
		return fixedNumbers[r.Intn(len(fixedNumbers))]
	case 3:
		if r.Intn(10) == 0 {
			g.note("number overflow")
			return overflowNumbers[r.Intn(len(overflowNumbers))]
		}
	}
	var sb strings.Builder
	if r.Intn(3) == 0 {
		sb.WriteByte('-')
	}
	// integer part
	switch r.Intn(6) {
	case 0:
		sb.WriteByte('0')
	case 1:
		sb.WriteString(g.digits(1, true))
	case 2:
		n := 18 + r.Intn(45)
		if r.Intn(20) == 0 {
			n = 100 + r.Intn(300)
		}
		sb.WriteString(g.digits(n, true))
		g.note("number many int digits")
	default:
		sb.WriteString(g.digits(1+r.Intn(10), true))
	}
	kind := r.Intn(5)
	if kind == 1 || kind == 2 {
		sb.WriteByte('.')
		n := 1 + r.Intn(6)
		if r.Intn(5) == 0 {
			n = 15 + r.Intn(25)
		}
		sb.WriteString(g.digits(n, false))
		g.note("number fraction")
	}
	if kind == 2 || kind == 3 {
		sb.WriteByte("eE"[r.Intn(2)])
		switch r.Intn(3) {
		case 0:
			sb.WriteByte('+')
		case 1:
			sb.WriteByte('-')
		}
		if r.Intn(8) == 0 {
			sb.WriteString("00")
		}
		// keep the value inside float64's exponent range for typical mantissas
		sb.WriteString(strconv.Itoa(r.Intn(31) * r.Intn(9) % 240))
		g.note("number exponent")
	}
	if kind == 0 || kind == 4 {
		g.note("number integer")
	}
	return sb.String()
}

var rawRunes = []rune{0xe9, 0xff, 0x80, 0x7ff, 0x800, 0x2028, 0x2029, 0xfffd, 0xfeff, 0xffff, 0xd7ff, 0xe000, 0x1f600, 0x10000, 0x10ffff, 0x4e2d, 0x3b1}
var simpleEscapes = []string{`\"`, `\\`, `\/`, `\b`, `\f`, `\n`, `\r`, `\t`}
var notableBMP = []int{0x0000, 0x001f, 0x0020, 0x0022, 0x005c, 0x002f, 0x007f, 0x0080, 0x00e9, 0x2028, 0x2029, 0xfffd, 0xffff, 0xfeff, 0xd7ff, 0xe000, 0x0041, 0x000a}

func (g *dgen) hex4(v int) string {
	s := fmt.Sprintf("%04x", v)
	b := []byte(s)
	for i := range b {
		if g.r.Intn(2) == 0 && b[i] >= 'a' {
			b[i] -= 32
		}
	}
	return string(b)
}

func (g *dgen) strItems() []string {
	r := g.r
	n := r.Intn(7)
	switch r.Intn(25) {
	case 0:
		n = 0
	case 1:
		n = 20 + r.Intn(30)
	}
	items := make([]string, 0, n)
	for i := 0; i < n; i++ {
		switch r.Intn(20) {
		default:
			for {
				c := byte(0x20 + r.Intn(0x5f))
				if c != '"' && c != '\\' {
					items = append(items, string(c))
					break
				}
			}
		case 8:
			items = append(items, "\x7f")
		case 9, 10:
			if r.Intn(2) == 0 {
				items = append(items, string(rawRunes[r.Intn(len(rawRunes))]))
			} else {
				var c rune
				for {
					c = rune(0x80 + r.Intn(0x10ffff-0x80))
					if c < 0xd800 || c > 0xdfff {
						break
					}
				}
				items = append(items, string(c))
			}
		case 11, 12, 13:
			items = append(items, simpleEscapes[r.Intn(len(simpleEscapes))])
		case 14, 15, 16:
			v := notableBMP[r.Intn(len(notableBMP))]
			if r.Intn(2) == 0 {
				for {
					v = r.Intn(0x10000)
					if v < 0xd800 || v > 0xdfff {
						break
					}
				}
			}
			items = append(items, `\u`+g.hex4(v))
		case 17, 18:
			hi := 0xd800 + r.Intn(0x400)
			lo := 0xdc00 + r.Intn(0x400)
			if r.Intn(4) == 0 {
				hi, lo = 0xd83d, 0xde00 // U+1F600
			}
			items = append(items, `\u`+g.hex4(hi)+`\u`+g.hex4(lo))
		case 19:
			// escapes next to characters that look like escapes
			items = append(items, []string{`\\`, `\"`, `\\`, `u0041`, `\\`, `n`, `\/`, `/`}[r.Intn(4)*2:][:2]...)
		}
	}
	return items
}

func strTok(items []string, key bool) tok {
	return tok{k: 's', s: `"` + strings.Join(items, "") + `"`, items: items, key: key}
}

func (g *dgen) value(depth int) {
	r := g.r
	g.budget--
	c := r.Intn(12)
	if depth >= 7 || g.budget <= 0 {
		c = r.Intn(8)
	}
	switch {
	case c < 3:
		g.emit('0', g.number())
	case c < 6:
		g.toks = append(g.toks, strTok(g.strItems(), false))
	case c < 8:
		g.emit('l', []string{"null", "true", "false"}[r.Intn(3)])
	case c < 10:
		n := r.Intn(5)
		if r.Intn(6) == 0 {
			n = 0
		}
		g.emit('[', "[")
		g.ws()
		for i := 0; i < n; i++ {
			if i > 0 {
				g.emit(',', ",")
				g.ws()
			}
			g.value(depth + 1)
			g.ws()
		}
		g.emit(']', "]")
	default:
		n := r.Intn(5)
		if r.Intn(6) == 0 {
			n = 0
		}
		g.emit('{', "{")
		g.ws()
		var keys [][]string
		for i := 0; i < n; i++ {
			if i > 0 {
				g.emit(',', ",")
				g.ws()
			}
			items := g.strItems()
			if len(keys) > 0 && r.Intn(6) == 0 {
				// duplicate key: same spelling, or an equal key spelled with an escape
				prev := keys[r.Intn(len(keys))]
				items = append([]string(nil), prev...)
				if len(items) > 0 && len(items[0]) == 1 && items[0][0] < 0x80 && r.Intn(2) == 0 {
					items[0] = `\u` + g.hex4(int(items[0][0]))
					g.note("duplicate key via escape")
				} else {
					g.note("duplicate key")
				}
			}
			keys = append(keys, items)
			g.toks = append(g.toks, strTok(items, true))
			g.ws()
			g.emit(':', ":")
			g.ws()
			g.value(depth + 1)
			g.ws()
		}
		g.emit('}', "}")
	}
}

// genDoc returns the token list of a valid document.
func genDoc(r *rand.Rand, notes map[string]bool) []tok {
	g := &dgen{r: r, budget: 4 + r.Intn(30), notes: notes}
	if r.Intn(60) == 0 {
		// deep nesting, up to 200 levels
		k := 1 + r.Intn(200)
		g.note("deep nesting")
		g.ws()
		closers := make([]byte, 0, k)
		for i := 0; i < k; i++ {
			if r.Intn(3) == 0 {
				g.emit('{', "{")
				g.ws()
				g.toks = append(g.toks, strTok([]string{string(rune('a' + r.Intn(26)))}, true))
				g.emit(':', ":")
				closers = append(closers, '}')
			} else {
				g.emit('[', "[")
				closers = append(closers, ']')
			}
			if r.Intn(10) == 0 {
				g.ws()
			}
		}
		g.budget = 3
		g.ws()
		g.value(7)
		g.ws()
		for i := k - 1; i >= 0; i-- {
			g.emit(closers[i], string(closers[i]))
			if r.Intn(10) == 0 {
				g.ws()
			}
		}
		g.ws()
		return g.toks
	}
	g.ws()
	g.value(0)
	g.ws()
	return g.toks
}

func joinToks(t []tok) string {
	var sb strings.Builder
	for _, x := range t {
		sb.WriteString(x.s)
	}
	return sb.String()
}

// ---------------------------------------------------------------------------------------------
// single-token corruptions

var badNumbers = []string{
	"1.", ".5", "-.5", "01", "+1", "1e", "0x1", "- 1", "1.e5", "-", "--1", "1.5.5", "1e5.5", "00", "-01", "1_000", "1e+", "1e-", "1E", "0.", "-0.",
	"Infinity", "-Infinity", "NaN", "-NaN", "+Infinity", "inf", "-inf", "nan", "1f", "1.0f", "0b1", "0o7", "1 .5", "1. 5", "1 e5", "1e 5", "1e+ 5",
	"\u0661", "\uff11", "1e\u0663", "1.\u0665", ".", "-.", "e5", "-e5", "1e5e5", "1ee5", "1.e", ".e1", "0.e1", "-1.", "12.", "1.E+2", "1,5e", "0x", "0xAB", "1L", "1n", "1d",
	"+0", "+.5", "+1e5", "-+1", "+-1", "1-", "1+", "1-2", "1+2", "1e5-", "1e5+", "0e", "0e+", "9.", "-9.", "-00", "-00.5", "007", "0123.5", "1.2e3.4", "１", "²",
}

var badLiterals = []string{
	"tru", "nul", "fals", "True", "NULL", "FALSE", "TRUE", "Null", "False", "nulll", "truee", "falsee", "t", "n", "f", "none", "None", "undefined", "nil",
	"tr ue", "nu ll", "nUll", "trUe", "yes", "no", "void", "truefalse", "nullnull", "true1", "null0", "ｎull",
}

var badEscapes = []string{
	`\a`, `\x41`, `\u12`, `\u12G4`, `\U0041`, `\'`, `\0`, `\v`, "\\\n", `\u`, `\u+123`, `\u 123`, `\e`, `\N`, `\101`, `\u{41}`, `\uD83`, `\ `, "\\\t", `\?`, `\1`, `\B`, `\T`,
	`\u-001`, `\u00 1`, `\udg00`, `\x`, "\\\x7f", "\\\xc3\xa9",
}

var loneSurrogates = []string{
	`\ud800`, `\udc00`, `\udfff`, `\udbff`, `\ud83d`, `\ude00`, `\ud800\u0041`, `\ud800a`, `\udc00\ud800`, `\ud800\ud800`, `\uD83D\n`, `\ud83d\ude0`,
}

var badUTF8 = []string{"\xff", "\xc0\x80", "\xe2\x82", "\xed\xa0\x80", "\xf4\x90\x80\x80", "\x80", "\xf0\x9f\x98", "\xfe", "\xc3"}

var trailingGarbage = []string{"x", "1", ",", "]", "}", "\"", "null", ":", "\x00", "[]", "{}", "\\", ";", "0", "-", ".", "e", "\"\"", "\x7f", "\xc2\xa0", "=", ")"}

var badWhitespace = []string{"\f", "\v", "\u00a0", "\u2028", "\u2029", "\ufeff", "\u3000", "\x00", "\u0085", "\x1f", "\x08", "\u200b", "\x7f", "\u1680", "\u2003", "\x1c"}

var comments = []string{"//c\n", "/*c*/", "/**/", "#c\n", "// \n", "/* */ ", "<!-- c -->", "--c\n"}

var corruptionNames = []string{
	"bad-number-token", "bad-number-token", "bad-number-token", "bad-literal-token", "raw-control-in-string", "raw-control-in-string", "bad-escape",
	"unterminated-string", "single-quotes", "missing-open-quote", "trailing-comma", "leading-comma", "double-comma", "missing-comma", "missing-colon", "colon-to-equals",
	"double-colon", "missing-value", "unterminated-container", "extra-closer", "mismatched-closer", "trailing-garbage", "empty-input",
	"leading-bom", "bom-in-whitespace", "comment", "bad-whitespace", "two-values", "byte-delete", "byte-insert", "byte-replace", "byte-dup",
	"truncate", "lone-surrogate-escape", "invalid-utf8-in-string", "non-string-key", "unquoted-key", "escape-outside-string",
	"control-char-escaped-wrongly", "uppercase-escape", "number-trailing-dot", "number-leading-dot",
}

func cloneToks(t []tok) []tok {
	out := make([]tok, len(t))
	copy(out, t)
	return out
}

// pick returns the index of a random token satisfying pred, or -1.
func pick(r *rand.Rand, t []tok, pred func(i int, x tok) bool) int {
	var idx []int
	for i, x := range t {
		if pred(i, x) {
			idx = append(idx, i)
		}
	}
	if len(idx) == 0 {
		return -1
	}
	return idx[r.Intn(len(idx))]
}

func isScalar(x tok) bool { return x.k == '0' || x.k == 's' || x.k == 'l' }

func prevNonWs(t []tok, i int) int {
	for j := i - 1; j >= 0; j-- {
		if t[j].k != 'w' {
			return j
		}
	}
	return -1
}

func insertTok(t []tok, i int, x tok) []tok {
	t = append(t, tok{})
	copy(t[i+1:], t[i:])
	t[i] = x
	return t
}

// insertItem puts raw text into a string token at a random item boundary.
func insertItem(r *rand.Rand, x tok, raw string) tok {
	k := r.Intn(len(x.items) + 1)
	items := make([]string, 0, len(x.items)+1)
	items = append(items, x.items[:k]...)
	items = append(items, raw)
	items = append(items, x.items[k:]...)
	return strTok(items, x.key)
}

// corrupt applies one named corruption to a valid document. The result is usually, but not
// necessarily, invalid: validity is always decided by the references, never assumed.
func corrupt(r *rand.Rand, orig []tok, name string) string {
	t := cloneToks(orig)
	anyScalarValue := func() int {
		return pick(r, t, func(_ int, x tok) bool { return isScalar(x) && !x.key })
	}
	anyString := func() int {
		return pick(r, t, func(_ int, x tok) bool { return x.k == 's' })
	}
	replaceScalar := func(pool []string, prefer byte) string {
		i := pick(r, t, func(_ int, x tok) bool { return x.k == prefer && !x.key })
		if i < 0 || r.Intn(4) == 0 {
			i = anyScalarValue()
		}
		s := pool[r.Intn(len(pool))]
		if i < 0 {
			// no scalar at all (e.g. "[]"): wrap
			return "[" + s + "]"
		}
		t[i] = tok{k: '?', s: s}
		return joinToks(t)
	}
	intoString := func(raw string) string {
		i := anyString()
		if i < 0 {
			j := anyScalarValue()
			x := insertItem(r, strTok([]string{"a", "b"}, false), raw)
			if j < 0 {
				return "[" + x.s + "]"
			}
			t[j] = x
			return joinToks(t)
		}
		t[i] = insertItem(r, t[i], raw)
		return joinToks(t)
	}
	doc := joinToks(t)
	switch name {
	case "bad-number-token":
		return replaceScalar(badNumbers, '0')
	case "number-trailing-dot":
		i := pick(r, t, func(_ int, x tok) bool { return x.k == '0' && !strings.ContainsAny(x.s, ".eE") })
		if i < 0 {
			return replaceScalar([]string{"1.", "0.", "-3.", "12.e3"}, '0')
		}
		t[i].s += "."
		if r.Intn(3) == 0 {
			t[i].s += "e" + strconv.Itoa(r.Intn(9))
		}
		return joinToks(t)
	case "number-leading-dot":
		i := pick(r, t, func(_ int, x tok) bool { return x.k == '0' && strings.HasPrefix(x.s, "0.") })
		if i >= 0 && r.Intn(2) == 0 {
			t[i].s = t[i].s[1:]
			return joinToks(t)
		}
		i = pick(r, t, func(_ int, x tok) bool { return x.k == '0' && strings.HasPrefix(x.s, "-0.") })
		if i >= 0 {
			t[i].s = "-" + t[i].s[2:]
			return joinToks(t)
		}
		return replaceScalar([]string{".5", "-.5", "-.0", ".0", "-.5e1", "-.25"}, '0')
	case "bad-literal-token":
		return replaceScalar(badLiterals, 'l')
	case "raw-control-in-string":
		return intoString(string(rune(r.Intn(0x20))))
	case "bad-escape":
		return intoString(badEscapes[r.Intn(len(badEscapes))])
	case "lone-surrogate-escape":
		return intoString(loneSurrogates[r.Intn(len(loneSurrogates))])
	case "invalid-utf8-in-string":
		return intoString(badUTF8[r.Intn(len(badUTF8))])
	case "control-char-escaped-wrongly":
		return intoString([]string{`\u001`, `\x1f`, `\u001g`, `\c`, `\^A`}[r.Intn(5)])
	case "uppercase-escape":
		return intoString([]string{`\N`, `\T`, `\R`, `\B`, `\F`, `\U0041`}[r.Intn(6)])
	case "unterminated-string":
		i := anyString()
		if i < 0 {
			return doc + `"abc`
		}
		t[i].s = t[i].s[:len(t[i].s)-1]
		return joinToks(t)
	case "missing-open-quote":
		i := anyString()
		if i < 0 {
			return `abc"`
		}
		t[i].s = t[i].s[1:]
		return joinToks(t)
	case "single-quotes":
		i := anyString()
		if i < 0 {
			return replaceScalar([]string{"'a'", "''"}, 's')
		}
		t[i].s = "'" + t[i].s[1:len(t[i].s)-1] + "'"
		return joinToks(t)
	case "trailing-comma":
		i := pick(r, t, func(i int, x tok) bool {
			if x.k != ']' && x.k != '}' {
				return false
			}
			p := prevNonWs(t, i)
			return p >= 0 && t[p].k != '[' && t[p].k != '{'
		})
		if i < 0 {
			if r.Intn(2) == 0 {
				return "[" + doc + ",]"
			}
			return `{"a":` + doc + `,}`
		}
		t = insertTok(t, i, tok{k: ',', s: ","})
		return joinToks(t)
	case "leading-comma":
		i := pick(r, t, func(_ int, x tok) bool { return x.k == '[' || x.k == '{' })
		if i < 0 {
			return "[," + doc + "]"
		}
		t = insertTok(t, i+1, tok{k: ',', s: ","})
		return joinToks(t)
	case "double-comma":
		i := pick(r, t, func(_ int, x tok) bool { return x.k == ',' })
		if i < 0 {
			return "[" + doc + ",," + doc + "]"
		}
		t = insertTok(t, i, tok{k: ',', s: ","})
		return joinToks(t)
	case "missing-comma":
		i := pick(r, t, func(_ int, x tok) bool { return x.k == ',' })
		if i < 0 {
			return "[" + doc + " " + doc + "]"
		}
		t[i].s = " "
		return joinToks(t)
	case "missing-colon":
		i := pick(r, t, func(_ int, x tok) bool { return x.k == ':' })
		if i < 0 {
			return `{"a" ` + doc + `}`
		}
		t[i].s = " "
		return joinToks(t)
	case "colon-to-equals":
		i := pick(r, t, func(_ int, x tok) bool { return x.k == ':' })
		if i < 0 {
			return `{"a"=` + doc + `}`
		}
		t[i].s = []string{"=", ",", "=>", ";", "::", " : : "}[r.Intn(6)]
		return joinToks(t)
	case "double-colon":
		i := pick(r, t, func(_ int, x tok) bool { return x.k == ':' })
		if i < 0 {
			return `{"a"::` + doc + `}`
		}
		t[i].s = "::"
		return joinToks(t)
	case "missing-value":
		i := pick(r, t, func(_ int, x tok) bool { return isScalar(x) })
		if i < 0 {
			return "[,]"
		}
		t[i].s = ""
		return joinToks(t)
	case "unterminated-container":
		i := pick(r, t, func(_ int, x tok) bool { return x.k == ']' || x.k == '}' })
		if i < 0 {
			return []string{"[", "{", "[" + doc, `{"a":` + doc, `{"a"`, `{"a":`, "[" + doc + ","}[r.Intn(7)]
		}
		t[i].s = ""
		return joinToks(t)
	case "extra-closer":
		return doc + []string{"]", "}", "]]", " ]", "\n}"}[r.Intn(5)]
	case "mismatched-closer":
		i := pick(r, t, func(_ int, x tok) bool { return x.k == ']' || x.k == '}' })
		if i < 0 {
			return "[" + doc + "}"
		}
		if t[i].k == ']' {
			t[i].s = "}"
		} else {
			t[i].s = "]"
		}
		return joinToks(t)
	case "trailing-garbage":
		sep := []string{"", " ", "\n"}[r.Intn(3)]
		return doc + sep + trailingGarbage[r.Intn(len(trailingGarbage))]
	case "empty-input":
		return []string{"", " ", "\n", "\t\r\n ", "  "}[r.Intn(5)]
	case "leading-bom":
		return "\ufeff" + doc
	case "bom-in-whitespace":
		i := pick(r, t, func(_ int, x tok) bool { return x.k == 'w' })
		t[i].s += "\ufeff"
		return joinToks(t)
	case "comment":
		i := pick(r, t, func(_ int, x tok) bool { return x.k == 'w' })
		t[i].s += comments[r.Intn(len(comments))]
		return joinToks(t)
	case "bad-whitespace":
		i := pick(r, t, func(_ int, x tok) bool { return x.k == 'w' })
		t[i].s += badWhitespace[r.Intn(len(badWhitespace))]
		return joinToks(t)
	case "escape-outside-string":
		i := pick(r, t, func(_ int, x tok) bool { return x.k == 'w' })
		t[i].s += []string{`\n`, `\t`, `\u0020`, `\`, `\"`}[r.Intn(5)]
		return joinToks(t)
	case "two-values":
		return doc + []string{" ", "", "\n", ","}[r.Intn(4)] + doc
	case "non-string-key":
		i := pick(r, t, func(_ int, x tok) bool { return x.k == 's' && x.key })
		if i < 0 {
			return []string{"{1:2}", "{null:1}", "{[]:1}", "{true:false}", "{{}:1}", "{1.5:1}"}[r.Intn(6)]
		}
		t[i].s = []string{"1", "null", "true", "[]", "{}", "1.5", "-0", "[\"a\"]"}[r.Intn(8)]
		return joinToks(t)
	case "unquoted-key":
		i := pick(r, t, func(_ int, x tok) bool { return x.k == 's' && x.key })
		if i < 0 {
			return "{a:1}"
		}
		t[i].s = "k" + strconv.Itoa(r.Intn(10))
		return joinToks(t)
	}
	// byte-level corruptions
	b := []byte(doc)
	if len(b) == 0 {
		return "x"
	}
	p := r.Intn(len(b))
	interesting := []byte(" \t\n\r\"\\/,:[]{}0123456789.-+eEtrufalsn\x00\x1f\x7f\x80\xff'")
	switch name {
	case "byte-delete":
		return string(append(b[:p:p], b[p+1:]...))
	case "byte-insert":
		c := interesting[r.Intn(len(interesting))]
		if r.Intn(4) == 0 {
			c = byte(r.Intn(256))
		}
		out := append([]byte{}, b[:p]...)
		out = append(out, c)
		return string(append(out, b[p:]...))
	case "byte-replace":
		c := interesting[r.Intn(len(interesting))]
		if r.Intn(4) == 0 {
			c = byte(r.Intn(256))
		}
		b[p] = c
		return string(b)
	case "byte-dup":
		out := append([]byte{}, b[:p+1]...)
		return string(append(out, b[p:]...))
	case "truncate":
		return string(b[:p])
	}
	panic("unknown corruption " + name)
}

// literalCorpus is judged once per run (first document case), whatever the seed.
var literalCorpus = []string{
	// the defects listed in DESIGN.md and the forms named in the property
	"1.", "-.5", "\"a\tb\"", ".5", "01", "+1", "1e", "0x1", "- 1", "1.e5", "0.", "-0.", "-.0", "[1.]", "{\"a\":-.5}", "[1.,2]", "\"\x00\"", "\"\x1f\"", "\"\n\"", "\"\r\"",
	"[\"a\x01\"]", "{\"k\x02\":1}", "\"\\a\"", "\"\\x41\"", "\"\\u12\"", "\"\\ud800\"", "\"\\udc00\"", "\"\\ud83d\\ude00\"", "\"\\uD83D\\uDE00\"", "tru", "nul", "fals", "True", "NULL",
	"[1,]", "{\"a\":1,}", "[1 2]", "{\"a\" 1}", "{\"a\":1 \"b\":2}", "1 x", "", " ", "NaN", "Infinity", "-Infinity", "'a'", "// c\n1", "/* c */1", "1 // c", "\"abc", "[1", "{\"a\":1", "\ufeff1", "\ufeff[]",
	// valid forms
	"-0", "0.5", "1e5", "1E+5", "1e-5", "-0.0", "123456789012345678901234567890", " 1 ", "\t\n\r 1\t\n\r ", "[ ]", "{ }", "[ 1 , 2 ]", "{ \"a\" : 1 , \"b\" : [ ] }",
	"\"\\\"\\\\\\/\\b\\f\\n\\r\\t\"", "\"\\u0041\\u00e9\\u2028\\uFFFD\\u0000\"", "\"\x7f\"", "\"é\u2028😀\ufffd\"", "null", "true", "false", "[]", "{}", "\"\"", "[[]]", "[{}]", "{\"\":{}}",
	"{\"a\":1,\"a\":2}", "{\"a\":1,\"\\u0061\":2}", "{\"a\":{\"b\":1},\"a\":{\"c\":2}}", "[null,true,false,0,-1,1.5,\"x\",[],{}]", "1e400", "-1e400", "1e-400", "0e0", "-0e-0", "1E400",
	"\"/\"", "\"\\/\"", "\"<>&\"", "\"\\u003c\"", "\"\\\\u0041\"", "\"\\\\\"", "[\"\\\\\",\"\\\"\"]", "9007199254740993", "1.0", "100", "1e2", "1.5e+300", "[1,2,3]", "[\"a\",\"b\"]",
	"[1,,2]", "[,1]", "{,}", "{\"a\"}", "{\"a\":}", "{:1}", "{1:2}", "{a:1}", "[1}", "{\"a\":1]", "[]]", "{}}", "[] []", "1 2", "nulll", "truefalse", "\"a\"\"b\"", "\\n1", "1\x00", "\x001", "1\f", "\v1", "\u00a01",
	"--1", "1e+", "1e5.5", "1.5.5", "00", "-01", "-", "+", ".", "e", "1_0", "1,", ",1", ":", "[:]", "\"\\u00e9", "\"\\", "\"\\\"", "\"\xff\"", "\"\xc0\x80\"", "\xff", "[\"\xed\xa0\x80\"]",
}
