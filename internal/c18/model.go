package c18

import (
	"encoding/hex"
	"fmt"
	"math"
	"math/big"
	"math/rand"
	"sort"
	"strconv"
	"strings"
	"unicode/utf8"

	"go.starlark.net/starlark"
	"go.starlark.net/starlarkstruct"
)

// ---------------------------------------------------------------------------------------------
// JSON data model in canonical text form (shared by the three observers: the implementation,
// Go's encoding/json and CPython's json):
//
//	n | T | F | i<decimal> | f<16 hex digits of the IEEE-754 bits> | s<hex of UTF-8 bytes>
//	[v,v,...] | {<hex key>:v,...}   (keys sorted bytewise, duplicates resolved last-wins)
//
// ints and floats are different values (i1 != f3ff0000000000000), -0.0 != 0.0.

func hexs(s string) string { return hex.EncodeToString([]byte(s)) }

// mval is a generated Starlark value of the JSON-representable kind (plus "poison" nodes that
// make the value unrepresentable, and alias nodes that are representable but share storage).
type mval struct {
	k     byte // n b i f s l(ist) t(uple) d(ict) o(struct) | x (poison) | a (tuple-slice alias)
	b     bool
	i     *big.Int
	f     float64
	s     string // string value; poison/alias name
	elems []*mval
	keys  []string
}

func (m *mval) canon(sb *strings.Builder) {
	switch m.k {
	case 'n':
		sb.WriteByte('n')
	case 'b':
		if m.b {
			sb.WriteByte('T')
		} else {
			sb.WriteByte('F')
		}
	case 'i':
		sb.WriteByte('i')
		sb.WriteString(m.i.String())
	case 'f':
		fmt.Fprintf(sb, "f%016x", math.Float64bits(m.f))
	case 's':
		sb.WriteByte('s')
		sb.WriteString(hexs(m.s))
	case 'l', 't':
		sb.WriteByte('[')
		for i, e := range m.elems {
			if i > 0 {
				sb.WriteByte(',')
			}
			e.canon(sb)
		}
		sb.WriteByte(']')
	case 'd', 'o':
		idx := make([]int, len(m.keys))
		for i := range idx {
			idx[i] = i
		}
		sort.Slice(idx, func(a, b int) bool { return m.keys[idx[a]] < m.keys[idx[b]] })
		sb.WriteByte('{')
		for n, i := range idx {
			if n > 0 {
				sb.WriteByte(',')
			}
			sb.WriteString(hexs(m.keys[i]))
			sb.WriteByte(':')
			m.elems[i].canon(sb)
		}
		sb.WriteByte('}')
	case 'a':
		// (v, [(v,)])  or  (v, [()])
		sb.WriteByte('[')
		m.elems[0].canon(sb)
		sb.WriteString(",[[")
		if m.s == "alias-prefix" {
			m.elems[0].canon(sb)
		}
		sb.WriteString("]]]")
	default:
		sb.WriteString("?poison")
	}
}

func (m *mval) canonString() string {
	var sb strings.Builder
	m.canon(&sb)
	return sb.String()
}

// representable reports whether no poison node occurs; strictStrings whether all strings are valid UTF-8.
func (m *mval) scanFlags() (poison string, validUTF8 bool) {
	validUTF8 = true
	var walk func(m *mval)
	seen := map[*mval]bool{}
	walk = func(m *mval) {
		if seen[m] {
			return
		}
		seen[m] = true
		if m.k == 'x' && poison == "" {
			poison = m.s
		}
		if m.k == 's' && !utf8.ValidString(m.s) {
			validUTF8 = false
		}
		for _, k := range m.keys {
			if !utf8.ValidString(k) {
				validUTF8 = false
			}
		}
		for _, e := range m.elems {
			walk(e)
		}
	}
	walk(m)
	return
}

// star builds the Starlark value. Identical *mval nodes map to the identical Starlark object.
func (m *mval) star(memo map[*mval]starlark.Value) starlark.Value {
	if v, ok := memo[m]; ok {
		return v
	}
	var v starlark.Value
	switch m.k {
	case 'n':
		v = starlark.None
	case 'b':
		v = starlark.Bool(m.b)
	case 'i':
		v = starlark.MakeBigInt(m.i)
	case 'f':
		v = starlark.Float(m.f)
	case 's':
		v = starlark.String(m.s)
	case 'l':
		elems := make([]starlark.Value, len(m.elems))
		for i, e := range m.elems {
			elems[i] = e.star(memo)
		}
		v = starlark.NewList(elems)
	case 't':
		elems := make(starlark.Tuple, len(m.elems))
		for i, e := range m.elems {
			elems[i] = e.star(memo)
		}
		v = elems
	case 'd':
		d := starlark.NewDict(len(m.keys))
		for i, k := range m.keys {
			d.SetKey(starlark.String(k), m.elems[i].star(memo))
		}
		v = d
	case 'o':
		sd := make(starlark.StringDict, len(m.keys))
		for i, k := range m.keys {
			sd[k] = m.elems[i].star(memo)
		}
		v = starlarkstruct.FromStringDict(starlarkstruct.Default, sd)
	case 'a':
		// t = (v, []); t[1].append(t[:1])   or   t[1].append(t[2:2])
		l := starlark.NewList(nil)
		t := starlark.Tuple{m.elems[0].star(memo), l}
		if m.s == "alias-prefix" {
			l.Append(t.Slice(0, 1, 1))
		} else {
			l.Append(t.Slice(2, 2, 1))
		}
		v = t
	case 'x':
		v = poisonValue(m.s)
	}
	memo[m] = v
	return v
}

var poisonKinds = []string{
	"nan", "+inf", "-inf",
	"dict-int-key", "dict-none-key", "dict-bool-key", "dict-float-key", "dict-tuple-key", "dict-bytes-key", "dict-mixed-keys",
	"cycle-list", "cycle-dict", "cycle-list-tuple", "cycle-struct", "cycle-long",
	"builtin", "bytes",
}

func poisonValue(name string) starlark.Value {
	dictWith := func(k starlark.Value) starlark.Value {
		d := starlark.NewDict(2)
		d.SetKey(k, starlark.MakeInt(1))
		return d
	}
	switch name {
	case "nan":
		return starlark.Float(math.NaN())
	case "+inf":
		return starlark.Float(math.Inf(1))
	case "-inf":
		return starlark.Float(math.Inf(-1))
	case "dict-int-key":
		return dictWith(starlark.MakeInt(1))
	case "dict-none-key":
		return dictWith(starlark.None)
	case "dict-bool-key":
		return dictWith(starlark.True)
	case "dict-float-key":
		return dictWith(starlark.Float(1.5))
	case "dict-tuple-key":
		return dictWith(starlark.Tuple{starlark.String("a")})
	case "dict-bytes-key":
		return dictWith(starlark.Bytes("a"))
	case "dict-mixed-keys":
		d := starlark.NewDict(2)
		d.SetKey(starlark.String("a"), starlark.MakeInt(1))
		d.SetKey(starlark.MakeInt(2), starlark.MakeInt(2))
		d.SetKey(starlark.String("b"), starlark.MakeInt(3))
		return d
	case "cycle-list":
		l := starlark.NewList(nil)
		l.Append(starlark.MakeInt(1))
		l.Append(l)
		return l
	case "cycle-dict":
		d := starlark.NewDict(1)
		d.SetKey(starlark.String("self"), d)
		return d
	case "cycle-list-tuple":
		l := starlark.NewList(nil)
		l.Append(starlark.Tuple{starlark.MakeInt(1), l})
		return l
	case "cycle-struct":
		l := starlark.NewList(nil)
		s := starlarkstruct.FromStringDict(starlarkstruct.Default, starlark.StringDict{"f": l})
		l.Append(s)
		return s
	case "cycle-long":
		l := starlark.NewList(nil)
		d := starlark.NewDict(1)
		d.SetKey(starlark.String("k"), starlark.NewList([]starlark.Value{starlark.Tuple{l}}))
		l.Append(d)
		return l
	case "builtin":
		return starlark.NewBuiltin("f", func(*starlark.Thread, *starlark.Builtin, starlark.Tuple, []starlark.Tuple) (starlark.Value, error) {
			return starlark.None, nil
		})
	case "bytes":
		return starlark.Bytes("abc")
	}
	panic("unknown poison " + name)
}

// canonStar renders a value returned by json.decode. Anything other than
// None/bool/int/float/string/list/dict-with-string-keys renders as ?type and therefore never matches.
func canonStar(sb *strings.Builder, v starlark.Value, depth int) {
	if depth > 5000 {
		sb.WriteString("?deep")
		return
	}
	switch v := v.(type) {
	case nil:
		sb.WriteString("?nil")
	case starlark.NoneType:
		sb.WriteByte('n')
	case starlark.Bool:
		if v {
			sb.WriteByte('T')
		} else {
			sb.WriteByte('F')
		}
	case starlark.Int:
		sb.WriteByte('i')
		sb.WriteString(v.BigInt().String())
	case starlark.Float:
		fmt.Fprintf(sb, "f%016x", math.Float64bits(float64(v)))
	case starlark.String:
		sb.WriteByte('s')
		sb.WriteString(hexs(string(v)))
	case *starlark.List:
		sb.WriteByte('[')
		for i := 0; i < v.Len(); i++ {
			if i > 0 {
				sb.WriteByte(',')
			}
			canonStar(sb, v.Index(i), depth+1)
		}
		sb.WriteByte(']')
	case *starlark.Dict:
		items := v.Items()
		type kv struct {
			k string
			v starlark.Value
		}
		kvs := make([]kv, 0, len(items))
		for _, it := range items {
			ks, ok := it[0].(starlark.String)
			if !ok {
				sb.WriteString("?key:" + it[0].Type())
				return
			}
			kvs = append(kvs, kv{string(ks), it[1]})
		}
		sort.Slice(kvs, func(a, b int) bool { return kvs[a].k < kvs[b].k })
		sb.WriteByte('{')
		for i, e := range kvs {
			if i > 0 {
				sb.WriteByte(',')
			}
			sb.WriteString(hexs(e.k))
			sb.WriteByte(':')
			canonStar(sb, e.v, depth+1)
		}
		sb.WriteByte('}')
	default:
		sb.WriteString("?" + v.Type())
	}
}

func canonOfStar(v starlark.Value) string {
	var sb strings.Builder
	canonStar(&sb, v, 0)
	return sb.String()
}

// pretty turns a canonical rendering into something a person can read (best effort).
func pretty(c string) string {
	var sb strings.Builder
	i := 0
	for i < len(c) && sb.Len() < 600 {
		switch ch := c[i]; ch {
		case 'n':
			sb.WriteString("null")
			i++
		case 'T':
			sb.WriteString("true")
			i++
		case 'F':
			sb.WriteString("false")
			i++
		case 'i':
			j := i + 1
			for j < len(c) && (c[j] == '-' || isDigit(c[j])) {
				j++
			}
			sb.WriteString("int(" + c[i+1:j] + ")")
			i = j
		case 'f':
			if i+17 <= len(c) {
				bits, err := strconv.ParseUint(c[i+1:i+17], 16, 64)
				if err == nil {
					sb.WriteString("float(" + strconv.FormatFloat(math.Float64frombits(bits), 'g', -1, 64) + ")")
					i += 17
					continue
				}
			}
			sb.WriteByte(ch)
			i++
		case 's':
			j := i + 1
			for j < len(c) && isHex(c[j]) {
				j++
			}
			b, _ := hex.DecodeString(c[i+1 : j])
			sb.WriteString(strconv.QuoteToASCII(string(b)))
			i = j
		case '{', ',':
			sb.WriteByte(ch)
			i++
			// object key?
			j := i
			for j < len(c) && isHex(c[j]) {
				j++
			}
			if j < len(c) && c[j] == ':' && (j-i)%2 == 0 && inObject(c, i) {
				b, _ := hex.DecodeString(c[i:j])
				sb.WriteString(strconv.QuoteToASCII(string(b)))
				sb.WriteByte(':')
				i = j + 1
			}
		default:
			sb.WriteByte(ch)
			i++
		}
	}
	if i < len(c) {
		sb.WriteString("…")
	}
	return sb.String()
}

// inObject reports whether position i of canonical text c lies directly inside an object.
func inObject(c string, i int) bool {
	depth := 0
	for j := i - 1; j >= 0; j-- {
		switch c[j] {
		case ']', '}':
			depth++
		case '[':
			if depth == 0 {
				return false
			}
			depth--
		case '{':
			if depth == 0 {
				return true
			}
			depth--
		}
	}
	return false
}

// ---------------------------------------------------------------------------------------------
// value generator

type vgen struct {
	r      *rand.Rand
	budget int
	kinds  map[string]bool // coverage: value kinds / string classes / number classes produced
}

func (g *vgen) note(k string) { g.kinds[k] = true }

var pow2s = []uint{7, 8, 15, 16, 24, 31, 32, 52, 53, 54, 62, 63, 64, 65, 100, 127, 128, 199, 200}

func (g *vgen) genInt() *big.Int {
	r := g.r
	x := new(big.Int)
	switch r.Intn(8) {
	case 0:
		x.SetInt64(int64(r.Intn(21) - 10))
		g.note("int small")
	case 1, 2:
		k := pow2s[r.Intn(len(pow2s))]
		x.Lsh(big.NewInt(1), k)
		x.Add(x, big.NewInt(int64(r.Intn(3)-1)))
		g.note("int 2^k±1")
	case 3:
		x.SetInt64(r.Int63())
		if r.Intn(2) == 0 {
			x.Rsh(x, uint(r.Intn(63)))
		}
		g.note("int 63-bit")
	case 4:
		// powers of ten and neighbours (decimal carry patterns)
		k := r.Intn(60)
		x.Exp(big.NewInt(10), big.NewInt(int64(k)), nil)
		x.Add(x, big.NewInt(int64(r.Intn(3)-1)))
		g.note("int 10^k±1")
	default:
		bits := 1 + r.Intn(200)
		for i := 0; i < bits; i += 32 {
			x.Lsh(x, 32)
			x.Or(x, big.NewInt(int64(r.Uint32())))
		}
		lim := new(big.Int).Lsh(big.NewInt(1), uint(bits))
		x.Mod(x, lim)
		if bits > 64 {
			g.note("int big")
		} else {
			g.note("int random")
		}
	}
	// |x| <= 2^200
	if x.Cmp(big200) >= 0 {
		x.Set(big200)
		g.note("int 2^200")
	}
	if r.Intn(2) == 0 {
		x.Neg(x)
	}
	return x
}

var big200 = new(big.Int).Lsh(big.NewInt(1), 200)

var specialFloats = []float64{
	0, math.Copysign(0, -1), 1, -1, 0.5, 0.1, 0.2, 0.1 + 0.2, 1.0 / 3, 2.0 / 3, 1e21, 1e22, 1e23, 9.999999999999999e20, 1e20, 1e-5, 1e-4, 9.999e-5, 1e-7,
	5e-324, -5e-324, 2.2250738585072009e-308, 2.2250738585072014e-308, 2.2250738585072011e-308, math.MaxFloat64, -math.MaxFloat64,
	9007199254740992, 9007199254740993, 9007199254740991, 4503599627370496.5, 123456789012345678, 1e15, 1e16, 1e17, 123456.789, 1e100, 1e-100, 1.7976931348623155e308,
	4.35, 0.3, 2.675, 1.005, 100, 1e6, 1234567, 0.000001, 0.0000001, 8.41e21, 5e-5, 17.0, math.Pi, math.E, 1 << 31, 1 << 32, 1 << 63, 1 << 64,
}

func (g *vgen) genFloat() float64 {
	r := g.r
	switch r.Intn(10) {
	case 0, 1:
		f := specialFloats[r.Intn(len(specialFloats))]
		switch {
		case f == 0 && math.Signbit(f):
			g.note("float -0.0")
		case f == 0:
			g.note("float 0.0")
		case math.Abs(f) < 2.2250738585072014e-308:
			g.note("float subnormal")
		default:
			g.note("float special")
		}
		return f
	case 2:
		// subnormal
		g.note("float subnormal")
		f := math.Float64frombits(uint64(r.Int63()) & (1<<52 - 1))
		if r.Intn(2) == 0 {
			f = -f
		}
		return f
	case 3:
		// integral value
		g.note("float integral")
		f := float64(r.Int63n(1 << 53))
		if r.Intn(3) == 0 {
			f = float64(r.Intn(2000) - 1000)
		}
		if r.Intn(2) == 0 {
			f = -f
		}
		return f
	case 4:
		// short decimal d.ddd e±xx
		g.note("float short decimal")
		nd := 1 + r.Intn(6)
		s := ""
		for i := 0; i < nd; i++ {
			s += string(rune('0' + r.Intn(10)))
		}
		f, _ := strconv.ParseFloat(s+"e"+strconv.Itoa(r.Intn(640)-330), 64)
		if math.IsInf(f, 0) {
			f = math.MaxFloat64
		}
		if r.Intn(2) == 0 {
			f = -f
		}
		return f
	case 5:
		g.note("float unit interval")
		return r.Float64()
	case 6:
		// near the %g fixed/exponent switch points 1e21 and 1e-4
		g.note("float near format switch")
		base := []float64{1e21, 1e-4, 1e-5, 1e20, 1e22}[r.Intn(5)]
		bits := math.Float64bits(base) + uint64(r.Intn(9)) - 4
		return math.Float64frombits(bits)
	default:
		// random bit pattern, finite (17 significant digits typical)
		for {
			f := math.Float64frombits(r.Uint64())
			if !math.IsNaN(f) && !math.IsInf(f, 0) {
				g.note("float random bits")
				return f
			}
		}
	}
}

var notableRunes = []rune{
	0x80, 0x9f, 0xa0, 0xe9, 0xff, 0x100, 0x7ff, 0x800, 0x2028, 0x2029, 0xfffd, 0xfeff, 0xffff, 0xfffe, 0xd7ff, 0xe000,
	0x10000, 0x1f600, 0x10ffff, 0x1d11e, 0x200b, 0x202e, 0x3000, 0x4e2d, 0x0301,
}

var asciiSpecial = []byte{0x7f, '"', '\\', '/', '<', '>', '&', '\'', ' ', '~', 'u', '0', '{', '}', '[', ']', ':', ','}

func runeClass(rn rune) string {
	switch {
	case rn == utf8.RuneError:
		return "U+FFFD"
	case rn < 0x20:
		return "c0-control"
	case rn == 0x7f:
		return "del"
	case rn == '"':
		return "quote"
	case rn == '\\':
		return "backslash"
	case rn == '/':
		return "solidus"
	case rn == '<' || rn == '>' || rn == '&':
		return "html-special"
	case rn < 0x80:
		return "ascii"
	case rn < 0xa0:
		return "c1-control"
	case rn == 0x2028 || rn == 0x2029:
		return "u2028"
	case rn < 0x10000:
		return "bmp"
	}
	return "astral"
}

func (g *vgen) genRune(mode int) rune {
	r := g.r
	switch mode {
	case 0: // ASCII only (the encoder's fast path)
		if r.Intn(4) == 0 {
			return rune(asciiSpecial[r.Intn(len(asciiSpecial))])
		}
		return rune(0x20 + r.Intn(0x60)) // 0x20..0x7f
	case 1: // ASCII + C0
		if r.Intn(3) == 0 {
			return rune(r.Intn(0x20))
		}
		return g.genRune(0)
	}
	switch r.Intn(10) {
	case 0, 1, 2:
		return g.genRune(1)
	case 3, 4:
		return notableRunes[r.Intn(len(notableRunes))]
	case 5:
		return rune(0x80 + r.Intn(0x780))
	case 6, 7:
		for {
			c := rune(0x800 + r.Intn(0x10000-0x800))
			if c < 0xd800 || c > 0xdfff {
				return c
			}
		}
	default:
		return rune(0x10000 + r.Intn(0x100000))
	}
}

func (g *vgen) genString() string {
	r := g.r
	if r.Intn(12) == 0 {
		g.note("string empty")
		return ""
	}
	mode := []int{0, 0, 0, 1, 1, 2, 2, 2, 2}[r.Intn(9)]
	n := 1 + r.Intn(8)
	switch r.Intn(30) {
	case 0:
		n = 20 + r.Intn(40)
	case 1:
		n = 120 + r.Intn(16) // around the encoder's 128-byte quote buffer
	case 2:
		n = 200 + r.Intn(200)
	}
	var sb strings.Builder
	for i := 0; i < n; i++ {
		rn := g.genRune(mode)
		g.note("rune " + runeClass(rn))
		sb.WriteRune(rn)
	}
	g.note([]string{"string ascii-only", "string ascii+c0", "string unicode"}[mode])
	return sb.String()
}

// genBadUTF8String returns a string that is not valid UTF-8 (not JSON-representable exactly).
func (g *vgen) genBadUTF8String() string {
	bad := []string{"\xff", "\xc0\x80", "\xe2\x82", "\xed\xa0\x80", "\xf4\x90\x80\x80", "\x80", "\xf0\x9f\x98"}
	s := g.genString()
	k := g.r.Intn(len(s) + 1)
	for k > 0 && k < len(s) && !utf8.RuneStart(s[k]) {
		k--
	}
	g.note("string invalid-utf8")
	return s[:k] + bad[g.r.Intn(len(bad))] + s[k:]
}

func (g *vgen) scalar() *mval {
	r := g.r
	switch r.Intn(12) {
	case 0:
		g.note("None")
		return &mval{k: 'n'}
	case 1:
		g.note("bool")
		return &mval{k: 'b', b: r.Intn(2) == 0}
	case 2, 3, 4:
		return &mval{k: 'i', i: g.genInt()}
	case 5, 6, 7:
		return &mval{k: 'f', f: g.genFloat()}
	default:
		return &mval{k: 's', s: g.genString()}
	}
}

func (g *vgen) keys(n int) []string {
	seen := map[string]bool{}
	var ks []string
	for len(ks) < n {
		k := g.genString()
		if g.r.Intn(3) == 0 {
			k = string(rune('a' + g.r.Intn(26)))
		}
		if !seen[k] {
			seen[k] = true
			ks = append(ks, k)
		}
	}
	return ks
}

// value generates a value nested at most maxDepth containers deep (depth counts containers above).
func (g *vgen) value(depth, maxDepth int) *mval {
	r := g.r
	g.budget--
	if depth >= maxDepth || g.budget <= 0 || r.Intn(10) < 3+depth {
		return g.scalar()
	}
	n := r.Intn(5)
	if r.Intn(8) == 0 {
		n = 0
	}
	if depth == 0 && r.Intn(40) == 0 {
		n = 10 + r.Intn(30)
	}
	var m *mval
	switch r.Intn(4) {
	case 0:
		m = &mval{k: 'l'}
		g.note("list")
	case 1:
		m = &mval{k: 't'}
		g.note("tuple")
	case 2:
		m = &mval{k: 'd', keys: g.keys(n)}
		g.note("dict")
	default:
		m = &mval{k: 'o', keys: g.keys(n)}
		g.note("struct")
	}
	if n == 0 {
		g.note("empty " + map[byte]string{'l': "list", 't': "tuple", 'd': "dict", 'o': "struct"}[m.k])
	}
	for i := 0; i < n; i++ {
		if i > 0 && r.Intn(20) == 0 {
			// DAG: the same object twice (must not be mistaken for a cycle)
			m.elems = append(m.elems, m.elems[i-1])
			g.note("shared substructure")
			continue
		}
		m.elems = append(m.elems, g.value(depth+1, maxDepth))
	}
	if depth+1 > 0 {
		g.note(fmt.Sprintf("depth %d", depth+1))
	}
	return m
}

// chain builds a value exactly maxDepth containers deep.
func (g *vgen) chain(maxDepth int) *mval {
	m := g.scalar()
	for d := 0; d < maxDepth; d++ {
		switch g.r.Intn(4) {
		case 0:
			m = &mval{k: 'l', elems: []*mval{m}}
		case 1:
			m = &mval{k: 't', elems: []*mval{g.scalar(), m}}
		case 2:
			m = &mval{k: 'd', keys: g.keys(1), elems: []*mval{m}}
		default:
			m = &mval{k: 'o', keys: g.keys(1), elems: []*mval{m}}
		}
	}
	g.note(fmt.Sprintf("depth %d", maxDepth))
	return m
}

// inject replaces one node of m (possibly the root) by repl and returns the new root.
func (g *vgen) inject(m *mval, repl *mval) *mval {
	// collect container slots
	type slot struct {
		parent *mval
		idx    int
	}
	var slots []slot
	seen := map[*mval]bool{}
	var walk func(m *mval)
	walk = func(m *mval) {
		if seen[m] {
			return
		}
		seen[m] = true
		if m.k == 'a' {
			return
		}
		for i, e := range m.elems {
			slots = append(slots, slot{m, i})
			walk(e)
		}
	}
	walk(m)
	if len(slots) == 0 || g.r.Intn(6) == 0 {
		return repl
	}
	s := slots[g.r.Intn(len(slots))]
	s.parent.elems[s.idx] = repl
	return m
}
