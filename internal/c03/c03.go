// Package c03 monitors property C03: execution is deterministic. The same (program, predeclared
// environment, dialect options) is executed in two fresh processes (new maphash seed, new address
// space), in the engine's own process before and after many unrelated executions, twice back to
// back on one reused thread, on a long-lived thread, and on 8 goroutines at once (all the same
// program, and each a different program); the Records (print transcript, host events, canonical
// globals, canonical error with frames and backtrace, steps) must be byte-for-byte equal.
package c03

import (
	"fmt"
	"math/bits"
	"math/rand"
	"runtime"
	"sort"
	"strconv"
	"strings"
	"sync"
	"unicode/utf8"

	"go.starlark.net/starlark"

	"verif/internal/driver"
	"verif/internal/gen"
	"verif/internal/sl"
)

const (
	batchSize    = 104 // programs per case = per helper process
	goroutines   = 8
	sharedTrials = 192 // fresh Programs per shared-program case
)

func init() {
	driver.Register(&driver.Engine{
		ID: "C03", Level: "exploration",
		Rule: "a case is a batch of " + strconv.Itoa(batchSize) + " programs: ~40% from the shared semantic generator (gen.Generate with tracing host calls and loads, random layout, all 64 option vectors) and ~60% from a directed generator with 15 families " +
			"(dict and set histories over string keys of 1..100 bytes incl. 11/12/13/40 and short keys colliding in the low hash bits, grown past one bucket and shrunk; dir() of every value type; struct(**kwargs), struct+struct; json encode/decode of objects; " +
			"hash(); sorted/min/max with ties; misspelt attributes / keyword arguments / load names / identifiers that produce \"did you mean\" hints, wrapped in up to 4 frames; backtraces through defs, lambdas, comprehensions and built-in callbacks; % and format of dicts, string methods on long strings; " +
			"time with an injected fixed clock and named zones; math; loads of cached frozen modules; repr of functions/modules/built-ins and tables keyed by them; **kwargs binding). " +
			"Each program is executed in helper process A (batch order), helper process B (reverse order), and in the engine process: once (reference), again after the whole batch and a GC (>= batch-1 unrelated executions in between), twice back-to-back on one fresh Thread, once on a Thread reused for the whole batch, " +
			"8 goroutines running the same program simultaneously, and 8 goroutines each walking the batch in a different order. Every record is compared byte for byte with the reference. " +
			"Shared-program cases (16 quick / 240 thorough): one generated program with 1-4 long functions (6 000-40 000 lines in total, bodies skipped at run time) that fails on the last line of the innermost one, several frames deep (defs, lambdas, comprehensions, sorted callbacks), and calls a host built-in that records Thread.CallStack(); " +
			strconv.Itoa(sharedTrials) + " trials, each with a FRESH *starlark.Program (every 16th from SourceProgramOptions, the others from Write -> CompiledProgram) Init-ed by 8 goroutines released by a spin barrier with a per-trial stagger of 0-20 us per goroutine; every goroutine's record is compared with a solo reference made from a separately compiled Program. " +
			"A program is non-trivial if its record contains a dict/set/struct listing with >= 2 elements or a \"did you mean\" hint, or if the directed generator tagged it as printing a map-backed listing (dir, json object, str of dict/set/struct/module); distinct = distinct (options, source text) among those.",
		Assumptions: []string{
			"two helper processes started from the same binary get independent maphash seeds (hash/maphash.MakeSeed) and address-space layouts",
			"the host callbacks (t, tick, trace, load cache, fixed clock) are deterministic functions of the execution; cached modules are executed on a thread of their own so their steps are not charged to the importer",
			"canon.Globals / canon.Error list dict and set elements in the implementation's iteration order and struct fields in AttrNames order",
			"process environment (TZ, zoneinfo database) is identical for the engine process and its helpers",
		},
		Run:         run,
		MinDistinct: 200,
		Finish:      finish,
		WatchdogMin: func(tier string) int { return 40 },
	})
}

func finish(ev map[string]any) (string, bool) {
	cnt, _ := ev["counters"].(map[string]int64)
	for _, k := range []string{"programs", "process_pairs", "records_compared", "programs_long_string_keys", "programs_map_backed_listing", "programs_error_hint",
		"exec_process_a", "exec_process_b", "exec_after_unrelated", "exec_reused_thread", "exec_long_lived_thread", "exec_concurrent_same", "exec_concurrent_mixed", "exec_shared_source", "exec_shared_compiled"} {
		if cnt[k] <= 0 {
			return "monitor observed nothing for " + k, true
		}
	}
	return "", false
}

type item struct {
	c        Case
	tags     []string
	ref      Record
	refText  string
	diffs    []diff
	compared int
	nontriv  bool
}

type diff struct {
	arm string
	rec Record
}

func buildBatch(r *rand.Rand) []*item {
	items := make([]*item, batchSize)
	for i := range items {
		it := &item{}
		if r.Intn(10) < 4 {
			bits := r.Intn(64)
			opts := *sl.OptionsFromBits(bits)
			p := gen.Generate(r, gen.Config{Opts: opts, Trace: true, Host: true, Loads: true, Misuse: []float64{0.004, 0.004, 0.03}[r.Intn(3)]})
			src := gen.Render(p.Stmts, r, p.Options(gen.RandomLayout(r)))
			it.c = Case{Bits: bits, Src: src, Family: "gen"}
			for f := range p.Features {
				it.tags = append(it.tags, "gen:"+f)
			}
			sort.Strings(it.tags)
		} else {
			it.c, it.tags = directed(r)
		}
		items[i] = it
	}
	return items
}

func run(c *driver.Ctx) {
	nbatches := c.Pick(16, 400)
	for b := 0; b < nbatches; b++ {
		if !c.Take() {
			continue
		}
		runBatch(c, c.Rand())
	}
	// shared-program arm: one case = one program, sharedTrials fresh Programs, each Init-ed by N goroutines
	nshared := c.Pick(16, 240)
	for i := 0; i < nshared; i++ {
		if !c.Take() {
			continue
		}
		runShared(c, c.Rand(), sharedTrials)
	}
}

func runBatch(c *driver.Ctx, r *rand.Rand) {
	all := buildBatch(r)
	for _, it := range all {
		if !utf8.ValidString(it.c.Src) {
			c.Inconclusive("generator produced a source text that is not UTF-8")
			return
		}
	}
	c.Note("batch of %d programs; first: %s", len(all), driver.Truncate(all[0].c.Src, 300))

	// The sequential arms run on one P (one child per core is already running, and with a live heap
	// this small the parallel collector's worker handshakes would cost more than the work itself);
	// the concurrent arms get as many Ps as goroutines.
	runtime.GOMAXPROCS(1)
	// arm: own process, first execution (reference), screened for runaway allocation
	var items []*item
	for _, it := range all {
		c.Note("reference execution of:\n%s", driver.Truncate(it.c.Src, 3500))
		var heavy bool
		var allocated uint64
		it.ref, allocated, heavy = executeScreened(&it.c)
		if heavy {
			c.Count("programs_excluded_runaway_allocation", 1)
			runtime.GC()
			continue
		}
		c.Cover("allocated_per_execution_log2_bytes", strconv.Itoa(bits.Len64(allocated)))
		it.refText = it.ref.Text()
		items = append(items, it)
	}
	c.Note("batch of %d programs", len(items))
	cases := make([]Case, len(items))
	for i, it := range items {
		cases[i] = it.c
	}

	// fresh processes, started now and running while this process does its own arms
	orderA := make([]int, len(items))
	orderB := make([]int, len(items))
	for i := range orderA {
		orderA[i] = i
		orderB[i] = len(items) - 1 - i
	}
	var recA, recB []Record
	var errA, errB error
	var hw sync.WaitGroup
	hw.Add(2)
	go func() { defer hw.Done(); recA, errA = spawnHelper(cases, orderA) }()
	go func() { defer hw.Done(); recB, errB = spawnHelper(cases, orderB) }()

	var mu sync.Mutex
	compared := 0
	judge := func(it *item, arm string, rec *Record) {
		same := rec.Steps == it.ref.Steps && rec.Print == it.ref.Print && rec.Events == it.ref.Events && rec.Globals == it.ref.Globals && rec.Err == it.ref.Err
		mu.Lock()
		compared++
		if !same {
			it.diffs = append(it.diffs, diff{arm, *rec})
		}
		mu.Unlock()
	}

	// arm: same process after >= len(items)-1 unrelated executions and a collection
	runtime.GC()
	for _, it := range items {
		rec := execute(nil, &it.c)
		judge(it, "after-unrelated", &rec)
	}
	c.Count("exec_reference", len(items))
	c.Count("exec_after_unrelated", len(items))
	c.Cover("unrelated_executions_between", strconv.Itoa(len(items)-1))

	// arm: one thread reused back to back; a thread that lives for the whole batch
	long := &starlark.Thread{Name: "long-lived"}
	for _, it := range items {
		th := &starlark.Thread{Name: "reused"}
		r1 := execute(th, &it.c)
		judge(it, "reused-thread-first", &r1)
		r2 := execute(th, &it.c)
		judge(it, "reused-thread-second", &r2)
		r3 := execute(long, &it.c)
		judge(it, "long-lived-thread", &r3)
	}
	c.Count("exec_reused_thread", 2*len(items))
	c.Count("exec_long_lived_thread", len(items))

	// arm: N goroutines execute the same program simultaneously, each on its own thread
	runtime.GOMAXPROCS(goroutines)
	for _, it := range items {
		start := make(chan struct{})
		var wg sync.WaitGroup
		for g := 0; g < goroutines; g++ {
			wg.Add(1)
			go func() {
				defer wg.Done()
				<-start
				rec := execute(nil, &it.c)
				judge(it, "concurrent-same", &rec)
			}()
		}
		close(start)
		wg.Wait()
	}
	c.Count("exec_concurrent_same", goroutines*len(items))

	// arm: N goroutines each walk the batch in their own order: every program runs while unrelated ones run
	{
		start := make(chan struct{})
		var wg sync.WaitGroup
		for g := 0; g < goroutines; g++ {
			wg.Add(1)
			go func(g int) {
				defer wg.Done()
				<-start
				n := len(items)
				for k := 0; k < n; k++ {
					i := (g*n/goroutines + k) % n
					if g%2 == 1 {
						i = (g*n/goroutines + n - k) % n
					}
					rec := execute(nil, &items[i].c)
					judge(items[i], "concurrent-mixed", &rec)
				}
			}(g)
		}
		close(start)
		wg.Wait()
	}
	c.Count("exec_concurrent_mixed", goroutines*len(items))

	hw.Wait()
	if errA != nil || errB != nil {
		c.Inconclusive("helper process failed: A: %v B: %v", errA, errB)
	} else {
		c.Count("process_pairs", 1)
	}
	if errA == nil {
		for i, it := range items {
			judge(it, "process-A", &recA[i])
		}
		c.Count("exec_process_a", len(items))
	}
	if errB == nil {
		for i, it := range items {
			judge(it, "process-B", &recB[i])
		}
		c.Count("exec_process_b", len(items))
	}
	nexec := len(items) * (2 + 3 + 2*goroutines)
	if errA == nil {
		nexec += len(items)
	}
	if errB == nil {
		nexec += len(items)
	}
	c.Eval(nexec)
	c.Count("records_compared", compared)

	for _, it := range items {
		it.compared = 3 + 2*goroutines + 1
		if errA == nil {
			it.compared++
		}
		if errB == nil {
			it.compared++
		}
		account(c, it)
		if len(it.diffs) > 0 {
			report(c, it)
		}
	}
}

func hasTag(tags []string, t string) bool {
	for _, x := range tags {
		if x == t {
			return true
		}
	}
	return false
}

var hintSources = []struct{ needle, name string }{
	{"load: name", "load-name"}, {"unexpected keyword argument", "keyword-argument"}, {"undefined:", "undefined-identifier"},
	{"has no .", "attribute"}, {"no such", "attribute"},
}

func account(c *driver.Ctx, it *item) {
	c.Count("programs", 1)
	c.Cover("family", it.c.Family)
	c.Cover("options", sl.OptionsString(sl.OptionsFromBits(it.c.Bits)))
	for _, t := range it.tags {
		c.Cover("features", t)
	}
	ref := &it.ref
	listing, hint := hasListing(ref), hasHint(ref)
	tagged := hasTag(it.tags, "map-backed-listing")
	switch {
	case ref.Err == "ok":
		c.Count("programs_ok", 1)
	case strings.HasPrefix(ref.Err, "evalerror:"):
		c.Count("programs_dynamic_error", 1)
		if strings.Contains(ref.Err, "too many steps") {
			c.Count("programs_step_limit", 1)
		}
		c.Cover("backtrace_frames", strconv.Itoa(min(strings.Count(ref.Err, "\n  frame "), 12)))
	case strings.HasPrefix(ref.Err, "PANIC"):
		c.Count("programs_go_panic", 1)
	default:
		c.Count("programs_static_error", 1)
	}
	if hint {
		c.Count("programs_error_hint", 1)
		msg := firstLine(ref.Err)
		src := "other"
		for _, h := range hintSources {
			if strings.Contains(msg, h.needle) {
				src = h.name
				break
			}
		}
		c.Cover("hint_source", src)
	}
	if listing {
		c.Count("programs_listing_in_record", 1)
	}
	if hasTag(it.tags, "long-string-keys") {
		c.Count("programs_long_string_keys", 1)
	}
	if tagged {
		c.Count("programs_map_backed_listing", 1)
	}
	if ref.Print != "" {
		c.Count("programs_printing", 1)
	}
	if ref.Events != "" {
		c.Count("programs_with_host_events", 1)
	}
	if listing || hint || (tagged && (ref.Print != "" || listing)) {
		it.nontriv = true
		c.Count("programs_nontrivial", 1)
		c.DistinctH(driver.Hash64(fmt.Sprintf("%d\x00%s", it.c.Bits, it.c.Src)))
	}
	if c.WantSample() && it.nontriv {
		c.Sample(map[string]any{"family": it.c.Family, "options": sl.OptionsString(sl.OptionsFromBits(it.c.Bits)), "source": driver.Truncate(it.c.Src, 700),
			"record_hash": hashText(it.refText), "steps": ref.Steps, "outcome": driver.Truncate(firstLine(ref.Err), 200), "records_compared_with_reference": it.compared, "records_equal_to_reference": it.compared - len(it.diffs)})
	}
}

func report(c *driver.Ctx, it *item) {
	d := it.diffs[0]
	// prefer a cross-process difference for the witness only if there is no in-process one: the key is
	// made from the first differing component, which is the same for one root cause in most arms
	class := diffClass(&it.ref, &d.rec)
	if it.c.Family == "shared-program" && strings.HasPrefix(class, "events-") && firstDiffLineHasPrefix(it.ref.Events, d.rec.Events, "stack ") {
		class = "error-backtrace" // the call stack seen by a host built-in: same observable as the backtrace
	}
	arms := map[string]int{}
	for _, x := range it.diffs {
		arms[x.arm]++
	}
	var al []string
	for a, n := range arms {
		al = append(al, fmt.Sprintf("%s×%d", a, n))
	}
	sort.Strings(al)
	comp, off, ctxA, ctxB := firstDifference(&it.ref, &d.rec)
	key := fmt.Sprintf("C03 differs %s %s", class, it.c.Family)
	what := fmt.Sprintf("record of arm %s differs from the reference execution in component %s at byte %d (differing arms: %s); options %s",
		d.arm, comp, off, strings.Join(al, ", "), sl.OptionsString(sl.OptionsFromBits(it.c.Bits)))
	c.Violation(key, what, map[string]any{
		"options_bits": it.c.Bits, "options": sl.OptionsString(sl.OptionsFromBits(it.c.Bits)), "family": it.c.Family, "source": it.c.Src,
		"differing_arms": al, "component": comp, "offset": off, "reference_near_difference": ctxA, "other_near_difference": ctxB,
		"reference_arm": "own-process-first", "reference_record": driver.Truncate(it.refText, 30000),
		"other_arm": d.arm, "other_record": driver.Truncate(d.rec.Text(), 30000),
	})
}

// firstDiffLineHasPrefix reports whether the first line in which a and b differ starts with prefix (in either).
func firstDiffLineHasPrefix(a, b, prefix string) bool {
	la, lb := strings.Split(a, "\n"), strings.Split(b, "\n")
	for i := 0; i < len(la) && i < len(lb); i++ {
		if la[i] != lb[i] {
			return strings.HasPrefix(la[i], prefix) || strings.HasPrefix(lb[i], prefix)
		}
	}
	return false
}

func firstDifference(a, b *Record) (comp string, off int, ca, cb string) {
	for i, n := range componentNames {
		x, y := a.component(i), b.component(i)
		if x == y {
			continue
		}
		k := 0
		for k < len(x) && k < len(y) && x[k] == y[k] {
			k++
		}
		cut := func(s string) string {
			lo, hi := max(k-120, 0), min(k+200, len(s))
			return s[lo:hi]
		}
		return n, k, cut(x), cut(y)
	}
	return "none", 0, "", ""
}
