package c03

import (
	"fmt"
	"math/rand"
	"regexp"
	"sort"
	"strconv"
	"strings"
)

// The directed family: programs that lean on every Go-map-backed listing and every hash-dependent
// path. Each program is assembled from "snippets"; results are made observable through print(),
// through the global dict G (and, in top-level form, through plain globals) and through the error.

type prog struct {
	r      *rand.Rand
	family string
	tags   map[string]bool
	loads  []string // load statements (file level)
	defs   []string // top-level definitions
	body   []string // statements (relative indentation, 4 spaces per level)
	tail   []string // last statements (the failing one, if any)
	uniq   int
	bits   int
}

func (p *prog) tag(s string)            { p.tags[s] = true }
func (p *prog) chance(f float64) bool   { return p.r.Float64() < f }
func (p *prog) pick(xs []string) string { return xs[p.r.Intn(len(xs))] }
func (p *prog) add(format string, a ...any) {
	p.body = append(p.body, fmt.Sprintf(format, a...))
}
func (p *prog) def(format string, a ...any) { p.defs = append(p.defs, fmt.Sprintf(format, a...)) }
func (p *prog) v(prefix string) string {
	p.uniq++
	return fmt.Sprintf("%s_%d", prefix, p.uniq)
}

// out makes the value of expr observable under a fresh name.
func (p *prog) out(expr string) {
	p.uniq++
	p.add("G[%q] = %s", fmt.Sprintf("o%d", p.uniq), expr)
}

func q(s string) string { return strconv.Quote(s) }

// subst replaces $1..$9 in f by the corresponding values.
func subst(f string, vals ...string) string {
	var b strings.Builder
	for i := 0; i < len(f); i++ {
		if f[i] == '$' && i+1 < len(f) && f[i+1] >= '1' && f[i+1] <= '9' && int(f[i+1]-'1') < len(vals) {
			b.WriteString(vals[f[i+1]-'1'])
			i++
			continue
		}
		b.WriteByte(f[i])
	}
	return b.String()
}

func (p *prog) render() string {
	var b strings.Builder
	for _, l := range p.loads {
		b.WriteString(l + "\n")
	}
	b.WriteString("G = {}\n")
	for _, d := range p.defs {
		b.WriteString(d + "\n")
	}
	all := append(append([]string{}, p.body...), p.tail...)
	const tlc, reassign = 4, 8
	if p.bits&tlc != 0 && p.bits&reassign != 0 && p.chance(0.5) {
		for _, l := range all {
			b.WriteString(l + "\n")
		}
	} else {
		b.WriteString("def main():\n")
		if len(all) == 0 {
			b.WriteString("    pass\n")
		}
		for _, l := range all {
			for _, ll := range strings.Split(l, "\n") {
				b.WriteString("    " + ll + "\n")
			}
		}
		b.WriteString("main()\n")
	}
	return b.String()
}

// ---- key pools -------------------------------------------------------------------------------

func fnv32(s string) uint32 {
	var h uint32 = 2166136261
	for i := 0; i < len(s); i++ {
		h ^= uint32(s[i])
		h *= 16777619
	}
	return h
}

// collidingShort are short keys (FNV path) whose hashes agree in the low 8 bits.
var collidingShort = func() []string {
	var out []string
	for i := 0; len(out) < 96; i++ {
		s := fmt.Sprintf("c%d", i)
		if fnv32(s)&0xff == 0x5a {
			out = append(out, s)
		}
	}
	return out
}()

const alnum = "abcdefghijklmnopqrstuvwxyzABCDEFGHIJKLMNOPQRSTUVWXYZ0123456789-_"

func (p *prog) strOfLen(n int) string {
	b := make([]byte, n)
	for i := range b {
		b[i] = alnum[p.r.Intn(len(alnum))]
	}
	return string(b)
}

var lenClasses = []int{11, 12, 13, 40, 12, 13, 16, 24, 100, 3, 1, 7}

// keys returns n distinct string keys of mixed byte lengths (11, 12, 13, 40, …: the seeded hash
// starts at 12 bytes), some sharing long prefixes, some short ones colliding in the low hash bits.
func (p *prog) keys(n int) []string {
	seen := map[string]bool{}
	var out []string
	prefix := p.strOfLen(10)
	for len(out) < n {
		var k string
		switch p.r.Intn(10) {
		case 0, 1:
			k = collidingShort[p.r.Intn(len(collidingShort))]
		case 2:
			k = prefix + "-" + strconv.Itoa(p.r.Intn(1000)) // 12..14 bytes, common prefix
		case 3:
			k = "ключ-" + strconv.Itoa(p.r.Intn(100)) + "-значение" // non-ASCII, > 12 bytes
		case 4:
			k = strconv.Itoa(p.r.Intn(50))
		default:
			k = p.strOfLen(lenClasses[p.r.Intn(len(lenClasses))])
		}
		if !seen[k] {
			seen[k] = true
			out = append(out, k)
			if len(k) >= 12 {
				p.tag("long-string-keys")
			}
		}
	}
	return out
}

func qlist(ks []string) string {
	qs := make([]string, len(ks))
	for i, k := range ks {
		qs[i] = q(k)
	}
	return "[" + strings.Join(qs, ", ") + "]"
}

// identifiers usable as field / keyword names, with near neighbours and long names
func (p *prog) idents(n int) []string {
	bases := []string{"name", "value", "a_field_with_a_long_name", "another_long_field_name", "x", "size", "kind", "srcs", "deps", "visibility", "test_only_flag_", "Mixed_Case_Name", "data", "out"}
	seen := map[string]bool{}
	var out []string
	for len(out) < n {
		b := bases[p.r.Intn(len(bases))]
		var k string
		switch p.r.Intn(4) {
		case 0:
			k = b
		case 1:
			k = b + string("abcxyz_019"[p.r.Intn(10)])
		case 2:
			k = b + "_" + strconv.Itoa(p.r.Intn(30))
		default:
			k = string("pqrs"[p.r.Intn(4)]) + b
		}
		if !seen[k] {
			seen[k] = true
			out = append(out, k)
		}
	}
	return out
}

// scalar is a random hashable literal.
func (p *prog) scalar() string {
	switch p.r.Intn(9) {
	case 0:
		return strconv.Itoa(p.r.Intn(200) - 100)
	case 1:
		return q(p.strOfLen(lenClasses[p.r.Intn(len(lenClasses))]))
	case 2:
		return []string{"1.5", "2.0", "-0.0", "1e100", "3.25", "0.1"}[p.r.Intn(6)]
	case 3:
		return []string{"True", "False", "None"}[p.r.Intn(3)]
	case 4:
		return fmt.Sprintf("(%d, %s)", p.r.Intn(5), q(p.strOfLen(14)))
	case 5:
		return fmt.Sprintf("(1 << %d) + %d", 64+p.r.Intn(20), p.r.Intn(9))
	case 6:
		return "b" + q(p.strOfLen(5+p.r.Intn(12)))
	case 7:
		return fmt.Sprintf("(%s, (%d, %s))", q(p.strOfLen(13)), p.r.Intn(3), q(p.strOfLen(2)))
	default:
		return strconv.Itoa(p.r.Intn(10))
	}
}

// fieldValue is scalar() but rarely bytes (json.encode rejects bytes, and most struct programs encode).
func (p *prog) fieldValue() string {
	for {
		v := p.scalar()
		if !strings.HasPrefix(v, "b\"") || p.chance(0.1) {
			return v
		}
	}
}

// ---- snippets ----------------------------------------------------------------------------------

// dictOps: histories of insert / delete / re-insert / pop / popitem / setdefault / update / |= over
// a key pool, growing beyond one bucket and shrinking again; then every listing of the table.
func (p *prog) dictOps() {
	p.tag("dict-history")
	p.tag("map-backed-listing")
	m := 4 + p.r.Intn(60)
	if p.chance(0.2) {
		m = 100 + p.r.Intn(200)
	}
	ks := p.keys(m)
	kv, d := p.v("K"), p.v("d")
	p.add("%s = %s", kv, qlist(ks))
	p.add("%s = {}", d)
	nops := 10 + p.r.Intn(4*m)
	if p.chance(0.5) {
		// data-driven history
		var ops []string
		for i := 0; i < nops; i++ {
			ops = append(ops, fmt.Sprintf("(%d, %d, %d)", p.r.Intn(7), p.r.Intn(m), p.r.Intn(1000)))
		}
		ov, pv := p.v("OPS"), p.v("popped")
		p.add("%s = [%s]", ov, strings.Join(ops, ", "))
		p.add("%s = []", pv)
		p.add(`for op, ki, val in %[1]s:
    k = %[2]s[ki]
    if op == 0 or op == 5:
        %[3]s[k] = val
    elif op == 1:
        %[4]s.append(%[3]s.pop(k, None))
    elif op == 2:
        %[3]s.setdefault(k, [val]).append(op) if type(%[3]s.get(k, [])) == "list" else None
    elif op == 3 and len(%[3]s) > 2:
        %[4]s.append(%[3]s.popitem())
    elif op == 4:
        %[3]s.update([(k, val), (%[2]s[(ki * 7 + 1) %% len(%[2]s)], -val)])
    elif op == 6:
        %[3]s |= {%[2]s[(ki + val) %% len(%[2]s)]: k}`, ov, kv, d, pv)
		p.out(pv)
	} else {
		if nops > 60 {
			nops = 60
		}
		for i := 0; i < nops; i++ {
			k := fmt.Sprintf("%s[%d]", kv, p.r.Intn(m))
			switch p.r.Intn(9) {
			case 0, 1, 2:
				p.add("%s[%s] = %d", d, k, p.r.Intn(100))
			case 3:
				p.add("%s.pop(%s, None)", d, k)
			case 4:
				p.add("%s.setdefault(%s, %d)", d, k, i)
			case 5:
				p.add("%s.update([(%s, %d), (%s[%d], %d)])", d, k, i, kv, p.r.Intn(m), -i)
			case 6:
				p.add("%s |= {%s: %s}", d, k, p.fieldValue())
			case 7:
				p.add("%s = %s | {%s: %d}", d, d, k, i)
			default:
				p.add("%s.update(%s=%d, zz=%d)", d, []string{"a", "k1", "name", "a_long_keyword_name"}[p.r.Intn(4)], i, i)
			}
		}
		if p.chance(0.3) {
			p.add("for k in list(%s):\n    if len(k) %% 3 == 0:\n        %s.pop(k)", d, d)
			p.add("for k in %s[:%d]:\n    %s[k] = len(%s)", kv, 1+p.r.Intn(m), d, d)
		}
	}
	p.listDict(d)
	if p.chance(0.4) {
		// mixed-type keys
		e := p.v("e")
		n := 3 + p.r.Intn(20)
		p.add("%s = {}", e)
		for i := 0; i < n; i++ {
			p.add("%s[%s] = %d", e, p.scalar(), i)
		}
		p.add("print(%s)", e)
		p.out(e)
		p.out(fmt.Sprintf("[type(k) for k in %s]", e))
	}
}

func (p *prog) listDict(d string) {
	forms := []string{
		"print(%s)", "G[\"d%d\"] = %s", "G[\"keys%d\"] = %s.keys()", "G[\"items%d\"] = %s.items()", "G[\"values%d\"] = %s.values()",
		"print(str(%s) == repr(%s), len(%s))", "print(\"%%s|%%r\" %% (%s, %s))", "G[\"iter%d\"] = [k for k in %s]",
		"G[\"sorted%d\"] = sorted(%s)", "G[\"comp%d\"] = {k: len(k) for k in %s}", "G[\"rev%d\"] = list(reversed(%s.keys()))",
		"G[\"copy%d\"] = dict(%s)", "G[\"enum%d\"] = list(enumerate(%s))", "G[\"zip%d\"] = list(zip(%s, %s.values()))",
		"G[\"json%d\"] = json.encode(%s)", "G[\"tuple%d\"] = tuple(%s)", "G[\"minmax%d\"] = (min(%s), max(%s)) if %s else None",
		"G[\"eq%d\"] = %s == dict(reversed(%s.items()))", "print(json.encode_indent(%s))", "print(\"{}\".format(%s))",
		"G[\"union%d\"] = {\"first-key-of-union\": 0} | %s", "print(\", \".join(%s))", "G[\"any%d\"] = (any(%s), all(%s))",
	}
	n := 3 + p.r.Intn(6)
	for i := 0; i < n; i++ {
		f := forms[p.r.Intn(len(forms))]
		p.uniq++
		var args []any
		// fill verbs left to right: %d gets a counter, %s the dict name
		for j := 0; j+1 < len(f); j++ {
			if f[j] == '%' {
				switch f[j+1] {
				case 'd':
					args = append(args, p.uniq)
				case 's':
					args = append(args, d)
				}
				j++
			}
		}
		p.add(f, args...)
	}
}

// setOps needs the Set option.
func (p *prog) setOps() {
	p.tag("set-history")
	p.tag("map-backed-listing")
	p.bits |= 1
	if p.chance(0.3) {
		p.tail = append(p.tail, "print("+p.pick([]string{"set().xdd(1)", "set().xnion([])", "set().is_subset([])", "set().xop()", "set().differencx([])", "set().xiscard(1)", "set().issuxset([])", "set().clea()"})+")")
		p.tag("error-hint")
	}
	m := 4 + p.r.Intn(50)
	ks := p.keys(m)
	kv, a, b := p.v("K"), p.v("sa"), p.v("sb")
	p.add("%s = %s", kv, qlist(ks))
	p.add("%s = set(%s[:%d])", a, kv, p.r.Intn(m+1))
	p.add("%s = set(reversed(%s[%d:]))", b, kv, p.r.Intn(m))
	nops := 5 + p.r.Intn(40)
	for i := 0; i < nops; i++ {
		s, o := a, b
		if p.chance(0.4) {
			s, o = b, a
		}
		k := fmt.Sprintf("%s[%d]", kv, p.r.Intn(m))
		switch p.r.Intn(12) {
		case 0, 1:
			p.add("%s.add(%s)", s, k)
		case 2:
			p.add("%s.discard(%s)", s, k)
		case 3:
			p.add("%s |= %s", s, o)
		case 4:
			p.add("%s = %s & %s if len(%s & %s) > 3 else %s", s, s, o, s, o, s)
		case 5:
			p.add("%s = %s ^ set(%s[%d:%d])", s, s, kv, p.r.Intn(m), p.r.Intn(m+1))
		case 6:
			p.add("%s.update(%s[::%d])", s, kv, 1+p.r.Intn(4))
		case 7:
			p.add("%s = %s - set([%s])", s, s, k)
		case 8:
			p.add("if len(%s) > 1:\n    G[%q] = %s.pop()", s, p.v("pop"), s)
		case 9:
			p.add("%s = %s.union(%s[%d:], [%s])", s, s, kv, p.r.Intn(m), k)
		case 10:
			p.add("%s = %s.symmetric_difference(%s)", s, s, o)
		default:
			p.add("%s = %s.difference(%s[:%d]) if len(%s) > 5 else %s.union(%s)", s, s, kv, p.r.Intn(m), s, s, kv)
		}
	}
	for _, s := range []string{a, b} {
		p.add("print(%s)", s)
		p.out(s)
		p.out("list(" + s + ")")
	}
	p.out(fmt.Sprintf("[%s | %s, %s & %s, %s - %s, %s ^ %s, %s.issubset(%s), %s == %s]", a, b, a, b, a, b, a, b, a, b, a, b))
	p.out(fmt.Sprintf("sorted(%s)", a))
	// subset / superset tests that are true by construction, on tables with overflow buckets
	p.out(fmt.Sprintf("[set(%[3]s[:len(%[3]s) // 2]) <= set(%[3]s), %[1]s <= (%[1]s | %[2]s), (%[1]s & %[2]s).issubset(%[1]s), (%[1]s | %[2]s) >= %[2]s, set(%[3]s).issuperset(%[2]s), (%[1]s - %[2]s) < (%[1]s | set([\"one-more-element-for-strictness\"])), set(%[3]s) > set(%[3]s[1:])]", a, b, kv))
	p.out(fmt.Sprintf("{k: i for i, k in enumerate(%s)}", b))
	p.add("print(\"%%s %%r\" %% (%s, %s), str(%s), len(%s))", a, b, a, b)
	if p.chance(0.3) {
		p.out(fmt.Sprintf("set([%s, %s, %s, %s])", p.scalar(), p.scalar(), p.scalar(), p.scalar()))
	}
}

var dirTargets = []string{
	`""`, `"a long string value here"`, `b"bytes"`, `[]`, `[1, 2]`, `{}`, `{"a": 1}`, `1`, `1 << 80`, `1.5`, `True`, `None`, `()`, `(1, 2)`,
	`range(3)`, `len`, `dir`, `"".join`, `[].append`, `{}.items`, `json`, `math`, `time`, `time.now()`, `time.hour`, `time.parse_duration("90s")`,
	`host`, `hs`, `hk`, `big`, `struct`, `struct()`, `struct(b = 1, a = 2, a_long_field_name_ = 3)`, `module("mm", zz = 1, aa = 2, a_long_member_name = 3)`,
	`json.encode`, `math.pi`, `lambda: 0`, `main_or_self`, `enumerate([1])`, `zip()`, `"x".elems()`, `"x".codepoints()`, `b"x".elems()`, `time.time`,
}

func (p *prog) dirListing() {
	p.tag("dir")
	p.tag("map-backed-listing")
	p.def("def main_or_self(a, b = 2, *c, **d):\n    return a")
	n := 3 + p.r.Intn(7)
	for i := 0; i < n; i++ {
		t := p.pick(dirTargets)
		if strings.Contains(t, "set") {
			p.bits |= 1
		}
		x := p.v("x")
		p.add("%s = %s", x, t)
		switch p.r.Intn(5) {
		case 0:
			p.add("print(dir(%s))", x)
		case 1:
			p.out(fmt.Sprintf("dir(%s)", x))
		case 2:
			p.out(fmt.Sprintf("[(n, str(getattr(%s, n))) for n in dir(%s)]", x, x))
		case 3:
			p.out(fmt.Sprintf("{n: hasattr(%s, n + \"x\") for n in dir(%s)}", x, x))
		default:
			p.add("print(type(%s), %s, dir(%s)[:5], len(dir(%s)))", x, x, x, x)
		}
	}
	if p.bits&1 != 0 || p.chance(0.5) {
		p.bits |= 1
		p.add("print(dir(set()), dir(set([1])))")
		p.out("[(n, str(getattr(set([1, 2]), n))) for n in dir(set())]")
	}
}

func (p *prog) structs() {
	p.tag("struct")
	p.tag("map-backed-listing")
	n := 2 + p.r.Intn(14)
	if p.chance(0.15) {
		n = 30 + p.r.Intn(60)
	}
	names := p.idents(n)
	kw, s := p.v("kw"), p.v("s")
	var items []string
	for _, i := range p.r.Perm(n) {
		items = append(items, fmt.Sprintf("%s: %s", q(names[i]), p.fieldValue()))
	}
	p.add("%s = {%s}", kw, strings.Join(items, ", "))
	p.add("%s = struct(**%s)", s, kw)
	// a literal spelling in another order
	s2 := p.v("s")
	var lit []string
	for _, i := range p.r.Perm(n)[:1+p.r.Intn(n)] {
		lit = append(lit, fmt.Sprintf("%s = %s", names[i], p.fieldValue()))
	}
	p.add("%s = struct(%s)", s2, strings.Join(lit, ", "))
	s3 := p.v("s")
	p.add("%s = struct(**dict(reversed(%s.items())))", s3, kw)
	forms := []string{
		"print($1)", "print(repr($1), str($2))", "G[\"s$4\"] = $1", "G[\"dir$4\"] = dir($1)", "G[\"sum$4\"] = $1 + $2",
		"G[\"sum$4\"] = $2 + $1", "print($1 == $3, $1 != $3, $1 == $2)", "G[\"json$4\"] = json.encode($2)",
		"print(json.encode_indent($2, indent = \"  \"))", "G[\"vals$4\"] = [getattr($1, n) for n in dir($1)]", "print(\"%s / %r\" % ($1, $2))",
		"G[\"nest$4\"] = struct(inner = $1, other = [$2, $3], z = {\"k\": $2})", "print([$1, $2], ($3,), {\"k\": $2})",
		"G[\"has$4\"] = [hasattr($1, n) for n in dir($2)]", "G[\"key$4\"] = dict([($2, 1), ($2 + $2, 2), ($1, 3)])", "print(type($1), bool($1), dir($1 + $2))",
		"print(hk, hs, hk + hk, dir(hk), dir(hs))", "G[\"host$4\"] = [hs, hk, str(host), dir(host)]",
		"G[\"dec$4\"] = json.decode(json.encode($2))",
	}
	k := 3 + p.r.Intn(6)
	for i := 0; i < k; i++ {
		p.uniq++
		p.body = append(p.body, subst(forms[p.r.Intn(len(forms))], s, s2, s3, strconv.Itoa(p.uniq)))
	}
}

func (p *prog) jsonValue(d int) string {
	if d > 3 {
		return p.scalarJSON()
	}
	switch p.r.Intn(6) {
	case 0, 1:
		n := p.r.Intn(7)
		if p.chance(0.1) {
			n = 12 + p.r.Intn(20)
		}
		ks := p.keys(n)
		var items []string
		for _, k := range ks {
			items = append(items, q(k)+": "+p.jsonValue(d+1))
		}
		p.tag("json-object")
		return "{" + strings.Join(items, ", ") + "}"
	case 2:
		n := p.r.Intn(4)
		var items []string
		for i := 0; i < n; i++ {
			items = append(items, p.jsonValue(d+1))
		}
		return "[" + strings.Join(items, ", ") + "]"
	case 3:
		names := p.idents(1 + p.r.Intn(6))
		var items []string
		for _, k := range names {
			items = append(items, k+" = "+p.jsonValue(d+1))
		}
		p.tag("json-object")
		return "struct(" + strings.Join(items, ", ") + ")"
	default:
		return p.scalarJSON()
	}
}

func (p *prog) scalarJSON() string {
	switch p.r.Intn(7) {
	case 0:
		return strconv.Itoa(p.r.Intn(2000) - 1000)
	case 1:
		return q(p.strOfLen(p.r.Intn(20)))
	case 2:
		return []string{"1.5", "-0.0", "1e100", "3.25", "0.1", "1e-7", "123456789.125"}[p.r.Intn(7)]
	case 3:
		return []string{"True", "False", "None"}[p.r.Intn(3)]
	case 4:
		return `"esc \" \\ \n \t \u00e9 \U0001F600 \x7f"`
	case 5:
		return fmt.Sprintf("(1 << %d)", 60+p.r.Intn(20))
	default:
		return "(1, \"two\", 3.0)"
	}
}

// jsonText is a JSON document (as a Go string) with objects whose keys come in random order.
func (p *prog) jsonText(d int) string {
	if d > 3 {
		return strconv.Itoa(p.r.Intn(100))
	}
	switch p.r.Intn(6) {
	case 0, 1, 2:
		ks := p.keys(p.r.Intn(8))
		if p.chance(0.2) && len(ks) > 0 {
			ks = append(ks, ks[0]) // duplicate key
		}
		var items []string
		for _, k := range ks {
			items = append(items, strconv.Quote(k)+": "+p.jsonText(d+1))
		}
		p.tag("json-object")
		return "{" + strings.Join(items, ", ") + "}"
	case 3:
		var items []string
		for i, n := 0, p.r.Intn(4); i < n; i++ {
			items = append(items, p.jsonText(d+1))
		}
		return "[" + strings.Join(items, ",") + "]"
	case 4:
		return []string{"true", "false", "null", "1.5e3", "-0", "12345678901234567890123", `"s\u00e9\n"`}[p.r.Intn(7)]
	default:
		return strconv.Itoa(p.r.Intn(100))
	}
}

func (p *prog) jsonFam() {
	p.tag("json")
	p.tag("map-backed-listing")
	n := 1 + p.r.Intn(4)
	for i := 0; i < n; i++ {
		x := p.v("j")
		p.add("%s = %s", x, p.jsonValue(0))
		switch p.r.Intn(5) {
		case 0:
			p.add("print(json.encode(%s))", x)
		case 1:
			p.out(fmt.Sprintf("json.encode_indent(%s, prefix = \"> \", indent = \"  \")", x))
		case 2:
			p.out(fmt.Sprintf("json.decode(json.encode(%s))", x))
		case 3:
			p.out(fmt.Sprintf("json.indent(json.encode(%s))", x))
		default:
			p.out(fmt.Sprintf("[json.encode(%s), %s]", x, x))
		}
	}
	for i, n := 0, 1+p.r.Intn(3); i < n; i++ {
		x := p.v("doc")
		p.add("%s = json.decode(%s)", x, q(p.jsonText(0)))
		p.out(x)
		p.add("print(%s, json.encode(%s))", x, x)
		if p.chance(0.5) {
			// decoded values are fresh and mutable in every execution
			p.add("if type(%s) == \"dict\":\n    %s[\"added-after-decoding\"] = len(%s)\nelif type(%s) == \"list\":\n    %s.append(len(%s))", x, x, x, x, x, x)
			p.out(x)
		}
	}
	if p.chance(0.25) {
		// failing encodes: which key is reported must not depend on anything but the program
		bad := []string{
			`json.encode({"a-long-string-key-1": 1, 2: "int key", 3.5: "float key"})`,
			`json.encode({"zeta-long-key-name": len, "alpha-long-key-name": dir, "mid": 1})`,
			`json.encode(struct(zz_field_name = len, aa_field_name = [dir], mm = 1))`,
			`json.encode(json)`, `json.encode(host)`, `json.decode('{"a-long-key-number-one": 1, "b": }')`,
			`json.encode({"k": [1, {"inner-key-of-some-length": (lambda: 0)}]})`,
		}
		p.tail = append(p.tail, "print("+p.pick(bad)+")")
		p.tag("error-expected")
	}
}

func (p *prog) hashFam() {
	p.tag("hash-builtin")
	ks := p.keys(3 + p.r.Intn(30))
	kv := p.v("K")
	p.add("%s = %s", kv, qlist(ks))
	p.add("print([hash(k) for k in %s])", kv)
	p.out(fmt.Sprintf("{k: hash(k) for k in %s}", kv))
	p.out(fmt.Sprintf("sorted(%s, key = hash)", kv))
	p.out(fmt.Sprintf("[hash(k + k) %% 7 for k in %s]", kv))
	p.add("print(hash(\"a-long-string-over-12-bytes\"), hash(\"\"), hash(\"twelve bytes\"), hash(\"eleven byte\"), hash(\"ünï¢ødé strîng ≥ 12\"), hash(\"\\U0001F600 astral\"))")
	p.add("print(hash(b\"a-long-bytes-over-12-bytes\"), hash(b\"\"), hash(b\"twelve bytes\"), hash(b\"\\xff\\x00\\x80 thirteen b\"))")
	p.out(fmt.Sprintf("{hash(k) %% 16: k for k in %s}", kv))
	p.tag("map-backed-listing")
}

func (p *prog) sortFam() {
	p.tag("sorted-minmax")
	ks := p.keys(4 + p.r.Intn(40))
	kv := p.v("K")
	p.add("%s = %s", kv, qlist(ks))
	forms := []string{
		"sorted($1)", "sorted($1, reverse = True)", "sorted($1, key = len)", "sorted($1, key = len, reverse = True)",
		"sorted($1, key = lambda k: k[-1:])", "(min($1), max($1))", "(min($1, key = len), max($1, key = len))",
		"sorted([(len(k) % 3, i) for i, k in enumerate($1)])", "sorted({k: 1 for k in $1})", "sorted({k: 1 for k in $1}.items(), key = lambda kv: len(kv[0]))",
		"max([(len(k) % 2, k[:1]) for k in $1])", "min($1, key = lambda k: len(k) % 4)", "sorted($1, key = lambda k: (len(k) % 2, k))",
		"sorted([1, 1.0, 3, 2, 0.5, -0.0, 0, 2.0])", "sorted([(1, \"b\"), (1, \"a\"), (0, \"z\"), (1, \"a\")])", "[k for k in reversed(sorted($1))][:5]",
		"sorted($1, key = lambda k: k.lower())", "sorted($1, key = lambda k: 0)", "sorted(dir(\"\"), key = len)[:12]",
	}
	for i, n := 0, 3+p.r.Intn(6); i < n; i++ {
		p.out(subst(forms[p.r.Intn(len(forms))], kv))
	}
	p.add("print(sorted(%s)[:3], min(%s, key = len))", kv, kv)
}

// hint producers: each is an expression (or statement) that fails with a message that may carry a
// "did you mean" hint computed over a name list derived from a Go map.
var attrHints = []string{
	`"abc".uper()`, `"abc".xstrip()`, `"abc".startwith("a")`, `"x".is_alpha()`, `"x".formt()`, `"x".rsplt()`, `"x".lfind("a")`, `"x".xindex("a")`,
	`"x".xpartition("a")`, `"x".elem_ord()`, `"x".codepoint()`, `"x".joinn([])`, `"x".replac("a", "b")`, `"x".islowr()`, `"x".isuppr()`, `"x".splt()`,
	`"x".removeprefi("a")`, `"x".removesufix("a")`, `"x".titl()`, `"x".cont("a")`, `"x".endwith("a")`, `"x".capitalise()`, `"x".Upper()`, `"x".l_strip()`,
	`[].apend(1)`, `[].insrt(0, 1)`, `[].xtend([])`, `[].remov(1)`, `[].indx(1)`, `[].pp()`, `[].clea()`, `[].Append(1)`,
	`{}.item()`, `{}.key()`, `{}.value()`, `{}.get_default()`, `{}.setdefalt("a")`, `{}.popitems()`, `{}.updat({})`, `{}.gett("a")`, `{}.pup("a")`, `{}.clr()`,
	`b"x".elem()`, `b"x".elemz()`,
	`json.encod(1)`, `json.decod("1")`, `json.indnt("1")`, `json.encode_indnt(1)`, `json.Encode(1)`, `json.dencode(1)`,
	`math.flor(1.5)`, `math.cel(1.5)`, `math.sinn(1.0)`, `math.cosn(1.0)`, `math.atan3(1, 2)`, `math.lg(2)`, `math.sqr(4)`, `math.pie`, `math.ee`, `math.tann(1)`, `math.asinn(1)`, `math.exq(1)`,
	`time.nw()`, `time.parse_tim("x")`, `time.parse_duratio("1s")`, `time.hours`, `time.seconds`, `time.minutes`, `time.from_timestam(1)`, `time.is_valid_timezon("UTC")`, `time.tim()`, `time.nanoseconds`,
	`host.version__`, `host.versio`, `host.path_join_`, `host.path_joinx`, `host.a_rather_long_member_namx`, `host.kapa`, `host.kappa_`, `host.thet`, `host.limit`,
	`hs.kapa`, `hs.versionz`, `hs.a_rather_long_member_nam`, `hk.x_coordinate_valu`, `hk.w_coordinate_value`, `hk.lable`,
	`module("mm", aa = 1, ab = 2, ac = 3).ax`, `module("mm", field_one = 1, field_two = 2).field_on`,
	`time.now().yer`, `time.now().mont`, `time.now().minut`, `time.now().unix_nan`, `time.now().in_locatio("UTC")`, `time.now().forma("x")`, `time.now().secnd`, `time.now().nanosecon`,
	`time.hour.second`, `time.hour.millisecond`, `time.hour.hour`, `time.hour.minute`, `time.hour.nanosecond`,
	`None.x`, `(1).real`, `len.name`, `(lambda: 0).nam`, `range(3).star`,
}

// tieHints: misspellings at equal distance from several candidates, so the hint depends on the order
// in which the candidate list is presented.
var tieHints = []string{
	`"x".xstrip()`, `"x".xfind("a")`, `"x".xindex("a")`, `"x".xsplit()`, `"x".xpartition("a")`, `"x".lfind("a")`, `"x".isxpper()`, `"x".xsplitlines()`,
	`"x".elem_ordz()`, `"x".codepoint()`, `"x".removexfix("a")`, `"x".xswith("a")`, `b"x".elemx`, `[].xop()`, `[].inxex(1)`, `{}.xop("a")`, `{}.xtems()`, `{}.xeys()`, `{}.poxitem()`,
	`json.ecode(1)`, `json.xncode(1)`, `json.xecode("1")`, `json.indent_`, `math.sinx(1)`, `math.cosx(1)`, `math.tanx(1)`, `math.atanx(1)`, `math.xsin(1)`, `math.xcos(1)`, `math.acosx`, `math.asinx`,
	`math.lox(2)`, `math.xeil(1.5)`, `math.p`, `time.xour`, `time.xecond`, `time.parse_xime("x")`, `time.minutx`, `time.microsecon`, `time.millisecon`, `time.nanosecon`,
	`host.path_joinx`, `host.versionx`, `host.a_rather_long_member_namx`, `host.kapa`, `host.kappa_x`, `host.xta`, `host.thetx`, `hs.path_joinx`, `hs.versionx`, `hs.a_rather_long_member_namx`, `hs.kapa`, `hs.xta`,
	`hk.w_coordinate_value`, `hk.x`, `module("mm", aa = 1, ab = 2, ac = 3, ad = 4).ax`, `module("mm", field_one = 1, field_onf = 2, field_ong = 3).field_onx`,
	`struct(name_b = 1, name_a = 2, name_d = 3).name_c`, `struct(zz = 1, zy = 2, zx = 3, zw = 4).za`, `time.now().xour`, `time.now().minutx`, `time.now().xecond`, `time.now().unix_nanx`, `time.hour.xours`, `time.hour.secondz`,
}

var kwargHints = []string{
	`sorted([1], kee = len)`, `sorted([1], revers = True)`, `int("1", bas = 2)`, `"a b".split(sepp = " ")`, `"a".split(maxsplt = 1)`, `"a".rsplit(maxspit = 1)`,
	`json.encode_indent({}, indnt = " ")`, `json.encode_indent({}, prefx = " ")`, `json.indent("1", indnt = " ")`, `json.decode(x = "{}", defalt = 1)`, `json.decode("1", defaul = 1)`,
	`time.time(yer = 2000)`, `time.time(mont = 1)`, `time.time(minut = 1)`, `time.time(secon = 1)`, `time.time(nanosecon = 1)`, `time.time(locatio = "UTC")`, `time.time(hours = 1)`, `time.time(da = 1)`,
	`time.parse_time("x", formt = "")`, `time.parse_time("x", locatio = "")`, `time.parse_time(y = "x")`,
	`print(1, sepp = "")`, `min([1], kee = len)`, `max([1], ky = len)`, `enumerate([], strt = 1)`, `fail("x", sepp = "")`, `getattr("", nme = "x")`, `dict.get({}, ky = 1)`,
	`"".startswith(prefx = "a")`, `"".find(subb = "a")`, `"{}".format(1, a = 1).frmat()`, `"x".splitlines(keepend = True)`, `"x".splitlines(keep_ends = True)`,
	`list(iterabl = [])`, `str(xx = 1)`, `bool(xx = 1)`, `float(xx = 1)`, `range(stp = 1)`, `zip(strict = True)`, `reversed(sequenc = [])`,
	`struct(a = 1).a.b`, `{}.update(1, 2)`, `"x".removeprefix(prefi = "x")`, `"x".count(su = "x")`, `"x".index("x", star = 0)`,
}

var trailingAttr = regexp.MustCompile(`^(.*)\.([A-Za-z_][A-Za-z0-9_]*)$`)

func (p *prog) hintFam() {
	p.tag("error-hint")
	p.tag("error-expected")
	var failing string
	switch p.r.Intn(12) {
	case 0, 1, 2, 3:
		failing = p.pick(attrHints)
		if p.chance(0.6) {
			failing = p.pick(tieHints)
		}
		if m := trailingAttr.FindStringSubmatch(failing); m != nil && p.chance(0.3) {
			failing = fmt.Sprintf("getattr(%s, %s)", m[1], q(m[2]))
		}
	case 4, 5:
		failing = p.pick(kwargHints)
	case 6:
		// struct with near-neighbour fields; the misspelt name is at distance 1 from several
		base := p.pick([]string{"name_", "a_long_field_name_", "f", "Value"})
		chars := "abcdefgh"
		perm := p.r.Perm(len(chars))
		n := 2 + p.r.Intn(5)
		var fs []string
		for _, i := range perm[:n] {
			fs = append(fs, fmt.Sprintf("%s%c = %d", base, chars[i], i))
		}
		s := p.v("s")
		p.def("%s = struct(%s)", s, strings.Join(fs, ", "))
		failing = fmt.Sprintf("%s.%s%c", s, base, "xyz_"[p.r.Intn(4)])
		p.tag("struct")
	case 7:
		// misspelt load name (file level)
		name := p.pick([]string{"alpha_bet", "alpha_betz", "gamma_delta_epsilon_zet", "gamma_delta_epsilon_zetc", "gamma_delta", "x4", "x", "Table", "tsett", "mkk", "GammaDelta", "gammadelta", "throwr"})
		p.loads = append(p.loads, fmt.Sprintf("load(\"big.star\", %q)", name))
		p.tag("load")
		p.otherSnippet()
		return
	case 8, 9, 10:
		// undefined name: static error with a hint over the bindings of the enclosing blocks (function
		// locals and parameters, file-local load bindings, module globals); siblings at equal distance
		names := p.idents(3 + p.r.Intn(5))
		for i, n := range names {
			p.def("%s = %d", n, i)
		}
		base := p.pick([]string{"local_", "a_long_local_variable_name_", "v", "Item"})
		chars := "abcdefgh"
		perm := p.r.Perm(len(chars))
		k := 2 + p.r.Intn(5)
		var params, assigns []string
		for j, i := range perm[:k] {
			if j%3 == 0 {
				params = append(params, fmt.Sprintf("%s%c", base, chars[i]))
			} else {
				assigns = append(assigns, fmt.Sprintf("    %s%c = %d", base, chars[i], i))
			}
		}
		n := names[p.r.Intn(len(names))]
		switch p.r.Intn(5) {
		case 0:
			failing = n[:len(n)-1] + string("qz_"[p.r.Intn(3)])
		case 1:
			failing = strings.ToUpper(n[:1]) + n[1:] + "_"
		default:
			failing = fmt.Sprintf("%s%c", base, "xyz"[p.r.Intn(3)])
		}
		if p.chance(0.5) {
			p.loads = append(p.loads, `load("big.star", "alpha_beta", "alpha_bets", "alpha_bet0", "x1", "x2", "x3")`)
			if p.chance(0.5) {
				failing = p.pick([]string{"alpha_betx", "x4", "alpha_bet"})
			}
		}
		f := p.v("und")
		p.def("def %s(%s):\n%s\n    return %s", f, strings.Join(params, ", "), strings.Join(append(assigns, "    pass"), "\n"), failing)
		failing = fmt.Sprintf("%s(%s)", f, strings.Repeat("0, ", len(params)))
		p.tag("static-error")
	default:
		// keyword hint on a module function loaded from big.star / unexpected keyword on a def (no hint)
		p.def("def takes(alpha, beta = 2, *, gamma_long_keyword = 3, gamma_long_keyworb = 4):\n    return alpha")
		failing = p.pick([]string{"takes(1, gamma_long_keywor = 2)", "takes(alpa = 1)", "takes(1, 2, 3)", "takes(**{\"gamma_long_keywory\": 1, \"delta\": 2, \"alpha\": 0})", "takes()"})
	}
	p.otherSnippet()
	// wrap into 0..4 frames of different kinds
	depth := p.r.Intn(5)
	call := failing
	for i := 0; i < depth; i++ {
		f := p.v("fr")
		switch p.r.Intn(5) {
		case 0:
			p.def("def %s(a):\n    return %s", f, call)
			call = f + "(1)"
		case 1:
			p.def("%s = lambda a: %s", f, call)
			call = f + "(1)"
		case 2:
			p.def("def %s(a):\n    return sorted([3, 1, 2], key = lambda k: %s)", f, call)
			call = f + "(1)"
		case 3:
			p.def("def %s(a):\n    x = [%s for i in range(2)]\n    return x", f, call)
			call = f + "(1)"
		default:
			p.def("def %s(a, *args, **kwargs):\n    if a:\n        return {\"k\": %s}\n    return None", f, call)
			call = f + "(1, 2, k = 3)"
		}
	}
	p.tail = append(p.tail, "print("+call+")")
}

// otherSnippet adds one small listing snippet so that a failing program also has a body.
func (p *prog) otherSnippet() {
	switch p.r.Intn(4) {
	case 0:
		p.add("print(dir(%s)[:4])", p.pick([]string{`""`, `[]`, `{}`, "json", "math", "time", "host", "hs"}))
	case 1:
		ks := p.keys(3 + p.r.Intn(10))
		p.out(fmt.Sprintf("{k: len(k) for k in %s}", qlist(ks)))
		p.tag("map-backed-listing")
	case 2:
		p.out("struct(b = 1, a = [2], a_long_field_name_x = 3)")
		p.tag("map-backed-listing")
	}
}

func (p *prog) backtraceFam() {
	p.tag("backtrace")
	p.tag("error-expected")
	inner := []string{
		"1 // 0", "[][1]", "{}[\"a-long-missing-key-of-more-than-12-bytes\"]", "fail(\"failed with\", {\"zz-long-key-name-here\": 1, \"aa\": 2}, struct(b = 1, a = 2))",
		"int(\"not a number\")", "\"a\" + 1", "None.x", "[1, 2, 3].index(4)", "{}.popitem()", "len(1)", "(lambda a, b: a)(1)", "big[\"no-such-predeclared-key\"]",
		"thrower(struct(no_such_field_her = 1, no_such_field_herf = 2))", "json.decode(\"{\")", "hash(1)", "1.0 // 0.0", "\"%d\" % \"x\"", "[1, 2][5]",
		"{[]: 1}", "big.pop(\"missing-key-long-long\")", "sorted([1, \"a\"])", "range(1 << 70)", "time.parse_time(\"bogus\")", "time.parse_duration(\"1 fortnight\")",
		"math.sqrt(\"x\")", "getattr(host, \"nope\")", "set([[]])", "mk(3)[\"missing\"]", "table.update({\"x\": 1})", "tset.append(1)", "dict([(1, 2, 3)])",
		"a, b = 1, 2, 3", "undefined_local_use()", "chr(-1)", "\"abc\".index(\"z\")", "time.now().in_location(\"Not/AZone\")",
	}
	failing := p.pick(inner)
	if strings.HasPrefix(failing, "thrower") || strings.HasPrefix(failing, "mk(") || strings.HasPrefix(failing, "table") || strings.HasPrefix(failing, "tset") {
		p.loads = append(p.loads, `load("big.star", "thrower", "mk", "table", "tset")`)
		p.tag("load")
	}
	if strings.HasPrefix(failing, "set(") {
		p.bits |= 1
	}
	depth := 1 + p.r.Intn(6)
	var call string
	switch {
	case failing == "a, b = 1, 2, 3":
		p.def("def bt0(n):\n    a, b = 1, 2, 3\n    return a")
	case failing == "undefined_local_use()":
		p.def("def bt0(n):\n    if n < 0:\n        loc = 1\n    return loc")
	default:
		p.def("def bt0(n):\n    trace(\"bt0\", n)\n    return %s", failing)
	}
	call = "bt0"
	for i := 1; i <= depth; i++ {
		f := fmt.Sprintf("bt%d", i)
		switch p.r.Intn(7) {
		case 0:
			p.def("def %s(n):\n    return %s(n + 1)", f, call)
		case 1:
			p.def("def %s(n):\n    return [%s(q) for q in [n, n + 1]]", f, call)
		case 2:
			p.def("def %s(n):\n    return sorted([n, 3, 1], key = %s)", f, call)
		case 3:
			p.def("def %s(n):\n    g = lambda m: %s(m)\n    return g(n)", f, call)
		case 4:
			p.def("def %s(n):\n    return min([n, 2], key = lambda m: %s(m))", f, call)
		case 5:
			p.def("def %s(n, *a, **k):\n    for i in range(3):\n        if i == 1:\n            return {\"r\": %s(i)}\n    return None", f, call)
		default:
			p.def("def %s(n):\n    return t(n, %s(n))", f, call)
		}
		call = f
	}
	p.otherSnippet()
	if p.bits&32 != 0 && p.chance(0.3) {
		// recursion (allowed by option): the stack at the failure has many frames of one function
		p.def("def rec(n):\n    if n == 0:\n        return %s(n)\n    return rec(n - 1) + 1", call)
		call = "rec"
		p.tail = append(p.tail, fmt.Sprintf("print(rec(%d))", 2+p.r.Intn(20)))
		return
	}
	p.tail = append(p.tail, fmt.Sprintf("print(%s(0))", call))
}

func (p *prog) formatFam() {
	p.tag("format")
	ks := p.keys(3 + p.r.Intn(12))
	kv, d := p.v("K"), p.v("d")
	p.add("%s = %s", kv, qlist(ks))
	p.add("%s = {k: i for i, k in enumerate(%s)}", d, kv)
	p.tag("map-backed-listing")
	long := p.v("L")
	p.add("%s = \" \".join(%s) * %d", long, kv, 1+p.r.Intn(4))
	forms := []string{
		"\"%s %r %d %x %o %c %e %f %g %%\" % ($2, $2, 42, 255, 8, 65, 1.5, 2.5, 1e20)",
		"\"%(" + ks[0] + ")s and %(" + ks[len(ks)-1] + ")r\" % $2",
		"\"{0} {x} {0!r} {1!r}\".format($2, $1[0], x = $1)", "\"{a}{b}\".format(**{\"b\": $1[0], \"a\": 1})", "\", \".join($2)", "\"|\".join($2.keys())",
		"$3.split($1[0][:1])[:6]", "$3.rsplit(None, 3)", "$3.partition($1[-1])", "$3.rpartition(\" \")", "$3.replace($1[0], \"<>\", 2)[:80]",
		"($3.find($1[-1]), $3.rfind($1[0]), $3.count(\"a\"), $3.index($1[0]))", "$3.upper()[:40] + $3.lower()[-40:]", "$3.title()[:60]",
		"$3.capitalize()[:30]", "$3.strip(\"abcdef \")[:50]", "($3.startswith((\"zz\", $1[0])), $3.endswith($1[-1]))", "list($3[:14].elems())",
		"list($3[:9].elem_ords())", "list($3[:9].codepoints())", "list($3[:9].codepoint_ords())", "($3.isalnum(), $3.islower(), $3[:3].isalpha())",
		"$3.removeprefix($1[0])[:30]", "sorted($1) == sorted($3.split(\" \"))[:len($1)]", "($1[0] < $1[-1], $1[0] in $3, $3[5:25], $3[::-7][:20])",
		"{s.upper(): s for s in $1}", "{s[:12]: len(s) for s in $1}", "str($2) + repr($1)", "$3.splitlines()", "($3 * 2)[-30:]",
		"\"%s\" % ([$2],)", "\"%r\" % (($2, $1[:2]),)", "repr($3[:20]) + str(b\"bytes \\xff\") + repr(b\"\\x00\")",
	}
	for i, n := 0, 4+p.r.Intn(8); i < n; i++ {
		p.out(subst(forms[p.r.Intn(len(forms))], kv, d, long))
	}
	p.add("print(\"%%s\" %% %s, %s[:30])", d, long)
}

func (p *prog) timeFam() {
	p.tag("time")
	now := p.v("now")
	p.add("%s = time.now()", now)
	zones := []string{"Asia/Tokyo", "America/New_York", "Europe/Berlin", "UTC", "Australia/Lord_Howe", "Asia/Kolkata", "America/St_Johns", "Pacific/Apia"}
	forms := []string{
		"print($1, $1.year, $1.month, $1.day, $1.hour, $1.minute, $1.second, $1.nanosecond, $1.unix, $1.unix_nano)",
		"G[\"t$3\"] = $1.in_location(\"$2\")", "print($1.in_location(\"$2\"), $1.in_location(\"$2\").hour)", "print($1.format(\"2006-01-02T15:04:05.000Z07:00 Mon Jan MST\"))",
		"G[\"t$3\"] = time.time(year = 2000, month = 1, day = 2, hour = 3, minute = 4, second = 5, nanosecond = 6, location = \"$2\")",
		"G[\"t$3\"] = time.parse_time(\"2020-06-26T17:38:36Z\")", "G[\"t$3\"] = time.parse_time(\"2020-06-26 17:38\", format = \"2006-01-02 15:04\", location = \"$2\")",
		"G[\"t$3\"] = [time.from_timestamp(1600000000, 5).unix_nano, str(time.from_timestamp(0).in_location(\"$2\"))]", "G[\"t$3\"] = time.parse_duration(\"1h30m15.5s\")",
		"G[\"t$3\"] = [time.hour * 3 + time.minute, time.hour / time.second, time.hour // time.minute, (time.hour * 25).hours, time.millisecond.seconds]",
		"G[\"t$3\"] = dict([($1, \"now\"), ($1 + time.hour, \"later\"), (time.now(), \"next tick\"), (time.hour, \"dur\"), (time.minute * 60, \"same dur\")])",
		"G[\"t$3\"] = sorted([time.now(), $1, $1 - time.hour, time.time(year = 2030)])", "G[\"t$3\"] = [time.is_valid_timezone(\"$2\"), time.is_valid_timezone(\"Nowhere/Land\")]",
		"G[\"t$3\"] = time.now() - $1", "print(dir($1), dir(time.hour), dir(time))", "G[\"t$3\"] = [(n, str(getattr($1, n))) for n in dir($1)]",
		"print($1 == time.now(), $1 < time.now(), $1 + time.parse_duration(\"24h\"), type($1), bool($1), str(time.hour), repr($1))",
		"G[\"t$3\"] = [json.encode(str($1)), \"%s|%r\" % ($1, time.second)]",
	}
	for i, n := 0, 4+p.r.Intn(7); i < n; i++ {
		p.uniq++
		p.body = append(p.body, subst(forms[p.r.Intn(len(forms))], now, p.pick(zones), strconv.Itoa(p.uniq)))
	}
	p.tag("map-backed-listing")
}

func (p *prog) mathFam() {
	p.tag("math")
	args := []string{"0.5", "1.5", "2", "-2.5", "10", "1e10", "0.0", "-0.0", "100", "7", "3.999", "1 << 60"}
	fns1 := []string{"ceil", "floor", "round", "sqrt", "exp", "log", "sin", "cos", "tan", "asin", "acos", "atan", "sinh", "cosh", "tanh", "asinh", "acosh", "atanh", "degrees", "radians", "gamma", "fabs"}
	fns2 := []string{"pow", "atan2", "hypot", "copysign", "mod", "remainder", "log"}
	x := p.v("m")
	p.add("%s = {}", x)
	for i, n := 0, 5+p.r.Intn(15); i < n; i++ {
		if p.chance(0.6) {
			f, a := p.pick(fns1), p.pick(args)
			p.add("%s[%q] = math.%s(%s)", x, f+"("+a+")", f, a)
		} else {
			f, a, b := p.pick(fns2), p.pick(args), p.pick(args)
			p.add("%s[(%q, %s, %s)] = math.%s(%s, %s)", x, f, a, b, f, a, b)
		}
	}
	p.tag("map-backed-listing")
	p.out(x)
	p.add("print(%s, math.pi, math.e, dir(math), math)", x)
	p.out("dict([(1, \"int\"), (1.0, \"float, same key\"), (2.5, \"f\"), (float(\"nan\"), \"nan1\"), (float(\"nan\"), \"nan2\"), (float(\"inf\"), \"inf\"), (-0.0, \"negzero\"), (0, \"zero\"), (1 << 70, \"big\"), (float(1 << 70), \"bigf\")])")
	p.tail = append(p.tail, p.pick([]string{"pass", "pass", "print(math.sqrt(-1))", "print(math.log(0))", "print(math.acos(2))", "print(math.floor(float(\"nan\")))", "print(math.pow(0, -1))", "print(math.gamma(-1))"}))
}

func (p *prog) loadFam() {
	p.tag("load")
	switch p.r.Intn(5) {
	case 0:
		p.loads = append(p.loads, `load("big.star", "mk", "table", tb = "table", ts = "tset", ab = "alpha_beta")`)
		p.add("print(table == tb, ts[:3], ab)")
	case 1:
		p.loads = append(p.loads, `load("big.star", "mk", "table", "gamma_delta_epsilon_zeta", "Gamma_Delta")`, `load("m.star", "la", lx = "lb")`)
		p.add("print(gamma_delta_epsilon_zeta, Gamma_Delta, la, lx)")
	case 2:
		p.loads = append(p.loads, `load("m.star", "lb", "la")`, `load("big.star", "table", "mk")`)
		p.add("print(la + lb)")
	case 3:
		p.loads = append(p.loads, `load("big.star", "mk", "table")`, `load("big.star", t2 = "table")`)
		p.add("print(t2 == table)")
	default:
		p.loads = append(p.loads, `load("big.star", "mk", "table")`, `load("bad.star", "y")`)
		p.tag("error-expected")
	}
	p.tag("map-backed-listing")
	p.tag("long-string-keys")
	d := p.v("d")
	p.add("%s = mk(%d)", d, 3+p.r.Intn(40))
	p.add("%s.update(table)", d)
	p.add("for k in list(%s)[::%d]:\n    %s.pop(k)", d, 2+p.r.Intn(3), d)
	p.add("%s[\"added-after-the-deletions\"] = 1", d)
	p.listDict(d)
	p.listDict("table")
	p.out("[k for k, v in table.items() if v[0] % 3 == 0]")
	p.add("print(mk, str(mk), type(table), table.get(\"frozen-table-key-007\"))")
	if p.chance(0.3) {
		p.tail = append(p.tail, p.pick([]string{"table[\"new-key-for-a-frozen-table\"] = 1", "table.clear()", "table.popitem()", "table[\"frozen-table-key-1\"].append(1)", "table.setdefault(\"frozen-table-key-1\", 1)"}))
		p.tag("error-expected")
	}
}

func (p *prog) reprFam() {
	p.tag("repr")
	p.def("def fn_a(x, y = [1], *args, k = {\"a\": 1}, **kwargs):\n    return x")
	p.def("def fn_b():\n    def inner_closure(z):\n        return z + 1\n    return inner_closure")
	p.def("lam = lambda q: q")
	exprs := []string{
		"fn_a", "fn_b", "fn_b()", "lam", "len", "str", "dir", "\"\".join", "[].append", "{}.get", "json", "math", "time", "host", "json.encode", "math.sqrt", "time.now",
		"range(3)", "range(1, 10, 2)", "enumerate([1])", "None", "True", "(1,)", "()", "[[]]", "{(): []}", "struct", "hs", "hk", "b\"b\\xff\"", "1e100", "-0.0", "1 << 100", "type", "struct(f = fn_a)",
		"\"\".elems()", "b\"\".elems()", "{}.items", "big.keys", "module(\"m2\", b = 1)", "time.hour", "time.now()",
	}
	n := 4 + p.r.Intn(10)
	var chosen []string
	for i := 0; i < n; i++ {
		chosen = append(chosen, p.pick(exprs))
	}
	l := p.v("vals")
	p.add("%s = [%s]", l, strings.Join(chosen, ", "))
	p.out(fmt.Sprintf("[(str(x), repr(x), type(x), bool(x)) for x in %s]", l))
	p.add("print(%s)", l)
	p.add("print(\"%%s %%r\" %% (%s[0], %s[-1]))", l, l)
	// tables keyed by functions, built-ins and bound methods (hashed by name through hashString)
	p.out("{len: 1, str: 2, fn_a: 3, lam: 4, fn_b: 5, sorted: 6, json.encode: 7, json.encode_indent: 8, math.sqrt: 9, \"\".join: 10, \"\".startswith: 11, time.parse_duration: 12, time.is_valid_timezone: 13}")
	p.tag("map-backed-listing")
	p.tag("long-string-keys")
	p.out("[fn_a, fn_b(), lam]")
	if p.chance(0.3) {
		p.out("[fn_a == fn_a, fn_b() == fn_b(), len == len, [].append == [].append, \"\".join == \"\".join]")
	}
}

func (p *prog) kwargsFam() {
	p.tag("kwargs")
	p.tag("map-backed-listing")
	names := p.idents(3 + p.r.Intn(14))
	var items []string
	for _, n := range names {
		items = append(items, q(n)+": "+p.scalar())
	}
	kw := p.v("kw")
	p.add("%s = {%s}", kw, strings.Join(items, ", "))
	p.def("def collect(**kwargs):\n    return kwargs")
	p.def("def collect2(first = None, *args, **kwargs):\n    return (first, args, kwargs)")
	p.def("def fixed(%s = 0, %s = 1):\n    return [%s, %s]", names[0], names[1], names[0], names[1])
	p.out(fmt.Sprintf("collect(**%s)", kw))
	p.out(fmt.Sprintf("collect(zz_first = 1, **%s)", kw))
	p.out(fmt.Sprintf("collect2(1, 2, 3, **%s)", kw))
	p.out(fmt.Sprintf("dict(%s, zz_extra = 1, **{\"yy_extra_long_keyword\": 2})", kw))
	p.out(fmt.Sprintf("dict(**%s).keys()", kw))
	p.out(fmt.Sprintf("struct(**collect(**%s))", kw))
	p.out(fmt.Sprintf("module(\"made\", **%s)", kw))
	p.add("print(dir(module(\"made\", **%s)), collect(**%s))", kw, kw)
	p.tail = append(p.tail, p.pick([]string{
		"pass", "pass", "pass", "pass", "pass", "pass", fmt.Sprintf("print(fixed(**%s))", kw), fmt.Sprintf("print(collect(%s = 1, **%s))", names[0], kw),
		fmt.Sprintf("print(fixed(1, 2, **%s))", kw), "print(fixed(**{\"unexpected_keyword_b\": 1, \"unexpected_keyword_a\": 2}))",
		"print(collect(**{1: 2}))", fmt.Sprintf("print(dict(%s, **{%q: 1})[%q], collect2(**%s)[3])", kw, names[0], names[0], kw),
	}))
}

type family struct {
	name string
	f    func(*prog)
	w    int
}

var families = []family{
	{"dict-history", (*prog).dictOps, 5}, {"set-history", (*prog).setOps, 3}, {"dir", (*prog).dirListing, 3}, {"struct", (*prog).structs, 4},
	{"json", (*prog).jsonFam, 4}, {"hash-builtin", (*prog).hashFam, 1}, {"sorted-minmax", (*prog).sortFam, 2}, {"hint", (*prog).hintFam, 6},
	{"backtrace", (*prog).backtraceFam, 3}, {"format", (*prog).formatFam, 2}, {"time", (*prog).timeFam, 2}, {"math", (*prog).mathFam, 1},
	{"load", (*prog).loadFam, 2}, {"repr", (*prog).reprFam, 2}, {"kwargs", (*prog).kwargsFam, 2},
}

var familyWeight = func() int {
	n := 0
	for _, f := range families {
		n += f.w
	}
	return n
}()

// directed builds one directed program: a primary family, sometimes followed by a second one.
func directed(r *rand.Rand) (c Case, tags []string) {
	p := &prog{r: r, tags: map[string]bool{}, bits: r.Intn(64)}
	pickFam := func() family {
		k := r.Intn(familyWeight)
		for _, f := range families {
			if k < f.w {
				return f
			}
			k -= f.w
		}
		return families[0]
	}
	f := pickFam()
	p.family = f.name
	if p.chance(0.25) {
		// a non-failing family first, so that the primary one runs in a process/thread with some history
	pick2:
		for {
			g := pickFam()
			switch g.name {
			case "dict-history", "set-history", "dir", "struct", "sorted-minmax", "format", "time", "repr", "hash-builtin":
				if g.name != f.name {
					g.f(p)
					break pick2
				}
			}
		}
	}
	f.f(p)
	for t := range p.tags {
		tags = append(tags, t)
	}
	sort.Strings(tags)
	return Case{Bits: p.bits, Src: p.render(), Family: f.name}, tags
}
