package c03

import (
	"math/rand"
	"sync"
	"testing"
	"time"
)

func TestPerf(t *testing.T) {
	items := buildBatch(rand.New(rand.NewSource(5)))
	t0 := time.Now()
	byFam := map[string]time.Duration{}
	for _, it := range items {
		s := time.Now()
		it.ref = execute(nil, &it.c)
		byFam[it.c.Family] += time.Since(s)
	}
	t.Logf("sequential pass: %v", time.Since(t0))
	for f, d := range byFam {
		t.Logf("  %-14s %v", f, d)
	}
	t0 = time.Now()
	var wg sync.WaitGroup
	for g := 0; g < 8; g++ {
		wg.Add(1)
		go func() {
			defer wg.Done()
			for _, it := range items {
				execute(nil, &it.c)
			}
		}()
	}
	wg.Wait()
	t.Logf("8 goroutines x batch: %v", time.Since(t0))
}
